(* Proofs_C01.v — proofs about Model_C01 against Spec_C01. *)
From Coq Require Import List NArith ZArith Bool Lia.
Import ListNotations.
From Verif Require Import Base.Val gen.Tables_C01 C01.Model_C01 C01.Spec_C01 C01.Order_C01.

(* ------------------------------------------------------------------ the regenerated suffix table *)
(* the value suffix_value assigns to each PMS suffix kind orders the kinds as the statement says,
   with "no suffix" (0 in the code, rank_none in the spec) between _rc and _p; no value is 0, so
   the dead `int("0"+digits)` branch of cpv.py:208/214 is never taken *)
Definition suffix_table_order_stmt : Prop :=
  (forall k1 k2, cmpZ (suffix_val (kind_name k1)) (suffix_val (kind_name k2)) = cmpZ (rank k1) (rank k2))
  /\ (forall k, cmpZ (suffix_val (kind_name k)) 0 = cmpZ (rank k) rank_none)
  /\ (forall k, assoc_str (kind_name k) suffix_value <> None)
  /\ (forall k d, all_digits d = true -> parse_suffix (kind_name k ++ d) = (kind_name k, d)).

Lemma is_digit_bounds x : is_digit x = true -> (48 <= x <= 57)%N.
Proof. unfold is_digit. intros H. apply andb_true_iff in H as [H1 H2].
  apply N.leb_le in H1. apply N.leb_le in H2. lia. Qed.

Lemma parse_suffix_print k d :
  all_digits d = true -> parse_suffix (kind_name k ++ d) = (kind_name k, d).
Proof.
  intros H. unfold parse_suffix, suffix_regexp_names.
  destruct k; cbn -[all_digits]; rewrite ?H; try reflexivity.
  destruct d as [|x d']; [reflexivity|].
  assert (Hx : is_digit x = true) by (cbn in H; apply andb_true_iff in H; tauto).
  apply is_digit_bounds in Hx.
  destruct x as [|q]; [lia|]. cbn -[all_digits].
  destruct (Pos.eqb_spec 114 q) as [E|_]; [subst q; lia|].
  cbn -[all_digits]. rewrite ?H. reflexivity.
Qed.

Lemma suffix_table_order_proof : suffix_table_order_stmt.
Proof.
  repeat split.
  - intros k1 k2; destruct k1, k2; vm_compute; reflexivity.
  - intros k; destruct k; vm_compute; reflexivity.
  - intros k; destruct k; vm_compute; discriminate.
  - intros k d; apply parse_suffix_print.
Qed.

(* ================================================================== splitting printed versions *)
Lemma split_notin c s : ~ In c s -> split_on c s = [s].
Proof.
  induction s as [|x s IH]; intros H; cbn; [reflexivity|].
  destruct (N.eqb_spec x c) as [->|_]; [exfalso; apply H; left; reflexivity|].
  rewrite IH; [reflexivity|]. intros H'; apply H; right; exact H'.
Qed.

Lemma split_app c a b : ~ In c a -> split_on c (a ++ c :: b) = a :: split_on c b.
Proof.
  induction a as [|x a IH]; intros H; cbn.
  - rewrite N.eqb_refl. reflexivity.
  - destruct (N.eqb_spec x c) as [->|_]; [exfalso; apply H; left; reflexivity|].
    rewrite IH; [reflexivity|]. intros H'; apply H; right; exact H'.
Qed.

Lemma split_under p ss :
  ~ In 95%N p -> Forall (fun s => ~ In 95%N s) ss ->
  split_on 95 (p ++ concat (map (cons 95%N) ss)) = p :: ss.
Proof.
  revert p; induction ss as [|s ss IH]; intros p Hp Hs; cbn.
  - rewrite app_nil_r. apply split_notin; exact Hp.
  - inversion Hs as [|? ? H1 H2]; subst.
    rewrite split_app by exact Hp. rewrite IH by assumption. reflexivity.
Qed.

Lemma split_dot ns l :
  ns <> [] -> Forall (fun s => ~ In 46%N s) ns -> ~ In 46%N l ->
  split_on 46 (join_dot ns ++ l) = removelast ns ++ [last ns [] ++ l].
Proof.
  induction ns as [|x t IH]; intros Hne Hn Hl; [contradiction|].
  inversion Hn as [|? ? Hx Ht]; subst.
  destruct t as [|y t'].
  - cbn. apply split_notin. intros H; apply in_app_or in H as [H|H]; tauto.
  - change (join_dot (x :: y :: t')) with (x ++ 46%N :: join_dot (y :: t')).
    rewrite <- app_assoc. cbn [app]. rewrite split_app by exact Hx.
    rewrite IH by (try discriminate; assumption). reflexivity.
Qed.

(* ---- characters *)
Lemma digit_facts x : is_digit x = true -> x <> 46%N /\ x <> 95%N /\ is_alpha x = false.
Proof.
  intros H. apply is_digit_bounds in H. repeat split; try lia.
  unfold is_alpha.
  assert ((x <=? 90)%N = true) by (apply N.leb_le; lia).
  assert ((65 <=? x)%N = false) by (apply N.leb_gt; lia).
  assert ((97 <=? x)%N = false) by (apply N.leb_gt; lia).
  rewrite H1, H2. reflexivity.
Qed.

Lemma alpha_facts c : is_alpha c = true -> c <> 46%N /\ c <> 95%N.
Proof.
  unfold is_alpha. intros H. apply orb_true_iff in H as [H|H];
    apply andb_true_iff in H as [H1 H2]; apply N.leb_le in H1; apply N.leb_le in H2; lia.
Qed.

Lemma all_digits_notin s c : all_digits s = true -> is_digit c = false -> ~ In c s.
Proof.
  intros H Hc Hin. unfold all_digits in H. rewrite forallb_forall in H.
  apply H in Hin. congruence.
Qed.

Lemma kind_name_no95 k : ~ In 95%N (kind_name k).
Proof. destruct k; cbn; intros H; repeat (destruct H as [H|H]; [discriminate|]); exact H. Qed.

Lemma print_suffix_no95 s : all_digits (snd s) = true -> ~ In 95%N (print_suffix s).
Proof.
  intros H Hin. unfold print_suffix in Hin. apply in_app_or in Hin as [Hin|Hin].
  - exact (kind_name_no95 _ Hin).
  - revert Hin. apply all_digits_notin; [exact H|reflexivity].
Qed.

(* ---- well-formedness, unpacked *)
Definition numpart (a : vast) : str :=
  join_dot (nums a) ++ match letter a with Some c => [c] | None => [] end.

Record wf (a : vast) : Prop := {
  wf_ne : nums a <> [];
  wf_nums : Forall (fun s => s <> [] /\ all_digits s = true) (nums a);
  wf_letter : forall c, letter a = Some c -> is_alpha c = true;
  wf_sufs : Forall (fun s => all_digits (snd s) = true) (sufs a) }.

Lemma wf_vast_wf a : wf_vast a = true -> wf a.
Proof.
  unfold wf_vast. intros H.
  apply andb_true_iff in H as [H HD]. apply andb_true_iff in H as [H HC].
  apply andb_true_iff in H as [HA HB].
  constructor.
  - destruct (nums a); [discriminate|discriminate].
  - apply Forall_forall. intros s Hs. rewrite forallb_forall in HB. apply HB in Hs.
    unfold wf_digits in Hs. apply andb_true_iff in Hs as [Hs1 Hs2]. split; [|exact Hs2].
    destruct s; [discriminate|discriminate].
  - intros c Hc. rewrite Hc in HC. exact HC.
  - apply Forall_forall. intros s Hs. rewrite forallb_forall in HD. apply HD; exact Hs.
Qed.

Lemma print_vast_split a : wf a ->
  split_on 95 (print_vast a) = numpart a :: map print_suffix (sufs a).
Proof.
  intros W. unfold print_vast. rewrite app_assoc. fold (numpart a).
  rewrite <- (map_map print_suffix (cons 95%N)).
  apply split_under.
  - unfold numpart. intros H. apply in_app_or in H as [H|H].
    + assert (forall ns, Forall (fun s => s <> [] /\ all_digits s = true) ns -> ~ In 95%N (join_dot ns)) as X.
      { induction ns as [|x t IH]; intros F; [intros []|].
        inversion F as [|? ? [_ Hx] Ht]; subst. destruct t as [|y t'].
        - cbn. apply all_digits_notin; [exact Hx|reflexivity].
        - change (join_dot (x :: y :: t')) with (x ++ 46%N :: join_dot (y :: t')).
          intros Hin. apply in_app_or in Hin as [Hin|[Hin|Hin]].
          + revert Hin. apply all_digits_notin; [exact Hx|reflexivity].
          + discriminate.
          + exact (IH Ht Hin). }
      exact (X _ (wf_nums a W) H).
    + destruct (letter a) as [c|] eqn:E; [|exact H].
      destruct H as [H|[]]. subst c. apply (wf_letter a W) in E. apply alpha_facts in E. lia.
  - apply Forall_forall. intros s Hs. apply in_map_iff in Hs as [x [<- Hx]].
    apply print_suffix_no95. pose proof (wf_sufs a W) as F. rewrite Forall_forall in F. apply F; exact Hx.
Qed.

(* ================================================================== numeric components *)
Lemma comp_cmp_false a b : comp_cmp false a b = pms_comp a b.
Proof.
  unfold comp_cmp, pms_comp. destruct (str_eqb a b) eqn:E.
  - apply str_eqb_eq in E. subst b. destruct (lead0 a || lead0 a); [rewrite str_cmp_refl|rewrite cmpN_refl]; reflexivity.
  - destruct (lead0 a), (lead0 b); reflexivity.
Qed.

Lemma comp_cmp_true a b : comp_cmp true a b = cmpN (int_of a) (int_of b).
Proof.
  unfold comp_cmp. destruct (str_eqb a b) eqn:E; [|reflexivity].
  apply str_eqb_eq in E. subst b. rewrite cmpN_refl. reflexivity.
Qed.

Lemma comp_cmp_refl f a : comp_cmp f a a = 0%Z.
Proof. unfold comp_cmp. rewrite str_eqb_refl. reflexivity. Qed.

Lemma comps_cmp_refl f l : comps_cmp f l l = 0%Z.
Proof. revert f; induction l as [|x l IH]; intros f; cbn; [reflexivity|]. rewrite comp_cmp_refl. cbn. apply IH. Qed.

Lemma cmp_len_S n m : cmp_len (S n) (S m) = cmp_len n m.
Proof. reflexivity. Qed.

Lemma comps_rest l1 l2 :
  (let c := comps_cmp false l1 l2 in
   if negb (Z.eqb c 0) then c else cmp_len (length l1) (length l2)) = pms_rest l1 l2.
Proof.
  revert l2; induction l1 as [|x t1 IH]; intros [|y t2]; try reflexivity.
  cbn [comps_cmp pms_rest length]. rewrite comp_cmp_false, cmp_len_S.
  destruct (Z.eqb (pms_comp x y) 0) eqn:E.
  - apply IH.
  - cbn zeta. rewrite E. reflexivity.
Qed.

Lemma comps_first x t1 y t2 :
  (let c := comps_cmp true (x :: t1) (y :: t2) in
   if negb (Z.eqb c 0) then c else cmp_len (length (x :: t1)) (length (y :: t2)))
  = pms_nums (x :: t1) (y :: t2).
Proof.
  cbn [comps_cmp pms_nums length]. rewrite comp_cmp_true, cmp_len_S.
  destruct (Z.eqb (cmpN (int_of x) (int_of y)) 0) eqn:E.
  - apply comps_rest.
  - cbn zeta. rewrite E. reflexivity.
Qed.

(* ---- the letter *)
Definition letter_key (l : option N) : Z := match l with Some c => Z.of_N c | None => (-1)%Z end.

Lemma last_digit_not_alpha s : s <> [] -> all_digits s = true -> is_alpha (last s 0%N) = false.
Proof.
  intros Hne H. destruct (exists_last Hne) as [s' [x ->]]. rewrite last_last.
  unfold all_digits in H. rewrite forallb_app in H. apply andb_true_iff in H as [_ H].
  cbn in H. rewrite andb_true_r in H. apply digit_facts in H. tauto.
Qed.

Lemma is_nil_snoc {A} (l : list A) x : is_nil (l ++ [x]) = false.
Proof. destruct l; reflexivity. Qed.

Lemma pull_letter_print a : wf a ->
  pull_letter (split_on 46 (numpart a)) = (nums a, letter_key (letter a)).
Proof.
  intros W. pose proof (wf_nums a W) as F. pose proof (wf_ne a W) as Hne.
  assert (Hlast : @last (list N) (nums a) [] <> [] /\ all_digits (@last (list N) (nums a) []) = true).
  { rewrite Forall_forall in F. apply F.
    destruct (exists_last Hne) as [l' [z E]]. rewrite E, last_last. apply in_or_app; right; left; reflexivity. }
  unfold numpart. rewrite split_dot.
  - unfold pull_letter. rewrite last_last.
    destruct (letter a) as [c|] eqn:E; cbn [letter_key].
    + rewrite last_last. rewrite (wf_letter a W c E).
      rewrite is_nil_snoc.
      cbn [negb andb]. rewrite !removelast_last.
      rewrite <- app_removelast_last by exact Hne. reflexivity.
    + rewrite app_nil_r. destruct Hlast as [H1 H2]. rewrite (last_digit_not_alpha _ H1 H2).
      rewrite andb_false_r. rewrite <- app_removelast_last by exact Hne. reflexivity.
  - exact Hne.
  - apply Forall_forall. intros s Hs. rewrite Forall_forall in F. destruct (F s Hs) as [_ Hd].
    apply all_digits_notin; [exact Hd|reflexivity].
  - destruct (letter a) as [c|] eqn:E; [|intros []].
    intros [H|[]]. subst c. apply (wf_letter a W) in E. apply alpha_facts in E. lia.
Qed.

Lemma pms_letter_key l1 l2 : pms_letter l1 l2 = cmpZ (letter_key l1) (letter_key l2).
Proof.
  destruct l1 as [x|], l2 as [y|]; cbn [pms_letter letter_key].
  - apply cmpN_cmpZ.
  - symmetry. apply cmpZ_gt. lia.
  - symmetry. apply cmpZ_lt. lia.
  - reflexivity.
Qed.

(* the body of num_cmp after the string-equality shortcut *)
Definition num_long (fixfirst : bool) (p1 p2 : str) : Z :=
  let '(c1, l1) := pull_letter (split_on 46 p1) in
  let '(c2, l2) := pull_letter (split_on 46 p2) in
  let c := comps_cmp fixfirst c1 c2 in
  if negb (Z.eqb c 0) then c else
  let c := cmp_len (length c1) (length c2) in
  if negb (Z.eqb c 0) then c else
  if Z.eqb l1 l2 then 0%Z else cmpZ l1 l2.

Lemma num_cmp_unfold f p1 p2 : num_cmp f p1 p2 = if str_eqb p1 p2 then 0%Z else num_long f p1 p2.
Proof. reflexivity. Qed.

Lemma num_long_refl f p : num_long f p p = 0%Z.
Proof.
  unfold num_long. destruct (pull_letter (split_on 46 p)) as [c l].
  rewrite comps_cmp_refl, cmp_len_refl, Z.eqb_refl. cbn. rewrite Z.eqb_refl. reflexivity.
Qed.

Lemma num_cmp_long f p1 p2 : num_cmp f p1 p2 = num_long f p1 p2.
Proof.
  rewrite num_cmp_unfold. destruct (str_eqb p1 p2) eqn:E; [|reflexivity].
  apply str_eqb_eq in E. subst. symmetry. apply num_long_refl.
Qed.

Lemma num_cmp_print a b : wf a -> wf b ->
  num_cmp true (numpart a) (numpart b)
  = (let c := pms_nums (nums a) (nums b) in
     if negb (Z.eqb c 0) then c else pms_letter (letter a) (letter b)).
Proof.
  intros Wa Wb. rewrite num_cmp_long. unfold num_long.
  rewrite (pull_letter_print a Wa), (pull_letter_print b Wb).
  pose proof (wf_ne a Wa) as Ha. pose proof (wf_ne b Wb) as Hb.
  destruct (nums a) as [|x t1]; [contradiction|]. destruct (nums b) as [|y t2]; [contradiction|].
  pose proof (comps_first x t1 y t2) as E. cbn zeta in E |- *.
  destruct (Z.eqb (comps_cmp true (x :: t1) (y :: t2)) 0) eqn:E1; cbn [negb] in E |- *.
  - rewrite <- E.
    destruct (Z.eqb (cmp_len (length (x :: t1)) (length (y :: t2))) 0) eqn:E2; cbn [negb].
    + rewrite pms_letter_key.
      destruct (Z.eqb_spec (letter_key (letter a)) (letter_key (letter b))) as [->|_];
        [rewrite cmpZ_refl|]; reflexivity.
    + reflexivity.
  - rewrite <- E. rewrite E1. reflexivity.
Qed.

(* ================================================================== suffixes *)
Lemma kind_name_inj k1 k2 : kind_name k1 = kind_name k2 -> k1 = k2.
Proof. destruct k1, k2; cbn; intros H; try reflexivity; discriminate. Qed.

Lemma kind_eqb_eq k1 k2 : kind_eqb k1 k2 = true <-> k1 = k2.
Proof. destruct k1, k2; cbn; split; intros H; try reflexivity; discriminate. Qed.

Lemma suffix_num_eq d : suffix_num d = suf_num d.
Proof. reflexivity. Qed.

Lemma suf_loop_refl l : suf_loop l l = None.
Proof. induction l as [|s l IH]; cbn; [reflexivity|]. rewrite str_eqb_refl. exact IH. Qed.

Lemma suf_loop_print sa sb :
  Forall (fun s => all_digits (snd s) = true) sa -> Forall (fun s => all_digits (snd s) = true) sb ->
  suf_loop (map print_suffix sa) (map print_suffix sb)
  = (let c := pms_sufs sa sb in if Z.eqb c 0 then None else Some c).
Proof.
  revert sb; induction sa as [|[k1 d1] ta IH]; intros [|[k2 d2] tb] Fa Fb.
  - reflexivity.
  - inversion Fb as [|? ? H2 _]; subst. cbn [snd] in H2.
    cbn [map suf_loop pms_sufs]. change (print_suffix (k2, d2)) with (kind_name k2 ++ d2).
    rewrite (parse_suffix_print k2 d2 H2). destruct k2; reflexivity.
  - inversion Fa as [|? ? H1 _]; subst. cbn [snd] in H1.
    cbn [map suf_loop pms_sufs]. change (print_suffix (k1, d1)) with (kind_name k1 ++ d1).
    rewrite (parse_suffix_print k1 d1 H1). destruct k1; reflexivity.
  - inversion Fa as [|? ? H1 Fa']; subst. inversion Fb as [|? ? H2 Fb']; subst. cbn [snd] in H1, H2.
    cbn [map suf_loop pms_sufs].
    destruct (str_eqb (print_suffix (k1, d1)) (print_suffix (k2, d2))) eqn:E.
    + apply str_eqb_eq in E. unfold print_suffix in E; cbn [fst snd] in E.
      assert (P : (kind_name k1, d1) = (kind_name k2, d2)).
      { rewrite <- (parse_suffix_print k1 d1 H1), <- (parse_suffix_print k2 d2 H2), E. reflexivity. }
      injection P as P1 P2. apply kind_name_inj in P1. subst k2 d2.
      assert (Z0 : pms_suffix (k1, d1) (k1, d1) = 0%Z).
      { unfold pms_suffix; cbn [fst snd]. rewrite (proj2 (kind_eqb_eq k1 k1) eq_refl). apply cmpN_refl. }
      rewrite Z0. cbn. apply IH; assumption.
    + change (print_suffix (k1, d1)) with (kind_name k1 ++ d1).
      change (print_suffix (k2, d2)) with (kind_name k2 ++ d2).
      rewrite (parse_suffix_print k1 d1 H1), (parse_suffix_print k2 d2 H2).
      destruct suffix_table_order_proof as [T1 _]. cbn zeta. rewrite T1.
      unfold pms_suffix; cbn [fst snd].
      change (suffix_num d1) with (suf_num d1). change (suffix_num d2) with (suf_num d2).
      destruct (kind_eqb k1 k2) eqn:K.
      * apply kind_eqb_eq in K. subst k2. rewrite cmpZ_refl. cbn [Z.eqb negb].
        destruct (Z.eqb (cmpN (suf_num d1) (suf_num d2)) 0) eqn:E2; cbn [negb].
        -- apply IH; assumption.
        -- cbn zeta. rewrite E2. reflexivity.
      * destruct k1, k2; try discriminate K; reflexivity.
Qed.

(* ================================================================== ver_cmp on printed versions *)
Definition ver_long (v1 : str) (r1 : option N) (v2 : str) (r2 : option N) : Z :=
  let parts1 := split_on 95 v1 in
  let parts2 := split_on 95 v2 in
  let c := num_cmp true (hd [] parts1) (hd [] parts2) in
  if negb (Z.eqb c 0) then c else
  match suf_loop (tl parts1) (tl parts2) with
  | Some c => c
  | None => rev_cmp r1 r2
  end.

Lemma ver_cmp_long v1 r1 v2 r2 : ver_cmp v1 r1 v2 r2 = ver_long v1 r1 v2 r2.
Proof.
  change (ver_cmp v1 r1 v2 r2) with (if str_eqb v1 v2 then rev_cmp r1 r2 else ver_long v1 r1 v2 r2).
  destruct (str_eqb v1 v2) eqn:E; [|reflexivity].
  apply str_eqb_eq in E. subst v2. unfold ver_long.
  rewrite num_cmp_long, num_long_refl, suf_loop_refl. reflexivity.
Qed.

Lemma ver_cmp_is_pms_proof : forall a b r1 r2,
  wf_vast a = true -> wf_vast b = true ->
  ver_cmp (print_vast a) r1 (print_vast b) r2 = pms_cmp a (rev_val r1) b (rev_val r2).
Proof.
  intros a b r1 r2 Ha Hb. apply wf_vast_wf in Ha, Hb.
  rewrite ver_cmp_long. unfold ver_long.
  rewrite (print_vast_split a Ha), (print_vast_split b Hb). cbn [hd tl].
  rewrite (num_cmp_print a b Ha Hb).
  rewrite (suf_loop_print _ _ (wf_sufs a Ha) (wf_sufs b Hb)).
  unfold pms_cmp, rev_cmp. cbn zeta.
  destruct (Z.eqb (pms_nums (nums a) (nums b)) 0) eqn:E1; cbn [negb]; [|rewrite E1; reflexivity].
  destruct (Z.eqb (pms_letter (letter a) (letter b)) 0) eqn:E2; cbn [negb]; [|reflexivity].
  destruct (Z.eqb (pms_sufs (sufs a) (sufs b)) 0) eqn:E3; cbn [negb]; reflexivity.
Qed.

(* the pinned tree's rule for the first component is NOT the PMS algorithm: 09 vs 1 *)
Lemma ver_cmp_orig_refuted :
  exists a b, wf_vast a = true /\ wf_vast b = true /\
    ver_cmp_orig (print_vast a) None (print_vast b) None <> pms_cmp a 0 b 0.
Proof.
  exists {| nums := [[48;57]%N]; letter := None; sufs := [] |},
         {| nums := [[49]%N]; letter := None; sufs := [] |}.
  repeat split; vm_compute; discriminate.
Qed.

(* ================================================================== the PMS order is a total preorder *)
(* Every level of pms_cmp is a comparison of keys in a linearly ordered domain.  A non-first
   component maps to (class, string key, integer key): class 0 = leading zero (ordered by the
   zero-stripped string), class 1 = no leading zero (ordered by value); a leading-zero component
   is below every other one under BOTH rules of Algorithm 3.4, which is why the mixed rule is one
   linear preorder. *)
Definition cclass (s : str) : Z := if lead0 s then 0%Z else 1%Z.
Definition strkey (s : str) : str := if lead0 s then rstrip0 s else [].
Definition intkey (s : str) : N := if lead0 s then 0%N else int_of s.
Definition kcomp : str -> str -> Z :=
  thenc (fun a b => cmpZ (cclass a) (cclass b))
 (thenc (fun a b => str_cmp (strkey a) (strkey b))
        (fun a b => cmpN (intkey a) (intkey b))).

Lemma good_kcomp : good kcomp.
Proof.
  unfold kcomp. apply good_thenc; [apply (good_pull cclass _ good_cmpZ)|].
  apply good_thenc; [apply (good_pull strkey _ good_str_cmp)|apply (good_pull intkey _ good_cmpN)].
Qed.

Lemma rstrip0_cons c t :
  rstrip0 (c :: t) = if is_nil (rstrip0 t) && N.eqb c 48 then [] else c :: rstrip0 t.
Proof. cbn. destruct (rstrip0 t); [destruct (N.eqb c 48)|]; reflexivity. Qed.

Lemma pms_comp_kcomp a b :
  a <> [] -> all_digits a = true -> b <> [] -> all_digits b = true -> pms_comp a b = kcomp a b.
Proof.
  intros Ha Da Hb Db. destruct a as [|x a']; [contradiction|]. destruct b as [|y b']; [contradiction|].
  assert (Hx : is_digit x = true) by (cbn in Da; apply andb_true_iff in Da; tauto).
  assert (Hy : is_digit y = true) by (cbn in Db; apply andb_true_iff in Db; tauto).
  apply is_digit_bounds in Hx, Hy.
  unfold pms_comp, kcomp, thenc, cclass, strkey, intkey. cbn [lead0].
  destruct (N.eqb_spec x 48) as [Ex|Ex]; destruct (N.eqb_spec y 48) as [Ey|Ey]; cbn [orb].
  - rewrite cmpZ_refl. cbn [Z.eqb]. rewrite cmpN_refl.
    destruct (Z.eqb (str_cmp (rstrip0 (x :: a')) (rstrip0 (y :: b'))) 0) eqn:E; [|reflexivity].
    apply Z.eqb_eq in E. exact E.
  - subst x. rewrite !rstrip0_cons. replace (N.eqb y 48) with false by (symmetry; apply N.eqb_neq; exact Ey).
    rewrite andb_false_r. rewrite N.eqb_refl, andb_true_r.
    assert (C : N.compare 48 y = Lt) by (apply N.compare_lt_iff; lia).
    change (cmpZ 0 1) with (-1)%Z. cbn [Z.eqb].
    destruct (is_nil (rstrip0 a')); cbn [str_cmp]; [reflexivity|]. rewrite C. reflexivity.
  - subst y. rewrite !rstrip0_cons. replace (N.eqb x 48) with false by (symmetry; apply N.eqb_neq; exact Ex).
    rewrite andb_false_r. rewrite N.eqb_refl, andb_true_r.
    assert (C : N.compare x 48 = Gt) by (apply N.compare_gt_iff; lia).
    change (cmpZ 1 0) with 1%Z. cbn [Z.eqb].
    destruct (is_nil (rstrip0 b')); cbn [str_cmp]; [reflexivity|]. rewrite C. reflexivity.
  - rewrite cmpZ_refl. cbn. reflexivity.
Qed.

Lemma pms_rest_lex l1 l2 : pms_rest l1 l2 = list_lex pms_comp l1 l2.
Proof. revert l2; induction l1 as [|x t IH]; intros [|y t2]; cbn; try reflexivity. rewrite IH. reflexivity. Qed.

Definition sufkey (s : skind * str) : Z * N := (rank (fst s), suf_num (snd s)).
Definition sufkey_cmp : Z * N -> Z * N -> Z :=
  thenc (fun a b => cmpZ (fst a) (fst b)) (fun a b => cmpN (snd a) (snd b)).
Definition suf_keys (l : list (skind * str)) : list (Z * N) := map sufkey l ++ [(rank_none, 0%N)].

Lemma good_sufkey_cmp : good sufkey_cmp.
Proof. apply good_thenc; [apply (good_pull fst _ good_cmpZ)|apply (good_pull snd _ good_cmpN)]. Qed.

Lemma pms_suffix_key s1 s2 : pms_suffix s1 s2 = sufkey_cmp (sufkey s1) (sufkey s2).
Proof.
  destruct s1 as [k1 d1], s2 as [k2 d2]. unfold pms_suffix, sufkey_cmp, sufkey, thenc. cbn [fst snd].
  destruct (kind_eqb k1 k2) eqn:K.
  - apply kind_eqb_eq in K. subst. rewrite cmpZ_refl. reflexivity.
  - destruct k1, k2; try discriminate K; reflexivity.
Qed.

Lemma pms_sufs_keys l1 l2 : pms_sufs l1 l2 = list_lex sufkey_cmp (suf_keys l1) (suf_keys l2).
Proof.
  revert l2; induction l1 as [|s1 t1 IH]; intros [|s2 t2].
  - reflexivity.
  - destruct s2 as [[] d]; reflexivity.
  - destruct s1 as [[] d]; reflexivity.
  - cbn [pms_sufs]. unfold suf_keys. cbn [map app list_lex].
    rewrite <- pms_suffix_key. fold (suf_keys t1). fold (suf_keys t2). rewrite IH. reflexivity.
Qed.

Definition vkey : Type := (vast * N)%type.
Definition first_int (t : vkey) : N := int_of (hd [] (nums (fst t))).
Definition kcmp : vkey -> vkey -> Z :=
  thenc (fun x y => cmpN (first_int x) (first_int y))
 (thenc (fun x y => list_lex kcomp (tl (nums (fst x))) (tl (nums (fst y))))
 (thenc (fun x y => cmpZ (letter_key (letter (fst x))) (letter_key (letter (fst y))))
 (thenc (fun x y => list_lex sufkey_cmp (suf_keys (sufs (fst x))) (suf_keys (sufs (fst y))))
        (fun x y => cmpN (snd x) (snd y))))).

Lemma good_kcmp : good kcmp.
Proof.
  unfold kcmp.
  apply good_thenc; [apply (good_pull first_int _ good_cmpN)|].
  apply good_thenc; [apply (good_pull (fun x : vkey => tl (nums (fst x))) _ (good_list_lex _ good_kcomp))|].
  apply good_thenc; [apply (good_pull (fun x : vkey => letter_key (letter (fst x))) _ good_cmpZ)|].
  apply good_thenc; [apply (good_pull (fun x : vkey => suf_keys (sufs (fst x))) _ (good_list_lex _ good_sufkey_cmp))|].
  apply (good_pull (@snd vast N) _ good_cmpN).
Qed.

Lemma pms_cmp_kcmp a ra b rb : wf a -> wf b -> pms_cmp a ra b rb = kcmp (a, ra) (b, rb).
Proof.
  intros Wa Wb. unfold pms_cmp, kcmp, thenc, first_int. cbn [fst snd].
  pose proof (wf_ne a Wa) as Ha. pose proof (wf_ne b Wb) as Hb.
  pose proof (wf_nums a Wa) as Fa. pose proof (wf_nums b Wb) as Fb.
  destruct (nums a) as [|x t1]; [contradiction|]. destruct (nums b) as [|y t2]; [contradiction|].
  cbn [hd tl pms_nums].
  inversion Fa as [|? ? _ Fa']; subst. inversion Fb as [|? ? _ Fb']; subst.
  assert (R : pms_rest t1 t2 = list_lex kcomp t1 t2).
  { rewrite pms_rest_lex. apply list_lex_ext. intros u v Hu Hv.
    rewrite Forall_forall in Fa', Fb'. destruct (Fa' u Hu), (Fb' v Hv). apply pms_comp_kcomp; assumption. }
  rewrite R, pms_letter_key, pms_sufs_keys.
  destruct (Z.eqb (cmpN (int_of x) (int_of y)) 0) eqn:E1.
  - destruct (Z.eqb (list_lex kcomp t1 t2) 0) eqn:E2; cbn [negb]; [|reflexivity].
    destruct (Z.eqb (cmpZ (letter_key (letter a)) (letter_key (letter b))) 0) eqn:E3; cbn [negb]; [|reflexivity].
    destruct (Z.eqb (list_lex sufkey_cmp (suf_keys (sufs a)) (suf_keys (sufs b))) 0) eqn:E4; cbn [negb]; reflexivity.
  - rewrite E1. reflexivity.
Qed.

(* ---- the order laws, on version texts *)
Definition total_preorder_stmt : Prop :=
  forall v1 v2 v3 r1 r2 r3, is_version v1 -> is_version v2 -> is_version v3 ->
    (ver_cmp v1 r1 v2 r2 = (-1)%Z \/ ver_cmp v1 r1 v2 r2 = 0%Z \/ ver_cmp v1 r1 v2 r2 = 1%Z)
    /\ ver_cmp v1 r1 v1 r1 = 0%Z
    /\ ver_cmp v2 r2 v1 r1 = (- ver_cmp v1 r1 v2 r2)%Z
    /\ ((ver_cmp v1 r1 v2 r2 <= 0)%Z -> (ver_cmp v2 r2 v3 r3 <= 0)%Z -> (ver_cmp v1 r1 v3 r3 <= 0)%Z)
    /\ (ver_cmp v1 r1 v2 r2 = 0%Z -> ver_cmp v1 r1 v3 r3 = ver_cmp v2 r2 v3 r3).

Lemma ver_cmp_kcmp a b r1 r2 : wf_vast a = true -> wf_vast b = true ->
  ver_cmp (print_vast a) r1 (print_vast b) r2 = kcmp (a, rev_val r1) (b, rev_val r2).
Proof.
  intros Ha Hb. rewrite ver_cmp_is_pms_proof by assumption.
  apply pms_cmp_kcmp; apply wf_vast_wf; assumption.
Qed.

Lemma ver_cmp_total_preorder_proof : total_preorder_stmt.
Proof.
  intros v1 v2 v3 r1 r2 r3 [a [Wa <-]] [b [Wb <-]] [c [Wc <-]].
  rewrite !ver_cmp_kcmp by assumption.
  pose proof good_kcmp as G.
  repeat split.
  - apply (g_range G).
  - apply (g_refl G).
  - apply (g_anti G).
  - apply (g_le_trans _ G).
  - apply (g_eq G).
Qed.

(* non-vacuity: the hypotheses are satisfiable by distinct, non-trivially related versions *)
Example preorder_example :
  let v s := {| nums := [[49]%N; s]; letter := None; sufs := [] |} in
  wf_vast (v [48;49]%N) = true /\ wf_vast (v [49]%N) = true /\ wf_vast (v [49;48]%N) = true
  /\ ver_cmp (print_vast (v [48;49]%N)) None (print_vast (v [49]%N)) None = (-1)%Z      (* 1.01 < 1.1 *)
  /\ ver_cmp (print_vast (v [49]%N)) None (print_vast (v [49;48]%N)) (Some 2%N) = (-1)%Z (* 1.1 < 1.10-r2 *)
  /\ ver_cmp (print_vast (v [49;48]%N)) None (print_vast (v [49;48;48]%N)) None = (-1)%Z.
Proof. vm_compute. repeat split; reflexivity. Qed.

(* ================================================================== version restrictions *)
Definition version_match_agrees_stmt : Prop :=
  forall op negate a r p rp, (op <= 5)%N -> wf_vast a = true -> wf_vast p = true ->
    version_match op negate (print_vast a) r (print_vast p) rp
    = spec_match op negate a (rev_val r) p (rev_val rp).

Lemma pms_cmp_range a ra b rb : wf_vast a = true -> wf_vast b = true ->
  pms_cmp a ra b rb = (-1)%Z \/ pms_cmp a ra b rb = 0%Z \/ pms_cmp a ra b rb = 1%Z.
Proof.
  intros Ha Hb. rewrite pms_cmp_kcmp by (apply wf_vast_wf; assumption). apply (g_range good_kcmp).
Qed.

Lemma version_match_agrees_proof : version_match_agrees_stmt.
Proof.
  intros op negate a r p rp Hop Ha Hp.
  assert (C : (op = 0 \/ op = 1 \/ op = 2 \/ op = 3 \/ op = 4 \/ op = 5)%N) by lia.
  unfold version_match, spec_match.
  destruct C as [-> | [-> | [-> | [-> | [-> | -> ]]]]].
  1: replace (op_vals 0) with (Some (false, [(-1)%Z])) by (vm_compute; reflexivity).
  2: replace (op_vals 1) with (Some (false, [(-1)%Z; 0%Z])) by (vm_compute; reflexivity).
  3: replace (op_vals 2) with (Some (false, [0%Z])) by (vm_compute; reflexivity).
  4: replace (op_vals 3) with (Some (false, [0%Z; 1%Z])) by (vm_compute; reflexivity).
  5: replace (op_vals 4) with (Some (false, [1%Z])) by (vm_compute; reflexivity).
  6: replace (op_vals 5) with (Some (true, [0%Z])) by (vm_compute; reflexivity).
  all: cbn [N.eqb Pos.eqb]; rewrite ver_cmp_is_pms_proof by assumption; cbn [rev_val];
    match goal with |- context [pms_cmp ?x ?rx ?y ?ry] =>
      destruct (pms_cmp_range x rx y ry Hp Ha) as [E|[E|E]]; rewrite E; reflexivity end.
Qed.

Example version_match_example :
  let v := {| nums := [[49]%N; [48]%N]; letter := None; sufs := [(Rc, [49]%N)] |} in   (* 1.0_rc1 *)
  let p := {| nums := [[49]%N; [48;48]%N]; letter := None; sufs := [(Rc, [48;49]%N)] |} in (* 1.00_rc01 *)
  wf_vast v = true /\ wf_vast p = true
  /\ version_match 2 false (print_vast v) None (print_vast p) (Some 0%N) = true       (* =  matches the respelling *)
  /\ version_match 5 false (print_vast v) None (print_vast p) (Some 3%N) = true       (* ~  ignores -r3 *)
  /\ version_match 2 false (print_vast v) None (print_vast p) (Some 3%N) = false
  /\ version_match 4 true (print_vast v) None (print_vast p) (Some 3%N) = false.      (* not >  *)
Proof. vm_compute. repeat split; reflexivity. Qed.

(* ================================================================== CPV rich comparisons *)
Definition cpv_cmp : cpv -> cpv -> Z :=
  thenc (fun a b => str_cmp (cat a) (cat b)) (thenc (fun a b => str_cmp (pkg a) (pkg b)) cpv_vcmp).

Definition cpv_ops_stmt : Prop :=
  forall a b,
    cpv_eq a b = Z.eqb (cpv_cmp a b) 0 /\ cpv_ne a b = negb (Z.eqb (cpv_cmp a b) 0)
    /\ cpv_lt a b = Z.ltb (cpv_cmp a b) 0 /\ cpv_le a b = Z.leb (cpv_cmp a b) 0
    /\ cpv_gt a b = Z.gtb (cpv_cmp a b) 0 /\ cpv_ge a b = Z.geb (cpv_cmp a b) 0.

Lemma str_eqb_false_cmp a b : str_eqb a b = false -> str_cmp a b = (-1)%Z \/ str_cmp a b = 1%Z.
Proof.
  intros H. destruct (g_range good_str_cmp a b) as [E|[E|E]]; auto.
  apply str_eqb_cmp in E. congruence.
Qed.

Lemma cpv_ops_proof : cpv_ops_stmt.
Proof.
  intros a b. unfold cpv_ne, cpv_eq, cpv_lt, cpv_le, cpv_gt, cpv_ge, cpv_rich, same_key, cpv_cmp, thenc.
  destruct (str_eqb (cat a) (cat b)) eqn:E1.
  - rewrite (proj1 (str_eqb_cmp _ _) E1). cbn [Z.eqb andb].
    destruct (str_eqb (pkg a) (pkg b)) eqn:E2.
    + rewrite (proj1 (str_eqb_cmp _ _) E2). cbn [Z.eqb andb]. repeat split; reflexivity.
    + destruct (str_eqb_false_cmp _ _ E2) as [E|E]; rewrite E; repeat split; reflexivity.
  - destruct (str_eqb_false_cmp _ _ E1) as [E|E]; rewrite E; repeat split; reflexivity.
Qed.

(* the order behind the operators is a total preorder on CPVs whose version is valid *)
Definition ckey : Type := (str * str * vkey)%type.
Definition ckcmp : ckey -> ckey -> Z :=
  thenc (fun x y => str_cmp (fst (fst x)) (fst (fst y)))
 (thenc (fun x y => str_cmp (snd (fst x)) (snd (fst y)))
        (fun x y => kcmp (snd x) (snd y))).
Lemma good_ckcmp : good ckcmp.
Proof.
  apply good_thenc; [apply (good_pull (fun x : ckey => fst (fst x)) _ good_str_cmp)|].
  apply good_thenc; [apply (good_pull (fun x : ckey => snd (fst x)) _ good_str_cmp)|].
  apply (good_pull (@snd (str * str) vkey) _ good_kcmp).
Qed.

Definition cpv_valid (a : cpv) : Prop := is_version (ver a).

Definition cpv_order_stmt : Prop :=
  forall a b c, cpv_valid a -> cpv_valid b -> cpv_valid c ->
    (cpv_cmp a b = (-1)%Z \/ cpv_cmp a b = 0%Z \/ cpv_cmp a b = 1%Z)
    /\ cpv_cmp a a = 0%Z
    /\ cpv_cmp b a = (- cpv_cmp a b)%Z
    /\ ((cpv_cmp a b <= 0)%Z -> (cpv_cmp b c <= 0)%Z -> (cpv_cmp a c <= 0)%Z)
    /\ (cpv_cmp a b = 0%Z -> cpv_cmp a c = cpv_cmp b c).

Lemma cpv_cmp_key a b va vb :
  wf_vast va = true -> print_vast va = ver a -> wf_vast vb = true -> print_vast vb = ver b ->
  cpv_cmp a b = ckcmp (cat a, pkg a, (va, rev_val (rev a))) (cat b, pkg b, (vb, rev_val (rev b))).
Proof.
  intros Wa Pa Wb Pb. unfold cpv_cmp, ckcmp, thenc, cpv_vcmp. cbn [fst snd].
  rewrite <- Pa, <- Pb, ver_cmp_kcmp by assumption. reflexivity.
Qed.

Lemma cpv_order_proof : cpv_order_stmt.
Proof.
  intros a b c [va [Wa Pa]] [vb [Wb Pb]] [vc [Wc Pc]].
  rewrite (cpv_cmp_key a b va vb), (cpv_cmp_key a a va va), (cpv_cmp_key b a vb va),
    (cpv_cmp_key b c vb vc), (cpv_cmp_key a c va vc) by assumption.
  pose proof good_ckcmp as G.
  repeat split.
  - apply (g_range G). - apply (g_refl G). - apply (g_anti G).
  - apply (g_le_trans _ G). - apply (g_eq G).
Qed.
