From Coq Require Import List NArith ZArith Bool.
From Verif Require Import Base.Val C18.Fs C47.Model_C47 C47.Spec_C47.
Import ListNotations.
Definition F (p : path) (d : list N) (m : N) : path * node := (p, File d m 0 0 NOW 0).
Definition D (p : path) (m : N) : path * node := (p, Dir m 0 0 NOW).
Definition L (p : path) (t : list N) : path * node := (p, Sym t 0 0 NOW).
Definition SD (t : tree) : option slot := Some (SDir t).
Definition SF : option slot := Some SFile.
Definition NS : option slot := None.

Definition c : case := (let t0 : tree := (@nil (path * node)) in
let t1 : tree := [D [[99;97;116]%N] 493%N; F [[99;97;116]%N; [120;46;101;98;117;105;108;100;49]%N] [77;110]%N 420%N; D [[109;101;116;97;100;97;116;97]%N] 493%N; F [[109;101;116;97;100;97;116;97]%N; [98;48]%N] [77;115;106;104]%N 420%N] in
mkcase true false (mksrv 200%N false true (Some [34;110;50;34]%N) (@None (str)) (@nil (N)) true) (t0, false) 0%nat (mkst SF NS NS (@None (list N)) (@None (list N))) false (mksrv 200%N false false (Some [34;109;49;34]%N) (@None (str)) [1%N] true) (t1, true) 2%N [1%N; 18%N] (mkst SF NS NS (@None (list N)) (@None (list N))) [(mkcp 0%nat false (mkst SF NS NS (@None (list N)) (@None (list N))) true 2%N (mkst SF NS NS (@None (list N)) (@None (list N)))); (mkcp 1%nat false (mkst SF NS NS (Some (@nil N)) (@None (list N))) false 0%N (mkst SF NS NS (Some (@nil N)) (@None (list N))))]).
Eval vm_compute in (run_case c).
Eval vm_compute in (map step_tag (fst (sync (c_fixed c) (c_force c) (c_srv c) (c_tar c) (c_chunk c) (c_s0 c))), point_codes c, final_code c).
