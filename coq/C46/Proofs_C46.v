(* Proofs_C46.v *)
From Coq Require Import List NArith ZArith Bool Lia.
Import ListNotations.
From Verif Require Import Base.Val C46.Model_C46 C46.Spec_C46.

Lemma memN_In x l : memN x l = true <-> In x l.
Proof.
  unfold memN. rewrite existsb_exists. split.
  - intros [y [Hy He]]. apply N.eqb_eq in He. subst. exact Hy.
  - intro H. exists x. split; [exact H | apply N.eqb_refl].
Qed.
