From Coq Require Import List NArith ZArith Bool.
From Verif Require Import Base.Val C11.Model_C11 C11.Spec_C11 C11.Class_C11.
Import ListNotations.
Open Scope N_scope.
Definition cases : list ((list chunk * scope) * val) := 
[
  (([(cS 1 [] [100;11]); (cA [] [100;200;12])], KAll),
   (VL [(VL [(VL [(VZ 0%Z)]); (VL (@nil (val))); (VL [(VZ 100%Z); (VZ 200%Z); (VZ 12%Z); (VZ 11%Z)])])]));
  (([(cG 4 [1;101] [10]); (cA [] [13;101;12])], (KSimple 2)),
   (VL [(VL [(VL [(VZ 2%Z); (VZ 2%Z)]); (VL (@nil (val))); (VL [(VZ 13%Z); (VZ 101%Z); (VZ 12%Z)])]); (VL [(VL [(VZ 1%Z); (VZ 4%Z)]); (VL [(VZ 1%Z)]); (VL [(VZ 10%Z)])])]));
  (([(cA [] [200;11;12]); (cG 3 [1;11;10] [200]); (cS 0 [11] [13])], (KSimple 0)),
   (VL [(VL [(VL [(VZ 2%Z); (VZ 0%Z)]); (VL [(VZ 11%Z)]); (VL [(VZ 13%Z); (VZ 200%Z); (VZ 12%Z)])]); (VL [(VL [(VZ 1%Z); (VZ 3%Z)]); (VL [(VZ 1%Z); (VZ 10%Z)]); (VL (@nil (val)))])]));
  (((@nil (chunk)), KAll),
   (VL (@nil (val))));
  (([(cV 0 2 [100] [11;200]); (cG 3 [] [13]); (cA [] [100;12]); (cG 3 [101] [11]); (cA [] [10]); (cV 0 2 [] [12])], (KSimple 0)),
   (VL [(VL [(VL [(VZ 2%Z); (VZ 0%Z)]); (VL (@nil (val))); (VL [(VZ 10%Z); (VZ 100%Z); (VZ 12%Z)])]); (VL [(VL [(VZ 3%Z); (VZ 0%Z); (VZ 2%Z)]); (VL (@nil (val))); (VL [(VZ 11%Z); (VZ 200%Z)])]); (VL [(VL [(VZ 1%Z); (VZ 3%Z)]); (VL (@nil (val))); (VL [(VZ 13%Z)])]); (VL [(VL [(VZ 1%Z); (VZ 3%Z)]); (VL [(VZ 101%Z)]); (VL [(VZ 11%Z)])])]));
  (((@nil (chunk)), KAll),
   (VL (@nil (val))));
  (((@nil (chunk)), KAll),
   (VL (@nil (val))));
  (([(cS 2 [100] []); (cV 2 1 [2;100] [11]); (cA [13;200] [12]); (cV 2 2 [0;101] [])], (KSimple 2)),
   (VL [(VL [(VL [(VZ 2%Z); (VZ 2%Z)]); (VL [(VZ 13%Z); (VZ 200%Z); (VZ 100%Z)]); (VL [(VZ 12%Z)])]); (VL [(VL [(VZ 3%Z); (VZ 2%Z); (VZ 1%Z)]); (VL [(VZ 2%Z)]); (VL [(VZ 11%Z)])]); (VL [(VL [(VZ 3%Z); (VZ 2%Z); (VZ 2%Z)]); (VL [(VZ 0%Z); (VZ 101%Z)]); (VL (@nil (val)))])]));
  (([(cA [] [101]); (cA [2;13] [10]); (cG 3 [10] []); (cG 3 [1] [100])], (KSimple 2)),
   (VL [(VL [(VL [(VZ 2%Z); (VZ 2%Z)]); (VL [(VZ 2%Z); (VZ 13%Z)]); (VL [(VZ 10%Z); (VZ 101%Z)])]); (VL [(VL [(VZ 1%Z); (VZ 3%Z)]); (VL [(VZ 10%Z)]); (VL (@nil (val)))]); (VL [(VL [(VZ 1%Z); (VZ 3%Z)]); (VL [(VZ 1%Z)]); (VL [(VZ 100%Z)])])]));
  (((@nil (chunk)), (KSimple 2)),
   (VL (@nil (val))));
  (([(cA [13] [100]); (cS 2 [1] [11;101])], (KSimple 2)),
   (VL [(VL [(VL [(VZ 2%Z); (VZ 2%Z)]); (VL [(VZ 1%Z); (VZ 13%Z)]); (VL [(VZ 11%Z); (VZ 101%Z); (VZ 100%Z)])])]));
  (([(cA [13;11] [10]); (cA [101;13] [11]); (cV 0 1 [11] [101])], (KSimple 0)),
   (VL [(VL [(VL [(VZ 2%Z); (VZ 0%Z)]); (VL [(VZ 101%Z); (VZ 13%Z)]); (VL [(VZ 11%Z); (VZ 10%Z)])]); (VL [(VL [(VZ 3%Z); (VZ 0%Z); (VZ 1%Z)]); (VL [(VZ 11%Z)]); (VL [(VZ 101%Z)])])]));
  (([(cS 0 [11] [200]); (cS 0 [] [100;101])], (KSimple 0)),
   (VL [(VL [(VL [(VZ 2%Z); (VZ 0%Z)]); (VL [(VZ 11%Z)]); (VL [(VZ 100%Z); (VZ 101%Z); (VZ 200%Z)])])]));
  (([(cV 2 2 [] [13;101]); (cA [13] [11]); (cV 2 2 [101;10] [100]); (cA [100;11] []); (cV 2 1 [11] [101])], (KSimple 2)),
   (VL [(VL [(VL [(VZ 2%Z); (VZ 2%Z)]); (VL [(VZ 100%Z); (VZ 11%Z); (VZ 13%Z)]); (VL (@nil (val)))]); (VL [(VL [(VZ 3%Z); (VZ 2%Z); (VZ 2%Z)]); (VL (@nil (val))); (VL [(VZ 101%Z)])]); (VL [(VL [(VZ 3%Z); (VZ 2%Z); (VZ 2%Z)]); (VL [(VZ 101%Z); (VZ 10%Z)]); (VL (@nil (val)))]); (VL [(VL [(VZ 3%Z); (VZ 2%Z); (VZ 1%Z)]); (VL (@nil (val))); (VL [(VZ 101%Z)])])]));
  (([(cV 2 1 [] [11]); (cS 2 [12;100] []); (cV 2 2 [11] [])], KAll),
   (VL [(VL [(VL [(VZ 0%Z)]); (VL [(VZ 12%Z); (VZ 100%Z)]); (VL (@nil (val)))]); (VL [(VL [(VZ 3%Z); (VZ 2%Z); (VZ 1%Z)]); (VL (@nil (val))); (VL [(VZ 11%Z)])]); (VL [(VL [(VZ 3%Z); (VZ 2%Z); (VZ 2%Z)]); (VL [(VZ 11%Z)]); (VL (@nil (val)))])]));
  (([(cV 2 1 [] [12])], (KSimple 2)),
   (VL [(VL [(VL [(VZ 3%Z); (VZ 2%Z); (VZ 1%Z)]); (VL (@nil (val))); (VL [(VZ 12%Z)])])]));
  (((@nil (chunk)), (KSimple 1)),
   (VL (@nil (val))));
  (([(cV 0 2 [13;101] [11]); (cA [11] [10]); (cA [] [12;11]); (cS 0 [11] [])], KAll),
   (VL [(VL [(VL [(VZ 0%Z)]); (VL [(VZ 11%Z)]); (VL [(VZ 12%Z); (VZ 10%Z)])]); (VL [(VL [(VZ 3%Z); (VZ 0%Z); (VZ 2%Z)]); (VL [(VZ 13%Z); (VZ 101%Z)]); (VL (@nil (val)))])]));
  (([(cV 0 2 [11] [12]); (cV 0 1 [100;11] [10]); (cA [200;101] [13]); (cV 0 1 [101] [101])], (KSimple 0)),
   (VL [(VL [(VL [(VZ 2%Z); (VZ 0%Z)]); (VL [(VZ 200%Z); (VZ 101%Z)]); (VL [(VZ 13%Z)])]); (VL [(VL [(VZ 3%Z); (VZ 0%Z); (VZ 2%Z)]); (VL [(VZ 11%Z)]); (VL [(VZ 12%Z)])]); (VL [(VL [(VZ 3%Z); (VZ 0%Z); (VZ 1%Z)]); (VL [(VZ 100%Z); (VZ 11%Z)]); (VL [(VZ 10%Z)])]); (VL [(VL [(VZ 3%Z); (VZ 0%Z); (VZ 1%Z)]); (VL (@nil (val))); (VL [(VZ 101%Z)])])]));
  (([(cS 0 [13] [10]); (cS 0 [10] [12]); (cG 3 [10;101;11] [])], KAll),
   (VL [(VL [(VL [(VZ 0%Z)]); (VL [(VZ 10%Z); (VZ 13%Z)]); (VL [(VZ 12%Z)])]); (VL [(VL [(VZ 1%Z); (VZ 3%Z)]); (VL [(VZ 101%Z); (VZ 11%Z)]); (VL (@nil (val)))])]));
  (([(cA [1;101;200] [12]); (cA [] [11]); (cA [] [13;101]); (cA [200] [13])], KAll),
   (VL [(VL [(VL [(VZ 0%Z)]); (VL [(VZ 200%Z); (VZ 1%Z)]); (VL [(VZ 13%Z); (VZ 101%Z); (VZ 11%Z); (VZ 12%Z)])])]));
  (([(cG 5 [12;10;100] []); (cV 2 1 [0;12] []); (cA [11;13] [13]); (cS 2 [200] [100]); (cV 2 2 [200;12] []); (cS 2 [100] [13])], (KSimple 2)),
   (VL [(VL [(VL [(VZ 2%Z); (VZ 2%Z)]); (VL [(VZ 100%Z); (VZ 200%Z); (VZ 11%Z)]); (VL [(VZ 13%Z)])]); (VL [(VL [(VZ 1%Z); (VZ 5%Z)]); (VL [(VZ 12%Z); (VZ 10%Z)]); (VL (@nil (val)))]); (VL [(VL [(VZ 3%Z); (VZ 2%Z); (VZ 1%Z)]); (VL [(VZ 0%Z); (VZ 12%Z)]); (VL (@nil (val)))]); (VL [(VL [(VZ 3%Z); (VZ 2%Z); (VZ 2%Z)]); (VL [(VZ 12%Z)]); (VL (@nil (val)))])]));
  (([(cV 2 1 [12] [100;101]); (cV 2 1 [101] [200;100]); (cA [] [101])], (KSimple 2)),
   (VL [(VL [(VL [(VZ 2%Z); (VZ 2%Z)]); (VL (@nil (val))); (VL [(VZ 101%Z)])]); (VL [(VL [(VZ 3%Z); (VZ 2%Z); (VZ 1%Z)]); (VL [(VZ 12%Z)]); (VL [(VZ 100%Z)])]); (VL [(VL [(VZ 3%Z); (VZ 2%Z); (VZ 1%Z)]); (VL (@nil (val))); (VL [(VZ 200%Z); (VZ 100%Z)])])]));
  (([(cA [11;101] []); (cV 1 1 [] [101;11]); (cG 3 [2] [13;100])], (KSimple 1)),
   (VL [(VL [(VL [(VZ 2%Z); (VZ 1%Z)]); (VL [(VZ 11%Z); (VZ 101%Z)]); (VL (@nil (val)))]); (VL [(VL [(VZ 3%Z); (VZ 1%Z); (VZ 1%Z)]); (VL (@nil (val))); (VL [(VZ 101%Z); (VZ 11%Z)])]); (VL [(VL [(VZ 1%Z); (VZ 3%Z)]); (VL [(VZ 2%Z)]); (VL [(VZ 13%Z); (VZ 100%Z)])])]));
  (([(cV 0 1 [11] [101]); (cS 0 [10] [100;13])], (KSimple 0)),
   (VL [(VL [(VL [(VZ 2%Z); (VZ 0%Z)]); (VL [(VZ 10%Z)]); (VL [(VZ 100%Z); (VZ 13%Z)])]); (VL [(VL [(VZ 3%Z); (VZ 0%Z); (VZ 1%Z)]); (VL [(VZ 11%Z)]); (VL [(VZ 101%Z)])])]));
  (([(cV 1 1 [10;12] [200]); (cA [] [100;101;12]); (cS 1 [12] []); (cV 1 1 [200;10;11] [11])], KAll),
   (VL [(VL [(VL [(VZ 0%Z)]); (VL [(VZ 12%Z)]); (VL [(VZ 100%Z); (VZ 101%Z)])]); (VL [(VL [(VZ 3%Z); (VZ 1%Z); (VZ 1%Z)]); (VL [(VZ 10%Z)]); (VL [(VZ 200%Z)])]); (VL [(VL [(VZ 3%Z); (VZ 1%Z); (VZ 1%Z)]); (VL [(VZ 200%Z); (VZ 10%Z); (VZ 11%Z)]); (VL [(VZ 11%Z)])])]));
  (([(cS 1 [] [200]); (cS 1 [12] [100]); (cS 1 [0;12;10] [200]); (cV 1 2 [100] [11])], (KSimple 1)),
   (VL [(VL [(VL [(VZ 2%Z); (VZ 1%Z)]); (VL [(VZ 0%Z); (VZ 12%Z); (VZ 10%Z)]); (VL [(VZ 200%Z); (VZ 100%Z)])]); (VL [(VL [(VZ 3%Z); (VZ 1%Z); (VZ 2%Z)]); (VL [(VZ 100%Z)]); (VL [(VZ 11%Z)])])]));
  (([(cG 3 [101;200] [13]); (cS 2 [101] [13;11]); (cA [100] [200]); (cA [100] [])], (KSimple 2)),
   (VL [(VL [(VL [(VZ 2%Z); (VZ 2%Z)]); (VL [(VZ 100%Z); (VZ 101%Z)]); (VL [(VZ 200%Z); (VZ 13%Z); (VZ 11%Z)])])]));
  (([(cA [10] [13;200]); (cS 1 [13;11] []); (cV 1 2 [12] [12;200]); (cA [0] [13;10])], (KSimple 1)),
   (VL [(VL [(VL [(VZ 2%Z); (VZ 1%Z)]); (VL [(VZ 0%Z); (VZ 11%Z)]); (VL [(VZ 13%Z); (VZ 10%Z); (VZ 200%Z)])]); (VL [(VL [(VZ 3%Z); (VZ 1%Z); (VZ 2%Z)]); (VL [(VZ 12%Z)]); (VL [(VZ 12%Z)])])]));
  (([(cV 1 1 [12;11] [10])], KAll),
   (VL [(VL [(VL [(VZ 3%Z); (VZ 1%Z); (VZ 1%Z)]); (VL [(VZ 12%Z); (VZ 11%Z)]); (VL [(VZ 10%Z)])])]));
  (([(cS 0 [100] [13;12]); (cV 0 2 [0;11;10] []); (cG 4 [2;101] [200]); (cA [10] [100]); (cV 0 1 [200] []); (cV 0 2 [2;11] [100])], (KSimple 0)),
   (VL [(VL [(VL [(VZ 2%Z); (VZ 0%Z)]); (VL [(VZ 10%Z)]); (VL [(VZ 100%Z); (VZ 13%Z); (VZ 12%Z)])]); (VL [(VL [(VZ 3%Z); (VZ 0%Z); (VZ 2%Z)]); (VL [(VZ 0%Z); (VZ 11%Z)]); (VL (@nil (val)))]); (VL [(VL [(VZ 1%Z); (VZ 4%Z)]); (VL [(VZ 2%Z); (VZ 101%Z)]); (VL [(VZ 200%Z)])]); (VL [(VL [(VZ 3%Z); (VZ 0%Z); (VZ 1%Z)]); (VL [(VZ 200%Z)]); (VL (@nil (val)))]); (VL [(VL [(VZ 3%Z); (VZ 0%Z); (VZ 2%Z)]); (VL [(VZ 2%Z); (VZ 11%Z)]); (VL (@nil (val)))])]));
  (([(cA [10] [11]); (cV 1 2 [101] [])], KAll),
   (VL [(VL [(VL [(VZ 0%Z)]); (VL [(VZ 10%Z)]); (VL [(VZ 11%Z)])]); (VL [(VL [(VZ 3%Z); (VZ 1%Z); (VZ 2%Z)]); (VL [(VZ 101%Z)]); (VL (@nil (val)))])]));
  (((@nil (chunk)), (KSimple 0)),
   (VL (@nil (val))));
  (([(cS 2 [10] [101]); (cA [2] [200;10])], KAll),
   (VL [(VL [(VL [(VZ 0%Z)]); (VL [(VZ 2%Z)]); (VL [(VZ 200%Z); (VZ 10%Z); (VZ 101%Z)])])]));
  (([(cS 0 [100] [12]); (cA [100] []); (cG 3 [100;13] []); (cS 0 [] [10;11]); (cV 0 1 [101] [11;12]); (cA [101] [])], KAll),
   (VL [(VL [(VL [(VZ 0%Z)]); (VL [(VZ 101%Z); (VZ 100%Z)]); (VL [(VZ 10%Z); (VZ 11%Z); (VZ 12%Z)])]); (VL [(VL [(VZ 1%Z); (VZ 3%Z)]); (VL [(VZ 13%Z)]); (VL (@nil (val)))])]));
  (([(cV 2 1 [10] [13]); (cA [10] []); (cS 2 [13] [10;200]); (cA [100] [100]); (cG 3 [10] []); (cA [101] [11])], (KSimple 2)),
   (VL [(VL [(VL [(VZ 2%Z); (VZ 2%Z)]); (VL [(VZ 101%Z); (VZ 100%Z); (VZ 13%Z)]); (VL [(VZ 11%Z); (VZ 10%Z); (VZ 200%Z)])]); (VL [(VL [(VZ 1%Z); (VZ 3%Z)]); (VL [(VZ 10%Z)]); (VL (@nil (val)))])]));
  (([(cS 0 [100] [11;12]); (cV 0 1 [13] [12;100])], (KSimple 0)),
   (VL [(VL [(VL [(VZ 2%Z); (VZ 0%Z)]); (VL [(VZ 100%Z)]); (VL [(VZ 11%Z); (VZ 12%Z)])]); (VL [(VL [(VZ 3%Z); (VZ 0%Z); (VZ 1%Z)]); (VL [(VZ 13%Z)]); (VL [(VZ 100%Z)])])]));
  (([(cV 0 1 [1;100;200] [10]); (cV 0 1 [] [10]); (cG 5 [101;13] []); (cA [10] [100])], (KSimple 0)),
   (VL [(VL [(VL [(VZ 2%Z); (VZ 0%Z)]); (VL [(VZ 10%Z)]); (VL [(VZ 100%Z)])]); (VL [(VL [(VZ 3%Z); (VZ 0%Z); (VZ 1%Z)]); (VL [(VZ 1%Z); (VZ 200%Z)]); (VL (@nil (val)))]); (VL [(VL [(VZ 1%Z); (VZ 5%Z)]); (VL [(VZ 101%Z); (VZ 13%Z)]); (VL (@nil (val)))])]));
  (([(cV 0 1 [100] [200;10]); (cA [200] []); (cA [100] [13]); (cV 0 2 [200;11] [13]); (cV 0 2 [12] [13;10])], (KSimple 0)),
   (VL [(VL [(VL [(VZ 2%Z); (VZ 0%Z)]); (VL [(VZ 100%Z); (VZ 200%Z)]); (VL [(VZ 13%Z)])]); (VL [(VL [(VZ 3%Z); (VZ 0%Z); (VZ 1%Z)]); (VL (@nil (val))); (VL [(VZ 10%Z)])]); (VL [(VL [(VZ 3%Z); (VZ 0%Z); (VZ 2%Z)]); (VL [(VZ 11%Z)]); (VL (@nil (val)))]); (VL [(VL [(VZ 3%Z); (VZ 0%Z); (VZ 2%Z)]); (VL [(VZ 12%Z)]); (VL [(VZ 10%Z)])])]));
  (([(cG 4 [11] [100]); (cV 2 1 [10;12;101] []); (cA [] [13])], (KSimple 2)),
   (VL [(VL [(VL [(VZ 2%Z); (VZ 2%Z)]); (VL (@nil (val))); (VL [(VZ 13%Z)])]); (VL [(VL [(VZ 1%Z); (VZ 4%Z)]); (VL [(VZ 11%Z)]); (VL [(VZ 100%Z)])]); (VL [(VL [(VZ 3%Z); (VZ 2%Z); (VZ 1%Z)]); (VL [(VZ 10%Z); (VZ 12%Z); (VZ 101%Z)]); (VL (@nil (val)))])]));
  (([(cG 4 [12;10;200] []); (cA [12;13] []); (cS 2 [13] [10]); (cA [11] [])], (KSimple 2)),
   (VL [(VL [(VL [(VZ 2%Z); (VZ 2%Z)]); (VL [(VZ 11%Z); (VZ 13%Z); (VZ 12%Z)]); (VL [(VZ 10%Z)])]); (VL [(VL [(VZ 1%Z); (VZ 4%Z)]); (VL [(VZ 200%Z)]); (VL (@nil (val)))])]));
  (([(cG 5 [] [101])], KAll),
   (VL [(VL [(VL [(VZ 1%Z); (VZ 5%Z)]); (VL (@nil (val))); (VL [(VZ 101%Z)])])]));
  (([(cA [] [101;12]); (cS 2 [101] [])], (KSimple 2)),
   (VL [(VL [(VL [(VZ 2%Z); (VZ 2%Z)]); (VL [(VZ 101%Z)]); (VL [(VZ 12%Z)])])]));
  (([(cV 1 1 [] [101;10;100]); (cS 1 [] [100;12]); (cG 5 [] [101;12])], (KSimple 1)),
   (VL [(VL [(VL [(VZ 2%Z); (VZ 1%Z)]); (VL (@nil (val))); (VL [(VZ 100%Z); (VZ 12%Z)])]); (VL [(VL [(VZ 3%Z); (VZ 1%Z); (VZ 1%Z)]); (VL (@nil (val))); (VL [(VZ 101%Z); (VZ 10%Z)])]); (VL [(VL [(VZ 1%Z); (VZ 5%Z)]); (VL (@nil (val))); (VL [(VZ 101%Z)])])]));
  (((@nil (chunk)), (KSimple 0)),
   (VL (@nil (val))));
  (([(cG 5 [11] [101;200]); (cG 3 [1;200;12;13] []); (cV 1 2 [13;101] []); (cA [101] [100])], (KSimple 1)),
   (VL [(VL [(VL [(VZ 2%Z); (VZ 1%Z)]); (VL [(VZ 101%Z)]); (VL [(VZ 100%Z)])]); (VL [(VL [(VZ 1%Z); (VZ 5%Z)]); (VL [(VZ 11%Z)]); (VL [(VZ 200%Z)])]); (VL [(VL [(VZ 1%Z); (VZ 3%Z)]); (VL [(VZ 1%Z); (VZ 200%Z); (VZ 12%Z); (VZ 13%Z)]); (VL (@nil (val)))]); (VL [(VL [(VZ 3%Z); (VZ 1%Z); (VZ 2%Z)]); (VL [(VZ 13%Z)]); (VL (@nil (val)))])]));
  (([(cV 1 2 [101] [100;13]); (cG 4 [10] [])], KAll),
   (VL [(VL [(VL [(VZ 3%Z); (VZ 1%Z); (VZ 2%Z)]); (VL [(VZ 101%Z)]); (VL [(VZ 100%Z); (VZ 13%Z)])]); (VL [(VL [(VZ 1%Z); (VZ 4%Z)]); (VL [(VZ 10%Z)]); (VL (@nil (val)))])]));
  (([(cA [] [101;10])], (KSimple 1)),
   (VL [(VL [(VL [(VZ 0%Z)]); (VL (@nil (val))); (VL [(VZ 101%Z); (VZ 10%Z)])])]));
  (([(cS 0 [1] [200])], (KSimple 0)),
   (VL [(VL [(VL [(VZ 2%Z); (VZ 0%Z)]); (VL [(VZ 1%Z)]); (VL [(VZ 200%Z)])])]));
  (([(cV 2 1 [100] [10]); (cA [] [101;11]); (cV 2 1 [] [101;13]); (cG 3 [] [10;101]); (cS 2 [] [10;11]); (cG 3 [101;100] [200])], (KSimple 2)),
   (VL [(VL [(VL [(VZ 2%Z); (VZ 2%Z)]); (VL (@nil (val))); (VL [(VZ 10%Z); (VZ 11%Z); (VZ 101%Z)])]); (VL [(VL [(VZ 3%Z); (VZ 2%Z); (VZ 1%Z)]); (VL [(VZ 100%Z)]); (VL (@nil (val)))]); (VL [(VL [(VZ 3%Z); (VZ 2%Z); (VZ 1%Z)]); (VL (@nil (val))); (VL [(VZ 13%Z)])]); (VL [(VL [(VZ 1%Z); (VZ 3%Z)]); (VL [(VZ 101%Z); (VZ 100%Z)]); (VL [(VZ 200%Z)])])]));
  (([(cA [10] [101]); (cV 2 1 [] [101]); (cG 4 [100] [13]); (cA [11;10] [100]); (cA [200] [13]); (cG 5 [13;12;100] [100])], (KSimple 2)),
   (VL [(VL [(VL [(VZ 2%Z); (VZ 2%Z)]); (VL [(VZ 200%Z); (VZ 11%Z); (VZ 10%Z)]); (VL [(VZ 13%Z); (VZ 100%Z); (VZ 101%Z)])]); (VL [(VL [(VZ 1%Z); (VZ 5%Z)]); (VL [(VZ 13%Z); (VZ 12%Z); (VZ 100%Z)]); (VL (@nil (val)))])]));
  (([(cA [12;13] []); (cV 1 2 [] [200;101]); (cV 1 1 [11] []); (cS 1 [10] [12])], (KSimple 1)),
   (VL [(VL [(VL [(VZ 2%Z); (VZ 1%Z)]); (VL [(VZ 10%Z); (VZ 13%Z)]); (VL [(VZ 12%Z)])]); (VL [(VL [(VZ 3%Z); (VZ 1%Z); (VZ 2%Z)]); (VL (@nil (val))); (VL [(VZ 200%Z); (VZ 101%Z)])]); (VL [(VL [(VZ 3%Z); (VZ 1%Z); (VZ 1%Z)]); (VL [(VZ 11%Z)]); (VL (@nil (val)))])]));
  (((@nil (chunk)), KAll),
   (VL (@nil (val))));
  (([(cG 3 [12] [11;200]); (cS 2 [12;11] []); (cS 2 [11;200] [100])], KAll),
   (VL [(VL [(VL [(VZ 0%Z)]); (VL [(VZ 11%Z); (VZ 200%Z); (VZ 12%Z)]); (VL [(VZ 100%Z)])])]));
  (([(cV 1 2 [200;100] [100])], (KSimple 1)),
   (VL [(VL [(VL [(VZ 3%Z); (VZ 1%Z); (VZ 2%Z)]); (VL [(VZ 200%Z); (VZ 100%Z)]); (VL [(VZ 100%Z)])])]));
  (([(cV 1 2 [] [12])], (KSimple 1)),
   (VL [(VL [(VL [(VZ 3%Z); (VZ 1%Z); (VZ 2%Z)]); (VL (@nil (val))); (VL [(VZ 12%Z)])])]));
  (([(cV 0 1 [100] [200]); (cG 3 [] [200;101])], KAll),
   (VL [(VL [(VL [(VZ 3%Z); (VZ 0%Z); (VZ 1%Z)]); (VL [(VZ 100%Z)]); (VL [(VZ 200%Z)])]); (VL [(VL [(VZ 1%Z); (VZ 3%Z)]); (VL (@nil (val))); (VL [(VZ 200%Z); (VZ 101%Z)])])]));
  (((@nil (chunk)), KAll),
   (VL (@nil (val))));
  (([(cA [1;100] [200]); (cV 0 2 [101;11] [100])], (KSimple 0)),
   (VL [(VL [(VL [(VZ 2%Z); (VZ 0%Z)]); (VL [(VZ 1%Z); (VZ 100%Z)]); (VL [(VZ 200%Z)])]); (VL [(VL [(VZ 3%Z); (VZ 0%Z); (VZ 2%Z)]); (VL [(VZ 101%Z); (VZ 11%Z)]); (VL [(VZ 100%Z)])])]));
  (([(cA [11;13] [200]); (cV 1 1 [101] [12;200]); (cA [10;100] []); (cG 3 [] [101;13])], (KSimple 1)),
   (VL [(VL [(VL [(VZ 2%Z); (VZ 1%Z)]); (VL [(VZ 10%Z); (VZ 100%Z); (VZ 11%Z); (VZ 13%Z)]); (VL [(VZ 200%Z)])]); (VL [(VL [(VZ 3%Z); (VZ 1%Z); (VZ 1%Z)]); (VL [(VZ 101%Z)]); (VL [(VZ 12%Z)])]); (VL [(VL [(VZ 1%Z); (VZ 3%Z)]); (VL (@nil (val))); (VL [(VZ 101%Z); (VZ 13%Z)])])]));
  (([(cV 2 1 [12] [13]); (cV 2 1 [10] [100]); (cS 2 [] [101])], (KSimple 2)),
   (VL [(VL [(VL [(VZ 2%Z); (VZ 2%Z)]); (VL (@nil (val))); (VL [(VZ 101%Z)])]); (VL [(VL [(VZ 3%Z); (VZ 2%Z); (VZ 1%Z)]); (VL [(VZ 12%Z)]); (VL [(VZ 13%Z)])]); (VL [(VL [(VZ 3%Z); (VZ 2%Z); (VZ 1%Z)]); (VL [(VZ 10%Z)]); (VL [(VZ 100%Z)])])]));
  (([(cV 2 2 [100;10] [11]); (cG 5 [200] [100])], KAll),
   (VL [(VL [(VL [(VZ 3%Z); (VZ 2%Z); (VZ 2%Z)]); (VL [(VZ 100%Z); (VZ 10%Z)]); (VL [(VZ 11%Z)])]); (VL [(VL [(VZ 1%Z); (VZ 5%Z)]); (VL [(VZ 200%Z)]); (VL [(VZ 100%Z)])])]));
  (([(cA [] [13;101]); (cA [] [10;200]); (cG 5 [12;10] [11]); (cV 2 2 [11;13] [13])], (KSimple 2)),
   (VL [(VL [(VL [(VZ 2%Z); (VZ 2%Z)]); (VL (@nil (val))); (VL [(VZ 10%Z); (VZ 200%Z); (VZ 13%Z); (VZ 101%Z)])]); (VL [(VL [(VZ 1%Z); (VZ 5%Z)]); (VL [(VZ 12%Z); (VZ 10%Z)]); (VL [(VZ 11%Z)])]); (VL [(VL [(VZ 3%Z); (VZ 2%Z); (VZ 2%Z)]); (VL [(VZ 11%Z); (VZ 13%Z)]); (VL (@nil (val)))])]));
  (([(cA [101;13] []); (cS 1 [] [100;200]); (cS 1 [200;10] []); (cA [101] [12;11]); (cG 4 [] [13])], (KSimple 1)),
   (VL [(VL [(VL [(VZ 2%Z); (VZ 1%Z)]); (VL [(VZ 101%Z); (VZ 200%Z); (VZ 10%Z); (VZ 13%Z)]); (VL [(VZ 12%Z); (VZ 11%Z); (VZ 100%Z)])]); (VL [(VL [(VZ 1%Z); (VZ 4%Z)]); (VL (@nil (val))); (VL [(VZ 13%Z)])])]));
  (([(cA [13;10] []); (cS 1 [] [200;101]); (cV 1 2 [12] [10;100]); (cV 1 2 [] [13]); (cA [12;13] [200]); (cA [10] [12])], (KSimple 1)),
   (VL [(VL [(VL [(VZ 2%Z); (VZ 1%Z)]); (VL [(VZ 10%Z); (VZ 13%Z)]); (VL [(VZ 12%Z); (VZ 200%Z); (VZ 101%Z)])]); (VL [(VL [(VZ 3%Z); (VZ 1%Z); (VZ 2%Z)]); (VL (@nil (val))); (VL [(VZ 100%Z)])])]));
  (([(cG 5 [11] [10;101]); (cV 2 2 [] [12;11]); (cA [] [13])], (KSimple 2)),
   (VL [(VL [(VL [(VZ 2%Z); (VZ 2%Z)]); (VL (@nil (val))); (VL [(VZ 13%Z)])]); (VL [(VL [(VZ 1%Z); (VZ 5%Z)]); (VL [(VZ 11%Z)]); (VL [(VZ 10%Z); (VZ 101%Z)])]); (VL [(VL [(VZ 3%Z); (VZ 2%Z); (VZ 2%Z)]); (VL (@nil (val))); (VL [(VZ 12%Z); (VZ 11%Z)])])]));
  (([(cS 1 [] [200;11]); (cA [] [10;200])], (KSimple 1)),
   (VL [(VL [(VL [(VZ 2%Z); (VZ 1%Z)]); (VL (@nil (val))); (VL [(VZ 10%Z); (VZ 200%Z); (VZ 11%Z)])])]));
  (([(cG 5 [11] [100;12]); (cA [10] [13;101])], (KSimple 1)),
   (VL [(VL [(VL [(VZ 2%Z); (VZ 1%Z)]); (VL [(VZ 10%Z)]); (VL [(VZ 13%Z); (VZ 101%Z)])]); (VL [(VL [(VZ 1%Z); (VZ 5%Z)]); (VL [(VZ 11%Z)]); (VL [(VZ 100%Z); (VZ 12%Z)])])]));
  (([(cV 1 2 [] [12;101;100]); (cA [10] [])], KAll),
   (VL [(VL [(VL [(VZ 0%Z)]); (VL [(VZ 10%Z)]); (VL (@nil (val)))]); (VL [(VL [(VZ 3%Z); (VZ 1%Z); (VZ 2%Z)]); (VL (@nil (val))); (VL [(VZ 12%Z); (VZ 101%Z); (VZ 100%Z)])])]));
  (([(cV 0 2 [2] [13;101]); (cS 0 [101] [13])], (KSimple 0)),
   (VL [(VL [(VL [(VZ 2%Z); (VZ 0%Z)]); (VL [(VZ 101%Z)]); (VL [(VZ 13%Z)])]); (VL [(VL [(VZ 3%Z); (VZ 0%Z); (VZ 2%Z)]); (VL [(VZ 2%Z)]); (VL (@nil (val)))])]));
  (([(cA [13;10] []); (cG 3 [13] [12])], (KSimple 1)),
   (VL [(VL [(VL [(VZ 2%Z); (VZ 1%Z)]); (VL [(VZ 13%Z); (VZ 10%Z)]); (VL (@nil (val)))]); (VL [(VL [(VZ 1%Z); (VZ 3%Z)]); (VL (@nil (val))); (VL [(VZ 12%Z)])])]));
  (([(cV 1 1 [101;10;100] []); (cV 1 2 [0] [11;101])], (KSimple 1)),
   (VL [(VL [(VL [(VZ 3%Z); (VZ 1%Z); (VZ 1%Z)]); (VL [(VZ 101%Z); (VZ 10%Z); (VZ 100%Z)]); (VL (@nil (val)))]); (VL [(VL [(VZ 3%Z); (VZ 1%Z); (VZ 2%Z)]); (VL [(VZ 0%Z)]); (VL [(VZ 11%Z); (VZ 101%Z)])])]));
  (((@nil (chunk)), (KSimple 2)),
   (VL (@nil (val))));
  (([(cV 0 1 [101] []); (cS 0 [101;13] [])], (KSimple 0)),
   (VL [(VL [(VL [(VZ 2%Z); (VZ 0%Z)]); (VL [(VZ 101%Z); (VZ 13%Z)]); (VL (@nil (val)))])]));
  (([(cA [13] [200]); (cS 0 [12;11] [200]); (cA [] [101;11])], (KSimple 0)),
   (VL [(VL [(VL [(VZ 2%Z); (VZ 0%Z)]); (VL [(VZ 12%Z); (VZ 13%Z)]); (VL [(VZ 101%Z); (VZ 11%Z); (VZ 200%Z)])])]));
  (([(cV 1 1 [100] []); (cS 1 [] [101]); (cV 1 2 [2] [100;10;101]); (cA [12] [200]); (cS 1 [0;200] [11])], (KSimple 1)),
   (VL [(VL [(VL [(VZ 2%Z); (VZ 1%Z)]); (VL [(VZ 0%Z); (VZ 200%Z); (VZ 12%Z)]); (VL [(VZ 11%Z); (VZ 101%Z)])]); (VL [(VL [(VZ 3%Z); (VZ 1%Z); (VZ 1%Z)]); (VL [(VZ 100%Z)]); (VL (@nil (val)))]); (VL [(VL [(VZ 3%Z); (VZ 1%Z); (VZ 2%Z)]); (VL [(VZ 2%Z)]); (VL [(VZ 100%Z); (VZ 10%Z)])])]));
  (([(cS 2 [200;101] [13]); (cG 5 [1] [10;200]); (cG 5 [12;11] [])], (KSimple 2)),
   (VL [(VL [(VL [(VZ 2%Z); (VZ 2%Z)]); (VL [(VZ 200%Z); (VZ 101%Z)]); (VL [(VZ 13%Z)])]); (VL [(VL [(VZ 1%Z); (VZ 5%Z)]); (VL [(VZ 1%Z)]); (VL [(VZ 10%Z); (VZ 200%Z)])]); (VL [(VL [(VZ 1%Z); (VZ 5%Z)]); (VL [(VZ 12%Z); (VZ 11%Z)]); (VL (@nil (val)))])]));
  (([(cS 0 [] [12]); (cS 0 [100;11] [])], (KSimple 0)),
   (VL [(VL [(VL [(VZ 2%Z); (VZ 0%Z)]); (VL [(VZ 100%Z); (VZ 11%Z)]); (VL [(VZ 12%Z)])])]));
  (([(cS 2 [10] [100])], KAll),
   (VL [(VL [(VL [(VZ 2%Z); (VZ 2%Z)]); (VL [(VZ 10%Z)]); (VL [(VZ 100%Z)])])]));
  (([(cS 1 [200] []); (cV 1 1 [] [100;11]); (cS 1 [0;100] [200;10])], (KSimple 1)),
   (VL [(VL [(VL [(VZ 2%Z); (VZ 1%Z)]); (VL [(VZ 0%Z); (VZ 100%Z)]); (VL [(VZ 200%Z); (VZ 10%Z)])]); (VL [(VL [(VZ 3%Z); (VZ 1%Z); (VZ 1%Z)]); (VL (@nil (val))); (VL [(VZ 11%Z)])])]));
  (((@nil (chunk)), (KSimple 2)),
   (VL (@nil (val))));
  (([(cA [] [100;200]); (cG 3 [2;10;11] []); (cV 2 2 [100;200] [])], KAll),
   (VL [(VL [(VL [(VZ 0%Z)]); (VL (@nil (val))); (VL [(VZ 100%Z); (VZ 200%Z)])]); (VL [(VL [(VZ 1%Z); (VZ 3%Z)]); (VL [(VZ 2%Z); (VZ 10%Z); (VZ 11%Z)]); (VL (@nil (val)))]); (VL [(VL [(VZ 3%Z); (VZ 2%Z); (VZ 2%Z)]); (VL [(VZ 100%Z); (VZ 200%Z)]); (VL (@nil (val)))])]));
  (((@nil (chunk)), (KSimple 0)),
   (VL (@nil (val))));
  (([(cS 2 [12] [13]); (cA [2;13;101] []); (cG 5 [100] [100]); (cA [200] [])], (KSimple 2)),
   (VL [(VL [(VL [(VZ 2%Z); (VZ 2%Z)]); (VL [(VZ 200%Z); (VZ 2%Z); (VZ 13%Z); (VZ 101%Z); (VZ 12%Z)]); (VL (@nil (val)))]); (VL [(VL [(VZ 1%Z); (VZ 5%Z)]); (VL [(VZ 100%Z)]); (VL [(VZ 100%Z)])])]));
  (([(cA [13] [100]); (cA [13;11] []); (cA [] [200]); (cA [] [100]); (cA [200;12] [])], KAll),
   (VL [(VL [(VL [(VZ 0%Z)]); (VL [(VZ 200%Z); (VZ 12%Z); (VZ 13%Z); (VZ 11%Z)]); (VL [(VZ 100%Z)])])]));
  (([(cV 1 2 [101] []); (cA [] [13;101]); (cA [200] [11])], (KSimple 1)),
   (VL [(VL [(VL [(VZ 2%Z); (VZ 1%Z)]); (VL [(VZ 200%Z)]); (VL [(VZ 11%Z); (VZ 13%Z); (VZ 101%Z)])])]));
  (((@nil (chunk)), (KSimple 0)),
   (VL (@nil (val))));
  (([(cA [100] [10;101])], (KSimple 2)),
   (VL [(VL [(VL [(VZ 0%Z)]); (VL [(VZ 100%Z)]); (VL [(VZ 10%Z); (VZ 101%Z)])])]));
  (([(cS 2 [100] [13]); (cV 2 1 [11] [12]); (cA [] [10;11])], (KSimple 2)),
   (VL [(VL [(VL [(VZ 2%Z); (VZ 2%Z)]); (VL [(VZ 100%Z)]); (VL [(VZ 10%Z); (VZ 11%Z); (VZ 13%Z)])]); (VL [(VL [(VZ 3%Z); (VZ 2%Z); (VZ 1%Z)]); (VL (@nil (val))); (VL [(VZ 12%Z)])])]));
  (([(cA [101] [13])], KAll),
   (VL [(VL [(VL [(VZ 0%Z)]); (VL [(VZ 101%Z)]); (VL [(VZ 13%Z)])])]));
  (([(cS 1 [1;10] [12]); (cS 1 [] [200;13])], (KSimple 1)),
   (VL [(VL [(VL [(VZ 2%Z); (VZ 1%Z)]); (VL [(VZ 1%Z); (VZ 10%Z)]); (VL [(VZ 200%Z); (VZ 13%Z); (VZ 12%Z)])])]));
  (([(cS 0 [100;200] []); (cA [10] [])], KAll),
   (VL [(VL [(VL [(VZ 0%Z)]); (VL [(VZ 10%Z); (VZ 100%Z); (VZ 200%Z)]); (VL (@nil (val)))])]));
  (([(cS 0 [] [11]); (cS 0 [100] [12])], (KSimple 0)),
   (VL [(VL [(VL [(VZ 2%Z); (VZ 0%Z)]); (VL [(VZ 100%Z)]); (VL [(VZ 12%Z); (VZ 11%Z)])])]));
  (([(cS 0 [200] [12]); (cV 0 2 [] [13]); (cV 0 2 [200] []); (cS 0 [] [13]); (cA [100] [])], KAll),
   (VL [(VL [(VL [(VZ 0%Z)]); (VL [(VZ 100%Z); (VZ 200%Z)]); (VL [(VZ 13%Z); (VZ 12%Z)])])]));
  (([(cG 3 [0;13] []); (cV 2 2 [] [11]); (cV 2 1 [200] [])], (KSimple 2)),
   (VL [(VL [(VL [(VZ 1%Z); (VZ 3%Z)]); (VL [(VZ 0%Z); (VZ 13%Z)]); (VL (@nil (val)))]); (VL [(VL [(VZ 3%Z); (VZ 2%Z); (VZ 2%Z)]); (VL (@nil (val))); (VL [(VZ 11%Z)])]); (VL [(VL [(VZ 3%Z); (VZ 2%Z); (VZ 1%Z)]); (VL [(VZ 200%Z)]); (VL (@nil (val)))])]));
  (([(cV 0 2 [101] [13;10]); (cA [101] [12;200])], (KSimple 0)),
   (VL [(VL [(VL [(VZ 2%Z); (VZ 0%Z)]); (VL [(VZ 101%Z)]); (VL [(VZ 12%Z); (VZ 200%Z)])]); (VL [(VL [(VZ 3%Z); (VZ 0%Z); (VZ 2%Z)]); (VL (@nil (val))); (VL [(VZ 13%Z); (VZ 10%Z)])])]));
  (([(cA [101] [13]); (cV 1 1 [101] []); (cS 1 [200] [100;13])], (KSimple 1)),
   (VL [(VL [(VL [(VZ 2%Z); (VZ 1%Z)]); (VL [(VZ 200%Z); (VZ 101%Z)]); (VL [(VZ 100%Z); (VZ 13%Z)])])]));
  (([(cV 1 2 [13] [13;10]); (cV 1 1 [] [100;101]); (cV 1 1 [11;100;13] []); (cV 1 2 [10] [11;12]); (cA [] [100])], (KSimple 1)),
   (VL [(VL [(VL [(VZ 2%Z); (VZ 1%Z)]); (VL (@nil (val))); (VL [(VZ 100%Z)])]); (VL [(VL [(VZ 3%Z); (VZ 1%Z); (VZ 2%Z)]); (VL [(VZ 13%Z)]); (VL [(VZ 13%Z); (VZ 10%Z)])]); (VL [(VL [(VZ 3%Z); (VZ 1%Z); (VZ 1%Z)]); (VL (@nil (val))); (VL [(VZ 101%Z)])]); (VL [(VL [(VZ 3%Z); (VZ 1%Z); (VZ 1%Z)]); (VL [(VZ 11%Z); (VZ 13%Z)]); (VL (@nil (val)))]); (VL [(VL [(VZ 3%Z); (VZ 1%Z); (VZ 2%Z)]); (VL [(VZ 10%Z)]); (VL [(VZ 11%Z); (VZ 12%Z)])])]));
  (([(cV 0 1 [] [12]); (cA [100;200] [200])], (KSimple 0)),
   (VL [(VL [(VL [(VZ 2%Z); (VZ 0%Z)]); (VL [(VZ 100%Z); (VZ 200%Z)]); (VL (@nil (val)))]); (VL [(VL [(VZ 3%Z); (VZ 0%Z); (VZ 1%Z)]); (VL (@nil (val))); (VL [(VZ 12%Z)])])]));
  (([(cV 0 2 [200] []); (cA [2] [12;101])], KAll),
   (VL [(VL [(VL [(VZ 0%Z)]); (VL [(VZ 2%Z)]); (VL [(VZ 12%Z); (VZ 101%Z)])]); (VL [(VL [(VZ 3%Z); (VZ 0%Z); (VZ 2%Z)]); (VL [(VZ 200%Z)]); (VL (@nil (val)))])]));
  (([(cA [10] [101]); (cV 1 1 [13] []); (cA [13] [])], (KSimple 1)),
   (VL [(VL [(VL [(VZ 2%Z); (VZ 1%Z)]); (VL [(VZ 13%Z); (VZ 10%Z)]); (VL [(VZ 101%Z)])])]));
  (([(cS 1 [11] [12]); (cA [] [100;101]); (cA [] [100])], (KSimple 1)),
   (VL [(VL [(VL [(VZ 2%Z); (VZ 1%Z)]); (VL [(VZ 11%Z)]); (VL [(VZ 100%Z); (VZ 101%Z); (VZ 12%Z)])])]));
  (([(cG 5 [] [13;10])], (KSimple 2)),
   (VL [(VL [(VL [(VZ 1%Z); (VZ 5%Z)]); (VL (@nil (val))); (VL [(VZ 13%Z); (VZ 10%Z)])])]));
  (([(cV 2 2 [200;10] [10]); (cV 2 1 [10] [11]); (cV 2 2 [100;12] [])], (KSimple 2)),
   (VL [(VL [(VL [(VZ 3%Z); (VZ 2%Z); (VZ 2%Z)]); (VL [(VZ 200%Z); (VZ 10%Z)]); (VL [(VZ 10%Z)])]); (VL [(VL [(VZ 3%Z); (VZ 2%Z); (VZ 1%Z)]); (VL [(VZ 10%Z)]); (VL [(VZ 11%Z)])]); (VL [(VL [(VZ 3%Z); (VZ 2%Z); (VZ 2%Z)]); (VL [(VZ 100%Z); (VZ 12%Z)]); (VL (@nil (val)))])]));
  (([(cG 5 [11;13] [100]); (cV 0 1 [1;100] [10]); (cV 0 1 [101] [12]); (cA [] [13])], (KSimple 0)),
   (VL [(VL [(VL [(VZ 2%Z); (VZ 0%Z)]); (VL (@nil (val))); (VL [(VZ 13%Z)])]); (VL [(VL [(VZ 1%Z); (VZ 5%Z)]); (VL [(VZ 11%Z)]); (VL [(VZ 100%Z)])]); (VL [(VL [(VZ 3%Z); (VZ 0%Z); (VZ 1%Z)]); (VL [(VZ 1%Z); (VZ 100%Z)]); (VL [(VZ 10%Z)])]); (VL [(VL [(VZ 3%Z); (VZ 0%Z); (VZ 1%Z)]); (VL [(VZ 101%Z)]); (VL [(VZ 12%Z)])])]));
  (([(cS 0 [] [13]); (cS 0 [2;200] [13])], KAll),
   (VL [(VL [(VL [(VZ 0%Z)]); (VL [(VZ 2%Z); (VZ 200%Z)]); (VL [(VZ 13%Z)])])]));
  (([(cV 2 2 [100] [12])], (KSimple 2)),
   (VL [(VL [(VL [(VZ 3%Z); (VZ 2%Z); (VZ 2%Z)]); (VL [(VZ 100%Z)]); (VL [(VZ 12%Z)])])]));
  (([(cV 0 1 [100;101] [12]); (cA [13;11] []); (cS 0 [] [101;200]); (cV 0 2 [11] [200;12])], KAll),
   (VL [(VL [(VL [(VZ 0%Z)]); (VL [(VZ 13%Z); (VZ 11%Z)]); (VL [(VZ 101%Z); (VZ 200%Z)])]); (VL [(VL [(VZ 3%Z); (VZ 0%Z); (VZ 1%Z)]); (VL [(VZ 100%Z)]); (VL [(VZ 12%Z)])]); (VL [(VL [(VZ 3%Z); (VZ 0%Z); (VZ 2%Z)]); (VL (@nil (val))); (VL [(VZ 12%Z)])])]));
  (([(cV 0 2 [200] [13]); (cS 0 [0;13] [11]); (cV 0 1 [10;200] [])], (KSimple 0)),
   (VL [(VL [(VL [(VZ 2%Z); (VZ 0%Z)]); (VL [(VZ 0%Z); (VZ 13%Z)]); (VL [(VZ 11%Z)])]); (VL [(VL [(VZ 3%Z); (VZ 0%Z); (VZ 2%Z)]); (VL [(VZ 200%Z)]); (VL (@nil (val)))]); (VL [(VL [(VZ 3%Z); (VZ 0%Z); (VZ 1%Z)]); (VL [(VZ 10%Z); (VZ 200%Z)]); (VL (@nil (val)))])]));
  (([(cV 2 2 [1;12] [10]); (cV 2 2 [] [12]); (cA [] [11;12]); (cA [13] [101]); (cA [] [11;12;13])], (KSimple 2)),
   (VL [(VL [(VL [(VZ 2%Z); (VZ 2%Z)]); (VL (@nil (val))); (VL [(VZ 11%Z); (VZ 12%Z); (VZ 13%Z); (VZ 101%Z)])]); (VL [(VL [(VZ 3%Z); (VZ 2%Z); (VZ 2%Z)]); (VL [(VZ 1%Z)]); (VL [(VZ 10%Z)])])]));
  (([(cG 4 [12] [100;13]); (cS 0 [12] [13]); (cV 0 2 [] [100]); (cG 4 [12] [101;100]); (cA [] [200;10;11])], (KSimple 0)),
   (VL [(VL [(VL [(VZ 2%Z); (VZ 0%Z)]); (VL [(VZ 12%Z)]); (VL [(VZ 200%Z); (VZ 10%Z); (VZ 11%Z); (VZ 13%Z)])]); (VL [(VL [(VZ 1%Z); (VZ 4%Z)]); (VL (@nil (val))); (VL [(VZ 100%Z)])]); (VL [(VL [(VZ 3%Z); (VZ 0%Z); (VZ 2%Z)]); (VL (@nil (val))); (VL [(VZ 100%Z)])]); (VL [(VL [(VZ 1%Z); (VZ 4%Z)]); (VL (@nil (val))); (VL [(VZ 101%Z); (VZ 100%Z)])])]));
  (([(cV 1 2 [] [100;13]); (cS 1 [] [10;12;200]); (cS 1 [100] []); (cA [1;13] [11])], (KSimple 1)),
   (VL [(VL [(VL [(VZ 2%Z); (VZ 1%Z)]); (VL [(VZ 1%Z); (VZ 13%Z); (VZ 100%Z)]); (VL [(VZ 11%Z); (VZ 10%Z); (VZ 12%Z); (VZ 200%Z)])])]));
  (([(cG 3 [100] [13;10]); (cG 4 [] [101])], (KSimple 0)),
   (VL [(VL [(VL [(VZ 1%Z); (VZ 3%Z)]); (VL [(VZ 100%Z)]); (VL [(VZ 13%Z); (VZ 10%Z)])]); (VL [(VL [(VZ 1%Z); (VZ 4%Z)]); (VL (@nil (val))); (VL [(VZ 101%Z)])])]));
  (([(cA [100] []); (cV 0 2 [12;13] [13]); (cA [12] [10;11]); (cV 0 2 [10] [10;13]); (cG 3 [] [10;100])], (KSimple 0)),
   (VL [(VL [(VL [(VZ 2%Z); (VZ 0%Z)]); (VL [(VZ 12%Z); (VZ 100%Z)]); (VL [(VZ 10%Z); (VZ 11%Z)])]); (VL [(VL [(VZ 3%Z); (VZ 0%Z); (VZ 2%Z)]); (VL [(VZ 13%Z)]); (VL [(VZ 13%Z)])]); (VL [(VL [(VZ 3%Z); (VZ 0%Z); (VZ 2%Z)]); (VL [(VZ 10%Z)]); (VL [(VZ 13%Z)])]); (VL [(VL [(VZ 1%Z); (VZ 3%Z)]); (VL (@nil (val))); (VL [(VZ 100%Z)])])]));
  (([(cA [200;10] [11]); (cA [] [11]); (cA [101;11;200] [])], (KSimple 2)),
   (VL [(VL [(VL [(VZ 2%Z); (VZ 2%Z)]); (VL [(VZ 101%Z); (VZ 11%Z); (VZ 200%Z); (VZ 10%Z)]); (VL (@nil (val)))])]));
  (([(cA [0] [12;11])], KAll),
   (VL [(VL [(VL [(VZ 0%Z)]); (VL [(VZ 0%Z)]); (VL [(VZ 12%Z); (VZ 11%Z)])])]));
  (((@nil (chunk)), (KSimple 2)),
   (VL (@nil (val))));
  (([(cA [] [200;12]); (cV 0 2 [] [10;200]); (cV 0 1 [1;12;200;101] []); (cA [13] [12])], (KSimple 0)),
   (VL [(VL [(VL [(VZ 2%Z); (VZ 0%Z)]); (VL [(VZ 13%Z)]); (VL [(VZ 12%Z); (VZ 200%Z)])]); (VL [(VL [(VZ 3%Z); (VZ 0%Z); (VZ 2%Z)]); (VL (@nil (val))); (VL [(VZ 10%Z)])]); (VL [(VL [(VZ 3%Z); (VZ 0%Z); (VZ 1%Z)]); (VL [(VZ 1%Z); (VZ 200%Z); (VZ 101%Z)]); (VL (@nil (val)))])]));
  (([(cS 1 [] [12]); (cS 1 [13] []); (cG 4 [13] [100])], (KSimple 1)),
   (VL [(VL [(VL [(VZ 2%Z); (VZ 1%Z)]); (VL [(VZ 13%Z)]); (VL [(VZ 12%Z)])]); (VL [(VL [(VZ 1%Z); (VZ 4%Z)]); (VL (@nil (val))); (VL [(VZ 100%Z)])])]));
  (([(cS 0 [] [200]); (cA [101;200] [11]); (cV 0 2 [] [101])], (KSimple 0)),
   (VL [(VL [(VL [(VZ 2%Z); (VZ 0%Z)]); (VL [(VZ 101%Z); (VZ 200%Z)]); (VL [(VZ 11%Z)])]); (VL [(VL [(VZ 3%Z); (VZ 0%Z); (VZ 2%Z)]); (VL (@nil (val))); (VL [(VZ 101%Z)])])]));
  (([(cV 0 1 [13] []); (cA [12;11] [101]); (cA [101] [11]); (cA [11] [101]); (cA [12] [])], (KSimple 0)),
   (VL [(VL [(VL [(VZ 2%Z); (VZ 0%Z)]); (VL [(VZ 12%Z); (VZ 11%Z)]); (VL [(VZ 101%Z)])]); (VL [(VL [(VZ 3%Z); (VZ 0%Z); (VZ 1%Z)]); (VL [(VZ 13%Z)]); (VL (@nil (val)))])]));
  (([(cS 2 [] [200]); (cG 4 [] [101]); (cG 3 [100;11] []); (cA [100] [])], (KSimple 2)),
   (VL [(VL [(VL [(VZ 2%Z); (VZ 2%Z)]); (VL [(VZ 100%Z)]); (VL [(VZ 200%Z)])]); (VL [(VL [(VZ 1%Z); (VZ 4%Z)]); (VL (@nil (val))); (VL [(VZ 101%Z)])]); (VL [(VL [(VZ 1%Z); (VZ 3%Z)]); (VL [(VZ 11%Z)]); (VL (@nil (val)))])]));
  (([(cV 1 1 [] [101;10]); (cS 1 [12] [101;10]); (cV 1 1 [101] [11])], (KSimple 1)),
   (VL [(VL [(VL [(VZ 2%Z); (VZ 1%Z)]); (VL [(VZ 12%Z)]); (VL [(VZ 101%Z); (VZ 10%Z)])]); (VL [(VL [(VZ 3%Z); (VZ 1%Z); (VZ 1%Z)]); (VL [(VZ 101%Z)]); (VL [(VZ 11%Z)])])]));
  (([(cA [11;10] []); (cG 4 [12] [10]); (cA [10] [101])], KAll),
   (VL [(VL [(VL [(VZ 0%Z)]); (VL [(VZ 10%Z); (VZ 11%Z)]); (VL [(VZ 101%Z)])]); (VL [(VL [(VZ 1%Z); (VZ 4%Z)]); (VL [(VZ 12%Z)]); (VL (@nil (val)))])]));
  (([(cG 3 [] [13])], KAll),
   (VL [(VL [(VL [(VZ 1%Z); (VZ 3%Z)]); (VL (@nil (val))); (VL [(VZ 13%Z)])])]));
  (([(cA [11;13] []); (cV 1 1 [13] [11;200])], (KSimple 1)),
   (VL [(VL [(VL [(VZ 2%Z); (VZ 1%Z)]); (VL [(VZ 11%Z); (VZ 13%Z)]); (VL (@nil (val)))]); (VL [(VL [(VZ 3%Z); (VZ 1%Z); (VZ 1%Z)]); (VL (@nil (val))); (VL [(VZ 11%Z); (VZ 200%Z)])])]));
  (([(cG 4 [100;12] []); (cA [] [13;101]); (cA [200;101] [101])], (KSimple 1)),
   (VL [(VL [(VL [(VZ 2%Z); (VZ 1%Z)]); (VL [(VZ 200%Z); (VZ 101%Z)]); (VL [(VZ 13%Z)])]); (VL [(VL [(VZ 1%Z); (VZ 4%Z)]); (VL [(VZ 100%Z); (VZ 12%Z)]); (VL (@nil (val)))])]));
  (([(cV 1 2 [11;13] [13]); (cS 1 [200;101] [101]); (cV 1 1 [] [101])], KAll),
   (VL [(VL [(VL [(VZ 0%Z)]); (VL [(VZ 200%Z); (VZ 101%Z)]); (VL (@nil (val)))]); (VL [(VL [(VZ 3%Z); (VZ 1%Z); (VZ 2%Z)]); (VL [(VZ 11%Z); (VZ 13%Z)]); (VL [(VZ 13%Z)])]); (VL [(VL [(VZ 3%Z); (VZ 1%Z); (VZ 1%Z)]); (VL (@nil (val))); (VL [(VZ 101%Z)])])]));
  (([(cV 0 2 [101] [])], (KSimple 0)),
   (VL [(VL [(VL [(VZ 3%Z); (VZ 0%Z); (VZ 2%Z)]); (VL [(VZ 101%Z)]); (VL (@nil (val)))])]));
  (([(cV 0 1 [11;200] []); (cA [0;10;11] [13]); (cS 0 [] [13]); (cS 0 [] [12;101])], (KSimple 0)),
   (VL [(VL [(VL [(VZ 2%Z); (VZ 0%Z)]); (VL [(VZ 0%Z); (VZ 10%Z); (VZ 11%Z)]); (VL [(VZ 12%Z); (VZ 101%Z); (VZ 13%Z)])]); (VL [(VL [(VZ 3%Z); (VZ 0%Z); (VZ 1%Z)]); (VL [(VZ 200%Z)]); (VL (@nil (val)))])]));
  (([(cG 3 [101] [11]); (cV 1 1 [11] []); (cS 1 [13;100;200] [])], (KSimple 1)),
   (VL [(VL [(VL [(VZ 2%Z); (VZ 1%Z)]); (VL [(VZ 13%Z); (VZ 100%Z); (VZ 200%Z)]); (VL (@nil (val)))]); (VL [(VL [(VZ 1%Z); (VZ 3%Z)]); (VL [(VZ 101%Z)]); (VL [(VZ 11%Z)])]); (VL [(VL [(VZ 3%Z); (VZ 1%Z); (VZ 1%Z)]); (VL [(VZ 11%Z)]); (VL (@nil (val)))])]));
  (([(cV 1 2 [0;101] []); (cG 5 [101] [13]); (cS 1 [101] [])], (KSimple 1)),
   (VL [(VL [(VL [(VZ 2%Z); (VZ 1%Z)]); (VL [(VZ 101%Z)]); (VL (@nil (val)))]); (VL [(VL [(VZ 3%Z); (VZ 1%Z); (VZ 2%Z)]); (VL [(VZ 0%Z)]); (VL (@nil (val)))]); (VL [(VL [(VZ 1%Z); (VZ 5%Z)]); (VL (@nil (val))); (VL [(VZ 13%Z)])])]));
  (([(cA [11] [13]); (cV 0 2 [11] [10]); (cG 4 [11] [12]); (cS 0 [101] [10])], (KSimple 0)),
   (VL [(VL [(VL [(VZ 2%Z); (VZ 0%Z)]); (VL [(VZ 101%Z); (VZ 11%Z)]); (VL [(VZ 10%Z); (VZ 13%Z)])]); (VL [(VL [(VZ 1%Z); (VZ 4%Z)]); (VL (@nil (val))); (VL [(VZ 12%Z)])])]));
  (([(cS 1 [12] [10]); (cA [200;11] [])], (KSimple 1)),
   (VL [(VL [(VL [(VZ 2%Z); (VZ 1%Z)]); (VL [(VZ 200%Z); (VZ 11%Z); (VZ 12%Z)]); (VL [(VZ 10%Z)])])]));
  (([(cS 0 [] [11]); (cV 0 1 [12] []); (cV 0 1 [13;200] [200]); (cS 0 [100] [200;101]); (cS 0 [10;13] [])], (KSimple 0)),
   (VL [(VL [(VL [(VZ 2%Z); (VZ 0%Z)]); (VL [(VZ 10%Z); (VZ 13%Z); (VZ 100%Z)]); (VL [(VZ 200%Z); (VZ 101%Z); (VZ 11%Z)])]); (VL [(VL [(VZ 3%Z); (VZ 0%Z); (VZ 1%Z)]); (VL [(VZ 12%Z)]); (VL (@nil (val)))])]));
  (([(cA [13;12] [200]); (cS 1 [11] [12;100])], (KSimple 1)),
   (VL [(VL [(VL [(VZ 2%Z); (VZ 1%Z)]); (VL [(VZ 11%Z); (VZ 13%Z)]); (VL [(VZ 12%Z); (VZ 100%Z); (VZ 200%Z)])])]));
  (([(cG 4 [12] []); (cA [12;200] [11]); (cS 1 [13] [10])], (KSimple 1)),
   (VL [(VL [(VL [(VZ 2%Z); (VZ 1%Z)]); (VL [(VZ 13%Z); (VZ 12%Z); (VZ 200%Z)]); (VL [(VZ 10%Z); (VZ 11%Z)])])]));
  (([(cG 4 [12] [13]); (cG 4 [11] [12;100]); (cS 1 [101] [13]); (cG 4 [101] [13]); (cA [200] [])], KAll),
   (VL [(VL [(VL [(VZ 0%Z)]); (VL [(VZ 200%Z); (VZ 101%Z)]); (VL [(VZ 13%Z)])]); (VL [(VL [(VZ 1%Z); (VZ 4%Z)]); (VL [(VZ 12%Z)]); (VL (@nil (val)))]); (VL [(VL [(VZ 1%Z); (VZ 4%Z)]); (VL [(VZ 11%Z)]); (VL [(VZ 12%Z); (VZ 100%Z)])])]));
  (([(cS 2 [12;11] [])], (KSimple 2)),
   (VL [(VL [(VL [(VZ 2%Z); (VZ 2%Z)]); (VL [(VZ 12%Z); (VZ 11%Z)]); (VL (@nil (val)))])]));
  (([(cS 0 [100;12;200] []); (cS 0 [101;200] [100]); (cV 0 2 [12] [])], (KSimple 0)),
   (VL [(VL [(VL [(VZ 2%Z); (VZ 0%Z)]); (VL [(VZ 101%Z); (VZ 200%Z); (VZ 12%Z)]); (VL [(VZ 100%Z)])])]));
  (([(cV 2 1 [0] [10;12]); (cS 2 [] [12])], (KSimple 2)),
   (VL [(VL [(VL [(VZ 2%Z); (VZ 2%Z)]); (VL (@nil (val))); (VL [(VZ 12%Z)])]); (VL [(VL [(VZ 3%Z); (VZ 2%Z); (VZ 1%Z)]); (VL [(VZ 0%Z)]); (VL [(VZ 10%Z)])])]));
  (([(cS 2 [0;12] [13;100]); (cA [12] [12;101;10]); (cA [13;100] [100;101])], (KSimple 2)),
   (VL [(VL [(VL [(VZ 2%Z); (VZ 2%Z)]); (VL [(VZ 13%Z); (VZ 100%Z); (VZ 12%Z); (VZ 0%Z)]); (VL [(VZ 101%Z); (VZ 10%Z)])])]));
  (((@nil (chunk)), (KSimple 2)),
   (VL (@nil (val))));
  (([(cG 3 [200] []); (cA [12] [13])], (KSimple 0)),
   (VL [(VL [(VL [(VZ 2%Z); (VZ 0%Z)]); (VL [(VZ 12%Z)]); (VL [(VZ 13%Z)])]); (VL [(VL [(VZ 1%Z); (VZ 3%Z)]); (VL [(VZ 200%Z)]); (VL (@nil (val)))])]));
  (([(cV 1 2 [] [100;101])], KAll),
   (VL [(VL [(VL [(VZ 3%Z); (VZ 1%Z); (VZ 2%Z)]); (VL (@nil (val))); (VL [(VZ 100%Z); (VZ 101%Z)])])]));
  (([(cA [] [13]); (cV 1 2 [101;13] []); (cV 1 1 [200] [200]); (cA [] [10;12])], (KSimple 1)),
   (VL [(VL [(VL [(VZ 2%Z); (VZ 1%Z)]); (VL (@nil (val))); (VL [(VZ 10%Z); (VZ 12%Z); (VZ 13%Z)])]); (VL [(VL [(VZ 3%Z); (VZ 1%Z); (VZ 2%Z)]); (VL [(VZ 101%Z); (VZ 13%Z)]); (VL (@nil (val)))]); (VL [(VL [(VZ 3%Z); (VZ 1%Z); (VZ 1%Z)]); (VL [(VZ 200%Z)]); (VL [(VZ 200%Z)])])]));
  (([(cV 1 1 [100] []); (cV 1 1 [12] [200;101]); (cG 4 [] [13])], KAll),
   (VL [(VL [(VL [(VZ 3%Z); (VZ 1%Z); (VZ 1%Z)]); (VL [(VZ 100%Z)]); (VL (@nil (val)))]); (VL [(VL [(VZ 3%Z); (VZ 1%Z); (VZ 1%Z)]); (VL [(VZ 12%Z)]); (VL [(VZ 200%Z); (VZ 101%Z)])]); (VL [(VL [(VZ 1%Z); (VZ 4%Z)]); (VL (@nil (val))); (VL [(VZ 13%Z)])])]));
  (([(cS 0 [100] []); (cV 0 2 [] [11;101]); (cV 0 1 [100] [])], KAll),
   (VL [(VL [(VL [(VZ 0%Z)]); (VL [(VZ 100%Z)]); (VL (@nil (val)))]); (VL [(VL [(VZ 3%Z); (VZ 0%Z); (VZ 2%Z)]); (VL (@nil (val))); (VL [(VZ 11%Z); (VZ 101%Z)])])]));
  (([(cG 3 [100] []); (cA [11] [11]); (cS 2 [13] []); (cV 2 2 [] [12]); (cG 4 [200;101] []); (cS 2 [200;100;12] [])], (KSimple 2)),
   (VL [(VL [(VL [(VZ 2%Z); (VZ 2%Z)]); (VL [(VZ 200%Z); (VZ 100%Z); (VZ 12%Z); (VZ 13%Z); (VZ 11%Z)]); (VL (@nil (val)))]); (VL [(VL [(VZ 1%Z); (VZ 4%Z)]); (VL [(VZ 101%Z)]); (VL (@nil (val)))])]));
  (([(cG 5 [13] [12;11]); (cG 3 [1;101] [200]); (cV 0 1 [] [12])], (KSimple 0)),
   (VL [(VL [(VL [(VZ 1%Z); (VZ 5%Z)]); (VL [(VZ 13%Z)]); (VL [(VZ 12%Z); (VZ 11%Z)])]); (VL [(VL [(VZ 1%Z); (VZ 3%Z)]); (VL [(VZ 1%Z); (VZ 101%Z)]); (VL [(VZ 200%Z)])]); (VL [(VL [(VZ 3%Z); (VZ 0%Z); (VZ 1%Z)]); (VL (@nil (val))); (VL [(VZ 12%Z)])])]));
  (([(cV 0 1 [13] [13]); (cV 0 1 [2;100] []); (cS 0 [13] [12]); (cA [] [200;101]); (cV 0 2 [11] [200]); (cG 5 [101;100] [])], KAll),
   (VL [(VL [(VL [(VZ 0%Z)]); (VL [(VZ 13%Z)]); (VL [(VZ 200%Z); (VZ 101%Z); (VZ 12%Z)])]); (VL [(VL [(VZ 3%Z); (VZ 0%Z); (VZ 1%Z)]); (VL [(VZ 2%Z); (VZ 100%Z)]); (VL (@nil (val)))]); (VL [(VL [(VZ 3%Z); (VZ 0%Z); (VZ 2%Z)]); (VL [(VZ 11%Z)]); (VL (@nil (val)))]); (VL [(VL [(VZ 1%Z); (VZ 5%Z)]); (VL [(VZ 101%Z); (VZ 100%Z)]); (VL (@nil (val)))])]));
  (([(cA [] [12;11]); (cG 4 [13;101] [10]); (cA [101;13] []); (cS 2 [0;13] [101]); (cV 2 2 [] [101;13]); (cV 2 2 [] [101])], (KSimple 2)),
   (VL [(VL [(VL [(VZ 2%Z); (VZ 2%Z)]); (VL [(VZ 0%Z); (VZ 13%Z)]); (VL [(VZ 101%Z); (VZ 12%Z); (VZ 11%Z)])]); (VL [(VL [(VZ 1%Z); (VZ 4%Z)]); (VL (@nil (val))); (VL [(VZ 10%Z)])]); (VL [(VL [(VZ 3%Z); (VZ 2%Z); (VZ 2%Z)]); (VL (@nil (val))); (VL [(VZ 13%Z)])])]));
  (([(cA [] [100]); (cG 3 [12] [])], (KSimple 0)),
   (VL [(VL [(VL [(VZ 2%Z); (VZ 0%Z)]); (VL (@nil (val))); (VL [(VZ 100%Z)])]); (VL [(VL [(VZ 1%Z); (VZ 3%Z)]); (VL [(VZ 12%Z)]); (VL (@nil (val)))])]));
  (([(cG 5 [0;10] []); (cA [2;13] [12;100])], (KSimple 1)),
   (VL [(VL [(VL [(VZ 2%Z); (VZ 1%Z)]); (VL [(VZ 2%Z); (VZ 13%Z)]); (VL [(VZ 12%Z); (VZ 100%Z)])]); (VL [(VL [(VZ 1%Z); (VZ 5%Z)]); (VL [(VZ 0%Z); (VZ 10%Z)]); (VL (@nil (val)))])]));
  (([(cA [12;200] [101]); (cS 2 [10] [200]); (cA [11] [10]); (cA [11] [200;101]); (cG 5 [13] [])], KAll),
   (VL [(VL [(VL [(VZ 0%Z)]); (VL [(VZ 11%Z); (VZ 12%Z)]); (VL [(VZ 200%Z); (VZ 101%Z); (VZ 10%Z)])]); (VL [(VL [(VZ 1%Z); (VZ 5%Z)]); (VL [(VZ 13%Z)]); (VL (@nil (val)))])]));
  (([(cA [] [100;13]); (cV 1 1 [13] [13;10]); (cV 1 2 [200] [12;100])], (KSimple 1)),
   (VL [(VL [(VL [(VZ 2%Z); (VZ 1%Z)]); (VL (@nil (val))); (VL [(VZ 100%Z); (VZ 13%Z)])]); (VL [(VL [(VZ 3%Z); (VZ 1%Z); (VZ 1%Z)]); (VL [(VZ 13%Z)]); (VL [(VZ 10%Z)])]); (VL [(VL [(VZ 3%Z); (VZ 1%Z); (VZ 2%Z)]); (VL [(VZ 200%Z)]); (VL [(VZ 12%Z)])])]));
  (([(cA [] [200;100;11]); (cV 1 1 [] [10;101]); (cA [101] [13]); (cA [12;11] []); (cV 1 2 [] [10;200]); (cV 1 1 [11] [100])], (KSimple 1)),
   (VL [(VL [(VL [(VZ 2%Z); (VZ 1%Z)]); (VL [(VZ 12%Z); (VZ 11%Z); (VZ 101%Z)]); (VL [(VZ 13%Z); (VZ 200%Z); (VZ 100%Z)])]); (VL [(VL [(VZ 3%Z); (VZ 1%Z); (VZ 1%Z)]); (VL (@nil (val))); (VL [(VZ 10%Z)])]); (VL [(VL [(VZ 3%Z); (VZ 1%Z); (VZ 2%Z)]); (VL (@nil (val))); (VL [(VZ 10%Z)])])]));
  (([(cS 2 [2;10] [200;13]); (cV 2 1 [101] [13]); (cA [1;11] [11;10]); (cA [10] [12])], KAll),
   (VL [(VL [(VL [(VZ 0%Z)]); (VL [(VZ 10%Z); (VZ 1%Z); (VZ 11%Z); (VZ 2%Z)]); (VL [(VZ 12%Z); (VZ 200%Z); (VZ 13%Z)])]); (VL [(VL [(VZ 3%Z); (VZ 2%Z); (VZ 1%Z)]); (VL [(VZ 101%Z)]); (VL (@nil (val)))])]));
  (([(cS 1 [11;100] [100])], (KSimple 1)),
   (VL [(VL [(VL [(VZ 2%Z); (VZ 1%Z)]); (VL [(VZ 11%Z); (VZ 100%Z)]); (VL [(VZ 100%Z)])])]));
  (([(cA [] [12;101])], KAll),
   (VL [(VL [(VL [(VZ 0%Z)]); (VL (@nil (val))); (VL [(VZ 12%Z); (VZ 101%Z)])])]));
  (([(cA [101] [11]); (cV 2 1 [] [101;100])], (KSimple 2)),
   (VL [(VL [(VL [(VZ 2%Z); (VZ 2%Z)]); (VL [(VZ 101%Z)]); (VL [(VZ 11%Z)])]); (VL [(VL [(VZ 3%Z); (VZ 2%Z); (VZ 1%Z)]); (VL (@nil (val))); (VL [(VZ 101%Z); (VZ 100%Z)])])]));
  (([(cV 2 1 [2] [10]); (cV 2 1 [] [101]); (cG 3 [2] [12])], (KSimple 2)),
   (VL [(VL [(VL [(VZ 3%Z); (VZ 2%Z); (VZ 1%Z)]); (VL [(VZ 2%Z)]); (VL [(VZ 10%Z)])]); (VL [(VL [(VZ 3%Z); (VZ 2%Z); (VZ 1%Z)]); (VL (@nil (val))); (VL [(VZ 101%Z)])]); (VL [(VL [(VZ 1%Z); (VZ 3%Z)]); (VL [(VZ 2%Z)]); (VL [(VZ 12%Z)])])]));
  (([(cA [13] []); (cG 4 [12;10] [])], (KSimple 2)),
   (VL [(VL [(VL [(VZ 2%Z); (VZ 2%Z)]); (VL [(VZ 13%Z)]); (VL (@nil (val)))]); (VL [(VL [(VZ 1%Z); (VZ 4%Z)]); (VL [(VZ 12%Z); (VZ 10%Z)]); (VL (@nil (val)))])]));
  (([(cA [1;10] [200;12]); (cS 2 [13;11] [100]); (cG 4 [100] []); (cG 5 [11;200] []); (cS 2 [] [101;100;13])], (KSimple 2)),
   (VL [(VL [(VL [(VZ 2%Z); (VZ 2%Z)]); (VL [(VZ 11%Z); (VZ 1%Z); (VZ 10%Z)]); (VL [(VZ 101%Z); (VZ 100%Z); (VZ 13%Z); (VZ 200%Z); (VZ 12%Z)])]); (VL [(VL [(VZ 1%Z); (VZ 5%Z)]); (VL [(VZ 200%Z)]); (VL (@nil (val)))])]));
  (([(cS 1 [101;11;13] [13]); (cV 1 2 [101] [101;11])], (KSimple 1)),
   (VL [(VL [(VL [(VZ 2%Z); (VZ 1%Z)]); (VL [(VZ 101%Z); (VZ 11%Z); (VZ 13%Z)]); (VL (@nil (val)))]); (VL [(VL [(VZ 3%Z); (VZ 1%Z); (VZ 2%Z)]); (VL (@nil (val))); (VL [(VZ 101%Z); (VZ 11%Z)])])]));
  (([(cA [12] [100;10]); (cS 2 [11] []); (cA [] [10;200;12]); (cA [100;10] [11])], (KSimple 2)),
   (VL [(VL [(VL [(VZ 2%Z); (VZ 2%Z)]); (VL [(VZ 100%Z); (VZ 10%Z)]); (VL [(VZ 11%Z); (VZ 200%Z); (VZ 12%Z)])])]));
  (([(cS 1 [] [12;100]); (cS 1 [11] [100])], KAll),
   (VL [(VL [(VL [(VZ 0%Z)]); (VL [(VZ 11%Z)]); (VL [(VZ 100%Z); (VZ 12%Z)])])]));
  (([(cV 2 2 [2] [10]); (cA [13] [11])], KAll),
   (VL [(VL [(VL [(VZ 0%Z)]); (VL [(VZ 13%Z)]); (VL [(VZ 11%Z)])]); (VL [(VL [(VZ 3%Z); (VZ 2%Z); (VZ 2%Z)]); (VL [(VZ 2%Z)]); (VL [(VZ 10%Z)])])]));
  (([(cS 2 [13] [12;100]); (cA [11] [13]); (cV 2 1 [] [12]); (cG 3 [0] [100;13])], (KSimple 2)),
   (VL [(VL [(VL [(VZ 2%Z); (VZ 2%Z)]); (VL [(VZ 11%Z)]); (VL [(VZ 13%Z); (VZ 12%Z); (VZ 100%Z)])]); (VL [(VL [(VZ 1%Z); (VZ 3%Z)]); (VL [(VZ 0%Z)]); (VL (@nil (val)))])]));
  (([(cS 1 [13] [])], KAll),
   (VL [(VL [(VL [(VZ 2%Z); (VZ 1%Z)]); (VL [(VZ 13%Z)]); (VL (@nil (val)))])]));
  (([(cS 2 [200;12] []); (cA [10;13] [13]); (cG 3 [] [101])], (KSimple 2)),
   (VL [(VL [(VL [(VZ 2%Z); (VZ 2%Z)]); (VL [(VZ 10%Z); (VZ 13%Z); (VZ 200%Z); (VZ 12%Z)]); (VL (@nil (val)))]); (VL [(VL [(VZ 1%Z); (VZ 3%Z)]); (VL (@nil (val))); (VL [(VZ 101%Z)])])]));
  (([(cS 1 [1;101;100] []); (cV 1 2 [2;12] [10])], (KSimple 1)),
   (VL [(VL [(VL [(VZ 2%Z); (VZ 1%Z)]); (VL [(VZ 1%Z); (VZ 101%Z); (VZ 100%Z)]); (VL (@nil (val)))]); (VL [(VL [(VZ 3%Z); (VZ 1%Z); (VZ 2%Z)]); (VL [(VZ 2%Z); (VZ 12%Z)]); (VL [(VZ 10%Z)])])]));
  (([(cA [] [12;200]); (cA [] [100;10;12]); (cV 1 1 [200] [100])], (KSimple 1)),
   (VL [(VL [(VL [(VZ 2%Z); (VZ 1%Z)]); (VL (@nil (val))); (VL [(VZ 100%Z); (VZ 10%Z); (VZ 12%Z); (VZ 200%Z)])]); (VL [(VL [(VZ 3%Z); (VZ 1%Z); (VZ 1%Z)]); (VL [(VZ 200%Z)]); (VL (@nil (val)))])]));
  (([(cA [13] [101]); (cS 2 [0;100] [10]); (cA [] [200;101]); (cV 2 2 [2;200] [])], KAll),
   (VL [(VL [(VL [(VZ 0%Z)]); (VL [(VZ 0%Z); (VZ 100%Z); (VZ 13%Z)]); (VL [(VZ 200%Z); (VZ 101%Z); (VZ 10%Z)])]); (VL [(VL [(VZ 3%Z); (VZ 2%Z); (VZ 2%Z)]); (VL [(VZ 2%Z); (VZ 200%Z)]); (VL (@nil (val)))])]));
  (([(cA [12] []); (cG 4 [100] [11])], KAll),
   (VL [(VL [(VL [(VZ 0%Z)]); (VL [(VZ 12%Z)]); (VL (@nil (val)))]); (VL [(VL [(VZ 1%Z); (VZ 4%Z)]); (VL [(VZ 100%Z)]); (VL [(VZ 11%Z)])])]));
  (([(cA [100] [10]); (cV 2 2 [200] [13]); (cA [2;12] [13])], (KSimple 2)),
   (VL [(VL [(VL [(VZ 2%Z); (VZ 2%Z)]); (VL [(VZ 2%Z); (VZ 12%Z); (VZ 100%Z)]); (VL [(VZ 13%Z); (VZ 10%Z)])]); (VL [(VL [(VZ 3%Z); (VZ 2%Z); (VZ 2%Z)]); (VL [(VZ 200%Z)]); (VL (@nil (val)))])]));
  (([(cS 1 [11] []); (cA [10] [101;11])], KAll),
   (VL [(VL [(VL [(VZ 0%Z)]); (VL [(VZ 10%Z)]); (VL [(VZ 101%Z); (VZ 11%Z)])])]));
  (([(cA [12] [11]); (cG 5 [] [200;12;13]); (cG 3 [13] [])], (KSimple 1)),
   (VL [(VL [(VL [(VZ 2%Z); (VZ 1%Z)]); (VL [(VZ 12%Z)]); (VL [(VZ 11%Z)])]); (VL [(VL [(VZ 1%Z); (VZ 5%Z)]); (VL (@nil (val))); (VL [(VZ 200%Z); (VZ 12%Z); (VZ 13%Z)])]); (VL [(VL [(VZ 1%Z); (VZ 3%Z)]); (VL [(VZ 13%Z)]); (VL (@nil (val)))])]));
  (([(cS 1 [11] [13;101]); (cV 1 1 [13;101;200] []); (cV 1 2 [] [12;200]); (cS 1 [100;13] []); (cS 1 [12] [200;13]); (cV 1 2 [] [100;200])], KAll),
   (VL [(VL [(VL [(VZ 0%Z)]); (VL [(VZ 12%Z); (VZ 100%Z); (VZ 11%Z)]); (VL [(VZ 200%Z); (VZ 13%Z); (VZ 101%Z)])]); (VL [(VL [(VZ 3%Z); (VZ 1%Z); (VZ 1%Z)]); (VL [(VZ 101%Z)]); (VL (@nil (val)))]); (VL [(VL [(VZ 3%Z); (VZ 1%Z); (VZ 2%Z)]); (VL (@nil (val))); (VL [(VZ 100%Z)])])]));
  (([(cA [12] [11;200]); (cV 2 1 [] [101])], (KSimple 2)),
   (VL [(VL [(VL [(VZ 2%Z); (VZ 2%Z)]); (VL [(VZ 12%Z)]); (VL [(VZ 11%Z); (VZ 200%Z)])]); (VL [(VL [(VZ 3%Z); (VZ 2%Z); (VZ 1%Z)]); (VL (@nil (val))); (VL [(VZ 101%Z)])])]));
  (([(cG 4 [12] []); (cG 4 [2] [200]); (cV 0 2 [] [101;100]); (cV 0 2 [] [12;10])], KAll),
   (VL [(VL [(VL [(VZ 1%Z); (VZ 4%Z)]); (VL [(VZ 12%Z)]); (VL (@nil (val)))]); (VL [(VL [(VZ 1%Z); (VZ 4%Z)]); (VL [(VZ 2%Z)]); (VL [(VZ 200%Z)])]); (VL [(VL [(VZ 3%Z); (VZ 0%Z); (VZ 2%Z)]); (VL (@nil (val))); (VL [(VZ 101%Z); (VZ 100%Z)])]); (VL [(VL [(VZ 3%Z); (VZ 0%Z); (VZ 2%Z)]); (VL (@nil (val))); (VL [(VZ 12%Z); (VZ 10%Z)])])]));
  (([(cS 1 [100;11] [11]); (cG 3 [13] [100])], KAll),
   (VL [(VL [(VL [(VZ 0%Z)]); (VL [(VZ 100%Z); (VZ 11%Z)]); (VL (@nil (val)))]); (VL [(VL [(VZ 1%Z); (VZ 3%Z)]); (VL [(VZ 13%Z)]); (VL [(VZ 100%Z)])])]));
  (([(cA [] [10;100]); (cS 2 [13] []); (cA [11] [12])], KAll),
   (VL [(VL [(VL [(VZ 0%Z)]); (VL [(VZ 11%Z); (VZ 13%Z)]); (VL [(VZ 12%Z); (VZ 10%Z); (VZ 100%Z)])])]));
  (([(cA [12;101] []); (cG 4 [] [13;10])], KAll),
   (VL [(VL [(VL [(VZ 0%Z)]); (VL [(VZ 12%Z); (VZ 101%Z)]); (VL (@nil (val)))]); (VL [(VL [(VZ 1%Z); (VZ 4%Z)]); (VL (@nil (val))); (VL [(VZ 13%Z); (VZ 10%Z)])])]));
  (([(cA [10] [13;100]); (cS 1 [] [101;100]); (cA [] [100;12])], (KSimple 1)),
   (VL [(VL [(VL [(VZ 2%Z); (VZ 1%Z)]); (VL [(VZ 10%Z)]); (VL [(VZ 100%Z); (VZ 12%Z); (VZ 101%Z); (VZ 13%Z)])])]));
  (([(cA [200;10;11] []); (cV 0 2 [] [100;12]); (cV 0 1 [200;13] [10]); (cV 0 2 [] [13]); (cA [200] []); (cV 0 2 [101] [12])], (KSimple 0)),
   (VL [(VL [(VL [(VZ 2%Z); (VZ 0%Z)]); (VL [(VZ 200%Z); (VZ 10%Z); (VZ 11%Z)]); (VL (@nil (val)))]); (VL [(VL [(VZ 3%Z); (VZ 0%Z); (VZ 2%Z)]); (VL (@nil (val))); (VL [(VZ 100%Z); (VZ 12%Z)])]); (VL [(VL [(VZ 3%Z); (VZ 0%Z); (VZ 1%Z)]); (VL [(VZ 13%Z)]); (VL [(VZ 10%Z)])]); (VL [(VL [(VZ 3%Z); (VZ 0%Z); (VZ 2%Z)]); (VL (@nil (val))); (VL [(VZ 13%Z)])]); (VL [(VL [(VZ 3%Z); (VZ 0%Z); (VZ 2%Z)]); (VL [(VZ 101%Z)]); (VL [(VZ 12%Z)])])]));
  (([(cS 1 [101] [10]); (cG 4 [200] []); (cG 5 [2] [10]); (cG 5 [12] [13])], KAll),
   (VL [(VL [(VL [(VZ 0%Z)]); (VL [(VZ 101%Z)]); (VL [(VZ 10%Z)])]); (VL [(VL [(VZ 1%Z); (VZ 4%Z)]); (VL [(VZ 200%Z)]); (VL (@nil (val)))]); (VL [(VL [(VZ 1%Z); (VZ 5%Z)]); (VL [(VZ 2%Z)]); (VL (@nil (val)))]); (VL [(VL [(VZ 1%Z); (VZ 5%Z)]); (VL [(VZ 12%Z)]); (VL [(VZ 13%Z)])])]));
  (([(cS 0 [101] [12]); (cA [100] [100;11]); (cV 0 2 [12;11] [11;100]); (cG 4 [] [200;101])], (KSimple 0)),
   (VL [(VL [(VL [(VZ 2%Z); (VZ 0%Z)]); (VL [(VZ 100%Z); (VZ 101%Z)]); (VL [(VZ 11%Z); (VZ 12%Z)])]); (VL [(VL [(VZ 3%Z); (VZ 0%Z); (VZ 2%Z)]); (VL [(VZ 12%Z); (VZ 11%Z)]); (VL [(VZ 100%Z)])]); (VL [(VL [(VZ 1%Z); (VZ 4%Z)]); (VL (@nil (val))); (VL [(VZ 200%Z); (VZ 101%Z)])])]));
  (([(cA [200] [12;100]); (cA [] [13])], KAll),
   (VL [(VL [(VL [(VZ 0%Z)]); (VL [(VZ 200%Z)]); (VL [(VZ 13%Z); (VZ 12%Z); (VZ 100%Z)])])]));
  (([(cA [12;200] []); (cS 0 [200] [])], (KSimple 0)),
   (VL [(VL [(VL [(VZ 2%Z); (VZ 0%Z)]); (VL [(VZ 200%Z); (VZ 12%Z)]); (VL (@nil (val)))])]));
  (([(cS 0 [10] [])], (KSimple 0)),
   (VL [(VL [(VL [(VZ 2%Z); (VZ 0%Z)]); (VL [(VZ 10%Z)]); (VL (@nil (val)))])]));
  (([(cV 0 2 [] [200;11]); (cA [] [11]); (cA [11] []); (cS 0 [11] [13]); (cA [] [10;13]); (cV 0 2 [13] [])], (KSimple 0)),
   (VL [(VL [(VL [(VZ 2%Z); (VZ 0%Z)]); (VL [(VZ 11%Z)]); (VL [(VZ 10%Z); (VZ 13%Z)])]); (VL [(VL [(VZ 3%Z); (VZ 0%Z); (VZ 2%Z)]); (VL (@nil (val))); (VL [(VZ 200%Z)])]); (VL [(VL [(VZ 3%Z); (VZ 0%Z); (VZ 2%Z)]); (VL [(VZ 13%Z)]); (VL (@nil (val)))])]));
  (([(cV 2 1 [200;12] []); (cA [] [11;100])], (KSimple 2)),
   (VL [(VL [(VL [(VZ 2%Z); (VZ 2%Z)]); (VL (@nil (val))); (VL [(VZ 11%Z); (VZ 100%Z)])]); (VL [(VL [(VZ 3%Z); (VZ 2%Z); (VZ 1%Z)]); (VL [(VZ 200%Z); (VZ 12%Z)]); (VL (@nil (val)))])]));
  (((@nil (chunk)), (KSimple 0)),
   (VL (@nil (val))));
  (([(cA [101;10] []); (cA [200] [])], (KSimple 0)),
   (VL [(VL [(VL [(VZ 2%Z); (VZ 0%Z)]); (VL [(VZ 200%Z); (VZ 101%Z); (VZ 10%Z)]); (VL (@nil (val)))])]));
  (([(cG 3 [101] []); (cV 2 2 [11;200] [200;100]); (cS 2 [] [200;12]); (cA [1] [100;101]); (cV 2 1 [13;10] [100]); (cS 2 [] [10])], (KSimple 2)),
   (VL [(VL [(VL [(VZ 2%Z); (VZ 2%Z)]); (VL [(VZ 1%Z)]); (VL [(VZ 10%Z); (VZ 100%Z); (VZ 101%Z); (VZ 200%Z); (VZ 12%Z)])]); (VL [(VL [(VZ 3%Z); (VZ 2%Z); (VZ 2%Z)]); (VL [(VZ 11%Z)]); (VL (@nil (val)))]); (VL [(VL [(VZ 3%Z); (VZ 2%Z); (VZ 1%Z)]); (VL [(VZ 13%Z)]); (VL (@nil (val)))])]));
  (([(cS 0 [] [200;13])], KAll),
   (VL [(VL [(VL [(VZ 2%Z); (VZ 0%Z)]); (VL (@nil (val))); (VL [(VZ 200%Z); (VZ 13%Z)])])]));
  (([(cA [10] [13]); (cV 0 2 [12] [100])], KAll),
   (VL [(VL [(VL [(VZ 0%Z)]); (VL [(VZ 10%Z)]); (VL [(VZ 13%Z)])]); (VL [(VL [(VZ 3%Z); (VZ 0%Z); (VZ 2%Z)]); (VL [(VZ 12%Z)]); (VL [(VZ 100%Z)])])]));
  (((@nil (chunk)), KAll),
   (VL (@nil (val))));
  (([(cV 1 1 [13] [10]); (cV 1 1 [] [13]); (cG 4 [101] [13;200]); (cS 1 [101] []); (cV 1 2 [11] []); (cG 4 [101;12] [])], KAll),
   (VL [(VL [(VL [(VZ 0%Z)]); (VL [(VZ 101%Z)]); (VL (@nil (val)))]); (VL [(VL [(VZ 3%Z); (VZ 1%Z); (VZ 1%Z)]); (VL [(VZ 13%Z)]); (VL [(VZ 10%Z)])]); (VL [(VL [(VZ 3%Z); (VZ 1%Z); (VZ 1%Z)]); (VL (@nil (val))); (VL [(VZ 13%Z)])]); (VL [(VL [(VZ 1%Z); (VZ 4%Z)]); (VL (@nil (val))); (VL [(VZ 13%Z); (VZ 200%Z)])]); (VL [(VL [(VZ 3%Z); (VZ 1%Z); (VZ 2%Z)]); (VL [(VZ 11%Z)]); (VL (@nil (val)))]); (VL [(VL [(VZ 1%Z); (VZ 4%Z)]); (VL [(VZ 12%Z)]); (VL (@nil (val)))])]));
  (((@nil (chunk)), KAll),
   (VL (@nil (val))));
  (([(cV 1 2 [] [12]); (cG 5 [12] [10])], (KSimple 1)),
   (VL [(VL [(VL [(VZ 3%Z); (VZ 1%Z); (VZ 2%Z)]); (VL (@nil (val))); (VL [(VZ 12%Z)])]); (VL [(VL [(VZ 1%Z); (VZ 5%Z)]); (VL [(VZ 12%Z)]); (VL [(VZ 10%Z)])])]));
  (([(cG 4 [100] [12]); (cA [12] [12;200;100]); (cA [] [12;13]); (cS 1 [101] [101;13]); (cA [13;200] []); (cS 1 [11] [])], (KSimple 1)),
   (VL [(VL [(VL [(VZ 2%Z); (VZ 1%Z)]); (VL [(VZ 11%Z); (VZ 13%Z); (VZ 200%Z); (VZ 101%Z)]); (VL [(VZ 12%Z); (VZ 100%Z)])])]));
  (([(cS 2 [101] [12]); (cA [] [200]); (cV 2 1 [200] [100])], (KSimple 2)),
   (VL [(VL [(VL [(VZ 2%Z); (VZ 2%Z)]); (VL [(VZ 101%Z)]); (VL [(VZ 200%Z); (VZ 12%Z)])]); (VL [(VL [(VZ 3%Z); (VZ 2%Z); (VZ 1%Z)]); (VL [(VZ 200%Z)]); (VL [(VZ 100%Z)])])]));
  (([(cG 3 [12] []); (cG 4 [12] []); (cV 0 2 [10;100] []); (cA [12;200] [11]); (cG 4 [200] [100])], (KSimple 0)),
   (VL [(VL [(VL [(VZ 2%Z); (VZ 0%Z)]); (VL [(VZ 12%Z); (VZ 200%Z)]); (VL [(VZ 11%Z)])]); (VL [(VL [(VZ 3%Z); (VZ 0%Z); (VZ 2%Z)]); (VL [(VZ 10%Z); (VZ 100%Z)]); (VL (@nil (val)))]); (VL [(VL [(VZ 1%Z); (VZ 4%Z)]); (VL (@nil (val))); (VL [(VZ 100%Z)])])]));
  (([(cS 0 [] [10;100]); (cS 0 [200;13] []); (cA [1] [12])], (KSimple 0)),
   (VL [(VL [(VL [(VZ 2%Z); (VZ 0%Z)]); (VL [(VZ 1%Z); (VZ 200%Z); (VZ 13%Z)]); (VL [(VZ 12%Z); (VZ 10%Z); (VZ 100%Z)])])]));
  (([(cV 1 2 [10] [12]); (cV 1 1 [12;101] [200]); (cS 1 [13] [200]); (cV 1 2 [] [10;200;11])], (KSimple 1)),
   (VL [(VL [(VL [(VZ 2%Z); (VZ 1%Z)]); (VL [(VZ 13%Z)]); (VL [(VZ 200%Z)])]); (VL [(VL [(VZ 3%Z); (VZ 1%Z); (VZ 2%Z)]); (VL [(VZ 10%Z)]); (VL [(VZ 12%Z)])]); (VL [(VL [(VZ 3%Z); (VZ 1%Z); (VZ 1%Z)]); (VL [(VZ 12%Z); (VZ 101%Z)]); (VL (@nil (val)))]); (VL [(VL [(VZ 3%Z); (VZ 1%Z); (VZ 2%Z)]); (VL (@nil (val))); (VL [(VZ 10%Z); (VZ 11%Z)])])]));
  (([(cV 1 2 [200] [11]); (cS 1 [100;13] [13]); (cA [11;200] [])], (KSimple 1)),
   (VL [(VL [(VL [(VZ 2%Z); (VZ 1%Z)]); (VL [(VZ 11%Z); (VZ 200%Z); (VZ 100%Z); (VZ 13%Z)]); (VL (@nil (val)))])]));
  (([(cS 2 [13] []); (cA [12] [11]); (cV 2 1 [] [100;12]); (cV 2 1 [12;13] []); (cV 2 2 [] [200;101])], (KSimple 2)),
   (VL [(VL [(VL [(VZ 2%Z); (VZ 2%Z)]); (VL [(VZ 12%Z); (VZ 13%Z)]); (VL [(VZ 11%Z)])]); (VL [(VL [(VZ 3%Z); (VZ 2%Z); (VZ 1%Z)]); (VL (@nil (val))); (VL [(VZ 100%Z); (VZ 12%Z)])]); (VL [(VL [(VZ 3%Z); (VZ 2%Z); (VZ 2%Z)]); (VL (@nil (val))); (VL [(VZ 200%Z); (VZ 101%Z)])])]));
  (([(cV 1 1 [101] []); (cV 1 1 [200] [12]); (cA [11] [12;13]); (cV 1 2 [] [13;12;11]); (cS 1 [200;100] [10])], KAll),
   (VL [(VL [(VL [(VZ 0%Z)]); (VL [(VZ 200%Z); (VZ 100%Z); (VZ 11%Z)]); (VL [(VZ 10%Z); (VZ 12%Z); (VZ 13%Z)])]); (VL [(VL [(VZ 3%Z); (VZ 1%Z); (VZ 1%Z)]); (VL [(VZ 101%Z)]); (VL (@nil (val)))]); (VL [(VL [(VZ 3%Z); (VZ 1%Z); (VZ 2%Z)]); (VL (@nil (val))); (VL [(VZ 11%Z)])])]));
  (([(cG 3 [10;12] [100]); (cS 0 [100] [10]); (cA [12] [200])], (KSimple 0)),
   (VL [(VL [(VL [(VZ 2%Z); (VZ 0%Z)]); (VL [(VZ 12%Z); (VZ 100%Z)]); (VL [(VZ 200%Z); (VZ 10%Z)])])]));
  (((@nil (chunk)), (KSimple 2)),
   (VL (@nil (val))));
  (([(cV 1 1 [] [11;200]); (cA [] [101;200])], KAll),
   (VL [(VL [(VL [(VZ 0%Z)]); (VL (@nil (val))); (VL [(VZ 101%Z); (VZ 200%Z)])]); (VL [(VL [(VZ 3%Z); (VZ 1%Z); (VZ 1%Z)]); (VL (@nil (val))); (VL [(VZ 11%Z)])])]));
  (([(cG 3 [] [100;11;200]); (cS 0 [11] [200]); (cV 0 2 [11] [13;101])], (KSimple 0)),
   (VL [(VL [(VL [(VZ 2%Z); (VZ 0%Z)]); (VL [(VZ 11%Z)]); (VL [(VZ 200%Z)])]); (VL [(VL [(VZ 1%Z); (VZ 3%Z)]); (VL (@nil (val))); (VL [(VZ 100%Z)])]); (VL [(VL [(VZ 3%Z); (VZ 0%Z); (VZ 2%Z)]); (VL (@nil (val))); (VL [(VZ 13%Z); (VZ 101%Z)])])]));
  (([(cA [200;10] [10]); (cA [] [12;13])], (KSimple 1)),
   (VL [(VL [(VL [(VZ 2%Z); (VZ 1%Z)]); (VL [(VZ 200%Z); (VZ 10%Z)]); (VL [(VZ 12%Z); (VZ 13%Z)])])]));
  (((@nil (chunk)), (KSimple 1)),
   (VL (@nil (val))));
  (([(cG 5 [1;101;13] [10]); (cA [12] [13]); (cG 3 [] [13;12]); (cV 1 1 [100] [10;11])], KAll),
   (VL [(VL [(VL [(VZ 0%Z)]); (VL [(VZ 12%Z)]); (VL [(VZ 13%Z)])]); (VL [(VL [(VZ 1%Z); (VZ 5%Z)]); (VL [(VZ 1%Z); (VZ 101%Z)]); (VL [(VZ 10%Z)])]); (VL [(VL [(VZ 1%Z); (VZ 3%Z)]); (VL (@nil (val))); (VL [(VZ 12%Z)])]); (VL [(VL [(VZ 3%Z); (VZ 1%Z); (VZ 1%Z)]); (VL [(VZ 100%Z)]); (VL [(VZ 10%Z); (VZ 11%Z)])])]));
  (([(cV 1 2 [13] [])], (KSimple 1)),
   (VL [(VL [(VL [(VZ 3%Z); (VZ 1%Z); (VZ 2%Z)]); (VL [(VZ 13%Z)]); (VL (@nil (val)))])]));
  (([(cA [] [13;100]); (cV 2 2 [13] []); (cV 2 1 [] [10]); (cV 2 1 [12] [200;11]); (cV 2 2 [13] [11]); (cS 2 [100] [200])], KAll),
   (VL [(VL [(VL [(VZ 0%Z)]); (VL [(VZ 100%Z)]); (VL [(VZ 200%Z); (VZ 13%Z)])]); (VL [(VL [(VZ 3%Z); (VZ 2%Z); (VZ 2%Z)]); (VL [(VZ 13%Z)]); (VL (@nil (val)))]); (VL [(VL [(VZ 3%Z); (VZ 2%Z); (VZ 1%Z)]); (VL (@nil (val))); (VL [(VZ 10%Z)])]); (VL [(VL [(VZ 3%Z); (VZ 2%Z); (VZ 1%Z)]); (VL [(VZ 12%Z)]); (VL [(VZ 11%Z)])]); (VL [(VL [(VZ 3%Z); (VZ 2%Z); (VZ 2%Z)]); (VL [(VZ 13%Z)]); (VL [(VZ 11%Z)])])]));
  (([(cV 1 2 [100] [13;10]); (cS 1 [12;200] []); (cS 1 [200;13;11] [])], KAll),
   (VL [(VL [(VL [(VZ 0%Z)]); (VL [(VZ 200%Z); (VZ 13%Z); (VZ 11%Z); (VZ 12%Z)]); (VL (@nil (val)))]); (VL [(VL [(VZ 3%Z); (VZ 1%Z); (VZ 2%Z)]); (VL [(VZ 100%Z)]); (VL [(VZ 10%Z)])])]));
  (([(cA [200] [12]); (cG 5 [] [101;13]); (cG 3 [] [101;11]); (cA [12] [10;13])], (KSimple 2)),
   (VL [(VL [(VL [(VZ 2%Z); (VZ 2%Z)]); (VL [(VZ 12%Z); (VZ 200%Z)]); (VL [(VZ 10%Z); (VZ 13%Z)])]); (VL [(VL [(VZ 1%Z); (VZ 5%Z)]); (VL (@nil (val))); (VL [(VZ 101%Z)])]); (VL [(VL [(VZ 1%Z); (VZ 3%Z)]); (VL (@nil (val))); (VL [(VZ 101%Z); (VZ 11%Z)])])]));
  (([(cS 2 [11] [101]); (cA [13] [101]); (cS 2 [] [10]); (cV 2 1 [13;200] [10]); (cV 2 1 [] [200])], (KSimple 2)),
   (VL [(VL [(VL [(VZ 2%Z); (VZ 2%Z)]); (VL [(VZ 13%Z); (VZ 11%Z)]); (VL [(VZ 10%Z); (VZ 101%Z)])]); (VL [(VL [(VZ 3%Z); (VZ 2%Z); (VZ 1%Z)]); (VL [(VZ 200%Z)]); (VL (@nil (val)))]); (VL [(VL [(VZ 3%Z); (VZ 2%Z); (VZ 1%Z)]); (VL (@nil (val))); (VL [(VZ 200%Z)])])]));
  (([(cG 5 [13;11] []); (cS 2 [] [10]); (cV 2 1 [100] [13])], KAll),
   (VL [(VL [(VL [(VZ 0%Z)]); (VL (@nil (val))); (VL [(VZ 10%Z)])]); (VL [(VL [(VZ 1%Z); (VZ 5%Z)]); (VL [(VZ 13%Z); (VZ 11%Z)]); (VL (@nil (val)))]); (VL [(VL [(VZ 3%Z); (VZ 2%Z); (VZ 1%Z)]); (VL [(VZ 100%Z)]); (VL [(VZ 13%Z)])])]));
  (([(cG 3 [11] [200]); (cG 3 [] [12;100])], KAll),
   (VL [(VL [(VL [(VZ 1%Z); (VZ 3%Z)]); (VL [(VZ 11%Z)]); (VL [(VZ 200%Z)])]); (VL [(VL [(VZ 1%Z); (VZ 3%Z)]); (VL (@nil (val))); (VL [(VZ 12%Z); (VZ 100%Z)])])]));
  (([(cV 2 1 [11] [101]); (cS 2 [100] [101]); (cV 2 1 [] [13]); (cV 2 1 [] [10;13;100]); (cA [] [200;11])], KAll),
   (VL [(VL [(VL [(VZ 0%Z)]); (VL [(VZ 100%Z)]); (VL [(VZ 200%Z); (VZ 11%Z); (VZ 101%Z)])]); (VL [(VL [(VZ 3%Z); (VZ 2%Z); (VZ 1%Z)]); (VL (@nil (val))); (VL [(VZ 13%Z)])]); (VL [(VL [(VZ 3%Z); (VZ 2%Z); (VZ 1%Z)]); (VL (@nil (val))); (VL [(VZ 10%Z); (VZ 13%Z); (VZ 100%Z)])])]));
  (([(cS 2 [100] [12]); (cS 2 [200] []); (cS 2 [100] [10])], (KSimple 2)),
   (VL [(VL [(VL [(VZ 2%Z); (VZ 2%Z)]); (VL [(VZ 100%Z); (VZ 200%Z)]); (VL [(VZ 10%Z); (VZ 12%Z)])])]));
  (([(cV 2 2 [100] [12]); (cG 3 [] [13;10;12])], (KSimple 2)),
   (VL [(VL [(VL [(VZ 3%Z); (VZ 2%Z); (VZ 2%Z)]); (VL [(VZ 100%Z)]); (VL [(VZ 12%Z)])]); (VL [(VL [(VZ 1%Z); (VZ 3%Z)]); (VL (@nil (val))); (VL [(VZ 13%Z); (VZ 10%Z); (VZ 12%Z)])])]));
  (((@nil (chunk)), (KSimple 1)),
   (VL (@nil (val))));
  (([(cS 0 [] [11]); (cG 4 [101] [13]); (cS 0 [] [200])], (KSimple 0)),
   (VL [(VL [(VL [(VZ 2%Z); (VZ 0%Z)]); (VL (@nil (val))); (VL [(VZ 200%Z); (VZ 11%Z)])]); (VL [(VL [(VZ 1%Z); (VZ 4%Z)]); (VL [(VZ 101%Z)]); (VL [(VZ 13%Z)])])]));
  (([(cS 2 [] [13;12]); (cV 2 2 [11] []); (cS 2 [11;12] [12])], KAll),
   (VL [(VL [(VL [(VZ 0%Z)]); (VL [(VZ 11%Z); (VZ 12%Z)]); (VL [(VZ 13%Z)])])]));
  (([(cS 2 [100] []); (cG 4 [] [11;101;100])], (KSimple 2)),
   (VL [(VL [(VL [(VZ 2%Z); (VZ 2%Z)]); (VL [(VZ 100%Z)]); (VL (@nil (val)))]); (VL [(VL [(VZ 1%Z); (VZ 4%Z)]); (VL (@nil (val))); (VL [(VZ 11%Z); (VZ 101%Z); (VZ 100%Z)])])]));
  (([(cA [10;11] []); (cA [11] [12;10])], (KSimple 0)),
   (VL [(VL [(VL [(VZ 2%Z); (VZ 0%Z)]); (VL [(VZ 11%Z)]); (VL [(VZ 12%Z); (VZ 10%Z)])])]));
  (((@nil (chunk)), (KSimple 1)),
   (VL (@nil (val))));
  (([(cG 4 [1;11;12] [13]); (cV 2 2 [200] [13;11]); (cS 2 [13] []); (cA [12;10] []); (cV 2 2 [101] [100;200])], (KSimple 2)),
   (VL [(VL [(VL [(VZ 2%Z); (VZ 2%Z)]); (VL [(VZ 12%Z); (VZ 10%Z); (VZ 13%Z)]); (VL (@nil (val)))]); (VL [(VL [(VZ 1%Z); (VZ 4%Z)]); (VL [(VZ 1%Z); (VZ 11%Z)]); (VL (@nil (val)))]); (VL [(VL [(VZ 3%Z); (VZ 2%Z); (VZ 2%Z)]); (VL [(VZ 200%Z)]); (VL [(VZ 11%Z)])]); (VL [(VL [(VZ 3%Z); (VZ 2%Z); (VZ 2%Z)]); (VL [(VZ 101%Z)]); (VL [(VZ 100%Z); (VZ 200%Z)])])]));
  (([(cV 2 2 [] [12;13]); (cS 2 [] [100]); (cG 5 [] [10;12;101]); (cA [] [101;200]); (cG 5 [13] []); (cA [10;200] [])], (KSimple 2)),
   (VL [(VL [(VL [(VZ 2%Z); (VZ 2%Z)]); (VL [(VZ 10%Z); (VZ 200%Z)]); (VL [(VZ 101%Z); (VZ 100%Z)])]); (VL [(VL [(VZ 3%Z); (VZ 2%Z); (VZ 2%Z)]); (VL (@nil (val))); (VL [(VZ 12%Z); (VZ 13%Z)])]); (VL [(VL [(VZ 1%Z); (VZ 5%Z)]); (VL (@nil (val))); (VL [(VZ 12%Z)])]); (VL [(VL [(VZ 1%Z); (VZ 5%Z)]); (VL [(VZ 13%Z)]); (VL (@nil (val)))])]));
  (([(cV 0 1 [10;101] []); (cG 4 [10;13] [12]); (cA [] [100])], KAll),
   (VL [(VL [(VL [(VZ 0%Z)]); (VL (@nil (val))); (VL [(VZ 100%Z)])]); (VL [(VL [(VZ 3%Z); (VZ 0%Z); (VZ 1%Z)]); (VL [(VZ 10%Z); (VZ 101%Z)]); (VL (@nil (val)))]); (VL [(VL [(VZ 1%Z); (VZ 4%Z)]); (VL [(VZ 10%Z); (VZ 13%Z)]); (VL [(VZ 12%Z)])])]));
  (([(cV 2 2 [0;200] [100]); (cG 4 [200] [100;101]); (cV 2 1 [0] [12]); (cV 2 1 [100] []); (cG 3 [] [11]); (cV 2 2 [] [11;12])], (KSimple 2)),
   (VL [(VL [(VL [(VZ 3%Z); (VZ 2%Z); (VZ 2%Z)]); (VL [(VZ 0%Z); (VZ 200%Z)]); (VL [(VZ 100%Z)])]); (VL [(VL [(VZ 1%Z); (VZ 4%Z)]); (VL [(VZ 200%Z)]); (VL [(VZ 100%Z); (VZ 101%Z)])]); (VL [(VL [(VZ 3%Z); (VZ 2%Z); (VZ 1%Z)]); (VL [(VZ 0%Z)]); (VL [(VZ 12%Z)])]); (VL [(VL [(VZ 3%Z); (VZ 2%Z); (VZ 1%Z)]); (VL [(VZ 100%Z)]); (VL (@nil (val)))]); (VL [(VL [(VZ 1%Z); (VZ 3%Z)]); (VL (@nil (val))); (VL [(VZ 11%Z)])]); (VL [(VL [(VZ 3%Z); (VZ 2%Z); (VZ 2%Z)]); (VL (@nil (val))); (VL [(VZ 11%Z); (VZ 12%Z)])])]));
  (([(cG 5 [10] []); (cV 0 1 [0;101] [11]); (cV 0 1 [10] []); (cS 0 [13;12] []); (cS 0 [12;101] [])], (KSimple 0)),
   (VL [(VL [(VL [(VZ 2%Z); (VZ 0%Z)]); (VL [(VZ 12%Z); (VZ 101%Z); (VZ 13%Z)]); (VL (@nil (val)))]); (VL [(VL [(VZ 1%Z); (VZ 5%Z)]); (VL [(VZ 10%Z)]); (VL (@nil (val)))]); (VL [(VL [(VZ 3%Z); (VZ 0%Z); (VZ 1%Z)]); (VL [(VZ 0%Z)]); (VL [(VZ 11%Z)])]); (VL [(VL [(VZ 3%Z); (VZ 0%Z); (VZ 1%Z)]); (VL [(VZ 10%Z)]); (VL (@nil (val)))])]));
  (([(cS 2 [] [200;101]); (cG 3 [200] [11])], (KSimple 2)),
   (VL [(VL [(VL [(VZ 2%Z); (VZ 2%Z)]); (VL (@nil (val))); (VL [(VZ 200%Z); (VZ 101%Z)])]); (VL [(VL [(VZ 1%Z); (VZ 3%Z)]); (VL [(VZ 200%Z)]); (VL [(VZ 11%Z)])])]));
  (([(cV 0 1 [200] [200]); (cS 0 [10] []); (cS 0 [11] [200]); (cA [] [11;13]); (cV 0 2 [11] [12]); (cV 0 2 [] [10;12])], (KSimple 0)),
   (VL [(VL [(VL [(VZ 2%Z); (VZ 0%Z)]); (VL [(VZ 10%Z)]); (VL [(VZ 11%Z); (VZ 13%Z); (VZ 200%Z)])]); (VL [(VL [(VZ 3%Z); (VZ 0%Z); (VZ 2%Z)]); (VL [(VZ 11%Z)]); (VL [(VZ 12%Z)])]); (VL [(VL [(VZ 3%Z); (VZ 0%Z); (VZ 2%Z)]); (VL (@nil (val))); (VL [(VZ 10%Z); (VZ 12%Z)])])]));
  (([(cS 1 [100;101] [10]); (cS 1 [101] []); (cS 1 [] [12])], (KSimple 1)),
   (VL [(VL [(VL [(VZ 2%Z); (VZ 1%Z)]); (VL [(VZ 101%Z); (VZ 100%Z)]); (VL [(VZ 12%Z); (VZ 10%Z)])])]));
  (((@nil (chunk)), (KSimple 0)),
   (VL (@nil (val))));
  (([(cA [] [10]); (cV 2 1 [12] []); (cA [13;200;11] [11]); (cV 2 1 [200;10] []); (cG 4 [] [200;10]); (cA [11] [])], (KSimple 2)),
   (VL [(VL [(VL [(VZ 2%Z); (VZ 2%Z)]); (VL [(VZ 11%Z); (VZ 13%Z); (VZ 200%Z)]); (VL [(VZ 10%Z)])]); (VL [(VL [(VZ 3%Z); (VZ 2%Z); (VZ 1%Z)]); (VL [(VZ 12%Z)]); (VL (@nil (val)))]); (VL [(VL [(VZ 3%Z); (VZ 2%Z); (VZ 1%Z)]); (VL [(VZ 10%Z)]); (VL (@nil (val)))]); (VL [(VL [(VZ 1%Z); (VZ 4%Z)]); (VL (@nil (val))); (VL [(VZ 200%Z)])])]));
  (([(cV 1 1 [] [200;13]); (cV 1 2 [] [12;10]); (cG 3 [100] [11;13])], KAll),
   (VL [(VL [(VL [(VZ 3%Z); (VZ 1%Z); (VZ 1%Z)]); (VL (@nil (val))); (VL [(VZ 200%Z); (VZ 13%Z)])]); (VL [(VL [(VZ 3%Z); (VZ 1%Z); (VZ 2%Z)]); (VL (@nil (val))); (VL [(VZ 12%Z); (VZ 10%Z)])]); (VL [(VL [(VZ 1%Z); (VZ 3%Z)]); (VL [(VZ 100%Z)]); (VL [(VZ 11%Z); (VZ 13%Z)])])]));
  (([(cS 1 [10;13] []); (cV 1 2 [12;11] []); (cA [13] [100;12]); (cA [11;101] [200]); (cV 1 2 [200;13] [101]); (cG 5 [10;100] [])], (KSimple 1)),
   (VL [(VL [(VL [(VZ 2%Z); (VZ 1%Z)]); (VL [(VZ 11%Z); (VZ 101%Z); (VZ 13%Z); (VZ 10%Z)]); (VL [(VZ 200%Z); (VZ 100%Z); (VZ 12%Z)])]); (VL [(VL [(VZ 3%Z); (VZ 1%Z); (VZ 2%Z)]); (VL [(VZ 200%Z)]); (VL [(VZ 101%Z)])]); (VL [(VL [(VZ 1%Z); (VZ 5%Z)]); (VL [(VZ 100%Z)]); (VL (@nil (val)))])]));
  (([(cG 5 [11] [101]); (cS 2 [1;101;11] [12]); (cV 2 1 [] [200;13])], (KSimple 2)),
   (VL [(VL [(VL [(VZ 2%Z); (VZ 2%Z)]); (VL [(VZ 1%Z); (VZ 101%Z); (VZ 11%Z)]); (VL [(VZ 12%Z)])]); (VL [(VL [(VZ 3%Z); (VZ 2%Z); (VZ 1%Z)]); (VL (@nil (val))); (VL [(VZ 200%Z); (VZ 13%Z)])])]));
  (([(cV 2 1 [100] [11]); (cA [13] [101;11]); (cA [] [100;200;13]); (cA [13] [200;100])], (KSimple 2)),
   (VL [(VL [(VL [(VZ 2%Z); (VZ 2%Z)]); (VL [(VZ 13%Z)]); (VL [(VZ 200%Z); (VZ 100%Z); (VZ 101%Z); (VZ 11%Z)])])]));
  (((@nil (chunk)), (KSimple 1)),
   (VL (@nil (val))));
  (([(cV 0 1 [100;11] []); (cA [11] [101;200]); (cS 0 [] [13;200]); (cA [10] [12;101]); (cA [1] [10;12]); (cA [] [12;13])], (KSimple 0)),
   (VL [(VL [(VL [(VZ 2%Z); (VZ 0%Z)]); (VL [(VZ 1%Z); (VZ 11%Z)]); (VL [(VZ 12%Z); (VZ 13%Z); (VZ 10%Z); (VZ 101%Z); (VZ 200%Z)])]); (VL [(VL [(VZ 3%Z); (VZ 0%Z); (VZ 1%Z)]); (VL [(VZ 100%Z)]); (VL (@nil (val)))])]));
  (((@nil (chunk)), (KSimple 1)),
   (VL (@nil (val))));
  (([(cV 2 2 [200;11] []); (cS 2 [] [12;11])], (KSimple 2)),
   (VL [(VL [(VL [(VZ 2%Z); (VZ 2%Z)]); (VL (@nil (val))); (VL [(VZ 12%Z); (VZ 11%Z)])]); (VL [(VL [(VZ 3%Z); (VZ 2%Z); (VZ 2%Z)]); (VL [(VZ 200%Z)]); (VL (@nil (val)))])]));
  (([(cS 0 [13] []); (cS 0 [11] [13;10])], (KSimple 0)),
   (VL [(VL [(VL [(VZ 2%Z); (VZ 0%Z)]); (VL [(VZ 11%Z)]); (VL [(VZ 13%Z); (VZ 10%Z)])])]));
  (([(cV 1 1 [100;13] []); (cV 1 2 [12] [13]); (cV 1 1 [0;100] [101]); (cA [12;100] [100])], KAll),
   (VL [(VL [(VL [(VZ 0%Z)]); (VL [(VZ 12%Z); (VZ 100%Z)]); (VL (@nil (val)))]); (VL [(VL [(VZ 3%Z); (VZ 1%Z); (VZ 1%Z)]); (VL [(VZ 13%Z)]); (VL (@nil (val)))]); (VL [(VL [(VZ 3%Z); (VZ 1%Z); (VZ 2%Z)]); (VL (@nil (val))); (VL [(VZ 13%Z)])]); (VL [(VL [(VZ 3%Z); (VZ 1%Z); (VZ 1%Z)]); (VL [(VZ 0%Z)]); (VL [(VZ 101%Z)])])]));
  (([(cA [] [200])], (KSimple 0)),
   (VL [(VL [(VL [(VZ 0%Z)]); (VL (@nil (val))); (VL [(VZ 200%Z)])])]));
  (([(cA [200] [11]); (cA [12] [10]); (cS 0 [200;13;11] [])], (KSimple 0)),
   (VL [(VL [(VL [(VZ 2%Z); (VZ 0%Z)]); (VL [(VZ 200%Z); (VZ 13%Z); (VZ 11%Z); (VZ 12%Z)]); (VL [(VZ 10%Z)])])]));
  (([(cG 4 [200] [12;13])], (KSimple 0)),
   (VL [(VL [(VL [(VZ 1%Z); (VZ 4%Z)]); (VL [(VZ 200%Z)]); (VL [(VZ 12%Z); (VZ 13%Z)])])]));
  (([(cG 5 [200] []); (cS 1 [0;101] [200]); (cV 1 2 [100] [13])], (KSimple 1)),
   (VL [(VL [(VL [(VZ 2%Z); (VZ 1%Z)]); (VL [(VZ 0%Z); (VZ 101%Z)]); (VL [(VZ 200%Z)])]); (VL [(VL [(VZ 3%Z); (VZ 1%Z); (VZ 2%Z)]); (VL [(VZ 100%Z)]); (VL [(VZ 13%Z)])])]));
  (([(cV 0 2 [13] [100;12]); (cV 0 1 [11;13;200] [])], (KSimple 0)),
   (VL [(VL [(VL [(VZ 3%Z); (VZ 0%Z); (VZ 2%Z)]); (VL [(VZ 13%Z)]); (VL [(VZ 100%Z); (VZ 12%Z)])]); (VL [(VL [(VZ 3%Z); (VZ 0%Z); (VZ 1%Z)]); (VL [(VZ 11%Z); (VZ 13%Z); (VZ 200%Z)]); (VL (@nil (val)))])]));
  (((@nil (chunk)), (KSimple 2)),
   (VL (@nil (val))));
  (([(cA [] [10]); (cV 0 2 [11] [200;101]); (cS 0 [101] [200;11])], KAll),
   (VL [(VL [(VL [(VZ 0%Z)]); (VL [(VZ 101%Z)]); (VL [(VZ 200%Z); (VZ 11%Z); (VZ 10%Z)])])]));
  (([(cV 0 1 [] [200])], (KSimple 0)),
   (VL [(VL [(VL [(VZ 3%Z); (VZ 0%Z); (VZ 1%Z)]); (VL (@nil (val))); (VL [(VZ 200%Z)])])]));
  (([(cV 1 2 [11;13] [101]); (cS 1 [12;11] [100]); (cS 1 [100;12] [13]); (cV 1 2 [100] [10]); (cG 3 [] [11;101])], (KSimple 1)),
   (VL [(VL [(VL [(VZ 2%Z); (VZ 1%Z)]); (VL [(VZ 100%Z); (VZ 12%Z); (VZ 11%Z)]); (VL [(VZ 13%Z)])]); (VL [(VL [(VZ 3%Z); (VZ 1%Z); (VZ 2%Z)]); (VL (@nil (val))); (VL [(VZ 101%Z)])]); (VL [(VL [(VZ 3%Z); (VZ 1%Z); (VZ 2%Z)]); (VL (@nil (val))); (VL [(VZ 10%Z)])]); (VL [(VL [(VZ 1%Z); (VZ 3%Z)]); (VL (@nil (val))); (VL [(VZ 11%Z); (VZ 101%Z)])])]));
  (([(cS 1 [] [12]); (cA [12] [101])], (KSimple 1)),
   (VL [(VL [(VL [(VZ 2%Z); (VZ 1%Z)]); (VL [(VZ 12%Z)]); (VL [(VZ 101%Z)])])]));
  (([(cS 2 [1;13] [200;10]); (cS 2 [100] [11]); (cA [13] [10;12]); (cS 2 [] [200;100])], (KSimple 2)),
   (VL [(VL [(VL [(VZ 2%Z); (VZ 2%Z)]); (VL [(VZ 13%Z); (VZ 1%Z)]); (VL [(VZ 200%Z); (VZ 100%Z); (VZ 10%Z); (VZ 12%Z); (VZ 11%Z)])])]));
  (([(cS 1 [] [13;101]); (cA [101] [])], (KSimple 1)),
   (VL [(VL [(VL [(VZ 2%Z); (VZ 1%Z)]); (VL [(VZ 101%Z)]); (VL [(VZ 13%Z)])])]));
  (([(cA [0;11] [12]); (cS 2 [12] [100]); (cG 4 [12] [100])], (KSimple 2)),
   (VL [(VL [(VL [(VZ 2%Z); (VZ 2%Z)]); (VL [(VZ 12%Z); (VZ 0%Z); (VZ 11%Z)]); (VL [(VZ 100%Z)])])]));
  (((@nil (chunk)), (KSimple 1)),
   (VL (@nil (val))));
  (([(cV 0 2 [] [11]); (cV 0 1 [] [10;200])], (KSimple 0)),
   (VL [(VL [(VL [(VZ 3%Z); (VZ 0%Z); (VZ 2%Z)]); (VL (@nil (val))); (VL [(VZ 11%Z)])]); (VL [(VL [(VZ 3%Z); (VZ 0%Z); (VZ 1%Z)]); (VL (@nil (val))); (VL [(VZ 10%Z); (VZ 200%Z)])])]));
  (([(cA [0;11;12] [])], KAll),
   (VL [(VL [(VL [(VZ 0%Z)]); (VL [(VZ 0%Z); (VZ 11%Z); (VZ 12%Z)]); (VL (@nil (val)))])]));
  (([(cV 0 2 [] [13;200]); (cS 0 [200] [13;10]); (cS 0 [11] [101;12]); (cA [] [101]); (cA [] [10;13;12])], (KSimple 0)),
   (VL [(VL [(VL [(VZ 2%Z); (VZ 0%Z)]); (VL [(VZ 11%Z); (VZ 200%Z)]); (VL [(VZ 10%Z); (VZ 13%Z); (VZ 12%Z); (VZ 101%Z)])])]));
  (([(cA [0;100] [12]); (cS 0 [] [11]); (cA [] [12;101]); (cV 0 1 [] [101;13]); (cA [] [13;100]); (cS 0 [200;13] [12])], KAll),
   (VL [(VL [(VL [(VZ 0%Z)]); (VL [(VZ 200%Z); (VZ 13%Z); (VZ 0%Z)]); (VL [(VZ 12%Z); (VZ 100%Z); (VZ 101%Z); (VZ 11%Z)])])]));
  (([(cA [10] []); (cA [200;12] [11]); (cV 1 1 [10] [13])], (KSimple 1)),
   (VL [(VL [(VL [(VZ 2%Z); (VZ 1%Z)]); (VL [(VZ 200%Z); (VZ 12%Z); (VZ 10%Z)]); (VL [(VZ 11%Z)])]); (VL [(VL [(VZ 3%Z); (VZ 1%Z); (VZ 1%Z)]); (VL (@nil (val))); (VL [(VZ 13%Z)])])]));
  (((@nil (chunk)), (KSimple 0)),
   (VL (@nil (val))));
  (([(cA [12;13] [200]); (cV 0 1 [] [100]); (cA [12] [200]); (cA [] [11;10]); (cS 0 [] [100;101;12])], KAll),
   (VL [(VL [(VL [(VZ 0%Z)]); (VL [(VZ 13%Z)]); (VL [(VZ 100%Z); (VZ 101%Z); (VZ 12%Z); (VZ 11%Z); (VZ 10%Z); (VZ 200%Z)])])]));
  (((@nil (chunk)), (KSimple 1)),
   (VL (@nil (val))));
  (([(cS 2 [11] []); (cV 2 2 [11] [12;100]); (cS 2 [] [13])], (KSimple 2)),
   (VL [(VL [(VL [(VZ 2%Z); (VZ 2%Z)]); (VL [(VZ 11%Z)]); (VL [(VZ 13%Z)])]); (VL [(VL [(VZ 3%Z); (VZ 2%Z); (VZ 2%Z)]); (VL (@nil (val))); (VL [(VZ 12%Z); (VZ 100%Z)])])]));
  (([(cA [200] [11]); (cA [101] [])], (KSimple 1)),
   (VL [(VL [(VL [(VZ 2%Z); (VZ 1%Z)]); (VL [(VZ 101%Z); (VZ 200%Z)]); (VL [(VZ 11%Z)])])]));
  (([(cV 1 1 [] [13;10]); (cA [] [12]); (cA [] [13;10]); (cV 1 1 [2] [11;100;12])], KAll),
   (VL [(VL [(VL [(VZ 0%Z)]); (VL (@nil (val))); (VL [(VZ 13%Z); (VZ 10%Z); (VZ 12%Z)])]); (VL [(VL [(VZ 3%Z); (VZ 1%Z); (VZ 1%Z)]); (VL [(VZ 2%Z)]); (VL [(VZ 11%Z); (VZ 100%Z)])])]));
  (([(cV 2 1 [] [13]); (cV 2 2 [11;13] []); (cS 2 [] [10;12]); (cS 2 [] [101;11]); (cA [1;12] [200]); (cA [100] [12;200])], (KSimple 2)),
   (VL [(VL [(VL [(VZ 2%Z); (VZ 2%Z)]); (VL [(VZ 100%Z); (VZ 1%Z)]); (VL [(VZ 12%Z); (VZ 200%Z); (VZ 101%Z); (VZ 11%Z); (VZ 10%Z)])]); (VL [(VL [(VZ 3%Z); (VZ 2%Z); (VZ 1%Z)]); (VL (@nil (val))); (VL [(VZ 13%Z)])]); (VL [(VL [(VZ 3%Z); (VZ 2%Z); (VZ 2%Z)]); (VL [(VZ 13%Z)]); (VL (@nil (val)))])]));
  (([(cS 1 [12] []); (cA [200] [12]); (cS 1 [11] [101]); (cS 1 [101;10] [10]); (cV 1 2 [101] []); (cV 1 2 [] [13])], KAll),
   (VL [(VL [(VL [(VZ 0%Z)]); (VL [(VZ 101%Z); (VZ 10%Z); (VZ 11%Z); (VZ 200%Z)]); (VL [(VZ 12%Z)])]); (VL [(VL [(VZ 3%Z); (VZ 1%Z); (VZ 2%Z)]); (VL (@nil (val))); (VL [(VZ 13%Z)])])]));
  (([(cS 2 [13] []); (cG 4 [12] [101]); (cS 2 [13] [10]); (cA [] [12]); (cA [11] [])], (KSimple 2)),
   (VL [(VL [(VL [(VZ 2%Z); (VZ 2%Z)]); (VL [(VZ 11%Z); (VZ 13%Z)]); (VL [(VZ 12%Z); (VZ 10%Z)])]); (VL [(VL [(VZ 1%Z); (VZ 4%Z)]); (VL (@nil (val))); (VL [(VZ 101%Z)])])]));
  (([(cA [] [101]); (cG 4 [12;100;10] []); (cV 0 1 [10] [200]); (cG 4 [13] [10]); (cA [11] [200;12]); (cV 0 1 [13;11] [11])], (KSimple 0)),
   (VL [(VL [(VL [(VZ 2%Z); (VZ 0%Z)]); (VL [(VZ 11%Z)]); (VL [(VZ 200%Z); (VZ 12%Z); (VZ 101%Z)])]); (VL [(VL [(VZ 1%Z); (VZ 4%Z)]); (VL [(VZ 100%Z); (VZ 10%Z)]); (VL (@nil (val)))]); (VL [(VL [(VZ 3%Z); (VZ 0%Z); (VZ 1%Z)]); (VL [(VZ 10%Z)]); (VL (@nil (val)))]); (VL [(VL [(VZ 1%Z); (VZ 4%Z)]); (VL [(VZ 13%Z)]); (VL [(VZ 10%Z)])]); (VL [(VL [(VZ 3%Z); (VZ 0%Z); (VZ 1%Z)]); (VL [(VZ 13%Z)]); (VL [(VZ 11%Z)])])]));
  (((@nil (chunk)), (KSimple 2)),
   (VL (@nil (val))));
  (([(cA [] [10;101]); (cV 1 2 [200] [13]); (cV 1 2 [12;13] [])], (KSimple 1)),
   (VL [(VL [(VL [(VZ 2%Z); (VZ 1%Z)]); (VL (@nil (val))); (VL [(VZ 10%Z); (VZ 101%Z)])]); (VL [(VL [(VZ 3%Z); (VZ 1%Z); (VZ 2%Z)]); (VL [(VZ 200%Z)]); (VL [(VZ 13%Z)])]); (VL [(VL [(VZ 3%Z); (VZ 1%Z); (VZ 2%Z)]); (VL [(VZ 12%Z); (VZ 13%Z)]); (VL (@nil (val)))])]));
  (([(cS 1 [101] [12]); (cA [11;12] [100]); (cV 1 1 [10] [12]); (cA [100] [11])], KAll),
   (VL [(VL [(VL [(VZ 0%Z)]); (VL [(VZ 100%Z); (VZ 12%Z); (VZ 101%Z)]); (VL [(VZ 11%Z)])]); (VL [(VL [(VZ 3%Z); (VZ 1%Z); (VZ 1%Z)]); (VL [(VZ 10%Z)]); (VL [(VZ 12%Z)])])]));
  (((@nil (chunk)), (KSimple 1)),
   (VL (@nil (val))));
  (((@nil (chunk)), (KSimple 0)),
   (VL (@nil (val))));
  (([(cV 2 2 [] [12;101]); (cV 2 1 [0;13] [12]); (cA [101] [12])], KAll),
   (VL [(VL [(VL [(VZ 0%Z)]); (VL [(VZ 101%Z)]); (VL [(VZ 12%Z)])]); (VL [(VL [(VZ 3%Z); (VZ 2%Z); (VZ 1%Z)]); (VL [(VZ 0%Z); (VZ 13%Z)]); (VL (@nil (val)))])]));
  (([(cG 3 [12;11] [200]); (cG 3 [] [100]); (cV 0 1 [200] [13])], (KSimple 0)),
   (VL [(VL [(VL [(VZ 1%Z); (VZ 3%Z)]); (VL [(VZ 12%Z); (VZ 11%Z)]); (VL [(VZ 200%Z)])]); (VL [(VL [(VZ 1%Z); (VZ 3%Z)]); (VL (@nil (val))); (VL [(VZ 100%Z)])]); (VL [(VL [(VZ 3%Z); (VZ 0%Z); (VZ 1%Z)]); (VL [(VZ 200%Z)]); (VL [(VZ 13%Z)])])]));
  (([(cA [101] [11;200]); (cS 2 [] [12;101])], (KSimple 2)),
   (VL [(VL [(VL [(VZ 2%Z); (VZ 2%Z)]); (VL (@nil (val))); (VL [(VZ 12%Z); (VZ 101%Z); (VZ 11%Z); (VZ 200%Z)])])]));
  (([(cA [] [200;11;13]); (cS 0 [] [10]); (cS 0 [11;101] []); (cS 0 [10] [100]); (cV 0 1 [] [10])], KAll),
   (VL [(VL [(VL [(VZ 0%Z)]); (VL [(VZ 10%Z); (VZ 11%Z); (VZ 101%Z)]); (VL [(VZ 100%Z); (VZ 200%Z); (VZ 13%Z)])]); (VL [(VL [(VZ 3%Z); (VZ 0%Z); (VZ 1%Z)]); (VL (@nil (val))); (VL [(VZ 10%Z)])])]));
  (([(cV 1 1 [] [11]); (cS 1 [101] [11]); (cA [12] [12;11])], (KSimple 1)),
   (VL [(VL [(VL [(VZ 2%Z); (VZ 1%Z)]); (VL [(VZ 12%Z); (VZ 101%Z)]); (VL [(VZ 11%Z)])])]));
  (([(cG 4 [10;200] [100]); (cS 1 [200] [])], (KSimple 1)),
   (VL [(VL [(VL [(VZ 2%Z); (VZ 1%Z)]); (VL [(VZ 200%Z)]); (VL (@nil (val)))]); (VL [(VL [(VZ 1%Z); (VZ 4%Z)]); (VL [(VZ 10%Z)]); (VL [(VZ 100%Z)])])]));
  (([(cA [] [10;200]); (cG 3 [] [100]); (cV 1 1 [13;12] []); (cA [101;200] []); (cV 1 1 [] [11;200])], (KSimple 1)),
   (VL [(VL [(VL [(VZ 2%Z); (VZ 1%Z)]); (VL [(VZ 101%Z); (VZ 200%Z)]); (VL [(VZ 10%Z)])]); (VL [(VL [(VZ 1%Z); (VZ 3%Z)]); (VL (@nil (val))); (VL [(VZ 100%Z)])]); (VL [(VL [(VZ 3%Z); (VZ 1%Z); (VZ 1%Z)]); (VL [(VZ 13%Z); (VZ 12%Z)]); (VL (@nil (val)))]); (VL [(VL [(VZ 3%Z); (VZ 1%Z); (VZ 1%Z)]); (VL (@nil (val))); (VL [(VZ 11%Z); (VZ 200%Z)])])]));
  (((@nil (chunk)), (KSimple 1)),
   (VL (@nil (val))));
  (([(cV 1 2 [100] [101;13]); (cS 1 [] [10;13])], (KSimple 1)),
   (VL [(VL [(VL [(VZ 2%Z); (VZ 1%Z)]); (VL (@nil (val))); (VL [(VZ 10%Z); (VZ 13%Z)])]); (VL [(VL [(VZ 3%Z); (VZ 1%Z); (VZ 2%Z)]); (VL [(VZ 100%Z)]); (VL [(VZ 101%Z)])])]));
  (([(cS 1 [] [200;12])], (KSimple 1)),
   (VL [(VL [(VL [(VZ 2%Z); (VZ 1%Z)]); (VL (@nil (val))); (VL [(VZ 200%Z); (VZ 12%Z)])])]));
  (([(cA [11] [101]); (cG 5 [] [12]); (cG 3 [] [100;13]); (cS 2 [] [100;12])], (KSimple 2)),
   (VL [(VL [(VL [(VZ 2%Z); (VZ 2%Z)]); (VL [(VZ 11%Z)]); (VL [(VZ 100%Z); (VZ 12%Z); (VZ 101%Z)])]); (VL [(VL [(VZ 1%Z); (VZ 3%Z)]); (VL (@nil (val))); (VL [(VZ 13%Z)])])]));
  (([(cV 0 1 [100] [12;200]); (cV 0 1 [12;101] [101]); (cV 0 1 [12] [13])], (KSimple 0)),
   (VL [(VL [(VL [(VZ 3%Z); (VZ 0%Z); (VZ 1%Z)]); (VL [(VZ 100%Z)]); (VL [(VZ 12%Z); (VZ 200%Z)])]); (VL [(VL [(VZ 3%Z); (VZ 0%Z); (VZ 1%Z)]); (VL [(VZ 12%Z); (VZ 101%Z)]); (VL [(VZ 101%Z)])]); (VL [(VL [(VZ 3%Z); (VZ 0%Z); (VZ 1%Z)]); (VL [(VZ 12%Z)]); (VL [(VZ 13%Z)])])]));
  (((@nil (chunk)), (KSimple 0)),
   (VL (@nil (val))))
].
Eval vm_compute in (mismatches run_build cases).
