(* Prop_C01.v — the property theorems of C01 and nothing else. *)
From Coq Require Import List NArith ZArith Bool.
Import ListNotations.
From Verif Require Import Base.Val gen.Tables_C01 C01.Model_C01 C01.Spec_C01 C01.Proofs_C01 C01.Grammar_C01.

(* comparing any two valid versions, with or without revisions, gives the result of the PMS
   algorithm (the spec, written over the parsed version) *)
Theorem ver_cmp_is_pms : forall a b r1 r2,
  wf_vast a = true -> wf_vast b = true ->
  ver_cmp (print_vast a) r1 (print_vast b) r2 = pms_cmp a (rev_val r1) b (rev_val r2).
Proof. exact ver_cmp_is_pms_proof. Qed.
Print Assumptions ver_cmp_is_pms.

(* the resulting order is reflexive, antisymmetric and transitive (and three-valued, and versions
   that compare equal are interchangeable), for all valid version texts and all revisions *)
Theorem ver_cmp_total_preorder :
  forall v1 v2 v3 r1 r2 r3, is_version v1 -> is_version v2 -> is_version v3 ->
    (ver_cmp v1 r1 v2 r2 = (-1)%Z \/ ver_cmp v1 r1 v2 r2 = 0%Z \/ ver_cmp v1 r1 v2 r2 = 1%Z)
    /\ ver_cmp v1 r1 v1 r1 = 0%Z
    /\ ver_cmp v2 r2 v1 r1 = (- ver_cmp v1 r1 v2 r2)%Z
    /\ ((ver_cmp v1 r1 v2 r2 <= 0)%Z -> (ver_cmp v2 r2 v3 r3 <= 0)%Z -> (ver_cmp v1 r1 v3 r3 <= 0)%Z)
    /\ (ver_cmp v1 r1 v2 r2 = 0%Z -> ver_cmp v1 r1 v3 r3 = ver_cmp v2 r2 v3 r3).
Proof. exact ver_cmp_total_preorder_proof. Qed.
Print Assumptions ver_cmp_total_preorder.

(* every version-operator restriction (six operators, with and without negate) agrees with it *)
Theorem version_match_agrees :
  forall op negate a r p rp, (op <= 5)%N -> wf_vast a = true -> wf_vast p = true ->
    version_match op negate (print_vast a) r (print_vast p) rp
    = spec_match op negate a (rev_val r) p (rev_val rp).
Proof. exact version_match_agrees_proof. Qed.
Print Assumptions version_match_agrees.

(* the six rich comparisons of CPV are the operators of one comparison (category, package,
   version order) ... *)
Theorem cpv_ops_are_order :
  forall a b,
    cpv_eq a b = Z.eqb (cpv_cmp a b) 0 /\ cpv_ne a b = negb (Z.eqb (cpv_cmp a b) 0)
    /\ cpv_lt a b = Z.ltb (cpv_cmp a b) 0 /\ cpv_le a b = Z.leb (cpv_cmp a b) 0
    /\ cpv_gt a b = Z.gtb (cpv_cmp a b) 0 /\ cpv_ge a b = Z.geb (cpv_cmp a b) 0.
Proof. exact cpv_ops_proof. Qed.
Print Assumptions cpv_ops_are_order.

(* ... which is a total preorder on CPVs with valid versions *)
Theorem cpv_cmp_total_preorder :
  forall a b c, cpv_valid a -> cpv_valid b -> cpv_valid c ->
    (cpv_cmp a b = (-1)%Z \/ cpv_cmp a b = 0%Z \/ cpv_cmp a b = 1%Z)
    /\ cpv_cmp a a = 0%Z
    /\ cpv_cmp b a = (- cpv_cmp a b)%Z
    /\ ((cpv_cmp a b <= 0)%Z -> (cpv_cmp b c <= 0)%Z -> (cpv_cmp a c <= 0)%Z)
    /\ (cpv_cmp a b = 0%Z -> cpv_cmp a c = cpv_cmp b c).
Proof. exact cpv_order_proof. Qed.
Print Assumptions cpv_cmp_total_preorder.

(* the suffix table regenerated from cpv.py realises _alpha < _beta < _pre < _rc < (none) < _p *)
Theorem suffix_table_order :
  (forall k1 k2, cmpZ (suffix_val (kind_name k1)) (suffix_val (kind_name k2)) = cmpZ (rank k1) (rank k2))
  /\ (forall k, cmpZ (suffix_val (kind_name k)) 0 = cmpZ (rank k) rank_none)
  /\ (forall k, assoc_str (kind_name k) suffix_value <> None)
  /\ (forall k d, all_digits d = true -> parse_suffix (kind_name k ++ d) = (kind_name k, d)).
Proof. exact suffix_table_order_proof. Qed.
Print Assumptions suffix_table_order.

(* "valid version" in the theorems above (a printed well-formed AST) is exactly what the model of
   isvalid_version_re accepts (the regex additionally tolerates one trailing newline) *)
Theorem valid_version_iff : forall v, valid_version_core v = true <-> is_version v.
Proof. exact valid_version_iff_proof. Qed.
Print Assumptions valid_version_iff.
