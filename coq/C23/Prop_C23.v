(* Prop_C23.v — the property theorems of C23 and nothing else. *)
From Coq Require Import List NArith ZArith Bool.
Import ListNotations.
From Verif Require Import Base.Val gen.Tables_triggers_perms C23.Model_C23 C23.Spec_C23 C23.Proofs_C23.
Local Open Scope N_scope.

(* for EVERY mode value (all of N: permission, sticky and file-type bits, no bound) the mode
   fix_set_bits leaves is not both set-id (0o6000) and world-writable (0o002) *)
Theorem harden_mode_safe : forall m, ~ mode_unsafe (harden_mode m).
Proof. exact harden_mode_safe_proof. Qed.
Print Assumptions harden_mode_safe.

(* and it touches nothing but those bits, and nothing at all on a safe mode *)
Theorem harden_mode_minimal : forall m,
  mode_differs_only_in (N.lor S_ISUGID S_IWOTH) m (harden_mode m) /\
  (~ mode_unsafe m -> harden_mode m = m).
Proof. exact harden_mode_minimal_proof. Qed.
Print Assumptions harden_mode_minimal.

(* the composition in the order the engine runs the default triggers at pre_merge, computed from
   the regenerated table of default_plugins_triggers()/priorities/_hooks/_engine_types *)
Theorem pre_merge_order : forall emode cfg, installing emode ->
  filter touches_cset (pre_merge_trigs emode cfg) =
  [FixUid (fst cfg) root_uid; FixSetBits; FixGid (snd cfg) root_gid; DetectWW false].
Proof. exact pre_merge_order_proof. Qed.
Print Assumptions pre_merge_order.

(* after the pre-merge stage of an install/replace engine no non-symlink entry is both set-id and
   world-writable — for all content sets whose non-symlink entries have a mode *)
Theorem no_suid_world_writable : forall emode cfg cs, installing emode -> well_formed cs ->
  forall e' m, In e' (fst (engine_pre_merge emode cfg cs)) ->
    is_sym e' = false -> mode e' = Some m -> ~ mode_unsafe m.
Proof. exact no_suid_world_writable_proof. Qed.
Print Assumptions no_suid_world_writable.

(* ... and that premise is necessary (a mode-less entry makes the trigger raise; the engine
   suppresses the exception and nothing is hardened) *)
Theorem no_suid_world_writable_malformed_refuted : ~ no_suid_world_writable_unconditional.
Proof. exact no_suid_world_writable_malformed_refuted_proof. Qed.
Print Assumptions no_suid_world_writable_malformed_refuted.

(* exactly what happens to every mode *)
Theorem mode_hardened : forall emode cfg cs, installing emode -> well_formed cs ->
  let out := fst (engine_pre_merge emode cfg cs) in
  forall i e, nth_error cs i = Some e ->
    exists e', nth_error out i = Some e' /\
               mode e' = if is_sym e then mode e else option_map harden_mode (mode e).
Proof. exact mode_hardened_proof. Qed.
Print Assumptions mode_hardened.

(* entries owned by the build user / group are re-owned to root; every other owner is kept
   (all content sets, well-formed or not) *)
Theorem reowned : forall emode cfg cs, installing emode ->
  let out := fst (engine_pre_merge emode cfg cs) in
  forall i e, nth_error cs i = Some e ->
    exists e', nth_error out i = Some e' /\
               uid e' = reown (fst cfg) (uid e) /\ gid e' = reown (snd cfg) (gid e).
Proof. exact reowned_proof. Qed.
Print Assumptions reowned.

Theorem no_build_owner_left : forall emode cfg cs e', installing emode ->
  In e' (fst (engine_pre_merge emode cfg cs)) ->
  (fst cfg <> ROOT -> uid e' <> Some (fst cfg)) /\ (snd cfg <> ROOT -> gid e' <> Some (snd cfg)).
Proof. exact no_build_owner_left_proof. Qed.
Print Assumptions no_build_owner_left.

(* the fixes never add, drop or reorder entries and never change an entry's type, location,
   target, data (or any attribute other than mode/uid/gid); symlinks keep their mode *)
Theorem only_mode_owner_change : forall emode cfg cs, installing emode ->
  let out := fst (engine_pre_merge emode cfg cs) in
  length out = length cs /\
  forall i e, nth_error cs i = Some e ->
    exists e', nth_error out i = Some e' /\ same_identity e e' /\
               (is_sym e = true -> mode e' = mode e).
Proof. exact only_mode_owner_change_proof. Qed.
Print Assumptions only_mode_owner_change.

(* detect_world_writable(fix_perms=True), when configured, leaves no world-writable non-symlink *)
Theorem detect_fix_perms_clears : forall cs, well_formed cs ->
  match run_trig true (DetectWW true) cs with
  | Done out _ => forall e' m, In e' out -> is_sym e' = false -> mode e' = Some m -> N.land m S_IWOTH = 0
  | Raised => False
  end.
Proof. exact detect_fix_perms_clears_proof. Qed.
Print Assumptions detect_fix_perms_clears.
