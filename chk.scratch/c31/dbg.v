(* Roundtrip_C31.v — bash_eval (generate_env_str env) gives back env: lemmas from the single
   quoting forms up to the whole program. *)
From Coq Require Import List NArith ZArith Bool Lia.
Import ListNotations.
From Verif Require Import Base.Val C31.Model_C31 C31.Spec_C31 C31.Proofs_C31.
Local Open Scope N_scope.

Local Arguments ansi_simple : simpl never.
Local Arguments is_octal : simpl never.
Local Arguments hexval : simpl never.
Local Arguments plain_char : simpl never.
Local Arguments is_term : simpl never.
Local Arguments dq_escapable : simpl never.
Local Arguments byte_ok : simpl never.

(* ------------------------------------------------------------------ small tools *)
Definition prepend (v : str) (o : option (str * str)) : option (str * str) :=
  match o with Some (w, r) => Some (v ++ w, r) | None => None end.
Lemma cons1_prepend c v (o : option (str * str)) : cons1 c (prepend v o) = prepend (c :: v) o.
Proof. destruct o as [[w r]|]; reflexivity. Qed.
Lemma prepend_nil o : prepend [] o = o.
Proof. destruct o as [[w r]|]; reflexivity. Qed.

Lemma neqb (a b : N) : a <> b -> (a =? b) = false.
Proof. apply N.eqb_neq. Qed.

Lemma not_in_cons_inv (x a : N) l : ~ In x (a :: l) -> a <> x /\ ~ In x l.
Proof. intro H; split; [intro E; apply H; left; exact E | intro I; apply H; right; exact I]. Qed.

Lemma memN_false c l : memN c l = false -> ~ In c l.
Proof.
  unfold memN. induction l as [|a l IH]; cbn [existsb]; intros H I; [destruct I|].
  apply orb_false_iff in H as [H1 H2]. destruct I as [E|I].
  - subst a. rewrite N.eqb_refl in H1. discriminate.
  - exact (IH H2 I).
Qed.

(* where a word may stop *)
Definition stops (rest : str) : Prop :=
  match rest with [] => True | c :: _ => is_term c = true end.

(* ------------------------------------------------------------------ one-step unfoldings *)
Lemma word_plain_step arr c s :
  word arr MPlain (c :: s) =
  if is_term c then Some ([], c :: s)
  else if c =? c_sq then word arr MSq s
  else if c =? c_dq then word arr MDq s
  else if c =? c_dollar then
    match s with d :: s'' => if d =? c_sq then word arr MAnsi s'' else None | [] => None end
  else if plain_char c then cons1 c (word arr MPlain s)
  else None.
Proof. destruct s; reflexivity. Qed.

Lemma word_sq_step arr c s :
  word arr MSq (c :: s) =
  if c =? 0 then None else if c =? c_sq then word arr MPlain s else cons1 c (word arr MSq s).
Proof. destruct s; reflexivity. Qed.

Lemma word_dq_lit arr c s :
  (c =? 0) = false -> (c =? c_dq) = false -> (c =? c_dollar) = false -> (c =? c_bt) = false ->
  (c =? c_bs) = false -> (arr && ((c =? 1) || (c =? 127))) = false ->
  word arr MDq (c :: s) = cons1 c (word arr MDq s).
Proof.
  intros H0 H1 H2 H3 H4 H5. destruct s; cbn [word]; rewrite H0, H1, H2, H3, H4, H5; reflexivity.
Qed.
Lemma word_dq_close arr s : word arr MDq (c_dq :: s) = word arr MPlain s.
Proof. destruct s; reflexivity. Qed.

Lemma word_ansi_lit arr c s :
  (c =? 0) = false -> (c =? c_sq) = false -> (c =? c_bs) = false ->
  word arr MAnsi (c :: s) = cons1 c (word arr MAnsi s).
Proof. intros H0 H1 H2. destruct s; cbn [word]; rewrite H0, H1, H2; reflexivity. Qed.
Lemma word_ansi_close arr s : word arr MAnsi (c_sq :: s) = word arr MPlain s.
Proof. destruct s; reflexivity. Qed.
Lemma word_ansi_bs arr s : word arr MAnsi (c_bs :: c_bs :: s) = cons1 c_bs (word arr MAnsi s).
Proof. destruct s; reflexivity. Qed.
Lemma word_ansi_sq arr s : word arr MAnsi (c_bs :: c_sq :: s) = cons1 c_sq (word arr MAnsi s).
Proof. destruct s; reflexivity. Qed.

(* ------------------------------------------------------------------ the quoting forms *)
Lemma word_stop arr rest : stops rest -> word arr MPlain rest = Some ([], rest).
Proof.
  destruct rest as [|c r]; cbn [stops]; intro H; [reflexivity|].
  rewrite word_plain_step, H. reflexivity.
Qed.

Lemma word_sq_body arr v rest :
  ~ In c_sq v -> ~ In 0 v ->
  word arr MSq (v ++ c_sq :: rest) = prepend v (word arr MPlain rest).
Proof.
  induction v as [|a v IH]; cbn [app]; intros Hq H0.
  - rewrite word_sq_step. cbn. rewrite prepend_nil. reflexivity.
  - apply not_in_cons_inv in Hq as [Hq1 Hq2]. apply not_in_cons_inv in H0 as [H01 H02].
    rewrite word_sq_step, (neqb _ _ H01), (neqb _ _ Hq1), (IH Hq2 H02), cons1_prepend. reflexivity.
Qed.

Lemma esc_ansi_cons a v : esc_ansi (a :: v) = esc_ansi_c a ++ esc_ansi v.
Proof. reflexivity. Qed.

Lemma word_ansi_body arr v rest :
  ~ In 0 v ->
  word arr MAnsi (esc_ansi v ++ c_sq :: rest) = prepend v (word arr MPlain rest).
Proof.
  induction v as [|a v IH]; intro H0.
  - cbn [esc_ansi flat_map app]. rewrite word_ansi_close, prepend_nil. reflexivity.
  - apply not_in_cons_inv in H0 as [H01 H02].
    rewrite esc_ansi_cons. unfold esc_ansi_c.
    destruct (a =? c_bs) eqn:Eb; [|destruct (a =? c_sq) eqn:Eq].
    + apply N.eqb_eq in Eb. subst a. cbn [app].
      rewrite word_ansi_bs, (IH H02), cons1_prepend. reflexivity.
    + apply N.eqb_eq in Eq. subst a. cbn [app].
      rewrite word_ansi_sq, (IH H02), cons1_prepend. reflexivity.
    + cbn [app]. rewrite (word_ansi_lit _ _ _ (neqb _ _ H01) Eq Eb), (IH H02), cons1_prepend.
      reflexivity.
Qed.

Lemma word_dq_body v rest :
  existsb dq_unsafe v = false -> ~ In 0 v ->
  word true MDq (v ++ c_dq :: rest) = prepend v (word true MPlain rest).
Proof.
  induction v as [|a v IH]; cbn [app existsb]; intros Hs H0.
  - rewrite word_dq_close, prepend_nil. reflexivity.
  - apply orb_false_iff in Hs as [Ha Hs]. apply not_in_cons_inv in H0 as [H01 H02].
    unfold dq_unsafe in Ha.
    repeat (apply orb_false_iff in Ha as [Ha ?]).
    rewrite word_dq_lit; auto using neqb.
    + rewrite (IH Hs H02), cons1_prepend. reflexivity.
    + cbn [andb]. apply orb_false_iff; split; assumption.
Qed.

(* the quoted forms read back as the value *)
Lemma word_quote_hard arr v rest :
  ~ In 0 v -> stops rest -> word arr MPlain (quote_hard v ++ rest) = Some (v, rest).
Proof.
  intros H0 Hr. unfold quote_hard.
  destruct (memN c_sq v) eqn:M; cbn [negb].
  - cbn [app]. rewrite word_plain_step. cbn.
    rewrite <- app_assoc. cbn [app]. rewrite (word_ansi_body _ _ _ H0), (word_stop _ _ Hr).
    cbn [prepend]. rewrite app_nil_r. reflexivity.
  - cbn [app]. rewrite word_plain_step. cbn.
    rewrite <- app_assoc. cbn [app]. rewrite (word_sq_body _ _ _ (memN_false _ _ M) H0), (word_stop _ _ Hr).
    cbn [prepend]. rewrite app_nil_r. reflexivity.
Qed.

Lemma alnum_c_plain U c :
  py_isalnum_c U c = true ->
  is_term c = false /\ (c =? c_sq) = false /\ (c =? c_dq) = false /\ (c =? c_dollar) = false
  /\ plain_char c = true.
Proof.
  unfold py_isalnum_c, is_term, plain_char, is_name_char, is_name_start, is_digit, is_alpha_ascii,
    c_sp, c_tab, c_nl, c_rp, c_sq, c_dq, c_dollar, c_us, memN.
  cbn [existsb].
  destruct (c <? 128) eqn:L; intro H.
  - apply N.ltb_lt in L.
    assert (D : (48 <= c /\ c <= 57) \/ (65 <= c /\ c <= 90) \/ (97 <= c /\ c <= 122)).
    { repeat (apply orb_true_iff in H as [H|H]); apply andb_true_iff in H as [H1 H2];
        apply N.leb_le in H1, H2; lia. }
    repeat split; try (apply N.eqb_neq; lia);
      try (repeat (apply orb_false_iff; split); apply N.eqb_neq; lia).
    destruct D as [[? ?]|[[? ?]|[? ?]]].
    + replace (48 <=? c) with true by (symmetry; apply N.leb_le; lia).
      replace (c <=? 57) with true by (symmetry; apply N.leb_le; lia).
      cbn. rewrite !orb_true_r. reflexivity.
    + replace (65 <=? c) with true by (symmetry; apply N.leb_le; lia).
      replace (c <=? 90) with true by (symmetry; apply N.leb_le; lia).
      reflexivity.
    + replace (97 <=? c) with true by (symmetry; apply N.leb_le; lia).
      replace (c <=? 122) with true by (symmetry; apply N.leb_le; lia).
      cbn. rewrite !orb_true_r. reflexivity.
  - apply N.ltb_ge in L.
    repeat split; try (apply N.eqb_neq; lia);
      try (repeat (apply orb_false_iff; split); apply N.eqb_neq; lia).
    replace (128 <=? c) with true by (symmetry; apply N.leb_le; lia).
    rewrite orb_true_r. reflexivity.
Qed.

Lemma word_bare U arr v rest :
  forallb (py_isalnum_c U) v = true -> stops rest ->
  word arr MPlain (v ++ rest) = Some (v, rest).
Proof.
  induction v as [|a v IH]; cbn [app forallb]; intros H Hr.
  - apply word_stop; exact Hr.
  - apply andb_true_iff in H as [Ha Hv].
    destruct (alnum_c_plain U a Ha) as (T & Q & D & S & P).
    rewrite word_plain_step, T, Q, D, S, P, (IH Hv Hr). reflexivity.
Qed.

Lemma word_quote_scalar U v rest :
  ~ In 0 v -> stops rest -> word false MPlain (quote_scalar U v ++ rest) = Some (v, rest).
Proof.
  intros H0 Hr. unfold quote_scalar.
  destruct (py_isalnum U v) eqn:A.
  - apply word_bare with (U := U); [|exact Hr].
    unfold py_isalnum in A. destruct v; [discriminate | exact A].
  - apply word_quote_hard; assumption.
Qed.

Lemma word_quote_elem v rest :
  ~ In 0 v -> stops rest -> word true MPlain (quote_elem v ++ rest) = Some (v, rest).
Proof.
  intros H0 Hr. unfold quote_elem.
  destruct (existsb dq_unsafe v) eqn:D.
  - apply word_quote_hard; assumption.
  - cbn [app]. rewrite word_plain_step. cbn.
    rewrite <- app_assoc. cbn [app]. rewrite (word_dq_body _ _ D H0), (word_stop _ _ Hr).
    cbn [prepend]. rewrite app_nil_r. reflexivity.
Qed.

(* first characters of the quoted forms (they are not `(` and not blank) *)
Lemma quote_scalar_head U v :
  exists d r, quote_scalar U v = d :: r /\ (d =? c_lp) = false.
Proof.
  unfold quote_scalar, quote_hard.
  destruct (py_isalnum U v) eqn:A.
  - destruct v as [|a v]; [discriminate|]. exists a, v. split; [reflexivity|].
    cbn [py_isalnum forallb] in A. apply andb_true_iff in A as [A _].
    destruct (alnum_c_plain U a A) as (T & _). unfold is_term in T.
    unfold py_isalnum_c, is_digit, is_alpha_ascii in A. unfold c_lp.
    destruct (a <? 128) eqn:L.
    + apply N.eqb_neq. intro E. subst a. discriminate A.
    + apply N.ltb_ge in L. apply N.eqb_neq. lia.
  - destruct (negb (memN c_sq v)); eexists; eexists; (split; [reflexivity|reflexivity]).
Qed.

(* ------------------------------------------------------------------ names and subscripts *)
Lemma name_char_not_eq c : is_name_char c = true -> (c =? c_eq) = false.
Proof.
  unfold is_name_char, is_name_start, is_alpha_ascii, is_digit, c_us, c_eq. intro H.
  apply N.eqb_neq. intro E. subst c. discriminate H.
Qed.

Lemma take_name_chars_ok k rest :
  forallb is_name_char k = true -> take_name_chars (k ++ c_eq :: rest) = Some (k, rest).
Proof.
  induction k as [|a k IH]; cbn [app forallb take_name_chars]; intro H.
  - reflexivity.
  - apply andb_true_iff in H as [Ha Hk].
    rewrite (name_char_not_eq _ Ha), Ha, (IH Hk). reflexivity.
Qed.

Lemma valid_name_chars k : valid_nameb k = true -> forallb is_name_char k = true.
Proof.
  destruct k as [|a k]; [discriminate|]. cbn [valid_nameb forallb]. intro H.
  apply andb_true_iff in H as [Ha Hk]. unfold is_name_char at 1. rewrite Ha, Hk. reflexivity.
Qed.

Lemma take_name_ok k rest :
  valid_nameb k = true -> take_name (k ++ c_eq :: rest) = Some (k, rest).
Proof.
  intro H. unfold take_name. rewrite (take_name_chars_ok _ _ (valid_name_chars _ H)), H. reflexivity.
Qed.

Lemma take_digits_ok d rest :
  forallb is_digit d = true -> take_digits (d ++ c_rb :: rest) = Some (d, rest).
Proof.
  induction d as [|a d IH]; cbn [app forallb take_digits]; intro H.
  - reflexivity.
  - apply andb_true_iff in H as [Ha Hd].
    assert (E : (a =? c_rb) = false).
    { unfold is_digit in Ha. apply andb_true_iff in Ha as [H1 H2]. apply N.leb_le in H1, H2.
      apply N.eqb_neq. unfold c_rb. lia. }
    rewrite E, Ha, (IH Hd). reflexivity.
Qed.

Lemma take_index_ok i rest :
  take_index (dec i ++ c_rb :: c_eq :: rest) = Some (i, rest).
Proof.
  unfold take_index. rewrite (take_digits_ok _ _ (dec_digits i)), parse_dec_dec.
  rewrite N.eqb_refl. reflexivity.
Qed.

(* ------------------------------------------------------------------ array literals *)
Lemma join_cons sep x r :
  join sep (x :: r) = x ++ flat_map (fun y => sep ++ y) r.
Proof.
  revert x. induction r as [|y r IH]; intro x.
  - cbn [join flat_map]. rewrite app_nil_r. reflexivity.
  - change (join sep (x :: y :: r)) with (x ++ sep ++ join sep (y :: r)).
    rewrite (IH y). cbn [flat_map]. rewrite <- app_assoc. reflexivity.
Qed.

Definition elem_str (i : N) (v : str) : str := [c_lb] ++ dec i ++ [c_rb; c_eq] ++ quote_elem v.

Lemma elem_str_len i v : (1 <= length (elem_str i v))%nat.
Proof. unfold elem_str. cbn [app length]. lia. Qed.

Lemma elems_cons i v r : elems i (v :: r) = elem_str i v :: elems (N.succ i) r.
Proof. reflexivity. Qed.

Lemma skip_ws_sp_lb s : skip_ws (c_sp :: c_lb :: s) = c_lb :: s.
Proof. reflexivity. Qed.

Lemma stops_sp s : stops (c_sp :: s).  Proof. reflexivity. Qed.
Lemma stops_rp s : stops (c_rp :: s).  Proof. reflexivity. Qed.
Lemma stops_nl s : stops (c_nl :: s).  Proof. reflexivity. Qed.

(* one element, after optional blank *)
Lemma arr_elems_step f i v rest (lead : bool) :
  ~ In 0 v -> stops rest ->
  arr_elems (S f) ((if lead then [c_sp] else []) ++ elem_str i v ++ rest) =
  match arr_elems f rest with Some (l, r) => Some ((i, v) :: l, r) | None => None end.
Proof.
  intros H0 Hr. unfold elem_str. cbn [arr_elems].
  assert (E : skip_ws ((if lead then [c_sp] else []) ++
                       ([c_lb] ++ dec i ++ [c_rb; c_eq] ++ quote_elem v) ++ rest)
              = c_lb :: dec i ++ c_rb :: c_eq :: quote_elem v ++ rest).
  { destruct lead; cbn [app]; [rewrite skip_ws_sp_lb|cbn [skip_ws]; cbn];
      rewrite <- !app_assoc; reflexivity. }
  rewrite E. cbn. rewrite take_index_ok, (word_quote_elem _ _ H0 Hr). reflexivity.
Qed.

Lemma arr_elems_tail vs : forall i rest fuel,
  (forall v, In v vs -> ~ In 0 v) ->
  (length (flat_map (fun y => [c_sp] ++ y) (elems i vs) ++ c_rp :: rest) < fuel)%nat ->
  arr_elems fuel (flat_map (fun y => [c_sp] ++ y) (elems i vs) ++ c_rp :: rest)
  = Some (indexed i vs, rest).
Proof.
  induction vs as [|v vs IH]; intros i rest fuel H0 L.
  - cbn [elems flat_map app] in *. destruct fuel; [cbn in L; lia|]. reflexivity.
  - rewrite elems_cons in *. cbn [flat_map] in *. rewrite <- !app_assoc in *.
    destruct fuel; [lia|].
    rewrite (arr_elems_step fuel i v _ true).
    + rewrite IH; [reflexivity | intros; apply H0; right; assumption |].
      rewrite ?app_length in *. cbn [length] in *. lia.
    + apply H0; left; reflexivity.
    + destruct (elems (N.succ i) vs); cbn [flat_map app]; [apply stops_rp | apply stops_sp].
Qed.

Lemma arr_elems_ok vs rest fuel :
  (forall v, In v vs -> ~ In 0 v) ->
  (length (join [c_sp] (elems 0 vs) ++ c_rp :: rest) < fuel)%nat ->
  arr_elems fuel (join [c_sp] (elems 0 vs) ++ c_rp :: rest) = Some (indexed 0 vs, rest).
Proof.
  intros H0 L. destruct vs as [|v vs].
  - cbn [elems join app] in *. destruct fuel; [lia|]. reflexivity.
  - rewrite elems_cons, join_cons in *. rewrite <- app_assoc in *.
    destruct fuel; [lia|].
    match goal with |- arr_elems _ (_ ++ ?R) = _ =>
      change (elem_str 0 v ++ R) with ((if false then [c_sp] else []) ++ elem_str 0 v ++ R) end.
    rewrite (arr_elems_step fuel 0 v _ false).
    + cbn [indexed]. rewrite arr_elems_tail; [reflexivity | intros; apply H0; right; assumption |].
      pose proof (elem_str_len 0 v). rewrite ?app_length in *. cbn [length] in *. lia.
    + apply H0; left; reflexivity.
    + destruct (elems (N.succ 0) vs); cbn [flat_map app]; [apply stops_rp | apply stops_sp].
Qed.

(* ascending subscripts are stored as they come *)
Lemma arr_set_append i v acc :
  (forall j w, In (j, w) acc -> j < i) -> arr_set i v acc = acc ++ [(i, v)].
Proof.
  induction acc as [|[j w] acc IH]; intro H; cbn [arr_set app]; [reflexivity|].
  assert (J : j < i) by (apply (H j w); left; reflexivity).
  replace (i =? j) with false by (symmetry; apply N.eqb_neq; lia).
  replace (i <? j) with false by (symmetry; apply N.ltb_ge; lia).
  rewrite IH; [reflexivity|]. intros; eapply H; right; eassumption.
Qed.

Lemma indexed_ge i vs j w : In (j, w) (indexed i vs) -> i <= j.
Proof.
  revert i. induction vs as [|v vs IH]; intros i H; cbn [indexed] in H; [destruct H|].
  destruct H as [E|H]; [injection E as <- _; lia | apply IH in H; lia].
Qed.

Lemma arr_norm_indexed_gen vs : forall i acc,
  (forall j w, In (j, w) acc -> j < i) ->
  fold_left (fun acc iv => arr_set (fst iv) (snd iv) acc) (indexed i vs) acc = acc ++ indexed i vs.
Proof.
  induction vs as [|v vs IH]; intros i acc H; cbn [indexed fold_left].
  - rewrite app_nil_r. reflexivity.
  - cbn [fst snd]. rewrite (arr_set_append _ _ _ H), IH.
    + rewrite <- app_assoc. reflexivity.
    + intros j w I. apply in_app_or in I as [I|[E|[]]].
      * apply H in I. lia.
      * injection E as <- _. lia.
Qed.

Lemma arr_norm_indexed vs : arr_norm (indexed 0 vs) = indexed 0 vs.
Proof. unfold arr_norm. rewrite arr_norm_indexed_gen; [reflexivity | intros ? ? []]. Qed.

(* ------------------------------------------------------------------ one assignment word *)
Definition bval_of (v : pyval) : bval :=
  match v with PStr s => BStr s | PList l => BArr (indexed 0 l) | POther => BStr [] end.
Definition item_str (U : uni) (kv : str * pyval) : str :=
  match render_val U (fst kv) (snd kv) with Some a => a | None => [] end.
Definition entry (exp : bool) (kv : str * pyval) : assignment := (fst kv, bval_of (snd kv), exp).
Definition item_ok (kv : str * pyval) : Prop := valid_nameb (fst kv) = true /\ value_ok (snd kv).

Lemma assigns_unfold f exp s :
  assigns (S f) exp s =
  match skip_sp s with
  | [] => Some ([], [])
  | c :: s' =>
      if c =? c_nl then Some ([], s')
      else
        match take_name (c :: s') with
        | None => None
        | Some (k, r) =>
            match
              match r with
              | d :: r' =>
                  if d =? c_lp then
                    match arr_elems f r' with
                    | Some (l, r2) => Some (BArr (arr_norm l), r2)
                    | None => None
                    end
                  else match word false MPlain r with
                       | Some (v, r2) => Some (BStr v, r2)
                       | None => None
                       end
              | [] => Some (BStr [], [])
              end
            with
            | None => None
            | Some (bv, r2) =>
                if ends_word r2 then
                  match assigns f exp r2 with
                  | Some (l, r3) => Some ((k, bv, exp) :: l, r3)
                  | None => None
                  end
                else None
            end
        end
  end.
Proof. reflexivity. Qed.

Lemma ends_word_stops rest : ends_word rest = true -> stops rest.
Proof.
  destruct rest as [|c r]; cbn [ends_word stops]; intro H; [exact I|].
  unfold is_term. rewrite orb_true_iff in H. destruct H as [H|H].
  - rewrite H. reflexivity.
  - rewrite H. rewrite !orb_true_r. reflexivity.
Qed.

Lemma name_start_facts c :
  is_name_start c = true ->
  (c =? c_sp) = false /\ (c =? c_tab) = false /\ (c =? c_nl) = false.
Proof.
  unfold is_name_start, is_alpha_ascii, c_us, c_sp, c_tab, c_nl. intro H.
  repeat split; apply N.eqb_neq; intro E; subst c; discriminate H.
Qed.

Lemma skip_sp_name (lead : bool) c s :
  is_name_start c = true ->
  skip_sp ((if lead then [c_sp] else []) ++ c :: s) = c :: s.
Proof.
  intro H. destruct (name_start_facts c H) as (A & B & _).
  destruct lead; cbn [app skip_sp]; [cbn|]; rewrite A, B; reflexivity.
Qed.

Lemma assigns_step U f exp kv rest (lead : bool) :
  item_ok kv -> ends_word rest = true ->
  (length ((if lead then [c_sp] else []) ++ item_str U kv ++ rest) < S f)%nat ->
  assigns (S f) exp ((if lead then [c_sp] else []) ++ item_str U kv ++ rest) =
  match assigns f exp rest with
  | Some (l, r3) => Some (entry exp kv :: l, r3)
  | None => None
  end.
Proof.
  destruct kv as [k v]. intros [Hk Hv] Hr L. cbn [fst snd] in Hk, Hv.
  destruct k as [|c k']; [discriminate|].
  assert (Hc : is_name_start c = true) by (cbn [valid_nameb] in Hk; apply andb_true_iff in Hk; tauto).
  destruct (name_start_facts c Hc) as (_ & _ & Hnl).
  rewrite assigns_unfold.
  destruct v as [s|l|]; [| |destruct Hv]; unfold item_str, entry in *; cbn [render_val fst snd bval_of] in *.
  - (* scalar *)
    replace (((c :: k') ++ [c_eq] ++ quote_scalar U s) ++ rest)
      with (c :: k' ++ c_eq :: quote_scalar U s ++ rest) in *
      by (cbn [app]; rewrite <- !app_assoc; reflexivity).
    rewrite (skip_sp_name lead c _ Hc), Hnl.
    change (c :: k' ++ c_eq :: quote_scalar U s ++ rest)
      with ((c :: k') ++ c_eq :: quote_scalar U s ++ rest).
    rewrite (take_name_ok _ _ Hk).
    destruct (quote_scalar_head U s) as (d & q & E & Hd).
    rewrite E at 1. cbn [app]. rewrite Hd.
    rewrite (word_quote_scalar U s rest Hv (ends_word_stops _ Hr)), Hr. reflexivity.
  - (* list *)
    replace (((c :: k') ++ [c_eq; c_lp] ++ join [c_sp] (elems 0 l) ++ [c_rp]) ++ rest)
      with (c :: k' ++ c_eq :: c_lp :: join [c_sp] (elems 0 l) ++ c_rp :: rest) in *
      by (repeat (cbn [app]; rewrite <- ?app_assoc); reflexivity).
    rewrite (skip_sp_name lead c _ Hc), Hnl.
    change (c :: k' ++ c_eq :: c_lp :: join [c_sp] (elems 0 l) ++ c_rp :: rest)
      with ((c :: k') ++ c_eq :: c_lp :: join [c_sp] (elems 0 l) ++ c_rp :: rest).
    rewrite (take_name_ok _ _ Hk). rewrite N.eqb_refl.
    rewrite arr_elems_ok.
    + rewrite arr_norm_indexed, Hr. reflexivity.
    + exact Hv.
    + rewrite ?app_length in *. cbn [length] in *. rewrite ?app_length in *. cbn [length] in *.
      destruct lead; cbn [length] in L; rewrite ?app_length in L; cbn [length] in L; lia.
Qed.

(* ------------------------------------------------------------------ one line of assignments *)
Definition tail_spec (tail rest : str) : Prop :=
  (tail = [] /\ rest = []) \/ tail = c_nl :: rest.

Lemma assigns_end fuel exp tail rest :
  tail_spec tail rest -> (0 < fuel)%nat -> assigns fuel exp tail = Some ([], rest).
Proof.
  intros [[-> ->]| ->] F; destruct fuel; try lia; reflexivity.
Qed.

Lemma tail_ends tail rest : tail_spec tail rest -> ends_word tail = true.
Proof. intros [[-> _]| ->]; reflexivity. Qed.

Lemma item_str_nonempty U kv : item_ok kv -> exists c r, item_str U kv = c :: r /\ is_name_start c = true.
Proof.
  destruct kv as [k v]. intros [Hk Hv]. cbn [fst snd] in *.
  destruct k as [|c k']; [discriminate|].
  assert (Hc : is_name_start c = true) by (cbn [valid_nameb] in Hk; apply andb_true_iff in Hk; tauto).
  destruct v; [| |destruct Hv]; unfold item_str; cbn [render_val fst snd app]; eauto.
Qed.

Lemma assigns_tail U items : forall fuel exp tail rest,
  Forall item_ok items -> tail_spec tail rest ->
  (length (flat_map (fun kv => [c_sp] ++ item_str U kv) items ++ tail) < fuel)%nat ->
  assigns fuel exp (flat_map (fun kv => [c_sp] ++ item_str U kv) items ++ tail)
  = Some (map (entry exp) items, rest).
Proof.
  induction items as [|kv items IH]; intros fuel exp tail rest Hok Ht L.
  - cbn [flat_map app map] in *. apply assigns_end; [exact Ht | lia].
  - inversion Hok as [|? ? Hkv Hrest]; subst.
    cbn [flat_map map] in *. rewrite <- !app_assoc in *.
    destruct fuel; [lia|].
    rewrite (assigns_step U fuel exp kv _ true Hkv).
    + rewrite (IH fuel exp tail rest Hrest Ht); [reflexivity|].
      rewrite ?app_length in *. cbn [length] in *. lia.
    + destruct items; cbn [flat_map app]; [exact (tail_ends _ _ Ht) | reflexivity].
    + exact L.
Qed.

Lemma flat_map_map {A B C} (g : A -> B) (f : B -> list C) l :
  flat_map f (map g l) = flat_map (fun x => f (g x)) l.
Proof. induction l; cbn; congruence. Qed.

Lemma assigns_line U kv items fuel exp tail rest :
  Forall item_ok (kv :: items) -> tail_spec tail rest ->
  (length (join [c_sp] (map (item_str U) (kv :: items)) ++ tail) < fuel)%nat ->
  assigns fuel exp (join [c_sp] (map (item_str U) (kv :: items)) ++ tail)
  = Some (map (entry exp) (kv :: items), rest).
Proof.
  intros Hok Ht L. inversion Hok as [|? ? Hkv Hrest]; subst.
  cbn [map] in *. rewrite join_cons, flat_map_map in *. rewrite <- app_assoc in *.
  destruct fuel; [lia|].
  match goal with |- assigns _ _ (_ ++ ?R) = _ =>
    change (item_str U kv ++ R) with ((if false then [c_sp] else []) ++ item_str U kv ++ R) end.
  rewrite (assigns_step U fuel exp kv _ false Hkv).
  - rewrite (assigns_tail U items fuel exp tail rest Hrest Ht); [reflexivity|].
    destruct (item_str_nonempty U kv Hkv) as (c & r & E & _). rewrite E in L.
    rewrite ?app_length in *. cbn [length] in *. lia.
  - destruct items; cbn [flat_map app]; [exact (tail_ends _ _ Ht) | reflexivity].
  - exact L.
Qed.

(* ------------------------------------------------------------------ commands *)
Lemma command_plain fuel s :
  match strip_prefix EXPORT (skip_sp s) with
  | Some (c :: _) => is_blank c = false
  | _ => True
  end ->
  command fuel s = assigns fuel false s.
Proof.
  unfold command. destruct (strip_prefix EXPORT (skip_sp s)) as [[|c r]|]; intro H; try reflexivity.
  rewrite H. reflexivity.
Qed.

Lemma name_char_not_blank c : is_name_char c = true -> is_blank c = false.
Proof.
  unfold is_name_char, is_name_start, is_alpha_ascii, is_digit, is_blank, c_us, c_sp, c_tab. intro H.
  apply orb_false_iff; split; apply N.eqb_neq; intro E; subst c; discriminate H.
Qed.

Lemma no_export_prefix k X :
  forallb is_name_char k = true ->
  match strip_prefix EXPORT (k ++ c_eq :: X) with
  | Some (c :: _) => is_blank c = false
  | _ => True
  end.
Proof.
  intro H. unfold EXPORT, c_eq.
  destruct k as [|a1 [|a2 [|a3 [|a4 [|a5 [|a6 [|a7 k]]]]]]]; cbn [app strip_prefix];
    repeat (match goal with |- context [if ?x =? ?y then _ else _] =>
              let E := fresh "E" in
              destruct (x =? y) eqn:E; [apply N.eqb_eq in E; try discriminate E|] end);
    try exact I; try reflexivity.
  cbn [forallb] in H. repeat (apply andb_true_iff in H as [? H]).
  apply name_char_not_blank. assumption.
Qed.

Lemma command_plain_line U kv items fuel tail rest :
  Forall item_ok (kv :: items) -> tail_spec tail rest ->
  (length (join [c_sp] (map (item_str U) (kv :: items)) ++ tail) < fuel)%nat ->
  command fuel (join [c_sp] (map (item_str U) (kv :: items)) ++ tail)
  = Some (map (entry false) (kv :: items), rest).
Proof.
  intros Hok Ht L. rewrite command_plain; [apply assigns_line; assumption|].
  inversion Hok as [|? ? Hkv _]; subst. destruct kv as [k v]. destruct Hkv as [Hk Hv]. cbn [fst snd] in *.
  cbn [map]. rewrite join_cons.
  assert (E : exists Y, item_str U (k, v) = k ++ c_eq :: Y).
  { destruct v; [| |destruct Hv]; unfold item_str; cbn [render_val fst snd app]; eauto. }
  destruct E as [Y ->]. rewrite <- !app_assoc. cbn [app].
  destruct k as [|c k']; [discriminate|].
  assert (Hc : is_name_start c = true) by (cbn [valid_nameb] in Hk; apply andb_true_iff in Hk; tauto).
  change ((c :: k') ++ c_eq :: Y ++ ?Z) with ((if false then [c_sp] else []) ++ c :: k' ++ c_eq :: Y ++ Z).
  rewrite (skip_sp_name false c _ Hc).
  change (c :: k' ++ c_eq :: ?Z) with ((c :: k') ++ c_eq :: Z).
  apply no_export_prefix. apply valid_name_chars. exact Hk.
Qed.

Lemma command_export_line U kv items fuel tail rest :
  Forall item_ok (kv :: items) -> tail_spec tail rest ->
  (length (join [c_sp] (map (item_str U) (kv :: items)) ++ tail) < fuel)%nat ->
  command fuel ((EXPORT ++ [c_sp] ++ join [c_sp] (map (item_str U) (kv :: items))) ++ tail)
  = Some (map (entry true) (kv :: items), rest).
Proof.
  intros Hok Ht L. rewrite <- !app_assoc. unfold command, EXPORT. cbn [app skip_sp].
  cbn -[assigns join map]. apply assigns_line; assumption.
Qed.

(* ------------------------------------------------------------------ the whole text *)
Lemma program_unfold f c s :
  program (S f) (c :: s) =
  match command (S f) (c :: s) with
  | None => None
  | Some (l, r) => match program f r with Some l' => Some (l ++ l') | None => None end
  end.
Proof. reflexivity. Qed.

Lemma program_nil f : program f [] = Some [].
Proof. destruct f; reflexivity. Qed.

Definition line_str (U : uni) (items : env) : str := join [c_sp] (map (item_str U) items).

Lemma line_nonempty U kv items :
  item_ok kv -> exists c r, line_str U (kv :: items) = c :: r.
Proof.
  intro H. unfold line_str. cbn [map]. rewrite join_cons.
  destruct (item_str_nonempty U kv H) as (c & r & -> & _). cbn [app]. eauto.
Qed.

Lemma lines_of_map U P X :
  lines_of (map (item_str U) P) (map (item_str U) X) =
  (match P with [] => [] | _ => [line_str U P] end)
  ++ (match X with [] => [] | _ => [EXPORT ++ [c_sp] ++ line_str U X] end).
Proof. destruct P, X; reflexivity. Qed.

Lemma bash_eval_lines U P X :
  Forall item_ok P -> Forall item_ok X ->
  bash_eval (join [c_nl] (lines_of (map (item_str U) P) (map (item_str U) X)))
  = Some (map (entry false) P ++ map (entry true) X).
Proof.
  intros HP HX. rewrite lines_of_map. unfold bash_eval.
  destruct P as [|p P]; destruct X as [|x X].
  - reflexivity.
  - (* export line only *)
    change (program (S (length (EXPORT ++ [c_sp] ++ line_str U (x :: X))))
                    (EXPORT ++ [c_sp] ++ line_str U (x :: X)) = Some (map (entry true) (x :: X))).
    set (text := EXPORT ++ [c_sp] ++ line_str U (x :: X)).
    assert (T : text = 101 :: skipn 1 text) by reflexivity.
    rewrite T at 2. rewrite program_unfold, <- T. subst text.
    pose proof (command_export_line U x X (S (length (EXPORT ++ [c_sp] ++ line_str U (x :: X)))) [] []
                  HX (or_introl (conj eq_refl eq_refl))) as C.
    unfold line_str in *. rewrite !app_nil_r in C. rewrite C.
    + rewrite program_nil, app_nil_r. reflexivity.
    + rewrite ?app_length. cbn [length]. lia.
  - (* plain line only *)
    inversion HP as [|? ? Hp _]; subst.
    destruct (line_nonempty U p P Hp) as (c & r & E).
    change (program (S (length (line_str U (p :: P)))) (line_str U (p :: P))
            = Some (map (entry false) (p :: P) ++ [])).
    set (text := line_str U (p :: P)) in *.
    rewrite E at 2. rewrite program_unfold, <- E. subst text.
    pose proof (command_plain_line U p P (S (length (line_str U (p :: P)))) [] [] HP
                  (or_introl (conj eq_refl eq_refl))) as C.
    unfold line_str in *. rewrite !app_nil_r in C. rewrite C.
    + rewrite program_nil, !app_nil_r. reflexivity.
    + lia.
  - (* both *)
    inversion HP as [|? ? Hp _]; subst.
    destruct (line_nonempty U p P Hp) as (c & r & E).
    change (program (S (length (line_str U (p :: P) ++ [c_nl] ++ EXPORT ++ [c_sp] ++ line_str U (x :: X))))
                    (line_str U (p :: P) ++ [c_nl] ++ EXPORT ++ [c_sp] ++ line_str U (x :: X))
            = Some (map (entry false) (p :: P) ++ map (entry true) (x :: X))).
    set (l2 := EXPORT ++ [c_sp] ++ line_str U (x :: X)).
    set (text := line_str U (p :: P) ++ [c_nl] ++ l2).
    assert (E1 : text = c :: (r ++ [c_nl] ++ l2)) by (subst text; rewrite E; reflexivity).
    rewrite E1 at 2. rewrite program_unfold, <- E1.
    assert (C1 : command (S (length text)) text = Some (map (entry false) (p :: P), l2)).
    { subst text. unfold line_str. cbn [app].
      apply command_plain_line; [exact HP | right; reflexivity |].
      cbn [app length]. rewrite ?app_length. cbn [length]. lia. }
    rewrite C1.
    assert (T : l2 = 101 :: skipn 1 l2) by reflexivity.
    assert (Len : (length l2 < length text)%nat).
    { subst text. rewrite ?app_length. cbn [length]. lia. }
    destruct (length text) as [|n] eqn:LT; [lia|].
    rewrite T at 1. rewrite program_unfold, <- T.
    pose proof (command_export_line U x X (S n) [] [] HX (or_introl (conj eq_refl eq_refl))) as C.
    rewrite !app_nil_r in C. fold (line_str U (x :: X)) in C. fold l2 in C. rewrite C.
    + rewrite program_nil, app_nil_r. reflexivity.
    + subst l2. unfold line_str in Len. rewrite ?app_length in Len. cbn [length] in Len. Show. lia.
Qed.
