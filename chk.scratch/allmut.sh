#!/bin/sh
cd /verif
chk.scratch/mut.sh M2 '        plan.blockers_refcnt.remove(self.blocker)
        if self.blocker not in plan.blockers_refcnt:
            plan.state.remove_limiter(self.blocker, self.key)


class decref' '        plan.blockers_refcnt.remove(self.blocker)
        plan.state.remove_limiter(self.blocker, self.key)


class decref'
chk.scratch/mut.sh M3 '        plan.pkg_choices[self.old_pkg] = self.old_choices
        plan.vdb_filter.remove(self.old_pkg)' '        plan.pkg_choices[self.old_pkg] = self.old_choices'
chk.scratch/mut.sh M4 'enumerate(reversed(self.plan[state_pos:]))' 'enumerate(self.plan[state_pos:])'
chk.scratch/mut.sh M5 '        if self.blocker not in plan.blockers_refcnt:
            plan.state.add_limiter(self.blocker, self.key)
        plan.blockers_refcnt.add(self.blocker)' '        plan.blockers_refcnt.add(self.blocker)
        if self.blocker not in plan.blockers_refcnt:
            plan.state.add_limiter(self.blocker, self.key)'
chk.scratch/mut.sh M6 '        for blocker, key in l[:]:' '        for blocker, key in l[:1]:'
chk.scratch/mut.sh M7 '            l2 = plan.state.fill_slotting(old)
            plan.backtrack(revert_point)' '            l2 = plan.state.fill_slotting(old)'
chk.scratch/mut.sh H1 '        l = [x for x in slots if x is not obj]' '        l = [y for y in slots if not (y is obj)]' src/pkgcore/resolver/pigeonholes.py
chk.scratch/mut.sh H2 '        l = self.rev_blockers.get(choices, ())
        # walk a copy- it'"'"'s possible it'"'"'ll change under foot
        for blocker, key in l[:]:' '        for blocker, key in list(self.rev_blockers.get(choices, ())):'
git -C /tmp/wt_C17 checkout -q -- .
