"""C40 — keywording requests only name valid, narrowed, not-yet-present arches (DESIGN §6 C40).

Anchor: src/pkgcore/ebuild/keywording.py (match_packages, suggested_keywords,
select_best_version, filter_prefix_keywords).

Streams
  match    match_packages(repo, requested, stable, cc_arches, only_new, filter_arch, allarches)
           on real on-disk ebuild repositories (UnconfiguredTree, metadata through ebd):
           yielded (key, version rank, arches) list + exception class + len(exc.packages)
             (A) impl vs Model_C40.run_match            (in Coq)
             (B) impl result vs Spec_C40.spec_*_ok      (in Coq, one acceptor per clause)
                 + the same clauses as a direct Python oracle on the implementation's output
  matchbad the same, from a separate malformed generator (unknown keys/versions, bad specs,
           odd keywords, unknown arches everywhere)
  sugg     suggested_keywords(repo, pkg, stable) for every version of every key, both modes
             (A) vs Model_C40.suggested, (B) vs Spec_C40.spec_sugg_ok + Python oracle
  best     select_best_version on shuffled sub-lists of a key's versions
  prefix   filter_prefix_keywords on random keyword lists

The version order enters the model only as data: the rank of each version of the fixed pool in
the order pkgcore itself assigns (sorted VersionedCPV).
"""

import json
import shutil
import tempfile

from .common import VERIF, Check, Err, Raw, cval, cN, cbool, clist, cnat, copt, cpair, cstr, impl_call, shrink_list

IMPORTS = ("From Coq Require Import List NArith ZArith Bool.\n"
           "From Verif Require Import Base.Val C40.Model_C40 C40.Spec_C40.")
ANCHORS = ["ebuild/keywording.py::match_packages", "ebuild/keywording.py::suggested_keywords",
           "ebuild/keywording.py::select_best_version", "ebuild/keywording.py::filter_prefix_keywords",
           "ebuild/misc.py::sort_keywords"]

ARCH_POOL = ["alpha", "amd64", "arm", "hppa", "x86"]
PREFIX = ["amd64-linux", "x86-macos"]
UNKNOWN = ["foo", "sparc"]
VERSIONS = ["0.9", "1", "1.0-r1", "1.1", "2_alpha1", "2", "10", "9999"]
OPS = {"": 0, "=": 1, ">=": 2, "<=": 3, ">": 4, "<": 5, "~": 6, "=*": 7}
ERRS = ("PackageInvalid", "PackageNoMatch", "KeywordNoMatch", "KeywordNotSpecified",
        "KeywordNoneLeft", "PackageListEmpty", "PackageListDoneAlready")


# ----------------------------------------------------------------------------- spec helpers (python)
def testing_on(kws, k):
    return (not k.startswith("~")) and any(x.startswith("~") and x.lstrip("~") == k for x in kws)


def stable_on(kws, k):
    return k in kws and not k.startswith(("-", "~"))


def is_cand(vs, p, k):
    """the spec's notion of a stabilization candidate: testing here, stable on some version"""
    return "-" not in k and testing_on(p["kws"], k) and any(stable_on(o["kws"], k) for o in vs)


def carried(stable, kws, k):
    return k in kws or (not stable and "~" + k in kws)


# ----------------------------------------------------------------------------- known-finding classes
# each predicate decides membership of ONE failing (case, yield, arch) triple
def cls_cc_unknown_arch(case, vs, p, k):
    """arch not in known arches, but it is a cc arch inherited by a line written without keywords
    (or with only the ALL_KEYWORDS sentinel, which may expand to nothing)"""
    return (k not in case["known"] and k in case["cc"]
            and any(not [w for w in ln["written"] if w.strip().lstrip("~") != "*"] for ln in case["lines"]))


def _aa(case, vs, p, k):
    return bool(case["allarches"] and case["stable"] and case["filt"]) and is_cand(vs, p, k)


def cls_allarches_unknown_arch(case, vs, p, k):
    """allarches re-added a candidate arch that is not a known arch of the repo"""
    return k not in case["known"] and _aa(case, vs, p, k)


def cls_allarches_outside_cc(case, vs, p, k):
    """allarches re-added a candidate arch outside the cc arches"""
    return bool(case["cc"]) and k not in case["cc"] and _aa(case, vs, p, k)


def cls_allarches_already_stable(case, vs, p, k):
    """only_new, yet allarches re-added an arch the version already carries as stable"""
    return case["only_new"] and k in p["kws"] and _aa(case, vs, p, k)


def cls_suggested_self_stable(vs, p, k):
    """stable suggestion whose only stable carrier is the version itself (KEYWORDS has k and ~k)"""
    return (testing_on(p["kws"], k) and stable_on(p["kws"], k)
            and not any(o is not p and stable_on(o["kws"], k) for o in vs))


# ----------------------------------------------------------------------------- Coq rendering
class Syms:
    """String table of a cases file: every distinct string is defined once in the preamble
    (`Definition sK : str := [..]%N.`) and referred to by name, which keeps the files small."""

    def __init__(self):
        self.names = {}

    def name(self, x):
        if x not in self.names:
            self.names[x] = "s%d" % len(self.names)
        return self.names[x]

    def preamble(self):
        return "\n".join("Definition %s : str := %s." % (n, cstr(x)) for x, n in self.names.items())


SYMS = Syms()


def c_strs(l):
    return clist([SYMS.name(x) for x in l], "str")


def rval(x):
    """implementation result -> pre-rendered Coq `val` using the string table"""
    if isinstance(x, str):
        return Raw("(VS %s)" % SYMS.name(x))
    if isinstance(x, (list, tuple)):
        return Raw("(VL " + clist([rval(i).term for i in x], "val") + ")")
    return Raw(cval(x))


def c_pkg(p):
    return "(P %s %s %s %s)" % (cN(p["rank"]), cN(p["slot"]), cbool(p["live"]), c_strs(p["kws"]))


def c_pkgs(vs):
    return clist([c_pkg(p) for p in vs], "pkg")


def c_case(case, repos):
    info = repos[case["repo"]]
    keys = []
    for ln in case["lines"]:
        if ln["key"] not in keys:
            keys.append(ln["key"])
    R = clist(["(%s, %s)" % (cN(k), c_pkgs(info["keys"][k])) for k in keys if k in info["keys"]],
              "N * list pkg")
    o = "(Op %s %s %s %s %s)" % (cbool(case["stable"]), c_strs(case["cc"]), cbool(case["only_new"]),
                                 c_strs(case["filt"]), cbool(case["allarches"]))
    rs = clist(["(Rq %s %s %s %s %s)" % (cN(ln["key"]), cN(OPS[ln["op"]]), cN(ln["rank"]),
                                         copt(ln["slot"], cN, "N"), c_strs(ln["written"]))
                for ln in case["lines"]], "req")
    return "(C %s %s %s %s)" % (c_strs(info["known"]), R, o, rs)


# ----------------------------------------------------------------------------- repositories
def _add_ebuild(tree, path, cpvstr, kws, slot, live):
    """Write the ebuild and its metadata/md5-cache entry (what `pmaint regen` leaves in a real
    repository), so that package metadata is served by the cache and no bash daemon is needed."""
    import hashlib
    import os

    eb = tree.create_ebuild(cpvstr, keywords=kws, slot=str(slot), **({"properties": "live"} if live else {}))
    with open(eb, "rb") as f:
        md5 = hashlib.md5(f.read()).hexdigest()
    cat, pf = cpvstr.split("/")
    cdir = os.path.join(path, "metadata", "md5-cache", cat)
    os.makedirs(cdir, exist_ok=True)
    with open(os.path.join(cdir, pf), "w") as f:
        f.write("DEFINED_PHASES=-\nDESCRIPTION=stub package description\nEAPI=7\n"
                "HOMEPAGE=https://pkgcore.github.io/pkgcheck\n"
                f"KEYWORDS={' '.join(kws)}\nLICENSE=blank\n"
                + ("PROPERTIES=live\n" if live else "") + f"SLOT={slot}\n_md5_={md5}\n")


def _open_repo(path):
    from pkgcore.cache.flat_hash import md5_cache
    from pkgcore.ebuild import repo_objs, repository

    return repository.UnconfiguredTree(path, repo_config=repo_objs.RepoConfig(location=path),
                                       cache=(md5_cache(path, readonly=True),))


def build_repo(rng, nkeys, malformed, ranks):
    from pkgcore.pytest.plugin import EbuildRepo

    path = tempfile.mkdtemp(prefix="verif_c40_repo_")
    known = [a for a in ARCH_POOL if rng.random() < 0.85] or ["amd64"]
    known += [a for a in PREFIX if rng.random() < 0.6]
    if malformed and rng.random() < 0.5:
        known.append(rng.choice(UNKNOWN))
    tree = EbuildRepo(path, repo_id="test", arches=tuple(known))
    keys = {}
    for kid in range(nkeys):
        nver = rng.choice([1, 2, 2, 3, 3, 4])
        vers = rng.sample(VERSIONS, nver)
        arches = rng.sample(ARCH_POOL, rng.choice([2, 3, 3, 4]))
        vs = []
        for v in vers:
            live = (v == "9999" and rng.random() < 0.8) or rng.random() < 0.03
            kws = []
            if rng.random() < 0.08:
                kws.append("-*")
            if not (live and rng.random() < 0.8) and rng.random() > 0.1:
                for a in arches:
                    x = rng.random()
                    if x < 0.30:
                        kws.append(a)
                    elif x < 0.65:
                        kws.append("~" + a)
                    elif x < 0.78:
                        kws.append("-" + a)
                    odd = rng.random()
                    lim = 0.15 if malformed else 0.02
                    if odd < lim / 3:
                        kws.append(rng.choice(["~", ""]) + a)          # a and ~a together / twice
                    elif odd < 2 * lim / 3:
                        kws.append("~~" + a)
                    elif odd < lim:
                        kws.append(rng.choice(["~", "", "-"]) + rng.choice(UNKNOWN))
                if rng.random() < 0.2:
                    kws.append(rng.choice(["~", "", "-"]) + rng.choice(PREFIX))
                if malformed and rng.random() < 0.05:
                    kws.append(rng.choice(["~*", "*", "~^", "~-x"]))
                if rng.random() < 0.3:
                    rng.shuffle(kws)
            slot = 1 if rng.random() < 0.15 else 0
            vs.append({"ver": v, "rank": ranks[v], "slot": slot, "live": bool(live), "kws": kws})
            _add_ebuild(tree, path, f"cat/p{kid}-{v}", kws, slot, live)
        keys[kid] = vs
    return _finish_repo(path, keys)


def build_corpus_repo(data, ranks):
    from pkgcore.pytest.plugin import EbuildRepo

    path = tempfile.mkdtemp(prefix="verif_c40_repo_")
    tree = EbuildRepo(path, repo_id="test", arches=tuple(data["known"]))
    keys = {}
    for kid, vs in data["keys"].items():
        keys[int(kid)] = [dict(p, rank=ranks[p["ver"]]) for p in vs]
        for p in vs:
            _add_ebuild(tree, path, f"cat/p{kid}-{p['ver']}", p["kws"], p["slot"], p["live"])
    return _finish_repo(path, keys)


def _finish_repo(path, keys):
    repo = _open_repo(path)
    hold = list(repo)  # strong references: package instances (and their metadata) stay cached
    bycpv = {}
    for pk in hold:
        bycpv[(int(pk.package[1:]), pk.fullver)] = pk
    # the model's data must be what the implementation sees, not what the generator intended
    for kid, vs in keys.items():
        for p in vs:
            pk = bycpv[(kid, p["ver"])]
            assert list(pk.keywords) == p["kws"] and bool(pk.live) == p["live"] and pk.slot == str(p["slot"]), \
                (pk.cpvstr, pk.keywords, p)
    return {"path": path, "repo": repo, "known": sorted(repo.known_arches), "keys": keys,
            "hold": hold, "bycpv": bycpv}


def gen_written(rng, info, vs, malformed, first):
    x = rng.random()
    rel = sorted({k.lstrip("~-") for p in vs for k in p["kws"] if k.lstrip("~-") in ARCH_POOL}) or ARCH_POOL
    if not malformed:  # mostly valid: arches the repository knows
        rel = [a for a in rel if a in info["known"]] or list(info["known"])
    pool = ARCH_POOL if malformed else [a for a in info["known"] if "-" not in a] or list(info["known"])
    pre = PREFIX if malformed else [a for a in info["known"] if "-" in a] or pool

    def arch():
        y = rng.random()
        if y < (0.25 if malformed else 0.015):
            a = rng.choice(UNKNOWN + PREFIX + ["-amd64", "~ x86", ""])
        elif y < 0.07:
            a = rng.choice(pre)
        elif y < 0.75:
            a = rng.choice(rel)
        else:
            a = rng.choice(pool)
        z = rng.random()
        if z < 0.15:
            a = "~" + a
        elif z < 0.22:
            a = rng.choice([" ", "\t", ""]) + a + rng.choice([" ", "\n", ""])
        elif z < (0.25 if malformed else 0.225):
            a = " ~" + a
        return a

    if first and not malformed and 0.28 <= x < 0.42 and rng.random() < 0.9:
        x = 0.9  # SAME_KEYWORDS on the first line is an error; keep it rare in the valid stream

    if x < 0.14:
        return []
    if x < 0.28:
        return (["*"] + [arch() for _ in range(rng.choice([0, 0, 1]))])[::rng.choice([1, -1])]
    if x < 0.42:
        return (["^"] + [arch() for _ in range(rng.choice([0, 0, 1]))])[::rng.choice([1, -1])]
    if x < 0.45:
        return rng.choice([["-"], ["~-"], ["amd64", "-"], ["*", "-"]])
    if x < 0.47:
        return rng.choice([["~*"], ["*", "^"], ["^", "*"], [" * "], ["~^"]])
    return [arch() for _ in range(rng.choice([1, 1, 2, 2, 3]))]


def gen_case(rng, repos, malformed):
    ri = rng.randrange(len(repos))
    info = repos[ri]
    stable = rng.random() < 0.6
    nl = rng.choice([0] if rng.random() < 0.03 else [1, 1, 2, 2, 3, 4])
    lines = []
    kids = sorted(info["keys"])
    focus = rng.sample(kids, 2)
    for _ in range(nl):
        kid = rng.choice(focus) if rng.random() < 0.6 else rng.choice(kids)
        if rng.random() < (0.2 if malformed else 0.01):
            kid = 900 + rng.randrange(3)  # no such package
        vs = info["keys"].get(kid, [])
        have = [p["ver"] for p in vs]
        slot = None
        if stable:
            op = "=" if rng.random() > (0.35 if malformed else 0.03) else rng.choice(["", ">=", "~", "=*", "=", "<"])
            if op == "=" and rng.random() < (0.3 if malformed else 0.015):
                slot = rng.choice([0, 1])
        else:
            op = rng.choice(["", "", "", "", "=", "=", ">=", "<=", ">", "<"])
            if rng.random() < (0.15 if malformed else 0.08):
                slot = rng.choice([0, 0, 1])
        ver = rng.choice(have) if have and rng.random() > (0.25 if malformed else 0.025) else rng.choice(VERSIONS)
        if op in ("~", "=*") and ver == "1.0-r1":
            ver = "1.1"
        lines.append({"key": kid, "op": op, "ver": ver if op else None, "slot": slot,
                      "written": gen_written(rng, info, vs, malformed, not lines)})
    pool = info["known"] if rng.random() < (0.5 if malformed else 0.93) else ARCH_POOL + PREFIX
    cc = []
    if rng.random() < 0.5:
        cc = rng.sample(pool, min(len(pool), rng.choice([1, 1, 2, 3])))
        if rng.random() < (0.3 if malformed else 0.04):
            cc.insert(rng.randrange(len(cc) + 1), rng.choice(UNKNOWN))
    filt = []
    if rng.random() < 0.5:
        filt = rng.sample(ARCH_POOL, rng.choice([1, 1, 2]))
        if malformed and rng.random() < 0.2:
            filt.append(rng.choice(UNKNOWN + PREFIX))
    allarches = rng.random() < (0.6 if (stable and filt) else 0.25)
    return {"repo": ri, "stable": stable, "cc": cc, "only_new": rng.random() < 0.4, "filt": filt,
            "allarches": allarches, "lines": lines}


def atom_text(ln):
    s = ln["op"] if ln["op"] != "=*" else "="
    s += f"cat/p{ln['key']}"
    if ln["op"]:
        s += "-" + ln["ver"]
    if ln["op"] == "=*":
        s += "*"
    if ln["slot"] is not None:
        s += f":{ln['slot']}"
    return s


def run_impl(case, info, ranks):
    """Drive match_packages the way every caller does: collect the KeywordRequest objects and
    look at them only after the generator has finished (or raised).  A snapshot of each
    request's keywords is also taken at the moment it is yielded; a request that differs from
    its snapshot afterwards was changed retroactively (a yielded list aliased with internal
    state such as `previous`).  The caller's own argument lists are passed as lists and
    compared afterwards as well.  Anomalies go to case["_anom"]; oracle() reports them."""
    from pkgcore.ebuild.atom import atom
    from pkgcore.ebuild.keywording import match_packages

    as_list = len(case["lines"]) % 2 == 0     # Sequence[str]: tuples and lists are both legal
    requested = [(atom(atom_text(ln)), list(ln["written"]) if as_list else tuple(ln["written"]))
                 for ln in case["lines"]]
    cc_arg = list(case["cc"]) if as_list else tuple(case["cc"])
    filt_arg = list(case["filt"]) if as_list else tuple(case["filt"])
    reqs, snaps, term, n = [], [], None, 0
    try:
        for req in match_packages(info["repo"], requested, stable=case["stable"], cc_arches=cc_arg,
                                  only_new=case["only_new"], filter_arch=filt_arg,
                                  allarches=case["allarches"]):
            reqs.append(req)
            snaps.append([str(k) for k in req.keywords])
    except Exception as e:  # noqa: BLE001
        term = Err(type(e).__name__)
        if type(e).__name__ == "KeywordNotSpecified":
            n = len(e.packages)
    ys = [[int(r.pkg.package[1:]), ranks[r.pkg.fullver], [str(k) for k in r.keywords]] for r in reqs]
    anom = []
    for i, (y, snap) in enumerate(zip(ys, snaps)):
        if y[2] != snap:
            anom.append(("changed-after-yield", {"request_index": i, "when_yielded": snap, "after_the_run": y[2]}))
    if ([list(w) for _, w in requested] != [list(ln["written"]) for ln in case["lines"]]
            or list(cc_arg) != list(case["cc"]) or list(filt_arg) != list(case["filt"])):
        anom.append(("caller-arguments-modified", {"requested": [list(w) for _, w in requested],
                                                   "cc_arches": list(cc_arg), "filter_arch": list(filt_arg)}))
    case["_anom"] = anom
    return [ys, term, n]


def oracle(case, info, res):
    """The property's clauses, checked directly on the implementation's output.
    Returns [(clause, class_id or None, detail)]."""
    out = []
    ys, term, _ = res
    known, cc, filt = info["known"], case["cc"], case["filt"]
    stable = case["stable"]
    aa_active = bool(case["allarches"] and stable and filt)
    bad_idx = [i for i, ln in enumerate(case["lines"]) if ln["op"] != "=" or ln["slot"] is not None]
    if stable and bad_idx:
        if not isinstance(term, Err) or len(ys) > bad_idx[0]:
            out.append(("rejected", None, {"first_bad_line": bad_idx[0], "yielded": len(ys), "term": term}))
    c2 = dict(case, known=known)
    for what, d in case.get("_anom", ()):
        out.append((what, None, d))
    for key, rank, arches in ys:
        vs = info["keys"].get(key, [])
        p = next((q for q in vs if q["rank"] == rank), None)
        lim = bad_idx[0] if (stable and bad_idx) else len(case["lines"])
        if p is None or not any(ln["key"] == key and _dep_ok(ln, p, stable) for ln in case["lines"][:lim]):
            out.append(("acts-on-spec", None, {"yield": [key, rank, arches]}))
            continue
        for k in arches:
            via = aa_active and is_cand(vs, p, k)
            d = {"yield": [key, rank, arches], "arch": k, "pkg_keywords": p["kws"]}
            if k not in known:
                cls = ("cc-unknown-arch" if cls_cc_unknown_arch(c2, vs, p, k) else
                       "allarches-unknown-arch" if cls_allarches_unknown_arch(c2, vs, p, k) else None)
                out.append(("known", cls, d))
            if cc and k not in cc:
                out.append(("cc", "allarches-outside-cc" if cls_allarches_outside_cc(c2, vs, p, k) else None, d))
            if filt and k not in filt and not via:
                out.append(("filter", None, d))
            if case["only_new"] and carried(stable, p["kws"], k):
                out.append(("only_new",
                            "allarches-already-stable" if cls_allarches_already_stable(c2, vs, p, k) else None, d))
    return out


def _dep_ok(ln, p, stable):
    r, v = p["rank"], ln.get("rank", 0)
    ok = {"": True, "=": r == v, ">=": r >= v, "<=": r <= v, ">": r > v, "<": r < v}.get(ln["op"], False)
    if stable and (ln["op"] != "=" or ln["slot"] is not None):
        return False
    return ok and (ln["slot"] is None or ln["slot"] == p["slot"])


def sugg_oracle(stable, vs, p, got):
    out = []
    for k in got:
        d = {"stable": stable, "pkg": p["ver"], "pkg_keywords": p["kws"], "arch": k,
             "versions": [[o["ver"], o["kws"]] for o in vs]}
        if "-" in k:
            out.append(("no-prefix", None, d))
        if stable:
            if not testing_on(p["kws"], k):
                out.append(("stable-sugg-testing", None, d))
            if not any(o is not p and stable_on(o["kws"], k) for o in vs):
                out.append(("stable-sugg-elsewhere",
                            "suggested-self-stable" if cls_suggested_self_stable(vs, p, k) else None, d))
        else:
            if carried(False, p["kws"], k):
                out.append(("kw-sugg-missing", None, d))
            if not any(any(x.lstrip("~") == k and x[0] != "-" for x in o["kws"]) for o in vs):
                out.append(("kw-sugg-elsewhere", None, d))
    return out


def describe(case, info):
    """self-contained description of a case for the replay file"""
    keys = sorted({ln["key"] for ln in case["lines"]})
    return {"known_arches": info["known"],
            "packages": {f"cat/p{k}-{p['ver']}": {"keywords": p["kws"], "slot": p["slot"], "live": p["live"]}
                         for k in keys for p in info["keys"].get(k, [])},
            "requested": [[atom_text(ln), ln["written"]] for ln in case["lines"]],
            "stable": case["stable"], "cc_arches": case["cc"], "only_new": case["only_new"],
            "filter_arch": case["filt"], "allarches": case["allarches"]}


def version_ranks():
    from pkgcore.ebuild.cpv import VersionedCPV

    order = sorted(VERSIONS, key=lambda v: VersionedCPV(f"cat/p-{v}"))
    return {v: i for i, v in enumerate(order)}


# ----------------------------------------------------------------------------- main
def main(chk: Check):
    import logging

    logging.getLogger("pkgcore").setLevel(logging.ERROR)
    chk.rule("random on-disk ebuild repositories (1-4 versions per key from an 8-version pool incl. "
             "revision, _alpha and live 9999; KEYWORDS mixing stable/~testing/-disabled/-*/prefix/"
             "unknown arches), random request lists (ops, slots, sentinels * ^ -, ~ and whitespace "
             "decorations) and option combinations; malformed stream generated separately; "
             "non-trivial = a case that yields at least one request with a non-empty arch list and in "
             "which a sentinel or at least one of cc/filter/only_new/allarches took part")
    ok = chk.build(["C40/Prop_C40.vo"])
    if ok:
        chk.check_assumptions("C40/Prop_C40.v")
    chk.lint(["C40"])
    chk.check_fingerprint(ANCHORS)

    rng = chk.rng
    ranks = impl_call(version_ranks)
    if isinstance(ranks, Err):
        chk.violation("correspondence", {"what": "cannot order the version pool", "error": ranks.kind}, True)
        return
    repos = []
    corpus = []
    try:
        for f in sorted((VERIF / "corpus" / "C40").glob("*.json")):
            data = json.loads(f.read_text())
            repos.append(build_corpus_repo(data, ranks))
            for case in data["cases"]:
                corpus.append(dict(case, repo=len(repos) - 1))
        chk.cov["corpus_cases"] = len(corpus)
        nrepo = chk.n(6, 10)
        for i in range(nrepo):
            repos.append(build_repo(rng, chk.n(40, 50), malformed=(i % 3 == 2), ranks=ranks))
        _streams(chk, rng, repos, ranks, ok, corpus)
    finally:
        for info in repos:
            shutil.rmtree(info["path"], ignore_errors=True)


def _streams(chk, rng, repos, ranks, ok, corpus):
    from pkgcore.ebuild import keywording as kwmod

    for info in repos:
        for vs in info["keys"].values():
            for p in vs:
                p["rank"] = ranks[p["ver"]]
    # ------------------------------------------------------------------ match streams
    findings = []   # (stream, clause, class, case description, detail)
    streams = {}
    hist = {}
    for name, n, malformed in (("match", chk.n(640, 3600), False), ("matchbad", chk.n(260, 1400), True)):
        cases = []
        todo = list(corpus) if name == "match" else []
        for _ in range(n):
            case = todo.pop(0) if todo else gen_case(rng, repos, malformed)
            info = repos[case["repo"]]
            for ln in case["lines"]:
                ln["rank"] = ranks[ln["ver"]] if ln["ver"] is not None else 0
            res = run_impl(case, info, ranks)
            cases.append((case, res))
            tkey = res[1].kind if isinstance(res[1], Err) else "ok"
            hist[tkey] = hist.get(tkey, 0) + 1
            if any(y[2] for y in res[0]) and (
                    case["cc"] or case["filt"] or case["only_new"] or case["allarches"]
                    or any(w.strip().lstrip("~") in ("*", "^") for ln in case["lines"] for w in ln["written"])):
                chk.nontrivial(repr((case["repo"], case["stable"], case["cc"], case["only_new"], case["filt"],
                                     case["allarches"],
                                     [(atom_text(ln), ln["written"]) for ln in case["lines"]])))
            for clause, cls, d in oracle(case, info, res):
                findings.append((name, clause, cls, case, info, d, res))
        chk.count(name, len(cases))
        streams[name] = cases
        for case, res in cases[:: max(1, len(cases) // 3)][:3]:
            chk.sample({"stream": name, "input": describe(case, repos[case["repo"]]), "impl": res})
    chk.cov["outcome_histogram"] = hist
    # call sequences on the long-lived repository objects: the same request, asked again after
    # all the other calls, must resolve to the same result (no state carried across calls)
    again = [cr for name in ("match", "matchbad") for cr in streams[name]]
    again = again[:40] + rng.sample(again, min(len(again), chk.n(160, 600)))
    for case, res in again:
        c = dict(case)
        res2 = run_impl(c, repos[case["repo"]], ranks)
        if res2 != res:
            findings.append(("rerun", "call-sequence", None, case, repos[case["repo"]],
                             {"first_call": res, "same_call_later": res2}, res2))
    chk.count("rerun", len(again))

    # ------------------------------------------------------------------ sugg / best / prefix
    sugg_cases, sugg_find = [], []
    for info in repos[:chk.n(4, len(repos))]:
        for kid, vs in info["keys"].items():
            for i, p in enumerate(vs):
                for stable in (True, False):
                    pk = info["bycpv"][(kid, p["ver"])]
                    got = impl_call(lambda: sorted(str(x) for x in kwmod.suggested_keywords(
                        info["repo"], pk, stable=stable)))
                    sugg_cases.append((cpair(cbool(stable), c_pkgs(vs), cnat(i)), got))
                    if not isinstance(got, Err):
                        if got:
                            chk.nontrivial(repr(("sugg", stable, p["kws"], [o["kws"] for o in vs])))
                        for clause, cls, d in sugg_oracle(stable, vs, p, got):
                            sugg_find.append((clause, cls, d, len(sugg_cases) - 1))
    chk.count("sugg", len(sugg_cases))
    best_cases = []
    for _ in range(chk.n(250, 1500)):
        info = rng.choice(repos)
        kid = rng.choice(sorted(info["keys"]))
        vs = info["keys"][kid]
        sub = rng.sample(vs, rng.randrange(len(vs) + 1))
        got = impl_call(lambda: (lambda r: None if r is None else ranks[r.fullver])(
            kwmod.select_best_version([info["bycpv"][(kid, p["ver"])] for p in sub])))
        best_cases.append((c_pkgs(sub), got))
    chk.count("best", len(best_cases))
    pre_cases = []
    alpha = ARCH_POOL + PREFIX + ["~amd64-linux", "-*", "*", "~x86", "-x86", "a-b-c", "-", ""]
    for _ in range(chk.n(150, 600)):
        l = [rng.choice(alpha) for _ in range(rng.randrange(6))]
        pre_cases.append((c_strs(l), impl_call(lambda: list(kwmod.filter_prefix_keywords(l)))))
    chk.count("prefix", len(pre_cases))

    # ------------------------------------------------------------------ evaluate model and spec in Coq
    spec_evals = ["where_ (fun i r => negb (spec_%s_ok i r)) cases" % c
                  for c in ("shape", "known", "cc", "filter", "new", "reject")]
    a_bad = {}
    coq_spec_bad = []
    if ok:
        import concurrent.futures as cf

        mterms = {name: [(c_case(c, repos), rval(r)) for c, r in streams[name]] for name in ("match", "matchbad")}
        sterms = [(a, rval(b)) for a, b in sugg_cases]
        pterms = [(a, rval(b)) for a, b in pre_cases]
        pre = SYMS.preamble()   # after every term has been rendered
        jobs = {
            "match": ("case", mterms["match"], ["mismatches run_match cases"] + spec_evals),
            "matchbad": ("case", mterms["matchbad"], ["mismatches run_match cases"] + spec_evals),
            "sugg": ("bool * list pkg * nat", sterms,
                     ["mismatches run_sugg cases", "where_ (fun i r => negb (spec_sugg_ok i r)) cases"]),
            "best": ("list pkg", best_cases, ["mismatches run_best cases"]),
            "prefix": ("list str", pterms, ["mismatches run_prefix cases"]),
        }
        with cf.ThreadPoolExecutor(max_workers=len(jobs)) as ex:
            futs = {name: ex.submit(chk.coq_eval, name, IMPORTS, ty, terms, evals, 330, pre)
                    for name, (ty, terms, evals) in jobs.items()}
            results = {name: f.result() for name, f in futs.items()}
        for name in ("match", "matchbad"):
            r = results[name]
            if r is None:
                continue
            cases = streams[name]
            a_bad[name] = [(cases[i], mterms[name][i][0]) for i in r[0]]
            for j, clause in enumerate(("shape", "known", "cc", "filter", "only_new", "rejected")):
                for i in r[1 + j]:
                    coq_spec_bad.append((name, clause, cases[i]))
        r = results["sugg"]
        if r is not None:
            a_bad["sugg"] = [((sugg_cases[i][0], sugg_cases[i][1]), sugg_cases[i][0]) for i in r[0]]
            for i in r[1]:
                coq_spec_bad.append(("sugg", "sugg", (sugg_cases[i][0], sugg_cases[i][1], i)))
        for name, cs in (("best", best_cases), ("prefix", pre_cases)):
            r = results[name]
            if r is not None:
                a_bad[name] = [((cs[i][0], cs[i][1]), cs[i][0]) for i in r[0]]

    # ------------------------------------------------------------------ report
    prop_fail = 0
    seen_cls = set()
    for name, clause, cls, case, info, d, res in findings:
        if cls is not None and chk.known_finding(cls, {"input": describe(case, info), "implementation": res, **d}):
            seen_cls.add(cls)
            continue
        prop_fail += 1
        if prop_fail <= 3:
            small = _shrink(case, info, ranks, clause)
            chk.violation("property", {"what": f"clause '{clause}' of C40 fails on the implementation's output",
                                       "clause": clause, "input": describe(small, info),
                                       "implementation": run_impl(small, info, ranks), **d})
    for clause, cls, d, _ in sugg_find:
        if cls is not None and chk.known_finding(cls, d):
            continue
        prop_fail += 1
        if prop_fail <= 5:
            chk.violation("property", {"what": f"suggested_keywords violates clause '{clause}'", "input": d})
    # Coq-side spec rejections not explained by a python-side finding of the same case
    py_cases = {id(f[3]) for f in findings}
    py_sugg = {f[3] for f in sugg_find}
    for name, clause, c in coq_spec_bad:
        if name == "sugg":
            if c[2] not in py_sugg:
                prop_fail += 1
                chk.violation("property", {"what": "Spec_C40.spec_sugg_ok rejects the implementation's suggestions",
                                           "input": c[0], "implementation": c[1]})
            continue
        case, res = c
        if id(case) in py_cases:
            continue
        prop_fail += 1
        if prop_fail <= 6:
            chk.violation("property", {"what": f"Spec_C40.spec_{clause}_ok rejects the implementation's output",
                                       "input": describe(case, repos[case["repo"]]), "implementation": res})
    for name, bad in a_bad.items():
        for (c, term) in bad[:3]:
            if name in ("match", "matchbad"):
                case, res = c
                detail = {"input": describe(case, repos[case["repo"]]), "implementation": res, "coq_input": term}
            else:
                detail = {"input": c[0], "implementation": c[1]}
            chk.violation("correspondence",
                          {"what": f"implementation and Model_C40 disagree on stream '{name}' "
                                   "(theorems of Prop_C40 no longer speak about this code)", **detail},
                          no_input=(prop_fail == 0))


def _shrink(case, info, ranks, clause):
    def fails(lines):
        c = dict(case, lines=lines)
        return any(cl == clause and cls is None for cl, cls, _ in oracle(c, info, run_impl(c, info, ranks)))

    try:
        return dict(case, lines=shrink_list(case["lines"], fails, min_len=1))
    except Exception:  # noqa: BLE001
        return case


def replay(chk, data):
    """Re-run one recorded match case on a freshly built repository."""
    import logging

    from pkgcore.ebuild.atom import atom
    from pkgcore.ebuild.keywording import match_packages
    from pkgcore.pytest.plugin import EbuildRepo

    logging.getLogger("pkgcore").setLevel(logging.ERROR)
    inp = data.get("detail", {}).get("input")
    if not isinstance(inp, dict) or "packages" not in inp:
        print("no replayable match case in this file")
        return
    path = tempfile.mkdtemp(prefix="verif_c40_replay_")
    try:
        tree = EbuildRepo(path, repo_id="test", arches=tuple(inp["known_arches"]))
        for cpv, a in inp["packages"].items():
            _add_ebuild(tree, path, cpv, a["keywords"], a["slot"], a["live"])
        repo = _open_repo(path)
        out, term = [], None
        try:
            for pk, kws in match_packages(repo, [(atom(a), tuple(w)) for a, w in inp["requested"]],
                                          stable=inp["stable"], cc_arches=tuple(inp["cc_arches"]),
                                          only_new=inp["only_new"], filter_arch=tuple(inp["filter_arch"]),
                                          allarches=inp["allarches"]):
                out.append([pk.cpvstr, list(kws)])
        except Exception as e:  # noqa: BLE001
            term = type(e).__name__
        print("implementation now:", out, term)
    finally:
        shutil.rmtree(path, ignore_errors=True)
