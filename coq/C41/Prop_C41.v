(* Prop_C41.v — the property theorems of C41 and nothing else. *)
From Coq Require Import List NArith ZArith Bool Arith Permutation.
Import ListNotations.
From Verif Require Import Base.Val C41.Lts C41.Model_C41 C41.Spec_C41 C41.Proofs_C41.

(* invariant, every interleaving: processed ⊎ in-flight ⊎ queued ⊎ not-yet-put = items *)
Theorem conservation : forall c s, reachable c s ->
  Permutation (processed s ++ inflight (ws s) ++ qitems (q s) ++ unput c (pc s)) (items c).
Proof. exact conservation_proof. Qed.
Print Assumptions conservation.

(* every item is handed to the functor exactly once, whenever map_async returns — provided fewer
   items make the functor raise than there are workers, or there are no items *)
Theorem exactly_once : forall c s, reachable c s -> returned c s ->
  (ndie c (items c) < parallelism c \/ items c = []) ->
  Permutation (processed s) (items c).
Proof. exact exactly_once_proof. Qed.
Print Assumptions exactly_once.

Theorem results_complete : forall c s, reachable c s -> returned c s ->
  (ndie c (items c) < parallelism c \/ items c = []) ->
  match mode c with
  | Gen => Permutation (results s) (map RY (flat_map (ys_of c) (items c)))
  | RetList =>
      ndie c (items c) = 0 ->
      exists accs, Permutation (results s) (map RL accs) /\ length accs = parallelism c /\
                   Permutation (concat accs) (flat_map (ys_of c) (items c))
  | RetNone => results s = []
  end.
Proof. exact results_complete_proof. Qed.
Print Assumptions results_complete.

(* a strictly decreasing measure: no infinite run, runs are bounded, no reachable non-terminal
   state is stuck, and a terminal state is reached from every reachable state *)
Theorem always_terminates :
  (forall c s l s', step c s l s' -> measure c s' < measure c s) /\
  (forall c (f : nat -> state), ~ (forall n, exists l, step c (f n) l (f (S n)))) /\
  (forall c tr s, star state label (step c) (init c) tr s -> length tr <= measure c (init c)) /\
  (forall c s, reachable c s -> terminal s = false -> exists l s', step c s l s') /\
  (forall c s, reachable c s -> exists tr s', star state label (step c) s tr s' /\ terminal s' = true).
Proof. exact always_terminates_proof. Qed.
Print Assumptions always_terminates.

(* an event trace accepted by the executable [run] is a run of the LTS *)
Theorem trace_sound : forall c tr s,
  run state label (stepf c) (init c) tr = Some s -> reachable c s.
Proof. exact trace_sound_proof. Qed.
Print Assumptions trace_sound.

(* the precondition in source terms: at least one worker is created unless a sized iterable
   reports length 0 (threads <= 0 is raised to 1); a functor that never raises needs no more *)
Theorem parallelism_pos_iff : forall c,
  1 <= parallelism c <-> match len_hint c with Some n => 1 <= n | None => True end.
Proof. exact parallelism_pos_iff_proof. Qed.
Print Assumptions parallelism_pos_iff.

Theorem pool_adequate_simple : forall c,
  (forall x, fout c x <> Die) -> 1 <= parallelism c \/ items c = [] ->
  ndie c (items c) < parallelism c \/ items c = [].
Proof. exact pool_adequate_simple_proof. Qed.
Print Assumptions pool_adequate_simple.

(* never-raising functor, truthful len(): the statement holds for every thread count *)
Theorem exactly_once_never_raising : forall c s, reachable c s -> returned c s ->
  (forall x, fout c x <> Die) ->
  match len_hint c with Some n => n = length (items c) | None => True end ->
  Permutation (processed s) (items c).
Proof. exact exactly_once_never_raising_proof. Qed.
Print Assumptions exactly_once_never_raising.

(* without a worker nothing is processed (only a sized iterable reporting length 0 gets none);
   the statement without the precondition is false of the code when every worker dies *)
Theorem no_workers_nothing_processed : forall c s,
  parallelism c = 0 -> reachable c s -> processed s = [].
Proof. exact no_workers_proof. Qed.
Print Assumptions no_workers_nothing_processed.

Theorem exactly_once_full_refuted :
  ~ (forall c s, reachable c s -> returned c s -> Permutation (processed s) (items c)).
Proof. exact exactly_once_full_refuted_proof. Qed.
Print Assumptions exactly_once_full_refuted.

Theorem exactly_once_worker_death_refuted :
  exists c s, 1 <= parallelism c /\ reachable c s /\ returned c s /\ ~ Permutation (processed s) (items c).
Proof. exact exactly_once_worker_death_refuted_proof. Qed.
Print Assumptions exactly_once_worker_death_refuted.
