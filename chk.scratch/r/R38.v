From Coq Require Import List NArith ZArith Bool Lia.
Import ListNotations.
From Verif Require Import Base.Val C38.Model_C38 C38.Spec_C38 C38.Proofs_C38.
Local Open Scope N_scope.

(* ------------------------------------------------------------------ re-splitting a rewritten text *)
Definition term_ok (term rest : str) : Prop :=
  (exists c, term = [c] /\ is_lb c = true /\ (c =? CR) && hd_is LF rest = false) \/ term = [CR; LF].
(* [l] is a complete line in front of [rest] *)
Definition complete (l rest : str) : Prop :=
  exists b term, l = b ++ term /\ nolb b = true /\
                 ((term = [] /\ rest = [] /\ b <> []) \/ term_ok term rest).

Lemma ends_line_LF rest : ends_line LF rest = true.
Proof. reflexivity. Qed.

Lemma splitlines_nolb_term b c rest : nolb b = true -> is_lb c = true ->
  (c =? CR) && hd_is LF rest = false ->
  splitlines (b ++ c :: rest) = (b ++ [c]) :: splitlines rest.
Proof.
  intros Hb Hc Hn. induction b as [|d b IH]; cbn [app].
  - cbn [splitlines]. unfold ends_line. now rewrite Hc, Hn.
  - cbn in Hb. apply andb_true_iff in Hb as [Hd Hb]. apply negb_true_iff in Hd.
    cbn [splitlines]. unfold ends_line at 1. rewrite Hd. cbn [andb]. now rewrite IH.
Qed.
Lemma splitlines_nolb_crlf b rest : nolb b = true ->
  splitlines (b ++ CR :: LF :: rest) = (b ++ [CR; LF]) :: splitlines rest.
Proof.
  intros Hb. induction b as [|d b IH]; cbn [app].
  - cbn [splitlines]. rewrite ends_line_LF. reflexivity.
  - cbn in Hb. apply andb_true_iff in Hb as [Hd Hb]. apply negb_true_iff in Hd.
    specialize (IH Hb). cbn [splitlines]. unfold ends_line at 1. rewrite Hd. cbn [andb]. now rewrite IH.
Qed.

Lemma splitlines_complete l rest : complete l rest -> splitlines (l ++ rest) = l :: splitlines rest.
Proof.
  intros (b & term & -> & Hb & [(-> & -> & Hn)|[(c & -> & Hc & Hn)| ->]]).
  - rewrite !app_nil_r. now apply splitlines_nolb_last.
  - rewrite <- app_assoc. cbn [app]. now apply splitlines_nolb_term.
  - rewrite <- app_assoc. cbn [app]. now apply splitlines_nolb_crlf.
Qed.

Lemma splitlines_nil t : splitlines t = [] -> t = [].
Proof. intros H. rewrite <- (concat_splitlines t), H. reflexivity. Qed.

Lemma splitlines_cons_complete t l ls : splitlines t = l :: ls -> complete l (concat ls).
Proof.
  revert l ls; induction t as [|c t IH]; intros l ls; [discriminate|]. cbn [splitlines].
  destruct (ends_line c t) eqn:E.
  - intros [= <- <-]. rewrite concat_splitlines. exists [], [c]. split; [reflexivity|]. split; [reflexivity|].
    right. left. exists c. unfold ends_line in E. apply andb_true_iff in E as [E1 E2].
    apply negb_true_iff in E2. auto.
  - destruct (is_lb c) eqn:Elb.
    + unfold ends_line in E. rewrite Elb in E. cbn in E. apply negb_false_iff in E.
      apply andb_true_iff in E as [E1 E2]. apply N.eqb_eq in E1; subst c.
      destruct t as [|d t]; [discriminate|]. cbn in E2. apply N.eqb_eq in E2; subst d.
      cbn [splitlines]. rewrite ends_line_LF. intros [= <- <-].
      exists [], [CR; LF]. split; [reflexivity|]. split; [reflexivity|]. right. right. reflexivity.
    + destruct (splitlines t) as [|l0 r] eqn:Es.
      * intros [= <- <-]. apply splitlines_nil in Es. subst t. exists [c], []. split; [reflexivity|].
        split; [cbn; now rewrite Elb|]. left. repeat split. discriminate.
      * intros [= <- <-]. destruct (IH _ _ eq_refl) as (b & term & -> & Hb & Ht).
        exists (c :: b), term. split; [reflexivity|]. split; [cbn; now rewrite Elb|].
        destruct Ht as [(-> & Hr & Hn)|Ht]; [left; repeat split; auto; discriminate|right; exact Ht].
Qed.

Inductive lines_ok : list str -> Prop :=
| lo_nil : lines_ok []
| lo_cons l ls : complete l (concat ls) -> lines_ok ls -> lines_ok (l :: ls).

Lemma splitlines_lines_ok ls : forall t, splitlines t = ls -> lines_ok ls.
Proof.
  induction ls as [|l ls IH]; intros t H; [constructor|].
  pose proof (splitlines_cons_complete _ _ _ H) as Hc. constructor; [exact Hc|].
  apply (IH (concat ls)). pose proof (splitlines_complete _ _ Hc) as Hs.
  assert (Ht : l ++ concat ls = t) by (rewrite <- (concat_splitlines t), H; reflexivity).
  rewrite Ht, H in Hs. now injection Hs as <-.
Qed.
Lemma lines_ok_splitlines ls : lines_ok ls -> splitlines (concat ls) = ls.
Proof. induction 1 as [|l ls Hc _ IH]; [reflexivity|]. cbn [concat]. rewrite splitlines_complete by exact Hc. now rewrite IH. Qed.

Lemma complete_nonempty l rest : complete l rest -> l <> [].
Proof.
  intros (b & term & -> & _ & [(-> & _ & Hn)|[(c & -> & _)| ->]]).
  - now rewrite app_nil_r.
  - destruct b; discriminate.
  - destruct b; discriminate.
Qed.
Lemma complete_rest l rest rest' : complete l rest ->
  (rest = [] <-> rest' = []) -> hd_is LF rest = hd_is LF rest' -> complete l rest'.
Proof.
  intros (b & term & -> & Hb & H) Hn Hh. exists b, term. split; [reflexivity|]. split; [exact Hb|].
  destruct H as [(-> & Hr & Hbn)|[(c & -> & Hc & Hx)| ->]].
  - left. repeat split; auto. now apply Hn.
  - right. left. exists c. rewrite <- Hh. auto.
  - right. right. reflexivity.
Qed.

(* l' may stand wherever l stands *)
Definition sim (l l' : str) : Prop :=
  hd_is LF l' = hd_is LF l /\ (l <> [] -> l' <> []) /\ (forall rest, complete l rest -> complete l' rest).
Lemma sim_refl l : sim l l.
Proof. unfold sim; auto. Qed.

Lemma hd_is_app c a b : a <> [] -> hd_is c (a ++ b) = hd_is c a.
Proof. destruct a; [congruence|reflexivity]. Qed.

Lemma lines_ok_sim ls ls' : lines_ok ls -> Forall2 sim ls ls' ->
  lines_ok ls' /\ (concat ls = [] <-> concat ls' = []) /\ hd_is LF (concat ls) = hd_is LF (concat ls').
Proof.
  intros H F. revert H. induction F as [|l l' ls ls' Hs F IH]; intros H.
  - split; [constructor|]. split; [tauto|reflexivity].
  - inversion H as [|? ? Hc Hl]; subst. destruct (IH Hl) as (Hok & Hn & Hh).
    destruct Hs as (Hhd & Hne & Hcomp). pose proof (complete_nonempty _ _ Hc) as Hln.
    pose proof (Hne Hln) as Hl'n.
    split; [|split].
    + constructor; [|exact Hok]. apply (complete_rest _ (concat ls)); auto.
    + cbn [concat]. split; intros E; apply app_eq_nil in E as [E _]; congruence.
    + cbn [concat]. rewrite !hd_is_app by assumption. now symmetry.
Qed.

(* ---- facts about a parsed line *)
Lemma parse_line_shape aof t n line e :
  In line (splitlines t) -> parse_line aof n line = Ok e ->
  line = raw e ++ eol e /\ nocrlf (raw e) = true /\ all_crlf (eol e) = true.
Proof.
  intros Hin Hp. destruct (in_splitlines_raw_eol _ _ Hin) as (r & el & -> & Hr & Hel).
  unfold parse_line in Hp. rewrite rstrip_crlf_app, skipn_app_exact in Hp by assumption.
  destruct (split_comment r) as [[pre sep] cmt]. destruct (tokens pre) as [|t0 ks0].
  - injection Hp as <-. cbn. auto.
  - destruct (aof t0); [|discriminate]. injection Hp as <-. cbn. auto.
Qed.

Lemma ends_ws_all_ws w : all_ws w = true -> ends_ws true w = true.
Proof.
  assert (G : forall b, b = true -> all_ws w = true -> ends_ws b w = true).
  { induction w as [|c w IH]; intros b Hb H; [exact Hb|]. cbn in H. apply andb_true_iff in H as [Hc Hw].
    cbn. apply IH; assumption. }
  intros H. now apply G.
Qed.

(* tokens of a comment-free string are well formed *)
Lemma tokens_wf_len n : forall s, (length s <= n)%nat -> nohash_after true s = true -> Forall wf_tok (tokens s).
Proof.
  induction n as [|n IH]; intros s Hl Hn.
  - destruct s; [constructor|cbn in Hl; lia].
  - destruct (span isspace s) as [w0 r0] eqn:E0. destruct (span notspace r0) as [t0 r1] eqn:E1.
    destruct (tokens_decomp _ _ _ _ _ E0 E1) as (Hs & Hw0 & Ht0 & Hr1 & Htk & Hnil).
    rewrite Htk. destruct t0 as [|a t0]; [constructor|]. cbn [null].
    rewrite Hs, nohash_app in Hn. apply andb_true_iff in Hn as [_ Hn].
    rewrite ends_ws_all_ws in Hn by exact Hw0. rewrite nohash_app in Hn. apply andb_true_iff in Hn as [Hta Hr].
    constructor.
    + unfold wf_tok, wf_tokb. cbn [null negb andb]. fold (all_nws (a :: t0)). rewrite Ht0. cbn [andb].
      apply nohash_true_hd in Hta. now rewrite Hta.
    + destruct r1 as [|c r1]; [constructor|]. rewrite tokens_ws_cons by exact Hr1.
      apply IH.
      * rewrite Hs in Hl. rewrite !app_length in Hl. cbn in Hl. lia.
      * cbn in Hr. apply andb_true_iff in Hr as [_ Hr]. now rewrite Hr1 in Hr.
Qed.
Lemma tokens_wf s : nohash_after true s = true -> Forall wf_tok (tokens s).
Proof. apply (tokens_wf_len (length s)). lia. Qed.

Lemma parse_line_kws_wf aof n line e : parse_line aof n line = Ok e -> Forall wf_tok (keywords e).
Proof.
  unfold parse_line. destruct (split_comment (rstrip_crlf line)) as [[pre sep] cmt] eqn:Hsc.
  destruct (split_comment_spec _ _ _ _ Hsc) as (_ & Hpre & _). apply tokens_wf in Hpre.
  destruct (tokens pre) as [|t0 ks0].
  - intros [= <-]. constructor.
  - destruct (aof t0); [|discriminate]. intros [= <-]. cbn. now inversion Hpre.
Qed.

Definition wf_prev (prev : option (list str)) : Prop :=
  match prev with Some p => Forall wf_tok p | None => True end.
Lemma expansion_wf sug prev ks :
  Forall wf_tok sug -> wf_prev prev -> Forall wf_tok ks -> Forall wf_tok (expansion sug prev ks).
Proof.
  intros Hs Hp Hk. unfold expansion. induction Hk as [|k ks Hk Hks IH]; [constructor|].
  cbn [map concat]. apply Forall_app. split; [|exact IH].
  unfold subst_kw. destruct (str_eqb k ALL_KW).
  - destruct (null sug); [repeat constructor|exact Hs].
  - destruct (str_eqb k SAME_KW); [|now repeat constructor].
    destruct prev as [p|]; [exact Hp|constructor].
Qed.

(* ---- a rewritten line may stand where the original stood *)
Lemma app_last_split (a x b : str) c : x <> [] -> a ++ x = b ++ [c] -> exists s0, x = s0 ++ [c].
Proof.
  intros Hx H. destruct (exists_last Hx) as (s0 & d & ->). exists s0.
  rewrite app_assoc in H. apply app_inj_tail in H as [_ ->]. reflexivity.
Qed.
Lemma last_ws_snoc b c : last_ws (b ++ [c]) = isspace c.
Proof. unfold last_ws. rewrite rev_app_distr. reflexivity. Qed.
Lemma tokens_nonnil_nonempty s : tokens s <> [] -> s <> [].
Proof. destruct s; [cbn; congruence|discriminate]. Qed.

Lemma rewritten_sim aof t n line e pfx mid sfx ks :
  In line (splitlines t) -> parse_line aof n line = Ok e ->
  kw_region e pfx mid sfx -> keywords e <> [] -> Forall wf_tok ks ->
  sim line (pfx ++ join [SP] ks ++ sfx ++ eol e).
Proof.
  intros Hin Hp Hreg Hne Hks.
  destruct (parse_line_shape _ _ _ _ _ Hin Hp) as (Hl & Hr & Hel).
  destruct Hreg as [Hraw (spec & Hpfx) _ Hmid Htight _].
  assert (Hpn : pfx <> []) by (apply tokens_nonnil_nonempty; rewrite Hpfx; discriminate).
  assert (Hmn : mid <> []) by (apply tokens_nonnil_nonempty; now rewrite Hmid).
  assert (Hml : last_ws mid = false).
  { unfold tightb in Htight. apply andb_true_iff in Htight as [_ H]. now apply negb_true_iff in H. }
  assert (HL : line = pfx ++ mid ++ sfx ++ eol e) by (rewrite Hl, Hraw; now rewrite <- !app_assoc).
  unfold sim. split; [|split].
  - rewrite HL. now rewrite !hd_is_app by assumption.
  - intros _. destruct pfx; [congruence|discriminate].
  - intros rest (b & term & Hb & Hnb & Ht).
    (* the terminator lies inside sfx ++ eol *)
    assert (Hs0 : exists s0, sfx ++ eol e = s0 ++ term).
    { destruct Ht as [(-> & _)|[(c & -> & Hc & _)| ->]].
      - exists (sfx ++ eol e). now rewrite app_nil_r.
      - remember (sfx ++ eol e) as xx eqn:Ex. destruct xx as [|x xs].
        + exfalso. rewrite HL, app_nil_r in Hb.
          assert (last_ws (pfx ++ mid) = last_ws (b ++ [c])) by now rewrite Hb.
          rewrite last_ws_app, last_ws_snoc, Hml in H by exact Hmn. apply lb_isspace in Hc. congruence.
        + apply (app_last_split (pfx ++ mid) (x :: xs) b c); [discriminate|].
          rewrite <- Hb, HL. now rewrite <- !app_assoc.
      - exists sfx. f_equal.
        assert (E1 : rstrip_crlf line = raw e) by (rewrite Hl; now apply rstrip_crlf_app).
        assert (E2 : rstrip_crlf line = b) by (rewrite Hb; apply rstrip_crlf_app; [now apply nolb_nocrlf|reflexivity]).
        rewrite Hl, <- E1, E2 in Hb. now apply app_inv_head in Hb. }
    destruct Hs0 as (s0 & Hs0).
    assert (Hbe : b = pfx ++ mid ++ s0).
    { apply (app_inv_tail term). rewrite <- Hb, HL, <- !app_assoc. now rewrite <- Hs0. }
    exists (pfx ++ join [SP] ks ++ s0), term. split; [rewrite <- !app_assoc; now rewrite <- Hs0|]. split.
    + rewrite Hbe in Hnb. unfold nolb in *. rewrite !forallb_app' in *.
      apply andb_true_iff in Hnb as [H1 H2]. apply andb_true_iff in H2 as [_ H2].
      rewrite H1, H2. fold (nolb (join [SP] ks)). now rewrite nolb_join.
    + destruct Ht as [(-> & Hr0 & _)|Ht]; [|right; exact Ht].
      left. repeat split; auto. destruct pfx; [congruence|discriminate].
Qed.

Definition line_of (e : entry) : str := raw e ++ eol e.

Lemma expand_entries_reparse aof t suggest :
  (forall p, Forall wf_tok (suggest p)) ->
  forall ls n es prev es' ch,
    (forall l, In l ls -> In l (splitlines t)) ->
    parse_lines aof n ls = Ok es -> wf_prev prev ->
    expand_entries suggest prev es = Ok (es', ch) ->
    parse_lines aof n (map line_of es') = Ok es' /\ Forall2 sim ls (map line_of es').
Proof.
  intros Hsug. induction ls as [|l ls IH]; intros n es prev es' ch Hin Hp Hprev He.
  - cbn in Hp. injection Hp as <-. cbn in He. injection He as <- <-. split; [reflexivity|constructor].
  - cbn [parse_lines] in Hp. destruct (parse_line aof n l) as [e|] eqn:El; [|discriminate].
    destruct (parse_lines aof (n + 1) ls) as [es0|] eqn:Els; [|discriminate]. injection Hp as <-.
    assert (Hinl : In l (splitlines t)) by (apply Hin; now left).
    assert (Hin' : forall x, In x ls -> In x (splitlines t)) by (intros x Hx; apply Hin; now right).
    destruct (parse_line_raw_eol aof n l e El) as [Hle _].
    cbn [expand_entries] in He. destruct (pkg e) as [p|] eqn:Ep.
    + rewrite multi_kw_eq, sentinel_meaning_proof in He.
      destruct (refused prev (keywords e)); [discriminate|].
      set (ks := expansion (suggest p) prev (keywords e)) in *.
      assert (Hks : Forall wf_tok ks).
      { apply expansion_wf; auto. eapply parse_line_kws_wf; eauto. }
      destruct (expand_entries suggest (Some ks) es0) as [[es1 ch1]|] eqn:E; [|discriminate].
      injection He as <- <-. destruct (IH _ _ (Some ks) _ _ Hin' Els Hks E) as (Hpl & Hsim).
      destruct (kws_eqb ks (keywords e)) eqn:Eq.
      * cbn [map parse_lines]. unfold line_of at 1. rewrite Hle, El, Hpl. split; [reflexivity|].
        constructor; [|exact Hsim]. unfold line_of. rewrite Hle. apply sim_refl.
      * destruct (with_keywords_local_proof aof t n l e ks Hinl El) as [_ Hw].
        destruct Hw as (pfx & mid & sfx & Hreg & Hwk & Hre); [congruence|].
        assert (Hne : keywords e <> []).
        { intros H0. unfold ks in Eq. rewrite H0 in Eq. cbn in Eq. discriminate. }
        cbn [map parse_lines]. unfold line_of at 1. rewrite (Hre Hks), Hpl. split; [reflexivity|].
        constructor; [|exact Hsim]. unfold line_of. rewrite Hwk. unfold rewritten. cbn [raw eol].
        unfold glue. destruct (keywords e) as [|k0 kr] eqn:Ek; [congruence|]. cbn [null andb app].
        rewrite <- !app_assoc. rewrite <- Ek in Hne. eapply rewritten_sim; eauto.
    + destruct (expand_entries suggest prev es0) as [[es1 ch1]|] eqn:E; [|discriminate].
      injection He as <- <-. destruct (IH _ _ _ _ _ Hin' Els Hprev E) as (Hpl & Hsim).
      cbn [map parse_lines]. unfold line_of at 1. rewrite Hle, El, Hpl. split; [reflexivity|].
      constructor; [|exact Hsim]. unfold line_of. rewrite Hle. apply sim_refl.
Qed.

Theorem expand_reparse_proof (aof : str -> option str) suggest t t' :
  (forall p, Forall wf_tok (suggest p)) ->
  expand_text aof suggest t = Ok t' ->
  exists es es', parse aof t = Ok es /\ parse aof t' = Ok es' /\
                 Forall2 line_frame es es' /\ map keywords es' = expected_kws suggest None es.
Proof.
  intros Hsug. unfold expand_text. destruct (parse aof t) as [es|] eqn:Ep; [|discriminate].
  destruct (expand_entries suggest None es) as [[es' ch]|] eqn:Ee; [|discriminate].
  intros [= <-]. exists es, es'.
  destruct (expand_entries_frame aof t suggest None es es' ch (parse_parsed _ _ _ Ep) Ee) as (F & Hch & Hk).
  split; [reflexivity|]. split; [|auto].
  destruct ch; [|now rewrite (Hch eq_refl)].
  destruct (expand_entries_reparse aof t suggest Hsug (splitlines t) 1 es None es' true
              (fun l H => H) Ep I Ee) as (Hpl & Hsim).
  pose proof (splitlines_lines_ok _ t eq_refl) as Hok.
  destruct (lines_ok_sim _ _ Hok Hsim) as (Hok' & _).
  unfold parse. replace (render es') with (concat (map line_of es')) by reflexivity.
  rewrite (lines_ok_splitlines _ Hok'). exact Hpl.
Qed.
