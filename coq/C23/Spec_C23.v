(* Spec_C23.v — the statement of C23, written from the property text, not from the triggers:
   "After the pre-merge stage, no entry to be merged is both setuid/setgid and world-writable,
    entries owned by the build user or group are re-owned to root, and these fixes never change
    an entry's type, location, target or data."
   The constants are the POSIX ones (S_ISUID|S_ISGID = 0o6000, S_IWOTH = 0o002, root = 0), not the
   masks the code uses (those come from the regenerated table and are related to these by proof). *)
From Coq Require Import List NArith ZArith Bool.
Import ListNotations.
From Verif Require Import Base.Val C23.Model_C23.
Local Open Scope N_scope.

Definition S_ISUGID : N := 3072.      (* 0o6000 *)
Definition S_IWOTH : N := 2.          (* 0o002 *)
Definition ROOT : N := 0.

(* a mode that is both set-id and world-writable *)
Definition mode_unsafe (m : N) : Prop := N.land m S_ISUGID <> 0 /\ N.land m S_IWOTH <> 0.
Definition mode_unsafeb (m : N) : bool :=
  negb (N.land m S_ISUGID =? 0) && negb (N.land m S_IWOTH =? 0).

(* ownership after re-owning: the build id becomes root, every other owner stays *)
Definition reown (build : N) (o : option N) : option N :=
  match o with
  | Some x => if x =? build then Some ROOT else Some x
  | None => None
  end.

(* the domain of the property: entries "with all mode bit combinations and owners" — every
   entry that is not a symlink has a mode *)
Definition well_formed (cs : list entry) : Prop :=
  forall e, In e cs -> is_sym e = false -> mode e <> None.
Definition well_formedb (cs : list entry) : bool :=
  forallb (fun e => is_sym e || match mode e with Some _ => true | None => false end) cs.

(* type, location, target, data (and every attribute other than mode/uid/gid) are the same *)
Definition same_identity (e e' : entry) : Prop :=
  kind e' = kind e /\ loc e' = loc e /\ target e' = target e /\ data e' = data e /\ rest e' = rest e.

(* the mode of e' is the mode of e except possibly for set-id / world-write bits *)
Definition mode_differs_only_in (mask : N) (m m' : N) : Prop := N.ldiff m mask = N.ldiff m' mask.

(* ---- executable acceptor, evaluated on the IMPLEMENTATION's recorded result (comparison B) *)
Definition oN_eqb (a b : option N) : bool :=
  match a, b with
  | Some x, Some y => x =? y
  | None, None => true
  | _, _ => false
  end.

Definition dec_N (v : val) : option N :=
  match v with VZ z => if (z <? 0)%Z then None else Some (Z.to_N z) | _ => None end.
(* optional attribute: VNone -> Some None; VZ n -> Some (Some n); anything else -> None *)
Definition dec_o (v : val) : option (option N) :=
  match v with
  | VNone => Some None
  | _ => match dec_N v with Some n => Some (Some n) | None => None end
  end.
Definition dec_entry (v : val) : option entry :=
  match v with
  | VL [k; l; m; u; g; t; d; r] =>
      match dec_N k, dec_N l, dec_o m, dec_o u, dec_o g, dec_o t, dec_o d, dec_N r with
      | Some k', Some l', Some m', Some u', Some g', Some t', Some d', Some r' =>
          Some (mkE k' l' m' u' g' t' d' r')
      | _, _, _, _, _, _, _, _ => None
      end
  | _ => None
  end.
Fixpoint dec_entries (l : list val) : option (list entry) :=
  match l with
  | [] => Some []
  | v :: l' => match dec_entry v, dec_entries l' with
               | Some e, Some es => Some (e :: es)
               | _, _ => None
               end
  end.

Definition entry_ok (wf : bool) (cfg : N * N) (e e' : entry) : bool :=
  (kind e' =? kind e) && (loc e' =? loc e) && oN_eqb (target e') (target e)
  && oN_eqb (data e') (data e) && (rest e' =? rest e)
  && oN_eqb (uid e') (reown (fst cfg) (uid e)) && oN_eqb (gid e') (reown (snd cfg) (gid e))
  && (if is_sym e then oN_eqb (mode e') (mode e)
      else match mode e, mode e' with
           | Some m, Some m' =>
               (negb wf || negb (mode_unsafeb m'))
               && (N.ldiff m (N.lor S_ISUGID S_IWOTH) =? N.ldiff m' (N.lor S_ISUGID S_IWOTH))
               && (mode_unsafeb m || (m' =? m))
           | None, None => true
           | _, _ => false
           end).

Fixpoint entries_ok (wf : bool) (cfg : N * N) (a b : list entry) : bool :=
  match a, b with
  | [], [] => true
  | e :: a', e' :: b' => entry_ok wf cfg e e' && entries_ok wf cfg a' b'
  | _, _ => false
  end.

(* true = the recorded content set after pre_merge is acceptable to the property *)
Definition spec_pre_ok (i : N * (N * N) * list entry) (res : val) : bool :=
  let '(_, cfg, cs) := i in
  match res with
  | VL [VL es; _] =>
      match dec_entries es with
      | Some out => entries_ok (well_formedb cs) cfg cs out
      | None => false
      end
  | _ => false
  end.
