import sys, collections
sys.path.insert(0, "/verif")
from harness.common import Check, Err
from harness import c34
chk = Check("C34")
import random
chk.rng = random.Random(int(sys.argv[1]) if len(sys.argv) > 1 else 0)
n = int(sys.argv[2]) if len(sys.argv) > 2 else 300
cases = c34.build_cases(chk, n, 2, float(sys.argv[3]) if len(sys.argv)>3 else 0.0)
print("cases", len(cases))
bad = []
for c in cases:
    c34.pick_filters(chk.rng, c)
    c.data = "".join(t for _,_,t in c.chunks)
    c.impl = c34.run_impl(c.data, c.vars, c.funcs, c.vwl, c.fwl)
b2 = c34.bash_oracle(chk, cases)
fc = collections.Counter(); ft = collections.Counter()
for i,c in enumerate(cases):
    t = c.impl != c34.expected_text(c)
    for f in c.feat: ft[f]+=1
    if t or i in b2:
        bad.append(i)
        for f in c.feat: fc[f]+=1
print("bad", len(bad), "b2", len(b2))
for f in sorted(ft): print(f, ft[f], fc[f])
import json
json.dump([{"data":cases[i].data,"vars":cases[i].vars,"funcs":cases[i].funcs,"vwl":cases[i].vwl,"fwl":cases[i].fwl,"impl":repr(cases[i].impl),"exp":c34.expected_text(cases[i]),"b2":b2.get(i)} for i in bad], open("/verif/chk.scratch/c34/bad.json","w"), indent=1)
import shutil; shutil.rmtree(chk.scratch, ignore_errors=True)
