(* Prop_C42.v — the property theorems of C42 and nothing else. *)
From Coq Require Import List NArith ZArith Bool Sorting.Sorted Sorting.Permutation.
Import ListNotations.
From Verif Require Import Base.Val C42.Model_C42 C42.Spec_C42 C42.Proofs_C42.

(* the commands reported for a name are the sequential reading of the update lines, taken in
   file order — for ALL directories: chains, cycles, reused names, redundant and malformed lines *)
Theorem updates_is_chain : forall eapi8 files k,
  exists ordered, is_file_order eapi8 files ordered /\
    read_updates eapi8 files k = chain_spec k (map parse_line (concat (map snd ordered))).
Proof. exact updates_is_chain_proof. Qed.
Print Assumptions updates_is_chain.

(* the core, on parsed lines: flattening the aliased deques = following one package sequentially *)
Theorem flatten_is_chain : forall ops k, result (run ops) k = chain_spec k ops.
Proof. exact updates_is_chain_ops. Qed.
Print Assumptions flatten_is_chain.

(* file order is determined by the names, not by how the directory lists them *)
Theorem file_order_independent : forall eapi8 files files',
  Permutation files files' ->
  (forall a b, In a (keyed eapi8 files) -> In b (keyed eapi8 files) -> fst a = fst b -> a = b) ->
  scan eapi8 files = scan eapi8 files'.
Proof. exact file_order_independent_proof. Qed.
Print Assumptions file_order_independent.

(* commands recorded for a name after it became a move target are included *)
Theorem target_history_included : forall ops1 ops2 k,
  result (run (ops1 ++ ops2)) k = result (run ops1) k ++ result (run ops2) (current_name k ops1).
Proof. exact target_history_included_proof. Qed.
Print Assumptions target_history_included.

(* redundant lines: a name in the `moved` table is carried by no package, and a line about it is ignored *)
Theorem moved_means_unused : forall ops x,
  In x (moved (run ops)) -> forall k, current_name k ops <> x.
Proof. exact moved_means_unused_proof. Qed.
Print Assumptions moved_means_unused.

Theorem redundant_ignored : forall ops o rest src k,
  op_src o = Some src -> In src (moved (run ops)) ->
  result (run (ops ++ o :: rest)) k = result (run (ops ++ rest)) k.
Proof. exact redundant_ignored_proof. Qed.
Print Assumptions redundant_ignored.

(* malformed lines are skipped *)
Theorem malformed_skipped : forall ops1 ops2 k,
  result (run (ops1 ++ OSkip :: ops2)) k = result (run (ops1 ++ ops2)) k.
Proof. exact malformed_skipped_proof. Qed.
Print Assumptions malformed_skipped.
