(* Prop_C49.v — the property theorems of C49 and nothing else. *)
From Coq Require Import List NArith ZArith Bool.
Import ListNotations.
From Verif Require Import Base.Val gen.Tables_C49 C49.Model_C49 C49.Spec_C49 C49.Proofs_C49.

(* IUSE, REQUIRED_USE, *DEPEND (and PROPERTIES/RESTRICT from EAPI 8) = the ebuild's own value
   followed by the value of every sourcing in the inherit tree, for ALL programs and inherit
   trees in which no sourced eclass unsets the variable (the recorded known class) *)
Theorem accumulates_partial : forall eapi v p,
  (eapi <= 9)%N -> pms_accumulated eapi v = true -> known_class eapi v p = false ->
  final_value eapi v p = spec_accumulated eapi v p.
Proof. exact accumulates_proof. Qed.
Print Assumptions accumulates_partial.

(* ... and without that restriction the statement is false of the faithful model *)
Theorem accumulates_refuted : ~ (forall eapi v p,
  (eapi <= 9)%N -> pms_accumulated eapi v = true -> final_value eapi v p = spec_accumulated eapi v p).
Proof. exact accumulates_refuted_proof. Qed.
Print Assumptions accumulates_refuted.

(* every other key takes the final value of the whole execution (no restriction) *)
Theorem others_final : forall eapi v p,
  (eapi <= 9)%N -> pms_accumulated eapi v = false -> final_value eapi v p = spec_final v p.
Proof. exact others_final_proof. Qed.
Print Assumptions others_final.

(* the emitted metadata mapping as a whole *)
Theorem metadata_spec : forall eapi p,
  (eapi <= 9)%N ->
  (forall v, In v (metadata_keys eapi) -> pms_accumulated eapi v = true -> known_class eapi v p = false) ->
  metadata eapi p =
  filter (fun kv => negb (is_nil (snd kv))) (map (fun v => (v, spec_value eapi v p)) (metadata_keys eapi)).
Proof. exact metadata_spec_proof. Qed.
Print Assumptions metadata_spec.

(* INHERITED (pkg.inherited) names every eclass sourced, directly or indirectly, once *)
Theorem inherited_all_sourced : forall p,
  NoDup (inherited p) /\ forall n, In n (inherited p) <-> sourced n p.
Proof. exact inherited_all_sourced_proof. Qed.
Print Assumptions inherited_all_sourced.

(* DEFINED_PHASES lists exactly the phases whose function the ebuild or a sourced eclass defines, '-' when none *)
Theorem defined_phases_exact : forall eapi p,
  (forall s, In s (defined_phases eapi p) <-> exists f, In (s, f) (phases eapi) /\ defines f p)
  /\ (defined_phases eapi p = [] -> defined_phases_key eapi p = [dash])
  /\ (defined_phases eapi p <> [] -> defined_phases_key eapi p = defined_phases eapi p).
Proof. exact defined_phases_exact_proof. Qed.
Print Assumptions defined_phases_exact.
