From Coq Require Import List NArith ZArith Bool.
From Verif Require Import Base.Val C46.Model_C46 C46.Spec_C46.
Import ListNotations.

Definition cases : list ((input) * val) := 
[
  (mki [TInst; TPretend; TMod [49;48;121]%N; TTarget 1%N; TExists] [mkf 2 315446400 1; mkf 9 315446400 1500; mkf 1 315356400 3; mkf 4 315273600 1500; mkf 6 315446400 1; mkf 3 315360600 70000; mkf 7 315446400 70000; mkf 5 259200 0] [mkp [4;3]%N true [1]%N; mkp [6;5]%N false []; mkp [8]%N false []; mkp [2;7]%N true []] (@nil (list N)) [3;4;5;6;7]%N true,
   res VNone [1;2;3;4;5;6;7;9]%N []);
  (mki [TInst; TFetch; TExcl [1]%N; TMod [49;48;115]%N] [mkf 1 7210 70000; mkf 8 (-590) 3; mkf 7 7210 1; mkf 9 610 1; mkf 6 86410 70000; mkf 2 7210 3; mkf 10 610 3; mkf 3 7210 3; mkf 11 610 3] [mkp [6;5;8]%N false [1]%N; mkp [10]%N true []] [[7]%N; [4]%N] [9;10]%N true,
   res VNone [1;2;3;6;7;8;10;11]%N []);
  (mki [TInst; TMod [49;109;105;110]%N; TTarget 1%N; TTarget 2%N] [mkf 7 86460 1500; mkf 8 7260 1500; mkf 6 86460 3; mkf 2 (-540) 1; mkf 10 (-86340) 3; mkf 1 7260 70000; mkf 3 (-3540) 0; mkf 9 (-86340) 1; mkf 4 86460 70000] [mkp [8]%N false [2]%N; mkp [6]%N true [1]%N; mkp [5;4;10]%N false []; mkp [7]%N true []; mkp [9]%N true []] [[8]%N; [6]%N] [2;6;8]%N true,
   res VNone [1;2;3;4;6;7;8;9;10]%N []);
  (mki [TTarget 1%N; TTarget 1%N; TSize [49;75]%N; TMod [50;109;105;110]%N; TExcl []] [mkf 1 7320 24; mkf 7 720 1025; mkf 3 3600 1025; mkf 2 86520 24; mkf 4 0 1025; mkf 6 720 2024] [mkp [5]%N false [1]%N] [[3]%N; [2]%N] [] true,
   res VNone [1;2;3;4;6;7]%N []);
  (mki [TTarget 2%N; TTarget 1%N; TExcl [3]%N; TSize [53;75]%N] [mkf 4 259200 5119; mkf 7 3456000 5120; mkf 8 259200 4120; mkf 5 3456000 1; mkf 1 3456000 5119; mkf 2 34560000 4120; mkf 6 0 1; mkf 3 3600 5121] [mkp [2;1;4]%N true [2;3]%N; mkp [] false []; mkp [6;5]%N false []; mkp [4]%N false [3]%N] (@nil (list N)) [] true,
   res VNone [1;2;3;4;5;6;7;8]%N []);
  (mki [TTarget 1%N; TSize [49;48;48;66]%N] [mkf 11 3600 99; mkf 2 34560000 70000; mkf 15 34560000 0; mkf 6 34560000 100; mkf 5 0 101; mkf 14 3456000 1100; mkf 8 3456000 101; mkf 4 259200 101; mkf 10 259200 101; mkf 13 259200 101; mkf 9 34560000 99; mkf 7 0 101; mkf 12 3456000 99] [mkp [4;3]%N false []; mkp [7;6;9]%N false []; mkp [10]%N false []; mkp [13;11;1]%N false []; mkp [5]%N false []] [[5]%N] [] true,
   res VNone [2;4;5;6;7;8;9;10;11;12;13;14;15]%N []);
  (mki [TTarget 2%N; TExcl [1]%N; TMod [50;119]%N; TExists; TFetch] [mkf 5 3600 1; mkf 3 1216800 1; mkf 4 1123200 3; mkf 8 1206000 70000; mkf 2 259200 70000; mkf 1 1206000 1; mkf 7 0 3; mkf 9 1206000 0; mkf 6 1296000 3; mkf 10 1216800 0] [mkp [3;2;10]%N false [1]%N; mkp [4;10]%N false []] [[1;5]%N] [] false,
   res VNone [1;2;3;4;5;6;7;8;9;10]%N []);
  (mki [TExists; TPretend; TTarget 1%N; TTarget 1%N] [mkf 4 3600 1; mkf 1 34560000 3; mkf 6 0 70000; mkf 3 3456000 70000; mkf 2 34560000 1500; mkf 7 259200 1500; mkf 8 259200 3] [mkp [5;2;6]%N false [1]%N] (@nil (list N)) [2;6]%N true,
   res VNone [1;2;3;4;6;7;8]%N []);
  (mki [TMod [50;109]%N; TInst] [mkf 10 5184600 1500; mkf 8 5097600 0; mkf 5 5184600 1; mkf 9 5184600 1500; mkf 6 5191200 1; mkf 4 5180400 1500; mkf 3 5270400 70000; mkf 7 3600 70000] [mkp [1]%N true []; mkp [3;2]%N false []; mkp [7;6;9;5]%N true []] (@nil (list N)) [3;4;5;6;7;8;9;10]%N true,
   res VNone [4;7;8]%N []);
  (mki [TExcl [1]%N; TExcl [2]%N] [mkf 1 259200 0; mkf 11 3456000 3; mkf 2 3456000 0; mkf 9 34560000 70000; mkf 7 259200 70000; mkf 12 34560000 0; mkf 5 3600 1500; mkf 10 0 70000; mkf 8 34560000 1500; mkf 6 3456000 1500; mkf 3 0 3] [mkp [1]%N false []; mkp [] true []; mkp [10]%N false [1]%N; mkp [3;2;4]%N true []; mkp [8;5;6]%N false []] [[7]%N] [1;2;3;5;7;8;9;10]%N false,
   res VNone [1;2;3;5;6;7;8;9;10;11;12]%N [1;2;3;5;7;8;9;10]%N);
  (mki [TTarget 1%N; TTarget 2%N; TExists; TFetch; TMod [49;48;109;105;110]%N] [mkf 4 259200 0; mkf 5 0 70000; mkf 6 0 3; mkf 3 1200 3; mkf 2 1200 1500; mkf 1 7800 70000] [mkp [3]%N false [2]%N] [[3]%N] [3]%N true,
   res VNone [1;2;3;4;5;6]%N []);
  (mki [TTarget 1%N; TMod [52;53;109;105;110]%N; TExcl [1;1]%N; TSize [50;77]%N] [mkf 2 (-83700) 2097153; mkf 1 34560000 2096152; mkf 4 2100 2098152; mkf 3 (-83700) 2097153; mkf 5 9900 0] [mkp [1]%N false []; mkp [] false [1]%N] [[]; [3]%N] [] true,
   res VNone [1;2;3;4;5]%N []);
  (mki [TExcl [2]%N; TTarget 1%N] [mkf 9 3600 3; mkf 4 3456000 0; mkf 1 34560000 1; mkf 5 259200 70000; mkf 7 34560000 1; mkf 2 259200 1500; mkf 3 3600 0] [mkp [4;3;5]%N false []; mkp [7;10]%N false [1;2]%N] [[8]%N; [6]%N] [] true,
   res VNone [1;2;3;4;5;7;9]%N []);
  (mki [TExists; TSize [49;71]%N; TFetch] [mkf 3 259200 1073741823; mkf 2 0 1073741825; mkf 10 3456000 1073740824; mkf 11 3600 1073741825; mkf 13 259200 1073741823; mkf 7 3600 1; mkf 15 34560000 3; mkf 8 3456000 1073741823; mkf 9 3600 1073741825; mkf 12 34560000 1; mkf 5 3600 1073741824; mkf 1 259200 1073741824; mkf 14 259200 1073741823; mkf 6 34560000 1073740824; mkf 4 259200 1073741823] [mkp [4;2;6]%N true []; mkp [8]%N true []; mkp [9;5]%N false []; mkp [11;10;13]%N false []; mkp [12]%N false []] [[12]%N] [1;2;3;4;5;6;7;8;9;10;11;12;13;14;15]%N true,
   res VNone [1;2;4;5;6;8;9;10;11;12;13]%N []);
  (mki [TSize [49;48;48;75]%N; TMod [50;104]%N] [mkf 7 3456000 102401; mkf 6 14400 0; mkf 11 6600 70000; mkf 8 14400 102399; mkf 5 14400 102400; mkf 10 (-79200) 0; mkf 4 6600 102400; mkf 3 6600 102400; mkf 1 3600 102399; mkf 9 93600 101400] [mkp [5;2]%N false []; mkp [9;6]%N false []; mkp [] false []] (@nil (list N)) [1;3;4;5;6;7;8;9;10;11]%N true,
   res VNone [1;3;4;5;7;10;11]%N []);
  (mki [TSize [53;75]%N; TMod [51;104]%N; TTarget 2%N; TTarget 1%N; TPretend; TExists] [mkf 9 3600 0; mkf 8 18000 5119; mkf 4 11400 1; mkf 1 (-75600) 4120; mkf 3 7200 6120; mkf 5 11400 5121; mkf 6 3600 5119; mkf 2 10200 5119; mkf 10 (-75600) 5121] [mkp [5;4]%N false [1;2]%N; mkp [8;7;6]%N false [1]%N] [[1]%N; [5;4]%N] [3;4;5;6;8]%N false,
   res VNone [1;2;3;4;5;6;8;9;10]%N []);
  (mki [TExists] [mkf 1 3456000 0; mkf 11 34560000 1; mkf 9 3600 0; mkf 13 259200 70000; mkf 10 3456000 1500; mkf 7 0 1; mkf 3 259200 70000; mkf 6 3456000 0; mkf 14 3600 1500; mkf 5 259200 1500; mkf 12 259200 1; mkf 8 3600 1500; mkf 2 3600 1] [mkp [3;2]%N false []; mkp [6]%N false []; mkp [10;8]%N false []; mkp [12;11;14;7]%N true []] [[3]%N; [5;4]%N] [1;2;3;5;6;7;8;9;10;11;12;13;14]%N true,
   res VNone [2;3;6;7;8;10;11;12;14]%N []);
  (mki [TInst; TFetch; TMod [49;48;121]%N] [mkf 7 315359400 3; mkf 10 315273600 70000; mkf 6 315367200 1; mkf 4 34560000 1; mkf 11 34560000 3; mkf 12 315446400 1; mkf 9 315356400 1500; mkf 2 315446400 1; mkf 8 315367200 1; mkf 1 315367200 1500] [mkp [2]%N false []; mkp [5;4;7]%N true []; mkp [11;10]%N false []; mkp [3]%N false []] [[5]%N] [1;2;4;6;7;8;9;10;11;12]%N true,
   res VNone [2;4;7;9;10;11]%N []);
  (mki [TExcl []] [mkf 6 259200 3; mkf 3 259200 3; mkf 7 3456000 1; mkf 4 34560000 0; mkf 2 34560000 70000; mkf 5 34560000 70000; mkf 1 259200 3] [mkp [2]%N true []] [[2]%N] [1;2;3;4;5;6;7]%N true,
   res VNone [] []);
  (mki [TExcl [2;3]%N; TExcl [1]%N; TMod [49;48;115]%N; TTarget 2%N] [mkf 8 (-3590) 1; mkf 4 86410 1; mkf 2 (-86390) 70000; mkf 6 (-3590) 1; mkf 5 7210 1500; mkf 7 3600 1; mkf 1 (-590) 70000; mkf 9 (-590) 1] [mkp [4;2]%N true [2]%N; mkp [6]%N false []; mkp [8]%N false [3]%N] [[8]%N; [3]%N] [2;4;5;6;7]%N true,
   res VNone [1;2;6;8;9]%N []);
  (mki [TExcl [1]%N; TExists; TSize [50;66]%N; TFetch] [mkf 7 3600 70000; mkf 12 0 2; mkf 3 3456000 3; mkf 8 259200 1; mkf 1 34560000 3; mkf 9 34560000 1; mkf 10 3600 1500; mkf 5 3600 0; mkf 4 3600 1; mkf 13 34560000 3; mkf 11 3456000 1; mkf 6 3456000 1; mkf 2 3600 3] [mkp [5;2]%N false [1]%N; mkp [3;9]%N false [1]%N; mkp [4]%N false [1]%N; mkp [8]%N false []; mkp [12;13]%N false []] [[12;13]%N; [10;13]%N] [8;11;12;13]%N true,
   res VNone [1;2;3;4;5;6;7;8;9;10;12;13]%N []);
  (mki [TExcl [1;4]%N; TInst; TTarget 2%N; TTarget 3%N; TMod [52;53;104]%N] [mkf 8 3600 1; mkf 1 75600 1; mkf 5 248400 1; mkf 2 248400 1; mkf 6 162600 1500; mkf 3 169200 70000; mkf 4 75600 0; mkf 11 161400 1; mkf 9 248400 70000; mkf 10 162600 0] [mkp [4;5;3]%N true []; mkp [8;7]%N false []; mkp [9;6]%N false [2;4]%N] [[9;6]%N] [] true,
   res VNone [1;2;3;4;5;6;8;9;10;11]%N []);
  (mki [TExcl [2]%N; TMod [50;109;105;110]%N; TFetch; TSize [50;75]%N; TInst; TTarget 1%N] [mkf 2 7320 3048; mkf 5 720 2048; mkf 8 3600 2049; mkf 9 34560000 2047; mkf 7 7320 1500; mkf 1 34560000 2047; mkf 4 (-480) 2048; mkf 3 7320 2047] [mkp [4;6;7;1]%N true []; mkp [5]%N false [2]%N; mkp [8]%N false [2]%N] [[5]%N; [8]%N] [] true,
   res VNone [1;2;3;4;5;7;8;9]%N []);
  (mki [TExcl [1]%N; TExists; TMod [52;53;115]%N; TInst] [mkf 5 (-3555) 3; mkf 2 86445 70000; mkf 3 (-555) 0; mkf 1 645 1; mkf 6 7245 3; mkf 7 7245 1500; mkf 4 86445 1500; mkf 8 645 0] [mkp [3;4;8;1]%N false [1]%N] (@nil (list N)) [] false,
   res VNone [1;2;3;4;5;6;7;8]%N []);
  (mki [TInst; TSize [49;71]%N; TExists] [mkf 7 3456000 1073741823; mkf 2 3600 1; mkf 4 0 1073740824; mkf 5 3456000 1073740824; mkf 6 0 1073741823; mkf 3 259200 1073741825] [mkp [4;1]%N false []] [[4;1]%N; [3]%N] [2;3;4;5;6;7]%N true,
   res VNone [3;4]%N []);
  (mki [TExcl [1;1]%N; TMod [49;48;100]%N; TSize [49;75]%N] [mkf 5 864600 2024; mkf 8 3456000 1023; mkf 3 863400 24; mkf 6 777600 3; mkf 2 777600 2024; mkf 10 871200 1025; mkf 7 871200 1025; mkf 9 864600 24; mkf 1 871200 1023; mkf 4 3456000 1023] [mkp [7;6]%N false []; mkp [9]%N false []; mkp [10]%N false [1]%N] [[2;11]%N; [8]%N] [6;7;8;9;10]%N true,
   res VNone [1;2;3;4;5;6;7;10]%N []);
  (mki [TTarget 1%N; TPretend; TExcl [1]%N; TMod [50;119]%N] [mkf 3 1209000 0; mkf 6 1206000 70000; mkf 1 1123200 1; mkf 5 1206000 70000; mkf 9 259200 0; mkf 8 1209000 3; mkf 10 1206000 3; mkf 4 1216800 70000; mkf 2 1296000 0] [mkp [5;9]%N false [1]%N] [[7]%N] [] true,
   res VNone [1;2;3;4;5;6;8;9;10]%N []);
  (mki [TExcl [2]%N; TInst; TTarget 1%N; TFetch; TExists] [mkf 2 259200 1; mkf 4 3600 1500; mkf 10 34560000 0; mkf 12 3456000 70000; mkf 6 259200 3; mkf 8 3456000 3; mkf 13 3456000 1; mkf 7 0 0; mkf 5 34560000 1500; mkf 3 0 3; mkf 11 0 1500; mkf 1 0 0; mkf 14 34560000 70000; mkf 9 34560000 0] [mkp [3;14]%N true []; mkp [9;1]%N false [2]%N; mkp [11;8]%N false [1]%N; mkp [13;4]%N false []] [[12]%N; [10;14]%N] [8;10;11]%N true,
   res VNone [1;2;3;4;5;6;7;8;9;10;11;12;13;14]%N []);
  (mki [TInst; TTarget 1%N; TTarget 2%N; TExcl [3]%N] [mkf 8 3456000 3; mkf 2 3456000 1; mkf 5 3600 1500; mkf 7 3456000 70000; mkf 6 3456000 3; mkf 1 3456000 1; mkf 9 3456000 70000; mkf 4 0 1500; mkf 3 34560000 0] [mkp [4]%N false []; mkp [6;5]%N true [2]%N; mkp [3]%N false [3]%N] (@nil (list N)) [5;6;7;8]%N false,
   res VNone [1;2;3;4;5;6;7;8;9]%N [5;6;7;8]%N);
  (mki [TExists; TMod [49;109]%N; TInst] [mkf 5 259200 0; mkf 6 2592600 1500; mkf 4 2599200 1; mkf 3 2592600 1500; mkf 2 2588400 3; mkf 1 2588400 3] [mkp [5;4]%N true []] [[5;4]%N] [1;2;3;4;5;6]%N true,
   res VNone [1;2;4;5]%N []);
  (mki [TTarget 1%N; TExists; TInst; TExcl [2]%N] [mkf 5 3600 1500; mkf 7 3600 3; mkf 4 3456000 1; mkf 1 34560000 70000; mkf 6 3600 70000; mkf 2 3600 1; mkf 3 0 1500] [mkp [3;2]%N false [2]%N; mkp [4]%N true [1]%N; mkp [6;7]%N false []] [[5]%N] [4]%N true,
   res VNone [1;2;3;4;5;6;7]%N []);
  (mki [TExcl [1]%N; TSize [50;75]%N; TInst; TTarget 1%N; TExcl [2]%N; TExists] [mkf 5 259200 3; mkf 4 259200 2047; mkf 7 0 2049; mkf 11 3600 1048; mkf 12 34560000 2049; mkf 10 34560000 0; mkf 8 0 2047; mkf 6 34560000 2049; mkf 3 3456000 3048] [mkp [2]%N false []; mkp [9;5]%N false [1]%N; mkp [11;10;12;1]%N false [2]%N] [[8]%N; [4]%N] [5;7;8]%N true,
   res VNone [3;4;5;6;7;8;10;11;12]%N []);
  (mki [TTarget 1%N; TExcl []; TMod [49;48;104]%N] [mkf 4 3600 3; mkf 9 32400 1; mkf 6 35400 1; mkf 2 122400 3; mkf 8 36600 1; mkf 1 35400 3; mkf 5 259200 3; mkf 3 32400 70000; mkf 7 32400 1] [mkp [7;6;8]%N false []] [[2;9]%N; [7;6;8]%N] [] false,
   res VNone [1;2;3;4;5;6;7;8;9]%N []);
  (mki [TTarget 1%N; TMod [49;121]%N; TExists] [mkf 10 31622400 1500; mkf 2 31622400 70000; mkf 8 259200 1500; mkf 5 31622400 1; mkf 9 31532400 1500; mkf 3 31532400 70000; mkf 4 34560000 3; mkf 11 31535400 1500; mkf 7 31622400 3; mkf 1 31535400 3] [mkp [6;3;2]%N true []; mkp [7]%N false []; mkp [9;8;1]%N true [1]%N] [[9]%N] [1;8;9]%N true,
   res VNone [1;2;3;4;5;7;8;9;10;11]%N []);
  (mki [TFetch; TInst] [mkf 7 34560000 1500; mkf 2 259200 3; mkf 6 3600 1500; mkf 3 3456000 70000; mkf 4 259200 0; mkf 1 0 1; mkf 5 259200 3] [mkp [1;2]%N false []; mkp [4;3]%N false []] (@nil (list N)) [1;2;3;4;5;6;7]%N true,
   res VNone [1;2;3;4]%N []);
  (mki [TSize [53;77]%N; TExists; TExcl [1;2]%N] [mkf 11 34560000 70000; mkf 2 0 5242879; mkf 7 259200 5242881; mkf 4 3456000 5241880; mkf 10 34560000 5243880; mkf 9 34560000 1500; mkf 1 34560000 3; mkf 6 3456000 5243880] [mkp [5;9]%N false []; mkp [8]%N false [1]%N; mkp [3]%N false []] [[3]%N] [4;6;9]%N true,
   res VNone [1;2;6;7;9;10;11]%N []);
  (mki [TFetch; TSize [50;77]%N; TMod [50;109;105;110]%N; TExists; TExcl [2;1]%N; TExcl [1]%N; TTarget 1%N] [mkf 4 (-480) 2098152; mkf 6 7320 2097151; mkf 8 86520 2097153; mkf 3 720 2097151; mkf 5 (-3480) 2098152; mkf 11 7320 2097151; mkf 9 259200 2098152; mkf 10 (-3480) 2097151; mkf 1 720 2097152] [mkp [7;6;5]%N false [2]%N; mkp [8;5;2;1]%N false []; mkp [9;5]%N true [1]%N; mkp [10;5;3]%N false []] (@nil (list N)) [] true,
   res VNone [1;3;4;5;6;8;9;10;11]%N []);
  (mki [TTarget 1%N; TMod [51;119]%N; TExists] [mkf 7 1810800 3; mkf 1 1813800 3; mkf 3 1728000 3; mkf 6 1821600 70000; mkf 5 34560000 3; mkf 4 1900800 1; mkf 8 1815000 0] [mkp [2;1]%N false [1]%N] [[3]%N; [6]%N] [1]%N true,
   res VNone [1;3;4;5;6;7;8]%N []);
  (mki [TTarget 1%N; TInst; TExists] [mkf 5 34560000 3; mkf 3 34560000 1500; mkf 4 34560000 70000; mkf 2 3600 1500; mkf 1 0 3; mkf 8 0 70000; mkf 6 34560000 1500; mkf 7 0 1] [mkp [6;4]%N false []] [[6]%N; [3]%N] [] true,
   res VNone [1;2;3;4;5;6;7;8]%N []);
  (mki [TInst] [mkf 2 259200 0; mkf 8 259200 3; mkf 3 259200 0; mkf 7 259200 70000; mkf 6 34560000 0; mkf 5 259200 70000; mkf 1 3600 1500] [mkp [5;4]%N false []; mkp [] false []] [[3]%N; [5]%N; []] [1;2;3;5;6;7;8]%N false,
   res VNone [1;2;3;5;6;7;8]%N [1;2;6;7;8]%N);
  (mki [TExists; TFetch; TInst; TTarget 1%N] [mkf 2 259200 3; mkf 3 259200 1500; mkf 9 34560000 1; mkf 8 34560000 70000; mkf 5 259200 70000; mkf 4 259200 1500; mkf 6 3456000 0; mkf 10 34560000 1500] [mkp [3;5]%N false []; mkp [6;10]%N false []; mkp [8;7;10;4;1]%N false [1]%N] (@nil (list N)) [4;8;9;10]%N true,
   res VNone [2;3;4;5;6;8;10]%N []);
  (mki [TExists; TMod [50;121]%N; TFetch] [mkf 7 34560000 0; mkf 5 63158400 3; mkf 1 63158400 0; mkf 4 62985600 1; mkf 2 62985600 3; mkf 8 63158400 1] [mkp [3]%N false []; mkp [6;4;1]%N false []; mkp [8]%N false []; mkp [7;2]%N false []] (@nil (list N)) [1;2;4;5;7;8]%N true,
   res VNone [1;2;4;7;8]%N []);
  (mki [TExists; TTarget 1%N; TTarget 2%N; TInst] [mkf 5 0 1500; mkf 7 0 1; mkf 1 0 1; mkf 4 34560000 0; mkf 6 34560000 1500; mkf 3 3456000 1] [mkp [4]%N false [1]%N; mkp [6]%N false [2]%N; mkp [1;3]%N false []] [[2]%N; [1;3]%N] [4;5;6]%N false,
   res VNone [1;3;4;5;6;7]%N [5]%N);
  (mki [TFetch; TTarget 1%N; TMod [50;109;105;110]%N] [mkf 1 720 3; mkf 4 7320 1500; mkf 7 7320 1500; mkf 9 86520 3; mkf 10 (-3480) 1500; mkf 3 720 1; mkf 6 720 0; mkf 5 (-3480) 1] [mkp [1;10]%N false [1]%N; mkp [8;2]%N false []; mkp [9]%N false []] [[8;2]%N; [7;5]%N] [1;10]%N true,
   res VNone [1;3;4;5;6;7;9;10]%N []);
  (mki [TInst; TFetch; TMod [49;48;121]%N; TPretend] [mkf 4 259200 3; mkf 6 315273600 1500; mkf 10 315273600 1; mkf 3 315360600 3; mkf 7 315360600 0; mkf 11 315273600 1500; mkf 9 315273600 1500; mkf 1 315446400 70000; mkf 12 3600 3; mkf 5 315273600 1500; mkf 14 315367200 3; mkf 13 315367200 70000; mkf 15 315367200 1500] [mkp [2;14]%N false []; mkp [3;1]%N false []; mkp [6;5;7;10]%N false []; mkp [12;7;8]%N false []] (@nil (list N)) [1;3;4;5;6;7;9;10;11;12;13;14;15]%N true,
   res VNone [1;3;4;5;6;7;9;10;11;12;13;14;15]%N [13;15]%N);
  (mki [TExists; TTarget 1%N] [mkf 13 0 1500; mkf 3 3600 70000; mkf 1 259200 70000; mkf 2 34560000 70000; mkf 12 0 0; mkf 11 259200 1500; mkf 14 3600 0; mkf 8 259200 1; mkf 9 34560000 0; mkf 7 259200 1] [mkp [3;13]%N false []; mkp [5]%N false []; mkp [7;13;11;6]%N false []; mkp [8]%N false []; mkp [10]%N true [1]%N] [[2]%N; [10]%N; [4]%N] [11]%N true,
   res VNone [1;2;3;7;8;9;11;12;13;14]%N []);
  (mki [TExcl [2]%N; TInst; TTarget 1%N] [mkf 6 3456000 1500; mkf 1 0 3; mkf 4 3456000 70000; mkf 3 34560000 3; mkf 5 3456000 1; mkf 2 3600 3] [mkp [4]%N false [1;2]%N] [[4]%N] [] true,
   res VNone [1;2;3;4;5;6]%N []);
  (mki [TExcl [2]%N; TSize [49;77]%N; TExcl [1]%N] [mkf 9 34560000 1; mkf 3 3456000 1048575; mkf 12 3456000 1048577; mkf 13 34560000 1048575; mkf 10 34560000 1500; mkf 6 259200 1048575; mkf 7 259200 1049576; mkf 4 0 1049576; mkf 8 0 1048577; mkf 1 259200 1047576; mkf 2 34560000 1048576; mkf 5 3600 1048577] [mkp [7]%N false []; mkp [11]%N false []; mkp [12]%N false []; mkp [5;4]%N false []; mkp [9;2]%N false [1;2]%N] [[11]%N; [6]%N] [4;5;6;7;12]%N true,
   res VNone [1;2;3;4;5;7;8;9;10;12;13]%N []);
  (mki [TExcl [2;1]%N; TMod [49;119]%N; TExists; TFetch] [mkf 5 518400 0; mkf 4 605400 3; mkf 3 3456000 1500; mkf 6 691200 3; mkf 1 691200 70000; mkf 2 691200 1; mkf 7 691200 70000] [mkp [4]%N false [2]%N; mkp [2]%N true [1]%N; mkp [5;1]%N false []] [[5;1]%N] [1;5]%N true,
   res VNone [1;2;3;4;5;6;7]%N []);
  (mki [TMod [49;121]%N; TExcl [1;2]%N; TSize [49;71]%N; TFetch; TExists; TTarget 1%N] [mkf 8 31535400 1073741825; mkf 1 31536600 1073742824; mkf 9 31532400 1500; mkf 3 31622400 70000; mkf 10 31535400 1073741824; mkf 5 31532400 1500; mkf 2 31449600 1073741823; mkf 7 31536600 1073741824; mkf 4 34560000 1073741825] [mkp [] true [1]%N; mkp [4]%N false []; mkp [5;3]%N false []; mkp [8;10;6]%N false [2]%N] [[2]%N; []; [4]%N] [] true,
   res VNone [1;2;3;4;5;7;8;9;10]%N []);
  (mki [TExists; TExcl [1]%N; TInst; TExcl [1;2]%N; TMod [49;115]%N] [mkf 3 (-3599) 70000; mkf 4 601 1500; mkf 6 (-3599) 3; mkf 2 259200 3; mkf 1 601 1500; mkf 5 601 3] [mkp [3;2;6]%N false []; mkp [5]%N false [1;2]%N] (@nil (list N)) [2;3;6]%N true,
   res VNone [1;2;3;4;5;6]%N []);
  (mki [TExcl [2;1]%N; TTarget 3%N] [mkf 1 3600 70000; mkf 4 34560000 1; mkf 8 3600 0; mkf 5 34560000 70000; mkf 7 34560000 1; mkf 3 259200 1; mkf 9 259200 0; mkf 6 0 0; mkf 12 259200 3; mkf 2 259200 0; mkf 11 34560000 70000; mkf 10 34560000 1] [mkp [2]%N true []; mkp [6;5]%N false [2]%N; mkp [8;4]%N false [3]%N; mkp [12;1]%N false []] [[6;5]%N; [12;1]%N] [2;3;4;8;9;10;11]%N true,
   res VNone [1;5;6;7;12]%N []);
  (mki [TExcl [1;3]%N; TMod [50;109]%N; TFetch; TExcl [4]%N; TTarget 2%N; TExists; TSize [49;77]%N; TPretend] [mkf 1 5191200 1048577; mkf 8 259200 1049576; mkf 11 5270400 1048575; mkf 3 5270400 1049576; mkf 5 5191200 1048577; mkf 6 5184600 1048577; mkf 9 259200 1049576; mkf 4 5097600 1048575; mkf 10 5097600 1048575; mkf 7 5184600 1048577] [mkp [1]%N false [1;2]%N; mkp [2]%N false [3]%N; mkp [4;3]%N true []; mkp [7;6;10]%N false [4]%N; mkp [8]%N true []] (@nil (list N)) [1]%N true,
   res VNone [1;3;4;5;6;7;8;9;10;11]%N []);
  (mki [TTarget 1%N; TExcl [2]%N; TExcl [3]%N; TSize [49;48;48;77]%N; TFetch; TInst; TMod [50;119]%N] [mkf 2 3600 104857601; mkf 1 1209000 0; mkf 6 1210200 104857601; mkf 4 3600 70000; mkf 3 3456000 104857600; mkf 5 1296000 104858600] [mkp [4]%N false [1;3]%N] [[4]%N] [] true,
   res VNone [1;2;3;4;5;6]%N []);
  (mki [TExists; TTarget 1%N] [mkf 11 3456000 1; mkf 7 0 1500; mkf 9 3600 1; mkf 1 259200 70000; mkf 4 259200 1500; mkf 8 3456000 1500; mkf 10 3600 1500; mkf 5 259200 3] [mkp [4;3;6]%N false []; mkp [8]%N false []; mkp [10;12]%N false []; mkp [11;6;2]%N false [1]%N] (@nil (list N)) [11]%N true,
   res VNone [1;4;5;7;8;9;10;11]%N []);
  (mki [TExcl [2;1]%N; TSize [49;77]%N; TTarget 3%N; TTarget 1%N; TExists] [mkf 4 3456000 1048577; mkf 5 259200 70000; mkf 1 259200 1048577; mkf 2 259200 1049576; mkf 3 3456000 1048575] [mkp [3;2]%N false [1]%N] [[3]%N] [] true,
   res VNone [1;2;3;4;5]%N []);
  (mki [TTarget 1%N; TSize [53;66]%N] [mkf 7 34560000 70000; mkf 5 0 1005; mkf 3 3600 6; mkf 10 0 6; mkf 9 34560000 70000; mkf 11 259200 4; mkf 8 3456000 6; mkf 1 0 1005] [mkp [2]%N true [1]%N; mkp [4;11]%N true [1]%N; mkp [10;9]%N false [1]%N; mkp [6]%N false []] [[8;7]%N] [3;8;9;10;11]%N true,
   res VNone [1;3;5;7;8;9;10]%N []);
  (mki [TTarget 1%N; TInst; TSize [50;75]%N] [mkf 5 259200 1048; mkf 3 3600 2049; mkf 7 259200 2047; mkf 6 34560000 3; mkf 2 0 3048] [mkp [4]%N false [1]%N] [[4]%N; [1;7]%N; [5;7]%N] [3;5]%N true,
   res VNone [2;3;5;6;7]%N []);
  (mki [TInst; TTarget 1%N; TMod [49;121]%N] [mkf 10 31536600 1500; mkf 9 259200 0; mkf 8 31536600 3; mkf 11 31536600 3; mkf 6 0 0; mkf 3 31536600 1; mkf 5 34560000 3; mkf 2 0 1500; mkf 1 31622400 3; mkf 7 31536600 70000; mkf 4 0 70000] [mkp [2;1;9]%N false []; mkp [6;5]%N false []; mkp [8]%N false [1]%N] [[6;5]%N; [4]%N] [8]%N true,
   res VNone [1;2;3;4;5;6;7;9;10;11]%N []);
  (mki [TExcl [2;1]%N] [mkf 10 0 70000; mkf 11 3456000 1500; mkf 2 259200 3; mkf 3 3600 70000; mkf 8 34560000 70000; mkf 4 34560000 1500; mkf 6 3600 3] [mkp [2]%N false [1]%N; mkp [4;5;1]%N false []; mkp [7;5;10]%N false []; mkp [9;5;6]%N false []] [[7;5;10]%N; [4;5;1]%N; [8]%N] [4;8;10]%N true,
   res VNone [2;3;6;11]%N []);
  (mki [TFetch; TTarget 1%N; TExists; TMod [51;109;105;110]%N] [mkf 13 86580 0; mkf 1 (-3420) 1500; mkf 11 (-3420) 3; mkf 6 (-420) 70000; mkf 3 34560000 3; mkf 8 7380 1; mkf 5 (-3420) 0; mkf 4 780 1; mkf 9 (-3420) 3; mkf 12 (-86220) 1500; mkf 7 7380 1500; mkf 10 0 3] [mkp [4]%N false [1]%N; mkp [5]%N false [1]%N; mkp [7;14;2]%N false [1]%N; mkp [11;8;1]%N false [1]%N; mkp [9]%N false []] [[5]%N; [4]%N] [1;3;4;5;7;8;11]%N true,
   res VNone [1;4;5;6;7;8;9;10;11;12;13]%N []);
  (mki [TSize [49;48;48;77]%N] [mkf 4 3456000 104856600; mkf 1 3600 1; mkf 11 259200 104857599; mkf 7 259200 104858600; mkf 9 3456000 104857600; mkf 8 34560000 104857601; mkf 5 3600 104857601; mkf 2 34560000 3; mkf 6 3456000 104858600; mkf 10 3456000 104857599; mkf 3 0 104857601] [mkp [3]%N false []; mkp [8;11]%N true []; mkp [5;7]%N true []; mkp [6;4]%N false []; mkp [10;9]%N false []] [[2;11]%N; [3]%N] [1;2;3;4;5;6;7;8;9;10;11]%N true,
   res VNone [3;5;6;7;8;9]%N []);
  (mki [TExists; TInst] [mkf 12 3600 70000; mkf 10 34560000 3; mkf 6 259200 1; mkf 9 0 3; mkf 4 3600 1; mkf 7 259200 1; mkf 5 0 0; mkf 2 34560000 3; mkf 8 259200 3; mkf 11 0 1; mkf 1 0 1] [mkp [1;4]%N false []; mkp [3]%N false []; mkp [4;10]%N true []; mkp [7;6;12]%N true []; mkp [8]%N false []] (@nil (list N)) [1;2;4;5;6;7;8;9;10;11;12]%N true,
   res VNone [1;4;6;7;8;10;12]%N []);
  (mki [TExcl [1]%N; TMod [52;53;109;105;110]%N; TTarget 1%N; TSize [53;75]%N; TExcl [1]%N] [mkf 4 (-83700) 4120; mkf 1 89100 5121; mkf 10 (-900) 5120; mkf 6 259200 70000; mkf 8 3300 0; mkf 7 (-83700) 4120; mkf 3 (-900) 3; mkf 5 (-900) 5121; mkf 9 (-83700) 4120; mkf 2 34560000 5119] [mkp [6;5;1]%N false [1]%N; mkp [9;8]%N false []] [[3]%N] [] true,
   res VNone [1;2;3;4;5;6;7;8;9;10]%N []);
  (mki [TTarget 2%N; TTarget 1%N] [mkf 14 3600 0; mkf 15 3456000 1500; mkf 11 3456000 70000; mkf 10 0 70000; mkf 6 259200 3; mkf 13 34560000 3; mkf 8 0 70000; mkf 12 0 1; mkf 9 259200 1; mkf 4 259200 1500; mkf 1 259200 70000; mkf 3 259200 1; mkf 5 34560000 70000; mkf 2 34560000 0; mkf 7 34560000 70000] [mkp [2]%N false []; mkp [6]%N false []; mkp [8]%N true [1;2]%N; mkp [9]%N true []; mkp [13;12]%N false []] [[9]%N; [5]%N] [8;9;10;11]%N true,
   res VNone [1;2;3;4;5;6;7;12;13;14;15]%N []);
  (mki [TMod [51;119]%N; TFetch] [mkf 4 1900800 1; mkf 6 1900800 70000; mkf 3 1821600 1500; mkf 5 1810800 3; mkf 2 1900800 1500; mkf 1 0 3] [mkp [2]%N true []; mkp [3]%N false []] [[3]%N] [1;2;3;4;5;6]%N false,
   res VNone [1;2;3;4;5;6]%N [4;6]%N);
  (mki [TMod [49;115]%N; TTarget 1%N; TSize [49;48;48;75]%N] [mkf 1 86401 101400; mkf 6 (-3599) 102399; mkf 4 (-86399) 102401; mkf 2 34560000 70000; mkf 9 7201 102399; mkf 7 (-599) 1500; mkf 5 (-3599) 3; mkf 8 (-3599) 102399] [mkp [4;3;1]%N false []; mkp [5;2]%N false []; mkp [8;7;6]%N false []] [[8;7;6]%N; [4;3;1]%N] [] true,
   res VNone [1;2;4;5;6;7;8;9]%N []);
  (mki [TExists; TTarget 1%N] [mkf 3 0 3; mkf 2 34560000 1; mkf 8 0 1; mkf 6 0 70000; mkf 5 34560000 1; mkf 4 3600 1; mkf 1 0 70000; mkf 7 3600 0] [mkp [2]%N false []; mkp [6]%N true [1]%N] (@nil (list N)) [6]%N true,
   res VNone [1;2;3;4;5;6;7;8]%N []);
  (mki [TMod [50;104]%N; TTarget 1%N; TInst] [mkf 8 6600 70000; mkf 5 7800 3; mkf 9 3600 3; mkf 10 93600 1; mkf 1 (-79200) 70000; mkf 7 3600 1500; mkf 3 14400 0; mkf 2 3600 0; mkf 4 3600 70000; mkf 11 14400 1500] [mkp [3]%N true []; mkp [5]%N false []; mkp [6]%N false []; mkp [8;7;11]%N true []] (@nil (list N)) [] true,
   res VNone [1;2;3;4;5;7;8;9;10;11]%N []);
  (mki [TTarget 1%N; TExists; TFetch; TMod [52;53;121]%N] [mkf 1 1419116400 70000; mkf 2 1419127200 70000; mkf 6 1419116400 1; mkf 5 0 0; mkf 8 3456000 0; mkf 7 1419127200 0; mkf 4 1419127200 3] [mkp [2;1]%N false [1]%N] [[2;1]%N; [3]%N] [2]%N true,
   res VNone [1;2;4;5;6;7;8]%N []);
  (mki [TTarget 2%N; TSize [53;75]%N; TExcl [1]%N] [mkf 1 259200 4120; mkf 2 3456000 0; mkf 7 34560000 5119; mkf 3 3600 5120; mkf 5 0 5119; mkf 6 3600 5120] [mkp [2]%N false [1]%N] [[4]%N] [] true,
   res VNone [1;2;3;5;6;7]%N []);
  (mki [TMod [52;53;100]%N; TFetch; TInst; TSize [50;75]%N; TExists] [mkf 9 3888600 1500; mkf 2 3456000 2049; mkf 1 3888600 2047; mkf 3 0 1500; mkf 4 3884400 1048; mkf 5 3974400 2049; mkf 6 3888600 2048; mkf 7 3600 2047; mkf 8 259200 2047] [mkp [3;9]%N true []; mkp [4]%N false []; mkp [5;6]%N false []; mkp [8]%N false []; mkp [7]%N false []] (@nil (list N)) [1;2;3;4;5;6;7;8;9]%N true,
   res VNone [2;3;4;5;6;7;8;9]%N []);
  (mki [TPretend; TTarget 2%N; TFetch; TExcl [1;2]%N; TExcl []] [mkf 4 3600 3; mkf 5 34560000 70000; mkf 2 0 3; mkf 3 34560000 1500; mkf 1 34560000 3] [mkp [] false [1;2]%N] (@nil (list N)) [3]%N true,
   res VNone [1;2;3;4;5]%N [3]%N);
  (mki [TTarget 1%N; TMod [52;53;100]%N; TFetch] [mkf 1 3456000 0; mkf 2 3888600 70000; mkf 4 3974400 1; mkf 6 3974400 0; mkf 7 3456000 1500; mkf 5 3884400 3; mkf 8 259200 1500; mkf 3 0 1500] [mkp [4;3;5]%N false []; mkp [7]%N false []] (@nil (list N)) [] false,
   res VNone [1;2;3;4;5;6;7;8]%N []);
  (mki [TPretend; TInst] [mkf 2 3456000 70000; mkf 5 0 1; mkf 3 3456000 1; mkf 7 3456000 70000; mkf 6 3456000 0; mkf 4 3600 0] [mkp [1]%N true []] [[2]%N] [2;3;4;5;6;7]%N true,
   res VNone [2;3;4;5;6;7]%N [3;4;5;6;7]%N);
  (mki [TFetch; TExists; TExcl [1]%N] [mkf 9 34560000 1500; mkf 10 3456000 70000; mkf 8 34560000 70000; mkf 6 3456000 1500; mkf 11 34560000 3; mkf 1 0 70000; mkf 5 0 0; mkf 7 0 3; mkf 3 3600 3; mkf 4 3456000 0] [mkp [2]%N true []; mkp [7;6]%N false []; mkp [8]%N false []; mkp [10;3]%N true [1]%N] [[1]%N; [7;6]%N] [1;3;6;7;8]%N true,
   res VNone [3;4;5;6;7;8;9;10;11]%N []);
  (mki [TTarget 1%N; TInst; TExcl [1]%N] [mkf 11 259200 1; mkf 10 34560000 1500; mkf 7 3600 70000; mkf 8 0 0; mkf 1 3456000 0; mkf 2 3456000 1; mkf 4 34560000 1500; mkf 5 34560000 3; mkf 9 3456000 0; mkf 12 34560000 70000; mkf 3 0 70000; mkf 6 259200 1500; mkf 13 0 70000] [mkp [5;10;2]%N false []; mkp [4;3]%N false []; mkp [7]%N false [1]%N] (@nil (list N)) [] true,
   res VNone [1;2;3;4;5;6;7;8;9;10;11;12;13]%N []);
  (mki [TFetch; TTarget 1%N; TMod [51;100]%N] [mkf 9 0 1500; mkf 10 258600 3; mkf 12 172800 3; mkf 7 172800 70000; mkf 2 266400 70000; mkf 11 259800 70000; mkf 6 34560000 0; mkf 5 345600 1; mkf 13 172800 1; mkf 1 172800 1] [mkp [3;13]%N true []; mkp [6;5;1]%N true [1]%N; mkp [8;4;11]%N true [1]%N; mkp [7]%N false [1]%N] [[2]%N; [9;4]%N; [10;13]%N] [1;5;6;7;11]%N true,
   res VNone [1;2;5;6;7;9;10;11;12;13]%N []);
  (mki [TExcl [3]%N; TSize [49;48;48;66]%N; TExists; TTarget 2%N; TTarget 1%N; TFetch; TInst] [mkf 4 3456000 3; mkf 3 259200 1100; mkf 1 0 101; mkf 2 34560000 99; mkf 6 3600 101; mkf 5 34560000 101] [mkp [3]%N true [1]%N; mkp [] true [2]%N; mkp [5]%N true [3]%N] [[3]%N] [3;4]%N false,
   res VNone [1;2;3;4;5;6]%N [4]%N);
  (mki [TInst; TFetch] [mkf 3 0 3; mkf 5 3456000 0; mkf 4 0 1; mkf 2 34560000 1] [mkp [1]%N false []] (@nil (list N)) [2;3;4;5]%N false,
   res VNone [2;3;4;5]%N [2;3;4;5]%N);
  (mki [TTarget 1%N] [mkf 6 259200 0; mkf 11 34560000 3; mkf 1 259200 3; mkf 8 3600 0; mkf 4 34560000 1; mkf 7 34560000 70000; mkf 12 0 3; mkf 10 259200 1500; mkf 5 3456000 3] [mkp [7]%N false []; mkp [8]%N false []; mkp [9]%N false [1]%N; mkp [12;11;5]%N false []; mkp [3;2]%N false []] [[8]%N; [3;2]%N] [] true,
   res VNone [1;4;5;6;7;8;10;11;12]%N []);
  (mki [TExists; TSize [53;75]%N; TFetch] [mkf 10 3456000 5119; mkf 4 0 6120; mkf 6 0 5120; mkf 3 3600 5119; mkf 1 34560000 5121; mkf 11 3456000 5121; mkf 8 0 5119; mkf 7 3456000 0] [mkp [2;1;5]%N false []; mkp [7]%N true []; mkp [8]%N false []; mkp [9]%N true []; mkp [10;6;3]%N false []] (@nil (list N)) [1;3;4;6;7;8;10;11]%N true,
   res VNone [1;3;4;6;7;8;10;11]%N []);
  (mki [TTarget 1%N; TTarget 1%N; TInst] [mkf 8 0 1; mkf 2 34560000 1500; mkf 7 259200 0; mkf 5 259200 70000; mkf 4 34560000 1500; mkf 3 34560000 70000; mkf 10 34560000 70000] [mkp [7]%N false [1]%N; mkp [2]%N false [1]%N; mkp [4;9;6]%N false []] [[1]%N] [2;5;7]%N true,
   res VNone [3;4;8;10]%N []);
  (mki [TPretend; TExists; TTarget 1%N; TInst; TMod [50;109]%N] [mkf 9 5183400 1; mkf 2 0 1500; mkf 4 5270400 1; mkf 1 5191200 1500; mkf 8 5270400 0; mkf 7 34560000 0; mkf 5 5270400 1] [mkp [2]%N false []; mkp [5;3;1]%N true [1]%N; mkp [4;9;8]%N false []; mkp [6]%N false []] [[7]%N; [4;9;8]%N] [1;5]%N true,
   res VNone [1;2;4;5;7;8;9]%N []);
  (mki [TPretend; TExists; TExcl [1]%N; TSize [49;71]%N; TInst; TTarget 1%N; TMod [49;48;121]%N] [mkf 8 315446400 1073741823; mkf 6 315446400 70000; mkf 5 315367200 1073741824; mkf 12 259200 1073742824; mkf 1 315446400 1073741823; mkf 9 315273600 1073741823; mkf 2 315356400 0; mkf 10 315273600 1073742824; mkf 3 315359400 1073741825; mkf 4 315446400 3; mkf 7 315360600 3] [mkp [1]%N false [1]%N; mkp [3;11]%N true []; mkp [7;4]%N true []] [[5]%N] [] true,
   res VNone [1;2;3;4;5;6;7;8;9;10;12]%N []);
  (mki [TPretend; TFetch; TTarget 2%N; TTarget 1%N] [mkf 7 34560000 3; mkf 9 0 70000; mkf 11 3600 3; mkf 10 259200 1; mkf 14 3600 0; mkf 6 0 70000; mkf 8 3600 3; mkf 13 0 1500; mkf 16 3456000 0; mkf 5 3456000 1; mkf 17 0 1500; mkf 12 259200 3] [mkp [6]%N true [1]%N; mkp [10;9;4]%N false [1;2]%N; mkp [12;11;3]%N false [1]%N; mkp [14;13;1]%N false [1]%N] [[12;11;3]%N; [15]%N; [2]%N] [5;6;8;9;10;11;12;13;14]%N true,
   res VNone [5;6;7;8;9;10;11;12;13;14;16;17]%N [5;8]%N);
  (mki [TSize [49;71]%N; TExcl [2]%N; TTarget 1%N; TInst] [mkf 11 3456000 1073741825; mkf 1 34560000 1; mkf 17 0 1073741824; mkf 7 3600 1073740824; mkf 13 259200 1073742824; mkf 10 259200 1073741823; mkf 5 259200 1073741824; mkf 4 3456000 1; mkf 18 259200 1073741825; mkf 15 34560000 0; mkf 8 3456000 1073740824; mkf 14 3600 3; mkf 12 34560000 1073741825; mkf 2 3600 1073741823] [mkp [7;6;10;2]%N false []; mkp [8;10;12]%N false [1]%N; mkp [9;3]%N false []; mkp [17;14]%N false [2]%N; mkp [16;15;18]%N false [2]%N] [[9;3]%N; [16]%N] [8;10;12]%N false,
   res VNone [1;2;4;5;7;8;10;11;12;13;14;15;17;18]%N [8;10]%N);
  (mki [TMod [52;53;109;105;110]%N; TTarget 1%N; TTarget 1%N] [mkf 4 2100 70000; mkf 2 (-83700) 1; mkf 6 (-900) 0; mkf 8 (-83700) 70000; mkf 3 2100 1500; mkf 7 (-83700) 1500; mkf 5 (-900) 1; mkf 1 3456000 1500] [mkp [2]%N false [1]%N] [[2]%N; [7]%N] [1;2]%N true,
   res VNone [2;3;4;5;6;7;8]%N []);
  (mki [TExists; TExcl [2]%N; TTarget 3%N; TExcl [1]%N] [mkf 7 34560000 70000; mkf 3 34560000 3; mkf 2 34560000 1; mkf 4 259200 1500; mkf 9 34560000 1; mkf 6 34560000 1500; mkf 5 3456000 70000; mkf 1 259200 1; mkf 8 259200 3] [mkp [] false [1]%N; mkp [7]%N true [2;3]%N; mkp [6;1]%N true []] [[7]%N; [3]%N] [5;6;7]%N true,
   res VNone [1;2;3;4;6;7;8;9]%N []);
  (mki [TExists; TFetch] [mkf 2 3600 3; mkf 5 259200 70000; mkf 1 3600 3; mkf 4 259200 0] [mkp [] true []; mkp [3]%N false []; mkp [4;2]%N false []] [[3]%N] [1;2;4;5]%N true,
   res VNone [2;4]%N []);
  (mki [TTarget 1%N; TExists; TExcl [2]%N; TInst] [mkf 12 0 3; mkf 3 34560000 0; mkf 10 3600 3; mkf 13 3456000 3; mkf 11 3456000 1500; mkf 6 34560000 1; mkf 1 34560000 1; mkf 8 3456000 3; mkf 9 259200 1500; mkf 14 34560000 1] [mkp [3;2]%N false []; mkp [6;5;4]%N false [1;2]%N; mkp [8;7]%N false [1;2]%N; mkp [10]%N true []] [[8]%N; [11]%N; [6;5;4]%N] [] true,
   res VNone [1;3;6;8;9;10;11;12;13;14]%N []);
  (mki [TExcl [3;2]%N; TTarget 4%N; TTarget 1%N; TSize [49;71]%N] [mkf 8 34560000 1073741823; mkf 10 34560000 70000; mkf 5 3600 1073740824; mkf 13 3600 1073741825; mkf 14 0 1073741823; mkf 7 259200 1073742824; mkf 11 34560000 1073741824; mkf 3 3456000 3; mkf 1 3600 1073741823; mkf 12 3600 1073742824; mkf 4 3456000 1073741825; mkf 9 3456000 1073740824; mkf 6 0 1073740824] [mkp [7;4]%N true []; mkp [6;5;9]%N false []; mkp [11]%N false [2]%N; mkp [13;12]%N false [2]%N; mkp [3;2]%N false [1;3]%N] [[8;14]%N; [10]%N] [] true,
   res VNone [1;3;4;5;6;7;8;9;10;11;12;13;14]%N []);
  (mki [TFetch; TExists; TTarget 1%N] [mkf 3 3456000 3; mkf 5 3456000 1500; mkf 6 3456000 70000; mkf 2 259200 1500; mkf 4 3456000 3; mkf 1 3456000 1] [mkp [7]%N true [1]%N] (@nil (list N)) [] true,
   res VNone [1;2;3;4;5;6]%N []);
  (mki [TExcl [2;3]%N; TInst; TExcl [4;1]%N] [mkf 5 3456000 0; mkf 4 3600 70000; mkf 2 34560000 1500; mkf 3 0 3; mkf 1 0 70000; mkf 6 3456000 0] [mkp [3]%N true [1;3]%N; mkp [5]%N true [1;2]%N] [[3]%N] [] true,
   res VNone [1;2;3;4;5;6]%N []);
  (mki [TTarget 1%N; TMod [49;48;104]%N; TExcl [1;2]%N] [mkf 3 122400 3; mkf 2 122400 1500; mkf 5 3600 0; mkf 4 (-50400) 70000; mkf 1 35400 1] [mkp [1]%N true [1]%N; mkp [] true [2]%N] [[]; [1]%N] [] true,
   res VNone [1;2;3;4;5]%N []);
  (mki [TFetch; TSize [53;77]%N] [mkf 4 3600 5241880; mkf 3 34560000 5242881; mkf 6 34560000 5242880; mkf 2 0 5242880; mkf 1 3456000 5242881; mkf 5 3600 5242879] [mkp [2;6]%N false []] (@nil (list N)) [1;2;3;4;5;6]%N true,
   res VNone [1;2;3;6]%N []);
  (mki [TTarget 1%N; TInst; TExists] [mkf 4 259200 1500; mkf 2 34560000 70000; mkf 6 0 1500; mkf 7 34560000 3; mkf 3 259200 0; mkf 1 3456000 70000] [mkp [1;6]%N true [1]%N; mkp [2]%N false [1]%N] [[5]%N; [1;6]%N] [1;2;3;6]%N true,
   res VNone [1;2;4;6;7]%N []);
  (mki [TExists; TPretend; TSize [49;48;48;75]%N] [mkf 16 34560000 101400; mkf 9 3600 102399; mkf 15 0 102400; mkf 2 3600 102401; mkf 13 0 101400; mkf 1 0 102399; mkf 12 3600 101400; mkf 14 259200 101400; mkf 8 3600 103400; mkf 5 0 102399; mkf 17 3456000 0; mkf 4 34560000 102401] [mkp [6;17]%N true []; mkp [11;10]%N false []; mkp [14;13;2]%N false []; mkp [7;9]%N false []; mkp [16;15;17;8;3]%N false []] [[11;10]%N; [5]%N] [1;2;4;5;8;9;12;13;14;15;16;17]%N true,
   res VNone [1;2;4;5;8;9;12;13;14;15;16;17]%N [1;5;12]%N);
  (mki [TTarget 1%N; TExcl [2]%N; TSize [53;75]%N] [mkf 13 34560000 70000; mkf 10 34560000 1; mkf 15 259200 5119; mkf 4 34560000 0; mkf 9 34560000 0; mkf 14 0 5121; mkf 7 34560000 5121; mkf 3 3600 3; mkf 1 3456000 4120; mkf 5 3600 5121; mkf 12 3600 5120; mkf 11 34560000 70000; mkf 16 3600 6120; mkf 2 259200 1500; mkf 8 259200 5120] [mkp [3]%N false []; mkp [6;11]%N false []; mkp [9]%N true [2]%N; mkp [12;10]%N false [1]%N; mkp [16;15;4]%N false []] [[14]%N] [10;11;12]%N true,
   res VNone [1;2;3;4;5;7;8;9;11;12;13;14;15;16]%N []);
  (mki [TExcl []; TTarget 1%N] [mkf 5 3456000 70000; mkf 1 259200 3; mkf 4 3600 70000; mkf 2 3600 1500; mkf 6 259200 70000; mkf 8 0 1500; mkf 3 3600 1500; mkf 7 34560000 3] [mkp [3]%N true [1]%N; mkp [6;5]%N false []; mkp [7;2]%N false []] (@nil (list N)) [3]%N true,
   res VNone [1;2;4;5;6;7;8]%N [])
].
Eval vm_compute in (mismatches run cases).
Eval vm_compute in (where_ (fun i r => negb (spec_ok i r)) cases).
