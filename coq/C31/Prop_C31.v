(* Prop_C31.v — the property theorems of C31 and nothing else. *)
From Coq Require Import List NArith ZArith Bool.
Import ListNotations.
From Verif Require Import Base.Val C31.Model_C31 C31.Spec_C31 C31.Proofs_C31 C31.Roundtrip_C31.

(* For ANY environment mapping (distinct keys that are shell names; values text without NUL or
   lists of such text; the non-exported marker a string), any Unicode classification of the
   non-ASCII code points and any set of readonly names: generation succeeds, the generated text
   is inside the modelled bash fragment, and after evaluating it every shell variable is exactly
   what the statement demands (value, array-ness, exported unless marked; readonly names and the
   marker itself are not transferred). *)
Theorem env_roundtrip : forall U ro e,
  env_ok e ->
  exists text log,
    generate_env_str U ro e = inr text /\ bash_eval text = Some log /\
    forall k, final_lookup k log = expected_lookup ro e k.
Proof. exact env_roundtrip_proof. Qed.
Print Assumptions env_roundtrip.

(* inline transfer: the reader consumes exactly the bytes written for the payload; what the
   Python side writes next (rest) is what the daemon reads next *)
Theorem framing_in_sync : forall data rest,
  reader (frame data ++ rest) = Some (encode data, rest).
Proof. exact framing_in_sync_proof. Qed.
Print Assumptions framing_in_sync.

Theorem framing_file_in_sync : forall path rest,
  ascii_line path -> reader_file (frame_file path ++ rest) = Some (path, rest).
Proof. exact framing_file_in_sync_proof. Qed.
Print Assumptions framing_file_in_sync.

(* the two together, for each way of sending *)
Theorem send_env_inline_exact : forall U ro e rest,
  env_ok e ->
  exists text log,
    generate_env_str U ro e = inr text /\
    reader (frame text ++ rest) = Some (encode text, rest) /\
    bash_eval text = Some log /\
    forall k, final_lookup k log = expected_lookup ro e k.
Proof. exact send_env_inline_exact_proof. Qed.
Print Assumptions send_env_inline_exact.

Theorem send_env_file_exact : forall U ro e path rest,
  env_ok e -> ascii_line path ->
  exists text log,
    generate_env_str U ro e = inr text /\
    reader_file (frame_file path ++ rest) = Some (path, rest) /\
    bash_eval text = Some log /\
    forall k, final_lookup k log = expected_lookup ro e k.
Proof. exact send_env_file_exact_proof. Qed.
Print Assumptions send_env_file_exact.

(* what was wrong before the repair (fixes/C31-env-quoting.patch) *)
Theorem old_scalar_refuted : ~ roundtrip_statement generate_env_str_old.
Proof. exact old_scalar_refuted_proof. Qed.
Print Assumptions old_scalar_refuted.

Theorem old_list_refuted :
  exists U ro e, env_ok e /\
    exists text, generate_env_str_old U ro e = inr text /\ bash_eval text = None.
Proof. exact old_list_refuted_proof. Qed.
Print Assumptions old_list_refuted.

Theorem framing_charcount_refuted :
  exists data rest, reader (frame_old data ++ rest) <> Some (encode data, rest).
Proof. exact framing_charcount_refuted_proof. Qed.
Print Assumptions framing_charcount_refuted.
