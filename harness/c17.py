"""C17 — planner rollback restores the exact earlier state (DESIGN §6 C17).

The real `pkgcore.resolver.state.plan_state` is driven with small fake package / choice-point /
blocker objects (ids with key, slot and a match table supplied as data).

Streams (all: (A) implementation vs Model_C17.run_hist, outcome + full ordered snapshot after EVERY
event; (B) Spec_C17.spec_hist_ok in Coq on the implementation's recorded snapshots, and the direct
oracle here: state after a rollback == fresh replay of the surviving calls on the implementation)
  corpus  witnesses of the known findings + hand-written compound histories
  exh     bounded-exhaustive well-formed histories over a reduced alphabet
  wf      random well-formed histories (the calls plan.py can make), rollbacks to call boundaries
  mal     random unconstrained histories: forced duplicates, wrong choice points, rollbacks into the
          middle of a compound operation or beyond the plan, decref of absent blockers, ...
"""

import json
from pathlib import Path

from .common import VERIF, Check, Err, Raw, cN, cbool, clist, impl_call, shrink_list

IMPORTS = ("From Coq Require Import List NArith ZArith Bool.\n"
           "From Verif Require Import Base.Val C17.Model_C17 C17.Spec_C17.")
ANCHORS = ["resolver/state.py", "resolver/pigeonholes.py"]
NK, NC, NR = 2, 3, 2
KINDS = {"KeyError": "1", "ValueError": "2", "AssertionError": "3", "AttributeError": "4", "*": "9"}
KIND_NAMES = {"1": "KeyError", "2": "ValueError", "3": "AssertionError", "4": "AttributeError", "9": "other exception"}


def wire(trace):
    """Model_C17.wire_trace + pack: trace = [step], step = [field], field = [small int]"""
    toks = [len(trace)]
    for stp in trace:
        toks.append(len(stp))
        for f in stp:
            toks.append(len(f))
            toks.extend(f)
    toks = [t if 0 <= t < 64 else 63 for t in toks]  # out of range: the model never produces 63
    return "".join(f"T{t} (" for t in toks) + "E" + ")" * len(toks)


# ----------------------------------------------------------------------------- fake universe
class Pkg:
    """fake package: identity = the object (i), value equality/hash = eq (real packages compare and
    hash by cpv: the installed a/b-1 and the a/b-1 of a source repo are equal but not identical)"""

    def __init__(self, i, key, slot, eq):
        self.i, self.key, self.slot, self.eq = i, key, slot, eq

    def __repr__(self):
        return f"p{self.i}"

    def __eq__(self, o):
        return isinstance(o, Pkg) and o.eq == self.eq

    def __ne__(self, o):
        return not self.__eq__(o)

    def __hash__(self):
        return hash(("pkg", self.eq))


class Ch:
    def __init__(self, i):
        self.i = i

    def __repr__(self):
        return f"c{self.i}"


_BLK = None


def blk_class():
    global _BLK
    if _BLK is None:
        from pkgcore.restrictions import restriction

        class Blk(restriction.base):
            __slots__ = ("i", "key", "m")
            __inst_caching__ = False

            def __init__(self, i, key, m):
                object.__setattr__(self, "i", i)
                object.__setattr__(self, "key", key)
                object.__setattr__(self, "m", m)

            def match(self, p):
                return self.m[p.i]

            def __repr__(self):
                return f"b{self.i}"

            def __hash__(self):
                return id(self)

            def __eq__(self, o):
                return self is o

        _BLK = Blk
    return _BLK


def norm_cfg(cfg):
    cfg = tuple(cfg)
    if len(cfg) == 4:  # older corpus entries: every package equal only to itself
        cfg = cfg + (list(range(len(cfg[0]))),)
    return cfg


class Universe:
    """cfg = (keys, slots, bkeys, match, eqs)   keys/slots/eqs per package, bkeys/match per blocker"""

    def __init__(self, cfg):
        keys, slots, bkeys, match, eqs = norm_cfg(cfg)
        self.cfg = cfg
        self.P = [Pkg(i, k, s, e) for i, (k, s, e) in enumerate(zip(keys, slots, eqs))]
        self.C = [Ch(i) for i in range(NC)]
        B = blk_class()
        self.B = [B(i, bk, tuple(m)) for i, (bk, m) in enumerate(zip(bkeys, match))]


def do_call(st, ps, U, a):
    t = a[0]
    if t == "add":
        return st.add_op(U.C[a[1]], U.P[a[2]], force=a[3]).apply(ps)
    if t == "rep":
        return st.replace_op(U.C[a[1]], U.P[a[2]], force=a[3]).apply(ps)
    if t == "rem":
        return st.remove_op(U.C[a[1]], U.P[a[2]]).apply(ps)
    if t == "hard":
        return st.add_hardref_op(a[1]).apply(ps)
    if t == "back":
        return st.add_backref_op(U.C[a[1]], U.P[a[2]]).apply(ps)
    if t == "blk":  # a[3] None: the code takes blocker.key
        return ps.add_blocker(U.C[a[1]], U.B[a[2]], key=a[3])
    if t == "dec":
        return st.decref_forward_block_op(U.C[a[1]], U.B[a[2]], a[3]).apply(ps)
    raise ValueError(a)


def enc_plan_op(st, o):
    if isinstance(o, st.replace_op):
        return [4, o.choices.i, o.pkg.i, int(bool(o.force)), o.old_pkg.i, o.old_choices.i, int(bool(o.force_old))]
    if isinstance(o, st.add_op):
        return [0, o.choices.i, o.pkg.i, int(bool(o.force))]
    if isinstance(o, st.add_hardref_op):
        return [1, o.restriction]
    if isinstance(o, st.add_backref_op):
        return [2, o.choices.i, o.pkg.i]
    if isinstance(o, st.remove_op):
        return [3, o.choices.i, o.pkg.i]
    if isinstance(o, st.incref_forward_block_op):
        return [5, o.choices.i, o.blocker.i, o.key]
    if isinstance(o, st.decref_forward_block_op):
        return [6, o.choices.i, o.blocker.i, o.key]
    raise TypeError(o)


class Shape(Exception):
    """the containers no longer have the shape the model's flat representation assumes"""


NMS = NK + NK + NC  # number of multiset fields of a snapshot


BAD = 62  # sentinel token: the implementation's answer could not be canonicalised


def mult(container, key):
    """multiplicity of key in a refcounting set / dict / set / list"""
    if hasattr(container, "get") and hasattr(container, "items"):
        v = container.get(key, 0)
        if isinstance(v, bool) or not isinstance(v, int) or v < 0:
            raise Shape(f"multiplicity {v!r}")
        return v
    if isinstance(container, (set, frozenset)):
        return int(key in container)
    if isinstance(container, (list, tuple)):
        return sum(1 for x in container if x is key or x == key)
    raise Shape(f"container {type(container).__name__}")


def snapshot(st, ps, U, tail_from=0, problems=None):
    """Model_C17.snapshot: list of fields.  Never raises: a component that no longer has the
    shape the model's flat representation assumes is rendered as [BAD] and described in `problems`."""
    problems = [] if problems is None else problems

    def field(name, fn):
        try:
            f = fn()
            if not all(isinstance(x, int) and not isinstance(x, bool) and 0 <= x for x in f):
                raise Shape(f"non-numeric entry in {f!r}")
            return list(f)
        except Exception as e:  # noqa: BLE001 - every unexpected answer becomes a recorded mismatch
            problems.append(f"{name}: {type(e).__name__}: {e}")
            return [BAD]

    def slot_list(k):
        sd = ps.state.slot_dict
        v = sd.get(k, ())
        if k in sd and not v:
            raise Shape(f"slot_dict[{k}] empty")
        if any(p.key != k for p in v):
            raise Shape(f"slot_dict[{k}] holds a foreign key")
        return [p.i for p in v]

    def lim_list(k):
        lm = ps.state.limiters
        v = lm.get(k, ())
        if k in lm and not v:
            raise Shape(f"limiters[{k}] empty")
        return [b.i for b in v]

    def rb_list(c):
        v = ps.rev_blockers.get(c, ())
        if c in ps.rev_blockers and not v:
            raise Shape(f"rev_blockers[{c}] empty")
        return [b.i * 8 + k for b, k in v]

    def extra_keys():
        for nm, d in (("slot_dict", ps.state.slot_dict), ("limiters", ps.state.limiters)):
            if any(k not in range(NK) for k in d):
                raise Shape(f"{nm} has keys {list(d)}")
        return []

    field("keys", extra_keys)
    return (
        [field(f"slot_dict[{k}]", lambda k=k: slot_list(k)) for k in range(NK)]
        + [field(f"limiters[{k}]", lambda k=k: lim_list(k)) for k in range(NK)]
        + [field(f"rev_blockers[{c}]", lambda c=c: rb_list(c)) for c in U.C]
        + [field("pkg_choices", lambda: [(ps.pkg_choices[p].i + 1 if p in ps.pkg_choices else 0) for p in U.P]),
           field("blockers_refcnt", lambda: [mult(ps.blockers_refcnt, b) for b in U.B]),
           field("vdb_filter", lambda: [mult(ps.vdb_filter, p) for p in U.P]),
           field("forced_restrictions", lambda: [mult(ps.forced_restrictions, r) for r in range(NR)]),
           field("len(plan)", lambda: [len(ps.plan)]),
           field("plan", lambda: [x for o in ps.plan[tail_from:] for x in enc_plan_op(st, o)])])


def canon(snap):
    """order-insensitive view of the components the property names (+ plan length)"""
    return [sorted(f) for f in snap[:NMS]] + snap[NMS:-1]


def enc_out(r):
    try:
        if isinstance(r, Err):
            return [2, int(r.kind)]
        if r is None:
            return [0]
        return [1] + [(8 + x.i if hasattr(x, "m") else x.i) for x in r]
    except Exception:  # noqa: BLE001 - an answer of an unexpected type
        return [BAD]


# ----------------------------------------------------------------------------- WF (mirror of Spec_C17.wf_api_b)
def wf_reason(ps, U, a):
    """first conjunct of WF the call violates in the implementation's current state, or None"""
    try:
        return _wf_reason(ps, U, a)
    except Exception:  # noqa: BLE001 - containers of an unexpected type: the snapshot reports it
        return None


def _wf_reason(ps, U, a):
    t = a[0]
    slotted = [p for v in ps.state.slot_dict.values() for p in v]

    def is_slotted(x):  # identity, as PigeonHoledSlots.remove_slotting
        return any(q is x for q in slotted)

    if t == "add":
        p = U.P[a[2]]
        if p in ps.pkg_choices or is_slotted(p):
            return "add-bound"
        if p in ps.vdb_filter:
            return "add-filtered"
        if a[3] and any(q.key == p.key and q.slot == p.slot for q in slotted):
            return "forced-dup-slot"
    elif t == "rem":
        p = U.P[a[2]]
        if p not in ps.pkg_choices or not is_slotted(p):
            return "rem-unbound"
        if ps.pkg_choices[p] is not U.C[a[1]]:
            return "rem-wrong-choices"
        if p in ps.vdb_filter:
            return "add-filtered"
    elif t == "rep":
        p = U.P[a[2]]
        if ps.state.get_conflicting_slot(p) is None:
            return "rep-noold"
        if a[3]:
            return "rep-forced"
        if ps.state.check_limiters(p):
            return "rep-new-blocked"
        old = ps.state.get_conflicting_slot(p)
        if is_slotted(p) or (p in ps.pkg_choices and not (old == p)):
            return "rep-bound"
        if p in ps.vdb_filter or old in ps.vdb_filter:
            return "add-filtered"
        if old not in ps.pkg_choices:
            return "rep-noold"
        oc = ps.pkg_choices[old]
        if any(b.match(old) for b, _k in ps.rev_blockers.get(oc, ())):
            return "rep-selfblocked"
    elif t == "blk":
        if a[3] is not None and a[3] != U.B[a[2]].key:
            return "blk-foreign-key"
    elif t == "dec":
        if (U.B[a[2]], a[3]) not in ps.rev_blockers.get(U.C[a[1]], ()):
            return "dec-absent"
        if a[3] != U.B[a[2]].key:
            return "blk-foreign-key"
    return None


# ----------------------------------------------------------------------------- running a history
def run_history(st, cfg, h):
    """-> (trace for (A), failure of the direct oracle or None)
    h: list of api tuples and ('rb', k).  failure = dict(step, what, first_nonwf).
    The oracle judges the history up to the first event after which "the operations that remain" is
    not defined (a call that raised, a rollback to a position that is not a call boundary)."""
    U = Universe(cfg)
    ps = st.plan_state()
    live = []  # (plan length before the call, call)
    trace = []
    first_nonwf = None
    dead = False
    failure = None
    for idx, e in enumerate(h):
        len_before = len(ps.plan)
        if e[0] == "rb":
            k = e[1]
            boundary = k == len(ps.plan) or any(n == k for n, _ in live)
            if not boundary:
                dead = True
            out = impl_call(lambda: ps.backtrack(k), kinds=KINDS)
            if isinstance(out, Err):
                if failure is None and not dead:
                    failure = {"step": idx, "what": f"backtrack({k}) raised {KIND_NAMES[out.kind]}"}
                dead = True
            elif not dead:
                live = [(n, x) for n, x in live if n < k]
                if failure is None:
                    fresh = st.plan_state()
                    U2 = Universe(cfg)
                    try:
                        for _, x in live:
                            do_call(st, fresh, U2, x)
                    except Exception as ex:  # noqa: BLE001
                        failure = {"step": idx, "what": f"fresh replay of the surviving calls raised {type(ex).__name__}",
                                   "surviving": [x for _, x in live]}
                    got, want = canon(snapshot(st, ps, U)), canon(snapshot(st, fresh, U2))
                    if failure is None and got != want:
                        failure = {"step": idx, "what": "state after rollback differs from replay of the surviving calls",
                                   "after_rollback": got, "replay": want, "surviving": [x for _, x in live]}
        else:
            w = None if dead else wf_reason(ps, U, e)
            if w in NOT_A_PROPERTY_CASE:
                dead = True
            elif w and first_nonwf is None:
                first_nonwf = (idx, w)
            out = impl_call(lambda: do_call(st, ps, U, e), kinds=KINDS)
            if isinstance(out, Err):
                if not dead and failure is None:
                    failure = {"step": idx, "what": f"call {e} raised {KIND_NAMES[out.kind]}"}
                dead = True
            elif not dead:
                live.append((len_before, e))
        problems = []
        try:
            tail_from = min(len_before, len(ps.plan))
        except Exception:  # noqa: BLE001
            tail_from = 0
        trace.append([enc_out(out)] + snapshot(st, ps, U, tail_from, problems))
        if problems and failure is None:
            failure = {"step": idx, "shape": True,
                       "what": "the implementation's state no longer has the shape Model_C17 assumes: "
                               + "; ".join(problems[:3])}
    if failure is not None:
        failure["first_nonwf"] = first_nonwf
    return trace, failure


# known-finding classes: the first ill-formed call of the history decides (predicate names below)
def first_nonwf_is(kind):
    def pred(failure):
        return failure.get("first_nonwf") is not None and failure["first_nonwf"][1] == kind
    return pred


forced_add_of_bound_package = first_nonwf_is("add-bound")
remove_with_foreign_choices = first_nonwf_is("rem-wrong-choices")
forced_replace_with_conflicts = first_nonwf_is("rep-forced")
replace_blocked_new_package = first_nonwf_is("rep-new-blocked")
replace_old_blocked_by_own_blocker = first_nonwf_is("rep-selfblocked")
replace_by_planned_package = first_nonwf_is("rep-bound")
forced_duplicate_slot = first_nonwf_is("forced-dup-slot")
readded_filtered_package = first_nonwf_is("add-filtered")
blocker_under_foreign_key = first_nonwf_is("blk-foreign-key")
CLASSES = {
    "forced-add-of-bound-package": forced_add_of_bound_package,
    "remove-with-foreign-choices": remove_with_foreign_choices,
    "forced-replace-with-conflicts": forced_replace_with_conflicts,
    "replace-blocked-new-package": replace_blocked_new_package,
    "replace-old-blocked-by-own-blocker": replace_old_blocked_by_own_blocker,
    "replace-by-planned-package": replace_by_planned_package,
    "forced-duplicate-slot": forced_duplicate_slot,
    "readded-filtered-package": readded_filtered_package,
    "blocker-under-foreign-key": blocker_under_foreign_key,
}
# ill-formed calls that are plain API misuse and raise cleanly; nothing "remains" to compare with
NOT_A_PROPERTY_CASE = {"rem-unbound", "rep-noold", "dec-absent"}


# ----------------------------------------------------------------------------- Coq rendering
def c_api(a, U_bkeys):
    t = a[0]
    if t == "add":
        return f"AAdd {a[1]} {a[2]} {cbool(a[3])}"
    if t == "rep":
        return f"AReplace {a[1]} {a[2]} {cbool(a[3])}"
    if t == "rem":
        return f"ARemove {a[1]} {a[2]}"
    if t == "hard":
        return f"AHardref {a[1]}"
    if t == "back":
        return f"ABackref {a[1]} {a[2]}"
    if t == "blk":
        return f"ABlock {a[1]} {a[2]} {U_bkeys[a[2]] if a[3] is None else a[3]}"
    if t == "dec":
        return f"ADecref {a[1]} {a[2]} {a[3]}"
    raise ValueError(a)


def c_case(cfg, h):
    keys, slots, bkeys, match, eqs = norm_cfg(cfg)
    c = ("{| ckeys := %s; cslots := %s; cbkeys := %s; cmatch := %s; ceqs := %s |}"
         % (clist(map(cN, keys), "N"), clist(map(cN, slots), "N"), clist(map(cN, bkeys), "N"),
            clist([clist(map(cbool, m), "bool") for m in match], "list bool"), clist(map(cN, eqs), "N")))
    ev = clist([(f"R {e[1]}" if e[0] == "rb" else "C (" + c_api(e, bkeys) + ")") for e in h], "event")
    return "(" + c + ", " + ev + ")"


# ----------------------------------------------------------------------------- generators
PKGS = ([0, 0, 0, 1], [0, 0, 1, 0])  # p0,p1 share key 0 slot 0; p2 key 0 slot 1; p3 key 1 slot 0


def rand_cfg(rng):
    bkeys = [rng.randrange(NK) for _ in range(2)]
    match = [[rng.random() < 0.35 for _ in range(4)] for _ in range(2)]
    slots = PKGS[1] if rng.random() < 0.75 else [0, 0, 0, 0]  # sometimes three packages share a slot
    # equal-but-distinct packages (same cpv from the vdb and from a repo): p0 == p1 in 45% of the cases,
    # sometimes also p2 (only meaningful when it shares the slot)
    r = rng.random()
    eqs = [0, 1, 2, 3] if r < 0.55 else ([0, 0, 2, 3] if r < 0.9 else [0, 0, 0, 3])
    return (PKGS[0], slots, bkeys, match, eqs)


def gen_mal(rng, n):
    h = []
    for _ in range(n):
        r = rng.random()
        if r < 0.25:
            h.append(("add", rng.randrange(NC), rng.randrange(4), rng.random() < 0.3))
        elif r < 0.40:
            h.append(("rep", rng.randrange(NC), rng.randrange(4), rng.random() < 0.2))
        elif r < 0.50:
            h.append(("rem", rng.randrange(NC), rng.randrange(4)))
        elif r < 0.55:
            h.append(("hard", rng.randrange(NR)))
        elif r < 0.60:
            h.append(("back", rng.randrange(NC), rng.randrange(4)))
        elif r < 0.76:
            h.append(("blk", rng.randrange(NC), rng.randrange(2), rng.choice([None, None, 0, 1])))
        elif r < 0.82:
            h.append(("dec", rng.randrange(NC), rng.randrange(2), rng.randrange(NK)))
        else:
            h.append(("rb", rng.randrange(0, 7)))
    return h


def wf_candidates(st, ps, U, live):
    """every well-formed event available in the implementation's current state"""
    out = []
    for p in range(len(U.P)):
        for c in range(NC):
            for f in (False, True):
                if wf_reason(ps, U, ("add", c, p, f)) is None:
                    out.append(("add", c, p, f))
            if wf_reason(ps, U, ("rep", c, p, False)) is None:
                out.append(("rep", c, p, False))
            if wf_reason(ps, U, ("rem", c, p)) is None:
                out.append(("rem", c, p))
    for c in range(NC):
        for b in range(len(U.B)):
            out.append(("blk", c, b, None))
            if wf_reason(ps, U, ("dec", c, b, U.B[b].key)) is None:
                out.append(("dec", c, b, U.B[b].key))
    out += [("hard", 0), ("hard", 1), ("back", 0, 0)]
    for k in sorted({n for n, _ in live} | {len(ps.plan)}):
        out.append(("rb", k))
    return out


def gen_wf(st, rng, cfg, n):
    """random walk over well-formed events, weighted towards compound operations and rollbacks"""
    U = Universe(cfg)
    ps = st.plan_state()
    live, h = [], []
    for _ in range(n):
        try:
            cands = wf_candidates(st, ps, U, live)
        except Exception:  # noqa: BLE001 - state of an unexpected shape: run_history reports it
            break
        byk = {}
        for e in cands:
            byk.setdefault(e[0], []).append(e)
        kinds = list(byk)
        w = {"add": 4, "rep": 6, "rem": 5, "blk": 5, "dec": 1, "hard": 2, "back": 1, "rb": 4}
        kind = rng.choices(kinds, [w[k] for k in kinds])[0]
        e = rng.choice(byk[kind])
        h.append(e)
        try:
            if e[0] == "rb":
                ps.backtrack(e[1])
                live = [(m, x) for m, x in live if m < e[1]]
            else:
                m = len(ps.plan)
                do_call(st, ps, U, e)
                live.append((m, e))
        except Exception:  # noqa: BLE001 - a well-formed event raised: run_history will report it
            break
    return h


def gen_exh(st, cfg, depth, alphabet_filter):
    """all well-formed histories of exactly `depth` events over the filtered alphabet (DFS on the implementation)"""
    res = []

    def rec(h):
        if len(h) == depth:
            res.append(list(h))
            return
        U = Universe(cfg)
        ps = st.plan_state()
        live = []
        try:
            for e in h:
                if e[0] == "rb":
                    ps.backtrack(e[1])
                    live = [(m, x) for m, x in live if m < e[1]]
                else:
                    m = len(ps.plan)
                    do_call(st, ps, U, e)
                    live.append((m, e))
        except Exception:  # noqa: BLE001 - a well-formed event raised: keep the history as a case
            res.append(list(h))
            return
        try:
            cands = wf_candidates(st, ps, U, live)
            planlen = len(ps.plan)
        except Exception:  # noqa: BLE001
            res.append(list(h))
            return
        for e in cands:
            if alphabet_filter(e, planlen):
                h.append(e)
                rec(h)
                h.pop()

    rec([])
    return res


def exh_for(st, cfg, depth, alpha, cap, rng):
    exh = [h for h in gen_exh(st, cfg, depth, alpha) if any(e[0] == "rb" for e in h)]
    if len(exh) > cap:  # histories cut short by an exception are kept first
        short = [h for h in exh if len(h) < depth][:cap // 2]
        exh = short + rng.sample([h for h in exh if len(h) == depth], cap - len(short))
    return exh


def is_nontrivial(st, cfg, h):
    """a rollback crosses a compound operation (remove/replace with nested decrefs, or a replace)"""
    U = Universe(cfg)
    ps = st.plan_state()
    try:
        for e in h:
            if e[0] == "rb":
                if e[1] < len(ps.plan):
                    seg = ps.plan[e[1]:]
                    if any(isinstance(o, (st.replace_op, st.remove_op)) for o in seg) and \
                            any(isinstance(o, st.decref_forward_block_op) for o in seg):
                        return True
                    if any(isinstance(o, st.replace_op) for o in seg) and len(seg) > 1:
                        return True
                ps.backtrack(e[1])
            else:
                do_call(st, ps, U, e)
    except Exception:  # noqa: BLE001
        return False
    return False


# ----------------------------------------------------------------------------- main
def load_corpus():
    out = []
    d = VERIF / "corpus" / "C17"
    if d.is_dir():
        for f in sorted(d.glob("*.json")):
            for c in json.loads(f.read_text()):
                cfg = tuple(c["cfg"])
                h = [tuple(e) for e in c["history"]]
                out.append((cfg, h))
    return out


def main(chk: Check):
    from pkgcore.resolver import state as st

    chk.rule("histories of plan_state API calls (add/replace/remove/hardref/backref/add_blocker/decref) and "
             "backtrack(k) over 4 packages (2 keys, 2 slots), 3 choice points, 2 blockers with random match "
             "tables; well-formed streams use only calls plan.py can make and roll back to call boundaries; "
             "non-trivial = a rollback crosses a compound operation (replace, or remove/replace with nested "
             "blocker decrefs)")
    ok = chk.build(["C17/Prop_C17.vo"])
    if ok:
        chk.check_assumptions("C17/Prop_C17.v")
    chk.lint(["C17"])
    chk.check_fingerprint(ANCHORS)
    rng = chk.rng

    streams = {"corpus": load_corpus(), "exh": [], "wf": [], "mal": []}
    # bounded-exhaustive: one fixed configuration where blocker 0 (key 0) hits p1, blocker 1 (key 1) hits p3
    cfg_e = (PKGS[0], PKGS[1], [0, 1], [[False, True, False, False], [False, False, False, True]], [0, 1, 2, 3])
    # the same universe with p0 == p1 (two objects, one value): re-merge of the installed version
    cfg_e2 = (PKGS[0], PKGS[1], [0, 1], [[False, True, False, False], [False, False, False, True]], [0, 0, 2, 3])

    def alpha(e, planlen):
        t = e[0]
        if t == "add":
            return e[1] == e[2] % NC and e[2] in (0, 1, 3) and not (e[3] and e[2] != 0)
        if t == "rep":
            return e[1] == e[2] % NC and e[2] in (0, 1)
        if t == "rem":
            return True
        if t == "blk":
            return e[1] in (0, 1) and e[2] == 0
        if t == "rb":
            return e[1] < planlen
        if t == "hard":
            return e[1] == 0
        return False

    depth = chk.n(4, 5)
    cap = chk.n(400, 3000)
    for cfg_x in (cfg_e, cfg_e2):
        streams["exh"] += [(cfg_x, h) for h in exh_for(st, cfg_x, depth, alpha, cap // 2, rng)]
    maxlen = chk.n(6, 8)
    for _ in range(chk.n(400, 3000)):
        cfg = rand_cfg(rng)
        streams["wf"].append((cfg, gen_wf(st, rng, cfg, rng.randrange(3, maxlen + 1))))
    for _ in range(chk.n(400, 3000)):
        streams["mal"].append((rand_cfg(rng), gen_mal(rng, rng.randrange(2, maxlen + 1))))

    failures = []  # (stream, cfg, history, failure)
    all_cases = []
    shape_bad = []
    for name, cs in streams.items():
        cases = []
        for cfg, h in cs:
            try:
                trace, failure = run_history(st, cfg, h)
            except Exception as e:  # noqa: BLE001 - never a harness exception: report the history
                shape_bad.append({"stream": name, "input": {"cfg": cfg, "history": h},
                                  "what": f"driving the implementation failed outside an API call: {type(e).__name__}: {e}"})
                continue
            cases.append((c_case(cfg, h), trace, cfg, h))
            if failure is not None:
                failures.append((name, cfg, h, failure))
            if name != "mal" and is_nontrivial(st, cfg, h):
                chk.nontrivial((tuple(map(tuple, cfg[3])), tuple(cfg[2]), tuple(norm_cfg(cfg)[4]), tuple(h)))
        chk.count(name, len(cases))
        if cases:
            chk.sample({"stream": name, "cfg": cases[len(cases) // 2][2], "history": cases[len(cases) // 2][3]})
        all_cases.append((name, cases))
    for b in shape_bad[:3]:
        chk.violation("correspondence", b, no_input=False)

    # ---- (A) and (B) inside Coq: one evaluation over all streams (a coqc start costs seconds)
    a_bad, b_bad = [], []
    flat_cases = [(name, c) for name, cases in all_cases for c in cases]
    if ok and flat_cases:
        r = chk.coq_eval("hist", IMPORTS, "(cfg * list event) * tl",
                         [(f"({c[0]}, {wire(c[1])})", True) for _, c in flat_cases],
                         ["mismatches run_hist cases", "where_ (fun i _ => negb (spec_hist_ok i)) cases"],
                         shard=chk.n(420, 1500))
        if r is not None:
            a_bad = [flat_cases[i] for i in r[0]]
            b_bad = [flat_cases[i] for i in r[1]]

    # ---- property failures: the direct oracle on the implementation
    reported = 0
    prop_fail = False
    for name, cfg, h, failure in failures:
        fn = failure.get("first_nonwf")
        cls = [cid for cid, pred in CLASSES.items() if pred(failure)]
        ex = {"cfg": cfg, "history": h, **failure}
        if cls and chk.known_finding(cls[0], ex):
            continue
        prop_fail = True
        if reported < 3:
            reported += 1
            hs, f2 = h, failure
            try:
                hs = shrink_list(h, lambda hh: _still_fails(st, cfg, hh, fn is None, bool(failure.get("shape"))))
                _, f2 = run_history(st, cfg, hs)
            except Exception:  # noqa: BLE001 - keep the unshrunk history
                hs, f2 = h, failure
            if failure.get("shape"):
                chk.violation("correspondence", {"what": failure["what"], "input": {"cfg": cfg, "history": hs},
                                                 "detail": f2, "stream": name}, no_input=False)
            else:
                chk.violation("property", {"what": "rollback does not restore the state of the remaining operations: "
                                                   + failure["what"], "input": {"cfg": cfg, "history": hs},
                                           "detail": f2, "stream": name})
    for name, c in b_bad[:3]:
        if not prop_fail:
            prop_fail = True
            chk.violation("property", {"what": "Spec_C17.spec_hist_ok rejects the implementation's recorded states "
                                               "of a well-formed history", "input": {"cfg": c[2], "history": c[3]},
                                       "stream": name})
    for name, c in a_bad[:3]:
        chk.violation("correspondence",
                      {"what": f"implementation and Model_C17.run_hist disagree on stream '{name}' "
                               "(theorems of Prop_C17 no longer speak about this code)",
                       "input": {"cfg": c[2], "history": c[3]}, "implementation": c[1]},
                      no_input=not prop_fail)


def _still_fails(st, cfg, h, need_wf, shape=False):
    try:
        _, f = run_history(st, cfg, h)
    except Exception:  # noqa: BLE001
        return False
    return (f is not None and ((f.get("first_nonwf") is None) == need_wf)
            and bool(f.get("shape")) == shape)


def replay(chk, data):
    from pkgcore.resolver import state as st

    inp = data.get("detail", {}).get("input")
    if not inp:
        print("no input recorded")
        return
    cfg = tuple(inp["cfg"])
    h = [tuple(e) for e in inp["history"]]
    trace, failure = run_history(st, cfg, h)
    print("implementation trace:", json.dumps(trace if not isinstance(trace, Err) else str(trace), default=str))
    print("oracle:", json.dumps(failure, default=str))
    r = chk.coq_eval("replay", IMPORTS, "(cfg * list event) * tl", [(f"({c_case(cfg, h)}, {wire(trace)})", True)],
                     ["mismatches run_hist cases", "where_ (fun i _ => negb (spec_hist_ok i)) cases"])
    print("model disagrees:", bool(r and r[0]), " spec rejects:", bool(r and r[1]))
