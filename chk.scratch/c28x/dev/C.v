From Coq Require Import List NArith ZArith Bool Lia Permutation.
Import ListNotations.
From Verif Require Import Base.Val C18.Fs C18.FsLemmas C28.Model_C28 C28.Spec_C28.
Open Scope N_scope.

(* ================================================================ numbers *)
(* the digit characters, by enumeration *)
Definition digit_facts (b d : N) : bool :=
  match digit_val b (digit_char d) with Some v => v =? d | None => false end
  && negb (digit_char d =? 95) && negb (is_space (digit_char d))
  && negb (digit_char d =? 120) && negb (digit_char d =? 88)
  && negb (digit_char d =? 43) && negb (digit_char d =? 45)
  && negb (digit_char d =? 10) && negb (digit_char d =? 13).
Lemma digit_facts_all b d : (b = 10 \/ b = 16) -> d < b -> digit_facts b d = true.
Proof.
  intros Hb Hd.
  assert (Hin : In d (map N.of_nat (seq 0 16))).
  { apply in_map_iff. exists (N.to_nat d). split; [apply N2Nat.id|]. apply in_seq. lia. }
  assert (Hall : forallb (fun d => (negb (d <? b)) || digit_facts b d) (map N.of_nat (seq 0 16)) = true)
    by (destruct Hb as [-> | ->]; vm_compute; reflexivity).
  rewrite forallb_forall in Hall. specialize (Hall d Hin).
  apply N.ltb_lt in Hd. rewrite Hd in Hall. exact Hall.
Qed.

Definition value (b : N) (ds : list N) (acc : N) : N := fold_left (fun a d => a * b + d) ds acc.

Lemma digits_val_digits b : (b = 10 \/ b = 16) -> forall ds acc nd,
  Forall (fun d => d < b) ds -> (ds <> [] \/ nd = false) ->
  digits_val b acc nd (map digit_char ds) = Some (value b ds acc).
Proof.
  intros Hb. induction ds as [|d ds IH]; intros acc nd Hall Hne; cbn.
  - destruct Hne as [Hne| ->]; [congruence|reflexivity].
  - inversion Hall as [|? ? Hd Hr]; subst.
    pose proof (digit_facts_all b d Hb Hd) as F. unfold digit_facts in F.
    repeat (apply andb_true_iff in F as [F ?]).
    destruct (digit_char d =? 95); [discriminate|].
    destruct (digit_val b (digit_char d)) as [v|]; [|discriminate].
    apply N.eqb_eq in F. subst v. apply IH; [exact Hr|now right].
Qed.

(* little-endian digit lists *)
Fixpoint lval (b : N) (ds : list N) : N :=
  match ds with [] => 0 | d :: r => lval b r * b + d end.
Lemma value_rev b ds : value b (rev ds) 0 = lval b ds.
Proof.
  unfold value. rewrite <- (fold_left_rev_right (fun d a => a * b + d)). rewrite rev_involutive.
  induction ds; cbn; congruence.
Qed.

Lemma digits_lsb_lval b : 2 <= b -> forall fuel n, n < 2 ^ N.of_nat fuel -> lval b (digits_lsb b fuel n) = n.
Proof.
  intros Hb. induction fuel as [|f IH]; intros n Hn.
  - cbn in *. assert (n = 0) by lia. now subst.
  - cbn [digits_lsb]. destruct (N.eqb_spec n 0) as [->|Hn0]; [reflexivity|].
    cbn [lval]. rewrite IH.
    + rewrite N.mul_comm. symmetry. apply N.div_mod'.
    + apply N.div_lt_upper_bound; [lia|].
      rewrite Nat2N.inj_succ, N.pow_succ_r' in Hn.
      assert (2 * 2 ^ N.of_nat f <= b * 2 ^ N.of_nat f) by (apply N.mul_le_mono_r; exact Hb). lia.
Qed.

Lemma digits_lsb_lt b : 0 < b -> forall fuel n, Forall (fun d => d < b) (digits_lsb b fuel n).
Proof.
  intros Hb. induction fuel as [|f IH]; intros n; cbn; [constructor|].
  destruct (n =? 0); [constructor|]. constructor; [apply N.mod_lt; lia|apply IH].
Qed.

Lemma digits_lsb_nonempty b fuel n : n <> 0 -> fuel <> O -> digits_lsb b fuel n <> [].
Proof. intros Hn Hf. destruct fuel; [congruence|]. cbn. destruct (N.eqb_spec n 0); congruence. Qed.

Lemma size_fuel n : n < 2 ^ N.of_nat (N.to_nat (N.size n)).
Proof. rewrite N2Nat.id. apply N.size_gt. Qed.

Lemma py_int_nosign b c r : c <> 43 -> c <> 45 ->
  py_int b (c :: r) =
  match digits_val b 0 true (if b =? 16 then strip_prefix16 (c :: r) else c :: r) with
  | Some n => Some (Z.of_N n) | None => None end.
Proof.
  intros H1 H2. unfold py_int. destruct c as [|p]; [reflexivity|].
  repeat (destruct p as [p|p|]; try reflexivity); congruence.
Qed.

Lemma strip_prefix16_id c r : Forall (fun x => x <> 120 /\ x <> 88) r -> strip_prefix16 (c :: r) = c :: r.
Proof.
  intro H. destruct r as [|x r]; unfold strip_prefix16.
  - destruct c as [|p]; [reflexivity|]. repeat (destruct p as [p|p|]; try reflexivity).
  - inversion H as [|? ? [Hx1 Hx2] _]; subst.
    apply N.eqb_neq in Hx1, Hx2.
    destruct c as [|p]; [reflexivity|].
    repeat (destruct p as [p|p|]; try reflexivity); rewrite Hx1, Hx2; reflexivity.
Qed.

Lemma digit_chars_facts b ds : (b = 10 \/ b = 16) -> Forall (fun d => d < b) ds ->
  Forall (fun c => c <> 120 /\ c <> 88 /\ c <> 43 /\ c <> 45 /\ is_space c = false) (map digit_char ds).
Proof.
  intros Hb H. induction H as [|d ds Hd _ IH]; cbn; constructor; [|exact IH].
  pose proof (digit_facts_all b d Hb Hd) as F. unfold digit_facts in F.
  repeat (apply andb_true_iff in F as [F ?]).
  repeat match goal with H : negb (_ =? _) = true |- _ => apply negb_true_iff, N.eqb_neq in H end.
  repeat match goal with H : negb _ = true |- _ => apply negb_true_iff in H end.
  repeat split; assumption.
Qed.

(* int(ds rendered in base b) *)
Lemma py_int_digits b ds : (b = 10 \/ b = 16) -> ds <> [] -> Forall (fun d => d < b) ds ->
  py_int b (map digit_char ds) = Some (Z.of_N (value b ds 0)).
Proof.
  intros Hb Hne Hall. pose proof (digit_chars_facts b ds Hb Hall) as F.
  destruct ds as [|d ds]; [congruence|]. cbn [map] in *.
  inversion F as [|? ? (_ & _ & F3 & F4 & _) Fr]; subst.
  rewrite py_int_nosign by assumption.
  assert (Hs : (if b =? 16 then strip_prefix16 (digit_char d :: map digit_char ds) else digit_char d :: map digit_char ds)
               = map digit_char (d :: ds)).
  { destruct (b =? 16); [|reflexivity]. apply strip_prefix16_id.
    eapply Forall_impl; [|exact Fr]. cbn. tauto. }
  rewrite Hs, (digits_val_digits b Hb (d :: ds) 0 true Hall) by (left; discriminate). reflexivity.
Qed.

Lemma py_int_dec n : py_int 10 (dec n) = Some (Z.of_N n).
Proof.
  unfold dec, to_base. destruct (N.eqb_spec n 0) as [->|Hn]; [reflexivity|].
  set (ds := digits_lsb 10 (N.to_nat (N.size n)) n).
  assert (Hf : N.to_nat (N.size n) <> O).
  { destruct n as [|p]; [congruence|]. cbn. pose proof (Pos2Nat.is_pos (Pos.size p)). lia. }
  rewrite py_int_digits.
  - rewrite value_rev. unfold ds. rewrite digits_lsb_lval; [reflexivity|lia|apply size_fuel].
  - now left.
  - intro E. apply (f_equal (@rev N)) in E. rewrite rev_involutive in E. cbn in E.
    eapply digits_lsb_nonempty; eauto.
  - apply Forall_rev. apply digits_lsb_lt. lia.
Qed.

(* hex *)
Fixpoint bval (l : list bool) : N := match l with [] => 0 | b :: r => 2 * bval r + b2n b end.
Lemma bval_pos_bits p : bval (pos_bits p) = Npos p.
Proof. induction p as [p IH|p IH|]; cbn [pos_bits bval b2n]; try rewrite IH; lia. Qed.

Lemma nibbles_lval : forall l, lval 16 (nibbles l) = bval l.
Proof.
  fix IH 1. intros [|b0 [|b1 [|b2 [|b3 r]]]]; cbn [nibbles lval bval].
  - reflexivity.
  - lia.
  - lia.
  - lia.
  - rewrite (IH r). lia.
Qed.

Lemma nibbles_lt : forall l, Forall (fun d => d < 16) (nibbles l).
Proof.
  fix IH 1. intros [|b0 [|b1 [|b2 [|b3 r]]]]; cbn [nibbles]; repeat constructor;
    try (destruct b0; try destruct b1; try destruct b2; try destruct b3; cbn; lia).
  apply IH.
Qed.

Lemma nibbles_nonempty l : l <> [] -> nibbles l <> [].
Proof. destruct l as [|b0 [|b1 [|b2 [|b3 r]]]]; cbn; congruence. Qed.

Lemma pos_bits_nonempty p : pos_bits p <> [].
Proof. destruct p; cbn; congruence. Qed.

Definition hex_digits (n : N) : list N :=
  match n with N0 => [0] | Npos p => rev (nibbles (pos_bits p)) end.
Lemma hex_as_digits n : hex n = map digit_char (hex_digits n).
Proof. destruct n; reflexivity. Qed.
Lemma hex_digits_ok n : hex_digits n <> [] /\ Forall (fun d => d < 16) (hex_digits n) /\ value 16 (hex_digits n) 0 = n.
Proof.
  destruct n as [|p]; cbn [hex_digits].
  - repeat split; [discriminate|repeat constructor; lia].
  - repeat split.
    + intro E. apply (f_equal (@rev N)) in E. rewrite rev_involutive in E. cbn in E.
      eapply nibbles_nonempty; [apply pos_bits_nonempty|exact E].
    + apply Forall_rev, nibbles_lt.
    + rewrite value_rev, nibbles_lval. apply bval_pos_bits.
Qed.

Lemma value_zeros k ds : value 16 (repeat 0 k ++ ds) 0 = value 16 ds 0.
Proof. unfold value. rewrite fold_left_app. f_equal. induction k; cbn; [reflexivity|exact IHk]. Qed.

Lemma rjust_as_digits w n : rjust0 w (hex n) = map digit_char (repeat 0 (w - length (hex n)) ++ hex_digits n).
Proof.
  unfold rjust0. rewrite map_app, hex_as_digits. f_equal.
  induction (w - length (map digit_char (hex_digits n)))%nat; cbn; congruence.
Qed.

Lemma py_int_hex w n : py_int 16 (rjust0 w (hex n)) = Some (Z.of_N n).
Proof.
  destruct (hex_digits_ok n) as (Hne & Hlt & Hv).
  rewrite rjust_as_digits, py_int_digits.
  - now rewrite value_zeros, Hv.
  - now right.
  - destruct (repeat 0 (w - length (hex n))); cbn; [exact Hne|discriminate].
  - apply Forall_app. split; [|exact Hlt]. apply Forall_forall. intros x Hx. apply repeat_spec in Hx. lia.
Qed.
