(* Proofs_C20.v — lemmas and proofs for C20 (see Prop_C20.v for the closed statements). *)
From Coq Require Import List NArith ZArith Bool Lia Sorting.Sorted.
Import ListNotations.
From Verif Require Import Base.Val C18.Fs C18.FsLemmas C18.Model_C18 gen.Tables_C20 C20.Model_C20 C20.Spec_C20.

(* ------------------------------------------------------------------ sub-filesystems *)
Definition sub (a b : fs) : Prop := forall q n, lookup a q = Some n -> lookup b q = Some n.

Lemma sub_refl a : sub a a.
Proof. intros q n H; exact H. Qed.

Lemma sub_trans a b c : sub a b -> sub b c -> sub a c.
Proof. intros H1 H2 q n H; auto. Qed.

Lemma sub_remove s p : sub (remove s p) s.
Proof.
  intros q n H. destruct (path_eq_dec q p) as [->|Hn].
  - rewrite lookup_remove_same in H; discriminate.
  - rewrite lookup_remove_other in H; auto.
Qed.

(* ------------------------------------------------------------------ name resolution is monotone *)
Definition unbound_res (a : fs) (r : wres) : Prop :=
  r = WNoEnt \/ exists q, r = WOk q /\ lookup a q = None /\ q <> [].

Lemma walk_sub a b : sub a b -> forall f cur todo fl,
  walk f a cur todo fl = walk f b cur todo fl \/ unbound_res a (walk f a cur todo fl).
Proof.
  intros S f; induction f as [|f IH]; intros cur todo fl; cbn [walk].
  - left; reflexivity.
  - destruct todo as [|c rest]; [left; reflexivity|].
    destruct (str_eqb c DOT); [apply IH|].
    destruct (str_eqb c DOTDOT); [apply IH|].
    destruct (lookup a (cur ++ [c])) as [n|] eqn:E.
    + rewrite (S _ _ E). destruct n; try (destruct (is_nil rest); left; reflexivity); try apply IH.
      destruct (is_nil rest && negb fl); [left; reflexivity|apply IH].
    + destruct (is_nil rest).
      * right; right. exists (cur ++ [c]). repeat split; auto.
        intro H; apply app_eq_nil in H; destruct H; discriminate.
      * right; left.
        destruct (lookup b (cur ++ [c])) as [[]|]; reflexivity.
Qed.
(* ------------------------------------------------------------------ lstat / canon corollaries *)
Definition bound (s : fs) (c : path) : Prop := node_at s c <> None.

Lemma node_at_sub a b c n : sub a b -> node_at a c = Some n -> node_at b c = Some n.
Proof. intros S. destruct c; cbn; auto. Qed.

Lemma canon_sub_cases a b p : sub a b ->
  canon a p = canon b p \/ unbound_res a (canon a p).
Proof. intros S. exact (walk_sub a b S FUEL [] p false). Qed.

Global Opaque canon rcanon.

Lemma canon_sub_bound a b p c : sub a b -> canon a p = WOk c -> bound a c -> canon b p = WOk c.
Proof.
  intros S H B.
  destruct (canon_sub_cases a b p S) as [E|[E|(q & E & L & NE)]].
  - congruence.
  - congruence.
  - rewrite H in E. injection E as <-. exfalso. apply B.
    destruct c; [congruence|exact L].
Qed.



Lemma lstat_some s p c d : lstat s p = Some (c, d) ->
  canon s p = WOk c /\ exists n, node_at s c = Some n /\ is_dir_node n = d.
Proof.
  unfold lstat. destruct (canon s p) as [cp| |]; try discriminate.
  destruct (node_at s cp) eqn:E; try discriminate.
  intros H; injection H as <- <-. split; [reflexivity|eauto].
Qed.

Lemma lstat_sub a b p c d : sub a b -> lstat a p = Some (c, d) -> lstat b p = Some (c, d).
Proof.
  intros S H. apply lstat_some in H. destruct H as (H & n & Hn & Hd).
  unfold lstat. rewrite (canon_sub_bound a b p c S H) by (unfold bound; congruence).
  rewrite (node_at_sub a b c n S Hn). rewrite Hd. reflexivity.
Qed.

Lemma lstat_sub_none a b p : sub a b -> lstat b p = None -> lstat a p = None.
Proof.
  intros S H. destruct (lstat a p) as [[c d]|] eqn:E; [|reflexivity].
  rewrite (lstat_sub a b p c d S E) in H. discriminate.
Qed.

Lemma unbound_lstat s p : unbound_res s (canon s p) -> lstat s p = None.
Proof.
  unfold lstat. intros [E|(q & E & L & NE)]; rewrite E; [reflexivity|].
  destruct q; [congruence|]. cbn. rewrite L. reflexivity.
Qed.

(* ------------------------------------------------------------------ the two kinds of attempt *)
Lemma unlink_step_done s p cp s' : unlink_step s p = Done cp s' ->
  canon s p = WOk cp /\ s' = remove s cp /\ exists n, lookup s cp = Some n /\ is_dir_node n = false.
Proof.
  unfold unlink_step. destruct (canon s p) as [c| |]; try discriminate.
  cbn [apply_op]. destruct (lookup s c) as [n|] eqn:E.
  - destruct (is_dir_node n) eqn:D.
    + destruct (node_at s c); discriminate.
    + intros H; injection H as <- <-. eauto.
  - destruct (node_at s c); discriminate.
Qed.

Lemma rmdir_step_done s p cp s' : rmdir_step s p = Done cp s' ->
  canon s p = WOk cp /\ s' = remove s cp /\
  exists n, lookup s cp = Some n /\ is_dir_node n = true /\ has_child s cp = false.
Proof.
  unfold rmdir_step. destruct (canon s p) as [c| |].
  - cbn [apply_op]. destruct (lookup s c) as [n|] eqn:E.
    + destruct (is_dir_node n) eqn:D; cbn [andb].
      * destruct (has_child s c) eqn:Hc; cbn [negb].
        -- destruct (errno_ignored _); discriminate.
        -- intros H; injection H as <- <-. eauto 6.
      * destruct (errno_ignored _); discriminate.
    + destruct (errno_ignored _); discriminate.
  - destruct (errno_ignored _); discriminate.
  - destruct (errno_ignored _); discriminate.
Qed.

Lemma rmdir_step_iff s p c :
  (exists s', rmdir_step s p = Done c s') <->
  (canon s p = WOk c /\ (exists n, lookup s c = Some n /\ is_dir_node n = true) /\ has_child s c = false).
Proof.
  split.
  - intros (s' & H). apply rmdir_step_done in H. destruct H as (H1 & _ & n & H2 & H3 & H4). eauto.
  - intros (H1 & (n & H2 & H3) & H4). unfold rmdir_step. rewrite H1. cbn [apply_op].
    rewrite H2, H3, H4. cbn. eauto.
Qed.

(* the rmdir loop ignores every failure the model can produce: facts about the regenerated tuple *)
Lemma ign_noent : errno_ignored E_NOENT = true.  Proof. vm_compute; reflexivity. Qed.
Lemma ign_notdir : errno_ignored E_NOTDIR = true.  Proof. vm_compute; reflexivity. Qed.
Lemma ign_notempty : errno_ignored E_NOTEMPTY = true.  Proof. vm_compute; reflexivity. Qed.
Lemma ign_busy : errno_ignored E_BUSY = true.  Proof. vm_compute; reflexivity. Qed.

Lemma rmdir_step_never_raises s p : rmdir_step s p <> Raised.
Proof.
  unfold rmdir_step. destruct (canon s p) as [c| |].
  - destruct (apply_op s (Rmdir c)); [discriminate|].
    destruct (node_at s c) as [n|].
    + destruct (is_dir_node n).
      * destruct c; [rewrite ign_busy|rewrite ign_notempty]; discriminate.
      * rewrite ign_notdir; discriminate.
    + rewrite ign_noent; discriminate.
  - rewrite ign_noent; discriminate.
  - rewrite ign_notdir; discriminate.
Qed.

(* a step either removes the bound object its name denotes right now, or changes nothing *)
Definition step_removes (stepf : fs -> path -> step) : Prop :=
  forall s p cp s', stepf s p = Done cp s' ->
    canon s p = WOk cp /\ s' = remove s cp /\ lookup s cp <> None.

Lemma unlink_removes : step_removes unlink_step.
Proof.
  intros s p cp s' H. apply unlink_step_done in H. destruct H as (H1 & H2 & n & H3 & _).
  repeat split; auto. congruence.
Qed.
Lemma rmdir_removes : step_removes rmdir_step.
Proof.
  intros s p cp s' H. apply rmdir_step_done in H. destruct H as (H1 & H2 & n & H3 & _).
  repeat split; auto. congruence.
Qed.

(* ------------------------------------------------------------------ one phase *)
Lemma replay_app s t1 t2 : replay (replay s t1) t2 = replay s (t1 ++ t2).
Proof. unfold replay. rewrite fold_left_app. reflexivity. Qed.

Section phase.
Variable rm : bool.
Variable stepf : fs -> path -> step.
Hypothesis SR : step_removes stepf.

Lemma phase_replay ps : forall s t s' e, phase rm stepf s ps = (t, s', e) -> s' = replay s t.
Proof.
  induction ps as [|p r IH]; intros s t s' e H; cbn in H.
  - injection H as <- <- <-. reflexivity.
  - destruct (stepf s p) as [cp s1| |] eqn:E.
    + destruct (phase rm stepf s1 r) as [[t2 s2] e2] eqn:P. injection H as <- <- <-.
      apply SR in E. destruct E as (_ & -> & _). cbn. apply (IH _ _ _ _ P).
    + destruct (phase rm stepf s r) as [[t2 s2] e2] eqn:P. injection H as <- <- <-.
      cbn. apply (IH _ _ _ _ P).
    + injection H as <- <- <-. reflexivity.
Qed.

Lemma phase_sub ps : forall s t s' e, phase rm stepf s ps = (t, s', e) -> sub s' s.
Proof.
  induction ps as [|p r IH]; intros s t s' e H; cbn in H.
  - injection H as <- <- <-. apply sub_refl.
  - destruct (stepf s p) as [cp s1| |] eqn:E.
    + destruct (phase rm stepf s1 r) as [[t2 s2] e2] eqn:P. injection H as <- <- <-.
      apply SR in E. destruct E as (_ & -> & _).
      eapply sub_trans; [apply (IH _ _ _ _ P)|apply sub_remove].
    + destruct (phase rm stepf s r) as [[t2 s2] e2] eqn:P. injection H as <- <- <-.
      apply (IH _ _ _ _ P).
    + injection H as <- <- <-. apply sub_refl.
Qed.

(* every event is an attempt on a name of the list, of this phase's kind *)
Lemma phase_events ps : forall s t s' e, phase rm stepf s ps = (t, s', e) ->
  forall x, In x t -> ev_rm x = rm /\ In (ev_lit x) ps.
Proof.
  induction ps as [|p r IH]; intros s t s' e H x Hx; cbn in H.
  - injection H as <- <- <-. destruct Hx.
  - destruct (stepf s p) as [cp s1| |] eqn:E.
    + destruct (phase rm stepf s1 r) as [[t2 s2] e2] eqn:P. injection H as <- <- <-.
      destruct Hx as [<-|Hx]; [cbn; auto|].
      destruct (IH _ _ _ _ P x Hx); cbn; auto.
    + destruct (phase rm stepf s r) as [[t2 s2] e2] eqn:P. injection H as <- <- <-.
      destruct Hx as [<-|Hx]; [cbn; auto|].
      destruct (IH _ _ _ _ P x Hx); cbn; auto.
    + injection H as <- <- <-. destruct Hx as [<-|[]]. cbn; auto.
Qed.

(* a successful call removed the object its name denoted in the ORIGINAL tree s0 as well *)
Lemma phase_sound ps : forall s0 s t s' e, sub s s0 -> phase rm stepf s ps = (t, s', e) ->
  forall x c, In x t -> ev_res x = Some c -> canon s0 (ev_lit x) = WOk c /\ lookup s0 c <> None.
Proof.
  induction ps as [|p r IH]; intros s0 s t s' e S H x c Hx Hc; cbn in H.
  - injection H as <- <- <-. destruct Hx.
  - destruct (stepf s p) as [cp s1| |] eqn:E.
    + destruct (phase rm stepf s1 r) as [[t2 s2] e2] eqn:P. injection H as <- <- <-.
      apply SR in E. destruct E as (E1 & -> & E3).
      destruct Hx as [<-|Hx].
      * cbn in Hc. injection Hc as <-. cbn [ev_lit]. split.
        -- apply (canon_sub_bound s s0 p cp S E1). unfold bound. destruct cp; cbn; congruence.
        -- destruct (lookup s cp) eqn:L; [|congruence]. rewrite (S _ _ L). discriminate.
      * apply (IH s0 _ _ _ _ (sub_trans _ _ _ (sub_remove s cp) S) P x c Hx Hc).
    + destruct (phase rm stepf s r) as [[t2 s2] e2] eqn:P. injection H as <- <- <-.
      destruct Hx as [<-|Hx]; [discriminate|].
      apply (IH s0 _ _ _ _ S P x c Hx Hc).
    + injection H as <- <- <-. destruct Hx as [<-|[]]. discriminate.
Qed.

(* what changed was removed by a successful call *)
Lemma phase_frame ps : forall s t s' e, phase rm stepf s ps = (t, s', e) ->
  forall q, lookup s' q = lookup s q \/
            (lookup s' q = None /\ exists x, In x t /\ ev_res x = Some q).
Proof.
  induction ps as [|p r IH]; intros s t s' e H q; cbn in H.
  - injection H as <- <- <-. left; reflexivity.
  - destruct (stepf s p) as [cp s1| |] eqn:E.
    + destruct (phase rm stepf s1 r) as [[t2 s2] e2] eqn:P. injection H as <- <- <-.
      apply SR in E. destruct E as (E1 & -> & E3).
      destruct (IH _ _ _ _ P q) as [Q|(Q & x & Hx & Hr)].
      * destruct (path_eq_dec q cp) as [->|Hn].
        -- right. rewrite Q, lookup_remove_same. split; [reflexivity|].
           exists (Ev rm p (Some cp)). split; [left; reflexivity|reflexivity].
        -- left. rewrite Q. apply lookup_remove_other; exact Hn.
      * right. split; [exact Q|]. exists x. split; [right; exact Hx|exact Hr].
    + destruct (phase rm stepf s r) as [[t2 s2] e2] eqn:P. injection H as <- <- <-.
      destruct (IH _ _ _ _ P q) as [Q|(Q & x & Hx & Hr)]; [left; exact Q|].
      right. split; [exact Q|]. exists x. split; [right; exact Hx|exact Hr].
    + injection H as <- <- <-. left; reflexivity.
Qed.

(* without an exception every listed name gets its attempt, and the attempt is the step
   function applied to the state reached by the calls before it *)
Lemma phase_attempts ps : forall s t s', phase rm stepf s ps = (t, s', false) ->
  forall p, In p ps -> exists t1 res t2, t = t1 ++ Ev rm p res :: t2 /\
    match res with
    | Some c => exists s1, stepf (replay s t1) p = Done c s1
    | None => stepf (replay s t1) p = Ignored
    end.
Proof.
  induction ps as [|p0 r IH]; intros s t s' H p Hp; cbn in H; [destruct Hp|].
  destruct (stepf s p0) as [cp s1| |] eqn:E.
  - destruct (phase rm stepf s1 r) as [[t2 s2] e2] eqn:P. injection H as <- <- ->.
    destruct Hp as [->|Hp].
    + exists [], (Some cp), t2. split; [reflexivity|]. cbn. eauto.
    + destruct (IH _ _ _ P p Hp) as (t1 & res & t3 & -> & Hs).
      exists (Ev rm p0 (Some cp) :: t1), res, t3. split; [reflexivity|].
      apply SR in E. destruct E as (_ & -> & _). exact Hs.
  - destruct (phase rm stepf s r) as [[t2 s2] e2] eqn:P. injection H as <- <- ->.
    destruct Hp as [->|Hp].
    + exists [], None, t2. split; [reflexivity|]. cbn. exact E.
    + destruct (IH _ _ _ P p Hp) as (t1 & res & t3 & -> & Hs).
      exists (Ev rm p0 None :: t1), res, t3. split; [reflexivity|]. exact Hs.
  - discriminate.
Qed.
End phase.

(* ------------------------------------------------------------------ membership in the csets *)
Lemma mem_path_In p l : mem_path p l = true <-> In p l.
Proof.
  unfold mem_path. rewrite existsb_exists. split.
  - intros (q & Hq & H). destruct (path_eq_dec p q); [subst; exact Hq|discriminate].
  - intros H. exists p. split; [exact H|]. destruct (path_eq_dec p p); congruence.
Qed.

Lemma mem_path_false p l : mem_path p l = false <-> ~ In p l.
Proof.
  rewrite <- mem_path_In. destruct (mem_path p l); split; congruence.
Qed.

Lemma In_intersect s ps p d :
  In (p, d) (intersect s ps) <-> In p ps /\ exists c, lstat s p = Some (c, d).
Proof.
  unfold intersect. rewrite in_flat_map. split.
  - intros (q & Hq & H). destruct (lstat s q) as [[c d']|] eqn:E; [|destruct H].
    destruct H as [H|[]]. injection H as -> ->. eauto.
  - intros (H & c & E). exists p. split; [exact H|]. rewrite E. left; reflexivity.
Qed.

Lemma In_canon_list s ps c :
  In c (canon_list s ps) <-> exists p, In p ps /\ canon s p = WOk c.
Proof.
  unfold canon_list, canon_opt. rewrite in_flat_map. split.
  - intros (p & Hp & H). exists p. split; [exact Hp|].
    destruct (canon s p) as [c0| |]; [|destruct H|destruct H]. destruct H as [->|[]]. reflexivity.
  - intros (p & Hp & E). exists p. split; [exact Hp|]. rewrite E. left; reflexivity.
Qed.

Lemma In_remove_cset s old new e :
  In e (remove_cset s old new) <->
  In e old /\ ~ In (fst e) new /\
  (forall n c, In n new -> canon s n = WOk c -> canon s (fst e) <> WOk c).
Proof.
  unfold remove_cset. rewrite filter_In. unfold keep_removed.
  rewrite andb_true_iff, !negb_true_iff, mem_path_false. unfold canon_opt.
  split; intros (H1 & H2 & H3); (split; [exact H1|split; [exact H2|]]).
  - intros n c Hn Hc E. rewrite E in H3. apply mem_path_false in H3. apply H3.
    apply In_canon_list. eauto.
  - destruct (canon s (fst e)) as [c| |] eqn:E; try reflexivity.
    apply mem_path_false. intro H. apply In_canon_list in H. destruct H as (n & Hn & Hc).
    exact (H3 n c Hn Hc eq_refl).
Qed.

Lemma protect_first_true i : protect_first (engine_mode i) = true.
Proof. unfold engine_mode. destruct (u_new i); vm_compute; reflexivity. Qed.

Lemma In_protect i off l e :
  In e (protect (engine_mode i) off l) <-> In e l /\ ~ In (fst e) (protected off).
Proof.
  unfold protect. rewrite protect_first_true, filter_In, negb_true_iff, mem_path_false. tauto.
Qed.

Lemma In_uninstall_cset i p d :
  In (p, d) (uninstall_cset i) <-> removable i p /\ exists c, lstat (u_fs i) p = Some (c, d).
Proof.
  unfold uninstall_cset, removable, old_names, new_names, protected_names.
  rewrite In_protect. cbn [fst].
  destruct (u_new i) as [ns|].
  - rewrite In_remove_cset, In_intersect. cbn [fst]. split.
    + intros (((H1 & c & H2) & H3 & H4) & H5). repeat split; eauto. congruence.
    + intros ((H1 & H2 & H3 & H4 & H5) & c & H6). repeat split; eauto.
  - rewrite In_intersect. split.
    + intros ((H1 & c & H2) & H3). repeat split; eauto. congruence.
    + intros ((H1 & H2 & H3 & H4 & H5) & c & H6). repeat split; eauto.
Qed.

Lemma In_nondirs cs p : In p (nondirs cs) <-> In (p, false) cs.
Proof.
  unfold nondirs. rewrite in_map_iff. split.
  - intros ([q d] & <- & H). apply filter_In in H. destruct H as (H & D). cbn in *.
    destruct d; [discriminate|exact H].
  - intros H. exists (p, false). split; [reflexivity|]. apply filter_In. split; [exact H|reflexivity].
Qed.

Lemma In_dirs cs p : In p (dirs cs) <-> In (p, true) cs.
Proof.
  unfold dirs. rewrite in_map_iff. split.
  - intros ([q d] & <- & H). apply filter_In in H. destruct H as (H & D). cbn in *.
    destruct d; [exact H|discriminate].
  - intros H. exists (p, true). split; [reflexivity|]. apply filter_In. split; [exact H|reflexivity].
Qed.

Lemma In_insert_desc x y l : In x (insert_desc y l) <-> x = y \/ In x l.
Proof.
  induction l as [|z l IH]; cbn.
  - intuition.
  - destruct (loc_ltb y z); cbn; rewrite ?IH; intuition.
Qed.

Lemma In_sort_desc x l : In x (sort_desc l) <-> In x l.
Proof.
  induction l as [|y l IH]; cbn; [tauto|].
  rewrite In_insert_desc, IH. intuition.
Qed.

(* ------------------------------------------------------------------ the whole unmerge *)
Lemma unmerge_split s cs t s' e : unmerge s cs = (t, s', e) ->
  exists t1 s1 e1, phase false unlink_step s (nondirs cs) = (t1, s1, e1) /\
    ((e1 = true /\ t = t1 /\ s' = s1 /\ e = true) \/
     (e1 = false /\ exists t2, phase true rmdir_step s1 (sort_desc (dirs cs)) = (t2, s', e) /\ t = t1 ++ t2)).
Proof.
  unfold unmerge. destruct (phase false unlink_step s (nondirs cs)) as [[t1 s1] e1] eqn:P1.
  exists t1, s1, e1. split; [reflexivity|]. destruct e1.
  - injection H as <- <- <-. left; auto.
  - destruct (phase true rmdir_step s1 (sort_desc (dirs cs))) as [[t2 s2] e2] eqn:P2.
    injection H as <- <- <-. right. split; [reflexivity|]. exists t2. auto.
Qed.

Lemma unmerge_sub s cs t s' e : unmerge s cs = (t, s', e) -> sub s' s.
Proof.
  intros H. apply unmerge_split in H. destruct H as (t1 & s1 & e1 & P1 & [(-> & -> & -> & ->)|(-> & t2 & P2 & ->)]).
  - apply (phase_sub _ _ unlink_removes _ _ _ _ _ P1).
  - eapply sub_trans; [apply (phase_sub _ _ rmdir_removes _ _ _ _ _ P2)|apply (phase_sub _ _ unlink_removes _ _ _ _ _ P1)].
Qed.

Lemma unmerge_replay s cs t s' e : unmerge s cs = (t, s', e) -> s' = replay s t.
Proof.
  intros H. apply unmerge_split in H. destruct H as (t1 & s1 & e1 & P1 & [(-> & -> & -> & ->)|(-> & t2 & P2 & ->)]).
  - apply (phase_replay _ _ unlink_removes _ _ _ _ _ P1).
  - rewrite <- replay_app. rewrite <- (phase_replay _ _ unlink_removes _ _ _ _ _ P1).
    apply (phase_replay _ _ rmdir_removes _ _ _ _ _ P2).
Qed.

(* every successful call acted on the object that a listed name of the matching kind denotes in
   the tree the unmerge started from *)
Lemma unmerge_sound s cs t s' e : unmerge s cs = (t, s', e) ->
  forall x c, In x t -> ev_res x = Some c ->
    canon s (ev_lit x) = WOk c /\ lookup s c <> None /\ In (ev_lit x, ev_rm x) cs.
Proof.
  intros H x c Hx Hc. apply unmerge_split in H.
  destruct H as (t1 & s1 & e1 & P1 & [(-> & -> & -> & ->)|(-> & t2 & P2 & ->)]).
  - destruct (phase_sound _ _ unlink_removes _ s s _ _ _ (sub_refl s) P1 x c Hx Hc) as (A & B).
    destruct (phase_events _ _ _ _ _ _ _ P1 x Hx) as (C & D). rewrite C. apply In_nondirs in D. auto.
  - apply in_app_or in Hx. destruct Hx as [Hx|Hx].
    + destruct (phase_sound _ _ unlink_removes _ s s _ _ _ (sub_refl s) P1 x c Hx Hc) as (A & B).
      destruct (phase_events _ _ _ _ _ _ _ P1 x Hx) as (C & D). rewrite C. apply In_nondirs in D. auto.
    + pose proof (phase_sub _ _ unlink_removes _ _ _ _ _ P1) as S1.
      destruct (phase_sound _ _ rmdir_removes _ s s1 _ _ _ S1 P2 x c Hx Hc) as (A & B).
      destruct (phase_events _ _ _ _ _ _ _ P2 x Hx) as (C & D). rewrite C.
      apply In_sort_desc, In_dirs in D. auto.
Qed.

Lemma unmerge_frame_gen s cs t s' e : unmerge s cs = (t, s', e) ->
  forall q, lookup s' q = lookup s q \/ (lookup s' q = None /\ exists x, In x t /\ ev_res x = Some q).
Proof.
  intros H q. apply unmerge_split in H.
  destruct H as (t1 & s1 & e1 & P1 & [(-> & -> & -> & ->)|(-> & t2 & P2 & ->)]).
  - apply (phase_frame _ _ unlink_removes _ _ _ _ _ P1 q).
  - destruct (phase_frame _ _ rmdir_removes _ _ _ _ _ P2 q) as [Q2|(Q2 & x & Hx & Hr)].
    + destruct (phase_frame _ _ unlink_removes _ _ _ _ _ P1 q) as [Q1|(Q1 & x & Hx & Hr)].
      * left; congruence.
      * right. split; [congruence|]. exists x. split; [apply in_or_app; left; exact Hx|exact Hr].
    + right. split; [exact Q2|]. exists x. split; [apply in_or_app; right; exact Hx|exact Hr].
Qed.

(* ------------------------------------------------------------------ no exception; non-directories go *)
Lemma unlink_step_ok s0 s p c : sub s s0 -> lstat s0 p = Some (c, false) ->
  (unlink_step s p = Done c (remove s c) /\ c <> []) \/ (unlink_step s p = Ignored /\ lstat s p = None).
Proof.
  intros S H. apply lstat_some in H. destruct H as (H & n & Hn & Hd).
  assert (Hc : c <> []) by (intros ->; cbn in Hn; injection Hn as <-; discriminate).
  assert (L0 : lookup s0 c = Some n) by (destruct c; [congruence|exact Hn]).
  destruct (canon_sub_cases s s0 p S) as [E|U].
  - rewrite H in E. unfold unlink_step. rewrite E. cbn [apply_op].
    destruct (lookup s c) as [n'|] eqn:L.
    + pose proof (S _ _ L) as L'. rewrite L0 in L'. injection L' as <-. rewrite Hd. left; auto.
    + right. assert (node_at s c = None) as -> by (destruct c; [congruence|exact L]).
      split; [reflexivity|]. unfold lstat. rewrite E.
      assert (node_at s c = None) as -> by (destruct c; [congruence|exact L]). reflexivity.
  - right. split; [|apply unbound_lstat; exact U].
    unfold unlink_step. destruct U as [->|(q & -> & L & NE)]; [reflexivity|].
    cbn [apply_op]. rewrite L.
    assert (node_at s q = None) as -> by (destruct q; [congruence|exact L]). reflexivity.
Qed.

Lemma unlink_phase_ok ps : forall s0 s t s' e, sub s s0 ->
  (forall p, In p ps -> exists c, lstat s0 p = Some (c, false)) ->
  phase false unlink_step s ps = (t, s', e) ->
  e = false /\ forall p, In p ps -> lstat s' p = None.
Proof.
  induction ps as [|p r IH]; intros s0 s t s' e S A H; cbn in H.
  - injection H as <- <- <-. split; [reflexivity|intros ? []].
  - destruct (A p (or_introl eq_refl)) as (c & Hl).
    destruct (unlink_step_ok s0 s p c S Hl) as [(E & Hc)|(E & Hn)]; rewrite E in H.
    + destruct (phase false unlink_step (remove s c) r) as [[t2 s2] e2] eqn:P. injection H as <- <- <-.
      assert (S1 : sub (remove s c) s0) by (eapply sub_trans; [apply sub_remove|exact S]).
      destruct (IH s0 _ _ _ _ S1 (fun q Hq => A q (or_intror Hq)) P) as (-> & G).
      split; [reflexivity|]. intros q [<-|Hq]; [|apply G; exact Hq].
      apply (lstat_sub_none s2 (remove s c) p (phase_sub _ _ unlink_removes _ _ _ _ _ P)).
      destruct (lstat (remove s c) p) as [[c' d']|] eqn:L; [|reflexivity]. exfalso.
      pose proof (lstat_sub _ _ _ _ _ S1 L) as L0. rewrite Hl in L0. injection L0 as <- <-.
      apply lstat_some in L. destruct L as (_ & n & Hn & _).
      destruct c; [congruence|]. cbn in Hn. rewrite lookup_remove_same in Hn. discriminate.
    + destruct (phase false unlink_step s r) as [[t2 s2] e2] eqn:P. injection H as <- <- <-.
      destruct (IH s0 _ _ _ _ S (fun q Hq => A q (or_intror Hq)) P) as (-> & G).
      split; [reflexivity|]. intros q [<-|Hq]; [|apply G; exact Hq].
      apply (lstat_sub_none s2 s p (phase_sub _ _ unlink_removes _ _ _ _ _ P) Hn).
Qed.

Lemma rmdir_phase_noraise ps : forall s t s' e, phase true rmdir_step s ps = (t, s', e) -> e = false.
Proof.
  induction ps as [|p r IH]; intros s t s' e H; cbn in H.
  - injection H as <- <- <-. reflexivity.
  - destruct (rmdir_step s p) as [cp s1| |] eqn:E.
    + destruct (phase true rmdir_step s1 r) as [[t2 s2] e2] eqn:P. injection H as <- <- <-. apply (IH _ _ _ _ P).
    + destruct (phase true rmdir_step s r) as [[t2 s2] e2] eqn:P. injection H as <- <- <-. apply (IH _ _ _ _ P).
    + exfalso. exact (rmdir_step_never_raises s p E).
Qed.

(* a cset whose entries carry the live type seen in the very tree being unmerged *)
Definition live_typed (s : fs) (cs : list entry) : Prop :=
  forall p d, In (p, d) cs -> exists c, lstat s p = Some (c, d).

Lemma unmerge_ok s cs t s' e : live_typed s cs -> unmerge s cs = (t, s', e) ->
  e = false /\ forall p, In (p, false) cs -> lstat s' p = None.
Proof.
  intros LT H. apply unmerge_split in H. destruct H as (t1 & s1 & e1 & P1 & HH).
  assert (A : forall p, In p (nondirs cs) -> exists c, lstat s p = Some (c, false))
    by (intros p Hp; apply In_nondirs in Hp; exact (LT _ _ Hp)).
  destruct (unlink_phase_ok _ s s _ _ _ (sub_refl s) A P1) as (-> & G).
  destruct HH as [(HF & _)|(_ & t2 & P2 & ->)]; [discriminate|].
  split; [apply (rmdir_phase_noraise _ _ _ _ _ P2)|].
  intros p Hp. apply (lstat_sub_none s' s1 p (phase_sub _ _ rmdir_removes _ _ _ _ _ P2)).
  apply G. apply In_nondirs. exact Hp.
Qed.

Lemma uninstall_cset_live i : live_typed (u_fs i) (uninstall_cset i).
Proof. intros p d H. apply In_uninstall_cset in H. tauto. Qed.

(* ================================================================== the property theorems *)
Local Open Scope bs_scope.

Theorem unmerge_never_raises_proof : forall i t s' e, run_engine i = (t, s', e) -> e = false.
Proof. intros i t s' e H. exact (proj1 (unmerge_ok _ _ _ _ _ (uninstall_cset_live i) H)). Qed.

Theorem unmerge_trace_is_effect_proof : forall i t s' e, run_engine i = (t, s', e) ->
  s' = replay (u_fs i) t.
Proof. intros i t s' e H. exact (unmerge_replay _ _ _ _ _ H). Qed.

Theorem unmerge_nondirs_gone_proof : forall i t s' e, run_engine i = (t, s', e) -> nondirs_gone i s'.
Proof.
  intros i t s' e H p c R L. unfold absent.
  apply (proj2 (unmerge_ok _ _ _ _ _ (uninstall_cset_live i) H)).
  apply In_uninstall_cset. eauto.
Qed.

Theorem unmerge_nothing_unlisted_proof : forall i t s' e, run_engine i = (t, s', e) -> nothing_unlisted i s'.
Proof.
  intros i t s' e H q. destruct (unmerge_frame_gen _ _ _ _ _ H q) as [Q|(Q & x & Hx & Hr)]; [left; exact Q|].
  right. split; [exact Q|]. destruct (unmerge_sound _ _ _ _ _ H x q Hx Hr) as (A & _ & C).
  exists (ev_lit x). split; [|exact A]. apply In_uninstall_cset in C. tauto.
Qed.

(* every successful call: the name is removable, the object is the one the UNFOLLOWED name denotes
   in the tree the unmerge started from, unlink for live non-directories / rmdir for live directories *)
Theorem unmerge_calls_exact_proof : forall i t s' e, run_engine i = (t, s', e) ->
  forall x c, In x t -> ev_res x = Some c ->
    removable i (ev_lit x) /\ lstat (u_fs i) (ev_lit x) = Some (c, ev_rm x).
Proof.
  intros i t s' e H x c Hx Hr. destruct (unmerge_sound _ _ _ _ _ H x c Hx Hr) as (A & _ & C).
  apply In_uninstall_cset in C. destruct C as (R & c' & L). split; [exact R|].
  pose proof (lstat_some _ _ _ _ L) as (A' & _). rewrite A in A'. injection A' as <-. exact L.
Qed.

Theorem unmerge_dirs_iff_empty_proof : forall i t s' e p c0, run_engine i = (t, s', e) ->
  removable i p -> lstat (u_fs i) p = Some (c0, true) ->
  exists t1 res t2, t = t1 ++ Ev true p res :: t2 /\
    let sk := replay (u_fs i) t1 in
    forall c, res = Some c <->
      (canon sk p = WOk c /\ (exists n, lookup sk c = Some n /\ is_dir_node n = true) /\ has_child sk c = false).
Proof.
  intros i t s' e p c0 H R L.
  assert (In (p, true) (uninstall_cset i)) as Hin by (apply In_uninstall_cset; eauto).
  pose proof (unmerge_never_raises_proof _ _ _ _ H) as ->.
  unfold run_engine in H. apply unmerge_split in H.
  destruct H as (t1 & s1 & e1 & P1 & [(_ & _ & _ & HF)|(-> & t2 & P2 & ->)]); [discriminate|].
  assert (In p (sort_desc (dirs (uninstall_cset i)))) as Hp by (apply In_sort_desc, In_dirs; exact Hin).
  destruct (phase_attempts _ _ rmdir_removes _ _ _ _ P2 p Hp) as (ta & res & tb & -> & Hs).
  exists (t1 ++ ta), res, tb. split; [rewrite <- app_assoc; reflexivity|].
  cbn zeta. rewrite <- replay_app. rewrite <- (phase_replay _ _ unlink_removes _ _ _ _ _ P1).
  intros c. rewrite <- rmdir_step_iff. destruct res as [c1|].
  - destruct Hs as (sx & Hs). split.
    + intros E; injection E as <-. eauto.
    + intros (sy & E). rewrite Hs in E. injection E as -> _. reflexivity.
  - split; [discriminate|]. intros (sy & E). rewrite Hs in E. discriminate.
Qed.

Theorem unmerge_symlink_targets_kept_proof : forall i t s' e, run_engine i = (t, s', e) ->
  symlink_targets_kept i s'.
Proof.
  intros i t s' e H p c r tg u g m _ _ _ _ NO.
  destruct (unmerge_nothing_unlisted_proof _ _ _ _ H r) as [Q|(_ & O)]; [exact Q|contradiction].
Qed.

(* ---- protected base directories *)
Theorem protected_never_listed_proof : forall i t s' e, run_engine i = (t, s', e) ->
  forall x, In x t -> In (ev_lit x) (protected_names i) -> ev_res x = None.
Proof.
  intros i t s' e H x Hx Hp. destruct (ev_res x) as [c|] eqn:Hr; [|reflexivity]. exfalso.
  destruct (unmerge_calls_exact_proof _ _ _ _ H x c Hx Hr) as ((_ & _ & NP & _) & _). exact (NP Hp).
Qed.

(* the known class: a protected object also has an unprotected removable name (an alias through a
   symlinked directory) *)
Definition alias_to_protected (i : uinput) : Prop :=
  exists p p' c, In p (protected_names i) /\ canon (u_fs i) p = WOk c /\
                 removable i p' /\ canon (u_fs i) p' = WOk c.

Theorem protected_kept_partial_proof : forall i t s' e, run_engine i = (t, s', e) ->
  ~ alias_to_protected i -> protected_kept_full i s'.
Proof.
  intros i t s' e H NA p c Hp Hc.
  destruct (unmerge_nothing_unlisted_proof _ _ _ _ H c) as [Q|(_ & p' & R & C)]; [exact Q|].
  exfalso. apply NA. exists p, p', c. auto.
Qed.

Definition alias_witness : bstr :=
  "o@o=d;o/opt=d;o/opt/u=l../usr;o/usr=d;o/usr/bin=d@opt/u/bin@-".

Theorem protected_kept_full_refuted_proof :
  exists i t s' e, run_engine i = (t, s', e) /\ ~ protected_kept_full i s'.
Proof.
  exists (dec_case alias_witness).
  destruct (run_engine (dec_case alias_witness)) as [[t s'] e] eqn:E.
  exists t, s', e. split; [reflexivity|].
  intros H.
  specialize (H (split_slash (s2l "o/usr/bin")) (split_slash (s2l "o/usr/bin"))).
  assert (A : In (split_slash (s2l "o/usr/bin")) (protected_names (dec_case alias_witness)))
    by (apply mem_path_In; vm_compute; reflexivity).
  assert (B : canon (u_fs (dec_case alias_witness)) (split_slash (s2l "o/usr/bin"))
              = WOk (split_slash (s2l "o/usr/bin"))) by (vm_compute; reflexivity).
  specialize (H A B).
  assert (S' : s' = snd (fst (run_engine (dec_case alias_witness)))) by (rewrite E; reflexivity).
  rewrite S' in H. vm_compute in H. discriminate.
Qed.

(* the regenerated protection list covers every base-system directory of the statement, under
   every offset *)
Lemma covers_base_bool :
  forallb (fun b => mem_path b (map split_slash preserve_sequence)) base_system_dirs = true.
Proof. vm_compute. reflexivity. Qed.

Theorem protected_covers_base_system_proof : forall i b, In b base_system_dirs ->
  In (u_off i ++ b) (protected_names i).
Proof.
  intros i b Hb. pose proof covers_base_bool as H. rewrite forallb_forall in H.
  specialize (H b Hb). apply mem_path_In in H. apply in_map_iff in H. destruct H as (x & <- & Hx).
  unfold protected_names, protected. apply in_map_iff. exists x. auto.
Qed.

(* ---- replace *)
Theorem replace_keeps_new_proof : forall i t s' e, run_engine i = (t, s', e) ->
  new_kept i s' /\
  (forall n d, In n (new_names i) -> ~ In (n, d) (uninstall_cset i)) /\
  (forall x, In x t -> In (ev_lit x) (new_names i) -> ev_res x = None).
Proof.
  intros i t s' e H. split; [|split].
  - intros n c Hn Hc.
    destruct (unmerge_nothing_unlisted_proof _ _ _ _ H c) as [Q|(_ & p' & R & C)]; [exact Q|].
    exfalso. destruct R as (_ & _ & _ & _ & R). exact (R n c Hn Hc C).
  - intros n d Hn Hin. apply In_uninstall_cset in Hin. destruct Hin as ((_ & _ & _ & NN & _) & _). exact (NN Hn).
  - intros x Hx Hn. destruct (ev_res x) as [c|] eqn:Hr; [|reflexivity]. exfalso.
    destruct (unmerge_calls_exact_proof _ _ _ _ H x c Hx Hr) as ((_ & _ & _ & NN & _) & _). exact (NN Hn).
Qed.

(* ---- non-vacuity *)
Definition ex_uninstall : bstr :=
  "o@ext=d;ext/keep=fext;o=d;o/etc=d;o/etc/conf=fk;o/opt=d;o/opt/z=d;o/opt/z/f=fq;o/opt/z/l=l../../../ext;o/opt/k=d;o/opt/k/keep=fq;o/usr=d;o/usr/lib=llib64;o/usr/lib64=d;o/usr/lib64/foo=fabc;o/usr/lib64/bar=fx@usr;usr/lib;usr/lib/foo;etc;etc/conf;opt;opt/z;opt/z/f;opt/z/l;opt/k;gone/x@-".
Definition ex_replace : bstr :=
  "o@o=d;o/usr=d;o/usr/lib=llib64;o/usr/lib64=d;o/usr/lib64/foo=fnew;o/usr/lib64/old=fo@usr;usr/lib;usr/lib/foo;usr/lib/old@+usr;usr/lib64;usr/lib64/foo".

Example ex_uninstall_runs :
  run_case ex_uninstall = VS (s2l
    "uo/usr/lib/foo>o/usr/lib64/foo;uo/etc/conf>;uo/opt/z/f>;uo/opt/z/l>;ro/opt/z>;ro/opt/k!;ro/opt!@o/etc/conf;o/opt/z;o/opt/z/f;o/opt/z/l;o/usr/lib64/foo@@0").
Proof. vm_compute. reflexivity. Qed.

Example ex_uninstall_removable : removable (dec_case ex_uninstall) (split_slash (s2l "o/opt/z/l")).
Proof.
  unfold removable. repeat split.
  - apply mem_path_In; vm_compute; reflexivity.
  - vm_compute; discriminate.
  - intro H; apply mem_path_In in H; vm_compute in H; discriminate.
  - intro H; apply mem_path_In in H; vm_compute in H; discriminate.
  - intros n c H; vm_compute in H; destruct H.
Qed.

(* the old package listed usr/lib/foo through the symlink; the new one installs usr/lib64/foo: kept *)
Example ex_replace_runs :
  run_case ex_replace = VS (s2l "uo/usr/lib/old>o/usr/lib64/old@o/usr/lib64/old@@0").
Proof. vm_compute. reflexivity. Qed.

Example ex_spec_accepts : spec_ok (dec_case ex_uninstall) (run_case ex_uninstall) = true
                          /\ spec_ok (dec_case ex_replace) (run_case ex_replace) = true.
Proof. split; vm_compute; reflexivity. Qed.

(* ... and rejects an outcome that removed the new package's file, one that kept a listed file,
   and one that removed the protected usr/lib symlink *)
Example ex_spec_rejects :
  spec_ok (dec_case ex_replace) (VS (s2l "x@o/usr/lib64/old;o/usr/lib64/foo@@0")) = false
  /\ spec_ok (dec_case ex_replace) (VS (s2l "x@@@0")) = false
  /\ spec_ok (dec_case ex_replace) (VS (s2l "x@o/usr/lib64/old;o/usr/lib@@0")) = false
  /\ spec_ok (dec_case ex_replace) (VS (s2l "x@o/usr/lib64/old@o/usr/new=fx@0")) = false
  /\ spec_ok (dec_case alias_witness) (run_case alias_witness) = false.
Proof. repeat split; vm_compute; reflexivity. Qed.

(* ------------------------------------------------------------------ order of location strings *)
Lemma str_ltb_asym : forall a b, str_ltb a b = true -> str_ltb b a = false.
Proof.
  induction a as [|x a IH]; intros [|y b] H; cbn in *; try congruence.
  destruct (N.ltb_spec x y).
  - destruct (N.ltb_spec y x); [lia|]. destruct (N.eqb_spec y x); [lia|reflexivity].
  - destruct (N.eqb_spec x y); [|discriminate]. subst. rewrite N.ltb_irrefl, N.eqb_refl.
    apply IH; exact H.
Qed.

Lemma str_ltb_negtrans : forall a b c, str_ltb a b = false -> str_ltb b c = false -> str_ltb a c = false.
Proof.
  induction a as [|x a IH]; intros [|y b] [|z c] H1 H2; cbn in *; try congruence.
  destruct (N.ltb_spec x y); [discriminate|].
  destruct (N.ltb_spec y z); [discriminate|].
  destruct (N.ltb_spec x z); [lia|].
  destruct (N.eqb_spec x y), (N.eqb_spec y z), (N.eqb_spec x z); try lia; try reflexivity.
  eapply IH; eassumption.
Qed.

Lemma str_ltb_app : forall a b, b <> [] -> str_ltb a (a ++ b) = true.
Proof.
  induction a as [|x a IH]; intros b Hb; cbn.
  - destruct b; [congruence|reflexivity].
  - rewrite N.ltb_irrefl, N.eqb_refl. apply IH; exact Hb.
Qed.

Lemma loc_str_app p r : loc_str (p ++ r) = loc_str p ++ loc_str r.
Proof. unfold loc_str. rewrite map_app, concat_app. reflexivity. Qed.

Lemma is_prefix_split : forall a q, is_prefix a q = true -> exists r, q = a ++ r.
Proof.
  induction a as [|x a IH]; intros q H; cbn in H.
  - exists q; reflexivity.
  - destruct q as [|y q]; [discriminate|].
    destruct (list_eq_dec N.eq_dec x y) as [->|]; [|discriminate].
    destruct (IH q H) as (r & ->). exists r; reflexivity.
Qed.

Lemma strict_prefix_lt p q : strict_prefix p q = true -> loc_ltb p q = true.
Proof.
  unfold strict_prefix. rewrite andb_true_iff. intros (H1 & H2).
  destruct (is_prefix_split _ _ H1) as (r & ->).
  destruct (path_eq_dec p (p ++ r)) as [E|NE]; [discriminate|].
  unfold loc_ltb. rewrite loc_str_app. apply str_ltb_app.
  destruct r as [|c r]; [rewrite app_nil_r in NE; congruence|]. cbn. discriminate.
Qed.

(* sort_desc really sorts: nothing after x in the result is greater than x *)
Definition ge (x y : path) : Prop := loc_ltb x y = false.

Lemma insert_desc_sorted x l : StronglySorted ge l -> StronglySorted ge (insert_desc x l).
Proof.
  induction l as [|y r IH]; intros S; cbn.
  - constructor; constructor.
  - inversion S as [|? ? Sr Fy]; subst. destruct (loc_ltb x y) eqn:E.
    + constructor; [apply IH; exact Sr|].
      rewrite Forall_forall. intros z Hz. apply In_insert_desc in Hz. destruct Hz as [->|Hz].
      * unfold ge, loc_ltb in *. apply str_ltb_asym; exact E.
      * rewrite Forall_forall in Fy. apply Fy; exact Hz.
    + constructor; [exact S|]. constructor; [exact E|].
      rewrite Forall_forall in *. intros z Hz. unfold ge, loc_ltb in *.
      eapply str_ltb_negtrans; [exact E|apply Fy; exact Hz].
Qed.

Lemma sort_desc_sorted l : StronglySorted ge (sort_desc l).
Proof.
  induction l as [|x l IH]; cbn; [constructor|]. apply insert_desc_sorted; exact IH.
Qed.

Lemma sorted_split l : StronglySorted ge l -> forall l1 x l2, l = l1 ++ x :: l2 ->
  forall y, In y l2 -> loc_ltb x y = false.
Proof.
  induction 1 as [|a l S IH F]; intros l1 x l2 E y Hy.
  - destruct l1; discriminate.
  - destruct l1 as [|b l1]; cbn in E; injection E as -> ->.
    + rewrite Forall_forall in F. apply F; exact Hy.
    + eapply IH; [reflexivity|exact Hy].
Qed.

(* ------------------------------------------------------------------ a phase over an appended list *)
Lemma phase_app rm stepf l1 : forall s l2,
  phase rm stepf s (l1 ++ l2) =
  let '(t1, s1, e1) := phase rm stepf s l1 in
  if e1 then (t1, s1, true)
  else let '(t2, s2, e2) := phase rm stepf s1 l2 in (t1 ++ t2, s2, e2).
Proof.
  induction l1 as [|p r IH]; intros s l2; cbn.
  - destruct (phase rm stepf s l2) as [[t2 s2] e2]. reflexivity.
  - destruct (stepf s p) as [cp s1| |].
    + rewrite IH. destruct (phase rm stepf s1 r) as [[t1 s1'] e1]. destruct e1; [reflexivity|].
      destruct (phase rm stepf s1' l2) as [[t2 s2] e2]. reflexivity.
    + rewrite IH. destruct (phase rm stepf s r) as [[t1 s1'] e1]. destruct e1; [reflexivity|].
      destruct (phase rm stepf s1' l2) as [[t2 s2] e2]. reflexivity.
    + reflexivity.
Qed.

Lemma In_lookup : forall (s : fs) q n, In (q, n) s -> exists n', lookup s q = Some n'.
Proof.
  induction s as [|[r m] s IH]; intros q n H; [destruct H|]. cbn.
  destruct (path_eq_dec q r); [eauto|]. destruct H as [H|H]; [congruence|]. eapply IH; exact H.
Qed.

Lemma has_child_witness s p : has_child s p = true ->
  exists q n, lookup s q = Some n /\ strict_prefix p q = true.
Proof.
  unfold has_child. rewrite existsb_exists. intros ([q n] & Hin & Hp). cbn in Hp.
  destruct (In_lookup _ _ _ Hin) as (n' & L). eauto.
Qed.

Lemma has_child_intro s p q n : lookup s q = Some n -> strict_prefix p q = true -> has_child s p = true.
Proof.
  intros L Hp. unfold has_child. rewrite existsb_exists. exists (q, n). split; [|exact Hp].
  apply lookup_In; exact L.
Qed.

(* ------------------------------------------------------------------ completeness of the deepest-first pass *)
Lemma lstat_dir_lookup s p : p <> [] -> lstat s p = Some (p, true) ->
  canon s p = WOk p /\ exists n, lookup s p = Some n /\ is_dir_node n = true.
Proof.
  intros NE H. apply lstat_some in H. destruct H as (H & n & Hn & Hd). split; [exact H|].
  exists n. split; [|exact Hd]. destruct p; [congruence|exact Hn].
Qed.

Lemma lookup_none_lstat s p : p <> [] -> canon s p = WOk p -> lookup s p = None -> lstat s p = None.
Proof.
  intros NE C L. unfold lstat. rewrite C.
  assert (node_at s p = None) as -> by (destruct p; [congruence|exact L]). reflexivity.
Qed.

Theorem unmerge_dirs_complete_proof : forall i t s' e p,
  run_engine i = (t, s', e) -> alias_free i ->
  removable i p -> lstat (u_fs i) p = Some (p, true) -> p <> [] ->
  lstat s' p = None \/ has_child s' p = true.
Proof.
  intros i t s' e p H AF R L NE.
  set (s0 := u_fs i) in *. set (cs := uninstall_cset i) in *.
  assert (Hin : In (p, true) cs) by (apply In_uninstall_cset; eauto).
  assert (e = false) as He by (exact (unmerge_never_raises_proof _ _ _ _ H)). subst e.
  destruct (lstat_dir_lookup _ _ NE L) as (C0 & n0 & L0 & D0).
  unfold run_engine in H. fold s0 cs in H. apply unmerge_split in H.
  destruct H as (t1 & s1 & e1 & P1 & [(_ & _ & _ & HF)|(-> & t2 & P2 & ->)]); [discriminate|].
  pose proof (phase_sub _ _ unlink_removes _ _ _ _ _ P1) as S1.
  assert (Hp : In p (sort_desc (dirs cs))) by (apply In_sort_desc, In_dirs; exact Hin).
  destruct (in_split _ _ Hp) as (l1 & l2 & El).
  pose proof (sorted_split _ (sort_desc_sorted (dirs cs)) _ _ _ El) as After.
  rewrite El, phase_app in P2.
  destruct (phase true rmdir_step s1 l1) as [[ta sk] ea] eqn:Pa.
  destruct ea; [discriminate|].
  pose proof (phase_sub _ _ rmdir_removes _ _ _ _ _ Pa) as Sa.
  assert (Sk : sub sk s0) by (eapply sub_trans; eassumption).
  (* every successful later call is on a listed directory name that sorts at or below p *)
  assert (Later : forall sx tb sy eb, sub sx s0 -> phase true rmdir_step sx l2 = (tb, sy, eb) ->
            forall q, strict_prefix p q = true -> lookup sy q = lookup sx q).
  { intros sx tb sy eb Sx Pb q Hq.
    destruct (phase_frame _ _ rmdir_removes _ _ _ _ _ Pb q) as [Q|(_ & x & Hx & Hr)]; [exact Q|].
    exfalso.
    destruct (phase_sound _ _ rmdir_removes _ s0 sx _ _ _ Sx Pb x q Hx Hr) as (Cx & _).
    destruct (phase_events _ _ _ _ _ _ _ Pb x Hx) as (_ & Hl).
    assert (In (ev_lit x) (sort_desc (dirs cs))) as Hs by (rewrite El; apply in_or_app; right; right; exact Hl).
    apply In_sort_desc, In_dirs, In_uninstall_cset in Hs. destruct Hs as ((Ho & _) & c & Lx).
    assert (canon s0 (ev_lit x) = WOk (ev_lit x)) as Cl by (apply AF; [exact Ho|congruence]).
    rewrite Cl in Cx. injection Cx as Cx.
    pose proof (After _ Hl) as G. rewrite Cx in G. rewrite (strict_prefix_lt _ _ Hq) in G. discriminate. }
  cbn [phase] in P2.
  destruct (rmdir_step sk p) as [c sk'| |] eqn:St.
  - (* removed at its attempt *)
    destruct (phase true rmdir_step sk' l2) as [[tb sy] eb] eqn:Pb. injection P2 as E1 E2 E3; subst t2 s' eb.
    left. apply rmdir_step_done in St. destruct St as (Cc & -> & n & Ln & _).
    assert (c = p) as ->.
    { pose proof (canon_sub_bound sk s0 p c Sk Cc) as Q. rewrite C0 in Q.
      assert (WOk p = WOk c) as Q' by (apply Q; unfold bound; destruct c; cbn; congruence).
      congruence. }
    pose proof (phase_sub _ _ rmdir_removes _ _ _ _ _ Pb) as Sb.
    destruct (lstat sy p) as [[c' d']|] eqn:Ls; [|reflexivity]. exfalso.
    assert (sub sy s0) as Sy by (eapply sub_trans; [exact Sb|eapply sub_trans; [apply sub_remove|exact Sk]]).
    pose proof (lstat_sub _ _ _ _ _ Sy Ls) as L'. rewrite L in L'. injection L' as <- <-.
    destruct (lstat_dir_lookup _ _ NE Ls) as (_ & n' & Ln' & _).
    apply Sb in Ln'. rewrite lookup_remove_same in Ln'. discriminate.
  - (* the attempt failed *)
    destruct (phase true rmdir_step sk l2) as [[tb sy] eb] eqn:Pb. injection P2 as E1 E2 E3; subst t2 s' eb.
    pose proof (phase_sub _ _ rmdir_removes _ _ _ _ _ Pb) as Sb.
    destruct (canon_sub_cases sk s0 p Sk) as [Ec|U].
    + rewrite C0 in Ec. destruct (lookup sk p) as [n|] eqn:Ln.
      * pose proof (Sk _ _ Ln) as Ln0. rewrite L0 in Ln0. injection Ln0 as <-.
        destruct (has_child sk p) eqn:Hc.
        -- right. destruct (has_child_witness _ _ Hc) as (q & nq & Lq & Hq).
           apply (has_child_intro sy p q nq); [|exact Hq].
           rewrite (Later sk tb sy _ Sk Pb q Hq). exact Lq.
        -- exfalso. assert (exists sz, rmdir_step sk p = Done p sz) as (sz & Hz)
             by (apply rmdir_step_iff; eauto). rewrite Hz in St. discriminate.
      * left. apply (lstat_sub_none sy sk p Sb). apply lookup_none_lstat; assumption.
    + left. apply (lstat_sub_none sy sk p Sb). apply unbound_lstat; exact U.
  - discriminate.
Qed.

(* non-vacuity: an alias-free case; a/b becomes empty and goes, a keeps k and stays *)
Definition ex_complete : bstr := "o@o=d;o/a=d;o/a/b=d;o/a/b/f=fx;o/a/k=d;o/a/k/keep=fy@a;a/b;a/b/f;a/k@-".
Example ex_complete_alias_free : alias_free (dec_case ex_complete).
Proof.
  intros p Hp _. vm_compute in Hp.
  repeat (destruct Hp as [<-|Hp]; [vm_compute; reflexivity|]). destruct Hp.
Qed.
Example ex_complete_runs :
  run_case ex_complete = VS (s2l "uo/a/b/f>;ro/a/k!;ro/a/b>;ro/a!@o/a/b;o/a/b/f@@0").
Proof. vm_compute. reflexivity. Qed.

(* ------------------------------------------------------------------ hook schedule *)
(* for every engine mode: whenever the unmerge trigger runs in the `unmerge` hook, the protection
   trigger has run before it in the same hook *)
Theorem protection_before_unmerge_proof : forall m, In m engine_modes ->
  In name_unmerge (run_names m name_unmerge) ->
  runs_before name_protection name_unmerge (run_names m name_unmerge) = true.
Proof.
  intros m [<-|[<-|[<-|[]]]] H; vm_compute; try reflexivity; vm_compute in H; tauto.
Qed.

(* the removal really is scheduled in both uninstalling modes, in no other hook, and never in install mode *)
Theorem unmerge_scheduled_proof :
  In name_unmerge (run_names REPLACE_MODE name_unmerge) /\
  In name_unmerge (run_names UNINSTALL_MODE name_unmerge) /\
  run_names INSTALL_MODE name_unmerge = [] /\
  (forall m h, In m engine_modes -> In h (mode_hooks m) -> In name_unmerge (run_names m h) -> h = name_unmerge).
Proof.
  split; [vm_compute; tauto|]. split; [vm_compute; tauto|]. split; [vm_compute; reflexivity|].
  intros m h Hm Hh H.
  assert (D : forall l : list str, In name_unmerge l ->
            forallb (fun x => negb (str_eqb name_unmerge x)) l = true -> False).
  { intros l Hl F. rewrite forallb_forall in F. specialize (F _ Hl).
    rewrite str_eqb_refl in F. discriminate. }
  destruct Hm as [<-|[<-|[<-|[]]]]; vm_compute in Hh;
    repeat (destruct Hh as [<-|Hh]; [try reflexivity; exfalso; apply (D _ H); vm_compute; reflexivity|]);
    destruct Hh.
Qed.

(* the model's [protect_first] IS this order, and for the engines the model describes it holds *)
Theorem protection_applied_proof : forall i,
  In (engine_mode i) engine_modes /\
  protect_first (engine_mode i) =
    runs_before name_protection name_unmerge (run_names (engine_mode i) name_unmerge) /\
  protect_first (engine_mode i) = true.
Proof.
  intros i. split; [|split; [reflexivity|apply protect_first_true]].
  unfold engine_mode. destruct (u_new i); vm_compute; tauto.
Qed.
