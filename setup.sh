#!/bin/sh
# MANIFEST.setup_cmd: build the whole Coq development from files on disk (full .vo build), then lint.
set -e
cd "$(dirname "$0")"
PYTHONPATH="${VERIF_REPO:-/repo}/src:$PWD" /venv/bin/python -m harness.tables --all || echo "setup: table generation reported a problem (checks will report it)"
flock coq/.build.lock ./tools/mkproject.sh
flock coq/.build.lock timeout 7200 make -C coq -j16 --no-print-directory -k || echo "setup: some Coq files failed to build (the checks of those properties will report it)"
python3 tools/lint.py coq || true
