import os, sys, random, shutil, time, cProfile, pstats, tempfile
sys.path.insert(0, "/verif")
from harness import c32
rng=random.Random("p")
top=tempfile.mkdtemp(prefix="c32p_")
def go(n):
    for i in range(n):
        w,down,meta=c32.gen_session(rng,top,i)
        res=w.run(down); w.case_term(down)
        shutil.rmtree(w.top)
t=time.time(); go(5); print("warm", time.time()-t)
pr=cProfile.Profile(); pr.enable(); t=time.time(); go(40); print("40 sessions", time.time()-t, os.times()); pr.disable()
pstats.Stats(pr).sort_stats("cumulative").print_stats(18)
shutil.rmtree(top)
