import os, sys, stat, tempfile, shutil, bz2, io
from pkgcore.fs import tar, livefs, fs, contents
from pkgcore.fs._tar import tarfile
from snakeoil.data_source import data_source, local_source
d = tempfile.mkdtemp(prefix="c25x_")
def show(r):
    for x in r: print(" ", repr(x), oct(x.mode), x.uid, x.gid, x.mtime, getattr(x,'dev',None), getattr(x,'inode',None), getattr(x,'target',None), x.data.bytes_fileobj().read() if x.is_reg else None)
try:
    root = os.path.join(d, "root"); os.mkdir(root)
    os.makedirs(root+"/usr/bin"); os.makedirs(root+"/lib64")
    open(root+"/usr/bin/a","wb").write(b"hello")
    os.link(root+"/usr/bin/a", root+"/usr/bin/b")
    os.link(root+"/usr/bin/a", root+"/lib64/c")
    open(root+"/lib64/z","wb").write(b"")
    os.symlink("lib64", root+"/lib")
    os.symlink("/usr/bin/a", root+"/usr/s")
    os.mkfifo(root+"/usr/ff")
    for dp, dn, fn in os.walk(root):
        for x in dn+fn:
            p = os.path.join(dp,x)
            if not os.path.islink(p): os.utime(p, (5, 1000.25))
    cs = contents.contentsSet(livefs.iter_scan(root, offset=root))
    # add entries under the symlink /lib
    cs.add(fs.fsFile("/lib/q", data=local_source(root+"/lib64/z"), mode=0o600, uid=1, gid=2, mtime=7, dev=1, inode=5))
    cs.add(fs.fsFile("/lib/sub/deep/q2", data=local_source(root+"/usr/bin/a"), mode=0o600, uid=1, gid=2, mtime=7, dev=None, inode=None))
    cs.add(fs.fsFile("/lib/sub/q3", data=local_source(root+"/usr/bin/a"), mode=0o600, uid=1, gid=2, mtime=7, dev=None, inode=None))
    for comp in ("bz2", "xz"):
        tp = os.path.join(d, "t.tar")
        tar.write_set(cs, tp, compressor=comp)
        try:
            r = tar.generate_contents(tp, compressor=comp)
            print(comp); show(r)
        except Exception as e:
            import traceback; traceback.print_exc()
    tp = os.path.join(d, "u.tar")
    with open(tp, "wb") as f:
        th = tarfile.TarFile(name=tp, fileobj=f, mode="w")
        tar.add_contents_to_tarfile(cs, th); th.close()
    tf = tarfile.open(tp)
    for m in tf: print(m.name, m.type, oct(m.mode), m.uid, m.gid, m.mtime, m.size, m.linkname, m.devmajor, m.devminor)
    try:
      show(tar.convert_archive(tarfile.TarFile(tp, mode="r")))
    except Exception as e:
        import traceback; traceback.print_exc()
    # empty
    for name, data in (("zero", b""), ("bz2zero", bz2.compress(b"")), ("eoa", b"\0"*10240), ("bz2eoa", bz2.compress(b"\0"*10240)), ("short", b"\0"*100)):
        tp = os.path.join(d, name); open(tp,"wb").write(data)
        for comp in ("bz2",):
            try: print(name, comp, list(tar.generate_contents(tp, compressor=comp)))
            except Exception as e: print(name, comp, type(e).__name__, e)
finally:
    shutil.rmtree(d)
