"""C39 — bug update list changes compose like sequential application (DESIGN §6 C39).

Streams
  ctor   ListChange(add, remove, replace)            impl vs Model_C39.mk
  or     a | b for every pair of valid changes       impl vs Model_C39.or_   (A)
                                                     impl result vs Spec_C39.spec_or_ok (B, in Coq)
                                                     + the same oracle in Python on probe lists
  cwire  ListChange.to_wire                          impl vs Model_C39.change_wire
  uwire  BugUpdate.to_wire key set                   impl vs Model_C39.update_wire_keys
"""

import datetime
import itertools

from .common import Check, Err, cN, cbool, clist, cnat, copt, cpair, impl_call

IMPORTS = "From Coq Require Import List NArith ZArith Bool.\nFrom Verif Require Import Base.Val C39.Model_C39 C39.Spec_C39."
ANCHORS = ["bugzilla/changes.py::ListChange", "bugzilla/changes.py::BugUpdate.to_wire"]
ALPHA = (1, 2, 3)
KINDS = {"BugzillaUsageError": "BugzillaUsageError"}


def c_nlist(t):
    return clist([cN(x) for x in t], "N")


def c_change(c):
    a, r, s = c
    return ("{| add := %s; remove := %s; replace := %s |}"
            % (c_nlist(a), c_nlist(r), copt(s, c_nlist, "list N")))


def tuples(maxlen, dup):
    out = [()]
    for n in range(1, maxlen + 1):
        for t in itertools.product(ALPHA, repeat=n):
            if dup or len(set(t)) == len(t):
                out.append(t)
    return out


def enc(lc):
    return [list(lc.add), list(lc.remove), None if lc.replace is None else list(lc.replace)]


def py_apply(c, lst):
    a, r, s = c
    if s is not None:
        return set(s)
    return (set(lst) - set(r)) | set(a)


def main(chk: Check):
    from pkgcore.bugzilla import changes as ch
    from pkgcore.bugzilla.enums import FlagStatus, Resolution, RuntimeTesting, Status
    from pkgcore.bugzilla.pkglist import PackageList

    L = ch.ListChange
    chk.rule("all (add,remove,replace) triples of tuples over a 3-value alphabet (length<=2, quick: "
             "duplicate-free; thorough: with duplicates) and all ordered pairs of the valid ones; "
             "non-trivial = pair in which both sides are non-empty changes and at least one value is "
             "shared between the two sides; wire: random BugUpdates with each field independently set")
    ok = chk.build(["C39/Prop_C39.vo"])
    if ok:
        chk.check_assumptions("C39/Prop_C39.v")
    chk.lint(["C39", "Base"])
    chk.check_fingerprint(ANCHORS)

    tups = tuples(2, chk.thorough or chk.fingerprint_changed)
    # ---- ctor stream
    ctor_cases, valid = [], []
    for a in tups:
        for r in tups:
            for s in [None] + tups:
                if s is not None and (len(a) > 1 or len(r) > 1):
                    continue  # keep the invalid-combination region small but present
                res = impl_call(lambda: enc(L(add=a, remove=r, replace=s)), kinds=KINDS)
                ctor_cases.append((cpair(c_nlist(a), c_nlist(r), copt(s, c_nlist, "list N")), res))
                if not isinstance(res, Err):
                    valid.append((a, r, s))
    chk.count("ctor", len(ctor_cases))
    # ---- or stream
    pairs = [(x, y) for x in valid for y in valid]
    budget = chk.n(4500, 40000)
    if len(pairs) > budget:
        pairs = chk.rng.sample(pairs, budget)
    or_cases, py_bad = [], []
    probes = [t for n in range(4) for t in itertools.product((1, 2, 3, 9), repeat=n)]
    for x, y in pairs:
        res = impl_call(lambda: enc(L(*x) | L(*y)), kinds=KINDS)
        or_cases.append((cpair(c_change(x), c_change(y)), res))
        if (x[0] or x[1] or x[2] is not None) and (y[0] or y[1] or y[2] is not None):
            vx = set(x[0]) | set(x[1]) | set(x[2] or ())
            vy = set(y[0]) | set(y[1]) | set(y[2] or ())
            if vx & vy:
                chk.nontrivial((x, y))
        if not isinstance(res, Err):  # (B) directly on the implementation
            c = (tuple(res[0]), tuple(res[1]), None if res[2] is None else tuple(res[2]))
            for l in probes:
                if py_apply(c, l) != py_apply(y, py_apply(x, l)):
                    py_bad.append({"a": x, "b": y, "combined": res, "list": l,
                                   "combined_applied": sorted(py_apply(c, l)),
                                   "sequential": sorted(py_apply(y, py_apply(x, l)))})
                    break
    chk.count("or", len(or_cases))
    for s in or_cases[:: max(1, len(or_cases) // 4)][:4]:
        chk.sample({"stream": "or", "input": s[0], "impl": s[1]})
    # ---- change wire
    cw_cases = []
    for c in valid:
        w = impl_call(lambda: L(*c).to_wire())
        if not isinstance(w, Err):
            w = [[{"set": 0, "add": 1, "remove": 2}[k], [int(v) for v in vs]] for k, vs in w.items()]
        cw_cases.append((c_change(c), w))
    chk.count("cwire", len(cw_cases))
    # ---- update wire
    keyid = {k: i for i, k in enumerate(
        ["ids", "status", "resolution", "dupe_of", "summary", "assigned_to", "whiteboard", "deadline",
         "cc", "keywords", "blocks", "depends_on", "see_also", "groups", "flags", "comment",
         "cf_stabilisation_atoms", "cf_runtime_testing_required"])}
    uw_cases, wire_bad = [], []
    rng = chk.rng

    def uw_case(kw, chs, nfl):
        wire = impl_call(lambda: ch.BugUpdate(**kw).to_wire([1]))
        res = wire if isinstance(wire, Err) else [keyid.get(k, 99) for k in wire.keys()]
        scal = [kw.get(f) is not None for f in
                ("status", "resolution", "dupe_of", "summary", "assigned_to", "whiteboard", "deadline")]
        term = ("{| scalars := %s; changes := %s; nflags := %s; has_comment := %s; has_pkglist := %s; has_rtr := %s |}"
                % (clist([cbool(b) for b in scal], "bool"), clist([c_change(c) for c in chs], "change"),
                   cnat(nfl), cbool("comment" in kw), cbool("package_list" in kw),
                   cbool("runtime_testing_required" in kw)))
        uw_cases.append((term, res))
        chk.nontrivial(("uw", tuple(scal), tuple(chs), nfl, "comment" in kw, "package_list" in kw,
                        "runtime_testing_required" in kw))
        # (B) directly on the implementation: exactly the fields that were set are on the wire
        want = [0] + [1 + i for i, b in enumerate(scal) if b] \
            + [8 + i for i, c in enumerate(chs) if (c[0] or c[1] or c[2] is not None)] \
            + ([14] if nfl else []) + ([15] if "comment" in kw else []) \
            + ([16] if "package_list" in kw else []) + ([17] if "runtime_testing_required" in kw else [])
        vals_ok = not isinstance(wire, Err) and all(
            wire.get(k) == (str(kw[k]) if k in ("status", "resolution") else kw[k])
            for k in ("status", "resolution", "dupe_of", "summary", "assigned_to", "whiteboard") if kw.get(k) is not None)
        if isinstance(res, Err) or sorted(res) != want or not vals_ok:
            wire_bad.append({"fields_set": sorted(k for k in kw if not (k in ("cc", "keywords", "blocks", "depends_on", "see_also", "groups") and not kw[k]) and not (k == "flags" and not kw[k])),
                             "values": {k: repr(v) for k, v in kw.items()}, "wire_key_ids": res, "expected_key_ids": want})

    # fixed family: every field set ALONE (and every pair of the falsy-valued ones), with values whose
    # truthiness is False where the type allows it ("" / empty package list / empty set): a field that was
    # set must appear on the wire whatever its truthiness
    empty6 = [((), (), None)] * 6
    lone = {"summary": ["", "s"], "assigned_to": ["", "x@y"], "whiteboard": ["", "w"],
            "deadline": [datetime.date(2026, 1, 2)], "comment": [ch.NewComment("")],
            "package_list": [PackageList(""), PackageList("a/b x86")],
            "runtime_testing_required": [RuntimeTesting.UNSET], "status": [Status.CONFIRMED]}
    falsy = [("summary", ""), ("assigned_to", ""), ("whiteboard", ""), ("package_list", PackageList(""))]
    for f, vals in lone.items():
        for v in vals:
            uw_case({f: v}, list(empty6), 0)
    for i, (f, v) in enumerate(falsy):
        for g, w in falsy[i + 1:]:
            uw_case({f: v, g: w}, list(empty6), 0)
    uw_case({f: v for f, v in falsy}, list(empty6), 0)
    uw_case({}, list(empty6), 0)
    for j, name in enumerate(("cc", "keywords", "blocks", "depends_on", "see_also", "groups")):
        for c in (((), (), ()), ((1,), (), None), ((), (2,), None)):     # setting() clears the field: falsy-looking, set
            chs = list(empty6)
            chs[j] = c
            uw_case({name: L(*c)}, chs, 0)
    uw_case({"flags": (ch.FlagChange("f", FlagStatus.GRANTED),)}, list(empty6), 1)
    # every status x resolution pairing the constructor accepts (a resolution may accompany ANY explicit
    # status, not only RESOLVED), alone and then mixed into the random stream
    stres = [{}]
    for st in Status:
        for rs in [None] + list(Resolution):
            k = {"status": st}
            if rs is not None:
                k["resolution"] = rs
            if rs is Resolution.DUPLICATE:
                k["dupe_of"] = 7
            if not isinstance(impl_call(lambda: ch.BugUpdate(**k), kinds=KINDS), Err):
                stres.append(k)
    for k in stres[1:]:
        uw_case(dict(k), list(empty6), 0)
    for _ in range(chk.n(300, 3000)):
        kw = dict(rng.choice(stres)) if rng.random() < 0.75 else {}
        for f, v in (("summary", ""), ("assigned_to", "x@y"), ("whiteboard", ""),
                     ("deadline", datetime.date(2026, 1, 2))):
            if rng.random() < 0.4:
                kw[f] = v
        chs = []
        for f in ("cc", "keywords", "blocks", "depends_on", "see_also", "groups"):
            c = rng.choice(valid) if rng.random() < 0.6 else ((), (), None)
            chs.append(c)
            kw[f] = L(*c)
        nfl = rng.choice([0, 0, 1, 2])
        kw["flags"] = tuple(ch.FlagChange("f", FlagStatus.GRANTED) for _ in range(nfl))
        if rng.random() < 0.4:
            kw["comment"] = ch.NewComment("")
        if rng.random() < 0.4:
            kw["package_list"] = PackageList("")
        if rng.random() < 0.4:
            kw["runtime_testing_required"] = RuntimeTesting.UNSET
        uw_case(kw, chs, nfl)
    chk.count("uwire", len(uw_cases))
    chk.sample({"stream": "uwire", "input": uw_cases[0][0], "impl": uw_cases[0][1]})

    # ---- evaluate model and spec inside Coq
    streams = [
        ("ctor", "list N * list N * option (list N)", ctor_cases, ["mismatches run_ctor cases"]),
        ("or", "change * change", or_cases,
         ["mismatches run_or cases", "where_ (fun i r => negb (spec_or_ok i r)) cases"]),
        ("cwire", "change", cw_cases, ["mismatches run_cwire cases"]),
        ("uwire", "update", uw_cases, ["mismatches run_uwire cases"]),
    ]
    spec_bad = []
    for name, ty, cases, evals in streams:
        if not ok:
            break
        r = chk.coq_eval(name, IMPORTS, ty, cases, evals)
        if r is None:
            continue
        if name == "or":
            spec_bad = [or_cases[i] for i in r[1]]
        for i in r[0][:3]:
            chk.violation("correspondence",
                          {"what": f"implementation and Model_C39 disagree on stream '{name}' "
                                   "(theorems of Prop_C39 no longer speak about this code)",
                           "input": cases[i][0], "implementation": cases[i][1]},
                          no_input=not (py_bad or spec_bad or wire_bad))
    # ---- property failures (B): concrete inputs
    for b in wire_bad[:3]:
        chk.violation("property", {"what": "BugUpdate.to_wire does not carry exactly the fields that were set", "input": b})
    for b in py_bad[:3]:
        chk.violation("property", {"what": "a | b is not 'a then b' on a concrete list", "input": b})
    if spec_bad and not py_bad:
        for s in spec_bad[:3]:
            chk.violation("property", {"what": "Spec_C39.spec_or_ok rejects the implementation's a | b",
                                       "input": s[0], "implementation": s[1]})
