(* C06/RestrInd.v — structural induction for the rose tree [restr] (Coq's generated principle
   gives no hypothesis for the children list), written by hand with a nested [fix]. *)
From Coq Require Import List NArith Bool.
Import ListNotations.
From Verif Require Import C06.Restr.

Section RestrInd.
  Variable P : restr -> Prop.
  Hypothesis HLeaf : forall n i, P (Leaf n i).
  Hypothesis HAlways : forall b, P (Always b).
  Hypothesis HNeg : forall r, P r -> P (Neg r).
  Hypothesis HNode : forall k n cs, Forall P cs -> P (Node k n cs).

  Fixpoint restr_ind' (r : restr) : P r :=
    match r with
    | Leaf n i => HLeaf n i
    | Always b => HAlways b
    | Neg r' => HNeg r' (restr_ind' r')
    | Node k n cs =>
        HNode k n cs
          ((fix go (l : list restr) : Forall P l :=
              match l with
              | [] => Forall_nil P
              | c :: l' => Forall_cons c (restr_ind' c) (go l')
              end) cs)
    end.
End RestrInd.

Lemma map_ext_Forall' {A B} (f g : A -> B) l :
  Forall (fun x => f x = g x) l -> map f l = map g l.
Proof. induction 1; cbn; congruence. Qed.
