From Coq Require Import List NArith ZArith Bool.
From Verif Require Import Base.Val C10.Model_C10 C10.Spec_C10.
Import ListNotations.

Time Definition cases : list ((fcs_input) * val) := 
[
  (([(Grp KOr false [(Cond true 2%N [(Flag false false [0%N])]); (Grp KAnd false [(Flag false false [1%N]); (Flag false false [2%N]); (Flag true false [1%N])])])], ((@nil (N)), (@nil (N)), [0%N; 2%N], (@nil (N)))),
   (VL [(VB false); (VL (@nil (val)))]));
  (([(Grp KOr false [(Cond true 2%N [(Flag false false [0%N])]); (Grp KAnd false [(Flag false false [1%N]); (Flag false false [2%N]); (Flag true false [1%N])])])], ([0%N], (@nil (N)), (@nil (N)), [2%N])),
   (VL [(VB false); (VL [(VL [(VZ 7%Z); (VZ 1%Z)])])]));
  (([(Grp KOr false [(Cond true 2%N [(Flag false false [0%N])]); (Grp KAnd false [(Flag false false [1%N]); (Flag false false [2%N]); (Flag true false [1%N])])])], ([1%N; 5%N], (@nil (N)), (@nil (N)), [5%N; 6%N])),
   (VL [(VB false); (VL (@nil (val)))]));
  (([(Grp KOr false [(Cond true 2%N [(Flag false false [0%N])]); (Grp KAnd false [(Flag false false [1%N]); (Flag false false [2%N]); (Flag true false [1%N])])])], ([2%N], [1%N], [2%N], [0%N; 2%N; 5%N])),
   (VL [(VB false); (VL (@nil (val)))]));
  (([(Grp KOr false [(Cond true 2%N [(Flag false false [0%N])]); (Grp KAnd false [(Flag false false [1%N]); (Flag false false [2%N]); (Flag true false [1%N])])])], ([0%N; 1%N], (@nil (N)), (@nil (N)), [2%N; 5%N])),
   (VL [(VB false); (VL [(VL [(VZ 7%Z); (VZ 1%Z)]); (VL [(VZ 7%Z); (VZ 3%Z)])])]));
  (([(Grp KOr false [(Cond true 2%N [(Flag false false [0%N])]); (Grp KAnd false [(Flag false false [1%N]); (Flag false false [2%N]); (Flag true false [1%N])])])], ([0%N; 2%N], (@nil (N)), [0%N], [0%N])),
   (VL [(VB false); (VL [(VL [(VZ 7%Z); (VZ 4%Z)])])]));
  (([(Grp KOr false [(Cond true 2%N [(Flag false false [0%N])]); (Grp KAnd false [(Flag false false [1%N]); (Flag false false [2%N]); (Flag true false [1%N])])])], ([1%N; 2%N], (@nil (N)), [2%N], (@nil (N)))),
   (VL [(VB false); (VL (@nil (val)))]));
  (([(Grp KOr false [(Cond true 2%N [(Flag false false [0%N])]); (Grp KAnd false [(Flag false false [1%N]); (Flag false false [2%N]); (Flag true false [1%N])])])], ([0%N; 1%N; 2%N], (@nil (N)), (@nil (N)), [0%N; 5%N; 6%N])),
   (VL [(VB true); (VL [(VL [(VZ 7%Z); (VZ 1%Z)]); (VL [(VZ 7%Z); (VZ 3%Z)]); (VL [(VZ 7%Z); (VZ 4%Z)]); (VL [(VZ 7%Z); (VZ 5%Z)]); (VL [(VZ 7%Z); (VZ 6%Z)]); (VL [(VZ 7%Z); (VZ 7%Z)])])]));
  (([(Flag true false [0%N]); (Flag false false [3%N])], ((@nil (N)), (@nil (N)), (@nil (N)), [5%N])),
   (VL [(VB false); (VL (@nil (val)))]));
  (([(Flag true false [0%N]); (Flag false false [3%N])], ([0%N], [3%N], (@nil (N)), [0%N; 3%N])),
   (VL [(VB false); (VL (@nil (val)))]));
  (([(Flag true false [0%N]); (Flag false false [3%N])], ([3%N; 5%N], (@nil (N)), (@nil (N)), (@nil (N)))),
   (VL [(VB false); (VL [(VL [(VZ 41%Z); (VZ 8%Z)]); (VL [(VZ 41%Z); (VZ 40%Z)])])]));
  (([(Flag true false [0%N]); (Flag false false [3%N])], ([0%N; 3%N; 5%N], (@nil (N)), (@nil (N)), [5%N])),
   (VL [(VB false); (VL [(VL [(VZ 41%Z); (VZ 8%Z)]); (VL [(VZ 41%Z); (VZ 40%Z)])])]));
  (([(Flag false false [3%N])], ((@nil (N)), (@nil (N)), (@nil (N)), [5%N])),
   (VL [(VB false); (VL (@nil (val)))]));
  (([(Flag false false [3%N])], ([3%N; 5%N], [5%N], (@nil (N)), [5%N])),
   (VL [(VB false); (VL [(VL [(VZ 40%Z); (VZ 40%Z)])])]));
  (([(Cond false 0%N [(Cond false 0%N [(Flag true false [0%N]); (Flag false false [0%N])]); (Grp KAmo false [(Flag false false [0%N]); (Flag true false [0%N])])]); (Flag true false [0%N])], ((@nil (N)), [5%N], (@nil (N)), [0%N; 6%N])),
   (VL [(VB true); (VL [(VL [(VZ 1%Z); (VZ 0%Z)])])]));
  (([(Cond false 0%N [(Cond false 0%N [(Flag true false [0%N]); (Flag false false [0%N])]); (Grp KAmo false [(Flag false false [0%N]); (Flag true false [0%N])])]); (Flag true false [0%N])], ([0%N], (@nil (N)), [5%N; 6%N], [0%N; 5%N])),
   (VL [(VB false); (VL [(VL [(VZ 1%Z); (VZ 0%Z)])])]));
  (([(Flag false false [1%N]); (Flag false false [1%N]); (Grp KAmo false [(Flag true false [1%N]); (Flag false false [1%N]); (Flag true false [0%N])])], ((@nil (N)), (@nil (N)), (@nil (N)), (@nil (N)))),
   (VL [(VB false); (VL (@nil (val)))]));
  (([(Flag false false [1%N]); (Flag false false [1%N]); (Grp KAmo false [(Flag true false [1%N]); (Flag false false [1%N]); (Flag true false [0%N])])], ([0%N], [5%N], (@nil (N)), [1%N; 6%N])),
   (VL [(VB false); (VL (@nil (val)))]));
  (([(Flag false false [1%N]); (Flag false false [1%N]); (Grp KAmo false [(Flag true false [1%N]); (Flag false false [1%N]); (Flag true false [0%N])])], ([1%N], (@nil (N)), (@nil (N)), [5%N; 6%N])),
   (VL [(VB false); (VL (@nil (val)))]));
  (([(Flag false false [1%N]); (Flag false false [1%N]); (Grp KAmo false [(Flag true false [1%N]); (Flag false false [1%N]); (Flag true false [0%N])])], ([0%N; 1%N], [5%N], [0%N], (@nil (N)))),
   (VL [(VB false); (VL (@nil (val)))]));
  (([(Flag false false [4%N])], ((@nil (N)), (@nil (N)), (@nil (N)), [6%N])),
   (VL [(VB false); (VL (@nil (val)))]));
  (([(Flag false false [4%N])], ([4%N], [4%N], (@nil (N)), (@nil (N)))),
   (VL [(VB true); (VL [(VL [(VZ 16%Z); (VZ 16%Z)])])]));
  (([(Cond true 2%N [(Flag false false [0%N]); (Grp KOne false [(Flag false false [2%N]); (Flag false false [0%N]); (Flag false false [0%N])]); (Flag true false [1%N])]); (Flag false false [2%N]); (Flag false false [2%N])], ((@nil (N)), (@nil (N)), (@nil (N)), (@nil (N)))),
   (VL [(VB false); (VL (@nil (val)))]));
  (([(Cond true 2%N [(Flag false false [0%N]); (Grp KOne false [(Flag false false [2%N]); (Flag false false [0%N]); (Flag false false [0%N])]); (Flag true false [1%N])]); (Flag false false [2%N]); (Flag false false [2%N])], ([0%N], [0%N], (@nil (N)), [6%N])),
   (VL [(VB false); (VL (@nil (val)))]));
  (([(Cond true 2%N [(Flag false false [0%N]); (Grp KOne false [(Flag false false [2%N]); (Flag false false [0%N]); (Flag false false [0%N])]); (Flag true false [1%N])]); (Flag false false [2%N]); (Flag false false [2%N])], ([1%N], (@nil (N)), [2%N], [5%N])),
   (VL [(VB false); (VL (@nil (val)))]));
  (([(Cond true 2%N [(Flag false false [0%N]); (Grp KOne false [(Flag false false [2%N]); (Flag false false [0%N]); (Flag false false [0%N])]); (Flag true false [1%N])]); (Flag false false [2%N]); (Flag false false [2%N])], ([2%N; 5%N], [2%N], (@nil (N)), [5%N])),
   (VL [(VB true); (VL [(VL [(VZ 39%Z); (VZ 4%Z)]); (VL [(VZ 39%Z); (VZ 36%Z)])])]));
  (([(Cond true 2%N [(Flag false false [0%N]); (Grp KOne false [(Flag false false [2%N]); (Flag false false [0%N]); (Flag false false [0%N])]); (Flag true false [1%N])]); (Flag false false [2%N]); (Flag false false [2%N])], ([0%N; 1%N], (@nil (N)), (@nil (N)), [1%N])),
   (VL [(VB false); (VL (@nil (val)))]));
  (([(Cond true 2%N [(Flag false false [0%N]); (Grp KOne false [(Flag false false [2%N]); (Flag false false [0%N]); (Flag false false [0%N])]); (Flag true false [1%N])]); (Flag false false [2%N]); (Flag false false [2%N])], ([0%N; 2%N], [0%N; 1%N], [2%N], [0%N; 1%N; 2%N; 5%N; 6%N])),
   (VL [(VB false); (VL (@nil (val)))]));
  (([(Cond true 2%N [(Flag false false [0%N]); (Grp KOne false [(Flag false false [2%N]); (Flag false false [0%N]); (Flag false false [0%N])]); (Flag true false [1%N])]); (Flag false false [2%N]); (Flag false false [2%N])], ([1%N; 2%N], (@nil (N)), [1%N], [0%N])),
   (VL [(VB false); (VL [(VL [(VZ 7%Z); (VZ 4%Z)])])]));
  (([(Cond true 2%N [(Flag false false [0%N]); (Grp KOne false [(Flag false false [2%N]); (Flag false false [0%N]); (Flag false false [0%N])]); (Flag true false [1%N])]); (Flag false false [2%N]); (Flag false false [2%N])], ([0%N; 1%N; 2%N], (@nil (N)), (@nil (N)), [1%N; 2%N; 6%N])),
   (VL [(VB true); (VL [(VL [(VZ 7%Z); (VZ 4%Z)]); (VL [(VZ 7%Z); (VZ 5%Z)]); (VL [(VZ 7%Z); (VZ 6%Z)]); (VL [(VZ 7%Z); (VZ 7%Z)])])]));
  (([(Grp KOne false [(Flag false false [1%N]); (Grp KOr false [(Flag false false [1%N]); (Flag false false [2%N]); (Flag false false [0%N])])])], ((@nil (N)), [5%N; 6%N], (@nil (N)), [5%N; 6%N])),
   (VL [(VB false); (VL (@nil (val)))]));
  (([(Grp KOne false [(Flag false false [1%N]); (Grp KOr false [(Flag false false [1%N]); (Flag false false [2%N]); (Flag false false [0%N])])])], ([0%N], [5%N], (@nil (N)), [1%N; 6%N])),
   (VL [(VB false); (VL [(VL [(VZ 7%Z); (VZ 1%Z)])])]));
  (([(Grp KOne false [(Flag false false [1%N]); (Grp KOr false [(Flag false false [1%N]); (Flag false false [2%N]); (Flag false false [0%N])])])], ([1%N; 5%N], [0%N], [5%N], [2%N])),
   (VL [(VB false); (VL (@nil (val)))]));
  (([(Grp KOne false [(Flag false false [1%N]); (Grp KOr false [(Flag false false [1%N]); (Flag false false [2%N]); (Flag false false [0%N])])])], ([2%N], [1%N], [6%N], [1%N; 5%N; 6%N])),
   (VL [(VB false); (VL [(VL [(VZ 7%Z); (VZ 4%Z)])])]));
  (([(Grp KOne false [(Flag false false [1%N]); (Grp KOr false [(Flag false false [1%N]); (Flag false false [2%N]); (Flag false false [0%N])])])], ([0%N; 1%N; 5%N], (@nil (N)), [2%N], [0%N])),
   (VL [(VB true); (VL [(VL [(VZ 39%Z); (VZ 1%Z)]); (VL [(VZ 39%Z); (VZ 33%Z)])])]));
  (([(Grp KOne false [(Flag false false [1%N]); (Grp KOr false [(Flag false false [1%N]); (Flag false false [2%N]); (Flag false false [0%N])])])], ([0%N; 2%N; 5%N], (@nil (N)), [2%N], [5%N])),
   (VL [(VB false); (VL [(VL [(VZ 39%Z); (VZ 1%Z)]); (VL [(VZ 39%Z); (VZ 33%Z)])])]));
  (([(Grp KOne false [(Flag false false [1%N]); (Grp KOr false [(Flag false false [1%N]); (Flag false false [2%N]); (Flag false false [0%N])])])], ([1%N; 2%N; 5%N], [0%N], [6%N], [0%N; 2%N])),
   (VL [(VB true); (VL [(VL [(VZ 39%Z); (VZ 4%Z)]); (VL [(VZ 39%Z); (VZ 36%Z)])])]));
  (([(Grp KOne false [(Flag false false [1%N]); (Grp KOr false [(Flag false false [1%N]); (Flag false false [2%N]); (Flag false false [0%N])])])], ([0%N; 1%N; 2%N], [1%N], [5%N; 6%N], [2%N; 6%N])),
   (VL [(VB false); (VL (@nil (val)))]));
  (([(Flag false false [0%N]); (Grp KAmo false [(Flag true false [1%N]); (Flag true false [0%N]); (Flag false false [0%N])])], ([5%N], (@nil (N)), (@nil (N)), [0%N])),
   (VL [(VB false); (VL (@nil (val)))]));
  (([(Flag false false [0%N]); (Grp KAmo false [(Flag true false [1%N]); (Flag true false [0%N]); (Flag false false [0%N])])], ([0%N], [0%N], (@nil (N)), (@nil (N)))),
   (VL [(VB false); (VL (@nil (val)))]));
  (([(Flag false false [0%N]); (Grp KAmo false [(Flag true false [1%N]); (Flag true false [0%N]); (Flag false false [0%N])])], ([1%N; 5%N], (@nil (N)), (@nil (N)), [0%N; 5%N; 6%N])),
   (VL [(VB false); (VL (@nil (val)))]));
  (([(Flag false false [0%N]); (Grp KAmo false [(Flag true false [1%N]); (Flag true false [0%N]); (Flag false false [0%N])])], ([0%N; 1%N], [0%N], (@nil (N)), (@nil (N)))),
   (VL [(VB false); (VL [(VL [(VZ 3%Z); (VZ 3%Z)])])]));
  (([(Flag false false [2%N]); (Flag true false [0%N]); (Grp KOne false [(Grp KOne false [(Flag false false [0%N]); (Flag false false [1%N])]); (Grp KAnd false [(Flag false false [1%N]); (Cond false 2%N [(Flag false false [1%N])])]); (Cond true 2%N [(Flag true false [2%N])])])], ([5%N], (@nil (N)), (@nil (N)), [0%N; 1%N])),
   (VL [(VB false); (VL (@nil (val)))]));
  (([(Flag false false [2%N]); (Flag true false [0%N]); (Grp KOne false [(Grp KOne false [(Flag false false [0%N]); (Flag false false [1%N])]); (Grp KAnd false [(Flag false false [1%N]); (Cond false 2%N [(Flag false false [1%N])])]); (Cond true 2%N [(Flag true false [2%N])])])], ([0%N; 5%N], (@nil (N)), [2%N], [2%N])),
   (VL [(VB false); (VL (@nil (val)))]));
  (([(Flag false false [2%N]); (Flag true false [0%N]); (Grp KOne false [(Grp KOne false [(Flag false false [0%N]); (Flag false false [1%N])]); (Grp KAnd false [(Flag false false [1%N]); (Cond false 2%N [(Flag false false [1%N])])]); (Cond true 2%N [(Flag true false [2%N])])])], ([1%N], (@nil (N)), [0%N], [2%N; 5%N; 6%N])),
   (VL [(VB false); (VL (@nil (val)))]));
  (([(Flag false false [2%N]); (Flag true false [0%N]); (Grp KOne false [(Grp KOne false [(Flag false false [0%N]); (Flag false false [1%N])]); (Grp KAnd false [(Flag false false [1%N]); (Cond false 2%N [(Flag false false [1%N])])]); (Cond true 2%N [(Flag true false [2%N])])])], ([2%N; 5%N], [1%N; 2%N], (@nil (N)), [0%N; 1%N; 2%N; 6%N])),
   (VL [(VB true); (VL [(VL [(VZ 39%Z); (VZ 4%Z)]); (VL [(VZ 39%Z); (VZ 36%Z)])])]));
  (([(Flag false false [2%N]); (Flag true false [0%N]); (Grp KOne false [(Grp KOne false [(Flag false false [0%N]); (Flag false false [1%N])]); (Grp KAnd false [(Flag false false [1%N]); (Cond false 2%N [(Flag false false [1%N])])]); (Cond true 2%N [(Flag true false [2%N])])])], ([0%N; 1%N; 5%N], (@nil (N)), (@nil (N)), [0%N; 6%N])),
   (VL [(VB false); (VL (@nil (val)))]));
  (([(Flag false false [2%N]); (Flag true false [0%N]); (Grp KOne false [(Grp KOne false [(Flag false false [0%N]); (Flag false false [1%N])]); (Grp KAnd false [(Flag false false [1%N]); (Cond false 2%N [(Flag false false [1%N])])]); (Cond true 2%N [(Flag true false [2%N])])])], ([0%N; 2%N], (@nil (N)), [0%N; 5%N], [0%N; 6%N])),
   (VL [(VB false); (VL [(VL [(VZ 7%Z); (VZ 4%Z)])])]));
  (([(Flag false false [2%N]); (Flag true false [0%N]); (Grp KOne false [(Grp KOne false [(Flag false false [0%N]); (Flag false false [1%N])]); (Grp KAnd false [(Flag false false [1%N]); (Cond false 2%N [(Flag false false [1%N])])]); (Cond true 2%N [(Flag true false [2%N])])])], ([1%N; 2%N; 5%N], (@nil (N)), [5%N], [0%N])),
   (VL [(VB false); (VL [(VL [(VZ 39%Z); (VZ 4%Z)])])]));
  (([(Flag false false [2%N]); (Flag true false [0%N]); (Grp KOne false [(Grp KOne false [(Flag false false [0%N]); (Flag false false [1%N])]); (Grp KAnd false [(Flag false false [1%N]); (Cond false 2%N [(Flag false false [1%N])])]); (Cond true 2%N [(Flag true false [2%N])])])], ([0%N; 1%N; 2%N], (@nil (N)), (@nil (N)), [2%N; 5%N; 6%N])),
   (VL [(VB true); (VL [(VL [(VZ 7%Z); (VZ 4%Z)])])]));
  (([(Flag false false [0%N]); (Flag false false [0%N])], ((@nil (N)), (@nil (N)), (@nil (N)), (@nil (N)))),
   (VL [(VB false); (VL (@nil (val)))]));
  (([(Flag false false [0%N]); (Flag false false [0%N])], ([0%N], [5%N], (@nil (N)), [5%N])),
   (VL [(VB false); (VL [(VL [(VZ 1%Z); (VZ 1%Z)])])]));
  (([(Cond false 0%N [(Flag false false [0%N])]); (Grp KAnd false [(Flag false false [4%N]); (Flag true false [1%N])])], ([5%N], [4%N], (@nil (N)), [0%N; 1%N])),
   (VL [(VB false); (VL (@nil (val)))]));
  (([(Cond false 0%N [(Flag false false [0%N])]); (Grp KAnd false [(Flag false false [4%N]); (Flag true false [1%N])])], ([0%N], [1%N; 6%N], [5%N], [1%N; 4%N; 5%N])),
   (VL [(VB false); (VL (@nil (val)))]));
  (([(Cond false 0%N [(Flag false false [0%N])]); (Grp KAnd false [(Flag false false [4%N]); (Flag true false [1%N])])], ([1%N; 5%N], (@nil (N)), [6%N], [1%N; 4%N])),
   (VL [(VB false); (VL (@nil (val)))]));
  (([(Cond false 0%N [(Flag false false [0%N])]); (Grp KAnd false [(Flag false false [4%N]); (Flag true false [1%N])])], ([4%N], [1%N], (@nil (N)), [1%N])),
   (VL [(VB false); (VL [(VL [(VZ 19%Z); (VZ 16%Z)])])]));
  (([(Cond false 0%N [(Flag false false [0%N])]); (Grp KAnd false [(Flag false false [4%N]); (Flag true false [1%N])])], ([0%N; 1%N; 5%N], [4%N], (@nil (N)), [1%N; 4%N])),
   (VL [(VB false); (VL (@nil (val)))]));
  (([(Cond false 0%N [(Flag false false [0%N])]); (Grp KAnd false [(Flag false false [4%N]); (Flag true false [1%N])])], ([0%N; 4%N], (@nil (N)), (@nil (N)), (@nil (N)))),
   (VL [(VB false); (VL [(VL [(VZ 19%Z); (VZ 16%Z)]); (VL [(VZ 19%Z); (VZ 17%Z)])])]));
  (([(Cond false 0%N [(Flag false false [0%N])]); (Grp KAnd false [(Flag false false [4%N]); (Flag true false [1%N])])], ([1%N; 4%N], [0%N; 4%N], [6%N], (@nil (N)))),
   (VL [(VB true); (VL [(VL [(VZ 19%Z); (VZ 16%Z)])])]));
  (([(Cond false 0%N [(Flag false false [0%N])]); (Grp KAnd false [(Flag false false [4%N]); (Flag true false [1%N])])], ([0%N; 1%N; 4%N], (@nil (N)), [1%N; 5%N], [5%N; 6%N])),
   (VL [(VB false); (VL [(VL [(VZ 19%Z); (VZ 16%Z)]); (VL [(VZ 19%Z); (VZ 17%Z)])])]));
  (([(Cond false 1%N [(Flag false false [1%N]); (Flag false false [2%N])])], ([5%N], [1%N; 6%N], [2%N], [1%N])),
   (VL [(VB true); (VL [(VL [(VZ 38%Z); (VZ 0%Z)]); (VL [(VZ 38%Z); (VZ 32%Z)])])]));
  (([(Cond false 1%N [(Flag false false [1%N]); (Flag false false [2%N])])], ([1%N], (@nil (N)), (@nil (N)), [5%N])),
   (VL [(VB true); (VL [(VL [(VZ 6%Z); (VZ 0%Z)])])]));
  (([(Cond false 1%N [(Flag false false [1%N]); (Flag false false [2%N])])], ([2%N], (@nil (N)), (@nil (N)), (@nil (N)))),
   (VL [(VB true); (VL [(VL [(VZ 6%Z); (VZ 0%Z)]); (VL [(VZ 6%Z); (VZ 4%Z)])])]));
  (([(Cond false 1%N [(Flag false false [1%N]); (Flag false false [2%N])])], ([1%N; 2%N], [2%N], (@nil (N)), (@nil (N)))),
   (VL [(VB true); (VL [(VL [(VZ 6%Z); (VZ 4%Z)]); (VL [(VZ 6%Z); (VZ 6%Z)])])]));
  (([(Cond true 4%N [(Flag true false [1%N]); (Cond false 4%N [(Flag true false [0%N]); (Flag false false [0%N]); (Flag true false [3%N])]); (Flag false false [0%N])])], ([0%N; 4%N], [1%N], [0%N], [0%N; 1%N; 3%N; 5%N; 6%N])),
   (VL [(VB false); (VL [(VL [(VZ 27%Z); (VZ 16%Z)])])]));
  (([(Cond true 4%N [(Flag true false [1%N]); (Cond false 4%N [(Flag true false [0%N]); (Flag false false [0%N]); (Flag true false [3%N])]); (Flag false false [0%N])])], ([0%N; 1%N; 3%N], [4%N], [1%N; 5%N], [0%N; 5%N])),
   (VL [(VB true); (VL [(VL [(VZ 27%Z); (VZ 1%Z)]); (VL [(VZ 27%Z); (VZ 9%Z)])])]));
  (([(Cond true 4%N [(Flag true false [1%N]); (Cond false 4%N [(Flag true false [0%N]); (Flag false false [0%N]); (Flag true false [3%N])]); (Flag false false [0%N])])], ((@nil (N)), [0%N], [5%N; 6%N], [0%N; 5%N; 6%N])),
   (VL [(VB false); (VL (@nil (val)))]));
  (([(Cond true 4%N [(Flag true false [1%N]); (Cond false 4%N [(Flag true false [0%N]); (Flag false false [0%N]); (Flag true false [3%N])]); (Flag false false [0%N])])], ([0%N; 1%N; 5%N], (@nil (N)), (@nil (N)), [1%N; 4%N])),
   (VL [(VB false); (VL [(VL [(VZ 59%Z); (VZ 1%Z)]); (VL [(VZ 59%Z); (VZ 33%Z)])])]));
  (([(Cond true 4%N [(Flag true false [1%N]); (Cond false 4%N [(Flag true false [0%N]); (Flag false false [0%N]); (Flag true false [3%N])]); (Flag false false [0%N])])], ([0%N; 1%N; 3%N; 4%N], (@nil (N)), [5%N; 6%N], [5%N; 6%N])),
   (VL [(VB false); (VL [(VL [(VZ 27%Z); (VZ 1%Z)]); (VL [(VZ 27%Z); (VZ 9%Z)]); (VL [(VZ 27%Z); (VZ 16%Z)]); (VL [(VZ 27%Z); (VZ 17%Z)]); (VL [(VZ 27%Z); (VZ 18%Z)]); (VL [(VZ 27%Z); (VZ 19%Z)]); (VL [(VZ 27%Z); (VZ 24%Z)]); (VL [(VZ 27%Z); (VZ 25%Z)]); (VL [(VZ 27%Z); (VZ 26%Z)]); (VL [(VZ 27%Z); (VZ 27%Z)])])]));
  (([(Cond true 4%N [(Flag true false [1%N]); (Cond false 4%N [(Flag true false [0%N]); (Flag false false [0%N]); (Flag true false [3%N])]); (Flag false false [0%N])])], ([1%N; 4%N; 5%N], [1%N], [4%N], [6%N])),
   (VL [(VB false); (VL (@nil (val)))]));
  (([(Cond true 4%N [(Flag true false [1%N]); (Cond false 4%N [(Flag true false [0%N]); (Flag false false [0%N]); (Flag true false [3%N])]); (Flag false false [0%N])])], ([0%N; 5%N], [0%N; 3%N], (@nil (N)), [4%N; 6%N])),
   (VL [(VB true); (VL [(VL [(VZ 59%Z); (VZ 1%Z)]); (VL [(VZ 59%Z); (VZ 33%Z)])])]));
  (([(Cond true 4%N [(Flag true false [1%N]); (Cond false 4%N [(Flag true false [0%N]); (Flag false false [0%N]); (Flag true false [3%N])]); (Flag false false [0%N])])], ([4%N; 5%N], (@nil (N)), (@nil (N)), [1%N; 3%N; 4%N; 5%N])),
   (VL [(VB true); (VL [(VL [(VZ 59%Z); (VZ 16%Z)]); (VL [(VZ 59%Z); (VZ 48%Z)])])]));
  (([(Cond true 4%N [(Flag true false [1%N]); (Cond false 4%N [(Flag true false [0%N]); (Flag false false [0%N]); (Flag true false [3%N])]); (Flag false false [0%N])])], ([0%N; 1%N; 4%N], [1%N], [3%N; 4%N], [3%N])),
   (VL [(VB false); (VL (@nil (val)))]));
  (([(Cond true 4%N [(Flag true false [1%N]); (Cond false 4%N [(Flag true false [0%N]); (Flag false false [0%N]); (Flag true false [3%N])]); (Flag false false [0%N])])], ([0%N; 3%N; 4%N], [4%N], (@nil (N)), [1%N; 3%N; 5%N; 6%N])),
   (VL [(VB true); (VL [(VL [(VZ 27%Z); (VZ 16%Z)]); (VL [(VZ 27%Z); (VZ 17%Z)]); (VL [(VZ 27%Z); (VZ 24%Z)]); (VL [(VZ 27%Z); (VZ 25%Z)])])]));
  (([(Cond true 4%N [(Flag true false [1%N]); (Cond false 4%N [(Flag true false [0%N]); (Flag false false [0%N]); (Flag true false [3%N])]); (Flag false false [0%N])])], ([1%N; 3%N], (@nil (N)), (@nil (N)), [0%N; 3%N; 4%N; 5%N])),
   (VL [(VB false); (VL (@nil (val)))]));
  (([(Cond true 4%N [(Flag true false [1%N]); (Cond false 4%N [(Flag true false [0%N]); (Flag false false [0%N]); (Flag true false [3%N])]); (Flag false false [0%N])])], ([1%N; 3%N; 4%N; 5%N], (@nil (N)), [0%N], [4%N])),
   (VL [(VB true); (VL [(VL [(VZ 59%Z); (VZ 16%Z)]); (VL [(VZ 59%Z); (VZ 18%Z)]); (VL [(VZ 59%Z); (VZ 24%Z)]); (VL [(VZ 59%Z); (VZ 26%Z)]); (VL [(VZ 59%Z); (VZ 48%Z)]); (VL [(VZ 59%Z); (VZ 50%Z)]); (VL [(VZ 59%Z); (VZ 56%Z)]); (VL [(VZ 59%Z); (VZ 58%Z)])])]));
  (([(Cond true 0%N [(Cond false 2%N [(Flag true false [2%N])]); (Grp KOr false [(Flag false false [1%N]); (Flag false false [4%N]); (Flag false false [1%N])])]); (Flag false false [1%N]); (Flag false false [3%N])], ([2%N; 5%N], [1%N; 2%N; 4%N; 5%N], [6%N], [0%N; 3%N; 4%N; 5%N])),
   (VL [(VB false); (VL (@nil (val)))]));
  (([(Cond true 0%N [(Cond false 2%N [(Flag true false [2%N])]); (Grp KOr false [(Flag false false [1%N]); (Flag false false [4%N]); (Flag false false [1%N])])]); (Flag false false [1%N]); (Flag false false [3%N])], ([1%N; 3%N; 5%N], [0%N; 1%N; 4%N; 5%N], [3%N], [5%N])),
   (VL [(VB false); (VL (@nil (val)))]));
  (([(Cond true 0%N [(Cond false 2%N [(Flag true false [2%N])]); (Grp KOr false [(Flag false false [1%N]); (Flag false false [4%N]); (Flag false false [1%N])])]); (Flag false false [1%N]); (Flag false false [3%N])], ([1%N; 2%N; 3%N; 4%N], (@nil (N)), [5%N], [5%N; 6%N])),
   (VL [(VB false); (VL [(VL [(VZ 31%Z); (VZ 10%Z)]); (VL [(VZ 31%Z); (VZ 26%Z)])])]));
  (([(Cond true 0%N [(Cond false 2%N [(Flag true false [2%N])]); (Grp KOr false [(Flag false false [1%N]); (Flag false false [4%N]); (Flag false false [1%N])])]); (Flag false false [1%N]); (Flag false false [3%N])], ([2%N; 3%N], (@nil (N)), [0%N; 3%N], [0%N; 4%N; 5%N])),
   (VL [(VB false); (VL (@nil (val)))]));
  (([(Cond true 0%N [(Cond false 2%N [(Flag true false [2%N])]); (Grp KOr false [(Flag false false [1%N]); (Flag false false [4%N]); (Flag false false [1%N])])]); (Flag false false [1%N]); (Flag false false [3%N])], ([1%N; 2%N; 3%N; 5%N], (@nil (N)), (@nil (N)), [1%N; 3%N])),
   (VL [(VB true); (VL [(VL [(VZ 63%Z); (VZ 10%Z)]); (VL [(VZ 63%Z); (VZ 42%Z)])])]));
  (([(Cond true 0%N [(Cond false 2%N [(Flag true false [2%N])]); (Grp KOr false [(Flag false false [1%N]); (Flag false false [4%N]); (Flag false false [1%N])])]); (Flag false false [1%N]); (Flag false false [3%N])], ([2%N; 3%N; 4%N], [0%N; 6%N], [5%N], [1%N; 4%N])),
   (VL [(VB false); (VL (@nil (val)))]));
  (([(Cond true 0%N [(Cond false 2%N [(Flag true false [2%N])]); (Grp KOr false [(Flag false false [1%N]); (Flag false false [4%N]); (Flag false false [1%N])])]); (Flag false false [1%N]); (Flag false false [3%N])], ([0%N; 2%N; 3%N], [3%N; 4%N; 5%N], [0%N], [0%N; 3%N; 5%N])),
   (VL [(VB false); (VL (@nil (val)))]));
  (([(Cond true 0%N [(Cond false 2%N [(Flag true false [2%N])]); (Grp KOr false [(Flag false false [1%N]); (Flag false false [4%N]); (Flag false false [1%N])])]); (Flag false false [1%N]); (Flag false false [3%N])], ([0%N; 1%N; 2%N; 3%N; 4%N; 5%N], (@nil (N)), (@nil (N)), [1%N])),
   (VL [(VB false); (VL [(VL [(VZ 63%Z); (VZ 10%Z)]); (VL [(VZ 63%Z); (VZ 11%Z)]); (VL [(VZ 63%Z); (VZ 15%Z)]); (VL [(VZ 63%Z); (VZ 26%Z)]); (VL [(VZ 63%Z); (VZ 27%Z)]); (VL [(VZ 63%Z); (VZ 31%Z)]); (VL [(VZ 63%Z); (VZ 42%Z)]); (VL [(VZ 63%Z); (VZ 43%Z)]); (VL [(VZ 63%Z); (VZ 47%Z)]); (VL [(VZ 63%Z); (VZ 58%Z)]); (VL [(VZ 63%Z); (VZ 59%Z)]); (VL [(VZ 63%Z); (VZ 63%Z)])])]));
  (([(Cond true 0%N [(Cond false 2%N [(Flag true false [2%N])]); (Grp KOr false [(Flag false false [1%N]); (Flag false false [4%N]); (Flag false false [1%N])])]); (Flag false false [1%N]); (Flag false false [3%N])], ([0%N; 1%N; 3%N; 4%N; 5%N], [0%N; 6%N], [2%N], [2%N; 3%N; 4%N])),
   (VL [(VB false); (VL [(VL [(VZ 63%Z); (VZ 11%Z)]); (VL [(VZ 63%Z); (VZ 27%Z)]); (VL [(VZ 63%Z); (VZ 43%Z)]); (VL [(VZ 63%Z); (VZ 59%Z)])])]));
  (([(Cond true 0%N [(Cond false 2%N [(Flag true false [2%N])]); (Grp KOr false [(Flag false false [1%N]); (Flag false false [4%N]); (Flag false false [1%N])])]); (Flag false false [1%N]); (Flag false false [3%N])], ([0%N; 1%N; 2%N; 3%N], [2%N; 5%N], [1%N; 3%N], [2%N])),
   (VL [(VB false); (VL (@nil (val)))]));
  (([(Cond true 0%N [(Cond false 2%N [(Flag true false [2%N])]); (Grp KOr false [(Flag false false [1%N]); (Flag false false [4%N]); (Flag false false [1%N])])]); (Flag false false [1%N]); (Flag false false [3%N])], ([0%N; 1%N; 4%N], [6%N], [0%N], [2%N; 6%N])),
   (VL [(VB false); (VL (@nil (val)))]));
  (([(Cond true 0%N [(Cond false 2%N [(Flag true false [2%N])]); (Grp KOr false [(Flag false false [1%N]); (Flag false false [4%N]); (Flag false false [1%N])])]); (Flag false false [1%N]); (Flag false false [3%N])], ([3%N; 4%N; 5%N], [3%N; 5%N], [2%N; 6%N], [6%N])),
   (VL [(VB false); (VL (@nil (val)))]));
  (([(Grp KAmo false [(Grp KAmo false [(Flag false false [0%N]); (Flag false false [0%N]); (Flag false false [0%N])]); (Cond false 0%N [(Flag false false [0%N]); (Flag false false [0%N])]); (Flag false false [0%N])])], ([5%N], (@nil (N)), (@nil (N)), [5%N])),
   (VL [(VB false); (VL (@nil (val)))]));
  (([(Grp KAmo false [(Grp KAmo false [(Flag false false [0%N]); (Flag false false [0%N]); (Flag false false [0%N])]); (Cond false 0%N [(Flag false false [0%N]); (Flag false false [0%N])]); (Flag false false [0%N])])], ([0%N], [0%N], [5%N], [5%N])),
   (VL [(VB false); (VL (@nil (val)))]));
  (([(Flag false false [1%N]); (Flag false false [1%N])], ((@nil (N)), [5%N], (@nil (N)), (@nil (N)))),
   (VL [(VB false); (VL (@nil (val)))]));
  (([(Flag false false [1%N]); (Flag false false [1%N])], ([1%N], [5%N], (@nil (N)), [5%N])),
   (VL [(VB false); (VL [(VL [(VZ 2%Z); (VZ 2%Z)])])]));
  (([(Grp KAmo false [(Flag true false [1%N]); (Flag false false [3%N])]); (Cond true 1%N [(Grp KOr false [(Flag true false [3%N]); (Flag false false [3%N])])]); (Flag false false [0%N])], ((@nil (N)), [3%N], [1%N; 6%N], [3%N; 5%N])),
   (VL [(VB false); (VL (@nil (val)))]));
  (([(Grp KAmo false [(Flag true false [1%N]); (Flag false false [3%N])]); (Cond true 1%N [(Grp KOr false [(Flag true false [3%N]); (Flag false false [3%N])])]); (Flag false false [0%N])], ([0%N], (@nil (N)), [0%N], [3%N; 5%N; 6%N])),
   (VL [(VB false); (VL (@nil (val)))]));
  (([(Grp KAmo false [(Flag true false [1%N]); (Flag false false [3%N])]); (Cond true 1%N [(Grp KOr false [(Flag true false [3%N]); (Flag false false [3%N])])]); (Flag false false [0%N])], ([1%N; 5%N], [1%N], [3%N], [0%N; 1%N; 5%N; 6%N])),
   (VL [(VB false); (VL (@nil (val)))]));
  (([(Grp KAmo false [(Flag true false [1%N]); (Flag false false [3%N])]); (Cond true 1%N [(Grp KOr false [(Flag true false [3%N]); (Flag false false [3%N])])]); (Flag false false [0%N])], ([3%N], (@nil (N)), (@nil (N)), [0%N])),
   (VL [(VB false); (VL (@nil (val)))]));
  (([(Grp KAmo false [(Flag true false [1%N]); (Flag false false [3%N])]); (Cond true 1%N [(Grp KOr false [(Flag true false [3%N]); (Flag false false [3%N])])]); (Flag false false [0%N])], ([0%N; 1%N], [1%N], (@nil (N)), [1%N; 5%N; 6%N])),
   (VL [(VB false); (VL [(VL [(VZ 11%Z); (VZ 3%Z)])])]));
  (([(Grp KAmo false [(Flag true false [1%N]); (Flag false false [3%N])]); (Cond true 1%N [(Grp KOr false [(Flag true false [3%N]); (Flag false false [3%N])])]); (Flag false false [0%N])], ([0%N; 3%N], (@nil (N)), [0%N], [3%N])),
   (VL [(VB false); (VL (@nil (val)))]));
  (([(Grp KAmo false [(Flag true false [1%N]); (Flag false false [3%N])]); (Cond true 1%N [(Grp KOr false [(Flag true false [3%N]); (Flag false false [3%N])])]); (Flag false false [0%N])], ([1%N; 3%N; 5%N], [1%N], (@nil (N)), [1%N])),
   (VL [(VB false); (VL (@nil (val)))]));
  (([(Grp KAmo false [(Flag true false [1%N]); (Flag false false [3%N])]); (Cond true 1%N [(Grp KOr false [(Flag true false [3%N]); (Flag false false [3%N])])]); (Flag false false [0%N])], ([0%N; 1%N; 3%N], [1%N], [0%N], (@nil (N)))),
   (VL [(VB false); (VL (@nil (val)))]));
  (([(Flag false false [4%N]); (Cond false 0%N [(Flag false false [3%N])]); (Cond false 2%N [(Flag true false [1%N]); (Flag false false [3%N])])], ([0%N; 1%N; 2%N; 3%N; 5%N], [2%N; 4%N], [0%N; 6%N], [1%N; 5%N])),
   (VL [(VB false); (VL (@nil (val)))]));
  (([(Flag false false [4%N]); (Cond false 0%N [(Flag false false [3%N])]); (Cond false 2%N [(Flag true false [1%N]); (Flag false false [3%N])])], ([0%N; 1%N], (@nil (N)), [1%N; 4%N], (@nil (N)))),
   (VL [(VB false); (VL (@nil (val)))]));
  (([(Flag false false [4%N]); (Cond false 0%N [(Flag false false [3%N])]); (Cond false 2%N [(Flag true false [1%N]); (Flag false false [3%N])])], ([1%N; 2%N; 4%N; 5%N], (@nil (N)), (@nil (N)), [1%N; 6%N])),
   (VL [(VB false); (VL [(VL [(VZ 63%Z); (VZ 16%Z)]); (VL [(VZ 63%Z); (VZ 18%Z)]); (VL [(VZ 63%Z); (VZ 48%Z)]); (VL [(VZ 63%Z); (VZ 50%Z)])])]));
  (([(Flag false false [4%N]); (Cond false 0%N [(Flag false false [3%N])]); (Cond false 2%N [(Flag true false [1%N]); (Flag false false [3%N])])], ([0%N; 1%N; 2%N], [1%N; 3%N], (@nil (N)), [1%N; 2%N; 5%N; 6%N])),
   (VL [(VB false); (VL (@nil (val)))]));
  (([(Flag false false [4%N]); (Cond false 0%N [(Flag false false [3%N])]); (Cond false 2%N [(Flag true false [1%N]); (Flag false false [3%N])])], ([0%N; 3%N], [3%N], (@nil (N)), [0%N; 1%N; 5%N; 6%N])),
   (VL [(VB false); (VL (@nil (val)))]));
  (([(Flag false false [4%N]); (Cond false 0%N [(Flag false false [3%N])]); (Cond false 2%N [(Flag true false [1%N]); (Flag false false [3%N])])], ([3%N], (@nil (N)), (@nil (N)), [0%N; 1%N; 6%N])),
   (VL [(VB false); (VL (@nil (val)))]));
  (([(Flag false false [4%N]); (Cond false 0%N [(Flag false false [3%N])]); (Cond false 2%N [(Flag true false [1%N]); (Flag false false [3%N])])], ([0%N; 3%N; 4%N], (@nil (N)), (@nil (N)), (@nil (N)))),
   (VL [(VB false); (VL [(VL [(VZ 31%Z); (VZ 16%Z)]); (VL [(VZ 31%Z); (VZ 24%Z)]); (VL [(VZ 31%Z); (VZ 25%Z)])])]));
  (([(Flag false false [4%N]); (Cond false 0%N [(Flag false false [3%N])]); (Cond false 2%N [(Flag true false [1%N]); (Flag false false [3%N])])], ([0%N; 2%N; 4%N], (@nil (N)), (@nil (N)), [1%N; 3%N])),
   (VL [(VB false); (VL [(VL [(VZ 31%Z); (VZ 16%Z)])])]));
  (([(Flag false false [4%N]); (Cond false 0%N [(Flag false false [3%N])]); (Cond false 2%N [(Flag true false [1%N]); (Flag false false [3%N])])], ([2%N; 3%N; 4%N; 5%N], (@nil (N)), [2%N; 3%N], [2%N; 3%N; 5%N])),
   (VL [(VB false); (VL [(VL [(VZ 63%Z); (VZ 16%Z)]); (VL [(VZ 63%Z); (VZ 48%Z)])])]));
  (([(Flag false false [4%N]); (Cond false 0%N [(Flag false false [3%N])]); (Cond false 2%N [(Flag true false [1%N]); (Flag false false [3%N])])], ([1%N; 3%N; 4%N], [2%N], [0%N], [1%N; 2%N; 6%N])),
   (VL [(VB false); (VL [(VL [(VZ 31%Z); (VZ 16%Z)]); (VL [(VZ 31%Z); (VZ 18%Z)]); (VL [(VZ 31%Z); (VZ 24%Z)]); (VL [(VZ 31%Z); (VZ 26%Z)])])]));
  (([(Flag false false [4%N]); (Cond false 0%N [(Flag false false [3%N])]); (Cond false 2%N [(Flag true false [1%N]); (Flag false false [3%N])])], ([0%N; 1%N; 3%N; 4%N; 5%N], [1%N; 3%N; 6%N], [2%N], [0%N; 4%N; 5%N; 6%N])),
   (VL [(VB true); (VL [(VL [(VZ 63%Z); (VZ 26%Z)]); (VL [(VZ 63%Z); (VZ 27%Z)]); (VL [(VZ 63%Z); (VZ 58%Z)]); (VL [(VZ 63%Z); (VZ 59%Z)])])]));
  (([(Flag false false [4%N]); (Cond false 0%N [(Flag false false [3%N])]); (Cond false 2%N [(Flag true false [1%N]); (Flag false false [3%N])])], ([0%N; 2%N; 3%N], [2%N; 3%N], [0%N; 1%N; 4%N], [3%N; 5%N])),
   (VL [(VB false); (VL (@nil (val)))]));
  (([(Flag false false [0%N]); (Grp KOr false [(Grp KOne false [(Flag false false [1%N]); (Flag true false [0%N])]); (Flag false false [1%N])])], ((@nil (N)), (@nil (N)), (@nil (N)), [0%N])),
   (VL [(VB false); (VL (@nil (val)))]));
  (([(Flag false false [0%N]); (Grp KOr false [(Grp KOne false [(Flag false false [1%N]); (Flag true false [0%N])]); (Flag false false [1%N])])], ([0%N; 5%N], (@nil (N)), (@nil (N)), [1%N])),
   (VL [(VB false); (VL (@nil (val)))]));
  (([(Flag false false [0%N]); (Grp KOr false [(Grp KOne false [(Flag false false [1%N]); (Flag true false [0%N])]); (Flag false false [1%N])])], ([1%N], [5%N], (@nil (N)), [6%N])),
   (VL [(VB false); (VL (@nil (val)))]));
  (([(Flag false false [0%N]); (Grp KOr false [(Grp KOne false [(Flag false false [1%N]); (Flag true false [0%N])]); (Flag false false [1%N])])], ([0%N; 1%N], (@nil (N)), (@nil (N)), (@nil (N)))),
   (VL [(VB false); (VL [(VL [(VZ 3%Z); (VZ 3%Z)])])]));
  (([(Grp KAnd false [(Flag false false [0%N]); (Flag true false [0%N]); (Flag false false [0%N])]); (Cond false 0%N [(Cond false 0%N [(Flag false false [0%N]); (Flag true false [0%N])]); (Flag false false [0%N]); (Flag true false [0%N])]); (Cond false 0%N [(Flag false false [0%N]); (Grp KAmo false [(Flag false false [0%N]); (Flag false false [0%N])]); (Flag false false [0%N])])], ((@nil (N)), (@nil (N)), (@nil (N)), [0%N; 5%N])),
   (VL [(VB false); (VL (@nil (val)))]));
  (([(Grp KAnd false [(Flag false false [0%N]); (Flag true false [0%N]); (Flag false false [0%N])]); (Cond false 0%N [(Cond false 0%N [(Flag false false [0%N]); (Flag true false [0%N])]); (Flag false false [0%N]); (Flag true false [0%N])]); (Cond false 0%N [(Flag false false [0%N]); (Grp KAmo false [(Flag false false [0%N]); (Flag false false [0%N])]); (Flag false false [0%N])])], ([0%N], [6%N], (@nil (N)), [0%N; 5%N; 6%N])),
   (VL [(VB false); (VL (@nil (val)))]));
  (([(Cond false 0%N [(Grp KAnd false [(Flag false false [0%N]); (Grp KOne false [(Flag false false [1%N]); (Flag false false [1%N])]); (Cond false 1%N [(Flag true false [1%N]); (Flag true false [0%N]); (Flag false false [0%N])])]); (Grp KOr false [(Cond false 1%N [(Flag false false [0%N])]); (Cond false 0%N [(Flag false false [0%N]); (Flag true false [0%N]); (Flag false false [1%N])])])]); (Grp KOne false [(Flag false false [1%N]); (Flag false false [0%N]); (Flag true false [0%N])])], ((@nil (N)), [0%N; 5%N], (@nil (N)), [6%N])),
   (VL [(VB true); (VL [(VL [(VZ 3%Z); (VZ 0%Z)])])]));
  (([(Cond false 0%N [(Grp KAnd false [(Flag false false [0%N]); (Grp KOne false [(Flag false false [1%N]); (Flag false false [1%N])]); (Cond false 1%N [(Flag true false [1%N]); (Flag true false [0%N]); (Flag false false [0%N])])]); (Grp KOr false [(Cond false 1%N [(Flag false false [0%N])]); (Cond false 0%N [(Flag false false [0%N]); (Flag true false [0%N]); (Flag false false [1%N])])])]); (Grp KOne false [(Flag false false [1%N]); (Flag false false [0%N]); (Flag true false [0%N])])], ([0%N; 5%N], [5%N; 6%N], (@nil (N)), [0%N; 1%N; 5%N])),
   (VL [(VB false); (VL [(VL [(VZ 35%Z); (VZ 32%Z)])])]))
].
Time Eval vm_compute in (mismatches run_fcs cases).
Time Eval vm_compute in (where_ (fun i r => negb (spec_fcs_ok i r)) cases).
