(* Spec_C14.v — the statement of C14, independent of how the wrapper caches.

   "For any sequence of USE enable and disable requests, rollbacks and commits on a
    configured package, every USE-dependent attribute read afterwards equals the raw
    attribute evaluated under the package's current USE set.  A refused request leaves
    the USE set as it was."

   The statements are parametric in the step function so that they can be asserted of the
   repaired wrapper and refuted of the pinned one. *)
From Coq Require Import List NArith ZArith Bool.
Import ListNotations.
From Verif Require Import Base.Val C14.Model_C14.

Definition same_set (a b : list N) : Prop := forall f, mem f a = mem f b.

Definition is_request (o : op) : Prop :=
  match o with Enable _ | Disable _ => True | _ => False end.

Section Statements.
  Variable V : Type.
  Variable E : N -> list N -> V.
  Variable stp : op -> st V -> res V * st V.

  (* after ANY history (reads included, anywhere), reading attribute a yields E a of the
     USE set the package has at that moment, and reading does not touch the USE set *)
  Definition reads_current_stmt : Prop :=
    forall (use locked : list N) (ops : list op) (a : N),
      let s := run V stp ops (init V use locked) in
      fst (stp (Read a) s) = RV (E a (current_use s))
      /\ current_use (snd (stp (Read a) s)) = current_use s.

  (* the same, for every read INSIDE a history: the i-th result of the run *)
  Definition all_reads_current_stmt : Prop :=
    forall (use locked : list N) (ops : list op) (i : nat) (a : N) r s',
      nth_error ops i = Some (Read a) ->
      nth_error (exec V stp ops (init V use locked)) i = Some (r, s') ->
      r = RV (E a (current_use s')).

  (* a request answered False, after any history, leaves the USE set as it was *)
  Definition refused_unchanged_stmt : Prop :=
    forall (use locked : list N) (ops : list op) (o : op),
      let s := run V stp ops (init V use locked) in
      is_request o -> fst (stp o s) = RB false ->
      same_set (current_use (snd (stp o s))) (current_use s).

  (* a request is answered True or False, it never raises *)
  Definition requests_answered_stmt : Prop :=
    forall (use locked : list N) (ops : list op) (o : op),
      let s := run V stp ops (init V use locked) in
      is_request o -> exists b, fst (stp o s) = RB b.
End Statements.

(* ---------------------------------------------------------------- comparison (B) inside Coq:
   an acceptor over the IMPLEMENTATION's recorded observations only.  For every op the harness
   recorded [result; bit mask of the observed flags in USE; changes_count].  Accept iff
     - every read returned the attribute evaluated under the USE set recorded at that step,
     - every request answered False left the recorded USE set equal to the previous one,
     - no request raised. *)
Definition obs_ok (ds : list (list node)) (prev : Z) (o : op) (r : val) (m : Z) : bool :=
  match o with
  | Read a => val_eqb r (enc_list (E_of ds a (set_of_mask m))) && Z.eqb m prev
  | Enable _ | Disable _ =>
      match r with
      | VB true => true
      | VB false => Z.eqb m prev
      | _ => false
      end
  | _ => true
  end.

Fixpoint hist_ok (ds : list (list node)) (prev : Z) (ops : list op) (obs : list val) : bool :=
  match ops, obs with
  | [], [] => true
  | o :: ops', (VL [r; VZ m; VZ _]) :: obs' => obs_ok ds prev o r m && hist_ok ds m ops' obs'
  | _, _ => false
  end.

Definition spec_hist_ok (i : hist_input) (recorded : val) : bool :=
  let '((use, locked, ds), ops) := i in
  match recorded with
  | VL obs => hist_ok ds (mask_of use) ops obs
  | _ => false
  end.

(* the same acceptor for a recorded fan: the prefix as a history, then every continuation
   against the USE set recorded at the end of the prefix *)
Fixpoint last_mask (prev : Z) (obs : list val) : Z :=
  match obs with
  | [] => prev
  | (VL [_; VZ m; _]) :: obs' => last_mask m obs'
  | _ :: obs' => last_mask prev obs'
  end.

Fixpoint lasts_ok (ds : list (list node)) (prev : Z) (lasts : list op) (obs : list val) : bool :=
  match lasts, obs with
  | [], [] => true
  | o :: lasts', (VL [r; VZ m; VZ _]) :: obs' => obs_ok ds prev o r m && lasts_ok ds prev lasts' obs'
  | _, _ => false
  end.

Definition spec_fan_ok (i : fan_input) (recorded : val) : bool :=
  let '(((use, locked, ds), ops), lasts) := i in
  match recorded with
  | VL [VL pre; VL post] =>
      hist_ok ds (mask_of use) ops pre && lasts_ok ds (last_mask (mask_of use) pre) lasts post
  | _ => false
  end.
