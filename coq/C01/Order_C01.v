(* Order_C01.v — a small theory of three-valued comparison functions (-1/0/1 in Z) that are total
   preorders, closed under pull-back, lexicographic sequencing and lexicographic lists.
   Shared lemma file of C01 (also used by C02). *)
From Coq Require Import List NArith ZArith Bool Lia.
Import ListNotations.
From Verif Require Import Base.Val C01.Model_C01.

Record good {A} (c : A -> A -> Z) : Prop := mk_good {
  g_range : forall a b, c a b = (-1)%Z \/ c a b = 0%Z \/ c a b = 1%Z;
  g_refl  : forall a, c a a = 0%Z;
  g_anti  : forall a b, c b a = (- c a b)%Z;
  g_eq    : forall a b d, c a b = 0%Z -> c a d = c b d;
  g_lt    : forall a b d, c a b = (-1)%Z -> c b d = (-1)%Z -> c a d = (-1)%Z }.
Arguments g_range {A c}. Arguments g_refl {A c}. Arguments g_anti {A c}.
Arguments g_eq {A c}. Arguments g_lt {A c}.

Section Derived.
  Context {A} (c : A -> A -> Z) (G : good c).
  Lemma g_eq_r a b d : c b d = 0%Z -> c a b = c a d.
  Proof.
    intros H. assert (H' : c d b = 0%Z) by (rewrite (g_anti G b d), H; reflexivity).
    pose proof (g_eq G d b a H') as E. rewrite (g_anti G a d), (g_anti G a b) in E. lia.
  Qed.
  Lemma g_lt_eq a b d : c a b = (-1)%Z -> c b d = 0%Z -> c a d = (-1)%Z.
  Proof. intros H1 H2. rewrite <- (g_eq_r a b d H2). exact H1. Qed.
  Lemma g_le_trans a b d : (c a b <= 0)%Z -> (c b d <= 0)%Z -> (c a d <= 0)%Z.
  Proof.
    intros H1 H2.
    destruct (g_range G a b) as [E1|[E1|E1]]; try lia;
    destruct (g_range G b d) as [E2|[E2|E2]]; try lia.
    - rewrite (g_lt G a b d E1 E2); lia.
    - rewrite (g_lt_eq a b d E1 E2); lia.
    - rewrite (g_eq G a b d E1); lia.
    - rewrite (g_eq G a b d E1); lia.
  Qed.
  Lemma g_trans_strong a b d : (c a b <= 0)%Z -> (c b d <= 0)%Z ->
    (c a d <= 0)%Z /\ (c a d = 0%Z -> c a b = 0%Z /\ c b d = 0%Z).
  Proof.
    intros H1 H2. split; [apply g_le_trans with b; assumption|].
    intros H3.
    destruct (g_range G a b) as [E1|[E1|E1]]; try lia;
    destruct (g_range G b d) as [E2|[E2|E2]]; try lia.
    - rewrite (g_lt G a b d E1 E2) in H3; lia.
    - rewrite (g_lt_eq a b d E1 E2) in H3; lia.
    - rewrite (g_eq G a b d E1) in H3; lia.
  Qed.
End Derived.

(* ---- base comparisons *)
Lemma sgn_cases c : sgn c = (-1)%Z \/ sgn c = 0%Z \/ sgn c = 1%Z.
Proof. destruct c; cbn; auto. Qed.

Lemma cmpN_lt a b : cmpN a b = (-1)%Z <-> (a < b)%N.
Proof. unfold cmpN. destruct (N.compare_spec a b); cbn; split; intros; try lia; try discriminate. Qed.
Lemma cmpN_eq a b : cmpN a b = 0%Z <-> a = b.
Proof. unfold cmpN. destruct (N.compare_spec a b); cbn; split; intros; try lia; try discriminate; auto. Qed.
Lemma cmpN_gt a b : cmpN a b = 1%Z <-> (b < a)%N.
Proof. unfold cmpN. destruct (N.compare_spec a b); cbn; split; intros; try lia; try discriminate. Qed.
Lemma cmpN_refl a : cmpN a a = 0%Z.
Proof. apply cmpN_eq; reflexivity. Qed.

Lemma good_cmpN : good cmpN.
Proof.
  constructor.
  - intros; apply sgn_cases.
  - apply cmpN_refl.
  - intros a b. unfold cmpN. rewrite (N.compare_antisym a b). destruct (N.compare a b); reflexivity.
  - intros a b d H. apply (proj1 (cmpN_eq _ _)) in H. subst; reflexivity.
  - intros a b d H1 H2. apply (proj1 (cmpN_lt _ _)) in H1. apply (proj1 (cmpN_lt _ _)) in H2. apply cmpN_lt. lia.
Qed.

Lemma cmpZ_lt a b : cmpZ a b = (-1)%Z <-> (a < b)%Z.
Proof. unfold cmpZ. destruct (Z.compare_spec a b); cbn; split; intros; try lia; try discriminate. Qed.
Lemma cmpZ_eq a b : cmpZ a b = 0%Z <-> a = b.
Proof. unfold cmpZ. destruct (Z.compare_spec a b); cbn; split; intros; try lia; try discriminate; auto. Qed.
Lemma cmpZ_gt a b : cmpZ a b = 1%Z <-> (b < a)%Z.
Proof. unfold cmpZ. destruct (Z.compare_spec a b); cbn; split; intros; try lia; try discriminate. Qed.
Lemma cmpZ_refl a : cmpZ a a = 0%Z.
Proof. apply cmpZ_eq; reflexivity. Qed.

Lemma good_cmpZ : good cmpZ.
Proof.
  constructor.
  - intros; apply sgn_cases.
  - apply cmpZ_refl.
  - intros a b. unfold cmpZ. rewrite (Z.compare_antisym a b). destruct (Z.compare a b); reflexivity.
  - intros a b d H. apply (proj1 (cmpZ_eq _ _)) in H. subst; reflexivity.
  - intros a b d H1 H2. apply (proj1 (cmpZ_lt _ _)) in H1. apply (proj1 (cmpZ_lt _ _)) in H2. apply cmpZ_lt. lia.
Qed.

Lemma cmpN_cmpZ a b : cmpN a b = cmpZ (Z.of_N a) (Z.of_N b).
Proof. unfold cmpN, cmpZ. rewrite N2Z.inj_compare. reflexivity. Qed.

Lemma cmp_len_refl n : cmp_len n n = 0%Z.
Proof. unfold cmp_len. rewrite Nat.compare_refl. reflexivity. Qed.

(* ---- Python string order *)
Lemma str_cmp_refl a : str_cmp a a = 0%Z.
Proof. induction a as [|x a IH]; cbn; [reflexivity|]. rewrite N.compare_refl. exact IH. Qed.

Lemma str_cmp_eq a b : str_cmp a b = 0%Z <-> a = b.
Proof.
  split; [|intros ->; apply str_cmp_refl].
  revert b; induction a as [|x a IH]; intros [|y b]; cbn; intros H; try reflexivity; try discriminate.
  destruct (N.compare_spec x y); try discriminate. subst. f_equal. apply IH; exact H.
Qed.

Lemma str_eqb_cmp a b : str_eqb a b = true <-> str_cmp a b = 0%Z.
Proof. rewrite str_eqb_eq, str_cmp_eq. tauto. Qed.

Lemma good_str_cmp : good str_cmp.
Proof.
  constructor.
  - induction a as [|x a IH]; intros [|y b]; cbn; auto. destruct (N.compare x y); auto.
  - apply str_cmp_refl.
  - induction a as [|x a IH]; intros [|y b]; cbn; auto.
    rewrite (N.compare_antisym x y). destruct (N.compare x y); cbn; auto.
  - intros a b d H. apply (proj1 (str_cmp_eq _ _)) in H. subst; reflexivity.
  - induction a as [|x a IH]; intros [|y b] [|z d]; cbn; intros H1 H2; try reflexivity; try discriminate.
    destruct (N.compare_spec x y); try discriminate; destruct (N.compare_spec y z); try discriminate; subst.
    + rewrite N.compare_refl. eapply IH; eassumption.
    + destruct (N.compare_spec z z); try lia. destruct (N.compare_spec y z); try lia; reflexivity.
    + destruct (N.compare_spec x z); try lia; reflexivity.
    + destruct (N.compare_spec x z); try lia; reflexivity.
Qed.

(* ---- combinators *)
Definition thenc {A} (c1 c2 : A -> A -> Z) (a b : A) : Z :=
  if Z.eqb (c1 a b) 0 then c2 a b else c1 a b.

Lemma thenc_zero {A} (c1 c2 : A -> A -> Z) a b :
  thenc c1 c2 a b = 0%Z <-> c1 a b = 0%Z /\ c2 a b = 0%Z.
Proof. unfold thenc. destruct (Z.eqb_spec (c1 a b) 0); split; intros; try tauto; lia. Qed.

Lemma good_pull {A B} (f : A -> B) (c : B -> B -> Z) : good c -> good (fun a b => c (f a) (f b)).
Proof.
  intros G. constructor; intros.
  - apply (g_range G). - apply (g_refl G). - apply (g_anti G).
  - apply (g_eq G); assumption. - eapply (g_lt G); eassumption.
Qed.

Lemma good_thenc {A} (c1 c2 : A -> A -> Z) : good c1 -> good c2 -> good (thenc c1 c2).
Proof.
  intros G1 G2. constructor.
  - intros a b. unfold thenc. destruct (Z.eqb_spec (c1 a b) 0); [apply (g_range G2)|apply (g_range G1)].
  - intros a. unfold thenc. rewrite (g_refl G1). cbn. apply (g_refl G2).
  - intros a b. unfold thenc. rewrite (g_anti G1 a b), (g_anti G2 a b).
    destruct (Z.eqb_spec (c1 a b) 0), (Z.eqb_spec (- c1 a b) 0); lia.
  - intros a b d H. apply thenc_zero in H as [H1 H2]. unfold thenc.
    rewrite (g_eq G1 a b d H1), (g_eq G2 a b d H2). reflexivity.
  - intros a b d. unfold thenc.
    destruct (Z.eqb_spec (c1 a b) 0) as [E1|E1]; destruct (Z.eqb_spec (c1 b d) 0) as [E2|E2]; intros H1 H2.
    + rewrite (g_eq G1 a b d E1), E2. cbn. eapply (g_lt G2); eassumption.
    + rewrite (g_eq G1 a b d E1). destruct (Z.eqb_spec (c1 b d) 0); [lia|assumption].
    + rewrite (g_lt_eq c1 G1 a b d H1 E2). reflexivity.
    + rewrite (g_lt G1 a b d H1 H2). reflexivity.
Qed.

Fixpoint list_lex {A} (c : A -> A -> Z) (l1 l2 : list A) : Z :=
  match l1, l2 with
  | [], [] => 0
  | [], _ :: _ => -1
  | _ :: _, [] => 1
  | x :: t1, y :: t2 => if Z.eqb (c x y) 0 then list_lex c t1 t2 else c x y
  end%Z.

Lemma list_lex_ext {A} (c c' : A -> A -> Z) l1 l2 :
  (forall x y, In x l1 -> In y l2 -> c x y = c' x y) -> list_lex c l1 l2 = list_lex c' l1 l2.
Proof.
  revert l2; induction l1 as [|x t1 IH]; intros [|y t2] H; cbn; try reflexivity.
  rewrite (H x y) by (left; reflexivity).
  rewrite IH; [reflexivity|]. intros; apply H; right; assumption.
Qed.

Lemma good_list_lex {A} (c : A -> A -> Z) : good c -> good (list_lex c).
Proof.
  intros G. constructor.
  - induction a as [|x a IH]; intros [|y b]; cbn; auto.
    destruct (Z.eqb_spec (c x y) 0); [apply IH|apply (g_range G)].
  - induction a as [|x a IH]; cbn; [reflexivity|]. rewrite (g_refl G). cbn. exact IH.
  - induction a as [|x a IH]; intros [|y b]; cbn; auto.
    rewrite (g_anti G x y). destruct (Z.eqb_spec (c x y) 0), (Z.eqb_spec (- c x y) 0); try lia. apply IH.
  - induction a as [|x a IH]; intros [|y b] [|z d]; cbn; intros H; try reflexivity; try discriminate.
    destruct (Z.eqb_spec (c x y) 0) as [E|E].
    + rewrite (g_eq G x y z E). rewrite (IH b d H). reflexivity.
    + destruct (g_range G x y) as [E'|[E'|E']]; lia.
  - induction a as [|x a IH]; intros [|y b] [|z d]; cbn; intros H1 H2; try reflexivity; try discriminate.
    destruct (Z.eqb_spec (c x y) 0) as [E1|E1]; destruct (Z.eqb_spec (c y z) 0) as [E2|E2].
    + rewrite (g_eq G x y z E1), E2. cbn. eapply IH; eassumption.
    + rewrite (g_eq G x y z E1). destruct (Z.eqb_spec (c y z) 0); [lia|assumption].
    + rewrite (g_lt_eq c G x y z H1 E2). reflexivity.
    + rewrite (g_lt G x y z H1 H2). reflexivity.
Qed.
