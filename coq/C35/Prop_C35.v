(* Prop_C35.v — the property theorems of C35 (statements only; proofs in Proofs_C35.v). *)
From Coq Require Import List NArith Bool.
Import ListNotations.
From Verif Require Import Base.Val C41.Lts gen.Tables_protocol C35.Model_C35 C35.Spec_C35 C35.Proofs_C35.

Theorem literals_agree : tables_agree = true.
Proof. exact literals_agree_proof. Qed.
Print Assumptions literals_agree.

Theorem unknown_is_error_daemon :
  forall s c f s' out,
    sreact s c f = Some (s', out) -> listed s (see c) = false -> error_reaction s' out = true.
Proof. exact unknown_is_error_daemon_proof. Qed.
Print Assumptions unknown_is_error_daemon.

Theorem unknown_is_error_python :
  forall c h kt r ch c',
    py c = PHand h kt -> isnotice r = false -> handled h r = false ->
    stepf c (LR r ch) = Some c' -> py c' = PExec Err.
Proof. exact handler_read_unknown_proof. Qed.
Print Assumptions unknown_is_error_python.
