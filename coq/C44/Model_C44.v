(* Model_C44.v — executable model of pkgcore.util.parserestrict
     parse_match            src/pkgcore/util/parserestrict.py:63
     convert_glob           :41   (valid_globbing :14, re.escape, escaped star -> dot-star, StrRegex(match=True))
     collect_ops            :56
     parse_globbed_version  :179
   and of how the restriction it returns is evaluated on a package
     values.StrRegex.match / StrExactMatch.match, packages.PackageRestriction.match,
     boolean.AndRestriction.match, atom.match (C04's model), restricts.VersionMatch (C01's).
   Atoms are parsed by C03's model ([Model_C03.parse_atom None false] = atom.atom(text)), turned
   into C04's attribute record by [bridge] and matched by C04's [atom_match] / [eval_restr] with
   C01's [ver_cmp].  No proofs here.

   [parse_match_gen fix]: [fix = true] is the REPAIRED behaviour (fixes/C44-globbed-version-keeps-
   slot-repo.patch: the slot / sub-slot / repository restrictions collected before the globbed-version
   branch are kept); [fix = false] is the pinned tree, where
   `>=*/alsa-*-1.1.7:0` and `>=*/alsa-*-1.1.7::gentoo` silently drop `:0` / `::gentoo`.

   DOMAIN: any code points except non-ASCII digits (C03's parser model reads [\d] / isdigit as ASCII
   digits); no transitive USE deps (`[x?]`, `[x=]`: result [EUnmodelled]). *)
From Coq Require Import List NArith ZArith Bool Arith.
From Coq Require Strings.Byte.
Import ListNotations.
From Verif Require Import Base.Val C01.Model_C01 C04.Model_C04.
From Verif Require C03.Model_C03.
From Verif Require Import gen.Tables_C44.
Local Open Scope N_scope.

(* ------------------------------------------------------------------ characters, strings *)
Definition c_star := 42.  Definition c_colon := 58.  Definition c_slash := 47.
Definition c_dash := 45.  Definition c_bang := 33.   Definition c_nl := 10.

Definition mem (c : N) (s : str) : bool := existsb (N.eqb c) s.

(* str.isspace() *)
Definition is_space (c : N) : bool :=
  ((9 <=? c) && (c <=? 13)) || ((28 <=? c) && (c <=? 32)) || (c =? 133) || (c =? 160)
  || (c =? 5760) || ((8192 <=? c) && (c <=? 8202)) || (c =? 8232) || (c =? 8233)
  || (c =? 8239) || (c =? 8287) || (c =? 12288).
Fixpoint lstrip (s : str) : str :=
  match s with x :: t => if is_space x then lstrip t else s | [] => [] end.
Definition strip (s : str) : str := List.rev (lstrip (List.rev (lstrip s))).

(* [\w] of a str pattern: ASCII alphanumerics and underscore, and the Unicode word characters of the
   running Python (gen/Tables_C44.v: every code point >= 128 that re.match(r"\w", chr(c)) accepts,
   regenerated on every run) *)
Definition is_word (c : N) : bool :=
  ((48 <=? c) && (c <=? 57)) || ((65 <=? c) && (c <=? 90)) || ((97 <=? c) && (c <=? 122)) || (c =? 95)
  || Model_C03.in_ranges uni_word_ranges c.
(* [\w+-.] : the range "+-." is  + , - .  *)
Definition is_glob_char (c : N) : bool := is_word c || ((43 <=? c) && (c <=? 46)).

(* text.rsplit("::", 1) : the rightmost "::" *)
Fixpoint rsplit_dcolon (s : str) : option (str * str) :=
  match s with
  | [] => None
  | x :: t =>
      match rsplit_dcolon t with
      | Some (p, q) => Some (x :: p, q)
      | None => match t with
                | y :: t' => if (x =? c_colon) && (y =? c_colon) then Some ([], t') else None
                | [] => None
                end
      end
  end.

(* collect_ops : the longest prefix of < = > ~ *)
Definition is_opchar (c : N) : bool := (c =? 60) || (c =? 61) || (c =? 62) || (c =? 126).
Fixpoint collect_ops (s : str) : str * str :=
  match s with
  | x :: t => if is_opchar x then let '(a, b) := collect_ops t in (x :: a, b) else ([], s)
  | [] => ([], [])
  end.
Definition starts_op (s : str) : bool := match s with x :: _ => is_opchar x | [] => false end.
Definition starts_star (s : str) : bool := match s with x :: _ => x =? c_star | [] => false end.

(* max(x for x in atom.valid_ops if text.startswith(x)) : operator id (C01's numbering), rest *)
Definition longest_op (s : str) : option (N * str) :=
  match s with
  | 60 :: 61 :: r => Some (1, r)
  | 60 :: r => Some (0, r)
  | 62 :: 61 :: r => Some (3, r)
  | 62 :: r => Some (4, r)
  | 61 :: r => Some (2, r)
  | 126 :: r => Some (5, r)
  | _ => None
  end.

(* ------------------------------------------------------------------ globs *)
(* valid_globbing (parserestrict.py:14): one or more of [\w+-.] or a star not preceded by a star,
   anchored with ^ and $ *)
Fixpoint no_double_star (s : str) : bool :=
  match s with
  | x :: t => match t with
              | y :: _ => negb ((x =? c_star) && (y =? c_star)) && no_double_star t
              | [] => true
              end
  | [] => true
  end.
Definition valid_glob (tok : str) : bool :=
  let t := Model_C03.strip_nl tok in
  negb (is_nil t) && forallb (fun c => is_glob_char c || (c =? c_star)) t && no_double_star t.

(* the compiled pattern: ^ , re.escape(token) with every escaped star turned into dot-star, $ ;
   as a list of items *)
Inductive rx := RLit (c : N) | RAny.
Definition glob_items (tok : str) : list rx :=
  map (fun c => if c =? c_star then RAny else RLit c) tok.

(* re.match of ^items$ : the dot does not match a newline, $ also matches before one final newline *)
Fixpoint rx_match (items : list rx) (s : str) : bool :=
  match items with
  | [] => match s with [] => true | [x] => x =? c_nl | _ => false end
  | RLit c :: r => match s with x :: s' => (x =? c) && rx_match r s' | [] => false end
  | RAny :: r =>
      (fix star (s : str) : bool :=
         rx_match r s || match s with x :: s' => negb (x =? c_nl) && star s' | [] => false end) s
  end.

(* the pattern text (StrRegex.regex), for the structural comparison *)
(* re.escape touches only its fixed list of ASCII specials; of those a valid glob token can contain
   + - . and a final newline *)
Definition rx_escape (c : N) : str :=
  if c =? c_star then [46; 42]
  else if (c =? 43) || (c =? 45) || (c =? 46) || (c =? c_nl) then [92; c]
  else [c].
Definition rx_text (tok : str) : str := 94 :: flat_map rx_escape tok ++ [36].

Inductive cg := CGNone | CGExact (s : str) | CGRegex (tok : str) | CGErr.
Definition convert_glob (tok : str) : cg :=
  if is_nil tok || str_eqb tok [c_star] then CGNone
  else if negb (mem c_star tok) then CGExact tok
  else if valid_glob tok then CGRegex tok
  else CGErr.

(* ------------------------------------------------------------------ atoms: C03's record -> C04's *)
Definition op_id (op : str) : N :=
  match op with
  | [60] => 0 | [60; 61] => 1 | [61] => 2 | [62; 61] => 3 | [62] => 4 | [126] => 5 | [61; 42] => 6
  | _ => 7
  end.
Definition rev_num (r : option str) : option N :=
  match r with Some (c :: t) => Some (int_of (c :: t)) | _ => None end.
Definition bridge (a : Model_C03.atom_rec) : atom :=
  {| a_cat := Model_C03.a_cat a; a_pkg := Model_C03.a_pkg a;
     a_op := op_id (Model_C03.a_op a);
     a_ver := match Model_C03.a_ver a with Some v => v | None => [] end;
     a_rev := rev_num (Model_C03.a_rev a);
     a_fullver := Model_C03.fullver_of a;
     a_slot := Model_C03.a_slot a; a_subslot := Model_C03.a_subslot a;
     a_slotop := Model_C03.a_slotop a; a_repo := Model_C03.a_repo a;
     a_use := Model_C03.a_use a;
     a_blocks := Model_C03.a_blocks a; a_strong := Model_C03.a_strong a;
     a_negate_vers := Model_C03.a_negate a |}.

(* ------------------------------------------------------------------ the restriction returned *)
(* attribute ids of glob restrictions: 0 category, 1 package, 2 slot, 3 subslot *)
Inductive qr :=
| QTrue                                   (* packages.AlwaysTrue *)
| QGlob (attr : N) (tok : str)            (* PackageRestriction(attr, StrRegex("^..$", match=True)) *)
| QR (r : restr)                          (* RepositoryDep / SlotDep / SubSlotDep / PackageDep /
                                             VersionMatch / USE restrictions (C04's syntax) *)
| QAtom (a : Model_C03.atom_rec)          (* the atom object itself *)
| QAnd (l : list qr).                     (* packages.AndRestriction of l *)

Inductive res := Ok (q : qr) | EParse | EUnmodelled.

Definition pkg_field (attr : N) (p : package) : str :=
  match attr with 0 => p_cat p | 1 => p_pkg p | 2 => p_slot p | _ => p_subslot p end.

Fixpoint eval (q : qr) (p : package) : bool :=
  match q with
  | QTrue => true
  | QGlob attr tok => rx_match (glob_items tok) (pkg_field attr p)
  | QR r => eval_restr ver_cmp p r
  | QAtom a => atom_match ver_cmp (bridge a) p
  | QAnd l => (fix all (l : list qr) : bool :=
                 match l with [] => true | q' :: l' => eval q' p && all l' end) l
  end.

(* if len(restrictions) == 1: return restrictions[0]; return AndRestriction of them *)
Definition finish (rs : list qr) : res :=
  match rs with [r] => Ok r | _ => Ok (QAnd rs) end.

(* the slot / sub-slot chunk: nothing when empty, a glob when it contains "*", else exact.
   None = ParseError from convert_glob *)
Definition slot_part (attr : N) (exact : str -> restr) (tok : str) : option (list qr) :=
  if is_nil tok then Some []
  else if mem c_star tok then
    match convert_glob tok with
    | CGNone => Some []
    | CGRegex t => Some [QGlob attr t]
    | CGExact t => Some [QR (exact t)]      (* unreachable: the token contains "*" *)
    | CGErr => None
    end
  else Some [QR (exact tok)].

(* leading part shared by every branch: strip, blockers, ::repo, :slot/subslot.
   Result: the stripped text, the remaining text, the restrictions collected so far *)
Inductive head := HBlocker | HBadGlob | HOk (orig text : str) (rs : list qr).
Definition parse_head (text0 : str) : head :=
  let orig := strip text0 in
  if mem c_bang orig then HBlocker else
  let '(t1, rs1) := match rsplit_dcolon orig with
                    | Some (a, r) => (a, [QR (RRepo r)])
                    | None => (orig, [])
                    end in
  match Model_C03.split_last c_colon t1 with
  | None => HOk orig t1 rs1
  | Some (a, sl) =>
      let '(slot, sub) := match Model_C03.split_first c_slash sl with
                          | Some (x, y) => (x, y)
                          | None => (sl, [])
                          end in
      match slot_part 2 RSlot slot, slot_part 3 RSubSlot sub with
      | Some x, Some y => HOk orig a (rs1 ++ x ++ y)
      | _, _ => HBadGlob
      end
  end.

Definition fake_category : str := [99; 97; 116; 101; 103; 111; 114; 121].   (* "category" *)
Definition not_category (r : restr) : bool := match r with RCategory _ => false | _ => true end.

(* the one-chunk branch *)
Definition one_chunk (text : str) (rs : list qr) : res :=
  let '(ops, name) := collect_ops text in
  if is_nil ops && mem c_star name then
    match convert_glob name with
    | CGNone => finish (rs ++ [QTrue])
    | CGRegex t => finish (rs ++ [QGlob 1 t])
    | CGExact t => finish (rs ++ [QR (RPackage t)])       (* unreachable *)
    | CGErr => EParse
    end
  else if negb (is_nil ops) && starts_star name then EParse
  else
    match Model_C03.parse_atom None false (ops ++ fake_category ++ c_slash :: name) with
    | Model_C03.Ok a =>
        if Model_C03.a_transitive a then EUnmodelled else
        let r := filter not_category (atom_restrictions (bridge a)) in
        match rs, r with
        | [], [r0] => Ok (QR r0)
        | _, _ => Ok (QAnd (rs ++ map QR r))
        end
    | _ => EParse
    end.

(* the category/package glob pair *)
Definition glob_pair (c n : str) (rs : list qr) : res :=
  match convert_glob c, convert_glob n with
  | CGErr, _ | _, CGErr => EParse
  | gc, gn =>
      let one attr exact g := match g with
                              | CGNone => []
                              | CGExact t => [QR (exact t)]
                              | CGRegex t => [QGlob attr t]
                              | CGErr => []
                              end in
      match gc, gn with
      | CGNone, CGNone => finish (rs ++ [QTrue])
      | _, _ => finish (rs ++ one 0 RCategory gc ++ one 1 RPackage gn)
      end
  end.

Fixpoint parse_match_fuel (fix_ : bool) (fuel : nat) (text0 : str) : res :=
  match fuel with
  | O => EUnmodelled
  | S f =>
      match parse_head text0 with
      | HBlocker | HBadGlob => EParse
      | HOk orig text rs =>
          match Model_C03.split_last c_slash text with
          | None => one_chunk text rs
          | Some (c, n) =>
              if starts_op text || negb (mem c_star text) then
                match Model_C03.parse_atom None false orig with
                | Model_C03.Ok a => if Model_C03.a_transitive a then EUnmodelled else Ok (QAtom a)
                | _ =>
                    if negb (mem c_star text) then EParse
                    else (* parse_globbed_version(text, orig_text) *)
                      match longest_op text with
                      | None => EParse
                      | Some (op, rest) =>
                          match Model_C03.split_last c_dash rest with
                          | None => EParse
                          | Some (c0, vt) =>
                              if Model_C03.m_version vt then
                                match parse_match_fuel fix_ f c0 with
                                | Ok sub =>
                                    Ok (QAnd ((if fix_ then rs else [])
                                              ++ [QR (RVersion op (Model_C03.strip_nl vt) None false); sub]))
                                | e => e
                                end
                              else EParse
                          end
                      end
                end
              else glob_pair c n rs
          end
      end
  end.

Definition parse_match_gen (fix_ : bool) (t : str) : res := parse_match_fuel fix_ (S (length t)) t.
Definition parse_match := parse_match_gen true.         (* repaired *)
Definition parse_match_orig := parse_match_gen false.   (* pinned tree *)

(* ------------------------------------------------------------------ encoders for the harness *)
Inductive bstr := BS (l : list Byte.byte).
Definition bs_parse (l : list Byte.byte) : bstr := BS l.
Definition bs_print (b : bstr) : list Byte.byte := match b with BS l => l end.
Declare Scope bs_scope.
Delimit Scope bs_scope with bs.
String Notation bstr bs_parse bs_print : bs_scope.
Definition s2l (b : bstr) : str := match b with BS l => map Byte.to_N l end.
Definition VT (s : bstr) : val := VS (s2l s).

Definition e_parse : val := VErr [80; 97; 114; 115; 101; 69; 114; 114; 111; 114].          (* "ParseError" *)
Definition e_unmodelled : val := VErr [85; 110; 109; 111; 100; 101; 108; 108; 101; 100].   (* "Unmodelled" *)

(* structure of the returned restriction *)
Fixpoint show (q : qr) : val :=
  match q with
  | QTrue => VL [VZ 30]
  | QGlob attr tok => VL [VZ 31; VZ (Z.of_N attr); VS (rx_text tok)]
  | QR r => enc_restr r
  | QAtom a => VL [VZ 32; VS (Model_C03.print_atom a)]
  | QAnd l => VL (VZ 33 :: (fix go (l : list qr) : list val :=
                              match l with [] => [] | q' :: l' => show q' :: go l' end) l)
  end.
Definition show_res (r : res) : val :=
  match r with Ok q => show q | EParse => e_parse | EUnmodelled => e_unmodelled end.

(* the match vector over a package pool, as a string of '0' / '1' *)
Definition bits (q : qr) (pool : list package) : val :=
  VS (map (fun p => if eval q p then 49 else 48) pool).
Definition match_res (r : res) (pool : list package) : val :=
  match r with Ok q => bits q pool | EParse => e_parse | EUnmodelled => e_unmodelled end.

(* stream "parse": text -> structure;  stream "match": text -> who is selected from the pool *)
Definition run_parse (t : str) : val := show_res (parse_match t).
Definition run_parse_orig (t : str) : val := show_res (parse_match_orig t).
Definition run_match (pool : list package) (t : str) : val := match_res (parse_match t) pool.
Definition run_match_orig (pool : list package) (t : str) : val := match_res (parse_match_orig t) pool.
(* one case = structure + match vector (one parse per text) *)
Definition case_res (r : res) (pool : list package) : val :=
  match r with Ok q => VL [show q; bits q pool] | EParse => e_parse | EUnmodelled => e_unmodelled end.
Definition run_case (pool : list package) (t : str) : val := case_res (parse_match t) pool.
Definition run_case_orig (pool : list package) (t : str) : val := case_res (parse_match_orig t) pool.
(* comparison of recorded structures: the children of an AND node (tag 33) form a multiset, so a
   reordering of the restrictions inside an AndRestriction is not a disagreement *)
Fixpoint remove_first (f : val -> bool) (l : list val) : option (list val) :=
  match l with
  | [] => None
  | y :: l' => if f y then Some l'
               else match remove_first f l' with Some r => Some (y :: r) | None => None end
  end.

Fixpoint struct_eqb (a b : val) {struct a} : bool :=
  match a, b with
  | VL xs, VL ys =>
      match xs, ys with
      | VZ 33%Z :: xs', VZ 33%Z :: ys' =>
          (fix all (xs : list val) (ys : list val) {struct xs} : bool :=
             match xs with
             | [] => match ys with [] => true | _ => false end
             | x :: xs'' => match remove_first (struct_eqb x) ys with
                            | Some ys'' => all xs'' ys''
                            | None => false
                            end
             end) xs' ys'
      | _, _ =>
          (fix go (xs ys : list val) {struct xs} : bool :=
             match xs, ys with
             | [], [] => true
             | x :: xs'', y :: ys'' => struct_eqb x y && go xs'' ys''
             | _, _ => false
             end) xs ys
      end
  | _, _ => val_eqb a b
  end.
(* stream "glob": (pattern, value) -> convert_glob(pattern), matched on the value *)
Definition run_glob (i : str * str) : val :=
  let '(p, s) := i in
  match convert_glob p with
  | CGNone => VB true
  | CGExact t => VB (str_eqb t s)
  | CGRegex t => VB (rx_match (glob_items t) s)
  | CGErr => e_parse
  end.
