(* Prop_C17.v — the property theorems of C17 and nothing else. *)
From Coq Require Import List NArith ZArith Bool Arith.
Import ListNotations.
From Verif Require Import Base.Val C17.Model_C17 C17.Spec_C17 C17.Proofs_C17.

(* revert ∘ apply ≈ id, for every API call (add_op incl. forced and refused, add_hardref_op,
   add_backref_op, remove_op and replace_op with their nested decref_forward_block_ops,
   add_blocker, a bare decref): in a state satisfying the invariant, a well-formed call does not
   raise, only appends to the plan, and rolling back to where it started succeeds and restores
   the state up to order inside a key, with the same plan. *)
Theorem revert_inverts_apply : forall E s a,
  Inv E s -> wf_api_b E s a = true ->
  exists s1 r seg, call E a s = (s1, Ok r) /\ plan s1 = plan s ++ seg /\
    exists s2, backtrack E (length (plan s)) s1 = (s2, Ok tt) /\ equiv s2 s.
Proof. exact revert_inverts_apply_proof. Qed.
Print Assumptions revert_inverts_apply.

(* the invariant is not a hypothesis about histories: every well-formed history reaches only
   states that satisfy it *)
Theorem inv_reachable : forall E h, WF E h -> Inv E (run E h init).
Proof. exact inv_reachable_proof. Qed.
Print Assumptions inv_reachable.

(* rollback restores the exact earlier state, for ALL well-formed histories with arbitrarily
   interleaved rollbacks (induction over the log): if k is the plan position reached after h1 and
   no rollback of h2 went below k, then after h1 ++ h2 backtrack(k) succeeds and gives the state
   after h1 (per-key lists as multisets, identical plan). *)
Theorem rollback_restores_earlier : forall E h1 h2 k,
  WF E (h1 ++ h2) -> k = length (plan (run E h1 init)) ->
  (forall k', In (R k') h2 -> k <= k') ->
  exists s', backtrack E k (run E (h1 ++ h2) init) = (s', Ok tt) /\ equiv s' (run E h1 init).
Proof. exact rollback_restores_earlier_proof. Qed.
Print Assumptions rollback_restores_earlier.

(* replay form, full: for every well-formed history, with rollbacks nested arbitrarily (the
   surviving prefix may itself contain rollbacks), the state is ≈w the state obtained by applying
   only the operations that remain ([surviving]) to the empty planner state.  ≈w = all observable
   components equal as per-key multisets and the same plan position; the plan entries themselves
   may differ in the logging order of the nested decrefs of a remove/replace. *)
Theorem backtrack_is_replay : forall E h,
  WF E h -> equivw (run E h init) (replay E (surviving E h) init).
Proof. exact backtrack_is_replay_proof. Qed.
Print Assumptions backtrack_is_replay.

(* the lemma behind it: well-formed API calls respect ≈w (and well-formedness itself does) *)
Theorem call_respects_equivw : forall E s1 s2 a,
  Inv E s1 -> equivw s1 s2 -> wf_api_b E s1 a = true ->
  wf_api_b E s2 a = true /\ equivw (call_s E a s1) (call_s E a s2).
Proof. exact call_respects_equivw_proof. Qed.
Print Assumptions call_respects_equivw.

(* backtrack respects ≈ — every operation, failing reverts and their partial states included *)
Theorem backtrack_respects_equiv : forall E k s1 s2, equiv s1 s2 ->
  equiv (backtrack_s E k s1) (backtrack_s E k s2) /\ snd (backtrack E k s1) = snd (backtrack E k s2).
Proof. exact backtrack_respects_equiv_proof. Qed.
Print Assumptions backtrack_respects_equiv.

(* rolling back in two stages = rolling back at once *)
Theorem backtrack_composes : forall E s n n' t t2,
  n' <= n -> n <= length (plan s) ->
  backtrack E n s = (t, Ok tt) -> backtrack E n' t = (t2, Ok tt) ->
  exists t3, backtrack E n' s = (t3, Ok tt) /\ equiv t3 t2.
Proof. exact backtrack_composes_proof. Qed.
Print Assumptions backtrack_composes.
