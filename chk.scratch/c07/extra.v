From Coq Require Import List NArith ZArith Bool Lia.
Import ListNotations.
From Verif Require Import Base.Val C01.Model_C01 C06.Restr C07.Model_C07 C07.Spec_C07 C07.Proofs_C07.

(* once if_missing is part of the identity the match-relevant known class is empty *)
Lemma any2_false_Forall (f : restr -> restr -> bool) l1 :
  Forall (fun x => forall y, f x y = false) l1 -> forall l2, any2 f l1 l2 = false.
Proof.
  induction 1 as [|x l1 Hx _ IH]; intros [|y l2]; cbn; try reflexivity.
  rewrite Hx, IH. reflexivity.
Qed.
Lemma known_match_empty_when_keyed_proof : forall c, udc_keyed c = true -> forall a b, known c false a b = false.
Proof.
  intros c Hc a.
  induction a as [e1 c1 n1 h1|g1 p1 n1 i1 h1|g1 n1 i1 m1 h1|v1 a1 n1|f1 v1 n1|d1 v1 r1 n1 l1|o1 b1|o1 r1 IH
                 |k1 t1 n1 cs1 IH|k1 n1 at1 r1 IH|k1 n1 at1 r1 IH|n1 at1 r1 p1 IH IHp|x1|cs1 IH]
    using restr_rect'; intros [ | | | | | | | | | | | | |cs2]; cbn [known]; try reflexivity;
    try (rewrite Hc; reflexivity); try apply IH.
  - apply any2_false_Forall. exact IH.
  - rewrite IH. apply any2_false_Forall. exact IHp.
  - (* depset *)
    induction IH as [|x cs1 Hx _ IH']; cbn; [reflexivity|].
    rewrite IH', orb_false_r.
    clear - Hx. induction cs2 as [|y l IHl]; cbn; [reflexivity|]. rewrite Hx, IHl. reflexivity.
Qed.
