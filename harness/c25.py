"""C25 — binary package tarballs round-trip their contents (DESIGN §6 C25).

Streams (every case is a contents set really built on disk, or a real tar file)
  w    the member list add_contents_to_tarfile/write_set puts in the archive, read back with the
       standard tarfile module                                  impl vs Model_C25.to_members   (A1)
  rt   generate_contents(write_set(c)) (bzip2 / xz) and convert_archive(add_contents_to_tarfile(c))
       (uncompressed)                                           impl vs of_members (to_members c) (A2)
                                                                impl result vs Spec_C25.spec_rt_ok (B, in Coq)
                                                                + the direct round-trip oracle in Python (B)
  rd   convert_archive / generate_contents on foreign archives written with tarfile (hardlink
       chains, names without "./", absolute link names, "." member, missing directories, symlinked
       directories, dangling hardlinks, unknown member types) and on EMPTY archives (zero-length
       tar stream, end-of-archive blocks only)                  impl vs Model_C25.of_members   (A2)
"""

import bz2
import lzma
import os
import shutil
import signal
import stat
import tempfile
import time

import json

from .common import VERIF, Check, Err, cN, clist, copt, cstr, impl_call

IMPORTS = ("From Coq Require Import List NArith ZArith Bool.\n"
           "From Verif Require Import Base.Val C25.Path_C25 C25.Model_C25 C25.Spec_C25.")
ANCHORS = ["fs/tar.py::write_set", "fs/tar.py::add_contents_to_tarfile", "fs/tar.py::archive_to_fsobj",
           "fs/tar.py::fsobj_to_tarinfo", "fs/tar.py::generate_contents", "fs/tar.py::convert_archive",
           "fs/fs.py::fsFile._can_be_hardlinked", "fs/fs.py::fsLink.resolved_target",
           "fs/contents.py::contentsSet.add_missing_directories", "fs/contents.py::contentsSet.iter_child_nodes",
           "fs/contents.py::change_offset_rewriter"]
KINDS = {"AssertionError": "AssertionError"}
NOW_Q = 4398046511104
BAD_DATA = 999999
KIND_ID = {"reg": 0, "dir": 1, "sym": 2, "fifo": 3, "dev": 4}
MTYPE_ID = {b"0": 0, b"\0": 0, b"7": 0, b"1": 1, b"2": 2, b"3": 3, b"4": 4, b"5": 5, b"6": 6}

NAMES = ["usr", "bin", "lib64", "etc", "a b", "café", ".hid", "x->y", "share", "doc", "n" * 120,
         "pkg-1.0", "tmp~", "Z", "lib", "sbin", "var", "0"]


class Hang(Exception):
    pass


def _alarm(signum, frame):
    raise Hang()


def guarded(f, seconds=20):
    """run implementation code that loops forever on some malformed inputs under an alarm"""
    old = signal.signal(signal.SIGALRM, _alarm)
    signal.alarm(seconds)
    try:
        return impl_call(f, kinds=KINDS)
    except Hang:
        return Err("Hang")
    finally:
        signal.alarm(0)
        signal.signal(signal.SIGALRM, old)


# --------------------------------------------------------------------------- canonical forms
class Ids:
    """content -> data id (1..), st_dev / st_ino -> small numbers"""

    def __init__(self):
        self.data, self.dev, self.ino = {}, {}, {}

    def did(self, content, create=False):
        if content not in self.data:
            if not create:
                return BAD_DATA
            self.data[content] = len(self.data) + 1
        return self.data[content]

    def small(self, table, v):
        if v is None:
            return None
        return table.setdefault(v, len(table) + 1)


def kind_of(x):
    return ("reg" if x.is_reg else "dir" if x.is_dir else "sym" if x.is_sym else
            "fifo" if x.is_fifo else "dev")


def q(mt):
    return int(round(mt * 4))


def canon_in(x, ids):
    """an fs object of the input set -> dict of the model's entry fields"""
    k = kind_of(x)
    d = {"loc": x.location, "k": k, "mode": x.mode, "uid": x.uid, "gid": x.gid, "mtime": q(x.mtime),
         "target": x.target if k == "sym" else "", "dev": None, "ino": None, "data": 0, "size": 0,
         "major": 0, "minor": 0}
    if k == "reg":
        content = x.data.bytes_fileobj().read()
        d["data"] = ids.did(content, create=True)
        d["size"] = len(content)
        d["dev"] = ids.small(ids.dev, x.dev)
        d["ino"] = ids.small(ids.ino, x.inode)
    if k == "dev":
        d["major"], d["minor"] = x.major, x.minor
    return d


def c_entry(d):
    return ("(mkE %s %s %s %s %s %s %s %s %s %s %s %s %s 0)"
            % (cstr(d["loc"]), {"reg": "KReg", "dir": "KDir", "sym": "KSym", "fifo": "KFifo", "dev": "KDev"}[d["k"]],
               cN(d["mode"]), cN(d["uid"]), cN(d["gid"]), cN(d["mtime"]), cstr(d["target"]),
               copt(d["dev"], cN, "N"), copt(d["ino"], cN, "N"), cN(d["data"]), cN(d["size"]),
               cN(d["major"]), cN(d["minor"])))


def c_member(m):
    ty = {0: "MReg", 1: "MLnk", 2: "MSym", 3: "MChr", 4: "MBlk", 5: "MDir", 6: "MFifo", 99: "MOther"}[m[1]]
    return ("(mkM %s %s %s %s %s %s %s %s %s %s %s)"
            % (cstr(m[0]), ty, cN(m[2]), cN(m[3]), cN(m[4]), cN(m[5]), cN(m[6]), cstr(m[7]),
               cN(m[8]), cN(m[9]), cN(m[10])))


def read_members(path, ids):
    """the archive as the standard library reads it: list of member tuples in the model's layout"""
    import tarfile as std_tarfile
    out = []
    with std_tarfile.open(path, "r:*") as tf:
        for m in tf:
            data = 0
            if m.type in (b"0", b"\0", b"7"):
                f = tf.extractfile(m)
                data = ids.did(f.read())
            dev = m.type in (b"3", b"4")
            out.append([m.name, MTYPE_ID.get(m.type, 99), m.mode, m.uid, m.gid, q(m.mtime), m.size,
                        m.linkname, m.devmajor if dev else 0, m.devminor if dev else 0, data])
    return out


def canon_out(result, ids, t0, t1, member_locs):
    """the ordered contents set generate_contents returned -> list of rows (layout of enc_entry)"""
    rows, first = [], {}
    for pos, x in enumerate(result):
        k = kind_of(x)
        mt = x.mtime
        # a directory made up by add_missing_directories carries time.time() of the call (the generators'
        # mtimes are all below 1.5e9, i.e. years before any run).  NOT "its path is no member's path": an
        # added directory can sit where a relocated symlink member used to be.
        if (k == "dir" and isinstance(mt, float) and t0 - 1 <= mt <= t1 + 1
                and (x.mode, x.uid, x.gid) == (0o775, 0, 0)):
            mtq = NOW_Q
        else:
            mtq = q(mt)
        ino = None
        data = 0
        if k == "reg":
            ino = first.setdefault((x.dev, x.inode), pos)
            try:
                data = ids.did(x.data.bytes_fileobj().read())
            except Exception:  # noqa: BLE001 - unreadable data is a wrong result, not a crash of the check
                data = BAD_DATA
        rows.append([x.location, KIND_ID[k], x.mode, x.uid, x.gid, mtq, x.target if k == "sym" else "",
                     ino, data, x.major if k == "dev" else 0, x.minor if k == "dev" else 0])
    return rows


# --------------------------------------------------------------------------- the implementation
def impl_write(cset, path, codec):
    from pkgcore.fs import tar
    from pkgcore.fs._tar import tarfile
    if codec == "raw":
        with open(path, "wb") as f:
            th = tarfile.TarFile(name=path, fileobj=f, mode="w")
            try:
                tar.add_contents_to_tarfile(cset, th)
            finally:
                th.close()
    else:
        tar.write_set(cset, path, compressor=codec)


def impl_read(path, codec):
    from pkgcore.fs import tar
    from pkgcore.fs._tar import tarfile
    if codec == "raw":
        return tar.convert_archive(tarfile.TarFile(name=path, mode="r"))
    return tar.generate_contents(path, compressor=codec)


# --------------------------------------------------------------------------- generator: sets on disk
def build_tree(rng, root, big, devices):
    """a random tree under [root]; returns nothing, the tree is scanned afterwards"""
    os.mkdir(root)
    dirs = [""]
    for _ in range(rng.randint(1, 7 if big else 4)):
        parent = rng.choice(dirs)
        name = rng.choice(NAMES)
        p = f"{parent}/{name}"
        if p not in dirs and len(p) < 200:
            os.mkdir(root + p)
            dirs.append(p)
    used = set(dirs)

    def fresh(parent=None):
        for _ in range(20):
            parent_ = rng.choice(dirs) if parent is None else parent
            p = f"{parent_}/{rng.choice(NAMES)}{rng.choice(['', '', '.so', '.1', ' '])}"
            if p not in used:
                used.add(p)
                return p
        return None

    files = []
    for _ in range(rng.randint(1, 9 if big else 5)):
        p = fresh()
        if p is None:
            continue
        n = rng.choice([0, 0, 1, 5, 511, 512, 513, 1500, 3000])
        content = (b"D%d:" % rng.getrandbits(48) + bytes(rng.getrandbits(8) for _ in range(n)))[:max(n, 0)]
        if n and rng.random() < 0.1 and files:   # same content as another file, distinct inode
            content = open(root + files[0], "rb").read()
        with open(root + p, "wb") as f:
            f.write(content)
        files.append(p)
    attrs = {}
    for p in files:
        attrs[p] = (rng.choice([0o644, 0o755, 0o600, 0o4755, 0o2711, 0o1644, 0]),
                    rng.choice([0, 0, 1000, 250, 3000000]), rng.choice([0, 0, 100, 2500000]))
    # hardlink groups
    for p in list(files):
        if rng.random() < 0.4:
            for _ in range(rng.randint(1, 3)):
                l = fresh()
                if l is not None:
                    os.link(root + p, root + l)
    # symlinks: to files, to directories (relative / absolute), dangling, chains
    syms = []
    for _ in range(rng.randint(0, 4)):
        p = fresh()
        if p is None:
            continue
        what = rng.random()
        if what < 0.3 and files:
            tgt = rng.choice(files)
        elif what < 0.6 and len(dirs) > 1:
            tgt = rng.choice(dirs[1:])
        elif what < 0.8 and syms:
            tgt = rng.choice(syms)
        else:
            tgt = "/nowhere/" + rng.choice(NAMES)
        if rng.random() < 0.5:
            tgt = os.path.relpath(tgt, os.path.dirname(p) or "/")
        os.symlink(tgt, root + p)
        syms.append(p)
    for _ in range(rng.choice([0, 0, 1, 2])):
        p = fresh()
        if p is not None:
            os.mkfifo(root + p)
    if devices:
        for _ in range(rng.randint(1, 2)):
            p = fresh()
            if p is not None:
                ty = rng.choice([stat.S_IFCHR, stat.S_IFBLK])
                os.mknod(root + p, ty | 0o660, os.makedev(rng.randint(0, 255), rng.randint(0, 255)))
    # ownership, modes, mtimes (directories last; links share their inode's attributes)
    for dp, dn, fn in os.walk(root):
        for x in dn + fn:
            p = os.path.join(dp, x)
            rel = p[len(root):]
            st = os.lstat(p)
            if rel in attrs:
                os.chown(p, attrs[rel][1], attrs[rel][2])
                os.chmod(p, attrs[rel][0])
            elif stat.S_ISDIR(st.st_mode):
                os.chown(p, rng.choice([0, 0, 123]), rng.choice([0, 7]))
                os.chmod(p, rng.choice([0o755, 0o700, 0o1777, 0o2755]))
            elif stat.S_ISLNK(st.st_mode):
                os.lchown(p, rng.choice([0, 0, 5]), 0)
            elif not stat.S_ISREG(st.st_mode):
                os.chown(p, rng.choice([0, 9]), rng.choice([0, 9]))
    for dp, dn, fn in os.walk(root, topdown=False):
        for x in dn + fn:
            p = os.path.join(dp, x)
            mt = rng.choice([0, 1, 1000000000, rng.randint(0, 1400000000)]) + rng.choice([0, 0, 0.25, 0.5])
            os.utime(p, (mt, mt), follow_symlinks=False)


def respell(rng, t):
    """another spelling of the same symlink target (never two leading slashes: POSIX keeps those)"""
    how = rng.choice(["trail", "double", "dot", "updown", "trail"])
    if how == "trail":
        return t + "/"
    if how == "double" and "/" in t[1:]:
        i = t.index("/", 1)
        return t[:i] + "/" + t[i:]
    if how == "dot":
        return ("/." + t) if t.startswith("/") else ("./" + t)
    if how == "updown" and t.strip("/"):
        first = t.strip("/").split("/")[0]
        if first not in (".", ".."):
            return ("/" if t.startswith("/") else "") + first + "/../" + t.lstrip("/")
    return t + "/."


def shape_set(rng, objs, shape):
    """turn the scanned objects into the contents set of the case; returns (list of fs objects, tags)"""
    from pkgcore.fs import fs
    tags = set()
    objs = list(objs)
    if shape == "missing-dirs":
        dirs = [x for x in objs if x.is_dir]
        for x in rng.sample(dirs, min(len(dirs), rng.randint(1, 3))):
            objs.remove(x)
            tags.add("missing-dirs")
    elif shape == "no-inode":      # a set that does not come from a livefs scan (e.g. from the vdb)
        new = []
        for x in objs:
            if x.is_reg:
                kw = {"dev": None, "inode": None} if rng.random() < 0.8 else {"inode": None}
                x = x.change_attributes(**kw)
                tags.add("no-inode")
            new.append(x)
        objs = new
    elif shape == "same-inode-diff-attrs":
        seen = {}
        new = []
        for x in objs:
            if x.is_reg:
                if (x.dev, x.inode) in seen and rng.random() < 0.7:
                    x = x.change_attributes(**rng.choice([{"mode": x.mode ^ 0o100}, {"mtime": x.mtime + 1},
                                                          {"uid": x.uid + 1}, {"gid": x.gid + 1}]))
                    tags.add("same-inode-diff-attrs")
                seen[(x.dev, x.inode)] = 1
            new.append(x)
        objs = new
    elif shape == "symdir":        # entries recorded beneath a symlink that points at a directory
        dirs = [x for x in objs if x.is_dir]
        if dirs:
            taken = {x.location for x in objs}
            links = []
            d = rng.choice(dirs)
            for depth in range(rng.choice([1, 1, 2])):
                for _ in range(10):
                    name = f"{rng.choice(['', '/' + rng.choice(NAMES)])}/{rng.choice(['L', 'lnk', 'lib', 'Zz', '0a'])}{depth}"
                    if name not in taken and os.path.dirname(name) in taken | {"/"}:
                        break
                else:
                    break
                target = links[-1].location if links else d.location
                if rng.random() < 0.5:
                    target = os.path.relpath(target, os.path.dirname(name))
                if rng.random() < 0.4:     # the same target, spelled un-normalised
                    target = respell(rng, target)
                    tags.add("symdir-target-respelled")
                links.append(fs.fsSymlink(name, target, mode=0o777, uid=0, gid=0, mtime=rng.randint(0, 99)))
                taken.add(name)
            if links:
                via = links[-1]
                new = []
                for x in objs:
                    if x.location.startswith(d.location + "/") and rng.random() < 0.6:
                        x = x.change_attributes(location=via.location + x.location[len(d.location):])
                        tags.add("symdir" if len(links) == 1 else "symdir-chain")
                    new.append(x)
                objs = new + links
                # the directory the symlink resolves to need not be an entry of the set: it can be implied
                # only (supplied by add_missing_directories on read, or owned by another package)
                if rng.random() < 0.45:
                    drop = {d.location}
                    if rng.random() < 0.3:
                        drop |= {x.location for x in objs if x.is_dir and d.location.startswith(x.location + "/")}
                    objs = [x for x in objs if not (x.is_dir and x.location in drop)]
                    tags.add("symdir-implied-target")
    if rng.random() < 0.5:
        rng.shuffle(objs)
        tags.add("shuffled")
    return objs, tags


# --------------------------------------------------------------------------- direct oracle (B)
def oracle_rt(cin, rows, links_by_inode_only=False):
    """generate_contents(write_set(c)) against the statement of the property, without the model:
    every entry comes back at the location a live merge would put it (directory symlinks of the set
    resolved), with the same type/mode/owner/mtime/target/data/device; nothing else but missing
    parent directories; files that shared a hardlinkable inode still share one and no others do.
    Returns None or a description of the failure."""
    syms = {e["loc"]: e for e in cin if e["k"] == "sym"}

    def rtarget(loc, tgt):
        return tgt if tgt.startswith("/") else os.path.normpath(os.path.join(loc, "../", tgt))

    def resolve_dir(p, sympos):
        # resolve symlinked directory components of p (p itself included), as the kernel would on
        # merge; [sympos] = where the set's symlinks themselves end up
        for _ in range(64):
            parts = [c for c in p.split("/") if c]
            cur = ""
            changed = False
            for i, c in enumerate(parts):
                cur = cur + "/" + c
                if cur in sympos:
                    s = sympos[cur]
                    p = os.path.normpath(os.path.join(rtarget(cur, s["target"]), *parts[i + 1:]))
                    changed = True
                    break
            if not changed:
                return p
        return None

    # where the symlinks live: their own directory part is resolved through the other symlinks
    sympos = dict(syms)
    for _ in range(64):
        new = {}
        for l, s in sympos.items():
            others = {k: v for k, v in sympos.items() if k != l}
            d = resolve_dir(os.path.dirname(l), others)
            if d is None:
                return None  # a symlink loop: the statement says nothing
            new[os.path.join(d, os.path.basename(l))] = s
        if set(new) == set(sympos):
            break
        sympos = new
    expected = {}
    for e in cin:
        if e["k"] == "sym":
            continue
        d = resolve_dir(os.path.dirname(e["loc"]), sympos)
        if d is None:
            return None
        loc = os.path.join(d, os.path.basename(e["loc"]))
        if loc in expected or loc in sympos:
            return None  # two entries merge into one path: the statement says nothing
        expected[loc] = e
    for l, s in sympos.items():
        expected[l] = s
    if isinstance(rows, Err):
        return {"what": f"reading the archive back raised {rows.kind}"}
    got = {}
    for r in rows:
        if r[0] in got:
            return {"what": "the same path twice in the result", "path": r[0]}
        got[r[0]] = r
    for loc, e in expected.items():
        r = got.get(loc)
        if r is None:
            return {"what": "entry lost", "path": loc, "written_as": e["loc"]}
        mode = e["mode"] if e["k"] == "dev" else e["mode"] & 0o7777
        want = [loc, KIND_ID[e["k"]], mode, e["uid"], e["gid"], e["mtime"], e["target"], e["data"],
                e["major"], e["minor"]]
        have = r[:7] + r[8:]
        if want != have:
            return {"what": "entry changed", "path": loc, "written": want, "read": have}
    for loc, r in got.items():
        if loc not in expected:
            if r[1] != 1:
                return {"what": "an entry that was not written came back", "row": r}
            if not any(k.startswith(loc + "/") for k in expected):
                return {"what": "a directory that is nobody's parent was added", "row": r}
    # hardlink classes
    files = [(loc, e) for loc, e in expected.items() if e["k"] == "reg"]

    def ikey(e):
        return None if e["dev"] is None or e["ino"] is None else (e["dev"], e["ino"])

    def attrs(e):
        return (e["uid"], e["gid"], e["mode"], e["mtime"])

    # an inode whose names disagree on owner/mode/mtime cannot come from a filesystem (a set edited after
    # the scan); for such an inode the statement only forbids merging names with different attributes
    groups = {}
    for _, e in files:
        if ikey(e) is not None:
            groups.setdefault(ikey(e), set()).add(attrs(e))
    for i, (l1, e1) in enumerate(files):
        for l2, e2 in files[i + 1:]:
            same_out = got[l1][7] == got[l2][7]
            same_key = ikey(e1) is not None and ikey(e1) == ikey(e2)
            if same_key and (links_by_inode_only or len(groups[ikey(e1)]) == 1):
                want = True
            elif same_key and attrs(e1) == attrs(e2):
                continue
            else:
                want = False
            if want != same_out:
                return {"what": "hardlink classes changed", "a": l1, "b": l2, "shared_before": want,
                        "shared_after": same_out}
    return None


# --------------------------------------------------------------------------- known-finding classifiers
def in_symdir_chain_class(cin):
    """known_findings/C25.json 'symdir-chain': resolving an entry takes more than one symlink hop -- the
    entry is recorded beneath a symlink S1 of the set, and S1 itself lies beneath ANOTHER symlink S2 of the
    set, or S1's resolved target is, or lies beneath, S2.  convert_archive rewrites each entry once (it
    walks the symlinks in descending order and parks the moved entries in a list it does not look at
    again), so the entry can be left beneath a symlink (Spec_C25.chain_classb)."""
    syms = [e for e in cin if e["k"] == "sym"]
    for s1 in syms:
        if not any(e["loc"].startswith(s1["loc"] + "/") for e in cin):
            continue
        t = s1["target"]
        rt = os.path.normpath(t if t.startswith("/") else os.path.join(s1["loc"], "../", t))
        for s2 in syms:
            if s2["loc"] != s1["loc"] and (rt == s2["loc"] or rt.startswith(s2["loc"] + "/")
                                           or s1["loc"].startswith(s2["loc"] + "/")):
                return True
    return False


# --------------------------------------------------------------------------- read-side oracle (B) for rd
def members_as_set(members):
    """what a well-formed foreign archive SAYS, written without the model: one entry per member at the
    absolute normalised path of its name (the "." member is the root itself), hardlink members being
    further names of the file they (transitively) point at.  Returns None when the archive is outside the
    statement (a link to nothing, an unknown member type, two members for one path)."""
    out, by_loc = [], {}
    kinds = {0: "reg", 1: "reg", 2: "sym", 3: "dev", 4: "dev", 5: "dir", 6: "fifo"}
    for n, m in enumerate(members):
        name, ty, mode, uid, gid, mt, size, link, mj, mn, data = m
        if ty not in kinds:
            return None
        loc = os.path.normpath("/" + name.strip("/"))
        if loc == "/":
            # the root member as tar writes it ("." / "./"); other spellings ("./.") come back as a "/"
            # entry (model and code agree) -- outside what the statement speaks about
            if ty == 5 and name.strip("/") == ".":
                continue
            return None
        e = {"loc": loc, "k": kinds[ty], "mode": mode, "uid": uid, "gid": gid, "mtime": mt,
             "target": link if ty == 2 else "", "dev": None, "ino": None, "data": 0, "size": 0,
             "major": mj if ty in (3, 4) else 0, "minor": mn if ty in (3, 4) else 0}
        if ty == 3:
            e["mode"] |= stat.S_IFCHR
        if ty == 4:
            e["mode"] |= stat.S_IFBLK
        if ty == 0:
            e.update(dev=1, ino=n + 1, data=data, size=size)
        if ty == 1:
            tgt = by_loc.get(os.path.normpath(os.path.join("/", link)))
            if tgt is None or tgt["k"] != "reg":
                return None
            e.update(dev=1, ino=tgt["ino"], data=tgt["data"], size=tgt["size"])
        if loc in by_loc:
            return None
        by_loc[loc] = e
        out.append(e)
    return out


# --------------------------------------------------------------------------- foreign archives
def build_foreign(rng, path, ids, shape):
    """write a tar file with the standard library from an explicit member list"""
    tags = {shape}
    mem = []  # (name, type, mode, uid, gid, mtime, linkname, content, major, minor)

    def reg(name, content=None):
        if content is None:
            content = b"F%d" % rng.getrandbits(40) + b"x" * rng.choice([0, 1, 600])
        mem.append([name, b"0", rng.choice([0o644, 0o755]), rng.choice([0, 7]), 0, rng.randint(0, 10 ** 9),
                    "", content, 0, 0])

    def other(name, ty, link="", mode=0o755):
        mem.append([name, ty, mode, 0, rng.choice([0, 3]), rng.randint(0, 10 ** 9), link, None,
                    rng.randint(0, 9) if ty in (b"3", b"4") else 0, rng.randint(0, 9) if ty in (b"3", b"4") else 0])

    pre = rng.choice(["./", "./", "", "/"])
    if shape == "chain":
        # (tarfile's own link lookup, used for the DATA of a hardlink member, only finds the target when
        # member names and link names are both relative; pkgcore's inode cache is more tolerant.  The
        # model follows the inode cache, so this stream keeps to relative names.)
        pre = rng.choice(["./", ""])
        other(pre + "d", b"5")
        reg(pre + "d/z")
        other(pre + "d/y", b"1", rng.choice(["./d/z", "d/z", "d//z", "./d/../d/z"]))
        other(pre + "x", b"1", rng.choice(["./d/y", "d/y"]))
        if rng.random() < 0.5:
            other(pre + "w", b"1", rng.choice(["./x", "x"]))
        reg(pre + "d/other")
    elif shape == "names":
        other(rng.choice([".", "./", "./."]), b"5")
        other(pre + "a", b"5")
        other(pre + "a/b/", b"5")
        reg(pre + "a/b/f")
        reg(pre + "deep/er/file")
        other(pre + "a/s", b"2", rng.choice(["b", "/a/b", "../a/b/f", ""]) or "b")
        other(pre + "ff", b"6", mode=0o600)
        if rng.random() < 0.5:
            other(pre + "a/cdev", b"3", mode=0o620)
            other(pre + "a/bdev", b"4", mode=0o660)
    elif shape == "symdir1":
        # ONE symlinked directory; its target directory an explicit member, or only implied; the target
        # spelled relative / absolute / un-normalised
        base = rng.choice(["usr", "opt/app-1.0", "a b"])
        tdir = rng.choice(["lib64", "real dir", "x/y"])
        for a in ([base.split("/")[0]] + ([base] if "/" in base else [])) if rng.random() < 0.8 else []:
            other("./" + a, b"5")
        if rng.random() < 0.5:
            other(f"./{base}/{tdir}", b"5")
        else:
            tags.add("symdir-implied-target")
        if rng.random() < 0.5:
            reg(f"./{base}/{tdir}/present")
        tgt = rng.choice([tdir, f"/{base}/{tdir}", f"../{base.split('/')[-1]}/{tdir}"])
        if rng.random() < 0.5:
            tgt = respell(rng, tgt)
            tags.add("symdir-target-respelled")
        other(f"./{base}/lnk", b"2", tgt)
        reg(f"./{base}/lnk/libfoo.so")
        reg(f"./{base}/lnk/sub/deep")
        other(f"./{base}/lnk/hard", b"1", f"./{base}/lnk/libfoo.so")
        other(f"./{base}/lnk/pipe", b"6")
        if rng.random() < 0.5:
            rng.shuffle(mem)
            hl = [m for m in mem if m[1] == b"1"]      # keep the hardlink after its target
            mem[:] = [m for m in mem if m[1] != b"1"] + hl
    elif shape == "symdir":
        other("./lib64", b"5")
        other("./usr", b"5")
        other("./lib", b"2", rng.choice(["lib64", "/lib64", "./lib64", "/lib64/", "lib64/.", "/./lib64"]))
        reg("./lib/f1")
        reg("./lib/sub/f2")
        other("./lib/inner", b"2", "../usr")
        if rng.random() < 0.6:
            other("./usr/lib", b"2", rng.choice(["../lib", "/lib", "../lib64"]))
            reg("./usr/lib/g")
            other("./usr/lib/k", b"6")
        if rng.random() < 0.5:
            reg("./lib64/f1")       # collides with ./lib/f1 after the rewrite
        rng.shuffle(mem)
    elif shape == "dangling":
        reg("./a")
        other("./b", b"1", rng.choice(["./nope", "./b", "a/"]) if rng.random() < 0.7 else "./c")
        reg("./c")
    elif shape == "unknown":
        reg("./a")
        other("./weird", b"V")
    write_foreign(mem, path, ids)
    return tags


def write_foreign(mem, path, ids):
    """mem: rows (name, type byte, mode, uid, gid, mtime, linkname, content|None, major, minor)"""
    import io
    import tarfile as std_tarfile
    with open(path, "wb") as f:
        tf = std_tarfile.TarFile(fileobj=f, mode="w")
        for name, ty, mode, uid, gid, mt, link, content, mj, mn in mem:
            ti = std_tarfile.TarInfo(name)
            ti.type, ti.mode, ti.uid, ti.gid, ti.mtime, ti.linkname = ty, mode, uid, gid, mt, link
            ti.devmajor, ti.devminor = mj, mn
            if content is not None:
                ti.size = len(content)
                ids.did(content, create=True)
                tf.addfile(ti, io.BytesIO(content))
            else:
                tf.addfile(ti)
        tf.close()


# --------------------------------------------------------------------------- main
def main(chk: Check):
    from pkgcore.fs import contents, livefs

    chk.rule("contents sets scanned from random trees built on disk (hardlink groups, symlinks to files/"
             "directories/nowhere and chains of them, fifos, device nodes, odd and >100-char names, uid/gid "
             "beyond the ustar range, quarter-second mtimes, setuid/sticky modes), then shaped: as scanned / "
             "directory entries dropped / files without dev+inode / same inode with different attributes / "
             "entries relocated beneath symlinks to directories (also chained; the target directory an entry of the "
             "set or only implied; the target spelled normalised or with trailing/doubled slashes, './', 'x/../') / "
             "shuffled order; corpus/C25 first; written with "
             "bzip2, xz and uncompressed.  Foreign archives written with tarfile: hardlink chains, names "
             "without './', '.' member, symlinked directories, dangling hardlinks, unknown types; empty "
             "archives.  non-trivial = a set with at least one of: a hardlink group, an entry beneath a "
             "symlink, a missing parent directory, a device, a file without inode; or a non-empty foreign archive")
    ok = chk.build(["C25/Prop_C25.vo"])
    if ok:
        chk.check_assumptions("C25/Prop_C25.v")
    chk.lint(["C25"])
    chk.check_fingerprint(ANCHORS)

    rng = chk.rng
    work = tempfile.mkdtemp(prefix="verif_c25_")
    w_cases, rt_cases, rd_cases = [], [], []
    rt_meta, rd_meta = [], []
    prop_failures = []
    corpus = []
    for f in sorted((VERIF / "corpus" / "C25").glob("*.json")):
        corpus.append((f.stem, json.loads(f.read_text())))
    try:
        can_mknod = True
        try:
            os.mknod(os.path.join(work, "probe"), stat.S_IFCHR | 0o600, os.makedev(1, 3))
        except OSError:
            can_mknod = False
            chk.note("mknod not permitted here: device nodes are only exercised through foreign archives")
        shapes = ["plain", "plain", "missing-dirs", "no-inode", "same-inode-diff-attrs", "symdir", "symdir"]
        n = 300 if chk.thorough else (105 if chk.fingerprint_changed else 35)   # changed anchors: 3x
        def run_set(i, cset, ids, shape, codec, tags):
            cin = [canon_in(x, ids) for x in cset]
            term = clist([c_entry(d) for d in cin], "entry")
            tarpath = os.path.join(work, f"t{i}.tar")
            wres = impl_call(lambda: impl_write(cset, tarpath, codec))
            if isinstance(wres, Err):
                members = wres
            else:
                members = impl_call(lambda: read_members(tarpath, ids))
            w_cases.append((term, members))
            t0 = time.time()
            if isinstance(wres, Err):
                rows = wres
            else:
                def rd():
                    res = impl_read(tarpath, codec)
                    mlocs = set() if isinstance(members, Err) else {
                        os.path.normpath("/" + m[0].strip("/")) for m in members}
                    return canon_out(res, ids, t0, time.time(), mlocs)
                rows = guarded(rd)
            rt_cases.append((term, rows))
            rt_meta.append({"case": i, "shape": shape, "codec": codec, "set": cin})
            # non-triviality bookkeeping
            keys = {}
            for d in cin:
                if d["k"] == "reg" and d["ino"] is not None:
                    keys[(d["dev"], d["ino"])] = keys.get((d["dev"], d["ino"]), 0) + 1
            if any(v > 1 for v in keys.values()):
                tags.add("hardlinks")
            if any(d["k"] == "dev" for d in cin):
                tags.add("device")
            if tags - {"shuffled"}:
                chk.nontrivial(("rt", i, tuple(sorted(tags))))
            for t in tags:
                chk.cov["streams"]["tag:" + t] = chk.cov["streams"].get("tag:" + t, 0) + 1
            # (B) directly on the implementation
            bad = oracle_rt(cin, rows)
            if bad is not None:
                prop_failures.append({"stream": "rt", "shape": shape, "codec": codec, "failure": bad,
                                      "set": cin, "read_back": rows})
            if len(rt_cases) in (2, 3):
                chk.sample({"stream": "rt", "shape": shape, "codec": codec, "set": cin,
                            "members": members, "read_back": rows})
            if os.path.exists(tarpath):
                os.unlink(tarpath)

        # corpus first (corpus/C25/*.json: minimised cases of defects this check once missed)
        for name, case in corpus:
            if case.get("stream") == "rt":
                ids = Ids()
                run_set("corpus:" + name, contents.contentsSet(objs_from_cin(case["set"], ids)), ids, "corpus",
                        case.get("codec", "bz2"), set(case.get("tags", ["corpus"])))
        # the witness of Proofs_C25.symdirs_resolved_refuted (chain_set), replayed on the implementation
        from pkgcore.fs import fs as fsmod
        kw = {"uid": 0, "gid": 0, "mtime": 0}
        witness = [fsmod.fsDir("/sbin", mode=0o755, **kw), fsmod.fsDir("/Zz1/Z", mode=0o755, **kw),
                   fsmod.fsSymlink("/lnk0", "sbin", mode=0o777, **kw),
                   fsmod.fsSymlink("/Zz1", "/lnk0", mode=0o777, **kw)]
        run_set("w0", contents.contentsSet(witness), Ids(), "witness-chain", "bz2", {"symdir-chain"})
        for i in range(n):
            ids = Ids()
            root = os.path.join(work, f"r{i}")
            shape = shapes[i % len(shapes)]
            # (xz at the level write_set uses costs ~1 s of encoder set-up per archive: fewer of them)
            codec = "xz" if i % 14 == 5 else ("bz2", "raw", "bzip2")[i % 3]
            devices = can_mknod and i % 4 == 1
            build_tree(rng, root, big=(i % 3 == 0), devices=devices)
            objs, tags = shape_set(rng, list(livefs.iter_scan(root, offset=root, chksum_types=("size",))), shape)
            run_set(i, contents.contentsSet(objs), ids, shape, codec, tags)
            shutil.rmtree(root, ignore_errors=True)
        chk.count("w", len(w_cases))
        chk.count("rt", len(rt_cases))
        t_sets = time.time() - chk.t0

        # ---- foreign archives
        fshapes = ["chain", "symdir1", "names", "symdir", "dangling", "symdir1", "unknown", "symdir", "chain"]
        def run_rd(i, p, ids, shape):
            members = read_members(p, ids)
            codec = rng.choice(["raw", "bz2", "xz"])
            blob = open(p, "rb").read()
            if codec != "raw":
                with open(p, "wb") as f:
                    f.write(bz2.compress(blob) if codec == "bz2" else lzma.compress(blob))
            t0 = time.time()
            mlocs = {os.path.normpath("/" + m[0].strip("/")) for m in members}
            rows = guarded(lambda: canon_out(impl_read(p, codec), ids, t0, time.time(), mlocs))
            rd_cases.append((clist([c_member(m) for m in members], "member"), rows))
            rd_meta.append({"case": i, "shape": shape, "codec": codec, "members": members})
            chk.nontrivial(("rd", shape, tuple(tuple(m[:2]) for m in members)))
            # (B) read side, directly on the implementation: the archive read as a set must be the set the
            # members describe, symlinked directories resolved, hardlink members sharing their target's inode
            said = members_as_set(members)
            if said is not None:
                bad = oracle_rt(said, rows, links_by_inode_only=True)
                if bad is not None:
                    if in_symdir_chain_class(said) and chk.known_finding("symdir-chain", {"members": members}):
                        pass
                    else:
                        prop_failures.append({"stream": "rd", "shape": shape, "codec": codec, "failure": bad,
                                              "members": members, "set": said, "read_back": rows})
                chk.cov["streams"]["rd-oracle"] = chk.cov["streams"].get("rd-oracle", 0) + 1
            if len(rd_cases) == 1:
                chk.sample({"stream": "rd", "shape": shape, "codec": codec, "members": members, "read_back": rows})
            os.unlink(p)

        for name, case in corpus:
            if case.get("stream") != "rd":
                continue
            ids = Ids()
            p = os.path.join(work, f"fc_{name}.tar")
            write_foreign([[m[0], m[1].encode("latin-1"), m[2], m[3], m[4], m[5], m[6],
                            None if m[7] is None else m[7].encode(), m[8], m[9]] for m in case["members"]], p, ids)
            run_rd("corpus:" + name, p, ids, "corpus")
        for i in range(150 if chk.thorough else (63 if chk.fingerprint_changed else 21)):
            ids = Ids()
            shape = fshapes[i % len(fshapes)]
            p = os.path.join(work, f"f{i}.tar")
            for t in build_foreign(rng, p, ids, shape) - {shape}:
                chk.cov["streams"]["rd-tag:" + t] = chk.cov["streams"].get("rd-tag:" + t, 0) + 1
            run_rd(i, p, ids, shape)
        # ---- empty archives: the statement says they read as the empty set
        eoa = b"\0" * 10240
        empties = [("bz2", bz2.compress(b""), "zero-length tar stream, bzip2"),
                   ("xz", lzma.compress(b""), "zero-length tar stream, xz"),
                   ("bz2", bz2.compress(eoa), "end-of-archive blocks only, bzip2"),
                   ("xz", lzma.compress(eoa), "end-of-archive blocks only, xz"),
                   ("raw", eoa, "end-of-archive blocks only, uncompressed"),
                   ("bz2", bz2.compress(b"\0" * 1024), "two zero blocks, bzip2")]
        for codec, blob, what in empties:
            p = os.path.join(work, "empty.tar")
            open(p, "wb").write(blob)
            rows = guarded(lambda: canon_out(impl_read(p, codec), Ids(), 0, 0, set()))
            rd_cases.append((clist([], "member"), rows))
            chk.nontrivial(("empty", what))
            if rows != []:
                prop_failures.append({"stream": "rd", "shape": "empty", "codec": codec,
                                      "failure": {"what": f"an empty archive ({what}) does not read as the empty set",
                                                  "got": rows}, "archive_bytes": len(blob)})
        chk.count("rd", len(rd_cases))
        t_rd = time.time() - chk.t0
    finally:
        shutil.rmtree(work, ignore_errors=True)

    # ---- evaluate model and spec inside Coq
    streams = [
        ("w", "list entry", w_cases, ["mismatches run_w cases"]),
        ("rt", "list entry", rt_cases,
         ["mismatches run_rt cases", "where_ (fun i r => negb (spec_rt_ok i r)) cases"]),
        ("rd", "list member", rd_cases, ["mismatches run_rd cases"]),
    ]
    spec_bad = []
    corr = []
    import concurrent.futures as cf
    with cf.ThreadPoolExecutor(max_workers=3) as ex:     # the three streams side by side
        futs = [(s, ex.submit(chk.coq_eval, s[0], IMPORTS, s[1], s[2], s[3], 50 if not (chk.thorough or chk.fingerprint_changed) else 25)) for s in streams] if ok else []
        results = [(s, f.result()) for s, f in futs]
    for (name, ty, cases, evals), r in results:
        if r is None:
            continue
        if name == "rt":
            spec_bad = [rt_meta[i] | {"read_back": rt_cases[i][1]} for i in r[1]]
        for i in r[0][:3]:
            meta = rt_meta[i] if name in ("w", "rt") else (rd_meta[i] if i < len(rd_meta) else {})
            corr.append({"what": f"implementation and Model_C25 disagree on stream '{name}' "
                                 "(theorems of Prop_C25 no longer speak about this code)",
                         "case": meta, "input": cases[i][0], "implementation": cases[i][1]})
    chk.note(f"phase wall-clock (s): build+sets {t_sets:.1f}, foreign+empty {t_rd - t_sets:.1f}, "
             f"coq evaluation {time.time() - chk.t0 - t_rd:.1f}")
    # ---- property failures (B): concrete inputs
    new_failures = []
    for b in prop_failures:
        if b["stream"] == "rt" and in_symdir_chain_class(b["set"]) and chk.known_finding("symdir-chain", b):
            continue
        new_failures.append(b)
    prop_failures = new_failures
    seen_kinds, ordered = set(), []
    for b in prop_failures:                 # one failure of every distinct kind first
        k = (b["stream"], b["shape"], b["failure"]["what"])
        if k not in seen_kinds:
            seen_kinds.add(k)
            ordered.append(b)
    ordered += [b for b in prop_failures if b not in ordered]
    for b in ordered[:6]:
        chk.violation("property", {"what": b["failure"]["what"], "input": b})
    if spec_bad and not prop_failures:
        for s in spec_bad[:3]:
            chk.violation("property", {"what": "Spec_C25.spec_rt_ok rejects what generate_contents read back",
                                       "input": s})
    for c in corr:
        chk.violation("correspondence", c, no_input=not (prop_failures or spec_bad))


def objs_from_cin(cin, ids):
    """fs objects for a recorded / corpus set; file contents are made from the data ids"""
    from pkgcore.fs import fs as fsmod
    from snakeoil.data_source import data_source
    objs = []
    for d in cin:
        d = {"mode": 0o644, "uid": 0, "gid": 0, "mtime": 4, "target": "", "dev": None, "ino": None, "data": 0,
             "size": 0, "major": 0, "minor": 0, **d}
        kw = {"mode": d["mode"], "uid": d["uid"], "gid": d["gid"], "mtime": d["mtime"] / 4}
        if d["k"] == "reg":
            content = (b"D%d:" % d["data"]).ljust(d["size"], b".")[:d["size"]]
            ids.data[content] = d["data"]
            objs.append(fsmod.fsFile(d["loc"], data=data_source(content), chksums={"size": d["size"]},
                                     dev=d["dev"], inode=d["ino"], **kw))
        elif d["k"] == "dir":
            objs.append(fsmod.fsDir(d["loc"], **kw))
        elif d["k"] == "sym":
            objs.append(fsmod.fsSymlink(d["loc"], d["target"], **kw))
        elif d["k"] == "fifo":
            objs.append(fsmod.fsFifo(d["loc"], **kw))
        else:
            objs.append(fsmod.fsDev(d["loc"], major=d["major"], minor=d["minor"], **kw))
    return objs


def replay(chk, data):
    """re-run one recorded rt case: rebuild the recorded set from fs objects (file data from the data ids),
    write it, read it back, print implementation result and oracle verdict; model/spec verdicts are in
    the recorded violation"""
    from pkgcore.fs import contents
    inp = data.get("detail", {}).get("input") or {}
    members = inp.get("members") or (inp.get("case") or {}).get("members")
    if members:      # an rd record: rebuild the foreign archive from the member rows, read it back
        tyb = {0: b"0", 1: b"1", 2: b"2", 3: b"3", 4: b"4", 5: b"5", 6: b"6", 99: b"V"}
        ids = Ids()
        mem = []
        for name, ty, mode, uid, gid, mtq, size, link, mj, mn, data in members:
            content = (b"D%d:" % data).ljust(size, b".")[:size] if ty == 0 else None
            mem.append([name, tyb[ty], mode, uid, gid, mtq / 4, link, content, mj, mn])
        work = tempfile.mkdtemp(prefix="verif_c25_replay_")
        try:
            p = os.path.join(work, "f.tar")
            write_foreign(mem, p, ids)
            back = read_members(p, ids)
            rows = guarded(lambda: canon_out(impl_read(p, "raw"), ids, time.time(), time.time() + 5, set()))
            print("implementation:", rows)
            said = members_as_set(back)
            print("oracle:", None if said is None else oracle_rt(said, rows, links_by_inode_only=True))
            print("in known class symdir-chain:", said is not None and in_symdir_chain_class(said))
        finally:
            shutil.rmtree(work, ignore_errors=True)
        return
    cin = inp.get("set") or (inp.get("case") or {}).get("set")
    if not cin:
        print("nothing to replay in this record (a correspondence record carries the Coq input term)")
        return
    ids = Ids()
    objs = objs_from_cin(cin, ids)
    work = tempfile.mkdtemp(prefix="verif_c25_replay_")
    try:
        p = os.path.join(work, "t.tar")
        codec = inp.get("codec") or "bz2"
        w = impl_call(lambda: impl_write(contents.contentsSet(objs), p, codec))
        rows = w if isinstance(w, Err) else guarded(
            lambda: canon_out(impl_read(p, codec), ids, time.time(), time.time() + 5, set()))
        print("implementation:", rows)
        print("oracle:", oracle_rt(cin, rows))
        print("in known class symdir-chain:", in_symdir_chain_class(cin))
    finally:
        shutil.rmtree(work, ignore_errors=True)
