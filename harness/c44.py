"""C44 — query strings select exactly the packages they describe (DESIGN §6 C44).

Streams
  query   parse_match(text) -> structure of the restriction + who it selects from a package pool
            (A)  impl vs Model_C44.run_case (repaired parse_match) and run_case_orig (pinned tree)
            (B)  impl vs Spec_C44.describes inside Coq (spec_case_ok)
            (B') impl vs a reference selection computed from the GENERATED FIELDS (not from the
                 text) with fnmatch.fnmatchcase for every glob field, VersionMatch for the version,
                 atom(...).match for plain atoms and for package-only atoms (category filled in
                 with the package's own category)
  glob    valid_globbing + the compiled regex of convert_glob on arbitrary values
            (A) impl vs Model_C44.run_glob   (B) vs Spec_C44.glob_match in Coq and vs fnmatchcase
Texts: structured forms (glob pair, package glob, package-only atom, plain atom, operator +
globbed target + version), each optionally with :slot[/subslot] and ::repo built from the values
occurring in the pool, plus a separate malformed stream (edits of valid texts, boundary strings).
"""

import fnmatch
import re
import sys

from . import tables
from .common import Check, Err, Raw, cN, clist, copt, cpair, cstr, cval, impl_call
from .tables import TableError

IMPORTS = ("From Coq Require Import List NArith ZArith Bool.\n"
           "From Verif Require Import Base.Val C01.Model_C01 C04.Model_C04 C44.Model_C44 C44.Spec_C44.")
ANCHORS = ["util/parserestrict.py::parse_match", "util/parserestrict.py::convert_glob",
           "util/parserestrict.py::parse_globbed_version", "util/parserestrict.py::collect_ops",
           "util/parserestrict.py::valid_globbing", "restrictions/values.py::StrRegex",
           "restrictions/values.py::StrExactMatch", "restrictions/util.py::collect_package_restrictions"]
KINDS = {"ParseError": "ParseError"}

CATS = ["dev-libs", "dev-qt", "dev-lang", "media-sound", "media-libs", "app-a+b", "a", "x11-libs"]
NAMES = ["alsa-lib", "alsa-utils", "alsa", "qtcore", "qt-core", "boost", "a", "A", "a+", "lib_x", "portage"]
VERSIONS = ["1", "1.1.7", "1.1.6", "1.1.8", "2.0", "1.60.0", "1.2_rc1", "10", "1.1.7_p1"]
REVS = ["", "", "", "-r1", "-r0", "-r2"]
SLOTS = ["0", "5", "1.2", "0a", "5.15"]
SUBSLOTS = [None, None, "1.60", "1.60.0", "5", "2"]
REPOS = ["gentoo", "other", "gentoo-x"]
OPS = ["<", "<=", "=", ">=", ">", "~"]
ALPHA = "ab*-/:!<>=~[],.+_1 \t\n" + "\u00e9\u00df\u4e2d\u2014\u00d7\u00a0"      # + word / non-word / space non-ASCII
# Python's str.isspace() code points, as Model_C44.is_space lists them
SPACE_RANGES = [(9, 13), (28, 32), (133, 133), (160, 160), (5760, 5760), (8192, 8202), (8232, 8233),
                (8239, 8239), (8287, 8287), (12288, 12288)]


def _ranges(pred, lo, hi):
    out, start = [], None
    for c in range(lo, hi + 1):
        if pred(c):
            if start is None:
                start = c
        elif start is not None:
            out.append((start, c - 1))
            start = None
    if start is not None:
        out.append((start, hi))
    return out


def gen_tables():
    """Tables_C44.v: the non-ASCII code points the running Python's `re` takes for \\w in a str pattern
    (valid_globbing is such a pattern); fails closed when str.isspace() is not the set the model lists."""
    w = re.compile(r"\w")
    if _ranges(lambda c: chr(c).isspace(), 0, 0x10FFFF) != SPACE_RANGES:
        raise TableError("str.isspace() of this Python differs from Model_C44.is_space")
    r = _ranges(lambda c: w.match(chr(c)) is not None, 128, 0x10FFFF)
    txt = ("(* GENERATED from the running Python (re / unicodedata) by harness/c44.py on every run — do not edit. *)\n"
           "From Coq Require Import List NArith.\nImport ListNotations.\n"
           "(* code points >= 128 matched by \\w in a str pattern *)\n"
           "Definition uni_word_ranges : list (N * N) := ["
           + "; ".join(f"({a}, {b})" for a, b in r) + "]%N.\n")
    return {"Tables_C44.v": txt}


BOUNDARY = ["*", "", " ", "/", "a/", "/a", "*/", "/*", "*/*", "**", "a**", "a*b*", "*a*", "a/b/c", "a*/b/c",
            "a/*/c", ":0", "::gentoo", "*:", "*:/", "*:*", "*:*/*", "*:0/", "*:/1.60", "*::", "a:1:2",
            "a::b::c", "a:::b", "!a", "!*", "a/b!", "a,*", "a*,", "+*", "-*", ".*", "a.*", "=a-1*",
            ">*a-1", "<a*", ">=*/a-1", ">=>=*/a-1-1", "=*/foo-1*", "~*/foo-1-r1", ">=*/alsa-*",
            "=*", "~", ">=", "=a", "a*\n", "a*\n/b", " dev-*/* ", "\tdev-*/*\n", "dev-*/*:5*",
            "dev-qt/qtcore:5*", "*/*:5*/*", "*/*::gentoo", "a[x]", "a[x,-y]", "alsa*[x]", "dev-libs/boost:0/1.60*",
            "=dev-libs/boost-1*", "=dev-libs/boo*-1*", "dev-libs/boost:*", "dev-libs/boost:=",
            ">=*/alsa-*-1.1.7:0", ">=*/alsa-*-1.1.7::gentoo", ">=*/alsa-*-1.1.7:5/5::gentoo", "<=dev-*/*-2.0",
            "~media-*/alsa*-1.1.7", "=*/*-1", ">*/*-1:0a",
            "\u00e9*", "\u4e2d*/*", "a\u2014*", "*\u00d7", "\u00a0dev-*/*\u2028", "dev-*/*:\u00e9*", "caf\u00e9/b", "a/b:*::r[x]",
            "=dev-libs/boost-1*:*::gentoo"]


# --------------------------------------------------------------------------- packages
def rev_of(r):
    if r is None:
        return None
    d = getattr(r, "data", r)
    if d == "" or d is None:
        return None
    return int(d)


def pkg_fields(p):
    return {"cat": p.category, "pkg": p.package, "ver": p.version, "rev": rev_of(p.revision),
            "fullver": p.fullver, "slot": p.slot, "subslot": p.subslot, "repo": p.repo.repo_id,
            "use": sorted(p.use), "iuse": sorted(p.iuse_stripped)}


def c_pkg(f):
    return ("(Build_package %s %s %s %s %s %s %s %s %s %s)"
            % (cs(f["cat"]), cs(f["pkg"]), cs(f["ver"]), copt(f["rev"], cN, "N"), cs(f["fullver"]),
               cs(f["slot"]), cs(f["subslot"]), cs(f["repo"]),
               clist([cs(t) for t in f["use"]], "str"), clist([cs(t) for t in f["iuse"]], "str")))


def mk_pkg(args):
    from pkgcore.test.misc import FakePkg, FakeRepo
    cpv, slot, subslot, iuse, use, repo = args
    return FakePkg(cpv, eapi="7", slot=slot, subslot=subslot, iuse=iuse, use=use, repo=FakeRepo(repo_id=repo))


def gen_pool(rng, n):
    out, seen = [], set()
    while len(out) < n:
        cat, name = rng.choice(CATS), rng.choice(NAMES)
        v = rng.choice(VERSIONS) + rng.choice(REVS)
        key = (cat, name, v)
        if key in seen:
            continue
        seen.add(key)
        iuse = [f for f in ("x", "y") if rng.random() < 0.6]
        use = [f for f in iuse if rng.random() < 0.5]
        out.append((f"{cat}/{name}-{v}", rng.choice(SLOTS), rng.choice(SUBSLOTS), tuple(iuse), tuple(use),
                    rng.choice(REPOS)))
    return out


# --------------------------------------------------------------------------- Coq literals
def printable(s):
    return all(32 <= ord(c) < 127 for c in s)


def cs(s):
    """text -> Coq term of type str: one byte-string literal when printable ASCII"""
    if s == "":
        return "(@nil N)"
    if printable(s):
        return '(s2l "' + s.replace('"', '""') + '"%bs)'
    return cstr(s)


def cres(x):
    if isinstance(x, Err) or x is None or isinstance(x, (bool, int)):
        return cval(x)
    if isinstance(x, str):
        return "(VS " + cs(x) + ")"
    return "(VL " + clist([cres(i) for i in x], "val") + ")"


# --------------------------------------------------------------------------- text generators
def globs_of(rng, v):
    """a pattern derived from the value v (so that it often matches something)"""
    return re.sub(r"\*+", "*", _globs_of(rng, v))


def _globs_of(rng, v):
    k = rng.random()
    n = len(v)
    i, j = sorted((rng.randrange(n + 1), rng.randrange(n + 1)))
    if k < 0.12:
        return "*"
    if k < 0.30:
        return v[:max(1, i)] + "*"
    if k < 0.45:
        return "*" + v[min(i, n - 1):]
    if k < 0.60:
        return v[:i] + "*" + v[j:]
    if k < 0.70:
        return "*" + v[i:j] + "*"
    if k < 0.80 and n > 1:
        m = rng.randrange(n)
        return v[:m] + "*" + v[m + 1:] + rng.choice(["", "*"])
    if k < 0.88:
        return v
    if k < 0.94:
        m = rng.randrange(n)
        return v[:m] + rng.choice("abx-1") + v[m + 1:] + "*"          # near miss
    return v[:i] + "*" + v[i:j] + "*" + v[j:]


def gen_extras(rng, pool_f, p_slot=0.35, p_repo=0.25):
    """-> (suffix text, slot pattern, subslot pattern, repo)"""
    slot = sub = ""
    repo = None
    txt = ""
    if rng.random() < p_slot:
        f = rng.choice(pool_f)
        k = rng.random()
        slot = f["slot"] if k < 0.5 else globs_of(rng, f["slot"])
        if rng.random() < 0.5:
            sub = f["subslot"] if rng.random() < 0.5 else globs_of(rng, f["subslot"])
        if k > 0.93:
            slot = ""
        txt += ":" + slot + ("/" + sub if sub or rng.random() < 0.05 else "")
    if rng.random() < p_repo:
        repo = rng.choice(REPOS + (["gentoo*"] if rng.random() < 0.1 else []))
        txt += "::" + repo
    return txt, slot, sub, repo


def gen_text(rng, pool_f):
    """-> (text, fields) where fields describes the intended meaning (for the reference B')"""
    f = rng.choice(pool_f)
    k = rng.random()
    if k < 0.34:       # category glob / package glob
        cg = globs_of(rng, f["cat"]) if rng.random() < 0.8 else rng.choice(["", "*", f["cat"]])
        pg = globs_of(rng, f["pkg"]) if rng.random() < 0.8 else rng.choice(["", "*", f["pkg"]])
        if "*" not in cg + pg:
            pg += "*"
        ex, slot, sub, repo = gen_extras(rng, pool_f)
        return cg + "/" + pg + ex, {"form": "pair", "cat": cg, "pkg": pg, "slot": slot, "sub": sub, "repo": repo}
    if k < 0.50:       # package glob only
        pg = globs_of(rng, f["pkg"])
        if "*" not in pg:
            pg += "*"
        ex, slot, sub, repo = gen_extras(rng, pool_f)
        return pg + ex, {"form": "pkg", "cat": "", "pkg": pg, "slot": slot, "sub": sub, "repo": repo}
    if k < 0.64:       # package-only atom (category dropped)
        op = rng.choice(OPS + ["", "", "=*"])
        body = f["pkg"]
        if op:
            v = rng.choice(VERSIONS) + ("" if op == "~" else rng.choice(REVS))
            body = ("=" if op == "=*" else op) + body + "-" + v + ("*" if op == "=*" else "")
        ex = ""
        if rng.random() < 0.3:
            ex += ":" + rng.choice(SLOTS) + ("/" + rng.choice(SUBSLOTS[2:]) if rng.random() < 0.4 else "")
        if rng.random() < 0.2:
            ex += "::" + rng.choice(REPOS)
        # (USE deps after :slot / ::repo are not split off by parse_match in this form: see notes/C44.md)
        if not ex and rng.random() < 0.3:
            ex += "[" + ",".join(rng.choice(["", "-"]) + fl + rng.choice(["", "(+)", "(-)"])
                                 for fl in rng.sample(["x", "y", "z"], rng.choice([1, 2]))) + "]"
        return body + ex, {"form": "nocat", "body": body, "ex": ex}
    if k < 0.80:       # plain atom
        op = rng.choice(OPS + ["", "", "=*"])
        body = f["cat"] + "/" + f["pkg"]
        if op:
            v = rng.choice(VERSIONS) + ("" if op == "~" else rng.choice(REVS))
            body = ("=" if op == "=*" else op) + body + "-" + v + ("*" if op == "=*" else "")
        ex = ""
        if rng.random() < 0.4:
            sl = rng.choice(SLOTS + ["*", "="])
            ex += ":" + sl + ("/" + rng.choice(SUBSLOTS[2:]) if sl not in "*=" and rng.random() < 0.3 else "")
        if rng.random() < 0.25:
            ex += "::" + rng.choice(REPOS)
        if rng.random() < 0.25:
            ex += "[" + ",".join(rng.choice(["", "-"]) + fl + rng.choice(["", "(+)", "(-)"])
                                 for fl in rng.sample(["x", "y", "z"], rng.choice([1, 2]))) + "]"
        return body + ex, {"form": "atom", "text": body + ex}
    # operator + globbed target + version
    op = rng.choice(OPS)
    cg = globs_of(rng, f["cat"]) if rng.random() < 0.7 else rng.choice(["*", f["cat"]])
    pg = globs_of(rng, f["pkg"]) if rng.random() < 0.7 else rng.choice(["*", f["pkg"]])
    if "*" not in cg + pg:
        cg = "*"
    v = rng.choice(VERSIONS)
    ex, slot, sub, repo = gen_extras(rng, pool_f, 0.3, 0.2)
    return (op + cg + "/" + pg + "-" + v + ex,
            {"form": "globver", "op": op, "ver": v, "cat": cg, "pkg": pg, "slot": slot, "sub": sub, "repo": repo})


def mutate(rng, s):
    for _ in range(rng.choice([1, 1, 2])):
        k = rng.random()
        i = rng.randrange(len(s) + 1)
        if k < 0.5 or not s:
            s = s[:i] + rng.choice(ALPHA) + s[i:]
        elif k < 0.75:
            s = s[:max(0, i - 1)] + s[i:]
        elif k < 0.9:
            j = min(len(s) - 1, i)
            s = s[:j] + rng.choice(ALPHA) + s[j + 1:]
        else:
            s = s[:i] + "*" + s[i:]
    return s


UNMODELLED = re.compile(r"\[[^\]]*[?=]")


def modelled(t):
    """outside the model: transitive USE deps, and non-ASCII digits (C03's parser model reads \\d /
    isdigit as ASCII digits)"""
    return (not any(ord(c) > 127 and (c.isdigit() or c.isdecimal() or c.isnumeric()) for c in t)
            and not UNMODELLED.search(t))


# --------------------------------------------------------------------------- reference (B')
def fn_ok(pat, val):
    return pat == "" or fnmatch.fnmatchcase(val, pat)


def ref_select(fields, p, pf):
    """does the query with these GENERATED fields describe package p?"""
    from pkgcore.ebuild import restricts
    from pkgcore.ebuild.atom import atom
    form = fields["form"]
    if form == "atom":
        return atom(fields["text"]).match(p)
    if form == "nocat":
        body = fields["body"]
        ops = body[:len(body) - len(body.lstrip("<>=~"))]
        return atom(ops + pf["cat"] + "/" + body[len(ops):] + fields["ex"]).match(p)
    ok = (fn_ok(fields["cat"], pf["cat"]) and fn_ok(fields["pkg"], pf["pkg"])
          and fn_ok(fields["slot"], pf["slot"]) and fn_ok(fields["sub"], pf["subslot"])
          and (fields["repo"] is None or fields["repo"] == pf["repo"]))
    if form == "globver":
        ok = ok and restricts.VersionMatch(fields["op"], fields["ver"]).match(p)
    return ok


def cls_atom_slotstar_use(text):
    """known class: a valid atom whose slot operator `*` is followed by a USE block (cat/pkg:*[x]):
    parse_match takes `*[x]` for a slot glob and rejects the text"""
    from pkgcore.ebuild.atom import atom
    t = text.strip()
    if "!" in t or ":*[" not in t:
        return False
    try:
        atom(t)
    except Exception:  # noqa: BLE001
        return False
    return True


def _plain_atom(text):
    from pkgcore.ebuild.atom import atom
    try:
        return type(atom(text.strip())) is atom
    except Exception:  # noqa: BLE001
        return False


def cls_globver_drops(text):
    """known class: operator + globbed target + version, followed by :slot / ::repo — the pinned
    tree drops the slot / sub-slot / repository restrictions in this branch"""
    t = text.strip()
    if not t or t[0] not in "<>=~" or "*" not in t or ":" not in t:
        return False
    body = t.rsplit("::", 1)[0] if "::" in t else t
    if ":" in body:
        body = body.rsplit(":", 1)[0]
    return "/" in body and "*" in body


# --------------------------------------------------------------------------- canonical structure
def canon(r):
    from pkgcore.ebuild.atom import atom
    from pkgcore.restrictions import boolean, packages, values
    k = type(r).__name__
    if r is packages.AlwaysTrue:
        return [30]
    if isinstance(r, atom):
        return [32, str(r)] if type(r) is atom else ["transitive-atom"]
    if isinstance(r, boolean.AndRestriction) and r.type == "package" and not r.negate:
        return [33] + [canon(x) for x in r.restrictions]
    v = getattr(r, "restriction", None)
    if getattr(r, "negate", False):
        return ["negated", k]

    def split(v):
        if v is values.AlwaysTrue:
            return [], []
        parts = list(v.restrictions) if isinstance(v, boolean.AndRestriction) else [v]
        f, t = [], []
        for cm in parts:
            if not isinstance(cm, values.ContainmentMatch) or not cm.all:
                return None
            (f if cm.negate else t).extend(sorted(cm.vals))
        return f, t

    if k == "PackageRestriction" and isinstance(v, values.StrRegex) and v.ismatch and not v.negate and v.flags == 0:
        attr = {"category": 0, "package": 1, "slot": 2, "subslot": 3}.get(r.attr, 99)
        return [31, attr, v.regex]
    if k == "RepositoryDep" and r.attr == "repo.repo_id" and isinstance(v, values.StrExactMatch) and not v.negate:
        return [0, v.exact]
    if k in ("PackageDep", "PackageRestriction") and r.attr == "package" and isinstance(v, values.StrExactMatch) \
            and not v.negate and v.case_sensitive:
        return [1, v.exact]
    if k in ("CategoryDep", "PackageRestriction") and r.attr == "category" and isinstance(v, values.StrExactMatch) \
            and not v.negate and v.case_sensitive:
        return [2, v.exact]
    if k == "VersionMatch" and r.attr == "fullver":
        op = 5 if v.droprev else {(-1,): 0, (-1, 0): 1, (0,): 2, (0, 1): 3, (1,): 4}.get(tuple(v.vals), 99)
        return [3, op, v.ver, rev_of(v.rev), bool(v.negate)]
    if k == "PackageRestriction" and r.attr == "fullver" and isinstance(v, values.StrGlobMatch) \
            and v.prefix and not v.negate and v.flags == 0:
        return [4, v.glob]
    if k == "SlotDep" and r.attr == "slot" and not v.negate:
        return [5, v.exact]
    if k == "SubSlotDep" and r.attr == "subslot" and not v.negate:
        return [6, v.exact]
    if k == "StaticUseDep" and r.attr == "use" and split(v) is not None:
        return [7] + list(split(v))
    if k == "UseDepDefault" and tuple(r.attrs) == ("iuse_stripped", "use") and split(v) is not None:
        parts = list(v.restrictions) if isinstance(v, boolean.AndRestriction) else [v]
        ifm = {bool(c.if_missing) for c in parts if hasattr(c, "if_missing")}
        return [8, ifm.pop() if len(ifm) == 1 else "mixed"] + list(split(v))
    return ["unknown", k, repr(r)[:80]]


# --------------------------------------------------------------------------- main
def run_text(pm, pool, t):
    def go():
        r = pm(t)
        st = canon(r)
        return [st, "".join("1" if r.match(p) else "0" for p in pool)]
    return impl_call(go, kinds=KINDS)


def main(chk: Check):
    from pkgcore.util import parserestrict as pr

    chk.rule("texts built from the values of a random package pool: category/package glob pairs, package "
             "globs, package-only atoms, plain atoms, operator+globbed target+version, each optionally with "
             ":slot[/subslot] and ::repo (globbed or exact), plus a malformed stream (1-2 character edits, "
             "boundary strings); non-trivial = the text is accepted and selects a non-empty proper subset "
             "of the pool; glob stream: (pattern, value) pairs over the glob alphabet incl. , + . and newline")
    try:
        tables.regenerate(sys.modules[__name__])
    except TableError as e:
        chk.violation("table", {"what": "cannot regenerate Tables_C44.v", "error": str(e)}, no_input=True)
    ok = chk.build(["C44/Prop_C44.vo"])
    if ok:
        chk.check_assumptions("C44/Prop_C44.v")
    chk.lint(["C44"])
    chk.check_fingerprint(ANCHORS)
    rng = chk.rng
    import os

    def budget(q, t):
        """VERIF_C44_QUICK=1 pins the quick budgets (mutation self-tests: a changed fingerprint
        would otherwise escalate to the thorough ones)"""
        return q if os.environ.get("VERIF_C44_QUICK") == "1" and not chk.thorough else chk.n(q, t)
    import time as _t
    _t0 = _t.time()

    def lap(what):
        chk.cov.setdefault("phase_s", {})[what] = round(_t.time() - _t0, 1)

    lap("build")
    # ---- pool
    pool_args = gen_pool(rng, budget(36, 60))
    pool = [mk_pkg(a) for a in pool_args]
    pool_f = [pkg_fields(p) for p in pool]
    pool_def = "Definition pool : list package := " + clist([c_pkg(f) for f in pool_f], "package") + ".\n"

    lap("pool")
    # ---- texts
    texts = []          # (text, fields or None, stream)
    for t in BOUNDARY:
        texts.append((t, None, "boundary"))
    import json
    from .common import VERIF
    cdir = VERIF / "corpus" / "C44"
    if cdir.is_dir():
        for f in sorted(cdir.glob("*.json")):
            for t in json.loads(f.read_text()).get("texts", []):
                texts.append((t, None, "corpus"))
    n_valid = budget(520, 6000)
    while sum(1 for x in texts if x[2] == "valid") < n_valid:
        g = gen_text(rng, pool_f)
        if g is None:
            continue
        t, fields = g
        if rng.random() < 0.05:
            t = rng.choice([" ", "\t", "\n", "  "]) + t + rng.choice(["", " ", "\n"])
        texts.append((t, fields, "valid"))
    n_mal = budget(260, 3000)
    valid_texts = [x[0] for x in texts if x[2] == "valid"]
    for _ in range(n_mal):
        texts.append((mutate(rng, rng.choice(valid_texts)), None, "malformed"))
    seen, uniq = set(), []
    for x in texts:
        if x[0] not in seen and modelled(x[0]):
            seen.add(x[0])
            uniq.append(x)
    texts = uniq

    # ---- run the implementation
    cases, prop_bad, forms = [], [], {}
    for t, fields, stream in texts:
        res = run_text(pr.parse_match, pool, t)
        cases.append((cs(t), Raw(cres(res))))
        chk.count("query:" + stream)
        if any(ord(c) > 127 for c in t):
            forms["non-ascii"] = forms.get("non-ascii", 0) + 1
        key = (fields or {}).get("form", stream) + (":err" if isinstance(res, Err) else "")
        forms[key] = forms.get(key, 0) + 1
        if not isinstance(res, Err):
            bits = res[1]
            if "0" in bits and "1" in bits:
                chk.nontrivial(t)
            if "!" in t:
                prop_bad.append({"what": "a text with a blocker mark was accepted", "text": t})
            if fields is not None:
                ref = "".join("1" if ref_select(fields, p, pf) else "0" for p, pf in zip(pool, pool_f))
                if ref != bits:
                    i = next(i for i in range(len(bits)) if bits[i] != ref[i])
                    prop_bad.append({"what": "parse_match(text) does not select what the text describes "
                                             "(fnmatch / atom reference on the generated fields)",
                                     "text": t, "fields": fields, "package": pool_f[i],
                                     "selected": bits[i] == "1", "described": ref[i] == "1"})
        elif fields is not None and "!" not in t:
            prop_bad.append({"what": "a well-formed query text was rejected", "text": t, "fields": fields,
                             "error": res.kind})
        elif "!" not in t and _plain_atom(t):
            prop_bad.append({"what": "a valid atom text was rejected", "text": t, "error": res.kind})
    chk.cov["forms"] = forms
    for x in cases[len(BOUNDARY)::max(1, len(cases) // 5)][:5]:
        chk.sample({"stream": "query", "input": x[0], "impl": x[1].term[:300]})

    lap("impl-query")
    # ---- glob stream
    gl_cases, gl_bad = [], []
    galpha = "ab-+.,_1*" + "\u00e9\u4e2d\u2014"
    vals = sorted({f[k] for f in pool_f for k in ("cat", "pkg", "slot", "subslot")})
    for _ in range(budget(500, 6000)):
        v = rng.choice(vals) if rng.random() < 0.6 else "".join(rng.choice("ab-+.,_1\u00e9\u4e2d") for _ in range(rng.randrange(6)))
        if rng.random() < 0.7:
            p = globs_of(rng, v) if v else "*"
        else:
            p = "".join(rng.choice(galpha) for _ in range(1 + rng.randrange(5)))
        if rng.random() < 0.06:
            p = mutate(rng, p)
        if rng.random() < 0.05:
            v = v + rng.choice(["\n", "\nb", "a\n"])
        if "*" not in p:
            p += "*"

        def go():
            m = pr.convert_glob(p)
            return True if m is None else bool(m.match(v))
        res = impl_call(go, kinds=KINDS)
        gl_cases.append((cpair(cs(p), cs(v)), res))
        chk.count("glob")
        if isinstance(res, bool):
            if "\n" not in v and "\n" not in p and res != fnmatch.fnmatchcase(v, p):
                gl_bad.append({"what": "compiled glob regex differs from fnmatch.fnmatchcase", "pattern": p,
                               "value": v, "regex": res})
            if res and v and p.strip("*") and p != v:
                chk.nontrivial(("g", p, v))

    lap("impl-glob")
    # ---- Coq
    a_bad = []
    if ok:
        import concurrent.futures as cf
        with cf.ThreadPoolExecutor(max_workers=2) as ex:      # the two streams evaluate concurrently
            fq = ex.submit(chk.coq_eval, "query", IMPORTS, "str", cases,
                           ["where_ (fun i r => negb (struct_eqb (run_case pool i) r)) cases",
                            "where_ (fun i r => negb (struct_eqb (run_case_orig pool i) r)) cases",
                            "where_ (fun i r => negb (spec_case_ok pool i r)) cases",
                            "where_ atom_unshaped cases"], 450, pool_def)
            fg = ex.submit(chk.coq_eval, "glob", IMPORTS, "str * str", gl_cases,
                           ["mismatches run_glob cases", "where_ (fun i r => negb (spec_glob_ok i r)) cases"], 600)
            r, rg = fq.result(), fg.result()
        if r is not None:
            fixed_bad, orig_bad, spec_bad, unshaped = (set(x) for x in r)
            for i in sorted(unshaped)[:3]:
                chk.violation("correspondence",
                              {"what": "a valid atom text outside the class head_rejects does not read as an atom "
                                       "(premise atom_shaped of atom_accepted_partial)", "input": texts[i][0]},
                              no_input=True)
            for i in sorted(fixed_bad):
                t = texts[i][0]
                if i not in orig_bad and cls_globver_drops(t) and "globver-drops-slot-repo" in chk.known:
                    continue        # the pinned-tree model explains it; reported below through (B)
                a_bad.append(i)
            for i in sorted(spec_bad):
                t = texts[i][0]
                if not any(b.get("text") == t for b in prop_bad):
                    prop_bad.append({"what": "Spec_C44.describes disagrees with what parse_match(text) selects",
                                     "text": t, "implementation": cases[i][1].term[:400]})
        r = rg
        if r is not None:
            for i in r[1]:
                gl_bad.append({"what": "compiled glob regex differs from Spec_C44.glob_match",
                               "pattern_value": gl_cases[i][0], "regex": gl_cases[i][1]})
            for i in r[0][:3]:
                chk.violation("correspondence",
                              {"what": "implementation and Model_C44 disagree on stream 'glob'",
                               "input": gl_cases[i][0], "implementation": gl_cases[i][1]},
                              no_input=not (gl_bad or prop_bad))

    lap("coq")
    # ---- report
    reported = 0
    for b in prop_bad:
        t = b.get("text", "")
        if cls_globver_drops(t) and "!" not in t and chk.known_finding("globver-drops-slot-repo", b):
            continue
        if cls_atom_slotstar_use(t) and "error" in b and chk.known_finding("atom-slotop-star-use-rejected", b):
            continue
        if reported < 3:
            chk.violation("property", {"what": b["what"], "input": b})
            reported += 1
    for b in gl_bad[:3]:
        chk.violation("property", {"what": b["what"], "input": b})
    for i in a_bad[:3]:
        chk.violation("correspondence",
                      {"what": "implementation and Model_C44 disagree on stream 'query' (theorems of Prop_C44 "
                               "no longer speak about this code)",
                       "input": texts[i][0], "implementation": cases[i][1].term[:600]},
                      no_input=not (prop_bad or gl_bad))


def replay(chk, data):
    from pkgcore.util import parserestrict as pr
    inp = data.get("detail", {}).get("input")
    t = inp.get("text") if isinstance(inp, dict) else inp
    if isinstance(t, str):
        print("text:", repr(t))
        print("implementation:", impl_call(lambda: str(pr.parse_match(t)), kinds=KINDS))
