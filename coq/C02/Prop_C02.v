(* Prop_C02.v — the property theorems of C02 and nothing else. *)
From Coq Require Import List NArith ZArith Bool.
Import ListNotations.
From Verif Require Import Base.Val gen.Tables_C01 gen.Tables_C02 C01.Model_C01 C01.Spec_C01 C01.Proofs_C01
  C02.Model_C02 C02.Spec_C02 C02.Proofs_C02.

(* CPVs: every clause of the statement holds of ==,!=,<,<=,>,>= and the hash key, for ALL pairs,
   except "equal => equal hashes" inside the known class [cpv_known] (same category/package, version
   texts differ).  [cpv_parse] is the unmodelled CPV parser: only "the fields are a function of the
   normalised text" is assumed. *)
Theorem cpv_six_ops_consistent :
  forall cpv_parse a b, cpv_consistent cpv_parse a -> cpv_consistent cpv_parse b ->
    cpv_clauses a b (cpv_obs a b) = true.
Proof. exact cpv_clauses_proof. Qed.
Print Assumptions cpv_six_ops_consistent.

(* ... and the operators are those of one antisymmetric order *)
Theorem cpv_ops_symmetric :
  forall cpv_parse a b, cpv_valid a -> cpv_valid b -> cpv_consistent cpv_parse a -> cpv_consistent cpv_parse b ->
    cpv_eq2 a b = cpv_eq2 b a /\ cpv_lt a b = cpv_gt b a /\ cpv_le a b = cpv_ge b a.
Proof. exact cpv_sym_proof. Qed.
Print Assumptions cpv_ops_symmetric.

(* equal CPVs with the same version text have the same hash key (the part of eq => hash that holds) *)
Theorem cpv_eq_hash_partial :
  forall a b, cpv_eq a b = true -> ver a = ver b -> cpv_hash_key a = cpv_hash_key b.
Proof. exact cpv_eq_same_text_key. Qed.
Print Assumptions cpv_eq_hash_partial.

(* the full clause is false of the faithful model: 1.0 == 1.00 and _alpha == _alpha0, different hash keys *)
Theorem cpv_eq_hash_refuted :
  (cpv_eq2 (mk_cpv [49;46;48]%N) (mk_cpv [49;46;48;48]%N) = true
   /\ cpv_hash_key (mk_cpv [49;46;48]%N) <> cpv_hash_key (mk_cpv [49;46;48;48]%N)
   /\ cpv_known (mk_cpv [49;46;48]%N) (mk_cpv [49;46;48;48]%N) = true)
  /\ (cpv_eq2 (mk_cpv [49;95;97;108;112;104;97]%N) (mk_cpv [49;95;97;108;112;104;97;48]%N) = true
      /\ cpv_hash_key (mk_cpv [49;95;97;108;112;104;97]%N) <> cpv_hash_key (mk_cpv [49;95;97;108;112;104;97;48]%N)).
Proof. exact Proofs_C02.cpv_eq_hash_refuted. Qed.
Print Assumptions cpv_eq_hash_refuted.

(* atoms: every clause holds for ALL pairs outside the known classes
     k_strength  (! vs !!)            : excuses eq => hash, eq => unordered, le/ge
     k_use_order (USE deps reordered) : excuses eq => hash
     k_blind     (sub-slot, slot operator or cpv text differ) : excuses neq => ordered, le/ge
   [atom_parse] is the unmodelled parser: only "category/package/version/revision are a function
   of operator and cpv text" and "a slot is never empty" are assumed. *)
Theorem atom_clauses_outside_known_classes :
  forall atom_parse a b, atom_consistent atom_parse a -> atom_consistent atom_parse b ->
    slot_wf a -> slot_wf b -> atom_clauses a b (atom_obs a b) = true.
Proof. exact atom_clauses_proof. Qed.
Print Assumptions atom_clauses_outside_known_classes.

Theorem atom_eq_hash_partial :
  forall a b, atom_eq a b = true -> k_strength a b = false -> k_use_order a b = false ->
    atom_hash_key a = atom_hash_key b.
Proof. exact atom_eq_hash_outside. Qed.
Print Assumptions atom_eq_hash_partial.

Theorem atom_eq_unordered_partial :
  forall atom_parse a b, atom_consistent atom_parse a -> atom_consistent atom_parse b ->
    atom_eq a b = true -> k_strength a b = false -> atom_cmp a b = 0%Z.
Proof. exact atom_eq_cmp_zero. Qed.
Print Assumptions atom_eq_unordered_partial.

Theorem atom_neq_strict_partial :
  forall a b, slot_wf a -> slot_wf b -> atom_cmp a b = 0%Z -> k_blind a b = false -> atom_eq a b = true.
Proof. exact atom_cmp_zero_eq. Qed.
Print Assumptions atom_neq_strict_partial.

(* the full clauses are false of the faithful model (witnesses, replayed on the implementation) *)
Theorem atom_blocker_strength_refuted :
  let x := weak (mk_atom true [] ab None None None) in let y := mk_atom true [] ab None None None in
  atom_eq x y = true /\ atom_hash_key x <> atom_hash_key y /\ atom_lt x y = true
  /\ k_strength x y = true /\ cl_eq_hash (atom_obs x y) = false /\ cl_eq_unordered (atom_obs x y) = false.
Proof. exact Proofs_C02.atom_blocker_strength_refuted. Qed.
Print Assumptions atom_blocker_strength_refuted.

Theorem atom_use_order_refuted :
  let x := mk_atom false [] ab (Some [[120]; [121]]%N) None None in
  let y := mk_atom false [] ab (Some [[121]; [120]]%N) None None in
  atom_eq x y = true /\ atom_hash_key x <> atom_hash_key y /\ k_use_order x y = true
  /\ k_strength x y = false /\ cl_eq_hash (atom_obs x y) = false.
Proof. exact Proofs_C02.atom_use_order_refuted. Qed.
Print Assumptions atom_use_order_refuted.

Theorem atom_cmp_blind_refuted :
  (let x := mk_atom false [] ab None (Some [49]%N) None in let y := mk_atom false [] ab None (Some [50]%N) None in
   atom_eq x y = false /\ atom_cmp x y = 0%Z /\ k_blind x y = true /\ cl_neq_strict (atom_obs x y) = false)
  /\ (let x := mk_atom false [61]%N [97;47;98;45;49;46;48]%N None None (Some [49;46;48]%N) in
      let y := mk_atom false [61]%N [97;47;98;45;49;46;48;48]%N None None (Some [49;46;48;48]%N) in
      atom_eq x y = false /\ atom_cmp x y = 0%Z /\ k_blind x y = true /\ cl_neq_strict (atom_obs x y) = false).
Proof. exact Proofs_C02.atom_cmp_blind_refuted. Qed.
Print Assumptions atom_cmp_blind_refuted.

(* atom.__cmp__ is a total preorder on parsed atoms with valid versions, and <,<=,>,>= are its
   mutually consistent operators (so sorting atoms is well defined, whatever == says) *)
Theorem atom_cmp_total_preorder :
  forall a b c, atom_valid a -> atom_valid b -> atom_valid c ->
    (atom_cmp a b = (-1)%Z \/ atom_cmp a b = 0%Z \/ atom_cmp a b = 1%Z)
    /\ atom_cmp a a = 0%Z
    /\ atom_cmp b a = (- atom_cmp a b)%Z
    /\ ((atom_cmp a b <= 0)%Z -> (atom_cmp b c <= 0)%Z -> (atom_cmp a c <= 0)%Z)
    /\ (atom_cmp a b = 0%Z -> atom_cmp a c = atom_cmp b c)
    /\ atom_lt a b = atom_gt b a /\ atom_le a b = atom_ge b a
    /\ atom_le a b = negb (atom_gt a b) /\ atom_ge a b = negb (atom_lt a b).
Proof. exact atom_order_proof. Qed.
Print Assumptions atom_cmp_total_preorder.
