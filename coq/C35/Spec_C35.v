(* Spec_C35.v — what the property says, in terms of configurations of the protocol LTS
   (Model_C35): no definition here looks at how the two sides are programmed. *)
From Coq Require Import List NArith Bool Arith.
Import ListNotations.
From Verif Require Import Base.Val C41.Lts gen.Tables_protocol C35.Model_C35.

(* ------------------------------------------------------------------ never both waiting *)
Definition deadlocked (c : conf) : Prop :=
  py_waits c = true /\ sh_waits c = true /\ chans_empty c = true.

(* ------------------------------------------------------------------ every request gets its own reply *)
(* what the daemon will still write in answer to the commands in flight, without further input *)
Fixpoint drain (s : sstate) (q : list (cmd * nat * bool))
  : sstate * list (rep * option nat) * list (cmd * nat * bool) :=
  match q with
  | [] => (s, [], [])
  | (c, i, f) :: q' =>
      match sreact s c f with
      | Some (s', out) => let '(s'', o, rest) := drain s' q' in (s'', tag i out ++ o, rest)
      | None => (s, [], q)
      end
  end.
(* the reply stream python will see: lines in the channel, then the answers to the unanswered commands *)
Definition pipe (c : conf) : list (rep * option nat) := d2p c ++ snd (fst (drain (sh c) (p2d c))).
Definition drained (c : conf) : sstate := fst (fst (drain (sh c) (p2d c))).
Definition undrained (c : conf) : list (cmd * nat * bool) := snd (drain (sh c) (p2d c)).

(* the expects python has pending, oldest first: _outstanding_expects, then the one(s) being read *)
Definition pend (c : conf) : list (nat * rep) :=
  outs c ++ match py c with PRead1 w _ _ => [w] | PCons rem _ _ _ => rem | _ => [] end.

(* line x is the daemon's answer to the very command expect e was issued for *)
Definition answers (e : nat * rep) (x : rep * option nat) : Prop :=
  snd x = Some (fst e) /\
  match snd e with
  | RAck k => fst x = RAck k \/ fst x = RNak k
  | w => fst x = w
  end.
(* FIFO matching: the k-th pending expect faces the answer to the k-th unanswered command *)
Definition matched (c : conf) : Prop :=
  exists R u, pipe c = R ++ u /\ Forall2 answers (pend c) R.

(* the session has been disturbed: a die / SIGINT / SIGTERM notice is under way, the daemon is (or is
   bound to be) gone, or python has already ended the session with an error *)
Definition isnotice (r : rep) : bool := match r with RDying | RSigint | RSigterm => true | _ => false end.
Definition py_over (p : pstate) : bool :=
  match p with PDie | PErr | PGone | PExec GoneExc | PExec Err => true | _ => false end.
Definition disturbed (c : conf) : Prop :=
  existsb isnotice (map fst (pipe c)) = true \/ py_over (py c) = true \/ drained c = SDead.

(* ------------------------------------------------------------------ unknown commands *)
(* the commands a reading daemon state lists (case arms / comparisons); states that read DATA take any line *)
Definition listed (s : sstate) (c : cmd) : bool :=
  match s, c with
  | SInit0, CEbdQ => true
  | SInit1, (CNoSandbox | CSandboxLogQ) => true
  | SMain, (CProcess | CShutdown | CPreload | CClear | CSetMeta | CGenMeta | CGenEnv | CAlive) => true
  | SSetup, (CStartEnv | CLogging | CSetSandbox | CStartProc | CShutdown | CAlive) => true
  | SInh1 _, (CPath | CTransfer) => true
  | SRc1, (CEndRequest | CPath | CTransfer) => true
  | (SInh2 _ | SRc2 | SIpcW | SSbx _), _ => true
  | _, _ => false
  end.
(* an error reaction: the die notice (or, before die is loaded, a silent exit) and nothing a handler writes *)
Definition error_reaction (s' : sstate) (out : list rep) : bool :=
  match out with
  | [] => match s' with SDead => true | _ => false end
  | _ => existsb (rep_eqb (tok RDying)) out
         && forallb (fun r => existsb (rep_eqb r) [tok RDying; tok RDead; tok RPhasesFail; tok RFailed]) out
         && match s' with SMain | SDead => true | _ => false end
  end.
(* the requests a handler table has an entry for *)
Definition handled (h : hk) (r : rep) : bool :=
  match r, h with
  | (RPhasesOk | RPhasesFail | RReqInherit | RReqSbx), _ => true
  | (RReqBashrcs | RIpc), HPhase => true
  | RKey, HMeta => true
  | RRecvEnv, HEnv => true
  | _, _ => false
  end.
