(* Spec_C49.v — the property's statement, written without the scope machinery of the model.

   "Sourcing an ebuild for metadata yields IUSE, REQUIRED_USE and every dependency class (and,
    from EAPI 8, PROPERTIES and RESTRICT) as the ebuild's own value combined with the values set
    by every directly or indirectly inherited eclass, while other keys take the ebuild's final
    value.  INHERITED names every eclass sourced, and DEFINED_PHASES lists exactly the phase
    functions the ebuild or its eclasses define (or '-' when none)."

   * the value a piece of code (the ebuild's own statements, or ONE sourcing of one eclass) sets
     for a variable is the last-writer replay of its OWN statements on that variable
     ([own_value]); statements of the eclasses it inherits are not its own;
   * a sourcing is one node of the inherit tree ([sourcings], post-order = the order in which
     sourcings complete; an eclass inherited twice is sourced twice, PMS has no include guard);
   * "other keys take the ebuild's final value": the last-writer replay of the whole execution
     ([flatten]: eclass bodies inlined where they are inherited);
   * PMS 7.3.1/EAPI<=3: an ebuild that leaves RDEPEND unset gets its own DEPEND for it. *)
From Coq Require Import List NArith ZArith Bool.
Import ListNotations.
From Verif Require Import Base.Val gen.Tables_C49 C49.Model_C49.

(* which variables the statement says are accumulated; written from the statement, not from
   the EAPI table: "from EAPI 8" *)
Definition pms_accumulated (eapi : N) (v : var) : bool :=
  N.ltb v 7 || (N.leb 8 eapi && (N.eqb v vPROPERTIES || N.eqb v vRESTRICT)).

(* last-writer semantics of one statement on one variable *)
Definition step (v : var) (cur : option value) (o : op) : option value :=
  match o with
  | Assign w x => if N.eqb w v then Some x else cur
  | Append w x => if N.eqb w v then Some (valof cur ++ x) else cur
  | Unset w => if N.eqb w v then None else cur
  | _ => cur
  end.

(* the statements of a program itself (inherit lines contribute nothing of their own) *)
Fixpoint own_replay (v : var) (p : prog) (cur : option value) : option value :=
  match p with
  | PNil => cur
  | PCons o p' => own_replay v p' (step v cur o)
  end.
Definition own_value (v : var) (p : prog) : option value := own_replay v p None.

(* every sourcing of an eclass, in completion order, with the body sourced *)
Fixpoint sourcings_op (o : op) : list (N * prog) :=
  match o with Inherit es => sourcings_ecls es | _ => [] end
with sourcings (p : prog) : list (N * prog) :=
  match p with PNil => [] | PCons o p' => sourcings_op o ++ sourcings p' end
with sourcings_ecls (es : ecls) : list (N * prog) :=
  match es with ENil => [] | ECons n b r => sourcings b ++ [(n, b)] ++ sourcings_ecls r end.

(* the whole execution as one statement sequence *)
Fixpoint flatten_op (o : op) : list op :=
  match o with Inherit es => flatten_ecls es | _ => [o] end
with flatten (p : prog) : list op :=
  match p with PNil => [] | PCons o p' => flatten_op o ++ flatten p' end
with flatten_ecls (es : ecls) : list op :=
  match es with ENil => [] | ECons _ b r => flatten b ++ flatten_ecls r end.

(* the ebuild's own value, with the RDEPEND default of EAPI 0-3 *)
Definition ebuild_value (eapi : N) (v : var) (p : prog) : value :=
  if N.eqb v vRDEPEND && N.leb eapi 3 then
    match own_value vRDEPEND p with
    | None => valof (own_value vDEPEND p)
    | Some x => x
    end
  else valof (own_value v p).

Definition spec_accumulated (eapi : N) (v : var) (p : prog) : value :=
  ebuild_value eapi v p ++ concat (map (fun e => valof (own_value v (snd e))) (sourcings p)).

Definition spec_final (v : var) (p : prog) : value := valof (fold_left (step v) (flatten p) None).

Definition spec_value (eapi : N) (v : var) (p : prog) : value :=
  if pms_accumulated eapi v then spec_accumulated eapi v p else spec_final v p.

(* INHERITED: an eclass is sourced when it is named by an inherit of the ebuild or of a sourced eclass *)
Definition sourced (n : N) (p : prog) : Prop := In n (map fst (sourcings p)).

(* a shell function is defined when the ebuild or a sourced eclass defines it *)
Definition defines (f : str) (p : prog) : Prop :=
  In (DefPhase f) (flatten p).

(* ---------------------------------------------------------------- executable form (comparison B) *)
Fixpoint defined_in (f : str) (l : list op) : bool :=
  match l with
  | [] => false
  | DefPhase g :: r => str_eqb f g || defined_in f r
  | _ :: r => defined_in f r
  end.

Definition spec_phases (eapi : N) (p : prog) : list str :=
  match map fst (filter (fun sf => defined_in (snd sf) (flatten p)) (phases eapi)) with
  | [] => [dash]
  | l => l
  end.

Fixpoint nodup_sorted (l : list N) : list N :=
  match l with
  | x :: ((y :: _) as r) => if N.eqb x y then nodup_sorted r else x :: nodup_sorted r
  | _ => l
  end.

(* the expected canonical result, same shape as Model_C49.run_meta *)
Definition spec_meta (i : N * prog) : val :=
  let '(eapi, p) := i in
  VL [ VL (map (fun kv => VL [VZ (Z.of_N (fst kv)); enc_nlist (sortN (snd kv))])
             (filter (fun kv => negb (is_nil (snd kv)))
                     (map (fun v => (v, spec_value eapi v p)) (metadata_keys eapi))));
       enc_nlist (nodup_sorted (sortN (map fst (sourcings p))));
       enc_nlist (nodup_sorted (sortN (direct_inherits p)));
       VL (map VS (spec_phases eapi p)) ].

(* ---------------------------------------------------------------- the known-finding class *)
(* [clean v]: no `unset v` anywhere in this code or in what it inherits *)
Fixpoint clean_op (v : var) (o : op) : bool :=
  match o with
  | Unset w => negb (N.eqb w v)
  | Inherit es => clean_ecls v es
  | _ => true
  end
with clean_prog (v : var) (p : prog) : bool :=
  match p with PNil => true | PCons o p' => clean_op v o && clean_prog v p' end
with clean_ecls (v : var) (es : ecls) : bool :=
  match es with ENil => true | ECons _ b r => clean_prog v b && clean_ecls v r end.

(* no sourced ECLASS unsets v (the ebuild itself may) *)
Fixpoint no_eclass_unset (v : var) (p : prog) : bool :=
  match p with
  | PNil => true
  | PCons (Inherit es) p' => clean_ecls v es && no_eclass_unset v p'
  | PCons _ p' => no_eclass_unset v p'
  end.

(* the accumulated value of v can be disturbed when an eclass unsets v, or (RDEPEND default of
   EAPI 0-3) when an eclass unsets DEPEND *)
Definition known_class (eapi : N) (v : var) (p : prog) : bool :=
  negb (no_eclass_unset v p)
  || (N.eqb v vRDEPEND && N.leb eapi 3 && negb (no_eclass_unset vDEPEND p)).
