(* C18/FsLemmas.v — reusable lemmas over C18/Fs.v.

   lookup algebra     lookup_set_node, lookup_remove, lookup_map_nodes, lookup_on_ino
   run algebra        run_app, run_opt_app, run_firstn_all, run_prefix_inv (an invariant kept
                      by every op holds in every crash prefix)
   per-op frame       apply_op_frame: an op changes only the paths it names, the other names
                      of the inode it writes, and (Rename of a directory) the paths below
                      src/dst
   byte granularity   run_appends, firstn_bytes
   atomic_replace     every crash prefix of  Create tmp; Append tmp ..; Chmod/Chown/Utime tmp
                      ..; Rename tmp p  maps p to its old node or to the complete staged
                      node, and every path other than p, tmp to its old node;
                      staged_complete gives the staged node explicitly. *)
From Coq Require Import List NArith ZArith Bool Lia.
Import ListNotations.
From Verif Require Import Base.Val C18.Fs.

(* ------------------------------------------------------------------ lookup algebra *)
Lemma lookup_set_node s p n q :
  lookup (set_node s p n) q = if path_eq_dec q p then Some n else lookup s q.
Proof.
  induction s as [|[r m] s IH]; cbn.
  - destruct (path_eq_dec q p); reflexivity.
  - destruct (path_eq_dec p r) as [->|Hpr]; cbn.
    + destruct (path_eq_dec q r); reflexivity.
    + destruct (path_eq_dec q r) as [->|Hqr].
      * destruct (path_eq_dec r p); congruence.
      * exact IH.
Qed.

Lemma lookup_set_same s p n : lookup (set_node s p n) p = Some n.
Proof. rewrite lookup_set_node. destruct (path_eq_dec p p); congruence. Qed.

Lemma lookup_set_other s p n q : q <> p -> lookup (set_node s p n) q = lookup s q.
Proof. intro H. rewrite lookup_set_node. destruct (path_eq_dec q p); congruence. Qed.

Lemma lookup_remove s p q :
  lookup (remove s p) q = if path_eq_dec q p then None else lookup s q.
Proof.
  induction s as [|[r m] s IH]; cbn.
  - destruct (path_eq_dec q p); reflexivity.
  - destruct (path_eq_dec p r) as [->|Hpr]; cbn.
    + rewrite IH. destruct (path_eq_dec q r); reflexivity.
    + destruct (path_eq_dec q r) as [->|Hqr].
      * destruct (path_eq_dec r p); congruence.
      * exact IH.
Qed.

Lemma lookup_remove_same s p : lookup (remove s p) p = None.
Proof. rewrite lookup_remove. destruct (path_eq_dec p p); congruence. Qed.

Lemma lookup_remove_other s p q : q <> p -> lookup (remove s p) q = lookup s q.
Proof. intro H. rewrite lookup_remove. destruct (path_eq_dec q p); congruence. Qed.

Lemma lookup_map_nodes f s p : lookup (map_nodes f s) p = option_map f (lookup s p).
Proof.
  induction s as [|[r m] s IH]; cbn; [reflexivity|].
  destruct (path_eq_dec p r); [reflexivity|exact IH].
Qed.

Lemma lookup_on_ino i f s p :
  lookup (on_ino i f s) p =
  match lookup s p with
  | Some n => match ino_of n with
              | Some j => if N.eqb j i then Some (f n) else Some n
              | None => Some n end
  | None => None
  end.
Proof.
  unfold on_ino. rewrite lookup_map_nodes. destruct (lookup s p) as [n|]; cbn; [|reflexivity].
  destruct (ino_of n) as [j|]; [|reflexivity]. destruct (N.eqb j i); reflexivity.
Qed.

Lemma lookup_In s p n : lookup s p = Some n -> In (p, n) s.
Proof.
  induction s as [|[r m] s IH]; cbn; [discriminate|].
  destruct (path_eq_dec p r) as [->|]; intro H.
  - injection H as ->. now left.
  - right. now apply IH.
Qed.

Lemma fresh_ino_gt s p n i :
  lookup s p = Some n -> ino_of n = Some i -> (i < fresh_ino s)%N.
Proof.
  intros H Hi. apply lookup_In in H. unfold fresh_ino.
  induction s as [|[r m] s IH]; cbn; [destruct H|].
  destruct H as [H|H].
  - injection H as -> ->. rewrite Hi. lia.
  - specialize (IH H). destruct (ino_of m); lia.
Qed.

(* ------------------------------------------------------------------ run algebra *)
Lemma run_opt_run ops s s' : run_opt ops s = Some s' -> run ops s = s'.
Proof.
  revert s; induction ops as [|o r IH]; cbn; intros s H; [congruence|].
  destruct (apply_op s o); [now apply IH|discriminate].
Qed.

Lemma run_app a b s :
  run (a ++ b) s = match run_opt a s with Some s' => run b s' | None => run a s end.
Proof.
  revert s; induction a as [|o r IH]; cbn; intro s; [reflexivity|].
  destruct (apply_op s o); [apply IH|reflexivity].
Qed.

Lemma run_opt_app a b s :
  run_opt (a ++ b) s = match run_opt a s with Some s' => run_opt b s' | None => None end.
Proof.
  revert s; induction a as [|o r IH]; cbn; intro s; [reflexivity|].
  destruct (apply_op s o); [apply IH|reflexivity].
Qed.

Lemma run_firstn_all ops s k : length ops <= k -> run (firstn k ops) s = run ops s.
Proof. intro H. now rewrite firstn_all2. Qed.

(* an invariant preserved by every successful op of the list holds in every crash prefix *)
Lemma run_inv (I : fs -> Prop) ops :
  Forall (fun o => forall s s', I s -> apply_op s o = Some s' -> I s') ops ->
  forall s, I s -> I (run ops s).
Proof.
  induction 1 as [|o r Ho _ IH]; cbn; intros s Hs; [exact Hs|].
  destruct (apply_op s o) eqn:E; [apply IH; eapply Ho; eauto|exact Hs].
Qed.

Lemma Forall_firstn {A} (P : A -> Prop) k l : Forall P l -> Forall P (firstn k l).
Proof.
  intro H; revert k; induction H; intros [|k]; cbn; constructor; auto.
Qed.

Lemma run_prefix_inv (I : fs -> Prop) ops :
  Forall (fun o => forall s s', I s -> apply_op s o = Some s' -> I s') ops ->
  forall s k, I s -> I (run (firstn k ops) s).
Proof. intros H s k Hs. apply run_inv; [now apply Forall_firstn|exact Hs]. Qed.

(* the crash states are exactly the prefix runs *)
Lemma crash_states_spec ops s st :
  In st (crash_states ops s) <-> exists k, k <= length ops /\ st = run (firstn k ops) s.
Proof.
  unfold crash_states. rewrite in_map_iff. split.
  - intros [k [<- Hk]]. apply in_seq in Hk. exists k. split; [lia|reflexivity].
  - intros [k [Hk ->]]. exists k. split; [reflexivity|]. apply in_seq. lia.
Qed.

(* ------------------------------------------------------------------ per-op frame *)
(* [update] through p leaves q alone unless q is p or another name of p's inode *)
Definition shares_ino (s : fs) (p q : path) : Prop :=
  exists n m i, lookup s p = Some n /\ lookup s q = Some m /\ ino_of n = Some i /\ ino_of m = Some i.

Lemma update_frame s p f s' q :
  update s p f = Some s' -> q <> p -> ~ shares_ino s p q -> lookup s' q = lookup s q.
Proof.
  unfold update. destruct (lookup s p) as [n|] eqn:Hp; [|discriminate].
  destruct (ino_of n) as [i|] eqn:Hi; intros H Hq Hsh; injection H as <-.
  - rewrite lookup_on_ino. destruct (lookup s q) as [m|] eqn:Hm; [|reflexivity].
    destruct (ino_of m) as [j|] eqn:Hj; [|reflexivity].
    destruct (N.eqb j i) eqn:E; [|reflexivity].
    apply N.eqb_eq in E; subst j. exfalso. apply Hsh. now exists n, m, i.
  - now apply lookup_set_other.
Qed.

Lemma update_self s p f s' n :
  update s p f = Some s' -> lookup s p = Some n -> lookup s' p = Some (f n).
Proof.
  unfold update. intros H Hp. rewrite Hp in H.
  destruct (ino_of n) as [i|] eqn:Hi; injection H as <-.
  - rewrite lookup_on_ino, Hp, Hi, N.eqb_refl. reflexivity.
  - apply lookup_set_same.
Qed.

Lemma is_prefix_refl a : is_prefix a a = true.
Proof. induction a as [|x a IH]; cbn; [reflexivity|]. destruct (list_eq_dec N.eq_dec x x); congruence. Qed.

Lemma lookup_rename_dir s a b q :
  is_prefix a q = false -> is_prefix b q = false ->
  (forall r, is_prefix a r = true -> is_prefix b (rebase a b r) = true) ->
  lookup (rename_dir s a b) q = lookup s q.
Proof.
  intros Ha Hb Hab. unfold rename_dir.
  assert (Hqb : q <> b) by (intros ->; rewrite is_prefix_refl in Hb; discriminate).
  rewrite <- (lookup_remove_other s b q Hqb).
  induction (remove s b) as [|[r m] t IH]; cbn; [reflexivity|].
  destruct (is_prefix a r) eqn:Har.
  - destruct (path_eq_dec q (rebase a b r)) as [E|_].
    + exfalso. specialize (Hab r Har). rewrite <- E in Hab. congruence.
    + destruct (path_eq_dec q r) as [->|_]; [congruence|]. exact IH.
  - assert (Hr : rebase a b r = r) by (unfold rebase; now rewrite Har). rewrite Hr.
    destruct (path_eq_dec q r); [reflexivity|exact IH].
Qed.

Lemma is_prefix_app b t : is_prefix b (b ++ t) = true.
Proof. induction b as [|x b IH]; cbn; [reflexivity|]. destruct (list_eq_dec N.eq_dec x x); congruence. Qed.

Lemma rebase_under a b r : is_prefix a r = true -> is_prefix b (rebase a b r) = true.
Proof. intro H. unfold rebase. rewrite H. apply is_prefix_app. Qed.

(* the set of paths an op may change, given the pre-state *)
Definition affects (s : fs) (o : op) (q : path) : Prop :=
  match o with
  | Rename a b => is_prefix a q = true \/ is_prefix b q = true
  | Append p _ | Pwrite p _ _ | Truncate p | Chmod p _ | Chown p _ _ | Utime p _ =>
      q = p \/ shares_ino s p q
  | _ => In q (op_paths o)
  end.

Lemma apply_op_frame s o s' q :
  apply_op s o = Some s' -> ~ affects s o q -> lookup s' q = lookup s q.
Proof.
  destruct o; cbn [apply_op affects op_paths]; intros H Hq.
  - destruct (can_create s p); [|discriminate]. injection H as <-. apply lookup_set_other. intros ->; apply Hq; cbn; auto.
  - destruct (can_create s p); [|discriminate]. injection H as <-. apply lookup_set_other. intros ->; apply Hq; cbn; auto.
  - destruct (lookup s p) as [[]|]; try discriminate. eapply update_frame; eauto; tauto.
  - destruct (lookup s p) as [[]|]; try discriminate.
    destruct (Nat.leb off (length data)); [|discriminate]. eapply update_frame; eauto; tauto.
  - destruct (lookup s p) as [[]|]; try discriminate. eapply update_frame; eauto; tauto.
  - (* Rename *)
    assert (Hqa : q <> src) by (intros ->; apply Hq; left; apply is_prefix_refl).
    assert (Hqb : q <> dst) by (intros ->; apply Hq; right; apply is_prefix_refl).
    destruct (lookup s src) as [n|]; [|discriminate]. destruct dst as [|d0 dst]; [discriminate|].
    set (b := d0 :: dst) in *.
    destruct (path_eq_dec src b); [now injection H as <-|].
    destruct (negb (isdir s (parent b))); [discriminate|].
    assert (Hmv : lookup (set_node (remove s src) b n) q = lookup s q)
      by (rewrite lookup_set_other, lookup_remove_other; auto).
    assert (Hdir : lookup (rename_dir s src b) q = lookup s q).
    { apply lookup_rename_dir.
      - destruct (is_prefix src q) eqn:E; [exfalso; apply Hq; now left|reflexivity].
      - destruct (is_prefix b q) eqn:E; [exfalso; apply Hq; now right|reflexivity].
      - intros r. apply rebase_under. }
    destruct (is_dir_node n).
    + destruct (is_prefix src b); [discriminate|].
      destruct (lookup s b) as [m|].
      * destruct (is_dir_node m && negb (has_child s b)); [|discriminate]. now injection H as <-.
      * now injection H as <-.
    + destruct (lookup s b) as [m|].
      * destruct (is_dir_node m); [discriminate|].
        destruct (ino_of n), (ino_of m); try (now injection H as <-).
        destruct (N.eqb n1 n2); now injection H as <-.
      * now injection H as <-.
  - destruct (lookup s p) as [n|]; [|discriminate]. destruct (is_dir_node n); [discriminate|].
    injection H as <-. apply lookup_remove_other. intros ->; apply Hq; cbn; auto.
  - destruct (lookup s p) as [n|]; [|discriminate].
    destruct (is_dir_node n && negb (has_child s p)); [|discriminate].
    injection H as <-. apply lookup_remove_other. intros ->; apply Hq; cbn; auto.
  - destruct (lookup s src) as [n|]; [|discriminate].
    destruct (is_file_node n && can_create s dst); [|discriminate].
    injection H as <-. apply lookup_set_other. intros ->; apply Hq; cbn; auto.
  - destruct (can_create s p); [|discriminate]. injection H as <-. apply lookup_set_other. intros ->; apply Hq; cbn; auto.
  - destruct (can_create s p); [|discriminate]. injection H as <-. apply lookup_set_other. intros ->; apply Hq; cbn; auto.
  - destruct (can_create s p); [|discriminate]. injection H as <-. apply lookup_set_other. intros ->; apply Hq; cbn; auto.
  - destruct (lookup s p) as [n|]; [|discriminate]. destruct (is_sym_node n); [discriminate|].
    eapply update_frame; eauto; tauto.
  - eapply update_frame; eauto; tauto.
  - destruct (lookup s p) as [n|]; [|discriminate]. destruct (is_sym_node n); [discriminate|].
    eapply update_frame; eauto; tauto.
Qed.

(* ------------------------------------------------------------------ byte granularity *)
Lemma append_data_app d1 d2 n : append_data d2 (append_data d1 n) = append_data (d1 ++ d2) n.
Proof. destruct n; cbn; try reflexivity. now rewrite app_assoc. Qed.

Lemma firstn_bytes p d k : firstn k (bytes p d) = bytes p (firstn k d).
Proof. unfold bytes, appends. now rewrite !firstn_map. Qed.

Lemma concat_singletons (d : list N) : concat (map (fun b => [b]) d) = d.
Proof. induction d; cbn; congruence. Qed.

(* ------------------------------------------------------------------ atomic replace *)
(* the staging invariant: everything except tmp is as in s0, and tmp is a private inode *)
Definition staged (s0 : fs) (tmp : path) (s : fs) : Prop :=
  (forall q, q <> tmp -> lookup s q = lookup s0 q) /\
  exists d m u g t i, lookup s tmp = Some (File d m u g t i) /\
    forall q n, q <> tmp -> lookup s q = Some n -> ino_of n <> Some i.

Definition keeps_file (f : node -> node) : Prop :=
  forall d m u g t i, exists d' m' u' g' t', f (File d m u g t i) = File d' m' u' g' t' i.

Lemma staged_update s0 tmp s f s' :
  staged s0 tmp s -> keeps_file f -> update s tmp f = Some s' -> staged s0 tmp s'.
Proof.
  intros [Hfr (d & m & u & g & t & i & Ht & Hpriv)] Hk Hu.
  assert (Hoth : forall q, q <> tmp -> lookup s' q = lookup s q).
  { intros q Hq. eapply update_frame; eauto.
    intros (n & n' & j & H1 & H2 & H3 & H4). rewrite Ht in H1. injection H1 as <-.
    cbn in H3. injection H3 as <-. eapply Hpriv; eauto. }
  split.
  - intros q Hq. rewrite Hoth by exact Hq. now apply Hfr.
  - destruct (Hk d m u g t i) as (d' & m' & u' & g' & t' & Hf).
    exists d', m', u', g', t', i. split.
    + erewrite update_self; eauto. now rewrite Hf.
    + intros q n Hq Hn. rewrite Hoth in Hn by exact Hq. eapply Hpriv; eauto.
Qed.

Lemma keeps_append d : keeps_file (append_data d).
Proof. intros d0 m u g t i. cbn. eauto 10. Qed.
Lemma keeps_mode m0 : keeps_file (set_mode m0).
Proof. intros d0 m u g t i. cbn. eauto 10. Qed.
Lemma keeps_owner a b : keeps_file (set_owner a b).
Proof. intros d0 m u g t i. cbn. eauto 10. Qed.
Lemma keeps_mtime t0 : keeps_file (set_mtime t0).
Proof. intros d0 m u g t i. cbn. eauto 10. Qed.

Lemma staged_create s tmp mode s' :
  apply_op s (Create tmp mode) = Some s' -> staged s tmp s'.
Proof.
  cbn. destruct (can_create s tmp) eqn:Hc; [|discriminate]. intro H; injection H as <-.
  split.
  - intros q Hq. now apply lookup_set_other.
  - exists [], mode, ME, ME, NOW, (fresh_ino s). split; [apply lookup_set_same|].
    intros q n Hq Hn Hi. rewrite lookup_set_other in Hn by exact Hq.
    pose proof (fresh_ino_gt _ _ _ _ Hn Hi). lia.
Qed.

Lemma staged_step s0 tmp o :
  (exists d, o = Append tmp d) \/ perm_on tmp o ->
  forall s s', staged s0 tmp s -> apply_op s o = Some s' -> staged s0 tmp s'.
Proof.
  intros Ho s s' Hs Ha.
  pose proof Hs as [_ (d0 & m & u & g & t & i & Ht & _)].
  destruct Ho as [[d ->]|Hp].
  - cbn in Ha. rewrite Ht in Ha. eapply staged_update; eauto using keeps_append.
  - destruct o; cbn in Hp; try contradiction; subst p; cbn in Ha.
    + rewrite Ht in Ha. cbn in Ha. eapply staged_update; eauto using keeps_mode.
    + eapply staged_update; eauto using keeps_owner.
    + rewrite Ht in Ha. cbn in Ha. eapply staged_update; eauto using keeps_mtime.
Qed.

Lemma staged_middle s0 tmp chunks perms :
  Forall (perm_on tmp) perms ->
  Forall (fun o => forall s s', staged s0 tmp s -> apply_op s o = Some s' -> staged s0 tmp s')
         (appends tmp chunks ++ perms).
Proof.
  intro Hp. apply Forall_app. split.
  - unfold appends. apply Forall_map. apply Forall_forall. intros d _.
    apply staged_step. left. eauto.
  - eapply Forall_impl; [|exact Hp]. intros o Ho. apply staged_step. now right.
Qed.

(* the rename step from a staged state *)
Lemma staged_rename s0 tmp p s s' :
  tmp <> p -> staged s0 tmp s -> apply_op s (Rename tmp p) = Some s' ->
  (forall q, q <> p -> q <> tmp -> lookup s' q = lookup s0 q) /\ lookup s' p = lookup s tmp.
Proof.
  intros Hne [Hfr (d & m & u & g & t & i & Ht & Hpriv)] H. cbn in H. rewrite Ht in H.
  destruct p as [|p0 p]; [discriminate|]. set (b := p0 :: p) in *.
  destruct (path_eq_dec tmp b) as [|Hnb]; [contradiction|].
  destruct (negb (isdir s (parent b))); [discriminate|]. cbn [is_dir_node] in H.
  assert (Hmv : forall s'', s'' = set_node (remove s tmp) b (File d m u g t i) ->
     (forall q, q <> b -> q <> tmp -> lookup s'' q = lookup s0 q) /\ lookup s'' b = lookup s tmp).
  { intros s'' ->. split.
    - intros q Hq1 Hq2. rewrite lookup_set_other, lookup_remove_other by assumption. now apply Hfr.
    - rewrite lookup_set_same. now rewrite Ht. }
  destruct (lookup s b) as [n|] eqn:Hb.
  - destruct (is_dir_node n); [discriminate|]. cbn [ino_of] in H.
    destruct (ino_of n) as [j|] eqn:Hj.
    + destruct (N.eqb i j) eqn:E.
      * apply N.eqb_eq in E; subst j. exfalso. eapply (Hpriv b n); eauto.
      * injection H as <-. now apply Hmv.
    + injection H as <-. now apply Hmv.
  - injection H as <-. now apply Hmv.
Qed.

(* THE LEMMA.  For every crash point k of the staged replacement of p through tmp:
   every path other than p and tmp holds its old node, and p holds its old node or the
   complete staged node (the node tmp had after ALL appends and permission ops). *)
Theorem atomic_replace : forall s tmp p mode chunks perms k,
  tmp <> p -> Forall (perm_on tmp) perms ->
  let ops := replace_ops tmp p mode chunks perms in
  let staging := Create tmp mode :: appends tmp chunks ++ perms in
  let sk := run (firstn k ops) s in
  (forall q, q <> p -> q <> tmp -> lookup sk q = lookup s q) /\
  (lookup sk p = lookup s p \/
   exists s2, run_opt staging s = Some s2 /\ lookup sk p = lookup s2 tmp /\
              lookup sk tmp = None /\ length ops <= k).
Proof.
  intros s tmp p mode chunks perms k Hne Hperms ops staging sk.
  subst ops staging sk. unfold replace_ops.
  destruct k as [|k]; [cbn; split; [reflexivity|now left]|].
  cbn [firstn run run_opt]. destruct (apply_op s (Create tmp mode)) as [s1|] eqn:Hc;
    [|split; [reflexivity|now left]].
  pose proof (staged_create _ _ _ _ Hc) as Hs1.
  pose proof (staged_middle s tmp chunks perms Hperms) as Hmid.
  set (mid := appends tmp chunks ++ perms) in *.
  rewrite app_assoc. fold mid.
  destruct (Nat.le_gt_cases k (length mid)) as [Hk|Hk].
  - (* crash inside the staging phase *)
    rewrite firstn_app. replace (k - length mid) with 0 by lia. cbn [firstn]. rewrite app_nil_r.
    pose proof (run_prefix_inv _ _ Hmid s1 k Hs1) as [Hfr _].
    split; [intros q _ Hq; now apply Hfr|left; apply Hfr; congruence].
  - (* all staging ops issued, then the rename *)
    rewrite firstn_all2 by (rewrite app_length; cbn; lia).
    rewrite run_app. destruct (run_opt mid s1) as [s2|] eqn:Hm.
    + pose proof (run_inv _ _ Hmid s1 Hs1) as Hs2. rewrite (run_opt_run _ _ _ Hm) in Hs2.
      cbn [run]. destruct (apply_op s2 (Rename tmp p)) as [s3|] eqn:Hr.
      * destruct (staged_rename _ _ _ _ _ Hne Hs2 Hr) as [Hfr Hp].
        split; [exact Hfr|]. right. exists s2. repeat split; auto.
        -- cbn in Hr. destruct Hs2 as [_ (d & m & u & g & t & i & Ht & Hpriv)]. rewrite Ht in Hr.
           destruct p as [|p0 p]; [discriminate|].
           destruct (path_eq_dec tmp (p0 :: p)) as [|Hnb]; [contradiction|].
           destruct (negb (isdir s2 (parent (p0 :: p)))); [discriminate|]. cbn [is_dir_node] in Hr.
           assert (Hgone : lookup (set_node (remove s2 tmp) (p0 :: p) (File d m u g t i)) tmp = None)
             by (rewrite lookup_set_other by assumption; apply lookup_remove_same).
           destruct (lookup s2 (p0 :: p)) as [n|] eqn:Hb.
           ++ destruct (is_dir_node n); [discriminate|]. cbn [ino_of] in Hr.
              destruct (ino_of n) as [j|] eqn:Hj.
              ** destruct (N.eqb i j) eqn:E.
                 --- apply N.eqb_eq in E; subst j. exfalso. eapply (Hpriv (p0 :: p) n); eauto.
                 --- now injection Hr as <-.
              ** now injection Hr as <-.
           ++ now injection Hr as <-.
        -- cbn [length]. rewrite app_length. cbn [length]. lia.
      * destruct Hs2 as [Hfr _]. split; [intros q _ Hq; now apply Hfr|left; apply Hfr; congruence].
    + pose proof (run_inv _ _ Hmid s1 Hs1) as [Hfr _].
      split; [intros q _ Hq; now apply Hfr|left; apply Hfr; congruence].
Qed.

(* what the complete staged node is *)
Definition perm_fun (o : op) : node -> node :=
  match o with
  | Chmod _ m => set_mode m
  | Chown _ u g => set_owner u g
  | Utime _ t => set_mtime t
  | _ => fun n => n
  end.
Definition staged_node (mode : N) (chunks : list (list N)) (perms : list op) (i : N) : node :=
  fold_left (fun n o => perm_fun o n) perms (File (concat chunks) mode ME ME NOW i).

Lemma run_opt_appends_tmp tmp chunks : forall s s' d m u g t i,
  lookup s tmp = Some (File d m u g t i) ->
  run_opt (appends tmp chunks) s = Some s' ->
  chunks = [] /\ s' = s \/ lookup s' tmp = Some (File (d ++ concat chunks) m u g NOW i).
Proof.
  induction chunks as [|c chunks IH]; cbn; intros s s' d m u g t i Ht H.
  - left. split; congruence.
  - right. rewrite Ht in H. destruct (update s tmp (append_data c)) as [s1|] eqn:Hu; [|discriminate].
    pose proof (update_self _ _ _ _ _ Hu Ht) as Ht1. cbn in Ht1.
    destruct (IH _ _ _ _ _ _ _ _ Ht1 H) as [[-> ->]|H2].
    + cbn. now rewrite app_nil_r.
    + rewrite H2. now rewrite <- app_assoc.
Qed.

Lemma run_opt_perms_tmp tmp perms : Forall (perm_on tmp) perms ->
  forall s s' n, lookup s tmp = Some n -> is_file_node n = true ->
  run_opt perms s = Some s' ->
  lookup s' tmp = Some (fold_left (fun n o => perm_fun o n) perms n).
Proof.
  induction 1 as [|o perms Ho _ IH]; cbn; intros s s' n Ht Hf H; [congruence|].
  destruct (apply_op s o) as [s1|] eqn:Ha; [|discriminate].
  assert (H1 : lookup s1 tmp = Some (perm_fun o n) /\ is_file_node (perm_fun o n) = true).
  { destruct n; try discriminate.
    destruct o; cbn in Ho; try contradiction; subst p; cbn in Ha; try rewrite Ht in Ha; cbn in Ha;
      (split; [eapply update_self in Ha; eauto|reflexivity]). }
  destruct H1 as [H1 H2]. eapply IH; eauto.
Qed.

Theorem staged_complete : forall s tmp mode chunks perms s2,
  Forall (perm_on tmp) perms ->
  run_opt (Create tmp mode :: appends tmp chunks ++ perms) s = Some s2 ->
  lookup s2 tmp = Some (staged_node mode chunks perms (fresh_ino s)).
Proof.
  intros s tmp mode chunks perms s2 Hp H. cbn [run_opt] in H.
  destruct (apply_op s (Create tmp mode)) as [s1|] eqn:Hc; [|discriminate].
  assert (Ht1 : lookup s1 tmp = Some (File [] mode ME ME NOW (fresh_ino s))).
  { cbn in Hc. destruct (can_create s tmp); [|discriminate]. injection Hc as <-. apply lookup_set_same. }
  rewrite run_opt_app in H. destruct (run_opt (appends tmp chunks) s1) as [s1'|] eqn:Ha; [|discriminate].
  unfold staged_node.
  destruct (run_opt_appends_tmp _ _ _ _ _ _ _ _ _ _ Ht1 Ha) as [[-> ->]|Ht2].
  - cbn [concat]. eapply run_opt_perms_tmp; eauto.
  - cbn [app] in Ht2. eapply run_opt_perms_tmp; eauto.
Qed.

(* any chunking of d, run to completion, equals one Append of d (on a file) *)
Lemma run_appends p chunks : forall s d m u g t i,
  lookup s p = Some (File d m u g t i) -> chunks <> [] ->
  forall q, lookup (run (appends p chunks) s) q = lookup (run [Append p (concat chunks)] s) q.
Proof.
  induction chunks as [|c chunks IH]; intros s d m u g t i Hp Hne q; [congruence|].
  cbn [appends map run apply_op concat]. rewrite Hp.
  destruct (update s p (append_data c)) as [s1|] eqn:Hu.
  2:{ unfold update in Hu. rewrite Hp in Hu. cbn in Hu. discriminate. }
  destruct (update s p (append_data (c ++ concat chunks))) as [s2|] eqn:Hu2.
  2:{ unfold update in Hu2. rewrite Hp in Hu2. cbn in Hu2. discriminate. }
  pose proof (update_self _ _ _ _ _ Hu Hp) as Hp1. cbn in Hp1.
  destruct chunks as [|c2 chunks].
  - cbn. rewrite app_nil_r in Hu2. congruence.
  - fold (appends p (c2 :: chunks)). erewrite IH; eauto; [|discriminate].
    cbn [run apply_op]. rewrite Hp1.
    unfold update in *. rewrite Hp in Hu, Hu2. rewrite Hp1. cbn [ino_of] in *.
    injection Hu as <-. injection Hu2 as <-.
    rewrite !lookup_on_ino. destruct (lookup s q) as [n|]; [|reflexivity].
    destruct (ino_of n) as [j|] eqn:Hj; [|rewrite Hj; reflexivity].
    destruct (N.eqb j i) eqn:E.
    + assert (Hj' : ino_of (append_data c n) = Some j) by (destruct n; cbn in *; congruence).
      rewrite Hj', E. now rewrite append_data_app.
    + now rewrite Hj, E.
Qed.
