import os, sys, time, signal
from pkgcore.ebuild import processor as P
t=time.time()
ebp = P.request_ebuild_processor()
print("started", round(time.time()-t,2), "load", os.getloadavg())
def dump(names, path):
    s = "{ " + " ".join('printf \'%%s\\0\' %s "${%s@a}" "${#%s[@]}" "${!%s[@]}" "${%s[@]}";' % (n,n,n,n,n) for n in names) + " } > " + path
    ebp.write(f"start_receiving_env bytes {len(s)}\n{s}", append_newline=False)
    return ebp.expect("env_received", flush=True, timeout=10)
def cycle(env, names, tmpdir=None):
    ebp.write("process_ebuild verif_none")
    try:
        r = ebp.send_env(env, tmpdir=tmpdir)
    except Exception as e:
        r = repr(e)
    print(" send_env ->", r)
    if r is True:
        print(" dump", dump(names, "/verif/chk.scratch/c31/dump"))
        print(" ", open("/verif/chk.scratch/c31/dump","rb").read().split(b"\0"))
        print(" alive", ebp.is_responsive)
        ebp.write("shutdown_daemon"); print(" ", ebp.read().strip())
    else:
        print(" next:", ebp.is_alive and ebp.read())
t=time.time()
cycle({"A":"x y", "B":"it's", "L":["a","b c"], "PKGCORE_NONEXPORTED_VARS":"B"}, ["A","B","L"])
print(time.time()-t)
cycle({"A":"it's a \\n b"}, ["A"])
cycle({"A":"é"}, ["A"])
print("alive", ebp.is_responsive)
cycle({"L":['q"$(echo INJECTED >&2)']}, ["L"])
print("alive", ebp.is_responsive)
ebp.shutdown_processor()
