(* Model_C47.v — what one `tar_syncer.sync()` PROCESS does to the filesystem
   (sync/tar.py _pre_download/_post_download, sync/http.py _sync, the atexit cleanups and the
   AtomicWriteFile destructor that run when the process exits normally).

   State: the filesystem restricted to the five paths a sync names —
     base = <repos>/<name>         the repository
     upd  = <repos>/.<name>.update staging directory for the new tree
     old  = <repos>/.<name>.old    where the previous tree is parked
     tf   = <tmp>/T                NamedTemporaryFile (fresh random name per sync)
     dl   = <tmp>/.update.T        AtomicWriteFile temp of the download
   A directory slot holds its whole tree as a VALUE ([tree] = C18.Fs.fs with paths relative to
   the slot; nodes are C18.Fs nodes); the kernel semantics of mkdir / rename(dir, dir) /
   unlink on these slots is transcribed from C18.Fs.apply_op.  Two bulk steps are not
   decomposed: [RmTree] (shutil.rmtree(ignore_errors=True)) and [Extract] (the external
   `tar --extract -C upd`): the step itself gives the completed effect, [mid_step] gives
   the states a crash INSIDE the step may leave (any content below that one directory).

   [sync fixed ...] : [fixed = true] is the repaired code (stale staging directories are
   cleaned and a parked repository is put back in _pre_download); [fixed = false] is the
   code as pinned (no recovery).  No proofs here. *)
From Coq Require Import List NArith ZArith Bool.
Import ListNotations.
From Verif Require Import Base.Val C18.Fs.

Definition tree := fs.

Inductive slot : Type := SFile | SDir (t : tree).

Record st : Type := mkst {
  base : option slot; upd : option slot; old : option slot;
  tf : option (list N); dl : option (list N) }.

Inductive which : Type := Base | Upd | Old.

Definition get (w : which) (s : st) : option slot :=
  match w with Base => base s | Upd => upd s | Old => old s end.
Definition set (w : which) (v : option slot) (s : st) : st :=
  match w with
  | Base => mkst v (upd s) (old s) (tf s) (dl s)
  | Upd => mkst (base s) v (old s) (tf s) (dl s)
  | Old => mkst (base s) (upd s) v (tf s) (dl s)
  end.
Definition set_tf (v : option (list N)) (s : st) : st := mkst (base s) (upd s) (old s) v (dl s).
Definition set_dl (v : option (list N)) (s : st) : st := mkst (base s) (upd s) (old s) (tf s) v.

Inductive step : Type :=
| CreateT                          (* tempfile.NamedTemporaryFile() *)
| MkDir (w : which)                (* os.mkdir: fails when anything is there *)
| RenameDir (a b : which)          (* os.rename of a directory onto nothing / an empty directory *)
| RmTree (w : which)               (* shutil.rmtree(ignore_errors=True) of a directory *)
| CreateDl | WriteDl (c : N) | CommitDl | DiscardDl | UnlinkT
| Extract (t : tree) (ok : bool)   (* tar: fills the empty staging dir with t; ok = exit status 0 *)
| OpenMeta (name : str)            (* open(base/name, "w"): create empty or truncate *)
| AppendMeta (name : str) (d : str).

Definition is_empty_tree (t : tree) : bool := match t with [] => true | _ => false end.

Definition meta_node (d : str) (m : N) : node := File d m ME ME NOW 0.

Definition apply_step (s : st) (o : step) : option st :=
  match o with
  | CreateT => match tf s with None => Some (set_tf (Some []) s) | Some _ => None end
  | MkDir w => match get w s with None => Some (set w (Some (SDir [])) s) | Some _ => None end
  | RenameDir a b =>
      match get a s with
      | Some (SDir t) =>
          match get b s with
          | None => Some (set b (Some (SDir t)) (set a None s))
          | Some (SDir t') => if is_empty_tree t' then Some (set b (Some (SDir t)) (set a None s)) else None
          | Some SFile => None
          end
      | _ => None
      end
  | RmTree w => match get w s with Some (SDir _) => Some (set w None s) | _ => Some s end
  | CreateDl => match dl s with None => Some (set_dl (Some []) s) | Some _ => None end
  | WriteDl c => match dl s with Some d => Some (set_dl (Some (d ++ [c])) s) | None => None end
  | CommitDl => match dl s with Some d => Some (set_tf (Some d) (set_dl None s)) | None => None end
  | DiscardDl => match dl s with Some _ => Some (set_dl None s) | None => None end
  | UnlinkT => match tf s with Some _ => Some (set_tf None s) | None => None end
  | Extract t _ =>
      match upd s with
      | Some (SDir t0) => if is_empty_tree t0 then Some (set Upd (Some (SDir t)) s) else None
      | _ => None
      end
  | OpenMeta name =>
      match base s with
      | Some (SDir t) =>
          match lookup t [name] with
          | None => Some (set Base (Some (SDir (set_node t [name] (meta_node [] 420)))) s)
          | Some (File _ m _ _ _ _) => Some (set Base (Some (SDir (set_node t [name] (meta_node [] m)))) s)
          | Some _ => None
          end
      | _ => None
      end
  | AppendMeta name d =>
      match base s with
      | Some (SDir t) =>
          match lookup t [name] with
          | Some (File d0 m _ _ _ _) => Some (set Base (Some (SDir (set_node t [name] (meta_node (d0 ++ d) m)))) s)
          | _ => None
          end
      | _ => None
      end
  end.

(* executes until the first failing step (an exception aborts the caller) *)
Fixpoint run (l : list step) (s : st) : st :=
  match l with
  | [] => s
  | o :: r => match apply_step s o with Some s' => run r s' | None => s end
  end.
Fixpoint run_opt (l : list step) (s : st) : option st :=
  match l with
  | [] => Some s
  | o :: r => match apply_step s o with Some s' => run_opt r s' | None => None end
  end.

(* a crash inside a bulk step: only the content of that one directory is undetermined *)
Definition mid_step (s : st) (o : step) (s' : st) : Prop :=
  match o with
  | RmTree w => exists t t', get w s = Some (SDir t) /\ s' = set w (Some (SDir t')) s
  | Extract _ _ => exists t t', upd s = Some (SDir t) /\ s' = set Upd (Some (SDir t')) s
  | _ => False
  end.

(* the states a crash during [l] started in [s] may leave *)
Inductive crash_of : list step -> st -> st -> Prop :=
| crash_here : forall l s, crash_of l s s
| crash_mid : forall o l s s', mid_step s o s' -> crash_of (o :: l) s s'
| crash_later : forall o l s s1 s', apply_step s o = Some s1 -> crash_of l s1 s' -> crash_of (o :: l) s s'.

(* ------------------------------------------------------------------ the sync process *)
Definition etag_name : str := [46;101;116;97;103]%N.                      (* ".etag" *)
Definition modified_name : str := [46;109;111;100;105;102;105;101;100]%N. (* ".modified" *)

Record srv : Type := mksrv {
  sv_status : N;               (* 200, or an HTTP error status (404, 500) *)
  sv_inm : bool;               (* the server honours If-None-Match *)
  sv_ims : bool;               (* the server honours If-Modified-Since *)
  sv_etag : option str;        (* ETag header *)
  sv_mod : option str;         (* Last-Modified header *)
  sv_chunks : list N;          (* the blocks the client writes (ids), in order *)
  sv_complete : bool }.        (* false: the body ends before Content-Length (IncompleteRead) *)

Inductive outcome : Type := Updated | Unchanged | Failed (kind : N).
(* kinds: 1 fetch (HTTP error)  2 cannot create repo dir  3 incomplete read (not a SyncError)
          4 cannot create staging dirs  5 unpack failed  6 rename failed *)

Definition is_dir (o : option slot) : bool := match o with Some (SDir _) => true | _ => false end.

(* readfile_ascii(base/name, none_on_missing=True) followed by `if previous:` *)
Definition read_meta (s : st) (name : str) : option str :=
  match base s with
  | Some (SDir t) => match lookup t [name] with
                     | Some (File d _ _ _ _ _) => match d with [] => None | _ => Some d end
                     | _ => None end
  | _ => None
  end.

Definition opt_str_eqb (a b : option str) : bool :=
  match a, b with Some x, Some y => str_eqb x y | _, _ => false end.

Fixpoint chunks_of (fuel : nat) (n : nat) (d : str) : list str :=
  match fuel with
  | O => []
  | S f => match d with
           | [] => []
           | _ => match n with
                  | O => [d]
                  | _ => firstn n d :: chunks_of f n (skipn n d)
                  end
           end
  end.

Definition meta_steps (chunk : nat) (name : str) (v : option str) : list step :=
  match v with
  | None => []
  | Some [] => []
  | Some d => OpenMeta name :: map (AppendMeta name) (chunks_of (S (length d)) chunk d)
  end.

(* tar.py _pre_download (repaired): put a parked repository back, drop stale staging dirs *)
Definition recover_steps (s : st) : list step :=
  let mv := match base s with None => is_dir (old s) | Some _ => false end in
  (if mv then [RenameDir Old Base] else [])
  ++ (if is_dir (upd s) then [RmTree Upd] else [])
  ++ (if mv then [] else if is_dir (old s) then [RmTree Old] else []).

(* process exit without a crash: atexit (LIFO: rmtree old, rmtree update, tarball.close),
   then the AtomicWriteFile destructor discards an unfinished download *)
Definition exit_steps (s : st) : list step :=
  (if is_dir (old s) then [RmTree Old] else [])
  ++ (if is_dir (upd s) then [RmTree Upd] else [])
  ++ (match tf s with Some _ => [UnlinkT] | None => [] end)
  ++ (match dl s with Some _ => [DiscardDl] | None => [] end).

(* makedirs(basedir, exist_ok=True), AtomicWriteFile(dest), the block writes *)
Definition download_steps (b : option slot) (cs : list N) : list step :=
  (match b with None => [MkDir Base] | _ => [] end) ++ CreateDl :: map WriteDl cs.

(* the two renames, then the bookkeeping files *)
Definition install_steps (chunk : nat) (sv : srv) : list step :=
  [RenameDir Base Old; RenameDir Upd Base]
  ++ meta_steps chunk etag_name (sv_etag sv) ++ meta_steps chunk modified_name (sv_mod sv).

Definition finish (l : list step) (s0 : st) (o : outcome) : list step * outcome :=
  (l ++ exit_steps (run l s0), o).

Definition fresh (s : st) : st := set_tf None (set_dl None s).

Definition sync (fixed force : bool) (sv : srv) (tar : tree * bool) (chunk : nat) (s00 : st)
  : list step * outcome :=
  let s0 := fresh s00 in
  let p1 := CreateT :: (if fixed then recover_steps s0 else []) in
  let s1 := run p1 s0 in
  let prev_etag := if force then None else read_meta s1 etag_name in
  let prev_mod := if force then None else read_meta s1 modified_name in
  if negb (N.eqb (sv_status sv) 200) then finish p1 s0 (Failed 1)
  else if (sv_inm sv && opt_str_eqb prev_etag (sv_etag sv))
          || (sv_ims sv && opt_str_eqb prev_mod (sv_mod sv)) then finish p1 s0 Unchanged   (* 304 *)
  else if negb force && (opt_str_eqb (sv_etag sv) prev_etag || opt_str_eqb (sv_mod sv) prev_mod)
       then finish p1 s0 Unchanged
  else match base s1 with
  | Some SFile => finish p1 s0 (Failed 2)
  | b =>
    let dls := download_steps b (sv_chunks sv) in
    if negb (sv_complete sv) then finish (p1 ++ dls) s0 (Failed 3)
    else
    match upd s1 with
    | Some _ => finish (p1 ++ dls ++ [CommitDl]) s0 (Failed 4)
    | None =>
      match old s1 with
      | Some _ => finish (p1 ++ dls ++ [CommitDl; MkDir Upd]) s0 (Failed 4)
      | None =>
        let p4 := p1 ++ dls ++ [CommitDl; MkDir Upd; MkDir Old; Extract (fst tar) (snd tar)] in
        if negb (snd tar) then finish p4 s0 (Failed 5)
        else finish (p4 ++ install_steps chunk sv) s0 Updated
      end
    end
  end.

(* ------------------------------------------------------------------ harness encoders *)
Definition node_eqb (a b : node) : bool := node_eqb_noino a b.
Definition tree_eqb (a b : tree) : bool :=
  forallb (fun e => match lookup b (fst e) with Some n => node_eqb (snd e) n | None => false end) a
  && forallb (fun e => match lookup a (fst e) with Some _ => true | None => false end) b.
Definition slot_eqb (a b : option slot) : bool :=
  match a, b with
  | None, None => true
  | Some SFile, Some SFile => true
  | Some (SDir t), Some (SDir t') => tree_eqb t t'
  | _, _ => false
  end.
Definition odata_eqb (a b : option (list N)) : bool :=
  match a, b with None, None => true | Some x, Some y => str_eqb x y | _, _ => false end.
Definition st_eqb (a b : st) : bool :=
  slot_eqb (base a) (base b) && slot_eqb (upd a) (upd b) && slot_eqb (old a) (old b)
  && odata_eqb (tf a) (tf b) && odata_eqb (dl a) (dl b).

Definition step_tag (o : step) : N :=
  match o with
  | CreateT => 1 | MkDir Base => 2 | CreateDl => 3 | WriteDl _ => 4 | CommitDl => 5
  | MkDir Upd => 6 | MkDir Old => 7 | Extract _ _ => 8
  | RenameDir Base Old => 9 | RenameDir Upd Base => 10 | RenameDir Old Base => 11
  | OpenMeta n => if str_eqb n etag_name then 12 else 14
  | AppendMeta n _ => if str_eqb n etag_name then 13 else 15
  | RmTree Old => 16 | RmTree Upd => 17 | UnlinkT => 18 | DiscardDl => 19
  | RmTree Base => 20 | RenameDir _ _ => 21
  end%N.

Definition outcome_code (o : outcome) : N :=
  match o with Updated | Unchanged => 0 | Failed k => k end%N.

(* decidable [mid_step]: everything but the one directory agrees, and it is still a directory *)
Definition mid_okb (s : st) (o : step) (obs : st) : bool :=
  match o with
  | RmTree w => is_dir (get w s) && is_dir (get w obs) && st_eqb (set w None s) (set w None obs)
  | Extract _ _ => is_dir (upd s) && is_dir (upd obs) && st_eqb (set Upd None s) (set Upd None obs)
  | _ => false
  end.

(* one observed crash point: [k] model steps completed, [mid] = inside step k; the state
   found; outcome code and final state of the follow-up sync started from that state *)
Record cpoint : Type := mkcp { cp_k : nat; cp_mid : bool; cp_st : st; cp_f : bool (* follow-up sync observed *); cp_out2 : N; cp_st2 : st }.

Record case : Type := mkcase {
  c_fixed : bool; c_force : bool; c_srv : srv; c_tar : tree * bool; c_chunk : nat; c_s0 : st;
  (* the follow-up sync's server / tar result / force *)
  c_force2 : bool; c_srv2 : srv; c_tar2 : tree * bool;
  (* observations *)
  o_out : N; o_tags : list N; o_final : st; o_points : list cpoint }.

Definition check_point (c : case) (steps : list step) (p : cpoint) : bool :=
  let s0 := fresh (c_s0 c) in
  let sk := run (firstn (cp_k p) steps) s0 in
  (if cp_mid p then match nth_error steps (cp_k p) with Some o => mid_okb sk o (cp_st p) | None => false end
   else st_eqb sk (cp_st p))
  && (negb (cp_f p) ||
      let r2 := sync (c_fixed c) (c_force2 c) (c_srv2 c) (c_tar2 c) (c_chunk c) (cp_st p) in
      N.eqb (outcome_code (snd r2)) (cp_out2 p)
      && st_eqb (run (fst r2) (fresh (cp_st p))) (cp_st2 p)).

Fixpoint bad_points (c : case) (steps : list step) (i : Z) (ps : list cpoint) : list val :=
  match ps with
  | [] => []
  | p :: r => (if check_point c steps p then [] else [VZ i]) ++ bad_points c steps (i + 1)%Z r
  end.

Fixpoint list_N_eqb (a b : list N) : bool :=
  match a, b with
  | [], [] => true
  | x :: a', y :: b' => N.eqb x y && list_N_eqb a' b'
  | _, _ => false
  end.

(* (A): codes of the disagreements between the model and the observed process; [] = agree.
   -1 outcome, -2 step tags, -3 final state, -4 model steps do not all apply, i >= 0 crash point i *)
Definition run_case (c : case) : val :=
  let r := sync (c_fixed c) (c_force c) (c_srv c) (c_tar c) (c_chunk c) (c_s0 c) in
  let steps := fst r in
  let s0 := fresh (c_s0 c) in
  VL ((if N.eqb (outcome_code (snd r)) (o_out c) then [] else [VZ (-1)])
      ++ (if list_N_eqb (map step_tag steps) (o_tags c) then [] else [VZ (-2)])
      ++ (if st_eqb (run steps s0) (o_final c) then [] else [VZ (-3)])
      ++ (match run_opt steps s0 with Some _ => [] | None => [VZ (-4)] end)
      ++ bad_points c steps 0 (o_points c)).
