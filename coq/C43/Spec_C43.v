(* Spec_C43.v — the property's statement: collapsing yields, for each key, the value of the
   NEAREST definition: the section itself, else the first inherited section in breadth-first
   (level by level, left to right) inheritance order, where a name's sections from later config
   sources come before those of earlier ones (a self-inherit continues with the next one).
   Cycles and missing targets make the collapse fail.  Nothing here looks at the worklist. *)
From Coq Require Import List NArith ZArith Bool Arith.
Import ListNotations.
From Verif Require Import Base.Val C42.Model_C42 C43.Model_C43.

(* the sections a section inherits from, as (name, remaining stack) entries *)
Definition child_of (e : env) (nd : node) (i : N) : list node :=
  if N.eqb i (fst nd) then match tl (snd nd) with [] => [] | st' => [(i, st')] end
  else match stack_of e i with [] => [] | t => [(i, t)] end.
Definition children (e : env) (nd : node) : list node :=
  flat_map (child_of e nd) (inherits (snd nd)).

Inductive Reach (e : env) : node -> node -> Prop :=
| R_refl a : Reach e a a
| R_step a c b : In c (children e a) -> Reach e c b -> Reach e a b.

(* breadth-first order = the levels of the inheritance tree, one after the other *)
Inductive LevelOrder (e : env) : list node -> list node -> Prop :=
| LO_nil : LevelOrder e [] []
| LO_level l o : l <> [] -> LevelOrder e (flat_map (children e) l) o -> LevelOrder e l (l ++ o).

(* [r] is what the first section of [order] that defines it says *)
Definition nearest {B} (f : section -> option B) (order : list node) (r : option B) : Prop :=
  match r with
  | Some v => exists before x after, order = before ++ x :: after /\ f (head_sec x) = Some v
                                     /\ forall y, In y before -> f (head_sec y) = None
  | None => forall y, In y order -> f (head_sec y) = None
  end.

Definition root (e : env) (name : N) : node := (name, stack_of e name).

(* a section below (or equal to) x inherits, by a non-self inherit, the name of x *)
Definition has_cycle (e : env) (name : N) : Prop :=
  exists x z y, Reach e (root e name) x /\ Reach e x z /\ In y (children e z)
                /\ fst y <> fst z /\ fst y = fst x.
(* a reachable section names an inherit target for which no config source has a section,
   or self-inherits although no earlier source has a section of that name *)
Definition has_missing (e : env) (name : N) : Prop :=
  exists z i, Reach e (root e name) z /\ In i (inherits (snd z))
              /\ ((i <> fst z /\ stack_of e i = []) \/ (i = fst z /\ tl (snd z) = [])).

(* ---- executable form for comparison B: level order with a depth bound *)
Fixpoint levels (d : nat) (e : env) (l : list node) : list node :=
  match d with
  | O => []
  | S d' => match l with [] => [] | _ => l ++ levels d' e (flat_map (children e) l) end
  end.
Definition spec_show (e : env) (name : N) : str :=
  let order := levels (S (S (n_names e))) e [root e name] in
  match first_some (fun nd => s_class (head_sec nd)) order with
  | None => []
  | Some c => show_result (inr (c, fun k => first_some (fun nd => assoc k (s_keys (head_sec nd))) order))
  end.
(* accept an error (its justification is checked by the harness's direct reference); a successful
   collapse must show exactly the nearest definitions *)
Fixpoint all2 (f : N -> str -> bool) (a : list N) (b : list str) : bool :=
  match a, b with
  | [], [] => true
  | x :: a', y :: b' => f x y && all2 f a' b'
  | _, _ => false
  end.
Definition spec_collapse_ok (b : bstr) (res : val) : bool :=
  let '(e, names) := dec_case b in
  match res with
  | VS txt => all2 (fun n r => match r with 69%N :: _ => true | _ => str_eqb r (spec_show e n) end)
                   names (split_on 124 txt)
  | _ => false
  end.
