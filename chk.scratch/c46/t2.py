import sys, os, tempfile, shutil
from drive import *
d = tempfile.mkdtemp(); os.chdir(d)
dist = os.path.join(d, "dist"); os.mkdir(dist)
for f in ["libfoo-0.8.tar.gz", "libfoo-0.9.tar.gz", "Foo2-2.0.tar.gz","foo-extra-2.0.tgz"]:
    open(os.path.join(dist, f), "w").write("x")
src = [MemRepo({"app/Foo2-2.0": {"SRC_URI": "http://x/Foo2-2.0.tar.gz"},
                "app/foo-2.0": {"SRC_URI": "http://x/foo-2.0.tar.gz http://x/foo-extra-2.0.tgz"},
                "app/libfoo-0.9": {"SRC_URI": "http://x/libfoo-0.9.tar.gz"}}, "r1")]
vdb = [VdbRepo({"app/libfoo-0.9": {"DISTFILES": "libfoo-0.9.tar.gz"}}, "vdb")]
from pkgcore.util import parserestrict
for a in []:
    if not a.startswith("-") and a!="dist":
        r = parserestrict.parse_match(a); print(a, "->", r, [str(p) for p in src[0].itermatch(r)])
print(run(sys.argv[1:], dist, src, vdb, tty=False))
shutil.rmtree(d)
