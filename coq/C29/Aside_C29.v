(* C29/Aside_C29.v — ANALYSIS OF A POSSIBLE REPAIR, NOT OF THE CODE.

   The XXX comment in vdb/repo_ops.py proposes: rename the old package directory aside, rename
   the staged directory into place, then wipe the one moved aside.  This file models that
   variant (hidden name .tmp.remove-PF, which every listing skips) and proves which crash
   windows it leaves:
     * uninstall: none — every crash prefix is old-or-new (class vdb-rmtree-partial disappears);
     * replace:   rmtree is invisible (class vdb-rmtree-partial disappears), but exactly one
       crash point remains between the two renames; at that point the view is neither old nor
       new, whichever rename comes first (old aside first: the package is absent; new in first
       (possible for another version only): both versions are listed; for the same version
       "new in first" is not even executable: rename(2) onto a non-empty directory fails).
   Nothing here is checked against /repo: no such code exists. *)
From Coq Require Import List NArith ZArith Bool Lia.
Import ListNotations.
From Verif Require Import Base.Val C18.Fs C18.FsLemmas C29.Model_C29 C29.Spec_C29 C29.Proofs_C29.

Definition REMOVE : str := s2l "remove-"%bs.
Definition asidedir (loc : path) (cat old : str) : path := loc ++ [cat; TMP ++ REMOVE ++ old].

(* uninstall, rename-aside variant *)
Definition aside_uninstall_ops (s : fs) (loc : path) (cat old : str) (tree : list rt) : list op :=
  let a := [Utime loc NOW; Rename (pkgdir loc cat old) (asidedir loc cat old)]
           ++ rmtree_ops (asidedir loc cat old) tree ++ [Utime loc NOW] in
  a ++ rmdir_if_empty (run a s) (loc ++ [cat]).
(* replace, rename-aside variant, old directory moved aside first *)
Definition aside_replace_ops (s : fs) (loc : path) (cat old pf : str) (tree : list rt) (items : list item) : list op :=
  (vdb_stage s loc cat pf items ++ [Utime loc NOW])
  ++ [Rename (pkgdir loc cat old) (asidedir loc cat old); Rename (tmpdir loc cat pf) (pkgdir loc cat pf)]
  ++ (rmtree_ops (asidedir loc cat old) tree ++ [Utime loc NOW]).
(* replace, new directory renamed in first (only meaningful when pf <> old) *)
Definition aside_replace_newfirst_ops (s : fs) (loc : path) (cat old pf : str) (tree : list rt) (items : list item) : list op :=
  (vdb_stage s loc cat pf items ++ [Utime loc NOW])
  ++ [Rename (tmpdir loc cat pf) (pkgdir loc cat pf); Rename (pkgdir loc cat old) (asidedir loc cat old)]
  ++ (rmtree_ops (asidedir loc cat old) tree ++ [Utime loc NOW]).
(* the one crash point that remains *)
Definition aside_replace_point (s : fs) (loc : path) (cat pf : str) (items : list item) : nat :=
  length (vdb_stage s loc cat pf items) + 2.

Section Aside.
  Variable loc : path.
  Notation vis := (visible vdb_cat_ok vdb_skip loc).
  Notation out := (outside vdb_cat_ok vdb_skip loc).

  Lemma under_aside_invisible cat old r : ~ vis (asidedir loc cat old ++ r).
  Proof.
    unfold asidedir. rewrite <- app_assoc. cbn. apply invisible_skipped. apply vdb_skip_tmp.
  Qed.

  (* every op of rmtree(aside) names a path below the hidden directory *)
  Fixpoint rm_under (t : rt) : forall d, (forall r, ~ vis (d ++ r)) -> Forall out (rm_ops d t).
  Proof.
    destruct t as [n|n ch]; intros d Hd.
    - repeat constructor. cbn. apply Hd.
    - cbn [rm_ops]. apply Forall_app. split; [|repeat constructor; cbn; apply Hd].
      assert (Hdn : forall r, ~ vis ((d ++ [n]) ++ r)) by (intro r; rewrite <- app_assoc; apply Hd).
      induction ch as [|t' ch IHc]; [constructor|]. apply Forall_app. split; [now apply rm_under|exact IHc].
  Qed.
  Lemma rmtree_under d tree : (forall r, ~ vis (d ++ r)) -> Forall out (rmtree_ops d tree).
  Proof.
    intro Hd. unfold rmtree_ops. apply Forall_app. split.
    - induction tree as [|t tree IH]; cbn; [constructor|]. apply Forall_app. split; [now apply rm_under|exact IH].
    - repeat constructor. cbn. rewrite <- (app_nil_r d). apply Hd.
  Qed.

  (* uninstall with rename-aside: the rename is the single commit point *)
  Theorem aside_uninstall_consistent_proof s cat old tree :
    nolinks s -> vdb_consistent loc (aside_uninstall_ops s loc cat old tree) s.
  Proof.
    intro Hn. unfold aside_uninstall_ops.
    set (R := rmtree_ops (asidedir loc cat old) tree).
    set (E := rmdir_if_empty _ _).
    replace (([Utime loc NOW; Rename (pkgdir loc cat old) (asidedir loc cat old)] ++ R ++ [Utime loc NOW]) ++ E)
      with ([Utime loc NOW] ++ Rename (pkgdir loc cat old) (asidedir loc cat old) :: (R ++ [Utime loc NOW] ++ E))
      by (cbn; now rewrite <- !app_assoc).
    apply (single_commit vdb_cat_ok vdb_skip true loc); auto.
    - repeat constructor. apply utime_loc_out.
    - exact I.
    - apply Forall_app. split; [apply rmtree_under, under_aside_invisible|].
      constructor; [apply utime_loc_out|apply rmdir_if_empty_out].
  Qed.

  (* replace with rename-aside: everything but the point between the two renames *)
  Theorem aside_replace_partial_proof s cat old pf tree items :
    nolinks s ->
    forall k, k <> aside_replace_point s loc cat pf items ->
      vdb_view_eq loc (run (firstn k (aside_replace_ops s loc cat old pf tree items)) s) s
      \/ vdb_view_eq loc (run (firstn k (aside_replace_ops s loc cat old pf tree items)) s)
                         (run (aside_replace_ops s loc cat old pf tree items) s).
  Proof.
    intros Hn k Hk. unfold aside_replace_ops.
    apply (window vdb_cat_ok vdb_skip true loc); auto.
    - apply Forall_app. split; [apply stage_out|repeat constructor; apply utime_loc_out].
    - repeat constructor.
    - apply Forall_app. split; [apply rmtree_under, under_aside_invisible|repeat constructor; apply utime_loc_out].
    - unfold aside_replace_point in Hk. rewrite app_length. cbn. lia.
  Qed.
End Aside.

(* the remaining point is a genuine window, for both orders of the two renames *)
Definition aside_replace_full : Prop :=
  forall loc s cat old pf tree items,
    nolinks s -> vdb_consistent loc (aside_replace_ops s loc cat old pf tree items) s.
Definition aside_replace_newfirst_full : Prop :=
  forall loc s cat old pf tree items,
    nolinks s -> vdb_consistent loc (aside_replace_newfirst_ops s loc cat old pf tree items) s.

Module AEx.
  Import Ex.
  Definition ops := aside_replace_ops s0 [v] c p1 p2 tree items.
  Definition ops_same := aside_replace_ops s0 [v] c p1 p1 tree items.
  Definition ops_newfirst := aside_replace_newfirst_ops s0 [v] c p1 p2 tree items.
  Definition ops_newfirst_same := aside_replace_newfirst_ops s0 [v] c p1 p1 tree items.
  Definition un_ops := aside_uninstall_ops s0 [v] c p1 tree.
End AEx.

Example aside_ops_succeed :
  (exists t, run_opt AEx.ops Ex.s0 = Some t) /\ (exists t, run_opt AEx.ops_same Ex.s0 = Some t)
  /\ (exists t, run_opt AEx.ops_newfirst Ex.s0 = Some t) /\ (exists t, run_opt AEx.un_ops Ex.s0 = Some t).
Proof. repeat split; eexists; vm_compute; reflexivity. Qed.
Example aside_final_views :
  vdb_view (run AEx.ops Ex.s0) [Ex.v] = vdb_view (run Ex.replace_ops Ex.s0) [Ex.v]
  /\ vdb_view (run AEx.ops_newfirst Ex.s0) [Ex.v] = vdb_view (run Ex.replace_ops Ex.s0) [Ex.v]
  /\ vdb_view (run AEx.un_ops Ex.s0) [Ex.v] = vdb_view (run Ex.uninstall_ops Ex.s0) [Ex.v]
  /\ aside_replace_point Ex.s0 [Ex.v] Ex.c Ex.p2 Ex.items = 11.
Proof. vm_compute. repeat split; reflexivity. Qed.
(* same version, new first: rename onto the non-empty old directory fails *)
Example aside_newfirst_same_version_fails : run_opt AEx.ops_newfirst_same Ex.s0 = None.
Proof. vm_compute. reflexivity. Qed.

(* old aside first, crash between the renames: neither version is listed *)
Theorem aside_replace_refuted_proof : ~ aside_replace_full.
Proof.
  intro H. specialize (H [Ex.v] Ex.s0 Ex.c Ex.p1 Ex.p2 Ex.tree Ex.items Ex.s0_nolinks 11).
  destruct H as [E|E].
  - destruct (E Ex.c Ex.p1) as [E1 _]. vm_compute in E1. discriminate.
  - destruct (E Ex.c Ex.p2) as [E1 _]. vm_compute in E1. discriminate.
Qed.
(* same version, crash between the renames: the package is absent (old and new both list it) *)
Theorem aside_replace_same_version_absent_proof :
  listed vdb_cat_ok vdb_skip true [Ex.v] Ex.s0 Ex.c Ex.p1 = true
  /\ listed vdb_cat_ok vdb_skip true [Ex.v] (run AEx.ops_same Ex.s0) Ex.c Ex.p1 = true
  /\ listed vdb_cat_ok vdb_skip true [Ex.v] (run (firstn 11 AEx.ops_same) Ex.s0) Ex.c Ex.p1 = false.
Proof. vm_compute. repeat split; reflexivity. Qed.
(* new in first, crash between the renames: both versions are listed *)
Theorem aside_replace_newfirst_refuted_proof : ~ aside_replace_newfirst_full.
Proof.
  intro H. specialize (H [Ex.v] Ex.s0 Ex.c Ex.p1 Ex.p2 Ex.tree Ex.items Ex.s0_nolinks 11).
  destruct H as [E|E].
  - destruct (E Ex.c Ex.p2) as [E1 _]. vm_compute in E1. discriminate.
  - destruct (E Ex.c Ex.p1) as [E1 _]. vm_compute in E1. discriminate.
Qed.
