import cProfile, pstats, sys, os, random, time
sys.path.insert(0,"/verif")
from harness import c47, common
chk = common.Check("C47")
import pkgcore.sync.tar
work = str(chk.scratch/"c47"); os.makedirs(work); spool=work+"/spool"; os.mkdir(spool); root=work+"/root"
proc, port = c47.start_server(spool)
try:
    pr = cProfile.Profile(); pr.enable()
    t=time.time()
    for i,k in enumerate(["good","truncated"]):
        case = c47.gen_case(chk.rng, k)
        res = c47.run_case_real(chk, case, i, port, spool, root, 22)
        print(k, len(res["points"]), time.time()-t, res["tags"], res["ref"]["code"], res["ref"]["detail"])
    pr.disable()
    pstats.Stats(pr).sort_stats("cumtime").print_stats(18)
finally:
    proc.terminate()
    import shutil; shutil.rmtree(chk.scratch)
