From Coq Require Import List NArith ZArith Bool.
