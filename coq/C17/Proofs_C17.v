(* Proofs_C17.v — proofs about Model_C17 for the statements of Spec_C17. *)
From Coq Require Import List NArith ZArith Bool Arith Lia.
Import ListNotations.
From Verif Require Import Base.Val C17.Model_C17 C17.Spec_C17.

(* ------------------------------------------------------------------ equality tests *)
Definition reflects {A} (eqb : A -> A -> bool) := forall a b, eqb a b = true <-> a = b.

Lemma N_reflects : reflects N.eqb.
Proof. intros a b. apply N.eqb_eq. Qed.
Lemma pair_reflects : reflects pair_eqb.
Proof.
  intros [a1 a2] [b1 b2]. unfold pair_eqb. cbn. rewrite andb_true_iff, !N.eqb_eq.
  split; [intros [-> ->]; reflexivity | intros H; injection H; auto].
Qed.
Lemma trip_reflects : reflects trip_eqb.
Proof.
  intros [a1 a2] [b1 b2]. unfold trip_eqb. cbn. rewrite andb_true_iff, N.eqb_eq.
  rewrite (pair_reflects a2 b2). split; [intros [-> ->]; reflexivity | intros H; injection H; auto].
Qed.

Section Count.
Context {A : Type} (eqb : A -> A -> bool) (Hr : reflects eqb).

Lemma eqb_refl' x : eqb x x = true.
Proof. apply Hr. reflexivity. Qed.
Lemma eqb_sym' x y : eqb x y = eqb y x.
Proof.
  destruct (eqb x y) eqn:H1, (eqb y x) eqn:H2; try reflexivity.
  - apply Hr in H1. subst. rewrite eqb_refl' in H2. discriminate.
  - apply Hr in H2. subst. rewrite eqb_refl' in H1. discriminate.
Qed.
Lemma eqb_false' x y : eqb x y = false <-> x <> y.
Proof.
  split.
  - intros H ->. rewrite eqb_refl' in H. discriminate.
  - intros H. destruct (eqb x y) eqn:H1; [apply Hr in H1; contradiction | reflexivity].
Qed.

Lemma count_app x l1 l2 : count eqb x (l1 ++ l2) = count eqb x l1 + count eqb x l2.
Proof. induction l1; cbn; [reflexivity | rewrite IHl1; lia]. Qed.

Lemma count_one x y : count eqb x [y] = if eqb x y then 1 else 0.
Proof. cbn. lia. Qed.

(* removing every occurrence of y *)
Lemma count_filter_ne x y l :
  count eqb x (filter (fun z => negb (eqb y z)) l) = if eqb y x then 0 else count eqb x l.
Proof.
  induction l as [|z l IH]; cbn.
  - destruct (eqb y x); reflexivity.
  - destruct (eqb y z) eqn:Hyz; cbn.
    + rewrite IH. destruct (eqb y x) eqn:Hyx; [reflexivity|].
      apply Hr in Hyz. subst z. rewrite (eqb_sym' x y), Hyx. reflexivity.
    + rewrite IH. destruct (eqb y x) eqn:Hyx; [|reflexivity].
      apply Hr in Hyx. subst x. rewrite Hyz. reflexivity.
Qed.

Lemma count_remove1 x y l :
  count eqb x (remove1 eqb y l) = if eqb y x then pred (count eqb x l) else count eqb x l.
Proof.
  induction l as [|z l IH]; cbn.
  - destruct (eqb y x); reflexivity.
  - destruct (eqb y z) eqn:Hyz.
    + apply Hr in Hyz. subst z. rewrite (eqb_sym' x y).
      destruct (eqb y x); cbn; lia.
    + cbn. rewrite IH. destruct (eqb y x) eqn:Hyx; [|reflexivity].
      apply Hr in Hyx. subst x. rewrite Hyz. cbn. reflexivity.
Qed.

Lemma existsb_count x l : existsb (eqb x) l = negb (Nat.eqb (count eqb x l) 0).
Proof.
  induction l as [|z l IH]; cbn; [reflexivity|].
  destruct (eqb x z); cbn; [reflexivity | exact IH].
Qed.

Lemma count_In x l : count eqb x l <> 0 <-> In x l.
Proof.
  induction l as [|z l IH]; cbn; [tauto|].
  destruct (eqb x z) eqn:H.
  - apply Hr in H. subst. split; [auto | lia].
  - apply eqb_false' in H. cbn. rewrite IH. split; [auto | intros [H1|H1]; [congruence | exact H1]].
Qed.

(* a filter whose predicate is extensional over equal counts *)
Lemma same_count_nil l1 l2 :
  (forall x, count eqb x l1 = count eqb x l2) -> is_nil l1 = is_nil l2.
Proof.
  intros H. destruct l1 as [|a l1], l2 as [|b l2]; cbn; try reflexivity.
  - specialize (H b). cbn in H. rewrite eqb_refl' in H. lia.
  - specialize (H a). cbn in H. rewrite eqb_refl' in H. lia.
Qed.

Lemma count_filter x f l :
  count eqb x (filter f l) = if f x then count eqb x l else 0.
Proof.
  induction l as [|z l IH]; cbn; [destruct (f x); reflexivity|].
  destruct (f z) eqn:Hz; cbn; rewrite IH.
  - destruct (eqb x z) eqn:Hxz; [apply Hr in Hxz; subst; rewrite Hz; reflexivity|].
    destruct (f x); reflexivity.
  - destruct (eqb x z) eqn:Hxz; [apply Hr in Hxz; subst; rewrite Hz; reflexivity|].
    destruct (f x); reflexivity.
Qed.

Lemma same_count_filter f l1 l2 :
  (forall x, count eqb x l1 = count eqb x l2) ->
  forall x, count eqb x (filter f l1) = count eqb x (filter f l2).
Proof. intros H x. rewrite !count_filter, H. reflexivity. Qed.

End Count.

Lemma memN_count x l : memN x l = negb (Nat.eqb (count N.eqb x l) 0).
Proof. unfold memN. apply existsb_count. Qed.

Lemma countN_count x l : countN x l = count N.eqb x l.
Proof. induction l; cbn; congruence. Qed.

(* ------------------------------------------------------------------ lookup *)
Lemma lookup_filter_ne p q l :
  lookup p (filter (fun qc => negb (N.eqb (fst qc) q)) l) = if N.eqb p q then None else lookup p l.
Proof.
  induction l as [|[r c] l IH]; cbn; [destruct (N.eqb p q); reflexivity|].
  destruct (N.eqb r q) eqn:Hrq; cbn.
  - rewrite IH. destruct (N.eqb p q) eqn:Hpq; [reflexivity|].
    apply N.eqb_eq in Hrq. subst r. rewrite Hpq. reflexivity.
  - rewrite IH. destruct (N.eqb p r) eqn:Hpr; [|reflexivity].
    apply N.eqb_eq in Hpr. subst r. rewrite Hrq. reflexivity.
Qed.

(* ------------------------------------------------------------------ obs_eq is an equivalence *)
Lemma obs_refl s : obs_eq s s.
Proof. constructor; reflexivity. Qed.
Lemma obs_sym s1 s2 : obs_eq s1 s2 -> obs_eq s2 s1.
Proof. intros []. constructor; intros; symmetry; auto. Qed.
Lemma obs_trans s1 s2 s3 : obs_eq s1 s2 -> obs_eq s2 s3 -> obs_eq s1 s3.
Proof. intros [] []. constructor; intros; etransitivity; eauto. Qed.

Lemma equiv_refl s : equiv s s.
Proof. split; [apply obs_refl | reflexivity]. Qed.
Lemma equiv_sym s1 s2 : equiv s1 s2 -> equiv s2 s1.
Proof. intros [H1 H2]. split; [apply obs_sym; exact H1 | symmetry; exact H2]. Qed.
Lemma equiv_trans s1 s2 s3 : equiv s1 s2 -> equiv s2 s3 -> equiv s1 s3.
Proof. intros [H1 H2] [H3 H4]. split; [eapply obs_trans; eauto | congruence]. Qed.

Lemma backtrack_here_proof : forall E s, backtrack E (length (plan s)) s = (s, Ok tt).
Proof.
  intros E s. unfold backtrack. rewrite Nat.ltb_irrefl, Nat.eqb_refl. reflexivity.
Qed.

(* ------------------------------------------------------------------ relational reasoning on M *)
Definition Rres {A B} (R : A -> B -> Prop) (r1 : Res A) (r2 : Res B) : Prop :=
  match r1, r2 with
  | Ok a, Ok b => R a b
  | Ex e1, Ex e2 => e1 = e2
  | _, _ => False
  end.
(* running on obs-equal states gives obs-equal states and related results *)
Definition Mrel {A B} (R : A -> B -> Prop) (m1 : M A) (m2 : M B) : Prop :=
  forall s1 s2, obs_eq s1 s2 ->
    obs_eq (fst (m1 s1)) (fst (m2 s2)) /\ Rres R (snd (m1 s1)) (snd (m2 s2)).
Definition Rtrue {A B} (_ : A) (_ : B) : Prop := True.
Definition Rnil {A B} (l1 : list A) (l2 : list B) : Prop := is_nil l1 = is_nil l2.

Lemma Mrel_ret {A B} (R : A -> B -> Prop) a b : R a b -> Mrel R (ret a) (ret b).
Proof. intros H s1 s2 Hs. cbn. auto. Qed.
Lemma Mrel_raise {A B} (R : A -> B -> Prop) e : Mrel R (raise e) (raise e).
Proof. intros s1 s2 Hs. cbn. auto. Qed.
Lemma Mrel_bind {A B A' B'} (R : A -> B -> Prop) (R' : A' -> B' -> Prop) m1 m2 f1 f2 :
  Mrel R m1 m2 -> (forall a b, R a b -> Mrel R' (f1 a) (f2 b)) -> Mrel R' (bind m1 f1) (bind m2 f2).
Proof.
  intros Hm Hf s1 s2 Hs. unfold bind. destruct (Hm s1 s2 Hs) as [H1 H2].
  destruct (m1 s1) as [t1 [a|e1]], (m2 s2) as [t2 [b|e2]]; cbn in *; try contradiction.
  - apply Hf; assumption.
  - auto.
Qed.
Lemma Mrel_weaken {A B} (R R' : A -> B -> Prop) m1 m2 :
  (forall a b, R a b -> R' a b) -> Mrel R m1 m2 -> Mrel R' m1 m2.
Proof.
  intros HR H s1 s2 Hs. destruct (H s1 s2 Hs) as [H1 H2]. split; [exact H1|].
  destruct (snd (m1 s1)), (snd (m2 s2)); cbn in *; auto.
Qed.
Lemma Mrel_gets {A} (f : state -> A) :
  (forall s1 s2, obs_eq s1 s2 -> f s1 = f s2) -> Mrel eq (gets f) (gets f).
Proof. intros H s1 s2 Hs. cbn. auto. Qed.
Lemma Mrel_modify f :
  (forall s1 s2, obs_eq s1 s2 -> obs_eq (f s1) (f s2)) -> Mrel (@Rtrue unit unit) (modify f) (modify f).
Proof. intros H s1 s2 Hs. cbn. split; [auto | exact I]. Qed.

Ltac obs_split H :=
  destruct H as [Hsl Hli Hpc Hrb Hbr Hvf Hfr]; constructor; cbn -[memN]; intros; auto.

Section Prims.
Variable E : env.

Lemma memN_obs l1 l2 x : (forall y, count N.eqb y l1 = count N.eqb y l2) -> memN x l1 = memN x l2.
Proof. intros H. rewrite !memN_count, H. reflexivity. Qed.

Lemma check_limiters_nil s1 s2 p :
  obs_eq s1 s2 -> is_nil (check_limiters E p s1) = is_nil (check_limiters E p s2).
Proof.
  intros H. unfold check_limiters.
  assert (Hm : forall A B (f : A -> B) l, is_nil (map f l) = is_nil l) by (intros A B f []; reflexivity).
  rewrite !Hm. apply (same_count_nil pair_eqb pair_reflects).
  apply (same_count_filter pair_eqb pair_reflects). apply H.
Qed.
Lemma slot_conflicts_nil s1 s2 p :
  obs_eq s1 s2 -> is_nil (slot_conflicts E p s1) = is_nil (slot_conflicts E p s2).
Proof.
  intros H. unfold slot_conflicts. apply (same_count_nil N.eqb N_reflects).
  apply (same_count_filter N.eqb N_reflects). apply H.
Qed.
Lemma is_nil_app {A} (a b : list A) : is_nil (a ++ b) = is_nil a && is_nil b.
Proof. destruct a; reflexivity. Qed.
Lemma is_nil_map {A B} (f : A -> B) l : is_nil (map f l) = is_nil l.
Proof. destruct l; reflexivity. Qed.

Lemma fill_nil p s :
  is_nil (map IB (check_limiters E p s) ++ map IP (slot_conflicts E p s))
  = is_nil (check_limiters E p s) && is_nil (slot_conflicts E p s).
Proof. rewrite is_nil_app, !is_nil_map. reflexivity. Qed.

Lemma fill_slotting_rel p f : Mrel Rnil (fill_slotting E p f) (fill_slotting E p f).
Proof.
  intros s1 s2 H. unfold fill_slotting. cbn. unfold Rnil. rewrite !fill_nil.
  rewrite (check_limiters_nil s1 s2 p H), (slot_conflicts_nil s1 s2 p H). split; [|reflexivity].
  destruct (is_nil (check_limiters E p s2) && is_nil (slot_conflicts E p s2) || f); [|exact H].
  obs_split H. rewrite !(count_app N.eqb). rewrite Hsl. reflexivity.
Qed.

Lemma add_limiter_rel b k : Mrel (@Rtrue (list item) (list item)) (add_limiter E b k) (add_limiter E b k).
Proof.
  intros s1 s2 H. unfold add_limiter. cbn. split; [|exact I].
  obs_split H. rewrite !(count_app pair_eqb). rewrite Hli. reflexivity.
Qed.

Lemma remove_slotting_rel p : Mrel (@Rtrue unit unit) (remove_slotting p) (remove_slotting p).
Proof.
  intros s1 s2 H. unfold remove_slotting. rewrite (memN_obs (slots s1) (slots s2) p) by apply H.
  destruct (memN p (slots s2)); cbn; [|split; [exact H | reflexivity]].
  split; [|exact I]. obs_split H. rewrite !(count_filter N.eqb N_reflects), Hsl. reflexivity.
Qed.

Lemma existsb_obs {A} (eqb : A -> A -> bool) (Hr : reflects eqb) l1 l2 x :
  (forall y, count eqb y l1 = count eqb y l2) -> existsb (eqb x) l1 = existsb (eqb x) l2.
Proof. intros H. rewrite !(existsb_count eqb), H. reflexivity. Qed.

Lemma remove_limiter_rel b k : Mrel (@Rtrue unit unit) (remove_limiter b k) (remove_limiter b k).
Proof.
  intros s1 s2 H. unfold remove_limiter.
  rewrite (existsb_obs pair_eqb pair_reflects (lims s1) (lims s2) (k, b)) by apply H.
  destruct (existsb (pair_eqb (k, b)) (lims s2)); cbn; [|split; [exact H | reflexivity]].
  split; [|exact I]. obs_split H. rewrite !(count_filter pair_eqb pair_reflects), Hli. reflexivity.
Qed.

Lemma pc_set_rel p c : Mrel (@Rtrue unit unit) (pc_set p c) (pc_set p c).
Proof.
  apply Mrel_modify. intros s1 s2 H. obs_split H.
  destruct (N.eqb p0 p); [reflexivity|]. rewrite !lookup_filter_ne, Hpc. reflexivity.
Qed.
Lemma pc_del_rel p : Mrel (@Rtrue unit unit) (pc_del p) (pc_del p).
Proof.
  intros s1 s2 H. unfold pc_del. rewrite (oe_pc _ _ H p).
  destruct (lookup p (pc s2)); cbn; [|split; [exact H | reflexivity]].
  split; [|exact I]. obs_split H. rewrite !lookup_filter_ne, Hpc. reflexivity.
Qed.

Lemma rb_of_nil s1 s2 c : obs_eq s1 s2 -> is_nil (rb_of c s1) = is_nil (rb_of c s2).
Proof.
  intros H. unfold rb_of. rewrite !is_nil_map. apply (same_count_nil trip_eqb trip_reflects).
  apply (same_count_filter trip_eqb trip_reflects). apply H.
Qed.
Lemma rb_append_rel c b k : Mrel (@Rtrue unit unit) (rb_append c b k) (rb_append c b k).
Proof.
  apply Mrel_modify. intros s1 s2 H. obs_split H.
  rewrite !(count_app trip_eqb), Hrb. reflexivity.
Qed.
Lemma rb_remove_rel c b k : Mrel (@Rtrue unit unit) (rb_remove c b k) (rb_remove c b k).
Proof.
  intros s1 s2 H. unfold rb_remove. rewrite (rb_of_nil s1 s2 c H).
  destruct (is_nil (rb_of c s2)); cbn; [split; [exact H | reflexivity]|].
  rewrite (existsb_obs trip_eqb trip_reflects (rb s1) (rb s2) (c, (b, k))) by apply H.
  destruct (existsb (trip_eqb (c, (b, k))) (rb s2)); cbn; [|split; [exact H | reflexivity]].
  split; [|exact I]. obs_split H. rewrite !(count_remove1 trip_eqb trip_reflects), Hrb. reflexivity.
Qed.
Lemma brc_add_rel b : Mrel (@Rtrue unit unit) (brc_add b) (brc_add b).
Proof.
  apply Mrel_modify. intros s1 s2 H. obs_split H.
  rewrite !(count_app N.eqb), Hbr. reflexivity.
Qed.
Lemma brc_remove_rel b : Mrel (@Rtrue unit unit) (brc_remove b) (brc_remove b).
Proof.
  intros s1 s2 H. unfold brc_remove. rewrite (memN_obs (brc s1) (brc s2) b) by apply H.
  destruct (memN b (brc s2)); cbn; [|split; [exact H | reflexivity]].
  split; [|exact I]. obs_split H. rewrite !(count_remove1 N.eqb N_reflects), Hbr. reflexivity.
Qed.
Lemma memN_app x l y : memN x (l ++ [y]) = memN x l || N.eqb x y.
Proof. unfold memN. rewrite existsb_app. cbn. rewrite orb_false_r. reflexivity. Qed.
Lemma memN_filter_ne x p l : memN x (filter (fun z => negb (N.eqb z p)) l) = memN x l && negb (N.eqb x p).
Proof.
  unfold memN. induction l as [|z l IH]; cbn; [reflexivity|].
  destruct (N.eqb z p) eqn:Hzp; cbn.
  - rewrite IH. destruct (N.eqb x z) eqn:Hxz; cbn; [|reflexivity].
    apply N.eqb_eq in Hxz. subst z. rewrite Hzp. cbn. rewrite andb_false_r. reflexivity.
  - rewrite IH. destruct (N.eqb x z) eqn:Hxz; cbn; [|reflexivity].
    apply N.eqb_eq in Hxz. subst z. rewrite Hzp. reflexivity.
Qed.
Lemma vf_add_rel p : Mrel (@Rtrue unit unit) (vf_add p) (vf_add p).
Proof.
  apply Mrel_modify. intros s1 s2 H. rewrite (oe_vf _ _ H p).
  destruct (memN p (vf s2)); [exact H|]. obs_split H. rewrite !memN_app, Hvf. reflexivity.
Qed.
Lemma vf_remove_rel p : Mrel (@Rtrue unit unit) (vf_remove p) (vf_remove p).
Proof.
  intros s1 s2 H. unfold vf_remove. rewrite (oe_vf _ _ H p).
  destruct (memN p (vf s2)); cbn; [|split; [exact H | reflexivity]].
  split; [|exact I]. obs_split H. rewrite !memN_filter_ne, Hvf. reflexivity.
Qed.
Lemma fr_add_rel r : Mrel (@Rtrue unit unit) (fr_add r) (fr_add r).
Proof.
  apply Mrel_modify. intros s1 s2 H. obs_split H.
  rewrite !(count_app N.eqb), Hfr. reflexivity.
Qed.
Lemma fr_remove_rel r : Mrel (@Rtrue unit unit) (fr_remove r) (fr_remove r).
Proof.
  intros s1 s2 H. unfold fr_remove. rewrite (memN_obs (fr s1) (fr s2) r) by apply H.
  destruct (memN r (fr s2)); cbn; [|split; [exact H | reflexivity]].
  split; [|exact I]. obs_split H. rewrite !(count_remove1 N.eqb N_reflects), Hfr. reflexivity.
Qed.
Lemma plan_append_rel o1 o2 : Mrel (@Rtrue unit unit) (plan_append o1) (plan_append o2).
Proof. intros s1 s2 H. cbn. split; [|exact I]. obs_split H. Qed.
Lemma gets_brc_rel b : Mrel eq (gets (fun s => memN b (brc s))) (gets (fun s => memN b (brc s))).
Proof. apply Mrel_gets. intros s1 s2 H. apply memN_obs. apply H. Qed.

End Prims.

(* ------------------------------------------------------------------ revert / backtrack respect ≈ *)
Section Congruence.
Variable E : env.

Ltac rel_step :=
  first [ apply Mrel_ret; exact I
        | eapply Mrel_bind; [ first [ apply fill_slotting_rel | apply add_limiter_rel | apply remove_slotting_rel
                                    | apply remove_limiter_rel | apply pc_set_rel | apply pc_del_rel
                                    | apply rb_append_rel | apply rb_remove_rel | apply brc_add_rel
                                    | apply brc_remove_rel | apply vf_add_rel | apply vf_remove_rel
                                    | apply fr_add_rel | apply fr_remove_rel | apply plan_append_rel
                                    | apply gets_brc_rel ] | intros ? ? ? ] ].

Lemma when_rel b m : Mrel (@Rtrue unit unit) m m -> Mrel (@Rtrue unit unit) (when b m) (when b m).
Proof. intros H. destruct b; [exact H | apply Mrel_ret; exact I]. Qed.

Lemma incref_revert_rel c b k : Mrel (@Rtrue unit unit) (incref_revert c b k) (incref_revert c b k).
Proof.
  unfold incref_revert. repeat rel_step. subst. apply when_rel. apply remove_limiter_rel.
Qed.
Lemma decref_revert_rel c b k : Mrel (@Rtrue unit unit) (decref_revert E c b k) (decref_revert E c b k).
Proof.
  unfold decref_revert. rel_step. rel_step. subst.
  eapply Mrel_bind with (R := @Rtrue unit unit).
  - destruct b1; [apply Mrel_ret; exact I|]. rel_step. apply Mrel_ret; exact I.
  - intros ? ? ?. apply brc_add_rel.
Qed.
Lemma decref_apply_rel c b k : Mrel (@Rtrue unit unit) (decref_apply c b k) (decref_apply c b k).
Proof.
  unfold decref_apply. repeat rel_step. subst.
  eapply Mrel_bind; [apply when_rel; apply remove_limiter_rel | intros ? ? ?; apply rb_remove_rel].
Qed.

Lemma revert_rel o : Mrel (@Rtrue unit unit) (revert E o) (revert E o).
Proof.
  destruct o; cbn [revert].
  - rel_step. apply pc_del_rel.
  - apply fr_remove_rel.
  - apply Mrel_ret; exact I.
  - rel_step. rel_step. apply vf_remove_rel.
  - rel_step. rel_step. unfold Rnil in H0. rewrite H0.
    destruct (Bool.eqb (negb (is_nil b0)) force_old); [|apply Mrel_raise].
    rel_step. rel_step. apply vf_remove_rel.
  - apply incref_revert_rel.
  - apply decref_revert_rel.
Qed.

(* reverts never touch the plan *)
Definition Mframe {A} (m : M A) : Prop := forall s, plan (fst (m s)) = plan s.
Lemma frame_bind {A B} (m : M A) (f : A -> M B) : Mframe m -> (forall a, Mframe (f a)) -> Mframe (bind m f).
Proof.
  intros Hm Hf s. unfold bind. specialize (Hm s). destruct (m s) as [s' [a|e]]; cbn in *.
  - rewrite Hf. exact Hm.
  - exact Hm.
Qed.
Ltac frame_prim := intros s; cbv beta delta -[plan memN existsb filter lookup is_nil] iota;
  repeat match goal with |- context [if ?c then _ else _] => destruct c end;
  repeat match goal with |- context [match ?c with Some _ => _ | None => _ end] => destruct c end; reflexivity.
Lemma frame_fill p f : Mframe (fill_slotting E p f).
Proof. intros s. unfold fill_slotting. cbn. destruct (_ || f); reflexivity. Qed.
Lemma frame_add_limiter b k : Mframe (add_limiter E b k).
Proof. intros s. reflexivity. Qed.
Lemma frame_remove_slotting p : Mframe (remove_slotting p).
Proof. intros s. unfold remove_slotting. destruct (memN p (slots s)); reflexivity. Qed.
Lemma frame_remove_limiter b k : Mframe (remove_limiter b k).
Proof. intros s. unfold remove_limiter. destruct (existsb _ _); reflexivity. Qed.
Lemma frame_pc_set p c : Mframe (pc_set p c).
Proof. intros s. reflexivity. Qed.
Lemma frame_pc_del p : Mframe (pc_del p).
Proof. intros s. unfold pc_del. destruct (lookup p (pc s)); reflexivity. Qed.
Lemma frame_rb_append c b k : Mframe (rb_append c b k).
Proof. intros s. reflexivity. Qed.
Lemma frame_rb_remove c b k : Mframe (rb_remove c b k).
Proof. intros s. unfold rb_remove. destruct (is_nil _); [reflexivity|]. destruct (existsb _ _); reflexivity. Qed.
Lemma frame_brc_add b : Mframe (brc_add b).
Proof. intros s. reflexivity. Qed.
Lemma frame_brc_remove b : Mframe (brc_remove b).
Proof. intros s. unfold brc_remove. destruct (memN b (brc s)); reflexivity. Qed.
Lemma frame_vf_add p : Mframe (vf_add p).
Proof. intros s. unfold vf_add, modify. cbn. destruct (memN p (vf s)); reflexivity. Qed.
Lemma frame_vf_remove p : Mframe (vf_remove p).
Proof. intros s. unfold vf_remove. destruct (memN p (vf s)); reflexivity. Qed.
Lemma frame_fr_add r : Mframe (fr_add r).
Proof. intros s. reflexivity. Qed.
Lemma frame_fr_remove r : Mframe (fr_remove r).
Proof. intros s. unfold fr_remove. destruct (memN r (fr s)); reflexivity. Qed.
Lemma frame_ret {A} (a : A) : Mframe (ret a).
Proof. intros s. reflexivity. Qed.
Lemma frame_raise {A} e : Mframe (@raise A e).
Proof. intros s. reflexivity. Qed.
Lemma frame_gets {A} (f : state -> A) : Mframe (gets f).
Proof. intros s. reflexivity. Qed.
Lemma frame_when b m : Mframe m -> Mframe (when b m).
Proof. intros H. destruct b; [exact H | apply frame_ret]. Qed.

Ltac frame_tac :=
  repeat first [ apply frame_bind; [|intros ?] | apply frame_fill | apply frame_add_limiter
               | apply frame_remove_slotting | apply frame_remove_limiter | apply frame_pc_set
               | apply frame_pc_del | apply frame_rb_append | apply frame_rb_remove | apply frame_brc_add
               | apply frame_brc_remove | apply frame_vf_add | apply frame_vf_remove | apply frame_fr_add
               | apply frame_fr_remove | apply frame_ret | apply frame_raise | apply frame_gets
               | apply frame_when ].

Lemma revert_frame o : Mframe (revert E o).
Proof.
  destruct o; cbn [revert]; unfold incref_revert, decref_revert; frame_tac.
  all: repeat (match goal with |- Mframe (if ?b then _ else _) => destruct b end; frame_tac).
Qed.

(* revert_seq: same log from ≈ states *)
Lemma revert_seq_plan l : forall d s, plan (fst (revert_seq E l d s)) = plan s
  \/ exists e, snd (revert_seq E l d s) = Ex e.
Proof.
  induction l as [|o l IH]; intros d s; cbn; [left; reflexivity|].
  pose proof (revert_frame o s) as Hf. destruct (revert E o s) as [s' [u|e]]; cbn in *.
  - destruct (IH (S d) s') as [H|H]; [left; congruence | right; exact H].
  - right. eexists. reflexivity.
Qed.

Lemma revert_seq_cong l : forall d s1 s2, equiv s1 s2 ->
  equiv (fst (revert_seq E l d s1)) (fst (revert_seq E l d s2))
  /\ snd (revert_seq E l d s1) = snd (revert_seq E l d s2).
Proof.
  induction l as [|o l IH]; intros d s1 s2 [Ho Hp]; cbn.
  - split; [split; assumption | reflexivity].
  - destruct (revert_rel o s1 s2 Ho) as [H1 H2].
    pose proof (revert_frame o s1) as F1. pose proof (revert_frame o s2) as F2.
    destruct (revert E o s1) as [t1 [u1|e1]], (revert E o s2) as [t2 [u2|e2]]; cbn in *; try contradiction.
    + apply IH. split; [exact H1 | congruence].
    + subst e2. split; [|reflexivity]. rewrite F1, F2, Hp. split; [|reflexivity].
      destruct H1 as [Hsl Hli Hpc Hrb Hbr Hvf Hfr]. constructor; cbn -[memN]; auto.
Qed.

Lemma backtrack_cong k s1 s2 : equiv s1 s2 ->
  equiv (backtrack_s E k s1) (backtrack_s E k s2) /\ snd (backtrack E k s1) = snd (backtrack E k s2).
Proof.
  intros Heq. pose proof Heq as [Ho Hp]. unfold backtrack_s, backtrack. rewrite Hp.
  destruct (Nat.ltb _ k); [split; [exact Heq | reflexivity]|].
  destruct (Nat.eqb _ k); [split; [exact Heq | reflexivity]|].
  destruct (revert_seq_cong (rev (skipn k (plan s2))) 0 s1 s2 Heq) as [[H1 H1p] H2].
  destruct (revert_seq E (rev (skipn k (plan s2))) 0 s1) as [t1 [n1|e1]],
           (revert_seq E (rev (skipn k (plan s2))) 0 s2) as [t2 [n2|e2]]; cbn in *; try discriminate.
  - injection H2 as ->. split; [|reflexivity]. rewrite H1p. split; [|reflexivity].
    destruct H1 as [Hsl Hli Hpc Hrb Hbr Hvf Hfr]. constructor; cbn -[memN]; auto.
  - split; [split; assumption | congruence].
Qed.

End Congruence.

(* ------------------------------------------------------------------ backtrack as a sequence of reverts *)
Section Backtrack.
Variable E : env.

Fixpoint undo_seq (l : list op) : M unit :=
  match l with [] => ret tt | o :: r => revert E o ;;; undo_seq r end.

Lemma undo_seq_app l1 l2 s :
  undo_seq (l1 ++ l2) s =
  match undo_seq l1 s with (s', Ok _) => undo_seq l2 s' | (s', Ex e) => (s', Ex e) end.
Proof.
  revert s. induction l1 as [|o l1 IH]; intros s; cbn.
  - reflexivity.
  - unfold bind. destruct (revert E o s) as [s' [u|e]]; [apply IH | reflexivity].
Qed.

Lemma undo_seq_frame l : Mframe (undo_seq l).
Proof.
  induction l as [|o l IH]; cbn; [apply frame_ret|].
  apply frame_bind; [apply revert_frame | intros _; exact IH].
Qed.

Lemma undo_seq_rel l : Mrel (@Rtrue unit unit) (undo_seq l) (undo_seq l).
Proof.
  induction l as [|o l IH]; cbn; [apply Mrel_ret; exact I|].
  eapply Mrel_bind; [apply revert_rel | intros ? ? ?; exact IH].
Qed.

Lemma revert_seq_undo l : forall d s,
  match undo_seq l s with
  | (u, Ok _) => revert_seq E l d s = (u, Ok (d + length l))
  | (u, Ex e) => exists u', revert_seq E l d s = (u', Ex e)
  end.
Proof.
  induction l as [|o l IH]; intros d s; cbn.
  - unfold ret. rewrite Nat.add_0_r. reflexivity.
  - unfold bind. destruct (revert E o s) as [s' [u|e]].
    + specialize (IH (S d) s'). destruct (undo_seq l s') as [u' [x|e]].
      * rewrite IH. f_equal. f_equal. lia.
      * exact IH.
    + eexists. reflexivity.
Qed.

Lemma set_plan_same s : set_plan (plan s) s = s.
Proof. destruct s; reflexivity. Qed.

Lemma backtrack_char s k : k <= length (plan s) ->
  match undo_seq (rev (skipn k (plan s))) s with
  | (u, Ok _) => backtrack E k s = (set_plan (firstn k (plan s)) u, Ok tt)
  | (u, Ex e) => exists u', backtrack E k s = (u', Ex e)
  end.
Proof.
  intros Hk. unfold backtrack.
  destruct (Nat.ltb (length (plan s)) k) eqn:Hlt; [apply Nat.ltb_lt in Hlt; lia|].
  destruct (Nat.eqb (length (plan s)) k) eqn:Heq.
  - apply Nat.eqb_eq in Heq. subst k. rewrite skipn_all. cbn. rewrite firstn_all, set_plan_same. reflexivity.
  - apply Nat.eqb_neq in Heq.
    pose proof (revert_seq_undo (rev (skipn k (plan s))) 0 s) as H.
    pose proof (undo_seq_frame (rev (skipn k (plan s))) s) as Hf.
    destruct (undo_seq (rev (skipn k (plan s))) s) as [u [x|e]]; cbn in Hf.
    + rewrite H. cbn. rewrite Hf, rev_length, skipn_length. f_equal. f_equal. f_equal. lia.
    + destruct H as [u' H]. rewrite H. eexists. reflexivity.
Qed.

Lemma obs_set_plan v s : obs_eq (set_plan v s) s.
Proof. constructor; reflexivity. Qed.

(* rolling back in two stages is rolling back at once, up to ≈ *)
Lemma backtrack_compose s n n' t t2 :
  n' <= n -> n <= length (plan s) ->
  backtrack E n s = (t, Ok tt) -> backtrack E n' t = (t2, Ok tt) ->
  exists t3, backtrack E n' s = (t3, Ok tt) /\ equiv t3 t2.
Proof.
  intros Hn' Hn H1 H2.
  pose proof (backtrack_char s n Hn) as C1.
  destruct (undo_seq (rev (skipn n (plan s))) s) as [u [x|e]] eqn:U1;
    [|destruct C1 as [u' C1]; congruence].
  rewrite C1 in H1. injection H1 as <-.
  assert (Hpt : plan (set_plan (firstn n (plan s)) u) = firstn n (plan s)) by reflexivity.
  assert (Hn't : n' <= length (plan (set_plan (firstn n (plan s)) u))).
  { rewrite Hpt, firstn_length. lia. }
  pose proof (backtrack_char _ n' Hn't) as C2. rewrite Hpt in C2.
  destruct (undo_seq (rev (skipn n' (firstn n (plan s)))) (set_plan (firstn n (plan s)) u)) as [u2 [x2|e2]] eqn:U2;
    [|destruct C2 as [u' C2]; congruence].
  rewrite C2 in H2. injection H2 as <-.
  (* the one-stage rollback *)
  assert (Hn's : n' <= length (plan s)) by lia.
  pose proof (backtrack_char s n' Hn's) as C3.
  assert (Hsplit : skipn n' (plan s) = skipn n' (firstn n (plan s)) ++ skipn n (plan s)).
  { rewrite <- (firstn_skipn n (plan s)) at 1. rewrite skipn_app.
    rewrite firstn_length. replace (n' - Nat.min n (length (plan s))) with 0 by lia. reflexivity. }
  rewrite Hsplit, rev_app_distr, undo_seq_app in C3. rewrite U1 in C3.
  destruct (undo_seq_rel (rev (skipn n' (firstn n (plan s)))) u (set_plan (firstn n (plan s)) u)
              (obs_sym _ _ (obs_set_plan _ u))) as [Ho Hr].
  rewrite U2 in Ho, Hr. cbn in Ho, Hr.
  destruct (undo_seq (rev (skipn n' (firstn n (plan s)))) u) as [u3 [x3|e3]]; cbn in Hr; [|contradiction].
  eexists. split; [exact C3|]. cbn in Ho. split.
  - eapply obs_trans; [apply obs_set_plan|]. eapply obs_trans; [exact Ho|]. apply obs_sym, obs_set_plan.
  - cbn. rewrite firstn_firstn. f_equal. lia.
Qed.

(* ------------------------------------------------------------------ the chain of saved states *)
(* a call is undoable in s: it does not raise, only appends to the plan, and rolling back to where
   it started restores s up to ≈ *)
Definition Undoable (s : state) (a : api) : Prop :=
  exists s1 r seg, call E a s = (s1, Ok r) /\ plan s1 = plan s ++ seg /\
    exists s2, backtrack E (length (plan s)) s1 = (s2, Ok tt) /\ equiv s2 s.

(* newest first: (position the call started at, state it started in, the call) *)
Inductive Chain : state -> list (nat * state * api) -> Prop :=
| Ch_nil s : Chain s []
| Ch_cons s n sb a L :
    length (plan sb) = n -> Undoable sb a -> equiv s (call_s E a sb) -> Chain sb L ->
    Chain s ((n, sb, a) :: L).

Lemma chain_equiv s s' L : equiv s' s -> Chain s L -> Chain s' L.
Proof.
  intros He Hc. destruct Hc; constructor; auto. eapply equiv_trans; eauto.
Qed.

Lemma chain_pos s L : Chain s L -> forall n sb a, In (n, sb, a) L -> n <= length (plan s).
Proof.
  induction 1 as [|s n sb a L Hn Hu He Hc IH]; intros n' sb' a' Hin; [destruct Hin|].
  assert (Hle : n <= length (plan s)).
  { destruct Hu as (s1 & r & seg & Hcall & Hp & _). destruct He as [_ Hpe].
    unfold call_s in Hpe. rewrite Hcall in Hpe. cbn in Hpe. rewrite Hpe, Hp, app_length. lia. }
  destruct Hin as [Heq|Hin].
  - injection Heq as <- <- <-. exact Hle.
  - specialize (IH _ _ _ Hin). lia.
Qed.

Lemma chain_rollback s L : Chain s L -> forall n sb a, In (n, sb, a) L ->
  exists s', backtrack E n s = (s', Ok tt) /\ equiv s' sb.
Proof.
  induction 1 as [|s n sb a L Hn Hu He Hc IH]; intros n' sb' a' Hin; [destruct Hin|].
  (* rolling back the newest call *)
  assert (Hhead : exists s', backtrack E n s = (s', Ok tt) /\ equiv s' sb).
  { destruct Hu as (s1 & r & seg & Hcall & Hp & s2 & Hb & Heq).
    unfold call_s in He. rewrite Hcall in He. cbn in He.
    destruct (backtrack_cong E n s s1 He) as [H1 H2]. subst n. rewrite Hb in H2. cbn in H2.
    unfold backtrack_s in H1. rewrite Hb in H1. cbn in H1.
    destruct (backtrack E (length (plan sb)) s) as [s' r'] eqn:Hbs. cbn in *. subst r'.
    exists s'. split; [reflexivity|]. eapply equiv_trans; eauto. }
  destruct Hin as [Heq|Hin].
  - injection Heq as <- <- <-. exact Hhead.
  - destruct Hhead as (t & Hbt & Het).
    destruct (IH _ _ _ Hin) as (t2 & Hb2 & He2).
    destruct (backtrack_cong E n' t sb Het) as [H1 H2]. rewrite Hb2 in H2. cbn in H2.
    unfold backtrack_s in H1. rewrite Hb2 in H1. cbn in H1.
    destruct (backtrack E n' t) as [t2' r2] eqn:Hbt2. cbn in *. subst r2.
    assert (Hle : n' <= n) by (pose proof (chain_pos _ _ Hc _ _ _ Hin); lia).
    assert (Hle2 : n <= length (plan s)) by (eapply (chain_pos s ((n, sb, a) :: L)); [econstructor; eauto | left; reflexivity]).
    destruct (backtrack_compose s n n' t t2' Hle Hle2 Hbt Hbt2) as (t3 & Hb3 & He3).
    exists t3. split; [exact Hb3|]. eapply equiv_trans; [exact He3|]. eapply equiv_trans; eauto.
Qed.

(* after rolling back to an entry, the chain below it describes the new state *)
Lemma chain_suffix s L : Chain s L -> forall n sb a L1 L2, L = L1 ++ (n, sb, a) :: L2 -> Chain sb L2.
Proof.
  induction 1 as [|s n sb a L Hn Hu He Hc IH]; intros n' sb' a' L1 L2 HL.
  - destruct L1; discriminate.
  - destruct L1 as [|x L1]; cbn in HL.
    + injection HL as <- <- <- <-. exact Hc.
    + injection HL as _ HL. eapply IH; eauto.
Qed.

End Backtrack.

(* ------------------------------------------------------------------ histories *)
Section History.
Variable E : env.
(* G: an invariant of planner states; the four facts about it are proved for [Inv] below *)
Variable G : state -> Prop.
(* ok: the calls the two facts below have been established for *)
Variable ok : api -> bool.
Hypothesis G_obs : forall s1 s2, obs_eq s1 s2 -> G s1 -> G s2.
Hypothesis G_call : forall s a, ok a = true -> G s -> wf_api_b E s a = true -> G (call_s E a s).
Hypothesis G_undo : forall s a, ok a = true -> G s -> wf_api_b E s a = true -> Undoable E s a.

Definition okE (e : event) : bool := match e with C a => ok a | R _ => true end.
Definition wfe (e : event) (t : tstate) : bool := wf_event_b E e t && okE e.
Fixpoint wf_from' (h : list event) (t : tstate) : bool :=
  match h with [] => true | e :: r => wfe e t && wf_from' r (tstep E e t) end.
Definition WF' (h : list event) : Prop := wf_from' h (init, []) = true.
Lemma wf_from'_iff h : forall t, wf_from' h t = wf_from E h t && forallb okE h.
Proof.
  induction h as [|e h IH]; intros t; cbn; [reflexivity|]. rewrite IH. unfold wfe.
  destruct (wf_event_b E e t), (okE e), (wf_from E h (tstep E e t)), (forallb okE h); reflexivity.
Qed.

Lemma run_app h1 h2 s : run E (h1 ++ h2) s = run E h2 (run E h1 s).
Proof. unfold run. apply fold_left_app. Qed.
Lemma trun_app h1 h2 t : trun E (h1 ++ h2) t = trun E h2 (trun E h1 t).
Proof. unfold trun. apply fold_left_app. Qed.
Lemma wf_from_app h1 h2 t : wf_from' (h1 ++ h2) t = wf_from' h1 t && wf_from' h2 (trun E h1 t).
Proof.
  revert t. induction h1 as [|e h1 IH]; intros t; cbn; [reflexivity|].
  rewrite IH, andb_assoc. reflexivity.
Qed.
Lemma trun_state h : forall t, fst (trun E h t) = run E h (fst t).
Proof.
  induction h as [|e h IH]; intros t; [reflexivity|].
  change (fst (trun E h (tstep E e t)) = run E h (step_s E e (fst t))).
  rewrite IH. f_equal. destruct e as [a|k]; [reflexivity|].
  cbn. unfold step_s, step, bind, backtrack_s. destruct (backtrack E k (fst t)) as [s' [u|e]]; reflexivity.
Qed.

(* the saved-state chain alongside Spec's tracker: positions agree *)
Definition cstep (e : event) (c : state * list (nat * state * api)) : state * list (nat * state * api) :=
  match e with
  | C a => (call_s E a (fst c), (length (plan (fst c)), fst c, a) :: snd c)
  | R k => (backtrack_s E k (fst c), filter (fun x => Nat.ltb (fst (fst x)) k) (snd c))
  end.

Definition sorted_below (s : state) (L : list (nat * state * api)) : Prop :=
  forall n sb a, In (n, sb, a) L -> n <= length (plan s).

Lemma forallb_filter_id {A} (f : A -> bool) l : forallb f l = true -> filter f l = l.
Proof.
  induction l as [|x l IH]; cbn; [reflexivity|]. intros H. apply andb_true_iff in H.
  destruct H as [H1 H2]. rewrite H1, IH; auto.
Qed.

(* filtering a chain at a boundary keeps a chain for the rolled-back state *)
Lemma chain_filter k : forall L s, Chain E s L ->
  (exists sb a, In (k, sb, a) L) ->
  exists sb a, In (k, sb, a) L /\ Chain E sb (filter (fun x => Nat.ltb (fst (fst x)) k) L).
Proof.
  induction L as [|[[n sb] a] L IH]; intros s Hc (sb0 & a0 & Hin); [destruct Hin|].
  inversion Hc as [|s' n' sb' a' L' Hn Hu He Hc']; subst.
  cbn [filter fst]. destruct (Nat.ltb (length (plan sb)) k) eqn:Hlt.
  - (* head below k: impossible, every entry of a chain is at or below its head *)
    apply Nat.ltb_lt in Hlt. destruct Hin as [Heq|Hin].
    + injection Heq as Heq _ _. lia.
    + pose proof (chain_pos E _ _ Hc' _ _ _ Hin). lia.
  - apply Nat.ltb_ge in Hlt.
    destruct (existsb (fun x => Nat.eqb (fst (fst x)) k) L) eqn:Hex.
    + apply existsb_exists in Hex. destruct Hex as ([[n1 sb1] a1] & Hin1 & Heq1). cbn in Heq1.
      apply Nat.eqb_eq in Heq1. subst n1.
      destruct (IH sb Hc' (ex_intro _ sb1 (ex_intro _ a1 Hin1))) as (sb2 & a2 & Hin2 & Hc2).
      exists sb2, a2. split; [right; exact Hin2 | exact Hc2].
    + (* the head is the oldest entry at k: everything below is strictly below *)
      destruct Hin as [Heq|Hin].
      * injection Heq as Heq <- <-. exists sb, a. split; [left; f_equal; f_equal; exact Heq|].
        assert (Hall : filter (fun x => Nat.ltb (fst (fst x)) k) L = L).
        { apply forallb_filter_id. apply forallb_forall. intros [[n1 sb1] a1] Hin1. cbn.
          apply Nat.ltb_lt. pose proof (chain_pos E _ _ Hc' _ _ _ Hin1) as Hle.
          assert (n1 <> k).
          { intros ->. assert (Hf : existsb (fun x => Nat.eqb (fst (fst x)) k) L = true).
            { apply existsb_exists. eexists. split; [exact Hin1|]. cbn. apply Nat.eqb_refl. }
            congruence. }
          lia. }
        rewrite Hall. exact Hc'.
      * exfalso. assert (Hf : existsb (fun x => Nat.eqb (fst (fst x)) k) L = true).
        { apply existsb_exists. eexists. split; [exact Hin|]. cbn. apply Nat.eqb_refl. }
        congruence.
Qed.

(* the invariant of a well-formed run *)
Definition good (c : state * list (nat * state * api)) (t : tstate) : Prop :=
  fst c = fst t /\ map (fun x => fst (fst x)) (snd c) = rev (map fst (snd t)) /\
  G (fst c) /\ Chain E (fst c) (snd c) /\ Forall (fun x => G (snd (fst x))) (snd c).

Lemma filter_rev {A} (f : A -> bool) l : filter f (rev l) = rev (filter f l).
Proof.
  induction l as [|x l IH]; cbn; [reflexivity|].
  rewrite filter_app, IH. cbn. destruct (f x); cbn; [reflexivity | rewrite app_nil_r; reflexivity].
Qed.
Lemma map_filter_fst {A B} (g : A -> B) (f : B -> bool) l :
  map g (filter (fun x => f (g x)) l) = filter f (map g l).
Proof. induction l as [|x l IH]; cbn; [reflexivity|]. destruct (f (g x)); cbn; congruence. Qed.

Lemma good_step e c t : good c t -> wfe e t = true -> good (cstep e c) (tstep E e t).
Proof.
  intros (Hs & Hp & Hg & Hc & Hall) Hwf. unfold wfe in Hwf. apply andb_true_iff in Hwf.
  destruct Hwf as [Hwf Hok]. destruct e as [a|k]; cbn in Hwf, Hok.
  - (* a call *)
    rewrite <- Hs in Hwf. unfold good. cbn [cstep tstep fst snd].
    repeat split.
    + rewrite Hs. reflexivity.
    + cbn. rewrite map_app, rev_app_distr. cbn. rewrite Hp, Hs. reflexivity.
    + apply G_call; assumption.
    + econstructor; [reflexivity | apply G_undo; assumption | apply equiv_refl | exact Hc].
    + constructor; [exact Hg | exact Hall].
  - (* a rollback to a boundary *)
    unfold good. cbn [cstep tstep fst snd].
    assert (Hp' : map (fun x => fst (fst x)) (filter (fun x => Nat.ltb (fst (fst x)) k) (snd c))
                  = rev (map fst (filter (fun na => Nat.ltb (fst na) k) (snd t)))).
    { rewrite (map_filter_fst (fun x : nat * state * api => fst (fst x)) (fun n => Nat.ltb n k)).
      rewrite Hp, filter_rev. f_equal. symmetry.
      apply (map_filter_fst (fun x : nat * api => fst x) (fun n => Nat.ltb n k)). }
    assert (Hall' : Forall (fun x => G (snd (fst x))) (filter (fun x => Nat.ltb (fst (fst x)) k) (snd c))).
    { apply Forall_forall. intros x Hx. apply filter_In in Hx. destruct Hx as [Hx _].
      rewrite Forall_forall in Hall. apply Hall. exact Hx. }
    apply orb_true_iff in Hwf. destruct Hwf as [Hk|Hk].
    + (* k = len(plan): nothing happens *)
      apply Nat.eqb_eq in Hk. rewrite <- Hs in Hk. subst k.
      unfold backtrack_s. rewrite backtrack_here_proof. cbn [fst].
      assert (Hfil : filter (fun x => Nat.ltb (fst (fst x)) (length (plan (fst c)))) (snd c)
                     = filter (fun x => Nat.ltb (fst (fst x)) (length (plan (fst c)))) (snd c)) by reflexivity.
      repeat split; auto.
      * rewrite Hs. unfold backtrack_s. rewrite <- Hs, backtrack_here_proof. reflexivity.
      * destruct (existsb (fun x => Nat.eqb (fst (fst x)) (length (plan (fst c)))) (snd c)) eqn:Hex.
        -- apply existsb_exists in Hex. destruct Hex as ([[n1 sb1] a1] & Hin1 & Heq1). cbn in Heq1.
           apply Nat.eqb_eq in Heq1. subst n1.
           destruct (chain_filter _ _ _ Hc (ex_intro _ sb1 (ex_intro _ a1 Hin1))) as (sb2 & a2 & Hin2 & Hc2).
           destruct (chain_rollback E _ _ Hc _ _ _ Hin2) as (s' & Hb & He).
           rewrite backtrack_here_proof in Hb. injection Hb as <-.
           eapply chain_equiv; eauto.
        -- assert (Hid : filter (fun x => Nat.ltb (fst (fst x)) (length (plan (fst c)))) (snd c) = snd c).
           { apply forallb_filter_id. apply forallb_forall. intros [[n1 sb1] a1] Hin1. cbn.
             apply Nat.ltb_lt. pose proof (chain_pos E _ _ Hc _ _ _ Hin1) as Hle.
             assert (n1 <> length (plan (fst c))).
             { intros ->. assert (Hf : existsb (fun x => Nat.eqb (fst (fst x)) (length (plan (fst c)))) (snd c) = true).
               { apply existsb_exists. eexists. split; [exact Hin1|]. cbn. apply Nat.eqb_refl. }
               congruence. }
             lia. }
           rewrite Hid. exact Hc.
    + (* k = start of a live call *)
      apply existsb_exists in Hk. destruct Hk as ([n1 a1] & Hin1 & Heq1). cbn in Heq1.
      apply Nat.eqb_eq in Heq1. subst n1.
      assert (Hin : exists sb a, In (k, sb, a) (snd c)).
      { assert (Hk : In k (map (fun x => fst (fst x)) (snd c))).
        { rewrite Hp, <- in_rev. apply in_map_iff. exists (k, a1). split; [reflexivity | exact Hin1]. }
        apply in_map_iff in Hk. destruct Hk as ([[n2 sb2] a2] & Heq2 & Hin2). cbn in Heq2. subst n2.
        exists sb2, a2. exact Hin2. }
      destruct (chain_filter _ _ _ Hc Hin) as (sb2 & a2 & Hin2 & Hc2).
      destruct (chain_rollback E _ _ Hc _ _ _ Hin2) as (s' & Hb & He).
      unfold backtrack_s. rewrite Hb. cbn [fst].
      rewrite Forall_forall in Hall. pose proof (Hall _ Hin2) as Hg2. cbn in Hg2.
      repeat split; auto.
      * rewrite <- Hs. unfold backtrack_s. rewrite Hb. reflexivity.
      * eapply G_obs; [apply obs_sym; apply He | exact Hg2].
      * eapply chain_equiv; eauto.
Qed.

Lemma good_run h : forall c t, good c t -> wf_from' h t = true ->
  good (fold_left (fun c e => cstep e c) h c) (trun E h t).
Proof.
  induction h as [|e h IH]; intros c t Hg Hwf; cbn; [exact Hg|].
  cbn in Hwf. apply andb_true_iff in Hwf. destruct Hwf as [H1 H2].
  apply IH; [apply good_step; assumption | exact H2].
Qed.

Lemma chain_saved_len s L : Chain E s L -> forall n sb a, In (n, sb, a) L -> length (plan sb) = n.
Proof.
  induction 1 as [|s n sb a L Hn Hu He Hc IH]; intros n' sb' a' Hin; [destruct Hin|].
  destruct Hin as [Heq|Hin]; [injection Heq as <- <- <-; exact Hn | eapply IH; eauto].
Qed.

Lemma cfold_state h : forall c t, fst c = fst t ->
  fst (fold_left (fun c e => cstep e c) h c) = fst (trun E h t).
Proof.
  induction h as [|e h IH]; intros c t H; [exact H|].
  cbn [fold_left]. change (trun E (e :: h) t) with (trun E h (tstep E e t)).
  apply IH. destruct e; cbn; rewrite H; reflexivity.
Qed.

Section Restore.
Variables (s1 : state) (k : nat).
Hypothesis Hk : k = length (plan s1).

Definition P (c : state * list (nat * state * api)) : Prop :=
  k <= length (plan (fst c)) /\ ((exists sb a, In (k, sb, a) (snd c) /\ equiv sb s1) \/ equiv (fst c) s1).

Lemma P_step e c t : good c t -> wfe e t = true ->
  (forall k', e = R k' -> k <= k') -> P c -> P (cstep e c).
Proof.
  intros Hgood Hwf' Hge [Hlen Hd]. pose proof Hgood as (Hs & Hp & Hg & Hc & Hall).
  pose proof Hwf' as Hwf. unfold wfe in Hwf. apply andb_true_iff in Hwf. destruct Hwf as [Hwf Hok].
  destruct e as [a|k'].
  - (* call *)
    cbn in Hwf, Hok. rewrite <- Hs in Hwf.
    destruct (G_undo _ _ Hok Hg Hwf) as (s' & r & seg & Hcall & Hpl & _).
    unfold P. cbn [cstep fst snd]. unfold call_s. rewrite Hcall. cbn [fst]. split.
    + rewrite Hpl, app_length. lia.
    + left. destruct Hd as [(sb & a0 & Hin & He)|He].
      * exists sb, a0. split; [right; exact Hin | exact He].
      * exists (fst c), a. split; [|exact He]. left. destruct He as [_ Hpe]. rewrite Hk, Hpe. reflexivity.
  - (* rollback to k' >= k *)
    specialize (Hge k' eq_refl).
    assert (Hk'le : k' <= length (plan (fst c))).
    { cbn in Hwf. apply orb_true_iff in Hwf. destruct Hwf as [H|H].
      - apply Nat.eqb_eq in H. rewrite Hs. lia.
      - apply existsb_exists in H. destruct H as ([n1 a1] & Hin1 & Heq1). cbn in Heq1.
        apply Nat.eqb_eq in Heq1. subst n1.
        assert (Hin : In k' (map (fun x => fst (fst x)) (snd c))).
        { rewrite Hp, <- in_rev. apply in_map_iff. exists (k', a1). split; [reflexivity | exact Hin1]. }
        apply in_map_iff in Hin. destruct Hin as ([[n2 sb2] a2] & Heq2 & Hin2). cbn in Heq2. subst n2.
        apply (chain_pos E _ _ Hc _ _ _ Hin2). }
    pose proof (good_step _ _ _ Hgood Hwf') as (Hs' & Hp' & Hg' & Hc' & Hall').
    unfold P. cbn [cstep fst snd] in *.
    destruct (Nat.eq_dec k' (length (plan (fst c)))) as [Heq|Hne].
    + (* no-op *)
      subst k'. unfold backtrack_s. rewrite backtrack_here_proof. cbn [fst]. split; [exact Hlen|].
      destruct Hd as [(sb & a0 & Hin & He)|He]; [|right; exact He].
      destruct (Nat.eq_dec k (length (plan (fst c)))) as [Hkk|Hkk].
      * right. destruct (chain_rollback E _ _ Hc _ _ _ Hin) as (s' & Hb & He').
        rewrite Hkk, backtrack_here_proof in Hb. injection Hb as <-. eapply equiv_trans; eauto.
      * left. exists sb, a0. split; [|exact He]. apply filter_In. split; [exact Hin|].
        cbn. apply Nat.ltb_lt. lia.
    + (* a real rollback: k' is the start of a live call *)
      cbn in Hwf. apply orb_true_iff in Hwf. destruct Hwf as [H|H];
        [apply Nat.eqb_eq in H; rewrite <- Hs in H; contradiction|].
      apply existsb_exists in H. destruct H as ([n1 a1] & Hin1 & Heq1). cbn in Heq1.
      apply Nat.eqb_eq in Heq1. subst n1.
      assert (Hin : In k' (map (fun x => fst (fst x)) (snd c))).
      { rewrite Hp, <- in_rev. apply in_map_iff. exists (k', a1). split; [reflexivity | exact Hin1]. }
      apply in_map_iff in Hin. destruct Hin as ([[n2 sb2] a2] & Heq2 & Hin2). cbn in Heq2. subst n2.
      destruct (chain_rollback E _ _ Hc _ _ _ Hin2) as (s' & Hb & He').
      unfold backtrack_s. rewrite Hb. cbn [fst].
      pose proof (chain_saved_len _ _ Hc _ _ _ Hin2) as Hl2.
      split.
      * destruct He' as [_ Hpe]. rewrite Hpe, Hl2. exact Hge.
      * destruct Hd as [(sb & a0 & Hin & He)|He].
        -- destruct (Nat.eq_dec k k') as [Hkk|Hkk].
           ++ right. destruct (chain_rollback E _ _ Hc _ _ _ Hin) as (s'' & Hb' & He'').
              rewrite Hkk, Hb in Hb'. injection Hb' as <-. eapply equiv_trans; eauto.
           ++ left. exists sb, a0. split; [|exact He]. apply filter_In. split; [exact Hin|].
              cbn. apply Nat.ltb_lt. lia.
        -- exfalso. destruct He as [_ Hpe]. rewrite Hpe, <- Hk in Hk'le, Hne. lia.
Qed.

Lemma P_run h : forall c t, good c t -> wf_from' h t = true ->
  (forall k', In (R k') h -> k <= k') -> P c ->
  P (fold_left (fun c e => cstep e c) h c) /\ good (fold_left (fun c e => cstep e c) h c) (trun E h t).
Proof.
  induction h as [|e h IH]; intros c t Hg Hwf Hge HP; [split; assumption|].
  cbn in Hwf. apply andb_true_iff in Hwf. destruct Hwf as [H1 H2].
  cbn [fold_left]. change (trun E (e :: h) t) with (trun E h (tstep E e t)).
  apply IH.
  - apply good_step; assumption.
  - exact H2.
  - intros k' Hin. apply Hge. right. exact Hin.
  - eapply P_step; eauto. intros k' ->. apply Hge. left. reflexivity.
Qed.
End Restore.

Hypothesis G_init : G init.

Lemma good_init : good (init, []) (init, []).
Proof. repeat split; auto; constructor. Qed.

(* rollback restores the exact earlier state: if k is the plan position reached after h1 and the
   rollbacks of h2 never went below k, rolling back to k after h1 ++ h2 gives the state after h1 *)
Theorem rollback_restores_earlier_G h1 h2 k :
  WF' (h1 ++ h2) -> k = length (plan (run E h1 init)) ->
  (forall k', In (R k') h2 -> k <= k') ->
  exists s', backtrack E k (run E (h1 ++ h2) init) = (s', Ok tt) /\ equiv s' (run E h1 init).
Proof.
  intros Hwf Hk Hge. unfold WF' in Hwf. rewrite wf_from_app in Hwf.
  apply andb_true_iff in Hwf. destruct Hwf as [Hw1 Hw2].
  pose proof (good_run h1 _ _ good_init Hw1) as Hg1.
  set (c1 := fold_left (fun c e => cstep e c) h1 (init, [])) in *.
  assert (Hs1 : fst c1 = run E h1 init).
  { destruct Hg1 as (Hs & _). rewrite Hs, trun_state. reflexivity. }
  assert (HP1 : P (run E h1 init) k c1).
  { split; [rewrite Hs1; lia | right; rewrite Hs1; apply equiv_refl]. }
  destruct (P_run (run E h1 init) k Hk h2 c1 _ Hg1 Hw2 Hge HP1) as [[Hlen Hd] Hg2].
  set (c2 := fold_left (fun c e => cstep e c) h2 c1) in *.
  assert (Hs2 : fst c2 = run E (h1 ++ h2) init).
  { destruct Hg2 as (Hs & _). rewrite Hs, trun_state, trun_state, run_app. reflexivity. }
  rewrite <- Hs2. destruct Hg2 as (_ & _ & _ & Hc & _).
  destruct Hd as [(sb & a0 & Hin & He)|He].
  - destruct (chain_rollback E _ _ Hc _ _ _ Hin) as (s' & Hb & He').
    exists s'. split; [exact Hb | eapply equiv_trans; eauto].
  - exists (fst c2). split; [|exact He]. destruct He as [_ Hpe].
    rewrite Hk, <- Hpe. apply backtrack_here_proof.
Qed.

End History.

(* ------------------------------------------------------------------ the state invariant *)
Arguments memN : simpl never.
Section Invariant.
Variable E : env.

Definition blockers_of (l : list (N * (N * N))) : list N := map (fun e => fst (snd e)) l.

Record Inv (s : state) : Prop := {
  I_nodup : forall p, count N.eqb p (slots s) <= 1;
  I_slot : forall p q, count N.eqb p (slots s) <> 0 -> count N.eqb q (slots s) <> 0 ->
                       same_slot E p q = true -> p = q;
  I_brc : forall b, count N.eqb b (brc s) = count N.eqb b (blockers_of (rb s));
  I_lims : forall k b, count pair_eqb (k, b) (lims s)
                       = if memN b (brc s) && N.eqb k (bkey E b) then 1 else 0;
  I_rbkey : forall c b k, count trip_eqb (c, (b, k)) (rb s) <> 0 -> k = bkey E b }.

Lemma Inv_init : Inv init.
Proof. constructor; cbn; intros; try reflexivity; try lia; try congruence. Qed.

(* counts of a mapped list depend only on the counts of the list *)
Lemma count_map_remove1 {A} (eqb : A -> A -> bool) (Hr : reflects eqb) (f : A -> N) a y l :
  count eqb a l <> 0 ->
  count N.eqb y (map f l) = (if N.eqb y (f a) then 1 else 0) + count N.eqb y (map f (remove1 eqb a l)).
Proof.
  induction l as [|z l IH]; cbn; [lia|].
  destruct (eqb a z) eqn:Haz.
  - apply Hr in Haz. subst z. intros _. reflexivity.
  - intros H. cbn. rewrite IH by exact H. lia.
Qed.
Lemma same_count_map {A} (eqb : A -> A -> bool) (Hr : reflects eqb) (f : A -> N) : forall l1 l2,
  (forall x, count eqb x l1 = count eqb x l2) ->
  forall y, count N.eqb y (map f l1) = count N.eqb y (map f l2).
Proof.
  induction l1 as [|a l1 IH]; intros l2 H y.
  - destruct l2 as [|b l2]; [reflexivity|]. specialize (H b). cbn in H.
    rewrite (eqb_refl' eqb Hr) in H. discriminate.
  - cbn. rewrite (count_map_remove1 eqb Hr f a y l2).
    + f_equal. apply IH. intros x. rewrite (count_remove1 eqb Hr). specialize (H x). cbn in H.
      destruct (eqb a x) eqn:Hax.
      * apply Hr in Hax. subst x. rewrite (eqb_refl' eqb Hr) in H. lia.
      * rewrite (eqb_sym' eqb Hr) in H. rewrite Hax in H. cbn in H. exact H.
    + specialize (H a). cbn in H. rewrite (eqb_refl' eqb Hr) in H. lia.
Qed.

Lemma Inv_obs s1 s2 : obs_eq s1 s2 -> Inv s1 -> Inv s2.
Proof.
  intros [Hsl Hli Hpc Hrb Hbr Hvf Hfr] [J1 J2 J3 J4 J5]. constructor; intros.
  - rewrite <- Hsl. apply J1.
  - rewrite <- Hsl in *. apply J2; assumption.
  - rewrite <- Hbr. unfold blockers_of.
    rewrite <- (same_count_map trip_eqb trip_reflects (fun e => fst (snd e)) _ _ Hrb). apply J3.
  - rewrite <- Hli. rewrite J4. rewrite (memN_obs (brc s1) (brc s2) b Hbr). reflexivity.
  - rewrite <- Hrb in *. eapply J5; eauto.
Qed.

(* undoing the plan entries a call appended *)
Lemma undo_seg s s1 seg s2 :
  plan s1 = plan s ++ seg -> undo_seq E (rev seg) s1 = (s2, Ok tt) -> obs_eq s2 s ->
  exists s3, backtrack E (length (plan s)) s1 = (s3, Ok tt) /\ equiv s3 s.
Proof.
  intros Hp Hu Ho.
  assert (Hle : length (plan s) <= length (plan s1)) by (rewrite Hp, app_length; lia).
  pose proof (backtrack_char E s1 _ Hle) as C.
  rewrite Hp, skipn_app, skipn_all, Nat.sub_diag in C. cbn [skipn app] in C.
  rewrite Hu in C.
  rewrite firstn_app, firstn_all, Nat.sub_diag in C. cbn [firstn] in C. rewrite app_nil_r in C.
  eexists. split; [exact C|]. split; [|reflexivity].
  eapply obs_trans; [apply obs_set_plan | exact Ho].
Qed.

Lemma undoable_noop s a r : call E a s = (s, Ok r) -> Undoable E s a.
Proof.
  intros H. exists s, r, []. split; [exact H|]. split; [rewrite app_nil_r; reflexivity|].
  exists s. split; [apply backtrack_here_proof | apply equiv_refl].
Qed.

Lemma count_notmem x l : memN x l = false -> count N.eqb x l = 0.
Proof. rewrite memN_count. destruct (count N.eqb x l); [reflexivity | discriminate]. Qed.
Lemma count_mem x l : memN x l = true -> count N.eqb x l <> 0.
Proof. rewrite memN_count. destruct (count N.eqb x l); [discriminate | lia]. Qed.
Lemma memN_refl_app x l : memN x (l ++ [x]) = true.
Proof. rewrite memN_app, N.eqb_refl, orb_true_r. reflexivity. Qed.

(* ---- add *)
Lemma undo_add s c p f : wf_api_b E s (AAdd c p f) = true -> Undoable E s (AAdd c p f).
Proof.
  cbn [wf_api_b]. intros H. apply andb_true_iff in H. destruct H as [H Hf].
  apply andb_true_iff in H. destruct H as [H Hvf].
  apply andb_true_iff in H. destruct H as [Hb Hsl].
  apply negb_true_iff in Hsl. apply negb_true_iff in Hb. unfold bound in Hb.
  destruct (lookup (peq E p) (pc s)) eqn:Hlk; [discriminate|].
  set (l := map IB (check_limiters E p s) ++ map IP (slot_conflicts E p s)).
  destruct (negb (is_nil l) && negb f) eqn:Hcase.
  - (* refused *)
    apply andb_true_iff in Hcase. destruct Hcase as [H1 H2].
    apply negb_true_iff in H1. apply negb_true_iff in H2.
    eapply (undoable_noop _ _ (Some l)). cbn [call]. unfold add_apply, bind, fill_slotting. fold l.
    rewrite H1, H2. cbn. reflexivity.
  - assert (Hgo : is_nil l || f = true).
    { destruct (is_nil l), f; cbn in *; congruence. }
    unfold Undoable. cbn [call]. unfold add_apply, bind, fill_slotting. fold l.
    rewrite Hgo, Hcase. cbn.
    eexists _, None, [OAdd c p f]. split; [reflexivity|]. split; [reflexivity|].
    eapply undo_seg with (seg := [OAdd c p f]); [reflexivity | |].
    + cbn. unfold bind, remove_slotting. cbn. rewrite memN_refl_app. cbn.
      unfold pc_del. cbn. rewrite N.eqb_refl. cbn. reflexivity.
    + constructor; cbn -[memN]; intros; try reflexivity.
      * rewrite (count_filter N.eqb N_reflects), (count_app N.eqb). cbn.
        destruct (N.eqb p0 p) eqn:Hpp; cbn.
        -- apply N.eqb_eq in Hpp. subst p0. rewrite (count_notmem _ _ Hsl). reflexivity.
        -- lia.
      * rewrite !lookup_filter_ne.
        destruct (N.eqb p0 (peq E p)) eqn:Hpp; [apply N.eqb_eq in Hpp; subst; auto | reflexivity].
Qed.

(* ---- helper facts about appended elements *)
Lemma existsb_last {A} (eqb : A -> A -> bool) (Hr : reflects eqb) x l : existsb (eqb x) (l ++ [x]) = true.
Proof. rewrite existsb_app. cbn. rewrite (eqb_refl' eqb Hr). rewrite orb_true_r. reflexivity. Qed.
Lemma rb_of_last_nonnil c x l :
  is_nil (map snd (filter (fun e : N * (N * N) => N.eqb (fst e) c) (l ++ [(c, x)]))) = false.
Proof.
  rewrite filter_app, map_app. cbn. rewrite N.eqb_refl. cbn.
  destruct (map snd (filter _ l)); reflexivity.
Qed.
Lemma memN_remove1_last b l : memN b (remove1 N.eqb b (l ++ [b])) = memN b l.
Proof.
  rewrite !memN_count, (count_remove1 N.eqb N_reflects), (count_app N.eqb). cbn.
  rewrite N.eqb_refl. replace (count N.eqb b l + (1 + 0)) with (S (count N.eqb b l)) by lia. reflexivity.
Qed.
Lemma count_remove1_last {A} (eqb : A -> A -> bool) (Hr : reflects eqb) x y l :
  count eqb y (remove1 eqb x (l ++ [x])) = count eqb y l.
Proof.
  rewrite (count_remove1 eqb Hr), (count_app eqb). cbn.
  destruct (eqb x y) eqn:H.
  - apply Hr in H. subst. rewrite (eqb_refl' eqb Hr). lia.
  - rewrite (eqb_sym' eqb Hr), H. lia.
Qed.
Lemma count_filter_last {A} (eqb : A -> A -> bool) (Hr : reflects eqb) x y l :
  count eqb x l = 0 ->
  count eqb y (filter (fun z => negb (eqb x z)) (l ++ [x])) = count eqb y l.
Proof.
  intros H0. rewrite (count_filter_ne eqb Hr), (count_app eqb). cbn.
  destruct (eqb x y) eqn:H.
  - apply Hr in H. subst. lia.
  - rewrite (eqb_sym' eqb Hr), H. lia.
Qed.

(* ---- hardref, backref *)
Lemma undo_hardref s r : Undoable E s (AHardref r).
Proof.
  unfold Undoable. cbn. eexists _, None, [OHardref r]. split; [reflexivity|]. split; [reflexivity|].
  eapply undo_seg with (seg := [OHardref r]); [reflexivity | |].
  - cbn. unfold bind, fr_remove. cbn. rewrite memN_refl_app. cbn. reflexivity.
  - constructor; cbn; intros; try reflexivity.
    apply (count_remove1_last N.eqb N_reflects).
Qed.
Lemma undo_backref s c p : Undoable E s (ABackref c p).
Proof.
  unfold Undoable. cbn. eexists _, None, [OBackref c p]. split; [reflexivity|]. split; [reflexivity|].
  eapply undo_seg with (seg := [OBackref c p]); [reflexivity | reflexivity |].
  constructor; cbn; intros; reflexivity.
Qed.

(* ---- add_blocker (incref) *)
Lemma undo_block s c b k : Inv s -> N.eqb k (bkey E b) = true -> Undoable E s (ABlock c b k).
Proof.
  intros HI Hk. apply N.eqb_eq in Hk.
  unfold Undoable. cbn [call]. unfold incref_apply, bind, plan_append, modify, gets. cbn.
  destruct (memN b (brc s)) eqn:Hin; cbn.
  - eexists _, (Some []), [OIncref c b k]. split; [reflexivity|]. split; [reflexivity|].
    eapply undo_seg with (seg := [OIncref c b k]); [reflexivity | |].
    + cbn. unfold bind, incref_revert, bind, rb_remove, rb_of. cbn.
      rewrite rb_of_last_nonnil, (existsb_last trip_eqb trip_reflects). cbn.
      unfold brc_remove. cbn. rewrite memN_refl_app. cbn. unfold gets. cbn.
      rewrite memN_remove1_last, Hin. cbn. reflexivity.
    + constructor; cbn; intros; try reflexivity.
      * apply (count_remove1_last trip_eqb trip_reflects).
      * apply (count_remove1_last N.eqb N_reflects).
  - eexists _, (Some _), [OIncref c b k]. split; [reflexivity|]. split; [reflexivity|].
    eapply undo_seg with (seg := [OIncref c b k]); [reflexivity | |].
    + cbn. unfold bind, incref_revert, bind, rb_remove, rb_of. cbn.
      rewrite rb_of_last_nonnil, (existsb_last trip_eqb trip_reflects). cbn.
      unfold brc_remove. cbn. rewrite memN_refl_app. cbn. unfold gets. cbn.
      rewrite memN_remove1_last, Hin. cbn. unfold remove_limiter. cbn.
      rewrite (existsb_last pair_eqb pair_reflects). cbn. reflexivity.
    + constructor; cbn; intros; try reflexivity.
      * apply (count_filter_last pair_eqb pair_reflects).
        rewrite (I_lims s HI), Hin. reflexivity.
      * apply (count_remove1_last trip_eqb trip_reflects).
      * apply (count_remove1_last N.eqb N_reflects).
Qed.

(* ---- the invariant is kept by the simple calls *)
Lemma same_slot_sym p q : same_slot E p q = same_slot E q p.
Proof. unfold same_slot. rewrite (N.eqb_sym (pkey E q)), (N.eqb_sym (pslot E q)). reflexivity. Qed.
Lemma filter_nil_false {A} (f : A -> bool) l x : filter f l = [] -> In x l -> f x = false.
Proof.
  induction l as [|y l IH]; cbn; [tauto|]. destruct (f y) eqn:Hy; [discriminate|].
  intros H [->|Hin]; auto.
Qed.
Lemma is_nil_eq {A} (l : list A) : is_nil l = true -> l = [].
Proof. destruct l; [reflexivity | discriminate]. Qed.

Lemma inv_add s c p f : Inv s -> wf_api_b E s (AAdd c p f) = true -> Inv (call_s E (AAdd c p f) s).
Proof.
  intros HI H. cbn [wf_api_b] in H. apply andb_true_iff in H. destruct H as [H Hf].
  apply andb_true_iff in H. destruct H as [H Hvf].
  apply andb_true_iff in H. destruct H as [Hb Hsl].
  apply negb_true_iff in Hsl. apply negb_true_iff in Hvf.
  unfold call_s. cbn [call]. unfold add_apply, bind, fill_slotting.
  set (l := map IB (check_limiters E p s) ++ map IP (slot_conflicts E p s)).
  destruct (negb (is_nil l) && negb f) eqn:Hcase.
  - apply andb_true_iff in Hcase. destruct Hcase as [H1 H2].
    apply negb_true_iff in H1. apply negb_true_iff in H2. rewrite H1, H2. cbn. exact HI.
  - assert (Hgo : is_nil l || f = true) by (destruct (is_nil l), f; cbn in *; congruence).
    rewrite Hgo. cbn.
    assert (Hnil : slot_conflicts E p s = []).
    { apply is_nil_eq. destruct f; cbn in Hf, Hgo; [exact Hf|].
      rewrite orb_false_r in Hgo. unfold l in Hgo. rewrite fill_nil in Hgo.
      apply andb_true_iff in Hgo. tauto. }
    assert (Hfree : forall q, count N.eqb q (slots s) <> 0 -> same_slot E p q = false).
    { intros q Hq. apply (count_In N.eqb N_reflects) in Hq.
      eapply filter_nil_false; [exact Hnil | exact Hq]. }
    destruct HI as [J1 J2 J3 J4 J5]. constructor; cbn; intros.
    + rewrite (count_app N.eqb). cbn. destruct (N.eqb p0 p) eqn:Hpp.
      * apply N.eqb_eq in Hpp. subst p0. rewrite (count_notmem _ _ Hsl). lia.
      * specialize (J1 p0). lia.
    + rewrite !(count_app N.eqb) in *. cbn in *.
      destruct (N.eqb p0 p) eqn:Hp0, (N.eqb q p) eqn:Hq0.
      * apply N.eqb_eq in Hp0, Hq0. congruence.
      * apply N.eqb_eq in Hp0. subst p0. rewrite Hfree in H1; [discriminate|]. lia.
      * apply N.eqb_eq in Hq0. subst q. rewrite same_slot_sym, Hfree in H1; [discriminate|]. lia.
      * apply J2; auto; lia.
    + apply J3.
    + apply J4.
    + eapply J5; eauto.
Qed.

Lemma inv_hardref s r : Inv s -> Inv (call_s E (AHardref r) s).
Proof. intros [J1 J2 J3 J4 J5]. constructor; cbn; auto. Qed.
Lemma inv_backref s c p : Inv s -> Inv (call_s E (ABackref c p) s).
Proof. intros [J1 J2 J3 J4 J5]. constructor; cbn; auto. Qed.

Lemma inv_block s c b k : Inv s -> N.eqb k (bkey E b) = true -> Inv (call_s E (ABlock c b k) s).
Proof.
  intros [J1 J2 J3 J4 J5] Hk. apply N.eqb_eq in Hk.
  unfold call_s. cbn [call]. unfold incref_apply, bind, plan_append, modify, gets. cbn.
  destruct (memN b (brc s)) eqn:Hin; cbn.
  - constructor; cbn; intros; auto.
    + unfold blockers_of. rewrite map_app, !(count_app N.eqb). cbn. rewrite J3. reflexivity.
    + rewrite J4, memN_app. destruct (N.eqb b0 b) eqn:Hb0; [|rewrite orb_false_r; reflexivity].
      apply N.eqb_eq in Hb0. subst b0. rewrite Hin. reflexivity.
    + rewrite (count_app trip_eqb) in H. cbn in H. unfold trip_eqb, pair_eqb in H. cbn in H.
      destruct (N.eqb c0 c && (N.eqb b0 b && N.eqb k0 k)) eqn:Hc.
      * apply andb_true_iff in Hc. destruct Hc as [_ Hc]. apply andb_true_iff in Hc.
        destruct Hc as [Hb0 Hk0]. apply N.eqb_eq in Hb0, Hk0. congruence.
      * eapply J5. rewrite Nat.add_0_r in H. exact H.
  - constructor; cbn; intros; auto.
    + unfold blockers_of. rewrite map_app, !(count_app N.eqb). cbn. rewrite J3. reflexivity.
    + rewrite (count_app pair_eqb), J4, memN_app. cbn. unfold pair_eqb. cbn.
      destruct (N.eqb b0 b) eqn:Hb0.
      * apply N.eqb_eq in Hb0. subst b0. rewrite Hin. cbn. rewrite andb_true_r, Hk.
        destruct (N.eqb k0 (bkey E b)); reflexivity.
      * rewrite andb_false_r, orb_false_r. lia.
    + rewrite (count_app trip_eqb) in H. cbn in H. unfold trip_eqb, pair_eqb in H. cbn in H.
      destruct (N.eqb c0 c && (N.eqb b0 b && N.eqb k0 k)) eqn:Hc.
      * apply andb_true_iff in Hc. destruct Hc as [_ Hc]. apply andb_true_iff in Hc.
        destruct Hc as [Hb0 Hk0]. apply N.eqb_eq in Hb0, Hk0. congruence.
      * eapply J5. rewrite Nat.add_0_r in H. exact H.
Qed.

End Invariant.

(* ------------------------------------------------------------------ compound operations *)
Lemma count_filter_last' {A} (eqb : A -> A -> bool) (Hr : reflects eqb) x y l :
  count eqb x l = 1 ->
  count eqb y (filter (fun z => negb (eqb x z)) l ++ [x]) = count eqb y l.
Proof.
  intros H1. rewrite (count_app eqb), (count_filter_ne eqb Hr). cbn.
  destruct (eqb x y) eqn:H.
  - apply Hr in H. subst. rewrite (eqb_refl' eqb Hr). lia.
  - rewrite (eqb_sym' eqb Hr), H. lia.
Qed.

Section Compound.
Variable E : env.

Lemma count_blockers_of e l :
  count trip_eqb e l <> 0 -> count N.eqb (fst (snd e)) (blockers_of l) <> 0.
Proof.
  intros H. apply (count_In trip_eqb trip_reflects) in H.
  apply (count_In N.eqb N_reflects). unfold blockers_of. apply in_map_iff. exists e. auto.
Qed.

Lemma rb_of_nonnil c bk s : count trip_eqb (c, bk) (rb s) <> 0 -> is_nil (rb_of c s) = false.
Proof.
  intros H. apply (count_In trip_eqb trip_reflects) in H. unfold rb_of.
  assert (Hin : In bk (map snd (filter (fun e : N * (N * N) => N.eqb (fst e) c) (rb s)))).
  { apply in_map_iff. exists (c, bk). split; [reflexivity|]. apply filter_In. split; [exact H|].
    cbn. apply N.eqb_refl. }
  destruct (map snd _); [destruct Hin | reflexivity].
Qed.

(* one decref: explicit effect *)
Lemma decref_apply_ok s c b k : Inv E s -> count trip_eqb (c, (b, k)) (rb s) <> 0 ->
  exists s', decref_apply c b k s = (s', Ok tt) /\
    plan s' = plan s ++ [ODecref c b k] /\ slots s' = slots s /\ pc s' = pc s /\ vf s' = vf s /\
    fr s' = fr s /\ rb s' = remove1 trip_eqb (c, (b, k)) (rb s) /\
    brc s' = remove1 N.eqb b (brc s) /\
    lims s' = (if memN b (remove1 N.eqb b (brc s)) then lims s
               else filter (fun kb => negb (pair_eqb (k, b) kb)) (lims s)).
Proof.
  intros HI Hin.
  assert (Hb : memN b (brc s) = true).
  { rewrite memN_count, (I_brc E s HI). pose proof (count_blockers_of _ _ Hin) as H. cbn in H.
    destruct (count N.eqb b (blockers_of (rb s))); [contradiction | reflexivity]. }
  assert (Hk : k = bkey E b) by (eapply (I_rbkey E s HI); eauto).
  unfold decref_apply, bind, plan_append, modify, brc_remove, gets. cbn. rewrite Hb. cbn.
  destruct (memN b (remove1 N.eqb b (brc s))) eqn:Hb'; cbn.
  - unfold rb_remove. cbn. unfold rb_of. cbn. fold (rb_of c s).
    rewrite (rb_of_nonnil c (b, k) s Hin).
    rewrite (existsb_count trip_eqb). destruct (count trip_eqb (c, (b, k)) (rb s)) eqn:Hc; [contradiction|].
    cbn. eexists. split; [reflexivity|]. cbn. repeat split; reflexivity.
  - unfold remove_limiter. cbn.
    assert (Hl : existsb (pair_eqb (k, b)) (lims s) = true).
    { rewrite (existsb_count pair_eqb), (I_lims E s HI), Hb, Hk, N.eqb_refl. reflexivity. }
    rewrite Hl. cbn. unfold rb_remove. cbn. unfold rb_of. cbn. fold (rb_of c s).
    rewrite (rb_of_nonnil c (b, k) s Hin).
    rewrite (existsb_count trip_eqb). destruct (count trip_eqb (c, (b, k)) (rb s)) eqn:Hc; [contradiction|].
    cbn. eexists. split; [reflexivity|]. cbn. repeat split; reflexivity.
Qed.

Lemma memN_remove1_other b b0 l : N.eqb b b0 = false -> memN b0 (remove1 N.eqb b l) = memN b0 l.
Proof. intros H. rewrite !memN_count, (count_remove1 N.eqb N_reflects), H. reflexivity. Qed.

Lemma inv_decref_fields s s' c b k : Inv E s -> count trip_eqb (c, (b, k)) (rb s) <> 0 ->
  slots s' = slots s -> vf s' = vf s -> rb s' = remove1 trip_eqb (c, (b, k)) (rb s) ->
  brc s' = remove1 N.eqb b (brc s) ->
  lims s' = (if memN b (remove1 N.eqb b (brc s)) then lims s
             else filter (fun kb => negb (pair_eqb (k, b) kb)) (lims s)) ->
  Inv E s'.
Proof.
  intros HI Hin Hsl Hvf Hrb Hbrc Hli. pose proof HI as [J1 J2 J3 J4 J5].
  assert (Hk : k = bkey E b) by (eapply J5; eauto).
  constructor; intros.
  - rewrite Hsl. apply J1.
  - rewrite Hsl in *. apply J2; assumption.
  - rewrite Hbrc, Hrb, (count_remove1 N.eqb N_reflects). unfold blockers_of.
    pose proof (count_map_remove1 trip_eqb trip_reflects (fun e => fst (snd e)) (c, (b, k)) b0 (rb s) Hin) as Hm.
    cbn in Hm. specialize (J3 b0). unfold blockers_of in J3. rewrite (N.eqb_sym b0 b) in Hm.
    destruct (N.eqb b b0); lia.
  - rewrite Hli, Hbrc.
    destruct (N.eqb b b0) eqn:Hbb.
    + apply N.eqb_eq in Hbb. subst b0.
      destruct (memN b (remove1 N.eqb b (brc s))) eqn:Hb'.
      * rewrite J4. assert (Hb : memN b (brc s) = true).
        { rewrite memN_count, J3. pose proof (count_blockers_of _ _ Hin) as H. cbn in H.
          destruct (count N.eqb b (blockers_of (rb s))); [contradiction | reflexivity]. }
        rewrite Hb. reflexivity.
      * cbn. rewrite (count_filter_ne pair_eqb pair_reflects). unfold pair_eqb at 1. cbn.
        rewrite N.eqb_refl, andb_true_r. destruct (N.eqb k k0) eqn:Hkk; [reflexivity|].
        rewrite J4. rewrite <- Hk. rewrite (N.eqb_sym k0 k), Hkk, andb_false_r. reflexivity.
    + rewrite (memN_remove1_other b b0 _ Hbb).
      destruct (memN b (remove1 N.eqb b (brc s))); [apply J4|].
      rewrite (count_filter_ne pair_eqb pair_reflects). unfold pair_eqb at 1. cbn.
      rewrite Hbb, andb_false_r. apply J4.
  - rewrite Hrb, (count_remove1 trip_eqb trip_reflects) in H.
    eapply J5. destruct (trip_eqb (c, (b, k)) (c0, (b0, k0))); [|exact H].
    intros H0. rewrite H0 in H. cbn in H. contradiction.
Qed.

(* reverting the decref restores the observables *)
Lemma decref_revert_ok s s' c b k : Inv E s -> count trip_eqb (c, (b, k)) (rb s) <> 0 ->
  slots s' = slots s -> pc s' = pc s -> vf s' = vf s -> fr s' = fr s ->
  rb s' = remove1 trip_eqb (c, (b, k)) (rb s) -> brc s' = remove1 N.eqb b (brc s) ->
  lims s' = (if memN b (remove1 N.eqb b (brc s)) then lims s
             else filter (fun kb => negb (pair_eqb (k, b) kb)) (lims s)) ->
  exists s'', decref_revert E c b k s' = (s'', Ok tt) /\ obs_eq s'' s.
Proof.
  intros HI Hin Hsl Hpc Hvf Hfr Hrb Hbrc Hli. pose proof HI as [J1 J2 J3 J4 J5].
  assert (Hk : k = bkey E b) by (eapply J5; eauto).
  assert (Hb : memN b (brc s) = true).
  { rewrite memN_count, J3. pose proof (count_blockers_of _ _ Hin) as H. cbn in H.
    destruct (count N.eqb b (blockers_of (rb s))); [contradiction | reflexivity]. }
  assert (Hcb : count N.eqb b (brc s) <> 0) by (apply count_mem; exact Hb).
  unfold decref_revert, bind, rb_append, modify, gets. cbn. rewrite Hbrc.
  destruct (memN b (remove1 N.eqb b (brc s))) eqn:Hb'; cbn.
  - eexists. split; [reflexivity|]. constructor; cbn; intros.
    + rewrite Hsl. reflexivity.
    + rewrite Hli. reflexivity.
    + rewrite Hpc. reflexivity.
    + rewrite Hrb, (count_app trip_eqb), (count_remove1 trip_eqb trip_reflects). cbn.
      destruct (trip_eqb (c, (b, k)) e) eqn:He.
      * apply trip_reflects in He. subst e. rewrite (eqb_refl' trip_eqb trip_reflects). lia.
      * rewrite (eqb_sym' trip_eqb trip_reflects), He. lia.
    + rewrite Hbrc, (count_app N.eqb), (count_remove1 N.eqb N_reflects). cbn.
      destruct (N.eqb b b0) eqn:He.
      * apply N.eqb_eq in He. subst b0. rewrite N.eqb_refl. lia.
      * rewrite N.eqb_sym, He. lia.
    + rewrite Hvf. reflexivity.
    + rewrite Hfr. reflexivity.
  - eexists. split; [reflexivity|]. constructor; cbn; intros.
    + rewrite Hsl. reflexivity.
    + rewrite Hli. apply (count_filter_last' pair_eqb pair_reflects).
      rewrite J4, Hb, Hk, N.eqb_refl. reflexivity.
    + rewrite Hpc. reflexivity.
    + rewrite Hrb, (count_app trip_eqb), (count_remove1 trip_eqb trip_reflects). cbn.
      destruct (trip_eqb (c, (b, k)) e) eqn:He.
      * apply trip_reflects in He. subst e. rewrite (eqb_refl' trip_eqb trip_reflects). lia.
      * rewrite (eqb_sym' trip_eqb trip_reflects), He. lia.
    + rewrite Hbrc, (count_app N.eqb), (count_remove1 N.eqb N_reflects). cbn.
      destruct (N.eqb b b0) eqn:He.
      * apply N.eqb_eq in He. subst b0. rewrite N.eqb_refl. lia.
      * rewrite N.eqb_sym, He. lia.
    + rewrite Hvf. reflexivity.
    + rewrite Hfr. reflexivity.
Qed.

Definition dops (c : N) (l : list (N * N)) : list op := map (fun bk => ODecref c (fst bk) (snd bk)) l.

Lemma decref_all_ok c : forall l s, Inv E s ->
  (forall e, count pair_eqb e l <= count trip_eqb (c, e) (rb s)) ->
  exists s1, decref_all c l s = (s1, Ok tt) /\ Inv E s1 /\
    plan s1 = plan s ++ dops c l /\
    slots s1 = slots s /\ pc s1 = pc s /\ vf s1 = vf s /\ fr s1 = fr s /\
    (forall t, obs_eq t s1 -> exists t', undo_seq E (rev (dops c l)) t = (t', Ok tt) /\ obs_eq t' s).
Proof.
  induction l as [|[b k] r IH]; intros s HI Hc.
  - exists s. cbn. split; [reflexivity|]. split; [exact HI|]. rewrite app_nil_r.
    repeat split; try reflexivity. intros t Ht. exists t. split; [reflexivity | exact Ht].
  - assert (Hin : count trip_eqb (c, (b, k)) (rb s) <> 0).
    { specialize (Hc (b, k)). cbn in Hc. rewrite (eqb_refl' pair_eqb pair_reflects) in Hc. lia. }
    destruct (decref_apply_ok s c b k HI Hin) as (s' & Hap & Hpl & Hsl & Hpc & Hvf & Hfr & Hrb & Hbrc & Hli).
    pose proof (inv_decref_fields s s' c b k HI Hin Hsl Hvf Hrb Hbrc Hli) as HI'.
    assert (Hc' : forall e, count pair_eqb e r <= count trip_eqb (c, e) (rb s')).
    { intros e. rewrite Hrb, (count_remove1 trip_eqb trip_reflects). specialize (Hc e). cbn in Hc.
      unfold trip_eqb at 1. cbn. rewrite N.eqb_refl. cbn.
      rewrite (eqb_sym' pair_eqb pair_reflects (b, k) e). destruct (pair_eqb e (b, k)); lia. }
    destruct (IH s' HI' Hc') as (s1 & Hall & HI1 & Hpl1 & Hsl1 & Hpc1 & Hvf1 & Hfr1 & Hundo).
    exists s1. cbn [decref_all]. unfold bind. rewrite Hap. split; [exact Hall|]. split; [exact HI1|].
    split; [rewrite Hpl1, Hpl, <- app_assoc; reflexivity|].
    split; [congruence|]. split; [congruence|]. split; [congruence|]. split; [congruence|].
    intros t Ht. cbn [dops map rev]. fold (dops c r). rewrite undo_seq_app.
    destruct (Hundo t Ht) as (t'' & Hu & Ho). rewrite Hu. cbn [undo_seq revert fst snd]. unfold bind.
    destruct (decref_revert_ok s s' c b k HI Hin Hsl Hpc Hvf Hfr Hrb Hbrc Hli) as (s'' & Hrv & Hos).
    destruct (decref_revert_rel E c b k t'' s' Ho) as [H1 H2]. rewrite Hrv in H1, H2.
    destruct (decref_revert E c b k t'') as [t3 [u|e]]; cbn [fst snd Rres] in H1, H2; [|contradiction].
    exists t3. split; [destruct u; reflexivity|]. eapply obs_trans; eauto.
Qed.

(* decrefs do not look at the slot table *)
Lemma decref_apply_slots c b k v s :
  decref_apply c b k (set_slots v s)
  = (set_slots v (fst (decref_apply c b k s)), snd (decref_apply c b k s)).
Proof.
  unfold decref_apply, bind, plan_append, modify, brc_remove, gets, when, remove_limiter, rb_remove, rb_of, ret.
  cbn. destruct (memN b (brc s)); cbn; [|reflexivity].
  destruct (memN b (remove1 N.eqb b (brc s))); cbn.
  - destruct (is_nil _); cbn; [reflexivity|]. destruct (existsb _ (rb s)); reflexivity.
  - destruct (existsb (pair_eqb (k, b)) (lims s)); cbn; [|reflexivity].
    destruct (is_nil _); cbn; [reflexivity|]. destruct (existsb _ (rb s)); reflexivity.
Qed.
Lemma decref_all_slots c v : forall l s,
  decref_all c l (set_slots v s) = (set_slots v (fst (decref_all c l s)), snd (decref_all c l s)).
Proof.
  induction l as [|[b k] r IH]; intros s; cbn [decref_all]; [reflexivity|].
  unfold bind. rewrite decref_apply_slots. destruct (decref_apply c b k s) as [s' [u|e]]; cbn [fst snd].
  - apply IH.
  - reflexivity.
Qed.

Lemma count_rb_of c e s : count pair_eqb e (rb_of c s) = count trip_eqb (c, e) (rb s).
Proof.
  unfold rb_of. induction (rb s) as [|[c0 e0] l IH]; cbn; [reflexivity|].
  unfold trip_eqb at 1. cbn. rewrite (N.eqb_sym c c0). destruct (N.eqb c0 c); cbn; [rewrite IH; reflexivity | exact IH].
Qed.

Lemma rb_of_set_slots c v s : rb_of c (set_slots v s) = rb_of c s.
Proof. reflexivity. Qed.

Lemma bind_ok {A B} (m : M A) (f : A -> M B) s s' a : m s = (s', Ok a) -> bind m f s = f a s'.
Proof. intros H. unfold bind. rewrite H. reflexivity. Qed.

(* ---- remove_op *)
Lemma wf_remove_facts s c p : Inv E s -> wf_api_b E s (ARemove c p) = true ->
  memN p (slots s) = true /\ lookup (peq E p) (pc s) = Some c /\ memN (peq E p) (vf s) = false /\
  count N.eqb p (slots s) = 1.
Proof.
  intros HI H. cbn [wf_api_b] in H. apply andb_true_iff in H. destruct H as [H Hvf].
  apply andb_true_iff in H. destruct H as [Hsl Hpc]. apply negb_true_iff in Hvf.
  unfold opt_eqb in Hpc. destruct (lookup (peq E p) (pc s)) as [c0|] eqn:Hlk; [|discriminate].
  apply N.eqb_eq in Hpc. subst c0. repeat split; auto.
  pose proof (I_nodup E s HI p). pose proof (count_mem _ _ Hsl). lia.
Qed.

Definition remove_result (s : state) (c p : N) (sb : state) : state :=
  set_vf (vf s ++ [peq E p]) (set_plan (plan sb ++ [ORemove c p])
    (set_pc (filter (fun qc : N * N => negb (N.eqb (fst qc) (peq E p))) (pc s))
       (set_slots (filter (fun x => negb (N.eqb x p)) (slots s)) sb))).

Lemma undo_remove s c p : Inv E s -> wf_api_b E s (ARemove c p) = true -> Undoable E s (ARemove c p).
Proof.
  intros HI H. destruct (wf_remove_facts s c p HI H) as (Hsl & Hlk & Hvf & Hc1).
  set (v := filter (fun x => negb (N.eqb x p)) (slots s)).
  assert (Hl : forall e, count pair_eqb e (rb_of c s) <= count trip_eqb (c, e) (rb s))
    by (intros e; rewrite count_rb_of; lia).
  destruct (decref_all_ok c (rb_of c s) s HI Hl) as (sb & Hall & HIb & Hplb & Hslb & Hpcb & Hvfb & Hfrb & Hundo).
  set (X0 := remove_result s c p sb).
  assert (Hr : exists T1, (fill_slotting E p true;;; pc_set (peq E p) c;;; vf_remove (peq E p)) X0 = (T1, Ok tt) /\
               obs_eq T1 sb).
  { eexists. split.
    - unfold bind, fill_slotting. cbn. rewrite orb_true_r. cbn. unfold vf_remove. cbn.
      rewrite memN_refl_app. reflexivity.
    - constructor; cbn; intros; try reflexivity.
      + rewrite (count_app N.eqb). rewrite (count_filter N.eqb N_reflects), Hslb. cbn.
        destruct (N.eqb p0 p) eqn:Hpp; cbn; [apply N.eqb_eq in Hpp; subst; lia | lia].
      + rewrite Hpcb. destruct (N.eqb p0 (peq E p)) eqn:Hpp; cbn.
        * apply N.eqb_eq in Hpp. subst. symmetry. exact Hlk.
        * rewrite !lookup_filter_ne, Hpp. reflexivity.
      + rewrite memN_filter_ne, memN_app, Hvfb. destruct (N.eqb p0 (peq E p)) eqn:Hpp; cbn.
        * apply N.eqb_eq in Hpp. subst. rewrite andb_false_r. symmetry. exact Hvf.
        * rewrite orb_false_r, andb_true_r. reflexivity. }
  destruct Hr as (T1 & Hr & HoT).
  destruct (Hundo T1 HoT) as (t' & Hu & Ho).
  exists X0, None, (dops c (rb_of c s) ++ [ORemove c p]). split; [|split].
  - cbn [call]. unfold remove_apply, bind, remove_slotting. rewrite Hsl.
    unfold remove_pkg_blockers. rewrite rb_of_set_slots, decref_all_slots, Hall. cbn [fst snd].
    unfold pc_del. cbn [pc set_slots]. rewrite Hpcb, Hlk. cbn.
    rewrite Hvfb, Hvf. cbn. reflexivity.
  - cbn. rewrite Hplb, <- app_assoc. reflexivity.
  - eapply undo_seg with (seg := dops c (rb_of c s) ++ [ORemove c p]) (s2 := t').
    + cbn. rewrite Hplb, <- app_assoc. reflexivity.
    + rewrite rev_app_distr. cbn [rev app undo_seq revert].
      rewrite (bind_ok _ _ _ _ _ Hr). exact Hu.
    + exact Ho.
Qed.

Lemma call_remove_state2 s c p : Inv E s -> wf_api_b E s (ARemove c p) = true ->
  exists sb, decref_all c (rb_of c s) s = (sb, Ok tt) /\ Inv E sb /\
    plan sb = plan s ++ dops c (rb_of c s) /\ slots sb = slots s /\ pc sb = pc s /\ vf sb = vf s /\ fr sb = fr s /\
    call_s E (ARemove c p) s = remove_result s c p sb.
Proof.
  intros HI H. destruct (wf_remove_facts s c p HI H) as (Hsl & Hlk & Hvf & Hc1).
  assert (Hl : forall e, count pair_eqb e (rb_of c s) <= count trip_eqb (c, e) (rb s))
    by (intros e; rewrite count_rb_of; lia).
  destruct (decref_all_ok c (rb_of c s) s HI Hl) as (sb & Hall & HIb & Hplb & Hslb & Hpcb & Hvfb & Hfrb & Hundo).
  exists sb. repeat (split; [assumption|]).
  unfold call_s. cbn [call]. unfold remove_apply, bind, remove_slotting. rewrite Hsl.
  unfold remove_pkg_blockers. rewrite rb_of_set_slots, decref_all_slots, Hall. cbn [fst snd].
  unfold pc_del. cbn [pc set_slots]. rewrite Hpcb, Hlk. cbn.
  rewrite Hvfb, Hvf. cbn. reflexivity.
Qed.

Lemma inv_remove s c p : Inv E s -> wf_api_b E s (ARemove c p) = true -> Inv E (call_s E (ARemove c p) s).
Proof.
  intros HI H. destruct (call_remove_state2 s c p HI H) as (sb & _ & HIb & _ & Hslb & _ & _ & _ & ->).
  destruct HIb as [J1 J2 J3 J4 J5]. rewrite Hslb in *.
  unfold remove_result. constructor; cbn; intros; auto.
  - rewrite (count_filter N.eqb N_reflects). specialize (J1 p0). destruct (negb (N.eqb p0 p)); lia.
  - rewrite !(count_filter N.eqb N_reflects) in *.
    destruct (negb (N.eqb p0 p)), (negb (N.eqb q p)); try contradiction. apply J2; assumption.
  - eapply J5; eauto.
Qed.

(* ---- a bare decref *)
Lemma undo_decref s c b k : Inv E s -> wf_api_b E s (ADecref c b k) = true -> Undoable E s (ADecref c b k).
Proof.
  intros HI H. cbn [wf_api_b] in H. apply andb_true_iff in H. destruct H as [_ Hex].
  assert (Hin : count trip_eqb (c, (b, k)) (rb s) <> 0).
  { rewrite (existsb_count trip_eqb) in Hex. destruct (count trip_eqb (c, (b, k)) (rb s)); [discriminate | lia]. }
  destruct (decref_apply_ok s c b k HI Hin) as (s' & Hap & Hpl & Hsl & Hpc & Hvf & Hfr & Hrb & Hbrc & Hli).
  destruct (decref_revert_ok s s' c b k HI Hin Hsl Hpc Hvf Hfr Hrb Hbrc Hli) as (s'' & Hrv & Hos).
  exists s', None, [ODecref c b k]. split; [|split; [exact Hpl|]].
  - cbn [call]. rewrite (bind_ok _ _ _ _ _ Hap). reflexivity.
  - eapply undo_seg with (seg := [ODecref c b k]) (s2 := s''); [exact Hpl | | exact Hos].
    cbn [rev app undo_seq revert]. rewrite (bind_ok _ _ _ _ _ Hrv). reflexivity.
Qed.
Lemma inv_decref s c b k : Inv E s -> wf_api_b E s (ADecref c b k) = true -> Inv E (call_s E (ADecref c b k) s).
Proof.
  intros HI H. cbn [wf_api_b] in H. apply andb_true_iff in H. destruct H as [_ Hex].
  assert (Hin : count trip_eqb (c, (b, k)) (rb s) <> 0).
  { rewrite (existsb_count trip_eqb) in Hex. destruct (count trip_eqb (c, (b, k)) (rb s)); [discriminate | lia]. }
  destruct (decref_apply_ok s c b k HI Hin) as (s' & Hap & Hpl & Hsl & Hpc & Hvf & Hfr & Hrb & Hbrc & Hli).
  unfold call_s. cbn [call]. rewrite (bind_ok _ _ _ _ _ Hap). cbn.
  eapply inv_decref_fields; eauto.
Qed.

(* which limiters the nested decrefs may drop *)
Lemma filter_filter {A} (f g : A -> bool) l : filter g (filter f l) = filter (fun x => f x && g x) l.
Proof. induction l as [|x l IH]; cbn; [reflexivity|]. destruct (f x); cbn; [destruct (g x); congruence | exact IH]. Qed.
Lemma filter_true {A} (l : list A) : filter (fun _ => true) l = l.
Proof. induction l; cbn; congruence. Qed.

Lemma decref_all_lims c : forall l s, Inv E s ->
  (forall e, count pair_eqb e l <= count trip_eqb (c, e) (rb s)) ->
  exists h, lims (fst (decref_all c l s)) = filter h (lims s) /\
            forall kb, h kb = false -> In (snd kb, fst kb) l.
Proof.
  induction l as [|[b k] r IH]; intros s HI Hc.
  - exists (fun _ => true). cbn. rewrite filter_true. split; [reflexivity | discriminate].
  - assert (Hin : count trip_eqb (c, (b, k)) (rb s) <> 0).
    { specialize (Hc (b, k)). cbn in Hc. rewrite (eqb_refl' pair_eqb pair_reflects) in Hc. lia. }
    destruct (decref_apply_ok s c b k HI Hin) as (s' & Hap & Hpl & Hsl & Hpc & Hvf & Hfr & Hrb & Hbrc & Hli).
    pose proof (inv_decref_fields s s' c b k HI Hin Hsl Hvf Hrb Hbrc Hli) as HI'.
    assert (Hc' : forall e, count pair_eqb e r <= count trip_eqb (c, e) (rb s')).
    { intros e. rewrite Hrb, (count_remove1 trip_eqb trip_reflects). specialize (Hc e). cbn in Hc.
      unfold trip_eqb at 1. cbn. rewrite N.eqb_refl. cbn.
      rewrite (eqb_sym' pair_eqb pair_reflects (b, k) e). destruct (pair_eqb e (b, k)); lia. }
    destruct (IH s' HI' Hc') as (h & Hh & Hhf).
    cbn [decref_all]. unfold bind. rewrite Hap. rewrite Hh, Hli.
    destruct (memN b (remove1 N.eqb b (brc s))).
    + exists h. split; [reflexivity|]. intros kb Hkb. right. apply Hhf. exact Hkb.
    + exists (fun kb => negb (pair_eqb (k, b) kb) && h kb). split; [apply filter_filter|].
      intros [k0 b0] Hkb. apply andb_false_iff in Hkb. destruct Hkb as [Hkb|Hkb].
      * apply negb_false_iff in Hkb. apply pair_reflects in Hkb. injection Hkb as <- <-. left. reflexivity.
      * right. apply Hhf. exact Hkb.
Qed.

Lemma filter_sub_nil {A} (g h : A -> bool) l : filter g l = [] -> filter g (filter h l) = [].
Proof.
  induction l as [|x l IH]; cbn; [reflexivity|]. destruct (g x) eqn:Hg; [discriminate|].
  intros H. destruct (h x); cbn; [rewrite Hg|]; apply IH; exact H.
Qed.
Lemma filter_same {A} (g h : A -> bool) l :
  (forall x, In x l -> h x = false -> g x = false) -> filter g (filter h l) = filter g l.
Proof.
  induction l as [|x l IH]; cbn; [reflexivity|]. intros H.
  destruct (h x) eqn:Hh; cbn.
  - destruct (g x); [f_equal|]; apply IH; intros; apply H; auto.
  - rewrite (H x (or_introl eq_refl) Hh). apply IH. intros; apply H; auto.
Qed.

(* ---- replace_op *)
Lemma find_some_in {A} (f : A -> bool) l x : find f l = Some x -> In x l /\ f x = true.
Proof. apply find_some. Qed.

Record ReplaceFacts (s : state) (c p : N) (old oc : N) (sb : state) : Prop := {
  rf_old_in : count N.eqb old (slots s) = 1;
  rf_same : same_slot E p old = true;
  rf_p_out : count N.eqb p (slots s) = 0;
  rf_p_unbound : N.eqb (peq E p) (peq E old) = false -> lookup (peq E p) (pc s) = None;
  rf_p_vf : memN (peq E p) (vf s) = false;
  rf_old_vf : memN (peq E old) (vf s) = false;
  rf_oc : lookup (peq E old) (pc s) = Some oc;
  rf_ne : N.eqb p old = false;
  rf_inv : Inv E sb;
  rf_plan : plan sb = plan s ++ dops oc (rb_of oc s);
  rf_slots : slots sb = slots s; rf_pc : pc sb = pc s; rf_vf : vf sb = vf s; rf_fr : fr sb = fr s;
  rf_all : decref_all oc (rb_of oc s) s = (sb, Ok tt);
  rf_undo : forall t, obs_eq t sb -> exists t', undo_seq E (rev (dops oc (rb_of oc s))) t = (t', Ok tt) /\ obs_eq t' s;
  rf_lim_p : check_limiters E p sb = [];
  rf_lim_old : check_limiters E old sb = check_limiters E old s;
  rf_others : forall x, count N.eqb x (slots s) <> 0 -> N.eqb x old = false -> same_slot E p x = false;
  rf_others_old : forall x, count N.eqb x (slots s) <> 0 -> N.eqb x old = false -> same_slot E old x = false }.

Lemma replace_facts s c p : Inv E s -> wf_api_b E s (AReplace c p false) = true ->
  exists old oc sb, get_conflicting_slot E p s = Some old /\ ReplaceFacts s c p old oc sb.
Proof.
  intros HI H. cbn [wf_api_b negb andb] in H.
  apply andb_true_iff in H. destruct H as [H Hm].
  apply andb_true_iff in H. destruct H as [H Hlim].
  apply andb_true_iff in H. destruct H as [Hsl Hvf].
  apply negb_true_iff in Hsl. apply negb_true_iff in Hvf.
  destruct (get_conflicting_slot E p s) as [old|] eqn:Hold; [|discriminate].
  apply andb_true_iff in Hm. destruct Hm as [Hm Hm3].
  apply andb_true_iff in Hm. destruct Hm as [Hb Hovf]. apply negb_true_iff in Hovf.
  destruct (lookup (peq E old) (pc s)) as [oc|] eqn:Hoc; [|discriminate]. rename Hm3 into Hm.
  unfold get_conflicting_slot in Hold. apply find_some_in in Hold. destruct Hold as [Hin Hsame].
  assert (Hcold : count N.eqb old (slots s) = 1).
  { pose proof (I_nodup E s HI old). apply (count_In N.eqb N_reflects) in Hin. lia. }
  assert (Hne : N.eqb p old = false).
  { destruct (N.eqb p old) eqn:Hpo; [|reflexivity]. apply N.eqb_eq in Hpo. subst old.
    rewrite (count_notmem _ _ Hsl) in Hcold. discriminate. }
  assert (Hl : forall e, count pair_eqb e (rb_of oc s) <= count trip_eqb (oc, e) (rb s))
    by (intros e; rewrite count_rb_of; lia).
  destruct (decref_all_ok oc (rb_of oc s) s HI Hl) as (sb & Hall & HIb & Hplb & Hslb & Hpcb & Hvfb & Hfrb & Hundo).
  destruct (decref_all_lims oc (rb_of oc s) s HI Hl) as (h & Hh & Hhf). rewrite Hall in Hh. cbn in Hh.
  exists old, oc, sb. split; [reflexivity|].
  assert (Hothers_old : forall x, count N.eqb x (slots s) <> 0 -> N.eqb x old = false -> same_slot E old x = false).
  { intros x Hx Hxo. destruct (same_slot E old x) eqn:Hs; [|reflexivity].
    assert (old = x) by (apply (I_slot E s HI); [lia | exact Hx | exact Hs]).
    subst x. rewrite N.eqb_refl in Hxo. discriminate. }
  constructor; auto.
  - apply count_notmem. exact Hsl.
  - intros Hpe. rewrite Hpe, orb_false_r in Hb. apply negb_true_iff in Hb. unfold bound in Hb.
    destruct (lookup (peq E p) (pc s)); [discriminate | reflexivity].
  - unfold check_limiters. rewrite Hh. apply is_nil_eq in Hlim. unfold check_limiters in Hlim.
    apply map_eq_nil in Hlim. rewrite filter_sub_nil; [reflexivity | exact Hlim].
  - unfold check_limiters. rewrite Hh. f_equal. apply filter_same.
    intros [k0 b0] _ Hk0. apply Hhf in Hk0. cbn in Hk0. cbn.
    rewrite forallb_forall in Hm. specialize (Hm _ Hk0). cbn in Hm. apply negb_true_iff in Hm.
    rewrite Hm, andb_false_r. reflexivity.
  - intros x Hx Hxo. destruct (same_slot E p x) eqn:Hs; [|reflexivity].
    rewrite <- (Hothers_old x Hx Hxo). unfold same_slot in *.
    apply andb_true_iff in Hs. destruct Hs as [H1 H2]. apply andb_true_iff in Hsame. destruct Hsame as [H3 H4].
    apply N.eqb_eq in H1, H2, H3, H4. rewrite H1, H2, H3, H4, !N.eqb_refl. reflexivity.
Qed.

Lemma filter_all_false {A} (f : A -> bool) l : (forall x, In x l -> f x = false) -> filter f l = [].
Proof.
  induction l as [|x l IH]; cbn; [reflexivity|]. intros H. rewrite (H x (or_introl eq_refl)).
  apply IH. intros; apply H; auto.
Qed.
Lemma check_limiters_set_slots q v s : check_limiters E q (set_slots v s) = check_limiters E q s.
Proof. reflexivity. Qed.
Lemma In_filter_ne x old l : In x (filter (fun z => negb (N.eqb z old)) l) -> In x l /\ N.eqb x old = false.
Proof. intros H. apply filter_In in H. destruct H as [H1 H2]. apply negb_true_iff in H2. auto. Qed.

Definition replace_result (s : state) (c p old oc : N) (sb : state) : state :=
  set_vf (vf s ++ [peq E old])
    (set_plan (plan sb ++ [OReplace c p false old oc (negb (is_nil (check_limiters E old s)))])
       (set_pc ((peq E p, c) :: filter (fun qc : N * N => negb (N.eqb (fst qc) (peq E p)))
                            (filter (fun qc : N * N => negb (N.eqb (fst qc) (peq E old))) (pc s)))
          (set_slots (filter (fun z => negb (N.eqb z old)) (slots s) ++ [p]) sb))).

Lemma call_replace s c p old oc sb :
  get_conflicting_slot E p s = Some old -> ReplaceFacts s c p old oc sb ->
  call E (AReplace c p false) s = (replace_result s c p old oc sb, Ok None).
Proof.
  intros Hold F. destruct F.
  assert (Hmem : memN old (slots s) = true).
  { rewrite memN_count, rf_old_in0. reflexivity. }
  cbn [call]. unfold replace_apply, bind, gets. rewrite Hold. cbn [fst snd].
  unfold remove_slotting. rewrite Hmem. cbn [pc set_slots]. rewrite rf_oc0.
  unfold remove_pkg_blockers. rewrite rb_of_set_slots, decref_all_slots, rf_all0. cbn [fst snd].
  unfold fill_slotting. rewrite check_limiters_set_slots, rf_lim_p0.
  assert (Hsc : slot_conflicts E p (set_slots (filter (fun x => negb (N.eqb x old)) (slots s)) sb) = []).
  { unfold slot_conflicts. cbn [slots set_slots]. apply filter_all_false. intros x Hx.
    apply In_filter_ne in Hx. destruct Hx as [Hx1 Hx2]. apply rf_others0; [|exact Hx2].
    apply (count_In N.eqb N_reflects). exact Hx1. }
  rewrite Hsc. cbn [map app is_nil negb orb]. cbn iota.
  unfold pc_del. cbn [pc set_slots]. rewrite rf_pc0, rf_oc0. cbn.
  rewrite rf_vf0, rf_old_vf0. cbn. unfold replace_result. reflexivity.
Qed.

Lemma undo_replace s c p f : Inv E s -> wf_api_b E s (AReplace c p f) = true -> Undoable E s (AReplace c p f).
Proof.
  intros HI H. assert (f = false) by (destruct f; [discriminate | reflexivity]). subst f.
  destruct (replace_facts s c p HI H) as (old & oc & sb & Hold & F).
  pose proof (call_replace s c p old oc sb Hold F) as Hcall. destruct F.
  set (fo := negb (is_nil (check_limiters E old s))) in *.
  set (v := filter (fun z => negb (N.eqb z old)) (slots s)).
  assert (Hr : exists T1, revert E (OReplace c p false old oc fo) (replace_result s c p old oc sb) = (T1, Ok tt)
               /\ obs_eq T1 sb).
  { cbn [revert]. unfold bind, remove_slotting, replace_result. cbn [slots set_vf set_plan set_pc set_slots].
    rewrite memN_refl_app. unfold fill_slotting.
    match goal with |- context [slot_conflicts E old ?X] =>
      assert (Hsc : slot_conflicts E old X = []) end.
    { unfold slot_conflicts. cbn [slots set_slots]. apply filter_all_false. intros x Hx.
      apply filter_In in Hx. destruct Hx as [Hx Hxp]. apply negb_true_iff in Hxp.
      apply in_app_or in Hx. destruct Hx as [Hx|[Hx|[]]].
      - apply In_filter_ne in Hx. destruct Hx as [Hx1 Hx2]. apply rf_others_old0; [|exact Hx2].
        apply (count_In N.eqb N_reflects). exact Hx1.
      - subst x. rewrite N.eqb_refl in Hxp. discriminate. }
    rewrite Hsc.
    match goal with |- context [check_limiters E old ?X] =>
      change (check_limiters E old X) with (check_limiters E old sb) end.
    rewrite rf_lim_old0. rewrite app_nil_r, is_nil_map.
    fold fo. assert (Hfo : is_nil (check_limiters E old s) = negb fo) by (unfold fo; rewrite negb_involutive; reflexivity).
    rewrite Hfo. replace (negb fo || fo) with true by (destruct fo; reflexivity).
    rewrite eqb_reflx.
    unfold pc_del. cbn. rewrite N.eqb_refl. cbn. unfold vf_remove. cbn. rewrite memN_refl_app.
    eexists. split; [reflexivity|].
    constructor; cbn; intros; try reflexivity.
    - rewrite (count_app N.eqb), (count_filter N.eqb N_reflects), (count_app N.eqb). fold v. cbn.
      unfold v. rewrite (count_filter N.eqb N_reflects), rf_slots0.
      destruct (N.eqb p0 p) eqn:Hpp; cbn.
      + apply N.eqb_eq in Hpp. subst p0. rewrite rf_ne0, rf_p_out0. reflexivity.
      + destruct (N.eqb p0 old) eqn:Hpo; cbn; [apply N.eqb_eq in Hpo; subst; lia | lia].
    - rewrite rf_pc0. destruct (N.eqb p0 (peq E old)) eqn:Hpo; cbn.
      + apply N.eqb_eq in Hpo. subst. symmetry. exact rf_oc0.
      + rewrite !lookup_filter_ne, Hpo. cbn. destruct (N.eqb p0 (peq E p)) eqn:Hpp.
        * apply N.eqb_eq in Hpp. subst p0. cbn. symmetry. apply rf_p_unbound0. exact Hpo.
        * reflexivity.
    - rewrite memN_filter_ne, memN_app, rf_vf0. destruct (N.eqb p0 (peq E old)) eqn:Hpo; cbn.
      + apply N.eqb_eq in Hpo. subst. rewrite andb_false_r. symmetry. exact rf_old_vf0.
      + rewrite orb_false_r, andb_true_r. reflexivity. }
  destruct Hr as (T1 & Hr & HoT).
  destruct (rf_undo0 T1 HoT) as (t' & Hu & Ho).
  exists (replace_result s c p old oc sb), None, (dops oc (rb_of oc s) ++ [OReplace c p false old oc fo]).
  split; [exact Hcall|]. split.
  - unfold replace_result. cbn. rewrite rf_plan0, <- app_assoc. reflexivity.
  - eapply undo_seg with (seg := dops oc (rb_of oc s) ++ [OReplace c p false old oc fo]) (s2 := t').
    + unfold replace_result. cbn. rewrite rf_plan0, <- app_assoc. reflexivity.
    + rewrite rev_app_distr. cbn [rev app undo_seq]. rewrite (bind_ok _ _ _ _ _ Hr). exact Hu.
    + exact Ho.
Qed.

Lemma inv_replace s c p f : Inv E s -> wf_api_b E s (AReplace c p f) = true -> Inv E (call_s E (AReplace c p f) s).
Proof.
  intros HI H. assert (f = false) by (destruct f; [discriminate | reflexivity]). subst f.
  destruct (replace_facts s c p HI H) as (old & oc & sb & Hold & F).
  unfold call_s. rewrite (call_replace s c p old oc sb Hold F). cbn [fst]. destruct F.
  destruct rf_inv0 as [J1 J2 J3 J4 J5]. rewrite rf_slots0 in *.
  unfold replace_result. constructor; cbn; intros; auto.
  - rewrite (count_app N.eqb), (count_filter N.eqb N_reflects). cbn.
    destruct (N.eqb p0 p) eqn:Hpp.
    + apply N.eqb_eq in Hpp. subst p0. rewrite rf_p_out0. destruct (negb (N.eqb p old)); lia.
    + specialize (J1 p0). destruct (negb (N.eqb p0 old)); lia.
  - rewrite !(count_app N.eqb), !(count_filter N.eqb N_reflects) in *. cbn in *.
    destruct (N.eqb p0 p) eqn:Hp0, (N.eqb q p) eqn:Hq0.
    + apply N.eqb_eq in Hp0, Hq0. congruence.
    + apply N.eqb_eq in Hp0. subst p0. destruct (N.eqb q old) eqn:Hqo; cbn in *; [lia|].
      rewrite rf_others0 in H2; [discriminate | lia | exact Hqo].
    + apply N.eqb_eq in Hq0. subst q. destruct (N.eqb p0 old) eqn:Hpo; cbn in *; [lia|].
      rewrite same_slot_sym, rf_others0 in H2; [discriminate | lia | exact Hpo].
    + destruct (N.eqb p0 old), (N.eqb q old); cbn in *; try lia. apply J2; auto; lia.
  - eapply J5; eauto.
Qed.

End Compound.

(* ------------------------------------------------------------------ the property theorems *)
(* full statements *)
Definition revert_inverts_apply_statement : Prop :=
  forall E s a, Inv E s -> wf_api_b E s a = true -> Undoable E s a.
Definition rollback_restores_earlier_statement : Prop :=
  forall E h1 h2 k, WF E (h1 ++ h2) -> k = length (plan (run E h1 init)) ->
    (forall k', In (R k') h2 -> k <= k') ->
    exists s', backtrack E k (run E (h1 ++ h2) init) = (s', Ok tt) /\ equiv s' (run E h1 init).
(* the "replay from the empty state" form, for arbitrarily nested rollbacks: proved below
   (backtrack_is_replay_proof) from the fact that well-formed calls respect ≈w (call_cong) *)
Definition backtrack_is_replay_statement : Prop :=
  forall E h, WF E h -> equivw (run E h init) (replay E (surviving E h) init).

Lemma revert_inverts_apply_proof : revert_inverts_apply_statement.
Proof.
  intros E s a HI Hwf. destruct a.
  - apply undo_add; assumption.
  - apply undo_hardref.
  - apply undo_backref.
  - apply undo_remove; assumption.
  - apply undo_replace; assumption.
  - apply undo_block; assumption.
  - apply undo_decref; assumption.
Qed.

Lemma inv_call E s a : Inv E s -> wf_api_b E s a = true -> Inv E (call_s E a s).
Proof.
  intros HI Hwf. destruct a.
  - apply inv_add; assumption.
  - apply inv_hardref; assumption.
  - apply inv_backref; assumption.
  - apply inv_remove; assumption.
  - apply inv_replace; assumption.
  - apply inv_block; assumption.
  - apply inv_decref; assumption.
Qed.

Lemma rollback_restores_earlier_proof : rollback_restores_earlier_statement.
Proof.
  intros E h1 h2 k Hwf Hk Hge.
  eapply (rollback_restores_earlier_G E (Inv E) (fun _ => true)); eauto.
  - apply Inv_obs.
  - intros. apply inv_call; assumption.
  - intros. apply revert_inverts_apply_proof; assumption.
  - apply Inv_init.
  - unfold WF'. rewrite wf_from'_iff. unfold WF in Hwf. rewrite Hwf. cbn.
    apply forallb_forall. intros [a|k0] _; reflexivity.
Qed.

(* the invariant holds in every state a well-formed history reaches *)
Lemma inv_reachable_proof : forall E h, WF E h -> Inv E (run E h init).
Proof.
  intros E h Hwf.
  assert (Hwf' : wf_from' E (fun _ => true) h (init, []) = true).
  { rewrite wf_from'_iff. unfold WF in Hwf. rewrite Hwf. cbn.
    apply forallb_forall. intros [a|k0] _; reflexivity. }
  pose proof (good_run E (Inv E) (fun _ => true) (Inv_obs E)
                (fun s a _ HI Hw => inv_call E s a HI Hw)
                (fun s a _ HI Hw => revert_inverts_apply_proof E s a HI Hw)
                h _ _ (good_init E (Inv E) (Inv_init E)) Hwf') as (Hs & _ & HI & _).
  rewrite Hs, trun_state in HI. exact HI.
Qed.

(* replay form, one level: the calls l that remain, then anything that stays above them, then the
   rollback to their end: the state is the replay of l from the empty state *)
Lemma run_calls E l s : run E (map C l) s = replay E l s.
Proof. revert s. induction l as [|a l IH]; intros s; cbn; [reflexivity | apply IH]. Qed.
Lemma backtrack_is_replay_partial_proof : forall E l h2 k,
  WF E (map C l ++ h2) -> k = length (plan (replay E l init)) ->
  (forall k', In (R k') h2 -> k <= k') ->
  exists s', backtrack E k (run E (map C l ++ h2) init) = (s', Ok tt) /\ equiv s' (replay E l init).
Proof.
  intros E l h2 k Hwf Hk Hge. rewrite <- run_calls in *.
  apply rollback_restores_earlier_proof; assumption.
Qed.

(* rollback respects ≈ (all operations, failing reverts included) and composes *)
Lemma backtrack_respects_equiv_proof : forall E k s1 s2, equiv s1 s2 ->
  equiv (backtrack_s E k s1) (backtrack_s E k s2) /\ snd (backtrack E k s1) = snd (backtrack E k s2).
Proof. intros. apply backtrack_cong. assumption. Qed.
Lemma backtrack_composes_proof : forall E s n n' t t2,
  n' <= n -> n <= length (plan s) ->
  backtrack E n s = (t, Ok tt) -> backtrack E n' t = (t2, Ok tt) ->
  exists t3, backtrack E n' s = (t3, Ok tt) /\ equiv t3 t2.
Proof. intros. eapply backtrack_compose; eauto. Qed.

(* ------------------------------------------------------------------ calls respect ≈w *)
Lemma equivw_refl s : equivw s s.
Proof. split; [apply obs_refl | reflexivity]. Qed.
Lemma equivw_sym s1 s2 : equivw s1 s2 -> equivw s2 s1.
Proof. intros [H1 H2]. split; [apply obs_sym; exact H1 | symmetry; exact H2]. Qed.
Lemma equivw_trans s1 s2 s3 : equivw s1 s2 -> equivw s2 s3 -> equivw s1 s3.
Proof. intros [H1 H2] [H3 H4]. split; [eapply obs_trans; eauto | congruence]. Qed.
Lemma equiv_equivw s1 s2 : equiv s1 s2 -> equivw s1 s2.
Proof. intros [H1 H2]. split; [exact H1 | rewrite H2; reflexivity]. Qed.

Definition Mrelw {A B} (R : A -> B -> Prop) (m1 : M A) (m2 : M B) : Prop :=
  forall s1 s2, equivw s1 s2 ->
    equivw (fst (m1 s1)) (fst (m2 s2)) /\ Rres R (snd (m1 s1)) (snd (m2 s2)).

Lemma Mrelw_ret {A B} (R : A -> B -> Prop) a b : R a b -> Mrelw R (ret a) (ret b).
Proof. intros H s1 s2 Hs. cbn. auto. Qed.
Lemma Mrelw_bind {A B A' B'} (R : A -> B -> Prop) (R' : A' -> B' -> Prop) m1 m2 f1 f2 :
  Mrelw R m1 m2 -> (forall a b, R a b -> Mrelw R' (f1 a) (f2 b)) -> Mrelw R' (bind m1 f1) (bind m2 f2).
Proof.
  intros Hm Hf s1 s2 Hs. unfold bind. destruct (Hm s1 s2 Hs) as [H1 H2].
  destruct (m1 s1) as [t1 [a|e1]], (m2 s2) as [t2 [b|e2]]; cbn in *; try contradiction.
  - apply Hf; assumption.
  - auto.
Qed.
Lemma Mrelw_lift {A B} (R : A -> B -> Prop) m1 m2 : Mrel R m1 m2 -> Mframe m1 -> Mframe m2 -> Mrelw R m1 m2.
Proof.
  intros H F1 F2 s1 s2 [Ho Hl]. destruct (H s1 s2 Ho) as [H1 H2]. split; [|exact H2].
  split; [exact H1 | rewrite F1, F2; exact Hl].
Qed.
Lemma Mrelw_plan_append o1 o2 : Mrelw (@Rtrue unit unit) (plan_append o1) (plan_append o2).
Proof.
  intros s1 s2 [Ho Hl]. cbn. split; [|exact I]. split.
  - destruct Ho as [Hsl Hli Hpc Hrb Hbr Hvf Hfr]. constructor; cbn; auto.
  - cbn. rewrite !app_length, Hl. reflexivity.
Qed.

Section CallCong.
Variable E : env.

Ltac lift_prim := apply Mrelw_lift;
  [ first [ apply fill_slotting_rel | apply add_limiter_rel | apply remove_slotting_rel
          | apply remove_limiter_rel | apply pc_set_rel | apply pc_del_rel
          | apply rb_append_rel | apply rb_remove_rel | apply brc_add_rel
          | apply brc_remove_rel | apply vf_add_rel | apply vf_remove_rel
          | apply fr_add_rel | apply fr_remove_rel | apply gets_brc_rel ]
  | first [ apply frame_fill | apply frame_add_limiter | apply frame_remove_slotting | apply frame_remove_limiter
          | apply frame_pc_set | apply frame_pc_del | apply frame_rb_append | apply frame_rb_remove
          | apply frame_brc_add | apply frame_brc_remove | apply frame_vf_add | apply frame_vf_remove
          | apply frame_fr_add | apply frame_fr_remove | apply frame_gets ]
  | first [ apply frame_fill | apply frame_add_limiter | apply frame_remove_slotting | apply frame_remove_limiter
          | apply frame_pc_set | apply frame_pc_del | apply frame_rb_append | apply frame_rb_remove
          | apply frame_brc_add | apply frame_brc_remove | apply frame_vf_add | apply frame_vf_remove
          | apply frame_fr_add | apply frame_fr_remove | apply frame_gets ] ].
Ltac relw_step :=
  first [ apply Mrelw_ret; exact I
        | eapply Mrelw_bind; [ first [ apply Mrelw_plan_append | lift_prim ] | intros ? ? ? ] ].

Lemma add_relw c p f : Mrelw (@Rtrue _ _) (add_apply E c p f) (add_apply E c p f).
Proof.
  unfold add_apply. relw_step. unfold Rnil in H. rewrite H.
  destruct (negb (is_nil b) && negb f); [apply Mrelw_ret; exact I|].
  repeat relw_step.
Qed.
Lemma incref_relw c b k : Mrelw (@Rtrue _ _) (incref_apply E c b k) (incref_apply E c b k).
Proof.
  unfold incref_apply. relw_step. relw_step. subst.
  eapply Mrelw_bind with (R := @Rtrue (list item) (list item)).
  - destruct b1; [apply Mrelw_ret; exact I | lift_prim].
  - intros ? ? ?. repeat relw_step.
Qed.
Lemma decref_relw c b k : Mrelw (@Rtrue _ _) (decref_apply c b k) (decref_apply c b k).
Proof.
  unfold decref_apply. relw_step. relw_step. relw_step. subst.
  eapply Mrelw_bind with (R := @Rtrue unit unit).
  - unfold when. destruct (negb b2); [lift_prim | apply Mrelw_ret; exact I].
  - intros ? ? ?. lift_prim.
Qed.

Lemma simple_call_relw a :
  match a with ARemove _ _ | AReplace _ _ _ => False | _ => True end ->
  Mrelw (@Rtrue _ _) (call E a) (call E a).
Proof.
  destruct a; intros H; try contradiction; cbn [call].
  - apply add_relw.
  - repeat relw_step.
  - repeat relw_step.
  - eapply Mrelw_bind; [apply incref_relw | intros ? ? ?; apply Mrelw_ret; exact I].
  - eapply Mrelw_bind; [apply decref_relw | intros ? ? ?; apply Mrelw_ret; exact I].
Qed.

End CallCong.

Section CompoundCong.
Variable E : env.

Lemma same_count_length {A} (eqb : A -> A -> bool) (Hr : reflects eqb) l1 l2 :
  (forall x, count eqb x l1 = count eqb x l2) -> length l1 = length l2.
Proof.
  intros H. pose proof (same_count_map eqb Hr (fun _ => 0%N) l1 l2 H 0%N) as Hm.
  assert (Hc : forall l : list A, count N.eqb 0%N (map (fun _ => 0%N) l) = length l).
  { induction l as [|x l IH]; cbn; [reflexivity | rewrite IH; reflexivity]. }
  rewrite !Hc in Hm. exact Hm.
Qed.

Lemma decref_all_rb c : forall l s, Inv E s ->
  (forall e, count pair_eqb e l <= count trip_eqb (c, e) (rb s)) ->
  forall e, count trip_eqb e (rb (fst (decref_all c l s)))
            = count trip_eqb e (rb s) - (if N.eqb (fst e) c then count pair_eqb (snd e) l else 0).
Proof.
  induction l as [|[b k] r IH]; intros s HI Hc e.
  - cbn. destruct (N.eqb (fst e) c); lia.
  - assert (Hin : count trip_eqb (c, (b, k)) (rb s) <> 0).
    { specialize (Hc (b, k)). cbn in Hc. rewrite (eqb_refl' pair_eqb pair_reflects) in Hc. lia. }
    destruct (decref_apply_ok E s c b k HI Hin) as (s' & Hap & Hpl & Hsl & Hpc & Hvf & Hfr & Hrb & Hbrc & Hli).
    pose proof (inv_decref_fields E s s' c b k HI Hin Hsl Hvf Hrb Hbrc Hli) as HI'.
    assert (Hc' : forall e, count pair_eqb e r <= count trip_eqb (c, e) (rb s')).
    { intros e0. rewrite Hrb, (count_remove1 trip_eqb trip_reflects). specialize (Hc e0). cbn in Hc.
      unfold trip_eqb at 1. cbn. rewrite N.eqb_refl. cbn.
      rewrite (eqb_sym' pair_eqb pair_reflects (b, k) e0). destruct (pair_eqb e0 (b, k)); lia. }
    cbn [decref_all]. unfold bind. rewrite Hap. rewrite (IH s' HI' Hc' e), Hrb.
    rewrite (count_remove1 trip_eqb trip_reflects). destruct e as [c0 e0]. cbn [fst snd count].
    unfold trip_eqb at 1. cbn [fst snd]. rewrite (N.eqb_sym c c0).
    rewrite (eqb_sym' pair_eqb pair_reflects (b, k) e0).
    destruct (N.eqb c0 c); cbn; [destruct (pair_eqb e0 (b, k)); lia | lia].
Qed.

(* under the invariant the blocker refcounts and the limiters are functions of rev_blockers *)
Lemma inv_blk_determined a b : Inv E a -> Inv E b ->
  (forall e, count trip_eqb e (rb a) = count trip_eqb e (rb b)) ->
  (forall x, count N.eqb x (brc a) = count N.eqb x (brc b)) /\
  (forall kb, count pair_eqb kb (lims a) = count pair_eqb kb (lims b)).
Proof.
  intros Ia Ib Hrb.
  assert (Hbrc : forall x, count N.eqb x (brc a) = count N.eqb x (brc b)).
  { intros x. rewrite (I_brc E a Ia), (I_brc E b Ib). unfold blockers_of.
    apply (same_count_map trip_eqb trip_reflects). exact Hrb. }
  split; [exact Hbrc|]. intros [k x]. rewrite (I_lims E a Ia), (I_lims E b Ib).
  rewrite (memN_obs (brc a) (brc b) x Hbrc). reflexivity.
Qed.

Lemma rb_of_counts s1 s2 c : obs_eq s1 s2 ->
  forall e, count pair_eqb e (rb_of c s1) = count pair_eqb e (rb_of c s2).
Proof. intros H e. rewrite !count_rb_of. apply H. Qed.

(* the nested decrefs of two ≈ states end in ≈ states (the logs may differ in order) *)
Lemma decref_all_cong c s1 s2 sb1 sb2 : Inv E s1 -> obs_eq s1 s2 ->
  decref_all c (rb_of c s1) s1 = (sb1, Ok tt) -> decref_all c (rb_of c s2) s2 = (sb2, Ok tt) ->
  Inv E sb1 -> Inv E sb2 ->
  (forall e, count trip_eqb e (rb sb1) = count trip_eqb e (rb sb2)) /\
  (forall x, count N.eqb x (brc sb1) = count N.eqb x (brc sb2)) /\
  (forall kb, count pair_eqb kb (lims sb1) = count pair_eqb kb (lims sb2)) /\
  length (rb_of c s1) = length (rb_of c s2).
Proof.
  intros HI Ho H1 H2 I1 I2. pose proof (Inv_obs E s1 s2 Ho HI) as HI2.
  assert (Hl1 : forall e, count pair_eqb e (rb_of c s1) <= count trip_eqb (c, e) (rb s1))
    by (intros e; rewrite count_rb_of; lia).
  assert (Hl2 : forall e, count pair_eqb e (rb_of c s2) <= count trip_eqb (c, e) (rb s2))
    by (intros e; rewrite count_rb_of; lia).
  assert (Hrb : forall e, count trip_eqb e (rb sb1) = count trip_eqb e (rb sb2)).
  { intros e. pose proof (decref_all_rb c _ s1 HI Hl1 e) as A1. pose proof (decref_all_rb c _ s2 HI2 Hl2 e) as A2.
    rewrite H1 in A1. rewrite H2 in A2. cbn [fst] in A1, A2. rewrite A1, A2.
    rewrite (oe_rb _ _ Ho e), (rb_of_counts s1 s2 c Ho). reflexivity. }
  destruct (inv_blk_determined sb1 sb2 I1 I2 Hrb) as [Hb Hl].
  repeat split; auto.
  apply (same_count_length pair_eqb pair_reflects). apply rb_of_counts. exact Ho.
Qed.

Lemma remove_cong s1 s2 c p : Inv E s1 -> equivw s1 s2 ->
  wf_api_b E s1 (ARemove c p) = true -> wf_api_b E s2 (ARemove c p) = true ->
  equivw (call_s E (ARemove c p) s1) (call_s E (ARemove c p) s2).
Proof.
  intros HI [Ho Hlen] W1 W2. pose proof (Inv_obs E s1 s2 Ho HI) as HI2.
  destruct (call_remove_state2 E s1 c p HI W1) as (sb1 & A1 & I1 & P1 & S1 & C1 & V1 & F1 & ->).
  destruct (call_remove_state2 E s2 c p HI2 W2) as (sb2 & A2 & I2 & P2 & S2 & C2 & V2 & F2 & ->).
  destruct (decref_all_cong c s1 s2 sb1 sb2 HI Ho A1 A2 I1 I2) as (Hrb & Hbrc & Hlim & Hll).
  destruct Ho as [Hsl Hli Hpc Hrb0 Hbr Hvf Hfr]. unfold remove_result. split.
  - constructor; cbn; intros; auto.
    + rewrite !(count_filter N.eqb N_reflects), Hsl. reflexivity.
    + rewrite !lookup_filter_ne, Hpc. reflexivity.
    + rewrite !memN_app, Hvf. reflexivity.
    + rewrite F1, F2. apply Hfr.
  - cbn. rewrite !app_length, P1, P2, !app_length. unfold dops. rewrite !map_length, Hll, Hlen. reflexivity.
Qed.

Lemma replace_cong s1 s2 c p f : Inv E s1 -> equivw s1 s2 ->
  wf_api_b E s1 (AReplace c p f) = true -> wf_api_b E s2 (AReplace c p f) = true ->
  equivw (call_s E (AReplace c p f) s1) (call_s E (AReplace c p f) s2).
Proof.
  intros HI [Ho Hlen] W1 W2. pose proof (Inv_obs E s1 s2 Ho HI) as HI2.
  assert (f = false) by (destruct f; [discriminate | reflexivity]). subst f.
  destruct (replace_facts E s1 c p HI W1) as (old & oc & sb1 & Hold1 & F1).
  destruct (replace_facts E s2 c p HI2 W2) as (old2 & oc2 & sb2 & Hold2 & F2).
  assert (old2 = old).
  { destruct (N.eqb old2 old) eqn:Hoo; [apply N.eqb_eq; exact Hoo|]. exfalso.
    pose proof (rf_others E _ _ _ _ _ _ F1 old2) as Hx.
    rewrite (rf_same E _ _ _ _ _ _ F2) in Hx. 
    assert (count N.eqb old2 (slots s1) <> 0).
    { rewrite (oe_slots _ _ Ho), (rf_old_in E _ _ _ _ _ _ F2). lia. }
    specialize (Hx H Hoo). discriminate. }
  subst old2.
  assert (oc2 = oc).
  { pose proof (rf_oc E _ _ _ _ _ _ F1) as A. pose proof (rf_oc E _ _ _ _ _ _ F2) as B.
    rewrite (oe_pc _ _ Ho) in A. congruence. }
  subst oc2.
  unfold call_s. rewrite (call_replace E s1 c p old oc sb1 Hold1 F1), (call_replace E s2 c p old oc sb2 Hold2 F2).
  cbn [fst].
  destruct (decref_all_cong oc s1 s2 sb1 sb2 HI Ho (rf_all E _ _ _ _ _ _ F1) (rf_all E _ _ _ _ _ _ F2)
              (rf_inv E _ _ _ _ _ _ F1) (rf_inv E _ _ _ _ _ _ F2)) as (Hrb & Hbrc & Hlim & Hll).
  pose proof (rf_fr E _ _ _ _ _ _ F1) as Fr1. pose proof (rf_fr E _ _ _ _ _ _ F2) as Fr2.
  pose proof (rf_plan E _ _ _ _ _ _ F1) as P1. pose proof (rf_plan E _ _ _ _ _ _ F2) as P2.
  destruct Ho as [Hsl Hli Hpc Hrb0 Hbr Hvf Hfr]. unfold replace_result. split.
  - constructor; cbn; intros; auto.
    + rewrite !(count_app N.eqb), !(count_filter N.eqb N_reflects), Hsl. reflexivity.
    + destruct (N.eqb p0 (peq E p)); [reflexivity|]. rewrite !lookup_filter_ne, Hpc. reflexivity.
    + rewrite !memN_app, Hvf. reflexivity.
    + rewrite Fr1, Fr2. apply Hfr.
  - cbn. rewrite !app_length, P1, P2, !app_length. unfold dops. rewrite !map_length, Hll, Hlen. reflexivity.
Qed.

(* well-formedness of a call is a property of the ≈-class (under the invariant) *)
Lemma same_slot_trans p a b : same_slot E p a = true -> same_slot E p b = true -> same_slot E a b = true.
Proof.
  unfold same_slot. intros H1 H2. apply andb_true_iff in H1. apply andb_true_iff in H2.
  destruct H1 as [A1 A2], H2 as [B1 B2]. apply N.eqb_eq in A1, A2, B1, B2.
  rewrite B1, B2, <- A1, <- A2, !N.eqb_refl. reflexivity.
Qed.

Lemma conflicting_slot_obs s1 s2 p old : Inv E s1 -> obs_eq s1 s2 ->
  get_conflicting_slot E p s1 = Some old -> get_conflicting_slot E p s2 = Some old.
Proof.
  intros HI Ho H. unfold get_conflicting_slot in *. apply find_some in H. destruct H as [Hin Hs].
  destruct (find (same_slot E p) (slots s2)) as [x|] eqn:Hf.
  - apply find_some in Hf. destruct Hf as [Hin2 Hs2]. f_equal. symmetry.
    apply (I_slot E s1 HI).
    + apply (count_In N.eqb N_reflects). exact Hin.
    + rewrite (oe_slots _ _ Ho). apply (count_In N.eqb N_reflects). exact Hin2.
    + eapply same_slot_trans; eauto.
  - exfalso. pose proof (find_none _ _ Hf old) as Hn.
    assert (In old (slots s2)).
    { apply (count_In N.eqb N_reflects). rewrite <- (oe_slots _ _ Ho). apply (count_In N.eqb N_reflects). exact Hin. }
    rewrite (Hn H) in Hs. discriminate.
Qed.

Lemma wf_obs s1 s2 a : Inv E s1 -> obs_eq s1 s2 -> wf_api_b E s1 a = true -> wf_api_b E s2 a = true.
Proof.
  intros HI Ho. destruct a; cbn [wf_api_b]; auto.
  - unfold bound. rewrite (oe_pc _ _ Ho), (memN_obs (slots s1) (slots s2) p (oe_slots _ _ Ho)),
      (oe_vf _ _ Ho), (slot_conflicts_nil E s1 s2 p Ho). auto.
  - rewrite (oe_pc _ _ Ho), (memN_obs (slots s1) (slots s2) p (oe_slots _ _ Ho)), (oe_vf _ _ Ho). auto.
  - unfold bound. rewrite (memN_obs (slots s1) (slots s2) p (oe_slots _ _ Ho)),
      (oe_vf _ _ Ho (peq E p)), (check_limiters_nil E s1 s2 p Ho).
    intros H. apply andb_true_iff in H. destruct H as [H Hm]. rewrite H. cbn [andb].
    destruct (get_conflicting_slot E p s1) as [old|] eqn:Hold; [|discriminate].
    rewrite (conflicting_slot_obs s1 s2 p old HI Ho Hold).
    rewrite <- (oe_pc _ _ Ho (peq E p)), <- (oe_pc _ _ Ho (peq E old)), <- (oe_vf _ _ Ho (peq E old)).
    apply andb_true_iff in Hm. destruct Hm as [Hm1 Hm]. rewrite Hm1. cbn [andb].
    destruct (lookup (peq E old) (pc s1)) as [oc|]; [|discriminate].
    apply forallb_forall. intros x Hx. rewrite forallb_forall in Hm. apply Hm.
    apply (count_In pair_eqb pair_reflects). rewrite (rb_of_counts s1 s2 oc Ho).
    apply (count_In pair_eqb pair_reflects). exact Hx.
  - rewrite (existsb_obs trip_eqb trip_reflects (rb s1) (rb s2) _ (oe_rb _ _ Ho)). auto.
Qed.

(* every well-formed call respects ≈w *)
Lemma call_cong s1 s2 a : Inv E s1 -> equivw s1 s2 -> wf_api_b E s1 a = true ->
  equivw (call_s E a s1) (call_s E a s2).
Proof.
  intros HI He W. pose proof (wf_obs s1 s2 a HI (proj1 He) W) as W2.
  destruct a.
  - exact (proj1 (simple_call_relw E (AAdd c p force) I s1 s2 He)).
  - exact (proj1 (simple_call_relw E (AHardref r) I s1 s2 He)).
  - exact (proj1 (simple_call_relw E (ABackref c p) I s1 s2 He)).
  - apply remove_cong; assumption.
  - apply replace_cong; assumption.
  - exact (proj1 (simple_call_relw E (ABlock c b k) I s1 s2 He)).
  - exact (proj1 (simple_call_relw E (ADecref c b k) I s1 s2 He)).
Qed.

End CompoundCong.

(* ------------------------------------------------------------------ replay of the surviving calls *)
Section ReplayForm.
Variable E : env.

Definition apis (L : list (nat * state * api)) : list api := rev (map snd L).
Fixpoint Rep (L : list (nat * state * api)) : Prop :=
  match L with
  | [] => True
  | (n, sb, a) :: L' => equivw sb (replay E (apis L') init) /\ Rep L'
  end.

Local Notation ltk k := (fun x : nat * state * api => Nat.ltb (fst (fst x)) k).

Lemma rep_filter k : forall L s, Chain E s L -> Rep L ->
  (exists sb a, In (k, sb, a) L) ->
  exists sb a, In (k, sb, a) L /\ Rep (filter (ltk k) L) /\
               equivw sb (replay E (apis (filter (ltk k) L)) init).
Proof.
  induction L as [|[[n sb] a] L IH]; intros s Hc HR (sb0 & a0 & Hin); [destruct Hin|].
  inversion Hc as [|s' n' sb' a' L' Hn Hu He Hc']; subst. destruct HR as [HRh HRt].
  assert (Hf : filter (ltk k) ((length (plan sb), sb, a) :: L)
               = if Nat.ltb (length (plan sb)) k then (length (plan sb), sb, a) :: filter (ltk k) L
                 else filter (ltk k) L) by reflexivity.
  rewrite !Hf. clear Hf. destruct (Nat.ltb (length (plan sb)) k) eqn:Hlt.
  - apply Nat.ltb_lt in Hlt. destruct Hin as [Heq|Hin].
    + injection Heq as Heq _ _. lia.
    + pose proof (chain_pos E _ _ Hc' _ _ _ Hin). lia.
  - apply Nat.ltb_ge in Hlt.
    destruct (existsb (fun x : nat * state * api => Nat.eqb (fst (fst x)) k) L) eqn:Hex.
    + apply existsb_exists in Hex. destruct Hex as ([[n1 sb1] a1] & Hin1 & Heq1). cbn in Heq1.
      apply Nat.eqb_eq in Heq1. subst n1.
      destruct (IH sb Hc' HRt (ex_intro _ sb1 (ex_intro _ a1 Hin1))) as (sb2 & a2 & Hin2 & HR2 & He2).
      exists sb2, a2. split; [right; exact Hin2 | split; assumption].
    + destruct Hin as [Heq|Hin].
      * injection Heq as Heq <- <-. exists sb, a. split; [left; f_equal; f_equal; exact Heq|].
        assert (Hall : filter (ltk k) L = L).
        { apply forallb_filter_id. apply forallb_forall. intros [[n1 sb1] a1] Hin1. cbn.
          apply Nat.ltb_lt. pose proof (chain_pos E _ _ Hc' _ _ _ Hin1) as Hle.
          assert (n1 <> k).
          { intros ->. assert (Hf : existsb (fun x : nat * state * api => Nat.eqb (fst (fst x)) k) L = true).
            { apply existsb_exists. eexists. split; [exact Hin1|]. cbn. apply Nat.eqb_refl. }
            congruence. }
          lia. }
        rewrite Hall. split; assumption.
      * exfalso. assert (Hf : existsb (fun x : nat * state * api => Nat.eqb (fst (fst x)) k) L = true).
        { apply existsb_exists. eexists. split; [exact Hin|]. cbn. apply Nat.eqb_refl. }
        congruence.
Qed.

Definition allok (a : api) : bool := true.
Definition good2 (c : state * list (nat * state * api)) (t : tstate) : Prop :=
  good E (Inv E) c t /\ map (fun x : nat * state * api => (fst (fst x), snd x)) (snd c) = rev (snd t) /\
  Rep (snd c) /\ equivw (fst c) (replay E (apis (snd c)) init).

Lemma replay_snoc l a s : replay E (l ++ [a]) s = call_s E a (replay E l s).
Proof. unfold replay. rewrite fold_left_app. reflexivity. Qed.

Lemma good_step_inv e c t : good E (Inv E) c t -> wfe E allok e t = true ->
  good E (Inv E) (cstep E e c) (tstep E e t).
Proof.
  apply (good_step E (Inv E) allok (Inv_obs E)).
  - intros. apply inv_call; assumption.
  - intros. apply revert_inverts_apply_proof; assumption.
Qed.

Lemma good2_step e c t : good2 c t -> wfe E allok e t = true -> good2 (cstep E e c) (tstep E e t).
Proof.
  intros (Hg & Hm & HR & HQ) Hwf. pose proof (good_step_inv e c t Hg Hwf) as Hg'.
  pose proof Hg as (Hs & Hp & HI & Hc & Hall).
  unfold wfe in Hwf. apply andb_true_iff in Hwf. destruct Hwf as [Hwf _].
  split; [exact Hg'|]. destruct e as [a|k]; cbn [cstep tstep fst snd] in *.
  - (* call *)
    cbn in Hwf. rewrite <- Hs in Hwf. split; [|split].
    + cbn. rewrite rev_app_distr. cbn. rewrite Hm, Hs. reflexivity.
    + split; assumption.
    + unfold apis. cbn [map snd rev]. rewrite replay_snoc. apply call_cong; assumption.
  - (* rollback *)
    assert (Hm' : map (fun x : nat * state * api => (fst (fst x), snd x)) (filter (ltk k) (snd c))
                  = rev (filter (fun na => Nat.ltb (fst na) k) (snd t))).
    { rewrite <- filter_rev, <- Hm.
      apply (map_filter_fst (fun x : nat * state * api => (fst (fst x), snd x)) (fun na => Nat.ltb (fst na) k)). }
    split; [exact Hm'|].
    destruct (existsb (fun x : nat * state * api => Nat.eqb (fst (fst x)) k) (snd c)) eqn:Hex.
    + apply existsb_exists in Hex. destruct Hex as ([[n1 sb1] a1] & Hin1 & Heq1). cbn in Heq1.
      apply Nat.eqb_eq in Heq1. subst n1.
      destruct (rep_filter k _ _ Hc HR (ex_intro _ sb1 (ex_intro _ a1 Hin1))) as (sb2 & a2 & Hin2 & HR2 & He2).
      destruct (chain_rollback E _ _ Hc _ _ _ Hin2) as (s' & Hb & He').
      unfold backtrack_s. rewrite Hb. cbn [fst]. split; [exact HR2|].
      eapply equivw_trans; [apply equiv_equivw; exact He' | exact He2].
    + (* no live call starts at k: k = len(plan), nothing happens *)
      cbn in Hwf. apply orb_true_iff in Hwf. destruct Hwf as [Hk|Hk].
      * apply Nat.eqb_eq in Hk. rewrite <- Hs in Hk. subst k.
        unfold backtrack_s. rewrite backtrack_here_proof. cbn [fst].
        assert (Hid : filter (ltk (length (plan (fst c)))) (snd c) = snd c).
        { apply forallb_filter_id. apply forallb_forall. intros [[n1 sb1] a1] Hin1. cbn.
          apply Nat.ltb_lt. pose proof (chain_pos E _ _ Hc _ _ _ Hin1) as Hle.
          assert (n1 <> length (plan (fst c))).
          { intros ->. assert (Hf : existsb (fun x : nat * state * api => Nat.eqb (fst (fst x)) (length (plan (fst c)))) (snd c) = true).
            { apply existsb_exists. eexists. split; [exact Hin1|]. cbn. apply Nat.eqb_refl. }
            congruence. }
          lia. }
        rewrite Hid. split; assumption.
      * exfalso. apply existsb_exists in Hk. destruct Hk as ([n1 a1] & Hin1 & Heq1). cbn in Heq1.
        apply Nat.eqb_eq in Heq1. subst n1.
        assert (Hin : In (k, a1) (map (fun x : nat * state * api => (fst (fst x), snd x)) (snd c))).
        { rewrite Hm, <- in_rev. exact Hin1. }
        apply in_map_iff in Hin. destruct Hin as ([[n2 sb2] a2] & Heq2 & Hin2). cbn in Heq2.
        injection Heq2 as -> ->.
        assert (Hf : existsb (fun x : nat * state * api => Nat.eqb (fst (fst x)) k) (snd c) = true).
        { apply existsb_exists. eexists. split; [exact Hin2|]. cbn. apply Nat.eqb_refl. }
        congruence.
Qed.

Lemma good2_run h : forall c t, good2 c t -> wf_from' E allok h t = true ->
  good2 (fold_left (fun c e => cstep E e c) h c) (trun E h t).
Proof.
  induction h as [|e h IH]; intros c t Hg Hwf; [exact Hg|].
  cbn in Hwf. apply andb_true_iff in Hwf. destruct Hwf as [H1 H2].
  cbn [fold_left]. change (trun E (e :: h) t) with (trun E h (tstep E e t)).
  apply IH; [apply good2_step; assumption | exact H2].
Qed.

Lemma good2_init : good2 (init, []) (init, []).
Proof.
  split; [apply good_init; apply Inv_init|]. split; [reflexivity|]. split; [exact I|]. apply equivw_refl.
Qed.

End ReplayForm.

Lemma backtrack_is_replay_proof : backtrack_is_replay_statement.
Proof.
  intros E h Hwf.
  assert (Hwf' : wf_from' E allok h (init, []) = true).
  { rewrite wf_from'_iff. unfold WF in Hwf. rewrite Hwf. cbn.
    apply forallb_forall. intros [a|k0] _; reflexivity. }
  pose proof (good2_run E h _ _ (good2_init E) Hwf') as (Hg & Hm & _ & HQ).
  destruct Hg as (Hs & _).
  rewrite Hs, trun_state in HQ. cbn [fst] in HQ.
  replace (surviving E h) with (apis (snd (fold_left (fun c e => cstep E e c) h (init, [])))); [exact HQ|].
  unfold surviving, apis.
  transitivity (rev (map snd (map (fun x : nat * state * api => (fst (fst x), snd x))
                                  (snd (fold_left (fun c e => cstep E e c) h (init, [])))))).
  { rewrite map_map. reflexivity. }
  rewrite Hm, map_rev, rev_involutive. reflexivity.
Qed.

Lemma call_respects_equivw_proof : forall E s1 s2 a,
  Inv E s1 -> equivw s1 s2 -> wf_api_b E s1 a = true ->
  wf_api_b E s2 a = true /\ equivw (call_s E a s1) (call_s E a s2).
Proof.
  intros E s1 s2 a HI He W. split; [eapply wf_obs; eauto; apply He | apply call_cong; assumption].
Qed.

(* ------------------------------------------------------------------ examples and refutations *)
Definition E0 : env := env_of {| ckeys := [0;0;0;1]%N; cslots := [0;0;1;0]%N; cbkeys := [0;1]%N;
                                 cmatch := [[false;true;false;false];[false;false;false;true]];
                                 ceqs := [0;1;2;3]%N |}.
(* the hypotheses are satisfiable by a history with conflicts, blockers shared by two choice
   points, and nested rollbacks *)
Definition h_ex : list event :=
  [C (AHardref 0); C (AAdd 0 0 false); C (ABlock 0 0 0); C (AAdd 1 1 false); C (ABlock 1 0 0);
   C (AAdd 2 3 true); C (ABlock 2 1 1); R 5; C (ABlock 1 1 1); R 3; R 1]%N.
Example wf_ex : WF E0 h_ex.
Proof. vm_compute. reflexivity. Qed.
(* a well-formed history with the compound operations (replace with nested decrefs, remove) *)
Definition h_ex2 : list event :=
  [C (AAdd 0 0 true); C (ABlock 0 1 1); C (ABlock 0 1 1); C (AReplace 1 1 false); R 3;
   C (AReplace 1 1 false); C (ARemove 1 1); R 1]%N.
Example wf_ex2 : WF E0 h_ex2.
Proof. vm_compute. reflexivity. Qed.

(* re-merge of the installed version: p0 (vdb) and p1 (repo) are two objects that compare equal,
   so they share one pkg_choices / vdb_filter key; the history is well-formed and rolling back over
   the replace restores p0's binding *)
Definition E3 : env := env_of {| ckeys := [0;0;0;1]%N; cslots := [0;0;1;0]%N; cbkeys := [0;1]%N;
                                 cmatch := [[false;false;false;false];[false;false;false;false]];
                                 ceqs := [0;0;2;3]%N |}.
Definition h_equal : list event :=
  [C (AAdd 0 0 true); C (ABlock 0 1 1); C (AReplace 1 1 false); R 2; C (AReplace 2 1 false); R 1; R 0]%N.
Example wf_equal : WF E3 h_equal /\
  lookup 0%N (pc (run E3 [C (AAdd 0 0 true); C (ABlock 0 1 1); C (AReplace 1 1 false); R 2]%N init)) = Some 0%N.
Proof. split; vm_compute; reflexivity. Qed.

(* without WF the statement is false of the faithful model (and of the code: known findings) *)
Definition h_forced_dup : list event := [C (AAdd 2 3 true); C (AAdd 0 3 true); R 1]%N.
Lemma forced_add_of_bound_package_refuted :
  lookup 3%N (pc (run E0 h_forced_dup init)) = None /\
  lookup 3%N (pc (replay E0 (surviving E0 h_forced_dup) init)) = Some 2%N.
Proof. split; vm_compute; reflexivity. Qed.
Definition E1 : env := env_of {| ckeys := [0;0;0;1]%N; cslots := [0;0;1;0]%N; cbkeys := [0;1]%N;
                                 cmatch := [[true;false;false;false];[false;false;false;false]];
                                 ceqs := [0;1;2;3]%N |}.
Definition h_selfblocked : list event :=
  [C (AAdd 0 0 false); C (ABlock 0 0 0); C (AReplace 1 1 false)]%N.
Lemma replace_old_blocked_by_own_blocker_refuted :
  snd (backtrack E1 2 (run E1 h_selfblocked init)) = Ex AssertionError.
Proof. vm_compute. reflexivity. Qed.
Definition E2 : env := env_of {| ckeys := [0;0;0;1]%N; cslots := [0;0;1;0]%N; cbkeys := [0;1]%N;
                                 cmatch := [[true;true;false;false];[false;false;false;false]];
                                 ceqs := [0;1;2;3]%N |}.
Lemma replace_failure_path_refuted :
  let s := run E2 [C (AAdd 0 0 true); C (ABlock 1 0 0)]%N init in
  snd (call E2 (AReplace 1 1 false) s) = Ex AssertionError /\
  memN 0%N (slots s) = true /\ memN 0%N (slots (call_s E2 (AReplace 1 1 false) s)) = false.
Proof. vm_compute. repeat split; reflexivity. Qed.
