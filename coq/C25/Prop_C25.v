(* Prop_C25.v — the property theorems of C25 and nothing else. *)
From Coq Require Import List NArith ZArith Bool Permutation.
Import ListNotations.
From Verif Require Import Base.Val C25.Path_C25 C25.Model_C25 C25.Spec_C25 C25.SpecExt_C25 C25.SpecSym_C25 C25.Proofs_C25
                          C25.RoundtripExt_C25 C25.SymDir_C25.

(* an archive without members reads as the empty set *)
Theorem empty_archive : of_members [] = Ok [].
Proof. exact empty_archive_proof. Qed.
Print Assumptions empty_archive.

(* the "./"-prefixed member name (and hardlink name) written for a location is read back as that location *)
Theorem name_roundtrip : forall l, plain_loc l ->
  loc_of_name (member_name l) = l /\ loc_of_link (member_name l) = l
  /\ strip_sl (member_name l) <> dot.
Proof. exact name_roundtrip_proof. Qed.
Print Assumptions name_roundtrip.

(* THE ROUND TRIP, for every contents set of the kind a scan of a directory tree yields (distinct
   normalised paths, no entry beneath a symlink, parents present), in any iteration order, of any
   size: reading back what was written succeeds, returns exactly the written entries with equal
   path/type/mode/owner/mtime/target/data/device, and two files share an inode afterwards iff they
   were the same file (same path or same known (dev,inode)) before. *)
Theorem tar_roundtrip : forall c, wf c -> flat c -> parents_closed c ->
  exists r, of_members (to_members c) = Ok r /\ roundtrip_ok c r.
Proof. exact tar_roundtrip_proof. Qed.
Print Assumptions tar_roundtrip.

(* THE ROUND TRIP WITHOUT [parents_closed] ("parents present or added"): for every well-formed set with
   no entry beneath a symlink, whatever directories are missing from it, what is read back is the written
   set (entries unchanged, hardlink classes preserved) plus exactly the missing ancestor directories:
   each extra entry is a fresh 0o775 root:root directory at an absent proper ancestor (not "/") of a
   written entry, every such ancestor is there, and no path occurs twice. *)
Theorem tar_roundtrip_dirs : forall c, wf c -> flat c ->
  exists r, of_members (to_members c) = Ok r /\ roundtrip_dirs_ok c r.
Proof. exact tar_roundtrip_dirs_proof. Qed.
Print Assumptions tar_roundtrip_dirs.

(* THE ROUND TRIP BEYOND [flat]: a set with entries recorded beneath ONE symlinked directory x (any
   number of them, none itself a symlink; x resolves to a plain path; no collisions) reads back as its
   live-merge resolution [resolve_syms x c] -- every entry beneath x moved to x's resolved target, all
   else unchanged, hardlink classes preserved -- plus exactly the missing ancestor directories. *)
Theorem tar_roundtrip_symdir : forall c x, wf c -> one_symdir c x ->
  exists r, of_members (to_members c) = Ok r /\ roundtrip_dirs_ok (resolve_syms x c) r.
Proof. exact tar_roundtrip_symdir_proof. Qed.
Print Assumptions tar_roundtrip_symdir.

(* read side alone, for the entries of ANY archive: a flat, parent-closed set of distinct plain
   locations is only reordered by convert_archive (nothing rewritten, nothing added) *)
Theorem read_flat_reorders : forall raw,
  NoDup (map loc raw) -> plain_locs raw -> flat_d raw -> closed_d raw ->
  exists r, convert raw = Ok r /\ Permutation r raw.
Proof. exact convert_flat. Qed.
Print Assumptions read_flat_reorders.

(* the full statement about symlinked directories ("resolved as for a live merge": afterwards nothing
   lies beneath a symlink) is false of the faithful model for chains of directory symlinks
   (known finding symdir-chain; witness replayed on the implementation by the check) *)
Theorem symdirs_resolved_refuted : ~ symdirs_resolved_full_statement.
Proof. exact symdirs_resolved_refuted_proof. Qed.
Print Assumptions symdirs_resolved_refuted.
