#!/bin/sh
# usage: mut.sh name 'python-replace-old' 'python-replace-new' file
name="$1"; old="$2"; new="$3"; file="${4:-src/pkgcore/resolver/state.py}"
git -C /tmp/wt_C17 checkout -q -- . 
/venv/bin/python - "$old" "$new" "/tmp/wt_C17/$file" <<'P'
import sys
old, new, path = sys.argv[1:4]
s = open(path).read()
assert s.count(old) >= 1, "pattern not found"
s = s.replace(old, new, 1)
open(path, "w").write(s)
P
cd /verif && VERIF_REPO=/tmp/wt_C17 ./check C17 > chk.scratch/mut_$name.out 2>&1; rc=$?
echo "== $name rc=$rc"; grep -c VIOLATION chk.scratch/mut_$name.out; grep "VIOLATION" chk.scratch/mut_$name.out | head -2; tail -1 chk.scratch/mut_$name.out
