"""C36 — fetching returns only verified files and uses every allowed attempt (DESIGN §6 C36).

The real `pkgcore.fetch.custom.fetcher` is driven with a scripted fetch program (a pure-bash
script written into the scratch directory) that plays the next outcome of the case into the
distdir, in its fetch role or in its resume role, and logs which command it was run as, the
URI, the file it found, the file it left and its exit status.

Streams
  seq     every sequence over the five outcome classes (nothing / partial / oversized /
          corrupt / correct) of length = attempts (1..4) x 4 target kinds x 1..3 URIs
  rand    random targets (size and digests from possibly different reference contents, two
          digests, zero size), random initial file, arbitrary actions in both roles, random
          exit statuses, attempts 0..5, 0..4 URIs (plain lists and uri_list objects with
          mirrors), resume_command present or None
  malf    targets with a checksum kind that has no handler, no URIs at all, zero attempts
  uris    uri_list.__iter__ (mirror expansion / interleaving) vs Model_C36.uri_iter
Each fetch case is compared (A) with Model_C36.run_fetch inside Coq (result kind, final file,
event list), (B) with Spec_C36.spec_fetch_ok inside Coq and with a Python oracle that uses
the real digests.  Cases run through the real spawn (`spawn_bash`) or, for the bulk of the
quick tier, through an in-process stand-in for `spawn_bash` that interprets the same command
line (the command string is still built by the fetcher).
"""

import hashlib
import itertools
import os
import shutil
from pathlib import Path

from .common import Check, Err, Raw, cN, cZ, cbool, clist, cnat, copt, cpair, cstr, impl_call

IMPORTS = ("From Coq Require Import List NArith ZArith Bool.\n"
           "From Verif Require Import Base.Val C36.Model_C36 C36.Spec_C36.")
ANCHORS = ["fetch/custom.py::fetcher.fetch", "fetch/base.py::fetcher._verify",
           "fetch/custom.py::fetcher.__init__", "fetch/__init__.py::uri_list.__iter__",
           "fetch/errors.py"]
FNAME = "f.tar"
WANT = b"abcdefgh"
ALGS = {1: "sha256", 2: "md5"}
KF_ABORT = "chksum-failure-aborts-remaining-attempts"

PLAY_SH = r"""#!%(bash)s
# usage: play.sh ROLE STATEDIR DISTDIR URI FILE   (bash builtins only: the fetcher gives no PATH)
kind=$1; st=$2; p="$3/$5"; uri=$4
read -r n < "$st/n"; echo $((n+1)) > "$st/n"
if [ -e "$p" ]; then seen="S$(<"$p")"; else seen=N; fi
a=L; d=-; s=0
if [ -e "$st/a$n" ]; then read -r fa fd fs ra rd rs < "$st/a$n"
  if [ "$kind" = resume ]; then a=$ra; d=$rd; s=$rs; else a=$fa; d=$fd; s=$fs; fi; fi
[ "$d" = - ] && d=
case $a in
 W) printf %%s "$d" > "$p";;
 A) printf %%s "$d" >> "$p";;
 C) if [ -e "$p" ]; then cur=$(<"$p"); printf %%s "${d:${#cur}}" >> "$p"; else printf %%s "$d" > "$p"; fi;;
 R) [ -e "$p" ] && rm -f "$p";;
esac
if [ -e "$p" ]; then post="S$(<"$p")"; else post=N; fi
echo "$kind $uri $seen $post $s" >> "$st/log"
exit $s
"""


# ----------------------------------------------------------------------------- case data
def mk_target(size=None, hashes=(), bad=False):
    """size: int|None; hashes: tuple of (alg id, reference content whose digest is expected)"""
    return {"size": size, "hashes": tuple(hashes), "bad": bad}


def py_chksums(t):
    ch = {}
    if t["size"] is not None:
        ch["size"] = t["size"]
    for alg, ref in t["hashes"]:
        ch[ALGS[alg]] = int(hashlib.new(ALGS[alg], ref).hexdigest(), 16)
    if t["bad"]:
        ch["bogus_chf"] = 1
    return ch


def py_verified(t, f):
    """the property's 'expected size and every required checksum', with the real digests"""
    if t["bad"] or f is None:
        return False
    if t["size"] is not None:
        if len(f) != t["size"]:
            return False
    elif not f:
        return False
    return all(hashlib.new(ALGS[a], f).digest() == hashlib.new(ALGS[a], r).digest() for a, r in t["hashes"])


def py_partial(t, f):
    return (not t["bad"]) and t["size"] is not None and f is not None and len(f) < t["size"]


def py_stuck(t, f):
    if t["bad"] or f is None:
        return False
    if t["size"] is not None and len(f) > t["size"]:
        return True
    size_ok = (len(f) == t["size"]) if t["size"] is not None else bool(f)
    return size_ok and not py_verified(t, f)


def py_nochk(t):
    return t["size"] is None and not t["hashes"] and not t["bad"]


def py_act(a, f):
    k = a[0]
    if k == "L":
        return f
    if k == "W":
        return a[1]
    if k == "A":
        return (f or b"") + a[1]
    if k == "C":
        return a[1] if f is None else f + a[1][len(f):]
    if k == "R":
        return None
    raise ValueError(a)


# ----------------------------------------------------------------------------- Coq terms
class Terms:
    """Byte strings, outcomes and targets are named once in the preamble and the records are built
    by short preamble functions, so that a case is ~150 characters: coqc spends its time
    type-checking the literal, not evaluating the model."""

    HEAD = ("Definition C (n : nat) (t : target) (nu : nat) (os : list outcome) (f : file) (h : bool) : input :=\n"
            "  {| attempts := n; tgt := t; uris := map N.of_nat (seq 0 nu); outs := os; file0 := f; has_resume := h |}.\n"
            "Definition E (k : bool) (u : Z) (s p : file) (st : Z) : val := VL [VB k; VZ u; enc_file s; enc_file p; VZ st].\n"
            "Definition R (r : val) (f : file) (evs : list val) : val := VL [r; enc_file f; VL evs].\n"
            "Definition T := VB true.\n")

    def __init__(self):
        self.defs = []          # preamble lines, in dependency order
        self.names = {}

    def _name(self, prefix, key, ty, render):
        k = (prefix, key)
        if k not in self.names:
            body = render()
            self.names[k] = f"{prefix}{sum(1 for p, _ in self.names if p == prefix)}"
            self.defs.append(f"Definition {self.names[k]} : {ty} := {body}.")
        return self.names[k]

    def b(self, data: bytes) -> str:
        return self._name("b", data, "bytes", lambda: cstr(data))

    def preamble(self) -> str:
        return "\n".join(self.defs) + "\n" + self.HEAD

    def action(self, a) -> str:
        k = a[0]
        if k == "L":
            return "Leave"
        if k == "R":
            return "Remove"
        return "(%s %s)" % ({"W": "Write", "A": "Append", "C": "Resume"}[k], self.b(a[1]))

    def outcome(self, o) -> str:
        (fa, fs), (ra, rs) = o
        return self._name("o", o, "outcome", lambda: "{| ofetch := (%s, %s); oresume := (%s, %s) |}"
                          % (self.action(fa), cZ(fs), self.action(ra), cZ(rs)))

    def target(self, t) -> str:
        def render():
            hs = clist(["(%s, toyH %s %s)" % (cN(a), cN(a), self.b(r)) for a, r in t["hashes"]], "N * N")
            return "{| tsize := %s; thashes := %s; tbad := %s |}" % (copt(t["size"], cN, "N"), hs, cbool(t["bad"]))
        return self._name("t", (t["size"], t["hashes"], t["bad"]), "target", render)

    def file(self, f) -> str:
        return copt(f, self.b, "bytes")

    def case(self, c) -> str:
        return "C %d %s %d %s %s %s" % (c["attempts"], self.target(c["target"]), c["nuris"],
                                        clist([self.outcome(o) for o in c["outs"]], "outcome"),
                                        self.file(c["f0"]), cbool(c["hasres"]))

    def run(self, run) -> Raw:
        res, final, events = run
        r = "T" if res is True else "(VErr %s)" % self._name("k", res.kind, "str", lambda: cstr(res.kind))
        evs = clist(["E %s %d %s %s %d" % (cbool(e[0]), e[1], self.file(e[2]), self.file(e[3]), e[4]) for e in events], "val")
        return Raw("R %s %s %s" % (r, self.file(final), evs))


# ----------------------------------------------------------------------------- the driver
class Driver:
    def __init__(self, scratch: Path):
        from pkgcore.fetch import custom, errors, fetchable, mirror, uri_list
        from snakeoil.process import find_binary

        self.custom, self.errors, self.fetchable = custom, errors, fetchable
        self.mirror, self.uri_list = mirror, uri_list
        self.root = scratch / "fetchrun"
        self.dd = self.root / "distdir"
        self.st = self.root / "state"
        for d in (self.dd, self.st):
            d.mkdir(parents=True, exist_ok=True)
        self.script = self.root / "play.sh"
        self.script.write_text(PLAY_SH % {"bash": find_binary("bash")})
        self.script.chmod(0o755)
        self.path = str(self.dd / FNAME)
        self.mock_state = None

    # -- the scripted fetch program, in-process (same command line, same semantics as play.sh)
    def _mock_spawn(self, command, **kw):
        argv = command.split()
        assert argv[0] == str(self.script) and len(argv) == 6 and "umask" in kw, argv
        kind, st, dd, uri, fname = argv[1:]
        p = os.path.join(dd, fname)
        ms = self.mock_state
        n = ms["n"]
        ms["n"] += 1
        seen = Path(p).read_bytes() if os.path.exists(p) else None
        a, s = ("L",), 0
        if n < len(ms["outs"]):
            a, s = ms["outs"][n][1 if kind == "resume" else 0]
        post = py_act(a, seen)
        if post is None:
            if seen is not None:
                os.unlink(p)
        elif post != seen:
            Path(p).write_bytes(post)
        ms["log"].append((kind, uri, seen, post, s))
        return s << 8 if s else 0

    def make_uris(self, c):
        n = c["nuris"]
        if not c.get("urilist") or n == 0:
            return [f"u{i}" for i in range(n)]
        # a uri_list object yielding exactly u0..u{n-1}: first a mirror tier, then plain URIs
        ul = self.uri_list(FNAME)
        k = max(1, n // 2)
        ul.add_mirror(self.mirror([f"u{i}/" for i in range(k)], "m"), "")
        for i in range(k, n):
            ul.add_uri(f"u{i}")
        ul.finalize()
        return ul

    def run(self, c, real: bool):
        """-> canonical [result, final file, events]"""
        if os.path.lexists(self.path):
            os.unlink(self.path)
        if c["f0"] is not None:
            Path(self.path).write_bytes(c["f0"])
        if real:
            for p in self.st.iterdir():
                p.unlink()
            (self.st / "n").write_text("0\n")
            for i, o in enumerate(c["outs"]):
                (fa, fs), (ra, rs) = o
                (self.st / f"a{i}").write_text(
                    "%s %s %d %s %s %d\n" % (fa[0], (fa[1].decode() if len(fa) > 1 and fa[1] else "-"), fs,
                                             ra[0], (ra[1].decode() if len(ra) > 1 and ra[1] else "-"), rs))
        else:
            self.mock_state = {"n": 0, "outs": c["outs"], "log": []}
        cmdline = f"{self.script} %s {self.st} ${{DISTDIR}} ${{URI}} ${{FILE}}"
        custom = self.custom
        f = custom.fetcher(str(self.dd), cmdline % "fetch",
                           resume_command=(cmdline % "resume") if c["hasres"] else None,
                           userpriv=False, attempts=c["attempts"])
        t = self.fetchable(FNAME, uri=self.make_uris(c), chksums=py_chksums(c["target"]))
        orig = custom.spawn_bash
        if not real:
            custom.spawn_bash = self._mock_spawn
        try:
            res = f.fetch(t)
            res = True if res == self.path else Err("WrongPath")
        except Exception as e:  # noqa: BLE001
            res = Err(self.kind(e))
        finally:
            custom.spawn_bash = orig
        if real:
            log = []
            lp = self.st / "log"
            if lp.exists():
                for ln in lp.read_text().splitlines():
                    kind, uri, seen, post, s = ln.split(" ")
                    log.append((kind, uri, None if seen == "N" else seen[1:].encode(),
                                None if post == "N" else post[1:].encode(), int(s)))
        else:
            log = self.mock_state["log"]
        final = Path(self.path).read_bytes() if os.path.exists(self.path) else None
        events = [[k == "resume", int(u.rstrip("/")[1:].split("/")[0]), seen, post, s] for k, u, seen, post, s in log]
        return [res, final, events]

    def kind(self, e):
        er = self.errors
        if isinstance(e, er.MissingDistfile):
            return "MissingDistfile"
        if isinstance(e, er.ChksumFailure):
            return "ChksumSize" if e.chksum == "size" else "ChksumHash"
        if isinstance(e, er.FetchFailed):
            return {"file is too small": "TooSmall", "file is empty": "Empty",
                    "ran out of urls to fetch from": "NoMoreUris"}.get(e.message, "FetchFailed:" + str(e.message))
        return type(e).__name__


# ----------------------------------------------------------------------------- oracle (B, Python)
def oracle(c, run):
    """-> (failed clauses, in_known_class) judged with the real digests"""
    res, final, events = run
    t = c["target"]
    ok = res is True
    bad = []
    if ok and not py_verified(t, final):
        bad.append("only_verified: a path was returned but the file is not verified")
    if ok and final is not None and any(
            hashlib.new(ALGS[a], final).digest() != hashlib.new(ALGS[a], r).digest() for a, r in t["hashes"]):
        bad.append("never_wrong_checksum: a file with a wrong checksum was reported as fetched")
    good = py_verified(t, c["f0"]) or any(
        py_verified(t, e[3]) and (not py_nochk(t) or e[4] == 0) for e in events)
    if good and not ok:
        bad.append("uses_every_attempt: an attempt left a verified file but no path was returned")
    prev = c["f0"]
    for e in events:
        if py_partial(t, prev) and (e[2] != prev or (c["hasres"] and not e[0])):
            bad.append("partial_kept_for_resume: a resumable partial file was not handed to the resume command")
        if e[0] and not py_partial(t, prev):
            bad.append("partial_kept_for_resume: resume command used on something that is not a resumable partial file")
        prev = e[3]
    if py_partial(t, prev) and final != prev:
        bad.append("partial_kept_for_resume: the partial file left by the last attempt is gone")
    known = False
    if not ok and not t["bad"] and len(events) != min(c["attempts"], c["nuris"]):
        if isinstance(res, Err) and res.kind in ("ChksumSize", "ChksumHash") and py_stuck(t, prev):
            known = True
        else:
            bad.append("uses_every_attempt: gave up although attempts and URIs remained")
    return bad, known


def kf_abort_on_bad_file(c, run):
    """known class: the fetch raised ChksumFailure on an oversized / wrong-checksum file
    although attempts and URIs remained"""
    return oracle(c, run)[1]


def later_robust_good(c, nevents):
    """is there an outcome within the remaining budget whose fetch role leaves a verified file whatever it finds?"""
    t = c["target"]
    for o in c["outs"][nevents:min(c["attempts"], c["nuris"])]:
        a, s = o[0]  # a bad file cannot be resumed: the continuation is a fresh run of the fetch command
        if a[0] == "W" and py_verified(t, a[1]) and (not py_nochk(t) or s == 0):
            return True
    return False


# ----------------------------------------------------------------------------- generators
def class_outcome(cls, rng):
    """the five outcome classes of the statement, as realistic fetch/resume behaviours"""
    st = lambda dflt: dflt if rng.random() < 0.7 else rng.choice([0, 1, 92])  # noqa: E731
    if cls == "N":
        s = st(1)
        return ((("L",), s), (("L",), s))
    if cls == "P":
        s = st(1)
        return ((("W", WANT[:3]), s), (("C", WANT[:5]), s))
    if cls == "O":
        s = st(0)
        return ((("W", WANT + b"XX"), s), (("C", WANT + b"XX"), s))
    if cls == "C":
        s = st(0)
        return ((("W", b"abcdXfgh"), s), (("C", b"abcdXfgh"), s))
    s = st(0)
    return ((("W", WANT), s), (("C", WANT), s))


TARGET_KINDS = {
    "size+hash": mk_target(len(WANT), ((1, WANT),)),
    "size": mk_target(len(WANT)),
    "hash": mk_target(None, ((1, WANT),)),
    "none": mk_target(None),
}
CONTENTS = [b"", b"abc", b"abcde", b"abX", WANT, b"abcdXfgh", WANT + b"XX", b"zz", b"defgh", b"q"]


def gen_seq(rng):
    for n in (1, 2, 3, 4):
        for seq in itertools.product("NPOCG", repeat=n):
            for tk, t in TARGET_KINDS.items():
                for nuris in (1, 2, 3):
                    yield {"attempts": n, "target": t, "nuris": nuris,
                           "outs": [class_outcome(x, rng) for x in seq], "f0": None, "hasres": True,
                           "tag": ("seq", "".join(seq), tk, nuris)}


def rand_action(rng):
    k = rng.choice("LWWWACCR")
    if k in "LR":
        return (k,)
    return (k, rng.choice(CONTENTS))


def gen_rand(rng, n):
    refs = [WANT, WANT, WANT, b"abcdXfgh", b"abc", b""]
    for _ in range(n):
        ref = rng.choice(refs)
        size = rng.choice([None, len(ref), len(ref), len(WANT)])
        nh = rng.choice([0, 1, 1, 2])
        hashes = tuple((a, ref if rng.random() < 0.85 else rng.choice(refs)) for a in rng.sample([1, 2], nh))
        t = mk_target(size, hashes)
        attempts = rng.choice([0, 1, 1, 2, 2, 3, 3, 4, 5])
        outs = []
        for _i in range(rng.choice([attempts, attempts, attempts, max(0, attempts - 1), attempts + 1])):
            if rng.random() < 0.5:
                outs.append(class_outcome(rng.choice("NPOCG"), rng))
            else:
                outs.append(((rand_action(rng), rng.choice([0, 0, 1, 92])),
                             (rand_action(rng), rng.choice([0, 0, 1, 92]))))
        yield {"attempts": attempts, "target": t, "nuris": rng.choice([0, 1, 2, 3, 3, 4, 4]), "outs": outs,
               "f0": rng.choice([None, None, None] + CONTENTS), "hasres": rng.random() < 0.75,
               "urilist": rng.random() < 0.4, "tag": ("rand",)}


def gen_malformed(rng, n):
    for _ in range(n):
        kind = rng.choice(["bad", "nouris", "zero"])
        t = mk_target(rng.choice([None, len(WANT)]), ((1, WANT),) if rng.random() < 0.5 else (), bad=(kind == "bad"))
        attempts = 0 if kind == "zero" else rng.choice([1, 2, 3])
        yield {"attempts": attempts, "target": t, "nuris": 0 if kind == "nouris" else rng.choice([1, 2]),
               "outs": [class_outcome(rng.choice("NPOCG"), rng) for _ in range(attempts)],
               "f0": rng.choice([None, WANT, b"abc", b"", WANT + b"XX"]), "hasres": True, "tag": ("malf", kind)}


def state_class(t, f):
    if f is None:
        return "absent"
    if py_verified(t, f):
        return "good"
    if py_partial(t, f):
        return "partial"
    if py_stuck(t, f):
        return "bad"
    return "empty"


# ----------------------------------------------------------------------------- uri_list stream
def gen_urilists(rng, n):
    hosts = ["http://h1", "http://h2/", "ftp://h3//", "h4/x", "/"]
    for _ in range(n):
        src = []
        for _i in range(rng.choice([0, 1, 2, 3, 4, 5])):
            k = rng.choice("ssmmdu")
            if k == "s":
                src.append(("str", rng.choice(["http://a/f", "u1", "x/"])))
            elif k == "m":
                src.append(("sub", tuple(rng.sample(hosts, rng.choice([0, 1, 2, 3]))), rng.choice(["d/f.tar", "f", "/lead", ""])))
            elif k == "u":
                src.append(("sub", (), "d/f"))  # unknown mirror: no hosts
            else:
                src.append(("mirror", tuple(rng.sample(hosts, rng.choice([0, 1, 2])))))
        yield (rng.choice(["f.tar", "x"]), src)


def c_usrc(e):
    if e[0] == "str":
        return "(UStr %s)" % cstr(e[1])
    if e[0] == "sub":
        return "(USub %s %s)" % (clist([cstr(h) for h in e[1]], "str"), cstr(e[2].lstrip("/")))
    return "(UMirror %s)" % clist([cstr(h) for h in e[1]], "str")


def run_urilist(fname, src):
    from pkgcore.fetch import default_mirror, mirror, uri_list

    ul = uri_list(fname)
    for e in src:
        if e[0] == "str":
            ul.add_uri(e[1])
        elif e[0] == "sub":
            ul.add_mirror(mirror(e[1], "m"), e[2])
        else:
            ul.add_mirror(default_mirror(e[1], "d"))
    ul.finalize()
    return list(ul)


# ----------------------------------------------------------------------------- main
def main(chk: Check):
    chk.rule("fetch runs against the real fetcher with a scripted fetch/resume program: every sequence of the "
             "five outcome classes up to 4 attempts x 4 target kinds x 1-3 URIs, plus random targets/initial "
             "files/actions/statuses; non-trivial = distinct (target kind, sequence of file-state classes seen "
             "at the verifications, commands used, result kind) with at least one spawned command")
    ok = chk.build(["C36/Prop_C36.vo"])
    if ok:
        chk.check_assumptions("C36/Prop_C36.v")
    chk.lint(["C36"])
    chk.check_fingerprint(ANCHORS)
    rng = chk.rng
    drv = Driver(chk.scratch)
    terms = Terms()

    # ---- cases: (case, real spawn?)
    plan = []
    corpus = Path(__file__).resolve().parent.parent / "corpus" / "C36"
    for p in sorted(corpus.glob("*.json")) if corpus.is_dir() else []:
        import json
        plan.append((decode_case(json.loads(p.read_text())), True))
    seq = list(gen_seq(rng))
    if not (chk.thorough):
        # quick: every sequence up to 3 attempts, a seeded sample of the 4-attempt ones
        long4 = sorted({c["tag"][1] for c in seq if c["attempts"] == 4})
        keep4 = set(rng.sample(long4, 60))
        seq = [c for c in seq if c["attempts"] < 4 or c["tag"][1] in keep4]
    real_idx = set(rng.sample(range(len(seq)), min(chk.n(200, len(seq)), len(seq))))
    for i, c in enumerate(seq):
        plan.append((c, i in real_idx))
    for j, c in enumerate(gen_rand(rng, chk.n(800, 12000))):
        plan.append((c, j % chk.n(8, 3) == 0))
    for j, c in enumerate(gen_malformed(rng, chk.n(40, 400))):
        plan.append((c, j % 4 == 0))

    # Spawning costs 10 ms on an idle machine and 50 times that on a loaded one: the cases marked
    # for the real spawn run first, inside a wall-clock box (with a guaranteed minimum); what does
    # not fit goes through the in-process stand-in.  The set of cases never depends on the clock.
    import time
    box = 300.0 if chk.thorough else (45.0 if chk.fingerprint_changed else 15.0)
    floor = 400 if chk.thorough else 12
    t_real0 = time.time()
    plan.sort(key=lambda cr: not cr[1])
    cases, runs, n_real = [], [], 0
    prop_bad, known_hits = [], []
    for c, real in plan:
        real = real and (n_real < floor or time.time() - t_real0 < box)
        run = drv.run(c, real)
        n_real += real
        runs.append((c, run, real))
        cases.append((terms.case(c), terms.run(run)))
        stream = c["tag"][0]
        chk.count(stream)
        res, final, events = run
        if events:
            t = c["target"]
            tk = (t["size"] is not None, len(t["hashes"]))
            states = [state_class(t, c["f0"])] + [state_class(t, e[3]) for e in events]
            chk.nontrivial((tk, tuple(states), tuple(e[0] for e in events), res if res is True else res.kind))
        bad, known = oracle(c, run)
        if bad:
            prop_bad.append((c, run, bad))
        if known:
            known_hits.append((c, run))
    t_cases = time.time() - t_real0
    chk.note(f"{n_real} of {len(plan)} fetch cases went through the real spawn_bash, the rest through the "
             "in-process stand-in interpreting the same command line")
    for k in (0, len(runs) // 3, 2 * len(runs) // 3, len(runs) - 1):
        c, run, real = runs[k]
        chk.sample({"stream": c["tag"][0], "input": show_case(c), "impl": run, "real_spawn": real})

    # ---- uri_list stream
    ucases = []
    for fname, src in gen_urilists(rng, chk.n(250, 4000)):
        got = impl_call(lambda: run_urilist(fname, src))
        ucases.append((cpair(cstr(fname), clist([c_usrc(e) for e in src], "usrc")), got))
        if len(src) >= 2 and not isinstance(got, Err) and len(got) >= 2:
            chk.nontrivial(("uris", fname, tuple(src)))
    chk.count("uris", len(ucases))

    # ---- evaluate model and spec inside Coq
    mism, legacy_mism, spec_bad, spec_known = [], [], [], []
    if ok:
        r = chk.coq_eval("fetch", IMPORTS, "input", cases,
                         ["mismatches run_fetch cases",
                          "where_ (fun i r => negb (spec_fetch_ok i r)) cases",
                          "where_ gave_up_stuck cases"], preamble=terms.preamble())
        if r is not None:
            mism, spec_bad, spec_known = r
            if mism:  # does the tree behave like the unpatched loop?
                r2 = chk.coq_eval("legacy", IMPORTS, "input", cases, ["mismatches run_fetch_legacy cases"],
                                  preamble=terms.preamble())
                legacy_mism = r2[0] if r2 is not None else [0]
        ru = chk.coq_eval("uris", IMPORTS, "str * list usrc", ucases, ["mismatches run_uris cases"])
        if ru is not None:
            for i in ru[0][:3]:
                chk.violation("correspondence",
                              {"what": "uri_list.__iter__ and Model_C36.uri_iter disagree",
                               "input": ucases[i][0], "implementation": ucases[i][1]}, no_input=True)

    chk.note("phase seconds: fetch cases %.1f, coq evaluation %.1f" % (t_cases, time.time() - t_real0 - t_cases))
    # ---- property failures (B)
    have_input = bool(prop_bad or spec_bad)
    seen_what = set()
    simple = lambda x: (x[0]["attempts"] == 0, len(x[1][2]) == 0, x[0]["attempts"], len(x[0]["outs"]),  # noqa: E731
                        x[0]["f0"] is not None, x[0]["tag"][0] != "seq")
    for c, run, bad in sorted(prop_bad, key=simple):
        if bad[0] in seen_what:
            continue
        seen_what.add(bad[0])
        chk.violation("property", {"what": bad[0], "all_failed_clauses": bad, "input": show_case(c),
                                   "implementation": run})
    if spec_bad and not prop_bad:
        for i in spec_bad[:3]:
            chk.violation("property", {"what": "Spec_C36.spec_fetch_ok rejects the implementation's run",
                                       "input": show_case(runs[i][0]), "implementation": runs[i][1]})
    # the known class must be the same set for the Python oracle and the Coq spec
    kset = {id(c) for c, _ in known_hits}
    cset = {id(runs[i][0]) for i in spec_known}
    if ok and kset != cset:
        i = next(k for k, (c, _, _) in enumerate(runs) if (id(c) in kset) != (id(c) in cset))
        chk.violation("correspondence", {"what": "Python oracle and Spec_C36.gave_up_stuck classify a run differently",
                                         "input": show_case(runs[i][0]), "implementation": runs[i][1]}, no_input=True)
    for c, run in sorted(known_hits, key=lambda x: (x[0]["attempts"], len(x[0]["outs"]))):
        if later_robust_good(c, len(run[2])):
            if not chk.known_finding(KF_ABORT, {"input": show_case(c), "implementation": run}):
                chk.violation("property", {"what": "uses_every_attempt: ChksumFailure raised although a later attempt "
                                                   "within the budget would have left a verified file",
                                           "input": show_case(c), "implementation": run})
            break

    # ---- model / implementation disagreement (A)
    if mism:
        legacy = ok and not legacy_mism
        for i in mism[:3]:
            c, run, real = runs[i]
            what = ("implementation and Model_C36.fetch disagree (theorems of Prop_C36 no longer speak about this code)")
            if legacy:
                what = ("the tree behaves exactly like the UNPATCHED attempt loop (Model_C36.fetch_legacy): the file "
                        "left by the last allowed attempt is not verified; apply fixes/C36-verify-after-last-attempt.patch")
            chk.violation("correspondence", {"what": what, "input": show_case(c), "implementation": run,
                                             "real_spawn": real}, no_input=not have_input)
    shutil.rmtree(drv.root, ignore_errors=True)


# ----------------------------------------------------------------------------- (de)serialising cases
def show_case(c):
    def act(a):
        return [a[0]] + [x.decode() for x in a[1:]]
    t = c["target"]
    return {"attempts": c["attempts"], "nuris": c["nuris"], "hasres": c["hasres"],
            "urilist": bool(c.get("urilist")),
            "f0": None if c["f0"] is None else c["f0"].decode(),
            "target": {"size": t["size"], "hashes": [[a, r.decode()] for a, r in t["hashes"]], "bad": t["bad"]},
            "outs": [[[act(fa), fs], [act(ra), rs]] for (fa, fs), (ra, rs) in c["outs"]]}


def decode_case(d):
    def act(a):
        return tuple([a[0]] + [x.encode() for x in a[1:]])
    t = d["target"]
    return {"attempts": d["attempts"], "nuris": d["nuris"], "hasres": d["hasres"], "urilist": d.get("urilist", False),
            "f0": None if d["f0"] is None else d["f0"].encode(),
            "target": mk_target(t["size"], tuple((a, r.encode()) for a, r in t["hashes"]), t["bad"]),
            "outs": [((act(fa), fs), (act(ra), rs)) for (fa, fs), (ra, rs) in d["outs"]],
            "tag": ("corpus",)}


def replay(chk: Check, data):
    import json
    inp = data.get("detail", {}).get("input")
    if not isinstance(inp, dict) or "outs" not in inp:
        print("no fetch case recorded in this file")
        return
    c = decode_case(inp)
    drv = Driver(chk.scratch)
    terms = Terms()
    run = drv.run(c, True)
    print("implementation (real spawn):", json.dumps(_js(run)))
    print("python oracle:", oracle(c, run))
    term = terms.case(c)
    r = chk.coq_eval("replay", IMPORTS, "input", [(term, terms.run(run))],
                     ["mismatches run_fetch cases", "where_ (fun i r => negb (spec_fetch_ok i r)) cases",
                      "where_ gave_up_stuck cases"], preamble=terms.preamble())
    print("model agrees:", r is not None and not r[0], "| spec accepts:", r is not None and not r[1],
          "| known class:", r is not None and bool(r[2]))


def _js(x):
    from .common import jsonable
    return jsonable(x)
