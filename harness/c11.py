"""C11 — stacked USE configuration applies entries in order, including -* resets (DESIGN §6 C11).

Streams
  hist   a *program* (tree of ChunkedDataDict operations: add_bare_global / update_from_stream /
         merge / freeze / clone / optimize) is run on the real API; the flag sets rendered for six
         packages (3 keys x 2 versions) and several pre_defaults are compared with
           (A) Model_C11.run + render, evaluated inside Coq,
           (B) the plain left fold of the program's entries (Spec_C11.apply_history inside Coq,
               and the same fold in Python directly on the implementation's sets).
         Failures of (B) are shrunk and classified by the predicates class_a .. class_d below.
  build  _build_cp_atom_payload(sequence, restrict) -> exact chunk tuple  vs Model_C11.build (A)
  split  one package.use line through the real package_use_splitter AND the real domain.pkg_use
         conversion (split_negations(stable_unique(tokens))) -> token tuple + (neg, pos) entry
           (A) vs Model_C11.split_line / to_chunk,
           (B) both results vs the token-by-token meaning of the INPUT line on probe sets
               (Spec_C11.spec_split_ok / spec_line_ok in Coq, and the same oracle in Python);
               failures of the (neg, pos) form inside class (e) are the known finding line-conflict.
  After any (A) disagreement the case and its neighbours (sub-histories / sub-sequences / sub-lines)
  are searched with the (B) oracle applied to the implementation (search_around).
"""

import logging

import concurrent.futures as cf

from .common import Check, Err, Raw, clist, cpair, impl_call, jsonable

IMPORTS = ("From Coq Require Import List NArith ZArith Bool.\n"
           "From Verif Require Import Base.Val C11.Model_C11 C11.Spec_C11 C11.Class_C11.")
PRE = "Open Scope N_scope."
ANCHORS = [
    "ebuild/misc.py::ChunkedDataDict", "ebuild/misc.py::_build_cp_atom_payload",
    "ebuild/misc.py::incremental_chunked", "ebuild/misc.py::chunked_data",
    "ebuild/domain.py::package_use_splitter", "ebuild/domain.py::domain.enabled_use",
    "ebuild/profiles.py::ProfileStack._collapse_use_dict",
]
KINDS = {"AttributeError": "refused", "KeyError": "refused"}

KEYS = ["cata/p1", "cata/p2", "catb/p1"]
GLOB_SRC = {3: "cata/*", 5: "*/p1", 4: "catb/*"}
PKG_IDS = [(0, 1), (0, 2), (1, 1), (1, 2), (2, 1), (2, 2)]
PLAIN = ["a", "b", "c", "d", "e"]
# names: USE_EXPAND names and values may themselves contain underscores (python_targets_python3_12,
# cpu_flags_x86_sse4_1): prefix 3 is "py_t", value "x_1".  id = base id for plain flags, 100*P + (base-10)
# for value `base` of prefix P.
BASE_ID = {"a": 10, "b": 11, "c": 12, "d": 13, "e": 14, "x_1": 15}
PFX_NAME = {1: "foo", 2: "bar", 3: "py_t"}
FLAG_ID = dict(BASE_ID)
for _p, _n in PFX_NAME.items():
    FLAG_ID[_n + "_*"] = _p
    for _b, _i in BASE_ID.items():
        FLAG_ID["%s_%s" % (_n, _b)] = 100 * _p + _i - 10
FLAG_ID["*"] = 0
UNIVERSE = ["a", "b", "c", "d", "e", "x_1", "foo_a", "foo_b", "foo_x_1", "bar_a", "py_t_a", "py_t_x_1"]
GEN_FLAGS = ["a", "b", "c", "d", "foo_a", "foo_b", "foo_x_1", "bar_a", "py_t_a", "py_t_x_1"]
WILD = ["*", "foo_*", "bar_*", "py_t_*"]
PRES = [(), ("a", "foo_a", "foo_x_1", "e"), ("b", "c", "foo_b", "bar_a", "py_t_a", "py_t_x_1")]


# ----------------------------------------------------------------------------- programs
# chunk = (scope, neg tuple, pos tuple); scope = ('A',) | ('G', mask) | ('S', k) | ('V', k, v)
# prog  = ('new',) | ('add', prog, chunk, bare:bool, raw:(neg,pos)) | ('merge', p, q)
#       | ('freeze', p) | ('clone', p, unfreeze) | ('opt', p, cached)
def entries(prog):
    t = prog[0]
    if t == "new":
        return []
    if t == "add":
        return entries(prog[1]) + [prog[2]]
    if t == "merge":
        return entries(prog[1]) + entries(prog[2])
    return entries(prog[1])


def applies(scope, pkg):
    k, v = pkg
    if scope[0] == "A":
        return True
    if scope[0] == "G":
        return bool(scope[1] >> k & 1)
    if scope[0] == "S":
        return scope[1] == k
    return scope[1] == k and scope[2] == v


def is_wild(t):
    return t == "*" or t.endswith("_*")


def clears(w, f):
    return w == "*" or (w.endswith("_*") and f.startswith(w[:-2]))


def fold(ents, pkg, pre):
    """the property's reference: left fold of the four rules over the applicable entries"""
    s = set(pre)
    for sc, neg, pos in ents:
        if not applies(sc, pkg):
            continue
        for t in neg:
            if t == "*":
                s = set()
            elif t.endswith("_*"):
                s = {f for f in s if not f.startswith(t[:-2])}
            else:
                s.discard(t)
        for t in pos:
            s.add(t)
    return s


def spec_chunk(c):
    return c[0][0] in "GV"


# ---- classifiers of the recorded finding classes (mirrors of class_a/b/c of Proofs_C11.v)
def class_a(prog, pkg):
    """a wildcard negation (-* / -P_*) that has to clear a flag added by an earlier applicable
    entry, or: a wildcard in a version/glob-specific entry followed by a global/simple-atom entry
    adding a flag it matches (collapsing moves the latter in front of the former).
    Mirror of Class_C11.class_a_tight (which lies inside the class_a the theorem excludes)."""
    E = [c for c in entries(prog) if applies(c[0], pkg)]
    for j, cj in enumerate(E):
        ws = [t for t in cj[1] if is_wild(t)]
        if not ws:
            continue
        for ci in E[:j]:
            if any(clears(w, f) for w in ws for f in ci[2]):
                return True
        if spec_chunk(cj):
            for ci in E[j + 1:]:
                if not spec_chunk(ci) and any(clears(w, f) for w in ws for f in ci[2]):
                    return True
    return False


def class_c(prog, pkg):
    """two version/glob-specific applicable entries give one flag opposite signs (the second pass of
    the collapse drops the later one as redundant against the collapsed global value).
    Mirror of Class_C11.class_c."""
    E = [c for c in entries(prog) if applies(c[0], pkg) and spec_chunk(c)]
    sneg = set().union(*[set(c[1]) for c in E]) if E else set()
    spos = set().union(*[set(c[2]) for c in E]) if E else set()
    return bool(sneg & spos)


def _stale(prog):
    """Mirror of Class_C11.stale: (keys, stale_keys, cloned, stale_seed, hazard_keys, frozen).  A key
    is stale when a non-empty global entry, a merge bringing globals or an optimize happened after
    its list was created; the seed of a clone is stale when that happened after the clone; hazard =
    an atom-keyed entry added to a stale key, or a new key created (add/merge) from a stale seed."""
    t = prog[0]
    if t == "new":
        return (frozenset(), frozenset(), False, False, frozenset(), False)
    if t == "add":
        keys, st, cl, ss, hz, fr = _stale(prog[1])
        c = prog[2]
        if c[0][0] in "AG":
            if not c[1] and not c[2]:
                return (keys, st, cl, ss, hz, fr)
            return (keys, keys, cl, cl, hz, fr)
        k = c[0][1]
        if k in st or (k not in keys and ss):
            hz = hz | {k}
        return (keys | {k}, st, cl, ss, hz, fr)
    if t == "merge":
        keys, st, cl, ss, hz, fr = _stale(prog[1])
        qk, _qs, _qc, _qss, qh, _qf = _stale(prog[2])
        hasg = any(c[0][0] in "AG" and (c[1] or c[2]) for c in entries(prog[2]))
        nk = keys | qk
        hz = hz | qh | ((qk - keys) if ss else frozenset())
        if hasg:
            return (nk, nk, cl, cl, hz, fr)
        return (nk, st | (qk if ss else frozenset()), cl, ss, hz, fr)
    if t == "freeze":
        keys, st, cl, ss, hz, fr = _stale(prog[1])
        return (keys, st, cl, ss, hz, True)
    if t == "clone":
        keys, st, cl, ss, hz, fr = _stale(prog[1])
        if fr and not prog[2]:
            return (keys, st, cl, ss, hz, fr)
        return (keys, st, True, False, hz, False)
    keys, st, cl, ss, hz, fr = _stale(prog[1])  # opt
    return (keys, keys, cl, cl, hz, fr)


def class_b(prog, pkg):
    """a package entry is added for a key whose chunk list predates a later global entry / merge of
    globals / optimize (the re-collapsed globals are appended behind the package entries), or a new
    key is created in a clone after its globals changed (seeded from the source's globals).
    Mirror of Class_C11.class_b."""
    return pkg[0] in _stale(prog)[4]


def refusal_kind(prog):
    """None, 'frozen' (a mutation of a frozen dict: refused by design) or 'opt' (a mutation of a
    key list that optimize() left as a tuple in an unfrozen dict)."""
    def go(p):  # -> (frozen, tupkeys, keys, hasglob) or str
        t = p[0]
        if t == "new":
            return (False, frozenset(), frozenset(), False)
        r = go(p[1])
        if isinstance(r, str):
            return r
        fr, tup, keys, hg = r
        if t == "add":
            c = p[2]
            if c[0][0] in "AG":
                if not c[1] and not c[2]:
                    return r
                if fr:
                    return "frozen"
                if tup:
                    return "opt"
                return (fr, tup, keys, True)
            if fr:
                return "frozen"
            if c[0][1] in tup:
                return "opt"
            return (fr, tup, keys | {c[0][1]}, hg)
        if t == "merge":
            q = go(p[2])
            if isinstance(q, str):
                return q
            _qf, _qt, qk, qg = q
            if not qk and not qg:
                return r
            if fr:
                return "frozen"
            if qk & tup or (qg and tup - qk):
                return "opt"
            return (fr, tup, keys | qk, hg or qg)
        if t == "freeze":
            return (True, tup, keys, hg)
        if t == "clone":
            if fr and not p[2]:
                return r
            return (False, frozenset(), keys, hg)
        return (fr, keys, keys, hg)  # opt
    r = go(prog)
    return r if isinstance(r, str) else None


def class_d(prog, pkg=None):
    """optimize() on an unfrozen dict followed by a mutation touching an existing key."""
    return refusal_kind(prog) == "opt"


CLASSES = [("wildcard-collapse", class_a), ("stale-globals-reappended", class_b),
           ("specific-delta-dropped", class_c)]


# ----------------------------------------------------------------------------- Coq terms
def c_ids(ts):
    return "[" + ";".join(str(FLAG_ID[t]) for t in ts) + "]"


def c_chunk(c):
    sc, neg, pos = c
    head = ("cA" if sc[0] == "A" else "cG %d" % sc[1] if sc[0] == "G" else "cS %d" % sc[1] if sc[0] == "S"
            else "cV %d %d" % (sc[1], sc[2]))
    return "(%s %s %s)" % (head, c_ids(neg), c_ids(pos))


def c_scope(sc):
    return ("KAll" if sc[0] == "A" else "(KGlob %d)" % sc[1] if sc[0] == "G" else "(KSimple %d)" % sc[1]
            if sc[0] == "S" else "(KVer %d %d)" % (sc[1], sc[2]))


def c_prog(p):
    t = p[0]
    if t == "new":
        return "PNew"
    if t == "add":
        return "(PAdd %s %s)" % (c_prog(p[1]), c_chunk(p[2]))
    if t == "merge":
        return "(PMerge %s %s)" % (c_prog(p[1]), c_prog(p[2]))
    if t == "freeze":
        return "(PFreeze %s)" % c_prog(p[1])
    if t == "clone":
        return "(PClone %s %s)" % (c_prog(p[1]), "true" if p[2] else "false")
    return "(POpt %s)" % c_prog(p[1])


def show_prog(p):
    t = p[0]
    if t == "new":
        return "new"
    if t == "add":
        sc, neg, pos = p[2]
        if sc[0] == "A":
            who = "*/*"
        elif sc[0] == "G":
            who = GLOB_SRC.get(sc[1], "?")
        elif sc[0] == "S":
            who = KEYS[sc[1]]
        else:
            who = "=%s-%d" % (KEYS[sc[1]], sc[2])
        return "%s; %s %s" % (show_prog(p[1]), who, " ".join(["-" + n for n in neg] + list(pos)))
    if t == "merge":
        return "%s; merge{%s}" % (show_prog(p[1]), show_prog(p[2]))
    if t == "clone":
        return "%s; clone(unfreeze=%s)" % (show_prog(p[1]), p[2])
    return "%s; %s" % (show_prog(p[1]), {"freeze": "freeze", "opt": "optimize"}[t])


# ----------------------------------------------------------------------------- generators
def gen_entry(rng, wild):
    r = rng.random()
    if r < 0.35:
        sc = ("A",)
    elif r < 0.45:
        sc = ("G", rng.choice([3, 5, 4]))
    elif r < 0.75:
        sc = ("S", rng.randrange(3))
    else:
        sc = ("V", rng.randrange(3), rng.choice([1, 2]))
    fl = rng.sample(GEN_FLAGS, rng.choice([1, 1, 2, 2, 3]))
    neg = tuple(f for f in fl if rng.random() < 0.4)
    pos = tuple(f for f in fl if f not in neg)
    if rng.random() < wild:
        neg = (rng.choice(WILD),) + neg
    raw = (neg, pos)
    if sc[0] in "AG":  # _add_global stores tuple(set(..)): the harness supplies Python's set order
        neg, pos = tuple(set(neg)), tuple(set(pos))
    return (sc, neg, pos), raw


def gen_prog(rng, n, wild, depth=0, malformed=False):
    p = ("new",)
    frozen = False
    merged = []
    for _ in range(n):
        r = rng.random()
        if frozen and not malformed and r < 0.7:
            p = ("clone", p, True)
            frozen = False
            continue
        if r < 0.62:
            c, raw = gen_entry(rng, wild)
            p = ("add", p, c, rng.random() < 0.5, raw)
        elif r < 0.74 and depth < 2:
            if merged and rng.random() < 0.3:
                q = rng.choice(merged)   # diamond: the SAME (frozen, hence shared) dict merged a second time
            else:
                q = gen_prog(rng, rng.randrange(0, 4), wild, depth + 1)
                if rng.random() < 0.7:
                    q = ("freeze", q)
                    merged.append(q)
            p = ("merge", p, q)
        elif r < 0.80:
            if malformed or rng.random() < 0.3:
                p = ("opt", p, rng.random() < 0.5)
            else:  # optimize where later mutation is possible: on a frozen dict, then clone
                p = ("clone", ("opt", ("freeze", p), rng.random() < 0.5), True)
        elif r < 0.90:
            p = ("clone", ("freeze", p), True)
        elif r < 0.94:
            p = ("clone", p, rng.random() < 0.5)
        else:
            p = ("freeze", p)
            frozen = True
    return p


def shrink_prog(prog, fails):
    """greedy: replace a node by one of its children while `fails` stays true"""
    def variants(p):
        t = p[0]
        if t == "new":
            return
        if t == "merge":
            yield p[1]
            yield p[2]
            for v in variants(p[1]):
                yield ("merge", v, p[2])
            for v in variants(p[2]):
                yield ("merge", p[1], v)
            return
        yield p[1]
        for v in variants(p[1]):
            yield (t, v) + tuple(p[2:])
    for _ in range(200):
        for v in variants(prog):
            if fails(v):
                prog = v
                break
        else:
            return prog
    return prog


def main(chk: Check):
    logging.getLogger("pkgcore").setLevel(logging.CRITICAL)
    from pkgcore.ebuild import domain as domain_mod
    from pkgcore.ebuild.atom import atom
    from pkgcore.ebuild.misc import ChunkedDataDict, _build_cp_atom_payload, chunked_data
    from pkgcore.restrictions import packages
    from pkgcore.test.misc import FakePkg
    from pkgcore.util.parserestrict import parse_match

    chk.rule("hist: random operation trees (1-8 steps; add_bare_global / update_from_stream of */*, glob, "
             "cat/pkg and =cat/pkg-v entries over 7 flags incl. 2 USE_EXPAND prefixes, 15-25% of entries "
             "with -*/-foo_*/-bar_*; merge of sub-histories, freeze, clone, optimize) rendered for 6 "
             "packages x 3 pre_defaults; non-trivial = >=3 entries applicable to some package with at "
             "least one negation; build: random chunk sequences; split: random package.use lines with "
             "-*, USE_EXPAND sections and invalid tokens")
    ok = chk.build(["C11/Prop_C11.vo"])
    # Print Assumptions is re-checked in the background while the cases are generated and evaluated
    bg = cf.ThreadPoolExecutor(max_workers=1)
    fut_assumptions = bg.submit(chk.check_assumptions, "C11/Prop_C11.v") if ok else None
    chk.lint(["C11"])
    chk.check_fingerprint(ANCHORS)
    rng = chk.rng

    def budget(quick, escalated, thorough):
        """quick tier on a changed fingerprint gets an intermediate budget (keeps the run to minutes)"""
        return thorough if chk.thorough else (escalated if chk.fingerprint_changed else quick)

    GLOBS = {m: parse_match(s) for m, s in GLOB_SRC.items()}
    SIMPLE = [atom(k) for k in KEYS]
    VER = {(k, v): atom("=%s-%d" % (KEYS[k], v)) for k in range(3) for v in (1, 2)}
    PKGS = {(k, v): FakePkg("%s-%d" % (KEYS[k], v)) for k, v in PKG_IDS}

    def real_scope(s):
        if s[0] == "A":
            return packages.AlwaysTrue
        if s[0] == "G":
            return GLOBS[s[1]]
        if s[0] == "S":
            return SIMPLE[s[1]]
        return VER[(s[1], s[2])]

    def run_real(prog, shared=None):
        """equal frozen sub-histories of one program are built once and are the SAME object wherever they
        occur (as cached profile nodes are when reached through two parents)"""
        if shared is None:
            shared = {}
        t = prog[0]
        if t == "new":
            return ChunkedDataDict()
        if t == "add":
            d = run_real(prog[1], shared)
            c, bare, raw = prog[2], prog[3], prog[4]
            if c[0][0] == "A" and bare:
                d.add_bare_global(raw[0], raw[1])
            else:
                d.update_from_stream([chunked_data(real_scope(c[0]), raw[0], raw[1])])
            return d
        if t == "merge":
            d = run_real(prog[1], shared)
            d.merge(run_real(prog[2], shared))
            return d
        if t == "freeze":
            if prog in shared:
                return shared[prog]
            d = run_real(prog[1], shared)
            d.freeze()
            shared[prog] = d
            return d
        if t == "clone":
            return run_real(prog[1], shared).clone(unfreeze=prog[2])
        d = run_real(prog[1], shared)
        d.optimize(cache={} if prog[2] else None)
        return d

    def render_real(prog, pres, maker=None):
        """-> Err | {(pre_index, pkg): set}"""
        def f():
            d = maker() if maker is not None else run_real(prog)
            return {(i, pk): set(d.render_pkg(PKGS[pk], pre)) for i, pre in enumerate(pres) for pk in PKG_IDS}
        return impl_call(f, kinds=KINDS)

    def vz(nums):
        return Raw("(vz [" + ";".join(str(int(n)) for n in nums) + "]%Z)") if nums else Raw("(vz [])")

    def bits(st):
        return sum(1 << i for i, f in enumerate(UNIVERSE) if f in st)

    def canon(res, pres):
        if isinstance(res, Err):
            return res
        return vz([bits(res[(i, pk)]) for i in range(len(pres)) for pk in PKG_IDS])

    # ------------------------------------------------------------------ hist stream
    def A_(neg, pos):
        return (("A",), tuple(set(neg)), tuple(set(pos))), (tuple(neg), tuple(pos))

    def K_(sc, neg, pos):
        return (sc, tuple(neg), tuple(pos)), (tuple(neg), tuple(pos))

    def P(*steps):
        p = ("new",)
        for s in steps:
            if s == "freeze":
                p = ("freeze", p)
            elif s == "opt":
                p = ("opt", p, False)
            elif s == "clone":
                p = ("clone", p, True)
            else:
                p = ("add", p, s[0], True, s[1])
        return p

    witnesses = [
        # (a) global `a` then global `-* b`
        P(A_((), ("a",)), A_(("*",), ("b",))),
        P(A_((), ("foo_a",)), A_(("foo_*",), ("b",))),
        # (b) g(a); k(-a); g(b); k(+d)
        P(A_((), ("a",)), K_(("S", 0), ("a",), ()), A_((), ("b",)), K_(("S", 0), (), ("d",))),
        # (b) clone, new global, new key by merge: the new key misses the global
        ("merge", P("freeze", "clone", A_((), ("a",))), P(K_(("V", 2, 2), (), ("b",)))),
        # (c) */* -a ; =cata/p1-1 a ; =cata/p1-1 -a ; collapsed by optimize
        P(A_(("a",), ()), K_(("V", 0, 1), (), ("a",)), K_(("V", 0, 1), ("a",), ()), "freeze", "opt"),
        # round 4: USE_EXPAND values / names containing underscores must be cleared by -PREFIX_* (correct on the
        # unchanged tree: no collapse between the entries; also via pre_defaults of a single entry)
        P(K_(("S", 0), (), ("py_t_x_1", "py_t_a", "foo_x_1")), K_(("V", 0, 1), ("py_t_*",), ("a",))),
        P(K_(("S", 1), (), ("foo_x_1", "foo_a")), "freeze", "clone", K_(("S", 1), ("foo_*",), ("foo_b",))),
        P(A_(("foo_*", "py_t_*"), ("b",))),
        # round 5: the same frozen dict object merged twice, another one overriding it in between
        ("merge", ("merge", ("merge", ("new",), P(A_((), ("a",)), K_(("S", 0), (), ("b",)), "freeze")),
                   P(A_(("a",), ()), K_(("S", 0), ("b",), ()), "freeze")),
         P(A_((), ("a",)), K_(("S", 0), (), ("b",)), "freeze")),
        # (d) optimize on an unfrozen dict, then add to the same key
        P(K_(("S", 0), (), ("a",)), "opt", K_(("S", 0), (), ("b",))),
    ]
    progs = list(witnesses)
    n_rand = budget(330, 1500, 6000)
    for i in range(n_rand):
        progs.append(gen_prog(rng, rng.randrange(1, 9), 0.15 if i % 3 else 0.25))
    for i in range(budget(40, 120, 500)):  # malformed stream: mutations of frozen / optimized dicts
        progs.append(gen_prog(rng, rng.randrange(2, 7), 0.1, malformed=True))


    # ---- wiring: the same histories driven through the real profile / domain glue
    import types
    from pkgcore.ebuild import profiles as profiles_mod

    def raw_prop(cls, name):
        return cls.__dict__[name].function.args[0]   # the function under load_property

    class _Node:   # identity equality/hash, like a cached ProfileNode
        pass

    def fake_node(g, ents):
        """a profile node with use.mask lines for the global entry g and one package.use.mask
        line per entry; parsed by the real ProfileNode code"""
        n = _Node()
        n.eapi_atom = atom
        n._parse_use = types.MethodType(profiles_mod.ProfileNode._parse_use, n)
        n._parse_package_use = types.MethodType(profiles_mod.ProfileNode._parse_package_use, n)
        glines = [("-" + t, 1, "use.mask") for t in (g[1][0] if g else ())] + \
                 [(t, 1, "use.mask") for t in (g[1][1] if g else ())]
        n.use_mask = raw_prop(profiles_mod.ProfileNode, "use_mask")(n, glines)
        plines = [("%s %s" % (str(real_scope(c[0])), " ".join(["-" + t for t in raw[0]] + list(raw[1]))), 1, "p")
                  for c, raw in ents]
        n.pkg_use_mask = raw_prop(profiles_mod.ProfileNode, "pkg_use_mask")(n, plines)
        n.pkg_use = raw_prop(profiles_mod.ProfileNode, "pkg_use")(n, plines)
        n.masked_use = profiles_mod.ProfileNode.__dict__["masked_use"].function(n)
        return n

    def gen_wire(rng):
        nodes = []
        for _ in range(rng.choice([1, 2, 2, 3])):
            g = None
            if rng.random() < 0.7:
                while True:
                    c, raw = gen_entry(rng, 0.15)
                    if c[0][0] == "A":
                        # _parse_use goes through split_negations of the lines: negatives first
                        g = (c, raw)
                        break
            ents, seen = [], set()
            for _ in range(rng.choice([0, 1, 2])):
                c, raw = gen_entry(rng, 0.1)
                if c[0][0] in "SV" and c[0][1] not in seen:
                    seen.add(c[0][1])
                    ents.append((c, raw))
            nodes.append((g, ents))
        use = []
        for f in rng.sample(GEN_FLAGS, rng.choice([0, 1, 2, 3])):
            use.append(("-" if rng.random() < 0.35 else "") + f)
        if rng.random() < 0.15:
            use.append("-" + rng.choice(WILD))
        user = [gen_entry(rng, 0.15) for _ in range(rng.choice([0, 1, 2, 3]))]
        # stack order; with diamond inheritance a node reached through two parents is ONE object that occurs
        # twice (base, left, base, right, top)
        order = list(range(len(nodes)))
        if len(nodes) >= 2 and rng.random() < 0.4:
            i = rng.randrange(len(nodes) - 1)
            order.insert(rng.randrange(i + 2, len(order) + 1), i)
        return nodes, use, user, order

    def wire_progs(nodes, use, user, order=None):
        """-> (prog_masked, maker_masked, prog_enabled, maker_enabled)"""
        def node_base(g):
            b = ("new",)
            if g is not None:
                b = ("add", b, g[0], True, g[1])
            return ("freeze", b)

        def adds(p, ents):
            for c, raw in ents:
                p = ("add", p, c, False, raw)
            return p
        pm = ("new",)
        pu = ("new",)
        order = list(range(len(nodes))) if order is None else order
        for g, ents in (nodes[i] for i in order):
            nb = node_base(g)
            pm = ("merge", pm, ("freeze", adds(("clone", nb, True), ents)) if ents else nb)
            pu = ("merge", pu, ("freeze", adds(("new",), ents)))
        pm = ("freeze", pm)
        pu = ("freeze", pu)
        neg = tuple(t[1:] for t in use if t[0] == "-")
        pos = tuple(t for t in use if t[0] != "-")
        uc = (("A",), tuple(set(neg)), tuple(set(pos)))
        pe = ("freeze", adds(("merge", ("add", ("new",), uc, True, (neg, pos)), pu), user))

        def stack():
            objs = [fake_node(g, ents) for g, ents in nodes]
            return types.SimpleNamespace(stack=[objs[i] for i in order])

        def mk_masked():
            return profiles_mod.ProfileStack._collapse_use_dict(stack(), "masked_use")

        def mk_enabled():
            prof = types.SimpleNamespace(pkg_use=profiles_mod.ProfileStack._collapse_use_dict(stack(), "pkg_use"))
            dom = types.SimpleNamespace(use=tuple(use), profile=prof,
                                        pkg_use=tuple((real_scope(c[0]), raw) for c, raw in user))
            return domain_mod.domain.__dict__["enabled_use"].function(dom)
        return pm, mk_masked, pe, mk_enabled

    makers = {}
    # round 5: diamond inheritance (one node object twice in the stack); the first branch overrides the shared node
    def _g(neg, pos):
        return A_(neg, pos)
    wire_corpus = [
        ([(_g((), ("a",)), []), (_g(("a",), ()), []), (None, [])], [], [], [0, 1, 0, 2]),
        ([(None, [K_(("S", 0), (), ("b",))]), (None, [K_(("S", 0), ("b",), ("c",))]), (_g((), ("d",)), [])],
         ["a"], [], [0, 1, 0, 2]),
    ]
    for wc in wire_corpus:
        pm, mkm, pe, mke = wire_progs(*wc)
        for pr, mk in ((pm, mkm), (pe, mke)):
            makers[len(progs)] = mk
            progs.append(pr)
    for i in range(budget(45, 200, 800)):
        pm, mkm, pe, mke = wire_progs(*gen_wire(rng))
        for pr, mk in ((pm, mkm), (pe, mke)):
            makers[len(progs)] = mk
            progs.append(pr)

    hist_cases, hist_meta = [], []
    seen_classes = {}
    unclassified = []
    refusals = {"frozen": 0, "opt": 0}
    n_fail_pairs = 0
    n_shrunk = 0
    for pi, prog in enumerate(progs):
        pres = [PRES[0], rng.choice(PRES[1:])]
        res = render_real(prog, pres, makers.get(pi))
        if not isinstance(res, Err):
            extra = set().union(*res.values()) - set(UNIVERSE)
            if extra:
                chk.violation("property", {"what": "rendered set contains flags nobody configured",
                                           "input": show_prog(prog), "flags": sorted(extra)})
                continue
        term = cpair(c_prog(prog), clist([c_ids(p) for p in pres], "list N"))
        hist_cases.append((term, canon(res, pres)))
        hist_meta.append((prog, pres))
        ents = entries(prog)
        if any(sum(1 for c in ents if applies(c[0], pk)) >= 3 and any(c[1] for c in ents if applies(c[0], pk))
               for pk in PKG_IDS):
            chk.nontrivial(term)
        # ---- (B) directly on the implementation
        if isinstance(res, Err):
            kind = refusal_kind(prog)
            if kind == "frozen":
                refusals["frozen"] += 1
            elif kind == "opt":
                refusals["opt"] += 1
                if not chk.known_finding("optimize-then-mutate", show_prog(prog)):
                    unclassified.append({"what": "mutation after optimize() raises", "input": show_prog(prog)})
            else:
                unclassified.append({"what": "the operations raise %s although nothing is frozen" % res.kind,
                                     "input": show_prog(prog)})
            continue
        bad = [(i, pk) for (i, pk), s in res.items() if s != fold(ents, pk, pres[i])]
        if not bad:
            continue
        n_fail_pairs += len(bad)
        done = set()
        for i, pk in bad:
            if pk in done:
                continue
            done.add(pk)
            pre = pres[i]

            def fails(q, pk=pk, pre=pre):
                r = render_real(q, [pre])
                return (not isinstance(r, Err)) and r[(0, pk)] != fold(entries(q), pk, pre)
            # shrink before classifying (the first 60/200/400 failures of a run; later ones are classified as they are,
            # and shrunk after all if no class claims them)
            if pi in makers:      # driven through the profile/domain glue: shrinking would bypass the glue
                small = prog
            else:
                small = shrink_prog(prog, fails) if n_shrunk < budget(60, 200, 400) else prog
                n_shrunk += 1
                if small is prog and not any(pred(small, pk) for _cid, pred in CLASSES):
                    small = shrink_prog(prog, fails)
            cls = [cid for cid, pred in CLASSES if pred(small, pk)]
            r = render_real(small, [pre]) if small is not prog else {(0, pk): res[(i, pk)]}
            ex = {"history": show_prog(small), "package": "%s-%d" % (KEYS[pk[0]], pk[1]),
                  "pre_defaults": list(pre),
                  "rendered": sorted(r[(0, pk)]) if not isinstance(r, Err) else repr(r),
                  "left_fold": sorted(fold(entries(small), pk, pre)),
                  "prog": small, "pkg": list(pk), "via": "profile/domain wiring" if pi in makers else "direct API"}
            if cls and chk.known_finding(cls[0], ex):
                seen_classes[cls[0]] = seen_classes.get(cls[0], 0) + 1
            else:
                unclassified.append({"what": "rendered flag set differs from applying the entries in order",
                                     "input": ex})
    chk.count("hist", len(hist_cases))
    chk.note(f"hist: {n_fail_pairs} (history,package,pre) results differ from the left fold, all in recorded "
             f"classes {seen_classes}; refusals: {refusals}")
    for s in hist_cases[6:: max(1, len(hist_cases) // 3)][:3]:
        chk.sample({"stream": "hist", "input": s[0], "impl": "refused" if isinstance(s[1], Err) else s[1].term})

    # ------------------------------------------------------------------ build stream
    def gen_seq(rng):
        k = rng.randrange(3)
        seq = []
        for _ in range(rng.choice([0, 1, 2, 2, 3, 3, 4, 5, 6])):
            r = rng.random()
            sc = ("A",) if r < 0.3 else ("S", k) if r < 0.55 else ("V", k, rng.choice([1, 2])) if r < 0.85 \
                else ("G", rng.choice([3, 5, 4]))
            fl = rng.sample(GEN_FLAGS, rng.choice([1, 2, 2, 3]))
            neg = [f for f in fl if rng.random() < 0.45]
            pos = [f for f in fl if f not in neg]
            if rng.random() < 0.1:
                neg.insert(0, rng.choice(WILD))
            if rng.random() < 0.06 and pos:
                neg.append(pos[0])  # the same flag negated and added by one chunk
            seq.append((sc, tuple(neg), tuple(pos)))
        return seq, (("A",) if rng.random() < 0.3 else ("S", k))

    def enc_scope(key):
        if key == packages.AlwaysTrue:
            return [0, 0, 0]
        for m, g in GLOBS.items():
            if key is g or key == g:
                return [1, m, 0]
        for k, a in enumerate(SIMPLE):
            if key == a:
                return [2, k, 0]
        for (k, v), a in VER.items():
            if key == a:
                return [3, k, v]
        return [9, 0, 0]

    def enc_chunks(chunks):
        out = []
        for c in chunks:
            out += enc_scope(c.key) + [len(c.neg)] + [FLAG_ID[t] for t in c.neg] + [len(c.pos)] + [FLAG_ID[t] for t in c.pos]
        return vz(out)

    build_cases, build_meta = [], []
    for _ in range(budget(300, 1000, 4000)):
        seq, restrict = gen_seq(rng)
        res = impl_call(lambda: enc_chunks(_build_cp_atom_payload(
            [chunked_data(real_scope(sc), n, p) for sc, n, p in seq], real_scope(restrict))))
        build_cases.append((cpair(clist([c_chunk(c) for c in seq], "chunk"), c_scope(restrict)), res))
        build_meta.append((seq, restrict))
        if len(seq) >= 3:
            chk.nontrivial(build_cases[-1][0])
    chk.count("build", len(build_cases))
    chk.sample({"stream": "build", "input": build_cases[3][0], "impl": getattr(build_cases[3][1], "term", None)})

    # ------------------------------------------------------------------ split stream (package.use lines)
    # abstract tokens: ('pos', b) ('neg', b) ('star',) ('hdr', p, spelling) ('bad', text); b in a/b/c
    PFX = PFX_NAME
    raw_pkg_use = domain_mod.domain.__dict__["pkg_use"].function.args[0]   # the function under load_property

    def gen_line(rng):
        def val():
            b = rng.choice(["a", "b", "c", "x_1"])
            return ("neg", b) if rng.random() < 0.35 else ("pos", b)

        def hdr():
            p = rng.choice([1, 2, 3])
            return ("hdr", p, ["", "FOO:", "BAR:", "PY_T:"][p] if rng.random() < 0.8 else ["", "foo:", "Bar:", "Py_t:"][p])
        out = []
        if rng.random() < 0.7:   # structured: plain part (flags, maybe -* in the middle), then USE_EXPAND sections
            for _ in range(rng.choice([0, 1, 2, 3, 4])):
                out.append(("star",) if rng.random() < 0.2 else val())
            for _ in range(rng.choice([0, 1, 1, 2])):
                out.append(hdr())
                for _ in range(rng.choice([0, 1, 2, 3])):
                    out.append(("star",) if rng.random() < 0.2 else val())
        else:
            for _ in range(rng.choice([1, 2, 3, 4, 5, 6, 8])):
                r = rng.random()
                out.append(("star",) if r < 0.12 else hdr() if r < 0.28 else val())
        if rng.random() < 0.08:
            out.insert(rng.randrange(len(out) + 1), ("bad", rng.choice(["%bad", "a!b", "-a%"])))
        return out or [val()]

    def line_text(at):
        return " ".join({"pos": lambda t: t[1], "neg": lambda t: "-" + t[1], "star": lambda t: "-*",
                         "hdr": lambda t: t[2], "bad": lambda t: t[1]}[t[0]](t) for t in at)

    def line_term(at):
        return clist([{"pos": lambda t: "(TPos %d)" % FLAG_ID[t[1]], "neg": lambda t: "(TNeg %d)" % FLAG_ID[t[1]],
                       "star": lambda t: "TStar", "hdr": lambda t: "(THdr %d)" % t[1],
                       "bad": lambda t: "TBad"}[t[0]](t) for t in at], "tok")

    def tok_apply(t, s):
        """one output-style token applied to a set: flag, -flag, -*, -PREFIX_*"""
        if t == "-*":
            return set()
        if t.startswith("-") and t.endswith("_*"):
            return {f for f in s if not f.startswith(t[1:-2])}
        if t.startswith("-"):
            return s - {t[1:]}
        return s | {t}

    def line_meaning(at, s):
        """the line, token by token, with the USE_EXPAND section state (the property's reference)"""
        s, sec = set(s), None
        for t in at:
            if t[0] == "hdr":
                sec = PFX[t[1]]
            elif t[0] == "star":
                s = tok_apply("-*" if sec is None else "-%s_*" % sec, s)
            elif t[0] in ("pos", "neg"):
                name = t[1] if sec is None else "%s_%s" % (sec, t[1])
                s = tok_apply(name if t[0] == "pos" else "-" + name, s)
        return s

    def ref_split(at):
        """mirror of Model_C11.split_line (only used to decide class (e))"""
        if any(t[0] == "bad" for t in at):
            return None
        out, acc, buf, sec = [], [], [], None
        for t in at:
            if t[0] == "hdr":
                out += acc if sec is None else buf
                acc, buf, sec = [], [], PFX[t[1]]
            elif sec is None:
                if t[0] == "star":
                    acc = ["-*"]
                else:
                    acc.append(t[1] if t[0] == "pos" else "-" + t[1])
            elif t[0] == "star":
                buf = []
                out.append("-%s_*" % sec)
            else:
                buf.append(("%s_%s" if t[0] == "pos" else "-%s_%s") % (sec, t[1]))
        return out + (acc if sec is None else buf)

    def clears_tok(u, f):
        return u == "-*" or (u.startswith("-") and u.endswith("_*") and f.startswith(u[1:-2])) or u == "-" + f

    def class_e(at):
        """mirror of Class_C11.class_e: the correct token list of the line adds a flag that a later
        token of the line negates or clears"""
        o = ref_split(at)
        if o is None:
            return False
        return any(not t.startswith("-") and any(clears_tok(u, t) for u in o[i + 1:]) for i, t in enumerate(o))

    def impl_line(at):
        """-> Err | None (line rejected) | (token tuple, neg tuple, pos tuple) through the real splitter
        and the real domain.pkg_use conversion"""
        line = "cata/p1 " + line_text(at)

        def f():
            out = list(domain_mod.package_use_splitter([(line, 1, "package.use")]))
            if not out:
                return None
            conv = raw_pkg_use(types.SimpleNamespace(), domain_mod.package_use_splitter([(line, 1, "package.use")]))
            return (tuple(out[0][1]), tuple(conv[0][1][0]), tuple(conv[0][1][1]))
        return impl_call(f)

    LINE_PROBES = [set(), {"a", "b", "foo_a", "foo_b", "foo_x_1", "bar_a", "py_t_x_1"}, {"c", "foo_a", "py_t_x_1"}]

    def line_failure(at, res):
        """(B) for one line directly on the implementation -> None or a description"""
        if isinstance(res, Err):
            return {"what": "the line raises " + res.kind}
        bad = any(t[0] == "bad" for t in at)
        if res is None or bad:
            if (res is None) != bad:
                return {"what": "line %s" % ("rejected although every token is valid" if res is None
                                             else "accepted although it holds an invalid token")}
            return None
        toks, neg, pos = res
        for s0 in LINE_PROBES:
            want = line_meaning(at, s0)
            s1 = set(s0)
            for t in toks:
                s1 = tok_apply(t, s1)
            if s1 != want:
                return {"what": "the splitter's tokens, applied in order, do not mean what the line says",
                        "tokens": list(toks), "start": sorted(s0), "got": sorted(s1), "line_means": sorted(want)}
            s2 = set(s0)
            if "*" in neg:
                s2 = set()
            for n in neg:
                if n.endswith("_*"):
                    s2 = {f for f in s2 if not f.startswith(n[:-2])}
            s2 = (s2 - set(neg)) | set(pos)
            if s2 != want:
                return {"what": "the (neg, pos) entry made of the line does not mean what the line says",
                        "tokens": list(toks), "neg": list(neg), "pos": list(pos), "start": sorted(s0),
                        "got": sorted(s2), "line_means": sorted(want)}
        return None

    def enc_name(n):
        return FLAG_ID.get(n, 9999)

    def enc_out(t):
        if t == "-*":
            return 2000
        if t.startswith("-") and t.endswith("_*"):
            return 3000 + FLAG_ID.get(t[1:], 999)
        return 1000 + enc_name(t[1:]) if t.startswith("-") else enc_name(t)

    def canon_line(res):
        if isinstance(res, Err) or res is None:
            return res
        toks, neg, pos = res
        return Raw("(VL [%s; %s; %s])" % (vz([enc_out(t) for t in toks]).term, vz([enc_name(n) for n in neg]).term,
                                           vz([enc_name(n) for n in pos]).term))

    line_witnesses = [[("pos", "a"), ("neg", "a")],                                         # class (e)
                      [("hdr", 3, "PY_T:"), ("pos", "x_1"), ("hdr", 1, "FOO:"), ("pos", "x_1"), ("star",), ("pos", "a")],
                      [("pos", "a"), ("pos", "b"), ("star",), ("pos", "c"), ("hdr", 1, "FOO:"), ("pos", "a")]]
    split_cases, split_meta, line_unclassified, line_fail_idx, n_line_conflict = [], [], [], set(), 0
    for n in range(budget(300, 1000, 4000)):
        at = line_witnesses[n] if n < len(line_witnesses) else gen_line(rng)
        res = impl_line(at)
        split_cases.append((line_term(at), canon_line(res)))
        split_meta.append(at)
        if len(at) >= 3 and any(t[0] in ("star", "hdr") for t in at):
            chk.nontrivial(split_cases[-1][0])
        fail = line_failure(at, res)
        if fail is not None:
            line_fail_idx.add(n)
            fail["line"] = "cata/p1 " + line_text(at)
            if class_e(at) and "entry made of the line" in fail["what"] and chk.known_finding("line-conflict", fail):
                n_line_conflict += 1
            else:
                line_unclassified.append({"what": fail.pop("what"), "input": fail})
    chk.count("split", len(split_cases))
    chk.note(f"split: {n_line_conflict} lines whose one-chunk form differs from the line's meaning, all in class line-conflict")
    chk.sample({"stream": "split", "input": split_cases[1][0], "impl": getattr(split_cases[1][1], "term", None)})

    # ------------------------------------------------------------------ (B) searches around an (A) disagreement
    def dec_scope(key):
        e = enc_scope(key)
        return {0: ("A",), 1: ("G", e[1]), 2: ("S", e[1]), 3: ("V", e[1], e[2])}.get(e[0], ("?",))

    def build_failure(seq, restrict):
        """collapse_is_fold_partial as an oracle on the implementation: within its premises the collapsed
        sequence must render like the sequence"""
        r = impl_call(lambda: [(dec_scope(c.key), tuple(c.neg), tuple(c.pos)) for c in _build_cp_atom_payload(
            [chunked_data(real_scope(sc), n, p) for sc, n, p in seq], real_scope(restrict))])
        if isinstance(r, Err):
            return {"what": "_build_cp_atom_payload raises " + r.kind}
        for pk in PKG_IDS:
            app = [c for c in seq if applies(c[0], pk)]
            if not applies(restrict, pk) or any(not spec_chunk(c) and not applies(c[0], pk) for c in seq):
                continue
            if any(is_wild(t) for c in app for t in c[1]) or any(set(c[1]) & set(c[2]) for c in app):
                continue
            sp = [c for c in app if spec_chunk(c)]
            if set().union(*[set(c[1]) for c in sp] or [set()]) & set().union(*[set(c[2]) for c in sp] or [set()]):
                continue
            for pre in PRES:
                if fold(r, pk, pre) != fold(seq, pk, pre):
                    return {"what": "the collapsed chunk sequence renders differently from the sequence",
                            "package": "%s-%d" % (KEYS[pk[0]], pk[1]), "pre_defaults": list(pre),
                            "collapsed_renders": sorted(fold(r, pk, pre)), "sequence_renders": sorted(fold(seq, pk, pre))}
        return None

    def sublists(xs):
        yield list(xs)
        for i in range(len(xs)):
            yield xs[:i] + xs[i + 1:]
        for i in range(len(xs)):
            for j in range(i + 1, len(xs)):
                yield xs[:i] + xs[i + 1:j] + xs[j + 1:]
        for i in range(1, len(xs)):
            yield xs[:i]

    def prog_variants(p, depth=2):
        yield p
        if depth == 0 or p[0] == "new":
            return
        subs = [p[1]] + ([p[2]] if p[0] == "merge" else [])
        for q in subs:
            yield from prog_variants(q, depth - 1)
        if p[0] == "merge":
            for v in prog_variants(p[1], depth - 1):
                yield ("merge", v, p[2])
            for v in prog_variants(p[2], depth - 1):
                yield ("merge", p[1], v)
        else:
            for v in prog_variants(p[1], depth - 1):
                yield (p[0], v) + tuple(p[2:])

    def search_around(name, idx):
        """after model and implementation disagree on a case: look for a PROPERTY failure (outside the
        recorded classes) on that case and on its neighbours, with the oracle applied to the implementation"""
        found = []
        if name == "split":
            for at in sublists(split_meta[idx]):
                if not at:
                    continue
                fail = line_failure(at, impl_line(at))
                if fail is not None and not (class_e(at) and "entry made of the line" in fail["what"]):
                    fail["line"] = "cata/p1 " + line_text(at)
                    found.append({"what": fail.pop("what"), "input": fail})
                    break
        elif name == "build":
            seq, restrict = build_meta[idx]
            for sub in sublists(seq):
                fail = build_failure(sub, restrict)
                if fail is not None:
                    fail["sequence"] = [c_chunk(c) for c in sub]
                    found.append({"what": fail.pop("what"), "input": fail})
                    break
        else:
            prog, _pres = hist_meta[idx]
            seen = set()
            for q in prog_variants(prog, 2):
                if q in seen:
                    continue
                seen.add(q)
                r = render_real(q, PRES)
                if isinstance(r, Err):
                    if refusal_kind(q) is None:
                        found.append({"what": "the operations raise %s although nothing is frozen" % r.kind,
                                      "input": {"history": show_prog(q), "prog": q}})
                        break
                    continue
                hit = None
                for (i, pk), st in r.items():
                    if st != fold(entries(q), pk, PRES[i]) and not any(pred(q, pk) for _c, pred in CLASSES):
                        hit = (i, pk, st)
                        break
                if hit:
                    i, pk, st = hit
                    found.append({"what": "rendered flag set differs from applying the entries in order",
                                  "input": {"history": show_prog(q), "package": "%s-%d" % (KEYS[pk[0]], pk[1]),
                                            "pre_defaults": list(PRES[i]), "rendered": sorted(st),
                                            "left_fold": sorted(fold(entries(q), pk, PRES[i])), "prog": q,
                                            "pkg": list(pk), "via": "direct API"}})
                    break
        return found

    # ------------------------------------------------------------------ evaluate model and spec inside Coq
    streams = [
        ("hist", "prog * list (list N)", hist_cases,
         ["mismatches run_hist cases", "where_ (fun i r => negb (spec_hist_ok i r)) cases",
          "where_ (fun i _ => existsb (class_a_tight (fst i)) pkgs) cases",
          "where_ (fun i _ => existsb (class_b (fst i)) pkgs) cases",
          "where_ (fun i _ => existsb (class_c (fst i)) pkgs) cases"], 500),
        ("build", "list chunk * scope", build_cases, ["mismatches run_build cases"], 400),
        ("split", "list tok", split_cases,
         ["mismatches run_split cases",
          "where_ (fun i r => negb (spec_split_ok i r && spec_line_ok i r)) cases",
          "where_ (fun i _ => class_e i) cases"], 400),
    ]
    a_bad = []
    around = []
    with cf.ThreadPoolExecutor(max_workers=3) as ex:
        futs = [(st, ex.submit(chk.coq_eval, st[0], IMPORTS, st[1], st[2], st[3], st[4], PRE) if ok else None)
                for st in streams]
        results = [(st, f.result() if f is not None else None) for st, f in futs]
    for (name, ty, cases, evals, shard), r in results:
        if r is None:
            continue
        for i in r[0][:3]:
            a_bad.append((name, cases[i]))
            around += search_around(name, i)
        if name == "split":
            if set(r[1]) != line_fail_idx:
                chk.violation("correspondence",
                              {"what": "Spec_C11.spec_split_ok/spec_line_ok (in Coq) and the harness's line oracle "
                                       "disagree on which implementation results are wrong",
                               "only_coq": [split_cases[i][0] for i in sorted(set(r[1]) - line_fail_idx)[:3]],
                               "only_python": [split_cases[i][0] for i in sorted(line_fail_idx - set(r[1]))[:3]]},
                              no_input=True)
            py_e = {i for i, at in enumerate(split_meta) if class_e(at)}
            if py_e != set(r[2]):
                chk.violation("correspondence",
                              {"what": "the harness classifier of 'line-conflict' and Class_C11.class_e disagree",
                               "cases": [split_cases[i][0] for i in sorted(py_e ^ set(r[2]))[:3]]}, no_input=True)
        if name == "hist":
            # the Coq-side fold must agree with the Python-side fold on which cases fail
            coq_fail = set(r[1])
            py_fail = set()
            for idx, (prog, pres) in enumerate(hist_meta):
                res = hist_cases[idx][1]
                if isinstance(res, Err):
                    continue
                want = vz([bits(fold(entries(prog), pk, pre)) for pre in pres for pk in PKG_IDS])
                if want.term != res.term:
                    py_fail.add(idx)
            for j, (cid, pred) in enumerate(CLASSES):
                py_cls = {idx for idx, (prog, _p) in enumerate(hist_meta) if any(pred(prog, pk) for pk in PKG_IDS)}
                if py_cls != set(r[2 + j]):
                    chk.violation("correspondence",
                                  {"what": f"the harness classifier of '{cid}' and its Coq definition in Class_C11 "
                                           "disagree", "cases": sorted(py_cls ^ set(r[2 + j]))[:5]}, no_input=True)
            if coq_fail != py_fail:
                chk.violation("correspondence",
                              {"what": "Spec_C11.apply_history (in Coq) and the harness's left fold disagree "
                                       "on which implementation results are wrong",
                               "only_coq": sorted(coq_fail - py_fail)[:5], "only_python": sorted(py_fail - coq_fail)[:5]},
                              no_input=True)
    if fut_assumptions is not None:
        fut_assumptions.result()
    bg.shutdown()
    prop_fail, seen_fail = [], set()
    for u in unclassified[:3] + line_unclassified[:3] + around[:3]:
        key = repr(jsonable(u))
        if key not in seen_fail:
            seen_fail.add(key)
            prop_fail.append(u)
    for u in prop_fail:
        chk.violation("property", u)
    for name, case in a_bad:
        chk.violation("correspondence",
                      {"what": f"implementation and Model_C11 disagree on stream '{name}' "
                               "(the theorems of Prop_C11 no longer speak about this code)",
                       "input": case[0], "implementation": getattr(case[1], "term", case[1])},
                      no_input=not prop_fail)


def _tuplify(x):
    return tuple(_tuplify(i) for i in x) if isinstance(x, list) else x


def replay(chk, data):
    """re-run one recorded history: implementation (direct API), left fold, classes"""
    inp = data.get("detail", {}).get("input", {})
    if not isinstance(inp, dict) or "prog" not in inp:
        print("nothing to replay: the record holds no operation tree")
        return
    from pkgcore.ebuild.atom import atom
    from pkgcore.ebuild.misc import ChunkedDataDict, chunked_data
    from pkgcore.restrictions import packages
    from pkgcore.test.misc import FakePkg
    from pkgcore.util.parserestrict import parse_match
    prog, pk, pre = _tuplify(inp["prog"]), tuple(inp["pkg"]), tuple(inp.get("pre_defaults", ()))

    def scope(s):
        return (packages.AlwaysTrue if s[0] == "A" else parse_match(GLOB_SRC[s[1]]) if s[0] == "G"
                else atom(KEYS[s[1]]) if s[0] == "S" else atom("=%s-%d" % (KEYS[s[1]], s[2])))

    def run(p):
        t = p[0]
        if t == "new":
            return ChunkedDataDict()
        if t == "merge":
            d = run(p[1])
            d.merge(run(p[2]))
            return d
        d = run(p[1])
        if t == "add":
            if p[2][0][0] == "A" and p[3]:
                d.add_bare_global(p[4][0], p[4][1])
            else:
                d.update_from_stream([chunked_data(scope(p[2][0]), p[4][0], p[4][1])])
        elif t == "freeze":
            d.freeze()
        elif t == "clone":
            return d.clone(unfreeze=p[2])
        elif t == "opt":
            d.optimize(cache={} if p[2] else None)
        return d
    got = impl_call(lambda: sorted(run(prog).render_pkg(FakePkg("%s-%d" % (KEYS[pk[0]], pk[1])), pre)), kinds=KINDS)
    print("history        :", show_prog(prog))
    print("package        : %s-%d   pre_defaults: %s" % (KEYS[pk[0]], pk[1], list(pre)))
    print("implementation :", got)
    print("left fold      :", sorted(fold(entries(prog), pk, pre)))
    print("classes        :", [cid for cid, pred in CLASSES if pred(prog, pk)] + (["optimize-then-mutate"] if class_d(prog) else []))
