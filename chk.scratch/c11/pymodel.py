"""Python reference of the Gallina model (development aid only)."""
# chunk = (scope, neg tuple, pos tuple); scope = ('A',) | ('G', mask) | ('S', k) | ('V', k, v)
def lockable(c): return c[0][0] in 'AS'
def build(seq, restrict):
    seq = list(seq)
    if len(seq) <= 1:
        return list(seq)
    locked = {}
    l = []
    for c in reversed(seq):
        if lockable(c):
            for n in c[1]: locked.setdefault(n, False)
            for p in c[2]: locked.setdefault(p, True)
            continue
        neg = tuple(x for x in c[1] if x not in locked)
        pos = tuple(x for x in c[2] if x not in locked)
        if neg or pos: l.append((c[0], neg, pos))
    if not locked:
        return list(reversed(l))
    out = [(restrict, tuple(k for k, v in locked.items() if not v), tuple(k for k, v in locked.items() if v))]
    for key, neg, pos in reversed(l):
        neg = tuple(x for x in neg if locked.get(x, True))
        pos = tuple(x for x in pos if not locked.get(x, False))
        if neg or pos: out.append((key, neg, pos))
    return out

class D:
    def __init__(s):
        s.g = []; s.d = {}; s.frozen = False; s.seed = None; s.tup = set()   # d: insertion-ordered dict key-> list
    def seedlist(s): return list(s.g) if s.seed is None else list(s.seed)
    def get(s, k):
        if k not in s.d: s.d[k] = s.seedlist()
        return s.d[k]
class Frozen(Exception): pass

def expand_globals(d, new):
    d.g = d.g + list(new)
    if new[0][0] == ('A',):
        d.g = build(d.g, ('A',))

def add_global(d, c):
    if not c[1] and not c[2]: return
    if d.frozen: raise Frozen
    if d.tup: raise Frozen
    for k in d.d: d.d[k] = d.d[k] + [c]
    expand_globals(d, [c])

def add_key(d, c):
    if d.frozen: raise Frozen
    k = c[0][1]
    if k in d.tup: raise Frozen
    l = d.get(k)
    for x in d.g:
        if x not in l: l.append(x)
    l.append(c)

def merge(d, q):
    if d.frozen and (q.d or q.g): raise Frozen
    qkeys = list(q.d)
    if any(k in d.tup for k in qkeys): raise Frozen
    if q.g and any(k in d.tup and k not in q.d for k in d.d): raise Frozen
    for k in qkeys:
        d.get(k).extend(q.d[k])
    if q.g:
        for k in list(d.d):
            if k not in q.d:
                d.d[k] = d.d[k] + list(q.g)
        expand_globals(d, q.g)

def clone(d, unfreeze):
    o = D()
    if d.frozen and not unfreeze:
        o.g = list(d.g); o.d = {k: list(v) for k, v in d.d.items()}; o.frozen = True; o.seed = d.seed; o.tup = set(d.tup)
        return o
    o.seed = list(d.g)
    for k, v in d.d.items():
        o.d[k] = list(d.g) + list(v)
    o.g = list(d.g)
    return o

def optimize(d):
    for k in list(d.d):
        d.d[k] = build(d.d[k], ('S', k))
    d.g = build(d.g, ('A',))
    if not d.frozen: d.tup = set(d.d)

def applies(scope, pkg):
    k, v = pkg
    if scope[0] == 'A': return True
    if scope[0] == 'G': return bool(scope[1] >> k & 1)
    if scope[0] == 'S': return scope[1] == k
    return scope[1] == k and scope[2] == v

def clears(t, f, pfx):
    return t == '*' or (t.endswith('_*') and f.startswith(t[:-2]))

def apply_chunk(c, s):
    s = set(s)
    if '*' in c[1]: s.clear()
    for t in c[1]:
        if t.endswith('_*'):
            s -= {f for f in s if f.startswith(t[:-2])}
    s -= set(c[1]); s |= set(c[2])
    return s

def render(d, pkg, pre):
    items = d.d.get(pkg[0])
    if items is None: items = d.g
    s = set(pre)
    for c in items:
        if applies(c[0], pkg): s = apply_chunk(c, s)
    return s

def run(prog):
    t = prog[0]
    if t == 'new': return D()
    if t == 'add':
        d = run(prog[1]); c = prog[2]
        if c[0][0] in 'AG': add_global(d, c)
        else: add_key(d, c)
        return d
    if t == 'merge':
        d = run(prog[1]); q = run(prog[2]); merge(d, q); return d
    if t == 'freeze':
        d = run(prog[1]); d.frozen = True; return d
    if t == 'clone':
        return clone(run(prog[1]), prog[2])
    if t == 'opt':
        d = run(prog[1]); optimize(d); return d
    raise ValueError(t)

def entries(prog):
    t = prog[0]
    if t == 'new': return []
    if t == 'add': return entries(prog[1]) + [prog[2]]
    if t == 'merge': return entries(prog[1]) + entries(prog[2])
    return entries(prog[1])

def fold(ents, pkg, pre):
    s = set(pre)
    for c in ents:
        if applies(c[0], pkg): s = apply_chunk(c, s)
    return s
