(* Prop_C43.v — the property theorems of C43 and nothing else. *)
From Coq Require Import List NArith ZArith Bool.
Import ListNotations.
From Verif Require Import Base.Val C42.Model_C42 C43.Model_C43 C43.Spec_C43 C43.Proofs_C43.

(* a successful collapse gives, for the class and for every key, the value of the nearest
   definition in breadth-first (level) order of the inheritance tree — [nearest] quantifies over
   every value v, so the nearest definition is returned regardless of what the value is
   (empty string, False, empty list included) *)
Theorem nearest_definition : forall e name c cfg,
  collapse e name = inr (c, cfg) ->
  exists order, LevelOrder e [root e name] order
    /\ nearest s_class order (Some c)
    /\ forall k, nearest (fun s => assoc k (s_keys s)) order (cfg k).
Proof. exact nearest_definition_proof. Qed.
Print Assumptions nearest_definition.

(* in particular the section's own setting is returned whatever its value (falsy or not) *)
Theorem own_setting_wins : forall e name c cfg k v,
  collapse e name = inr (c, cfg) ->
  assoc k (s_keys (head_sec (root e name))) = Some v -> cfg k = Some v.
Proof. exact own_setting_wins_proof. Qed.
Print Assumptions own_setting_wins.

(* the worklist visits the sections level by level, left to right (any fuel, any start entry) *)
Theorem bfs_order_characterisation : forall e fuel name st order,
  bfs fuel e [(name, st)] [name] [] = inr order -> LevelOrder e [(name, st)] order.
Proof. exact bfs_order_proof. Qed.
Print Assumptions bfs_order_characterisation.

(* later config sources override earlier ones for the same name; a self-inherit continues below *)
Theorem source_override : forall e src n s,
  assoc n src = Some s -> stack_of (e ++ [src]) n = s :: stack_of e n.
Proof. exact source_override_proof. Qed.
Print Assumptions source_override.

Theorem cycle_reported : forall e name, has_cycle e name -> exists x, collapse e name = inl x.
Proof. exact cycle_reported_proof. Qed.
Print Assumptions cycle_reported.

Theorem missing_reported : forall e name, has_missing e name -> exists x, collapse e name = inl x.
Proof. exact missing_reported_proof. Qed.
Print Assumptions missing_reported.

Theorem success_is_tree : forall e name c cfg,
  collapse e name = inr (c, cfg) -> ~ has_cycle e name /\ ~ has_missing e name.
Proof. exact success_is_tree_proof. Qed.
Print Assumptions success_is_tree.

(* the model's fuel is never the reason for an error: the worklist terminates within it *)
Theorem never_out_of_fuel : forall e name, collapse e name <> inl EFuel.
Proof. exact never_out_of_fuel_proof. Qed.
Print Assumptions never_out_of_fuel.

Theorem errors_are_reported : forall e name,
  has_cycle e name \/ has_missing e name -> exists x, collapse e name = inl x /\ x <> EFuel.
Proof. exact errors_are_reported_proof. Qed.
Print Assumptions errors_are_reported.

(* the executable level order used for comparison B is the declarative one *)
Theorem levels_is_level_order : forall e l o,
  LevelOrder e l o -> forall d, length o < d -> levels d e l = o.
Proof. exact LevelOrder_levels. Qed.
Print Assumptions levels_is_level_order.
