import sys, time
sys.path.insert(0, "/verif")
import harness.common as hc
from harness import c34
T=[time.time()]
def wrap(obj, name):
    f=getattr(obj,name)
    def g(*a,**k):
        t=time.time(); r=f(*a,**k); print(f"{name}: {time.time()-t:.1f}s", flush=True); return r
    setattr(obj,name,g)
for n in ("build","check_assumptions","lint","check_fingerprint","coq_eval"): wrap(hc.Check,n)
for n in ("build_cases","bash_oracle","finding_class"): wrap(c34,n)
chk=hc.Check("C34")
c34.main(chk)
print("total", time.time()-T[0]); print(chk.finish())
