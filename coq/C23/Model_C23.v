(* Model_C23.v — executable model of the merge-time permission hardening
   (src/pkgcore/merge/triggers.py: fix_uid_perms, fix_gid_perms, fix_set_bits,
   detect_world_writable; default_plugins_triggers; src/pkgcore/merge/engine.py:
   trigger registration and MergeEngine.execute_hook).  No proofs here.

   A content set is the list of its entries in dict (insertion) order.  An entry carries
   kind (0 file, 1 dir, 2 symlink, 3 device, 4 fifo), location id, mode, uid, gid, symlink target
   id, data-source id, and [rest] = an id for the tuple of all remaining attributes (mtime,
   chksums, dev, inode, major, minor) — the harness assigns the ids by object identity / value.
   mode/uid/gid are optional: a non-strict fs object may lack them (the attribute reads None).

   Abstraction: contentsSet.update(...) re-keys by location; fsBase.change_attributes keeps an
   absolute normalised location unchanged, so an update of existing entries is a map that keeps
   positions.  The correspondence compares the resulting order as well. *)
From Coq Require Import List NArith ZArith Bool.
Import ListNotations.
From Verif Require Import Base.Val gen.Tables_triggers_perms.
Local Open Scope N_scope.

Record entry := mkE { kind : N; loc : N; mode : option N; uid : option N; gid : option N;
                      target : option N; data : option N; rest : N }.

Definition is_sym (e : entry) : bool := kind e =? 2.
Definition set_mode (e : entry) (m : option N) : entry :=
  mkE (kind e) (loc e) m (uid e) (gid e) (target e) (data e) (rest e).
Definition set_uid (e : entry) (u : option N) : entry :=
  mkE (kind e) (loc e) (mode e) u (gid e) (target e) (data e) (rest e).
Definition set_gid (e : entry) (g : option N) : entry :=
  mkE (kind e) (loc e) (mode e) (uid e) g (target e) (data e) (rest e).

(* Python: x.uid == bad   (None == int is False) *)
Definition oeqb (a : option N) (b : N) : bool :=
  match a with Some x => x =? b | None => false end.
Definition has_mode (e : entry) : bool := match mode e with Some _ => true | None => false end.

(* Python truthiness of (m & mask) *)
Definition nz (x : N) : bool := negb (x =? 0).
(* fix_set_bits: (x.mode & 0o6000) and (x.mode & 0o002) *)
Definition unsafe (m : N) : bool := nz (N.land m sb_sel_setid) && nz (N.land m sb_sel_ww).
(* x.mode & ~0o6002 on a non-negative int *)
Definition harden_mode (m : N) : N := if unsafe m then N.ldiff m sb_wipe else m.
(* detect_world_writable: x.mode & 0o002 *)
Definition ww (m : N) : bool := nz (N.land m ww_sel).
Definition unww_mode (m : N) : N := if ww m then N.ldiff m ww_wipe else m.

(* a warning: (kind, location id).  kind 0 = fix_set_bits "correcting unsafe world writable ...",
   1 = detect_world_writable "world writable file: ...", 2 = the engine's "unhandled exception
   caught and suppressed" (location 0) *)
Definition warn := (N * N)%type.

Inductive outcome := Done (cs : list entry) (w : list warn) | Raised.   (* Raised: TypeError *)

Inductive trig :=
| FixUid (bad good : N)
| FixGid (bad good : N)
| FixSetBits
| DetectWW (fix_perms : bool)
| NoCset.                      (* a trigger that does not touch new_cset (ldconfig, InfoRegen, ...) *)

(* every non-symlink entry has an int mode; otherwise `None & mask` raises TypeError while the
   selection list is being built, i.e. before any warning or update *)
Definition modes_ok (cs : list entry) : bool := forallb (fun e => is_sym e || has_mode e) cs.

Definition sel_set_bits (e : entry) : bool :=
  negb (is_sym e) && match mode e with Some m => unsafe m | None => false end.
Definition sel_ww (e : entry) : bool :=
  negb (is_sym e) && match mode e with Some m => ww m | None => false end.

Definition upd_mode (sel : entry -> bool) (f : N -> N) (e : entry) : entry :=
  if sel e then set_mode e (option_map f (mode e)) else e.

Definition warns_for (k : N) (sel : entry -> bool) (cs : list entry) : list warn :=
  map (fun e => (k, loc e)) (filter sel cs).

(* trigger.trigger(engine, cset); [obs] = engine.observer is a reporter (not None) *)
Definition run_trig (obs : bool) (t : trig) (cs : list entry) : outcome :=
  match t with
  | FixUid bad good =>
      Done (map (fun e => if oeqb (uid e) bad then set_uid e (Some good) else e) cs) []
  | FixGid bad good =>
      Done (map (fun e => if oeqb (gid e) bad then set_gid e (Some good) else e) cs) []
  | FixSetBits =>
      if modes_ok cs then
        Done (map (upd_mode sel_set_bits (fun m => N.ldiff m sb_wipe)) cs)
             (if obs then warns_for 0 sel_set_bits cs else [])
      else Raised
  | DetectWW fix_perms =>
      if negb obs && negb fix_perms then Done cs []
      else if modes_ok cs then
        Done (if fix_perms then map (upd_mode sel_ww (fun m => N.ldiff m ww_wipe)) cs else cs)
             (if obs then warns_for 1 sel_ww cs else [])
      else Raised
  | NoCset => Done cs []
  end.

(* MergeEngine.execute_hook: an exception of a trigger with suppress_exceptions is caught and
   reported through observer.warn; the content set stays as it was *)
Definition engine_step (st : list entry * list warn) (t : trig) : list entry * list warn :=
  match run_trig true t (fst st) with
  | Done cs' w' => (cs', snd st ++ w')
  | Raised => (fst st, snd st ++ [(2, 0)])
  end.
Definition run_trigs (ts : list trig) (cs : list entry) : list entry * list warn :=
  fold_left engine_step ts (cs, []).

(* ------------------------------------------------------------------ which triggers, what order *)
Definition row := (str * Z * list str * option (list N))%type.
Definition r_name (r : row) : str := fst (fst (fst r)).
Definition r_prio (r : row) : Z := snd (fst (fst r)).
Definition r_hooks (r : row) : list str := snd (fst r).
Definition r_types (r : row) : option (list N) := snd r.

(* Python str order on code points *)
Fixpoint str_ltb (a b : str) : bool :=
  match a, b with
  | [], [] => false
  | [], _ :: _ => true
  | _ :: _, [] => false
  | x :: a', y :: b' => if x <? y then true else if y <? x then false else str_ltb a' b'
  end.

Fixpoint insert_by {A} (before : A -> A -> bool) (x : A) (l : list A) : list A :=
  match l with
  | [] => [x]
  | y :: l' => if before x y then x :: l else y :: insert_by before x l'
  end.
(* stable: an element is placed after the earlier elements it does not strictly precede *)
Definition stable_sort {A} (before : A -> A -> bool) (l : list A) : list A :=
  fold_left (fun acc x => insert_by before x acc) l [].

(* sorted(triggers, reverse=True, key=lambda x: (x.priority, x.__name__)) *)
Definition key_gtb (a b : row) : bool :=
  (r_prio b <? r_prio a)%Z || ((r_prio a =? r_prio b)%Z && str_ltb (r_name b) (r_name a)).
Definition default_sorted : list row := stable_sort key_gtb default_triggers.

Definition mem_str (s : str) (l : list str) : bool := existsb (str_eqb s) l.
Definition mem_N (x : N) (l : list N) : bool := existsb (N.eqb x) l.

(* the hooks dict an engine of this mode is created with *)
Definition engine_hooks (mode : N) : list str :=
  if mode =? INSTALL_MODE then install_hooks
  else if mode =? UNINSTALL_MODE then uninstall_hooks
  else if mode =? REPLACE_MODE then install_hooks ++ uninstall_hooks
  else [].

(* base.register: skipped when _engine_types excludes the mode; add_trigger raises KeyError
   (ignored) for a hook the engine does not have *)
Definition registers (mode : N) (hook : str) (r : row) : bool :=
  match r_types r with None => true | Some l => mem_N mode l end
  && mem_str hook (r_hooks r) && mem_str hook (engine_hooks mode).

(* execute_hook: sorted(self.hooks[hook], key=priority) over the registration order *)
Definition engine_hook_rows (mode : N) (hook : str) : list row :=
  stable_sort (fun a b => (r_prio a <? r_prio b)%Z) (filter (registers mode hook) default_sorted).
Definition engine_hook_names (mode : N) (hook : str) : list str :=
  map r_name (engine_hook_rows mode hook).

(* the default instances: fix_uid_perms(uid=os_data.portage_uid, replacement=os_data.root_uid) ...
   cfg = (build uid, build gid) as the passwd/group database gives them *)
Definition trig_of_name (cfg : N * N) (n : str) : trig :=
  if str_eqb n name_fix_uid_perms then FixUid (fst cfg) root_uid
  else if str_eqb n name_fix_gid_perms then FixGid (snd cfg) root_gid
  else if str_eqb n name_fix_set_bits then FixSetBits
  else if str_eqb n name_detect_world_writable then DetectWW false
  else NoCset.

Definition pre_merge_trigs (mode : N) (cfg : N * N) : list trig :=
  map (trig_of_name cfg) (engine_hook_names mode name_pre_merge).

(* engine.pre_merge() as far as new_cset and the observer's warnings are concerned *)
Definition engine_pre_merge (mode : N) (cfg : N * N) (cs : list entry) : list entry * list warn :=
  run_trigs (pre_merge_trigs mode cfg) cs.

(* ---------------------------------------------------------------- encoders for the harness *)
Definition enc_N (x : N) : val := VZ (Z.of_N x).
Definition enc_o (x : option N) : val := match x with Some v => enc_N v | None => VNone end.
Definition enc_entry (e : entry) : val :=
  VL [enc_N (kind e); enc_N (loc e); enc_o (mode e); enc_o (uid e); enc_o (gid e);
      enc_o (target e); enc_o (data e); enc_N (rest e)].
Definition enc_warn (w : warn) : val := VL [enc_N (fst w); enc_N (snd w)].
Definition enc_state (st : list entry * list warn) : val :=
  VL [VL (map enc_entry (fst st)); VL (map enc_warn (snd st))].
Definition type_error : val := VErr [84;121;112;101;69;114;114;111;114].   (* "TypeError" *)

(* stream "order": class names of the triggers run at pre_merge by an engine of this mode *)
Definition run_order (mode : N) : val := VL (map VS (engine_hook_names mode name_pre_merge)).

(* streams "pre"/"bad": (engine mode, (build uid, build gid), entries) *)
Definition run_pre (i : N * (N * N) * list entry) : val :=
  let '(mode, cfg, cs) := i in enc_state (engine_pre_merge mode cfg cs).

(* stream "direct": one trigger called as the engine calls it, without the engine's handler *)
Definition run_direct (i : bool * trig * list entry) : val :=
  let '(obs, t, cs) := i in
  match run_trig obs t cs with
  | Done cs' w => enc_state (cs', w)
  | Raised => type_error
  end.

(* stream "sweep": [n] entries of one kind and owner with modes lo, lo+1, ... through the install
   engine; the result packs (mode, uid, gid) of each resulting entry into one number *)
Fixpoint sweep_entries (k : N) (u g : option N) (lo : N) (n : nat) : list entry :=
  match n with
  | O => []
  | S n' => mkE k lo (Some lo) u g (if k =? 2 then Some 1 else None) (if k =? 0 then Some 1 else None) 0
            :: sweep_entries k u g (N.succ lo) n'
  end.
Definition pack (e : entry) : val :=
  match mode e, uid e, gid e with
  | Some m, Some u, Some g => enc_N (m + 16777216 * (u + 65536 * g))
  | _, _, _ => VNone
  end.
Definition run_sweep (i : (N * N) * (N * option N * option N) * (N * nat)) : val :=
  let '(cfg, (k, u, g), (lo, n)) := i in
  VL (map pack (fst (engine_pre_merge INSTALL_MODE cfg (sweep_entries k u g lo n)))).
