(* Proofs_C33.v — placement lemmas of the helper model against the PMS reference (Spec_C33),
   and re-export of the path theorems (PathProofs.v). *)
From Coq Require Import List NArith ZArith Bool Arith Lia.
From Coq Require String Ascii.
Import String.StringSyntax.
Delimit Scope string_scope with string.
Import ListNotations.
From Verif Require Import Base.Val C33.Path C33.PathProofs gen.Tables_C33 C33.Model_C33 C33.Spec_C33.

(* ------------------------------------------------------------------ keys of joined paths *)
Definition rel_resolve (p : str) : list str := rev (run [] (split_sl p)).

Lemma key_rel p : key p = rel_resolve p.
Proof. reflexivity. Qed.

Lemma rel_resolve_slash p : rel_resolve (SL :: p) = rel_resolve p.
Proof. reflexivity. Qed.

Lemma key_lstrip d : key (lstrip_sl d) = key d.
Proof.
  rewrite !key_rel. unfold lstrip_sl. induction d as [|c d IH]; [reflexivity|].
  cbn [dropwhile]. destruct (is_sl c) eqn:E; [|reflexivity].
  apply is_sl_eq in E. subst c. rewrite rel_resolve_slash. exact IH.
Qed.

Definition goodb (b : str) : Prop := plain b /\ noslash b.

Lemma good_name_goodb b : good_name b = true -> goodb b.
Proof.
  unfold good_name. intro H. repeat (apply andb_true_iff in H as [H ?]).
  split; [repeat split; intro; subst; cbn in *; congruence|exact H0].
Qed.

Lemma isabs_good b : goodb b -> isabs b = false.
Proof.
  intros [(H & _ & _) N]. destruct b as [|x b]; [congruence|]. unfold noslash in N. cbn in N.
  apply andb_true_iff in N as [N _]. now apply negb_true_iff in N.
Qed.

Lemma lstrip_good b : goodb b -> lstrip_sl b = b.
Proof.
  intro G. pose proof (isabs_good b G) as A. destruct b as [|x b]; [reflexivity|].
  cbn in A. unfold lstrip_sl. cbn. now rewrite A.
Qed.

Lemma key_join_good a b : goodb b -> key (join2 a b) = key a ++ [b].
Proof.
  intros G. pose proof (isabs_good b G) as A. destruct G as [P N].
  rewrite !key_rel. unfold rel_resolve.
  destruct a as [|x a].
  - unfold join2. rewrite A. cbn [rev]. rewrite (split_noslash_single b N), run_cons, run_nil, step_plain by assumption.
    reflexivity.
  - rewrite run_split_join2 by (discriminate || assumption).
    rewrite (split_noslash_single b N), run_cons, run_nil, step_plain by assumption. reflexivity.
Qed.

Lemma key_under dest b : goodb b -> key (under dest b) = comps dest ++ [b].
Proof.
  intro G. unfold under, edjoin. rewrite (lstrip_good b G), key_join_good by assumption.
  now rewrite key_lstrip.
Qed.

(* ------------------------------------------------------------------ what a plan installs where *)
Definition action_entry (a : action) : option (list str * pnode) :=
  match a with
  | AInstall (FReg cid) p (Some m) => Some (key p, PFile m cid)
  | AInstall (FLink t _) p _ => Some (key p, PLink t)
  | _ => None
  end.

(* doexe dobin dosbin dolib dolib.so dolib.a doinfo (and the file arguments of doins/dodoc):
   each file goes to <dest>/<basename> with the requested mode — exactly the reference list *)
Theorem base_placement_proof : forall c mode pos l,
  c_insmode c = Some mode ->
  flat_files (comps (c_dest c)) mode pos = Some l ->
  map action_entry (install_basenames c pos) = map Some l.
Proof.
  intros c mode pos. induction pos as [|a r IH]; intros l Hm H; cbn [flat_files] in H.
  - injection H as <-. reflexivity.
  - destruct (flat_one (comps (c_dest c)) mode a) as [x|] eqn:E1; [|discriminate].
    destruct (flat_files (comps (c_dest c)) mode r) as [xs|] eqn:E2; [|discriminate].
    injection H as <-. unfold install_basenames in *. cbn [map concat]. rewrite map_app, (IH xs Hm eq_refl).
    cbn [map]. f_equal. unfold flat_one in E1. unfold install_one. destruct (snd a) as [f| |]; try discriminate.
    destruct (good_name (basename (fst a))) eqn:G; [|discriminate]. apply good_name_goodb in G.
    destruct f as [cid|t ok]; cbn in E1.
    + injection E1 as <-. cbn [map action_entry]. rewrite Hm, key_under by assumption. reflexivity.
    + destruct ok; [|discriminate]. injection E1 as <-. cbn [map action_entry]. rewrite key_under by assumption. reflexivity.
Qed.

Theorem plan_base_shape_proof : forall c pos, plan_base c pos = inl (base_action (c_dest c) :: install_basenames c pos).
Proof. reflexivity. Qed.

(* ------------------------------------------------------------------ keepdir *)
Theorem keepdir_name_proof : forall i,
  keep_name i = lit ".keep_" ++ cat i ++ lit "_" ++ pn i ++ lit "-" ++ slot i.
Proof. reflexivity. Qed.

Theorem keepdir_placement_proof : forall name dest dirm pos acts,
  goodb name -> plan_dirs (Some name) dest dirm pos = inl acts ->
  forall a, In a pos ->
    In (AMkdirs (under dest (fst a)) dirm) acts
    /\ exists p, In (ATouch p) acts /\ key p = comps (fst a) ++ [name].
Proof.
  intros name dest dirm pos acts G H a Ha. unfold plan_dirs in H. destruct pos as [|a0 r]; [destruct Ha|].
  remember (a0 :: r) as pos eqn:Epos. injection H as <-. split.
  - rewrite in_app_iff. left. apply (in_map (fun a => AMkdirs (under dest (fst a)) dirm)), Ha.
  - exists (edjoin (lstrip_sl (fst a)) name). split.
    + rewrite in_app_iff. right. apply (in_map (fun a => ATouch (edjoin (lstrip_sl (fst a)) name))), Ha.
    + unfold edjoin. rewrite key_join_good by assumption. now rewrite key_lstrip.
Qed.

Theorem dodir_keepdir_need_args_proof : forall keep dest dirm, plan_dirs keep dest dirm [] = inr (E "missing").
Proof. reflexivity. Qed.

(* ------------------------------------------------------------------ dosym / dohard *)
Theorem link_missing_name_proof : forall g h dirm pre r pos,
  (length pos < 2)%nat -> plan_link g h dirm pre r pos = inr (E "missing").
Proof. intros g h dirm pre r [|a [|b l]] H; cbn in *; try reflexivity; lia. Qed.

Theorem dosym_rejects_trailing_slash_proof : forall g dirm pre r s t,
  endswith_sl t = true -> plan_dosym g dirm pre r s t = inr (E "nolinkname").
Proof. intros. unfold plan_dosym. now rewrite H. Qed.

Theorem dosym_rejects_image_dir_proof : forall g dirm pre r s t m,
  lookup (key (lstrip_sl t)) pre = Some (NDir m) -> plan_dosym g dirm pre r s t = inr (E "nolinkname").
Proof. intros. unfold plan_dosym. rewrite H. now rewrite orb_true_r. Qed.

Theorem dosym_r_gated_proof : forall g dirm pre s t acts,
  plan_dosym g dirm pre true s t = inl acts -> g_dosym_rel g = true /\ isabs s = true.
Proof.
  intros g dirm pre s t acts. unfold plan_dosym.
  destruct (endswith_sl t || _); [discriminate|].
  destruct (g_dosym_rel g); [|discriminate]. destruct (isabs s); [|discriminate]. now split.
Qed.

Lemma link_actions_in h dirm s t : In (if str_eqb h (lit "dosym") then ASymlink s (lstrip_sl t)
                                      else AHardlink (lstrip_sl s) (lstrip_sl t)) (link_actions h dirm s t).
Proof. unfold link_actions. apply in_or_app. right. now left. Qed.

(* the link a successful dosym creates: verbatim without -r; with -r a relative content that
   resolves, from the directory of the link, to the requested absolute target *)
Theorem dosym_link_content_proof : forall g dirm pre r s t acts,
  plan_dosym g dirm pre r s t = inl acts ->
  exists c, In (ASymlink c (lstrip_sl t)) acts
            /\ (r = false -> c = s)
            /\ (r = true -> resolve (join2 (absdir t) c) = resolve s).
Proof.
  intros g dirm pre r s t acts. unfold plan_dosym.
  destruct (endswith_sl t || _); [discriminate|]. destruct r.
  - destruct (g_dosym_rel g); [|discriminate]. destruct (isabs s) eqn:A; [|discriminate]. cbn [negb].
    intro H. injection H as <-. exists (relative_target [] s t). split; [|split].
    + apply (link_actions_in (lit "dosym")).
    + discriminate.
    + intros _. now apply dosym_r_resolves_proof.
  - intro H. injection H as <-. exists s. split; [apply (link_actions_in (lit "dosym"))|split; [reflexivity|discriminate]].
Qed.

(* ------------------------------------------------------------------ rejections *)
Theorem dodoc_rejects_dirs_proof : forall g c r pos,
  dirs_of pos <> [] -> r && g_dodoc_r g = false -> plan_dodoc g c r pos = inr (E "isdir").
Proof.
  intros g c r pos H1 H2. unfold plan_dodoc. destruct (dirs_of pos); [congruence|]. now rewrite H2.
Qed.

Theorem dohtml_rejects_dirs_without_r_proof : forall dest insm dirm o pos,
  dirs_of pos <> [] -> h_r o = false -> plan_dohtml dest insm dirm o pos = inr (E "isdir").
Proof.
  intros. unfold plan_dohtml. destruct (dirs_of pos); [congruence|]. now rewrite H0.
Qed.

(* a man page without a section suffix is refused, whatever the EAPI gates and -i18n *)
Lemma takewhile_all {A} (f : A -> bool) l : forallb f l = true -> takewhile f l = l /\ dropwhile f l = [].
Proof.
  induction l as [|x l IH]; cbn; [now split|]. intro H. apply andb_true_iff in H as [H1 H2].
  rewrite H1. destruct (IH H2) as [-> ->]. now split.
Qed.

Definition nodot (b : str) : Prop := forallb (fun c => negb (is_dot c)) b = true.

Lemma forallb_rev {A} (f : A -> bool) l : forallb f (rev l) = forallb f l.
Proof.
  induction l as [|x l IH]; [reflexivity|]. cbn. rewrite forallb_app, IH. cbn. rewrite andb_true_r. apply andb_comm.
Qed.

Lemma splitext_nodot b : noslash b -> nodot b -> splitext b = (b, []).
Proof.
  intros N D. unfold splitext.
  assert (B : basename b = b).
  { unfold basename. destruct (takewhile_all (fun c => negb (is_sl c)) (rev b)) as [-> _];
      [now rewrite forallb_rev|apply rev_involutive]. }
  rewrite B. destruct (takewhile_all (fun c => negb (is_dot c)) (rev b)) as [_ ->]; [now rewrite forallb_rev|].
  reflexivity.
Qed.

Lemma split_on_nodot b : nodot b -> split_on 46 b = [b].
Proof.
  unfold nodot. induction b as [|x b IH]; cbn; intro H; [reflexivity|].
  apply andb_true_iff in H as [H1 H2]. apply negb_true_iff in H1. unfold is_dot in H1. rewrite H1, (IH H2). reflexivity.
Qed.

Lemma basename_join_man l : basename (join2 l (lit "man")) = lit "man".
Proof.
  unfold join2. change (isabs (lit "man")) with false. cbv iota.
  unfold basename. destruct (rev l) as [|c r] eqn:E; [reflexivity|].
  destruct (is_sl c) eqn:Ec; rewrite rev_app_distr.
  - change (rev (lit "man")) with [110; 97; 109]%N. cbn [app takewhile is_sl N.eqb Pos.eqb negb].
    rewrite E. cbn [takewhile]. rewrite Ec. reflexivity.
  - reflexivity.
Qed.

Lemma assoc_in {A} k (l : list (str * A)) v : assoc k l = Some v -> exists k', In (k', v) l.
Proof.
  induction l as [|[k' v'] l IH]; cbn; [discriminate|]. destruct (str_eqb k k').
  - intro H. injection H as <-. exists k'. now left.
  - intro H. destruct (IH H) as [k2 H2]. exists k2. now right.
Qed.

Lemma no_empty_archive_ext : forall e g, gates_of e = Some g -> is_archive_ext g [] = false.
Proof.
  intros e g H. destruct (assoc_in _ _ _ H) as [k Hk].
  assert (F : forallb (fun kv => negb (is_archive_ext (snd kv) [])) eapi_table = true) by (vm_compute; reflexivity).
  rewrite forallb_forall in F. specialize (F _ Hk). cbn in F. now apply negb_true_iff in F.
Qed.

Theorem doman_rejects_no_section_proof : forall e g i18n x,
  gates_of e = Some g -> nodot (basename x) -> noslash (basename x) -> doman_dest g i18n x = None.
Proof.
  intros e g i18n x Hg D N. unfold doman_dest.
  rewrite (splitext_nodot _ N D). cbn [snd]. rewrite (no_empty_archive_ext e g Hg). cbn [tl].
  rewrite app_nil_r.
  assert (L : lang_match (basename x) = None) by (unfold lang_match; now rewrite (split_on_nodot _ D)).
  rewrite L.
  destruct (if g_doman_override g then i18n else None) as [l|].
  - rewrite basename_join_man. reflexivity.
  - destruct (g_doman_detect g); reflexivity.
Qed.

(* ------------------------------------------------------------------ the regenerated tables agree with PMS *)
Theorem gates_are_pms_proof : forallb gates_agree numbered_eapis = true.
Proof. vm_compute. reflexivity. Qed.

Example keepdir_example :
  keep_name {| helper := lit "keepdir"; eapi := lit "7";
               sh := {| v_desttree := []; v_insdesttree := []; v_exedesttree := []; v_docdesttree := []; v_pf := [];
                        v_libdir := []; v_insoptions := []; v_exeoptions := []; v_liboptions := []; v_diroptions := [] |};
               args := []; cat := lit "dev-libs"; pn := lit "foo"; slot := lit "2"; umask := 18%N; pre := [] |}
  = lit ".keep_dev-libs_foo-2".
Proof. reflexivity. Qed.

Example doman_example :
  match gates_of (lit "7") with
  | Some g => doman_dest g None (lit "x/foo.pt_BR.1") = Some (lit "pt_BR/man1", lit "foo.1")
              /\ doman_dest g (Some (lit "fr")) (lit "foo.de.3") = Some (lit "fr/man3", lit "foo.de.3")
              /\ doman_dest g None (lit "README") = None
  | None => False
  end.
Proof. vm_compute. repeat split. Qed.

(* ------------------------------------------------------------------ where the wrappers send things *)
Definition dest_of (g : eapi_row) (h : String.string) (v : shvars) : option str :=
  match wrapper_opts g (lit h) v with Some w => o_dest w | None => None end.
Definition insopts_of (g : eapi_row) (h : String.string) (v : shvars) : option str :=
  match wrapper_opts g (lit h) v with Some w => o_ins w | None => None end.
Arguments dest_of g h%string v.
Arguments insopts_of g h%string v.

(* PMS 12.3: dobin -> DESTTREE/bin, dosbin -> DESTTREE/sbin, dolib* -> DESTTREE/<libdir>,
   doins -> INSDESTTREE, doexe -> EXEDESTTREE, dodoc -> /usr/share/doc/PF/<docinto>,
   dohtml -> /usr/share/doc/PF/<docinto or html>, doinfo -> /usr/share/info, doman -> /usr/share/man *)
Theorem wrapper_dests_are_pms_proof : forall g v,
  dest_of g "dobin" v = Some (v_desttree v ++ lit "/bin")
  /\ dest_of g "dosbin" v = Some (v_desttree v ++ lit "/sbin")
  /\ dest_of g "dolib" v = Some (v_desttree v ++ lit "/" ++ v_libdir v)
  /\ dest_of g "dolib.so" v = Some (v_desttree v ++ lit "/" ++ v_libdir v)
  /\ dest_of g "dolib.a" v = Some (v_desttree v ++ lit "/" ++ v_libdir v)
  /\ dest_of g "doins" v = Some (v_insdesttree v)
  /\ dest_of g "doexe" v = Some (v_exedesttree v)
  /\ dest_of g "dodoc" v = Some (lit "/usr/share/doc/" ++ v_pf v ++ lit "/" ++ v_docdesttree v)
  /\ dest_of g "dohtml" v = Some (lit "/usr/share/doc/" ++ v_pf v ++ lit "/"
                                  ++ match v_docdesttree v with [] => lit "html" | d => d end)
  /\ dest_of g "doinfo" v = Some (lit "/usr/share/info")
  /\ dest_of g "doman" v = Some (lit "/usr/share/man")
  /\ insopts_of g "dolib.so" v = Some (lit "-m0755")
  /\ insopts_of g "dolib.a" v = Some (lit "-m0644")
  /\ insopts_of g "doins" v = Some (v_insoptions v)
  /\ insopts_of g "doexe" v = Some (v_exeoptions v).
Proof.
  intros g v. unfold dest_of, insopts_of.
  repeat split; cbv -[app]; rewrite ?app_nil_r; try reflexivity.
Qed.

(* ------------------------------------------------------------------ doman: section, language, -i18n *)
Lemma split_on_nonnil s b : split_on s b <> [].
Proof. destruct b as [|c r]; cbn; [discriminate|]. destruct (N.eqb c s); [discriminate|]. destruct (split_on s r); discriminate. Qed.

Lemma join_on_cons2 s a b l : join_on s (a :: b :: l) = a ++ s :: join_on s (b :: l).
Proof. reflexivity. Qed.

Lemma join_split_on s b : join_on s (split_on s b) = b.
Proof.
  induction b as [|c r IH]; [reflexivity|]. cbn [split_on]. pose proof (split_on_nonnil s r) as NN.
  destruct (split_on s r) as [|h t] eqn:E2; [congruence|]. destruct (N.eqb c s) eqn:E.
  - apply N.eqb_eq in E. subst c. rewrite join_on_cons2, IH. reflexivity.
  - destruct t as [|h2 t].
    + cbn in *. now rewrite IH.
    + rewrite join_on_cons2 in *. cbn [app]. now rewrite IH.
Qed.

Definition nosep (s : N) (c : str) : Prop := forallb (fun x => negb (N.eqb x s)) c = true.
Lemma split_on_nosep s b : Forall (nosep s) (split_on s b).
Proof.
  induction b as [|c r IH]; cbn; [repeat constructor|]. destruct (N.eqb c s) eqn:E.
  - constructor; [reflexivity|exact IH].
  - destruct (split_on s r) as [|h t]; [repeat constructor; unfold nosep; cbn; now rewrite E|].
    inversion IH; subst. constructor; [|assumption]. unfold nosep in *. cbn. now rewrite E.
Qed.

Lemma nosep_nodot c : nosep 46 c -> nodot c.
Proof. exact (fun H => H). Qed.

Lemma takewhile_app_stop {A} (f : A -> bool) l x r :
  forallb f l = true -> f x = false -> takewhile f (l ++ x :: r) = l /\ dropwhile f (l ++ x :: r) = x :: r.
Proof.
  induction l as [|y l IH]; cbn; intros H Hx; [now rewrite Hx|].
  apply andb_true_iff in H as [H1 H2]. rewrite H1. destruct (IH H2 Hx) as [-> ->]. now split.
Qed.

Lemma basename_noslash b : noslash b -> basename b = b.
Proof.
  intro N. unfold basename. destruct (takewhile_all (fun c => negb (is_sl c)) (rev b)) as [-> _];
    [now rewrite forallb_rev|apply rev_involutive].
Qed.

Lemma firstn_app_exact {A} (a b : list A) n : n = length a -> firstn n (a ++ b) = a.
Proof. intros ->. rewrite firstn_app, Nat.sub_diag, firstn_all. cbn. apply app_nil_r. Qed.

(* splitext of  root ++ "." ++ sec  when sec has no dot and root is not made of dots only *)
Lemma splitext_root_sec root sec :
  noslash (root ++ DOT :: sec) -> nodot sec -> forallb is_dot root = false ->
  splitext (root ++ DOT :: sec) = (root, DOT :: sec).
Proof.
  intros N D R. unfold splitext. rewrite (basename_noslash _ N).
  rewrite rev_app_distr. cbn [rev]. rewrite <- app_assoc. cbn [app].
  destruct (takewhile_app_stop (fun c => negb (is_dot c)) (rev sec) DOT (rev root)) as [-> ->];
    [now rewrite forallb_rev|reflexivity|].
  rewrite forallb_rev, R, rev_length, rev_involutive.
  rewrite firstn_app_exact; [reflexivity|]. rewrite app_length. cbn [length]. lia.
Qed.

Lemma simple_stem_facts s : simple_stem s = true ->
  s <> [] /\ nodot s /\ noslash s /\ forallb is_dot s = false.
Proof.
  unfold simple_stem. intro H. apply andb_true_iff in H as [H1 H2].
  destruct s as [|c s]; [discriminate|]. repeat split; try discriminate.
  - unfold nodot. rewrite forallb_forall in *. intros x Hx. specialize (H2 x Hx). now apply andb_true_iff in H2 as [H2 _].
  - unfold noslash. rewrite forallb_forall in *. intros x Hx. specialize (H2 x Hx). now apply andb_true_iff in H2 as [_ H2].
  - cbn in *. apply andb_true_iff in H2 as [H2 _]. apply andb_true_iff in H2 as [H2 _]. apply negb_true_iff in H2. now rewrite H2.
Qed.

Lemma is_section_facts sec : is_section sec = true ->
  exists c, sec = [c] /\ (is_digit c || N.eqb c 110) = true.
Proof. destruct sec as [|c [|d r]]; cbn; try discriminate. intro H. now exists c. Qed.

Lemma section_char_facts c : (is_digit c || N.eqb c 110) = true ->
  is_dot c = false /\ is_sl c = false /\ is_word c = true.
Proof.
  intro H. unfold is_dot, is_sl, is_word, is_digit, is_lower, is_upper in *.
  apply orb_true_iff in H as [H|H].
  - apply andb_true_iff in H as [H1 H2]. apply N.leb_le in H1, H2.
    repeat split; [apply N.eqb_neq; lia|apply N.eqb_neq; lia|].
    assert ((48 <=? c) = true /\ (c <=? 57) = true)%N as [-> ->] by (split; apply N.leb_le; lia). reflexivity.
  - apply N.eqb_eq in H. subst c. repeat split.
Qed.

(* one-character section suffixes are never archive extensions, in every tabulated EAPI *)
Lemma section_not_archive : forall e g c, gates_of e = Some g -> (is_digit c || N.eqb c 110) = true ->
  is_archive_ext g [DOT; c] = false.
Proof.
  intros e g c H Hc. destruct (assoc_in _ _ _ H) as [k Hk].
  assert (F : forallb (fun kv => forallb (fun c => negb (is_archive_ext (snd kv) [DOT; c]))
                                   [48;49;50;51;52;53;54;55;56;57;110]%N) eapi_table = true) by (vm_compute; reflexivity).
  rewrite forallb_forall in F. specialize (F _ Hk). cbn [snd] in F. rewrite forallb_forall in F.
  assert (In c [48;49;50;51;52;53;54;55;56;57;110]%N).
  { unfold is_digit in Hc. apply orb_true_iff in Hc as [Hc|Hc].
    - apply andb_true_iff in Hc as [H1 H2]. apply N.leb_le in H1, H2.
      assert (c = 48 \/ c = 49 \/ c = 50 \/ c = 51 \/ c = 52 \/ c = 53 \/ c = 54 \/ c = 55 \/ c = 56 \/ c = 57)%N by lia.
      cbn. intuition.
    - apply N.eqb_eq in Hc. subst. cbn. intuition. }
  apply negb_true_iff, F, H0.
Qed.

Lemma valid_mandir_section c : (is_digit c || N.eqb c 110) = true -> valid_mandir (lit "man" ++ [c]) = true.
Proof. intro H. cbn. now rewrite H. Qed.

Lemma basename_dir_man l m : noslash m -> l <> [] -> noslash l -> basename (join2 l m) = m /\ join2 l m = join_sl [l; m].
Proof.
  intros Nm Hl Nl.
  assert (A : isabs m = false).
  { destruct m as [|x m]; [reflexivity|]. unfold noslash in Nm. cbn in *. apply andb_true_iff in Nm as [Nm _]. now apply negb_true_iff in Nm. }
  unfold join2. rewrite A. destruct (last_noslash l Hl Nl) as (x & r & E & Ex). rewrite E, Ex. split; [|reflexivity].
  unfold basename. rewrite rev_app_distr. cbn [rev]. rewrite <- app_assoc. cbn [app].
  destruct (takewhile_app_stop (fun c => negb (is_sl c)) (rev m) SL (rev l)) as [-> _];
    [now rewrite forallb_rev|reflexivity|apply rev_involutive].
Qed.

Lemma range_not_sl lo hi c : (47 < lo)%N -> (N.leb lo c && N.leb c hi) = true -> is_sl c = false.
Proof. intros L H. apply andb_true_iff in H as [H1 _]. apply N.leb_le in H1. apply N.eqb_neq. lia. Qed.

Lemma lower_not_sl c : is_lower c = true -> is_sl c = false.
Proof. apply (range_not_sl 97 122). lia. Qed.
Lemma upper_not_sl c : is_upper c = true -> is_sl c = false.
Proof. apply (range_not_sl 65 90). lia. Qed.

Lemma pms_is_lang_noslash l : pms_is_lang l = true -> noslash l /\ l <> [].
Proof.
  unfold pms_is_lang, noslash. destruct l as [|a1 [|a2 [|a3 [|a4 [|a5 [|? ?]]]]]]; try discriminate; intro H; (split; [|discriminate]).
  - apply andb_true_iff in H as [H1 H2]. cbn. now rewrite (lower_not_sl _ H1), (lower_not_sl _ H2).
  - apply andb_true_iff in H as [H H5]. apply andb_true_iff in H as [H H4]. apply andb_true_iff in H as [H H3].
    apply andb_true_iff in H as [H1 H2]. cbn.
    rewrite (lower_not_sl _ H1), (lower_not_sl _ H2), (upper_not_sl _ H4), (upper_not_sl _ H5).
    apply N.eqb_eq in H3. subst a3. reflexivity.
Qed.

Definition gates_match (g : eapi_row) (n : N) : Prop :=
  g_doman_detect g = pms_doman_lang n /\ g_doman_override g = pms_doman_i18n_wins n.

(* the placement of a man page is the PMS one wherever PMS defines it: section directory from
   the suffix, language directory from the name in EAPI 2+, -i18n=<lang> taking precedence in
   EAPI 4+ (empty <lang>: no language level), the language suffix removed from the name *)
Theorem doman_placement_is_pms_proof : forall e g i18n b d name,
  gates_of e = Some g -> gates_match g (decimal e) ->
  pms_doman (decimal e) i18n b = Some (Some (d, name)) ->
  doman_dest g i18n b = Some (join_sl d, name).
Proof.
  intros e g i18n b d name Hg [Gd Go] H. unfold pms_doman in H. set (n := decimal e) in *.
  pose proof (join_split_on 46 b) as J. pose proof (split_on_nosep 46 b) as NS. unfold dot_parts in H.
  destruct (split_on 46 b) as [|p1 [|p2 [|p3 [|p4 rest]]]] eqn:ES; try discriminate.
  - (* stem.sec *)
    destruct (simple_stem p1) eqn:S1; [|discriminate]. destruct (is_section p2) eqn:S2; [|discriminate]. cbn [andb] in H.
    destruct (simple_stem_facts _ S1) as (N1 & D1 & L1 & A1).
    destruct (is_section_facts _ S2) as (c & -> & Hc). destruct (section_char_facts c Hc) as (Cd & Cs & Cw).
    cbn [join_on] in J. change (p1 ++ DOT :: [c] = b) in J. subst b.
    assert (NB : noslash (p1 ++ DOT :: [c])).
    { unfold noslash in *. rewrite forallb_app. cbn. rewrite L1, Cs. reflexivity. }
    unfold doman_dest. rewrite (basename_noslash _ NB).
    rewrite (splitext_root_sec p1 [c] NB) by (assumption || (unfold nodot; cbn; now rewrite Cd)).
    cbn [snd]. rewrite (section_not_archive e g c Hg Hc). cbn [tl].
    assert (LM : lang_match (p1 ++ DOT :: [c]) = None).
    { unfold lang_match. rewrite ES. cbn [rev app join_on is_nil andb negb]. now rewrite !andb_false_r. }
    rewrite LM, Go. fold n.
    assert (Nm : noslash (lit "man" ++ [c])) by (unfold noslash; cbn; now rewrite Cs).
    destruct (if pms_doman_i18n_wins n then i18n else None) as [l|].
    + destruct (is_nil l) eqn:El.
      * destruct l; [|discriminate]. injection H as <- <-. cbn [join2 isabs rev].
        change (join2 [] (lit "man" ++ [c])) with (lit "man" ++ [c]).
        rewrite (basename_noslash _ Nm), (valid_mandir_section c Hc). reflexivity.
      * destruct (simple_stem l) eqn:Sl; [|discriminate]. injection H as <- <-.
        destruct (simple_stem_facts _ Sl) as (Nl & _ & Ll & _).
        destruct (basename_dir_man l (lit "man" ++ [c]) Nm Nl Ll) as [-> ->].
        rewrite (valid_mandir_section c Hc). reflexivity.
    + injection H as <- <-. destruct (g_doman_detect g); rewrite (basename_noslash _ Nm), (valid_mandir_section c Hc); reflexivity.
  - (* stem.lang.sec *)
    destruct (simple_stem p1) eqn:S1; [|discriminate]. destruct (is_section p3) eqn:S3; [|discriminate].
    destruct (pms_is_lang p2) eqn:S2; [|discriminate]. cbn [andb] in H.
    destruct (simple_stem_facts _ S1) as (N1 & D1 & L1 & A1).
    destruct (is_section_facts _ S3) as (c & -> & Hc). destruct (section_char_facts c Hc) as (Cd & Cs & Cw).
    cbn [join_on] in J. change (p1 ++ DOT :: p2 ++ DOT :: [c] = b) in J. subst b.
    inversion NS as [|? ? _ NS2]; subst. inversion NS2 as [|? ? D2 _]; subst.
    destruct (pms_is_lang_noslash _ S2) as [L2 Np2].
    assert (NB : noslash ((p1 ++ DOT :: p2) ++ DOT :: [c])).
    { unfold noslash in *. repeat (first [rewrite forallb_app | progress cbn]). rewrite L1, L2, Cs. reflexivity. }
    assert (AR : forallb is_dot (p1 ++ DOT :: p2) = false).
    { rewrite forallb_app, A1. reflexivity. }
    replace (p1 ++ DOT :: p2 ++ DOT :: [c]) with ((p1 ++ DOT :: p2) ++ DOT :: [c]) in * by (rewrite <- app_assoc; reflexivity).
    unfold doman_dest. rewrite (basename_noslash _ NB).
    rewrite (splitext_root_sec _ [c] NB) by (assumption || (unfold nodot; cbn; now rewrite Cd)).
    cbn [snd]. rewrite (section_not_archive e g c Hg Hc). cbn [tl].
    assert (LM : lang_match ((p1 ++ DOT :: p2) ++ DOT :: [c]) = Some (p1, p2, [c])).
    { unfold lang_match. rewrite ES. cbn [rev app join_on is_nil negb forallb]. rewrite Cw.
      change (is_lang p2) with (pms_is_lang p2). rewrite S2. destruct p1; [congruence|reflexivity]. }
    rewrite LM, Go, Gd. fold n.
    assert (Nm : noslash (lit "man" ++ [c])) by (unfold noslash; cbn; now rewrite Cs).
    destruct (if pms_doman_i18n_wins n then i18n else None) as [l|].
    + destruct (is_nil l) eqn:El.
      * destruct l; [|discriminate]. injection H as <- <-.
        change (join2 [] (lit "man" ++ [c])) with (lit "man" ++ [c]).
        rewrite (basename_noslash _ Nm), (valid_mandir_section c Hc). reflexivity.
      * destruct (simple_stem l) eqn:Sl; [|discriminate]. injection H as <- <-.
        destruct (simple_stem_facts _ Sl) as (Nl & _ & Ll & _).
        destruct (basename_dir_man l (lit "man" ++ [c]) Nm Nl Ll) as [-> ->].
        rewrite (valid_mandir_section c Hc). reflexivity.
    + destruct (pms_doman_lang n).
      * injection H as <- <-.
        destruct (basename_dir_man p2 (lit "man" ++ [c]) Nm Np2 L2) as [-> ->].
        rewrite (valid_mandir_section c Hc). reflexivity.
      * injection H as <- <-. rewrite (basename_noslash _ Nm), (valid_mandir_section c Hc). reflexivity.
Qed.

(* ------------------------------------------------------------------ the statements of Prop_C33 *)
Theorem placement_is_pms_files_proof : forall c mode pos l,
  c_insmode c = Some mode ->
  flat_files (comps (c_dest c)) mode pos = Some l ->
  plan_base c pos = inl (base_action (c_dest c) :: install_basenames c pos)
  /\ map action_entry (install_basenames c pos) = map Some l.
Proof. intros. split; [apply plan_base_shape_proof|eapply base_placement_proof; eassumption]. Qed.

Theorem placement_is_pms_keepdir_proof : forall i dest dirm pos acts,
  goodb (keep_name i) -> plan_dirs (Some (keep_name i)) dest dirm pos = inl acts ->
  keep_name i = lit ".keep_" ++ cat i ++ lit "_" ++ pn i ++ lit "-" ++ slot i
  /\ forall a, In a pos ->
       In (AMkdirs (under dest (fst a)) dirm) acts
       /\ exists p, In (ATouch p) acts /\ key p = comps (fst a) ++ [keep_name i].
Proof. intros. split; [apply keepdir_name_proof|eapply keepdir_placement_proof; eassumption]. Qed.

Theorem placement_is_pms_dosym_proof : forall g dirm pre r s t,
  (endswith_sl t = true -> plan_dosym g dirm pre r s t = inr (E "nolinkname"))
  /\ (forall m, lookup (key (lstrip_sl t)) pre = Some (NDir m) -> plan_dosym g dirm pre r s t = inr (E "nolinkname"))
  /\ (forall acts, plan_dosym g dirm pre r s t = inl acts ->
        (r = true -> g_dosym_rel g = true /\ isabs s = true)
        /\ exists c, In (ASymlink c (lstrip_sl t)) acts
                     /\ (r = false -> c = s)
                     /\ (r = true -> resolve (join2 (absdir t) c) = resolve s)).
Proof.
  intros. split; [apply dosym_rejects_trailing_slash_proof|].
  split; [intros; eapply dosym_rejects_image_dir_proof; eassumption|].
  intros acts H. split; [intros ->; eapply dosym_r_gated_proof; eassumption|eapply dosym_link_content_proof; eassumption].
Qed.

Theorem rejections_are_pms_proof :
  (forall g h dirm pre r pos, (length pos < 2)%nat -> plan_link g h dirm pre r pos = inr (E "missing"))
  /\ (forall g c r pos, dirs_of pos <> [] -> r && g_dodoc_r g = false -> plan_dodoc g c r pos = inr (E "isdir"))
  /\ (forall dest insm dirm o pos, dirs_of pos <> [] -> h_r o = false -> plan_dohtml dest insm dirm o pos = inr (E "isdir"))
  /\ (forall keep dest dirm, plan_dirs keep dest dirm [] = inr (E "missing")).
Proof.
  split; [exact link_missing_name_proof|].
  split; [exact dodoc_rejects_dirs_proof|].
  split; [exact dohtml_rejects_dirs_without_r_proof|exact dodir_keepdir_need_args_proof].
Qed.
