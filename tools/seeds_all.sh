#!/bin/sh
# seeds_all.sh [-P n] seed... — run every quick check with each given VERIF_SEED on the unchanged tree; print failures
P=3; if [ "$1" = "-P" ]; then P=$2; shift 2; fi
cd "$(dirname "$0")/.."
[ -f coq/Makefile ] || ./setup.sh >/dev/null 2>&1
for seed in "$@"; do
  ls manifest.d | grep '^C' | sed 's/.json//' | xargs -P $P -I{} sh -c 's=$(date +%s); VERIF_SEED='$seed' timeout 3000 ./check {} > /tmp/seedrun_{}_'$seed'.log 2>&1; rc=$?; e=$(date +%s); echo "seed='$seed' {} rc=$rc wall=$((e-s))s"; [ $rc -ne 0 ] && { grep "^VIOLATION" /tmp/seedrun_{}_'$seed'.log | head -3; for f in $(grep -o "replay=[^ ]*" /tmp/seedrun_{}_'$seed'.log | head -2 | cut -d= -f2); do head -c 1500 $f; echo; done; }; rm -f /tmp/seedrun_{}_'$seed'.log'
done
