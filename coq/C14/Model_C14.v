(* Model_C14.v — executable model of pkgcore.package.conditionals.PackageWrapper
   (src/pkgcore/package/conditionals.py: _getattr_wrapped, rollback, commit, changes_count,
   request_enable / request_disable on the configurable attribute) over snakeoil's
   LimitedChangeSet (snakeoil/containers.py — outside /repo: modelled and compared only).

   Two step functions are given:
     [step]         the REPAIRED wrapper (fixes/C14-cache-invalidation.patch): the cache
                    generation is monotone, every request bumps it, a request applies the
                    flags that have to flip before the ones it merely pins;
     [step_pinned]  the wrapper as pinned at cddb5bf/53f1949 (bug-compatible), kept for the
                    [_refuted] witnesses of Proofs_C14.
   The attribute evaluator is a Section variable [E]; nothing is assumed about it.
   No proofs here. *)
From Coq Require Import List NArith ZArith Bool.
Import ListNotations.
From Verif Require Import Base.Val.

Definition mem (x : N) (l : list N) : bool := existsb (N.eqb x) l.
Definition remove_all (x : N) (l : list N) : list N := filter (fun y => negb (N.eqb x y)) l.
Definition set_add (x : N) (l : list N) : list N := if mem x l then l else x :: l.

(* ------------------------------------------------------------------ LimitedChangeSet *)
(* _new, _changed, _change_order (latest change FIRST; true = _added), _blacklist *)
Record lcs := { new_ : list N; changed : list N; order : list (bool * N); black : list N }.

Inductive outcome := ODone (l : lcs) | OUnch | OKeyErr.

(* LimitedChangeSet.add *)
Definition lcs_add (x : N) (l : lcs) : outcome :=
  if mem x (changed l) || mem x (black l) then
    (if mem x (new_ l) then ODone l else OUnch)
  else ODone {| new_ := set_add x (new_ l); changed := set_add x (changed l);
                order := (true, x) :: order l; black := black l |}.

(* LimitedChangeSet.remove: an absent key that is free is still recorded as a removal *)
Definition lcs_remove (x : N) (l : lcs) : outcome :=
  if mem x (changed l) || mem x (black l) then
    (if mem x (new_ l) then OUnch else OKeyErr)
  else ODone {| new_ := remove_all x (new_ l); changed := set_add x (changed l);
                order := (false, x) :: order l; black := black l |}.

Definition lcs_change (enable : bool) : N -> lcs -> outcome :=
  if enable then lcs_add else lcs_remove.

(* one iteration of the `while l > point` loop of LimitedChangeSet.rollback *)
Definition pop (l : lcs) : lcs :=
  match order l with
  | [] => l
  | (k, x) :: r =>
      {| new_ := if k then remove_all x (new_ l) else set_add x (new_ l);
         changed := remove_all x (changed l); order := r; black := black l |}
  end.

Definition count (l : lcs) : Z := Z.of_nat (length (order l)).

(* LimitedChangeSet.rollback(point): None = TypeError (nothing touched) *)
Definition lcs_rollback (point : Z) (l : lcs) : option lcs :=
  if (point <? 0)%Z || (count l <? point)%Z then None
  else Some (Nat.iter (Z.to_nat (count l - point)) pop l).

Definition lcs_commit (l : lcs) : lcs :=
  {| new_ := new_ l; changed := []; order := []; black := black l |}.

(* ------------------------------------------------------------------ the wrapper *)
Inductive op :=
| Enable (vals : list N)      (* request_enable(<configurable>, *vals) *)
| Disable (vals : list N)     (* request_disable(<configurable>, *vals) *)
| Rollback (point : Z)
| Commit
| Read (a : N).               (* getattr(pkg, <wrapped attribute a>) *)

Inductive lres := LOk | LUnch | LKeyErr.

(* `for x in vals: change(x)`; [swallow]: a KeyError of one value is skipped (repaired code) *)
Fixpoint apply_vals (swallow enable : bool) (vals : list N) (l : lcs) : lres * lcs :=
  match vals with
  | [] => (LOk, l)
  | x :: r =>
      match lcs_change enable x l with
      | ODone l' => apply_vals swallow enable r l'
      | OUnch => (LUnch, l)
      | OKeyErr => if swallow then apply_vals swallow enable r l else (LKeyErr, l)
      end
  end.

(* sorted(vals, key=lambda x: (x in flags) == enable): the flags that flip, then the pins *)
Definition flips (enable : bool) (l : lcs) (vals : list N) : list N :=
  filter (fun x => negb (Bool.eqb (mem x (new_ l)) enable)) vals.
Definition pins (enable : bool) (l : lcs) (vals : list N) : list N :=
  filter (fun x => Bool.eqb (mem x (new_ l)) enable) vals.

Section Wrapper.
  Variable V : Type.                        (* values of wrapped attributes *)
  Variable E : N -> list N -> V.            (* _wrapped_attr[a](raw.a, use): any function *)

  Inductive res := RB (b : bool) | RNone | RTypeError | RKeyError | RV (v : V).

  (* _configurable, _reuse_pt, _cached_wrapped (latest binding of an attribute first) *)
  Record st := { cfg : lcs; gen : N; cache : list (N * (N * V)) }.

  Definition current_use (s : st) : list N := new_ (cfg s).

  Fixpoint lookup (a : N) (c : list (N * (N * V))) : option (N * V) :=
    match c with
    | [] => None
    | (b, e) :: r => if N.eqb a b then Some e else lookup a r
    end.

  Definition bump (l : lcs) (s : st) : st :=
    {| cfg := l; gen := N.succ (gen s); cache := cache s |}.

  (* _getattr_wrapped *)
  Definition read (a : N) (s : st) : V * st :=
    match lookup a (cache s) with
    | Some (pt, v) =>
        if N.eqb pt (gen s) then (v, s)
        else let v' := E a (current_use s) in
             (v', {| cfg := cfg s; gen := gen s; cache := (a, (gen s, v')) :: cache s |})
    | None => let v' := E a (current_use s) in
              (v', {| cfg := cfg s; gen := gen s; cache := (a, (gen s, v')) :: cache s |})
    end.

  (* PackageWrapper.rollback *)
  Definition rollback (point : Z) (s : st) : res * st :=
    match lcs_rollback point (cfg s) with
    | None => (RTypeError, s)
    | Some l => (RNone, bump l s)
    end.

  (* ---- repaired: PackageWrapper._request_configurable *)
  Definition request (enable : bool) (vals : list N) (s : st) : res * st :=
    let l := cfg s in
    match apply_vals true enable (flips enable l vals ++ pins enable l vals) l with
    | (LOk, l') => (RB true, bump l' s)
    | (_, l') =>
        match lcs_rollback (count l) l' with        (* self.rollback(entry_point) *)
        | Some l'' => (RB false, bump l'' s)
        | None => (RTypeError, s)                   (* unreachable: entry_point <= count *)
        end
    end.

  Definition step (o : op) (s : st) : res * st :=
    match o with
    | Enable vals => request true vals s
    | Disable vals => request false vals s
    | Rollback k => rollback k s
    | Commit => (RNone, bump (lcs_commit (cfg s)) s)
    | Read a => let (v, s') := read a s in (RV v, s')
    end.

  (* ---- pinned tree (bug-compatible) *)
  Definition request_pinned (enable : bool) (vals : list N) (s : st) : res * st :=
    let l := cfg s in
    match apply_vals false enable vals l with
    | (LOk, l') =>
        if enable then (RB true, bump l' s)
        else (RB true, {| cfg := l'; gen := gen s; cache := cache s |})   (* no bump *)
    | (LUnch, l') =>
        match lcs_rollback (count l) l' with
        | Some l'' => (RB false, bump l'' s)
        | None => (RTypeError, s)
        end
    | (LKeyErr, l') => (RKeyError, {| cfg := l'; gen := gen s; cache := cache s |})
    end.

  Definition step_pinned (o : op) (s : st) : res * st :=
    match o with
    | Enable vals => request_pinned true vals s
    | Disable vals => request_pinned false vals s
    | Rollback k => rollback k s
    | Commit => (RNone, {| cfg := lcs_commit (cfg s); gen := 0%N; cache := cache s |})
    | Read a => let (v, s') := read a s in (RV v, s')
    end.

  (* ---- histories *)
  Definition init (use locked : list N) : st :=
    {| cfg := {| new_ := use; changed := []; order := []; black := locked |};
       gen := 0%N; cache := [] |}.

  Fixpoint run (stp : op -> st -> res * st) (ops : list op) (s : st) : st :=
    match ops with
    | [] => s
    | o :: r => run stp r (snd (stp o s))
    end.

  (* the result of every op together with the state it leaves *)
  Fixpoint exec (stp : op -> st -> res * st) (ops : list op) (s : st) : list (res * st) :=
    match ops with
    | [] => []
    | o :: r => let rs := stp o s in rs :: exec stp r (snd rs)
    end.
End Wrapper.

Arguments RB {V}. Arguments RNone {V}. Arguments RTypeError {V}. Arguments RKeyError {V}.
Arguments RV {V}.
Arguments cfg {V}. Arguments gen {V}. Arguments cache {V}. Arguments current_use {V}.

(* ------------------------------------------------------------------ conditional DepSets *)
(* a wrapped attribute of the correspondence: leaves (atom ids) under nested USE conditionals;
   evaluate_depset keeps the leaves whose conditionals hold, in order *)
Inductive node := Leaf (id : N) | Cond (f : N) (neg : bool) (kids : list node).

Fixpoint eval_node (use : list N) (n : node) : list N :=
  match n with
  | Leaf i => [i]
  | Cond f neg kids =>
      if xorb (mem f use) neg
      then (fix go (ks : list node) : list N :=
              match ks with [] => [] | k :: r => eval_node use k ++ go r end) kids
      else []
  end.
Definition eval_depset (use : list N) (d : list node) : list N := flat_map (eval_node use) d.

(* ------------------------------------------------------------------ encoders for the harness *)
Definition hist_input : Type := (list N * list N * list (list node)) * list op.

Definition E_of (ds : list (list node)) (a : N) (use : list N) : list N :=
  eval_depset use (nth (N.to_nat a) ds []).

Definition enc_list (l : list N) : val := VL (map (fun x => VZ (Z.of_N x)) l).
Definition enc_res (r : res (list N)) : val :=
  match r with
  | RB b => VB b
  | RNone => VNone
  | RTypeError => VErr [84;121;112;101;69;114;114;111;114]%N      (* "TypeError" *)
  | RKeyError => VErr [75;101;121;69;114;114;111;114]%N           (* "KeyError" *)
  | RV v => enc_list v
  end.

Definition universe : list N := [0;1;2;3;4;5;6;7]%N.   (* flags whose membership is observed *)

(* sets of observed flags cross the boundary as bit masks (bit i = flag i) *)
Definition mask_of (use : list N) : Z :=
  fold_right (fun f acc => if mem f use then Z.lor (Z.shiftl 1 (Z.of_N f)) acc else acc) 0%Z universe.
Definition set_of_mask (m : Z) : list N := filter (fun f => Z.testbit m (Z.of_N f)) universe.

(* after each op: [result; mask of USE over the observed flags; changes_count()] *)
Definition enc_obs (rs : res (list N) * st (list N)) : val :=
  VL [enc_res (fst rs); VZ (mask_of (current_use (snd rs))); VZ (count (cfg (snd rs)))].

(* compact constructors for the generated cases files *)
Definition mk_input (use locked : Z) (ds : list (list node)) (ops : list op) : hist_input :=
  ((set_of_mask use, set_of_mask locked, ds), ops).
Definition mk_obs (r : val) (use count : Z) : val := VL [r; VZ use; VZ count].

Definition run_hist_with (stp : forall V, (N -> list N -> V) -> op -> st V -> res V * st V)
  (i : hist_input) : val :=
  let '((use, locked, ds), ops) := i in
  VL (map enc_obs (exec _ (stp _ (E_of ds)) ops (init _ use locked))).

(* stream "hist": the repaired wrapper; "hist_pinned" is evaluated only to tell the
   pinned behaviour apart in the evidence *)
Definition run_hist : hist_input -> val := run_hist_with step.
Definition run_hist_pinned : hist_input -> val := run_hist_with step_pinned.

(* stream "fan" (the exhaustive enumeration, compactly): one common prefix, then each op of
   [lasts] tried from the state the prefix leaves.  Result: [observations of the prefix;
   observation of each continuation]. *)
Definition fan_input : Type := hist_input * list op.
Definition run_fan (i : fan_input) : val :=
  let '(((use, locked, ds), ops), lasts) := i in
  let stp := step _ (E_of ds) in
  let s := run _ stp ops (init _ use locked) in
  VL [VL (map enc_obs (exec _ stp ops (init _ use locked)));
      VL (map (fun o => enc_obs (stp o s)) lasts)].

(* ------------------------------------------------------------------ several configured packages
   The configured repo hands out a new wrapper for every lookup; raw packages are shared.  A
   system is a list of wrappers, each with the raw package it wraps and its OWN state; an op is
   addressed to one wrapper.  Nothing is shared between wrappers in this model: whatever the
   implementation shares (class, closure, raw package) must not be observable. *)
Section Multi.
  Variable V : Type.
  Variable Er : N -> N -> list N -> V.      (* raw package, attribute, USE set *)

  Definition wst : Type := N * st V.        (* raw package id, wrapper state *)

  Fixpoint mstep_at (w : nat) (o : op) (ws : list wst) : option (res V) * list wst :=
    match ws with
    | [] => (None, [])
    | (raw, s) :: r =>
        match w with
        | O => let rs := step V (Er raw) o s in (Some (fst rs), (raw, snd rs) :: r)
        | S w' => let xr := mstep_at w' o r in (fst xr, (raw, s) :: snd xr)
        end
    end.

  Fixpoint mrun (ops : list (nat * op)) (ws : list wst) : list wst :=
    match ops with
    | [] => ws
    | (w, o) :: r => mrun r (snd (mstep_at w o ws))
    end.

  Fixpoint mexec (ops : list (nat * op)) (ws : list wst) : list (option (res V) * list wst) :=
    match ops with
    | [] => []
    | (w, o) :: r => let x := mstep_at w o ws in x :: mexec r (snd x)
    end.

  Definition minit (locked : list N) (cfgs : list (N * list N)) : list wst :=
    map (fun c => (fst c, init V (snd c) locked)) cfgs.
End Multi.

(* stream "multi": depsets per raw package, (raw, initial USE mask) per wrapper, locked mask,
   ops addressed to wrappers.  After each op: [result; [mask; count] of EVERY wrapper]. *)
Definition multi_input : Type :=
  (list (list (list node)) * list (N * Z) * Z) * list (nat * op).

Definition Er_of (dss : list (list (list node))) (raw a : N) (use : list N) : list N :=
  E_of (nth (N.to_nat raw) dss []) a use.

Definition enc_mobs (x : option (res (list N)) * list (wst (list N))) : val :=
  VL [match fst x with Some r => enc_res r | None => VErr [] end;
      VL (flat_map (fun w => [VZ (mask_of (current_use (snd w))); VZ (count (cfg (snd w)))])
                   (snd x))].

Definition run_multi (i : multi_input) : val :=
  let '((dss, cfgs, locked), ops) := i in
  VL (map enc_mobs
        (mexec _ (Er_of dss) ops
           (minit _ (set_of_mask locked) (map (fun c => (fst c, set_of_mask (snd c))) cfgs)))).
