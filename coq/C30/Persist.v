(* C30/Persist.v — the text written by flush() reads back as the same set. *)
From Coq Require Import List NArith ZArith Bool Arith Lia Permutation.
Import ListNotations.
From Verif Require Import Base.Val C22.Model_C22 C18.Fs C24.Model_C24 C24.Spec_C24 C24.Roundtrip.
From Verif Require Import C30.Model_C30 C30.Spec_C30 C30.Proofs_C30.

Lemma cut_at_none sep a : Forall (fun c => N.eqb c sep = false) a -> cut_at sep a = (a, None).
Proof. induction 1 as [|c r Hc _ IH]; cbn [cut_at]; [reflexivity|]. now rewrite Hc, IH. Qed.
Lemma cut_at_some sep a b : Forall (fun c => N.eqb c sep = false) a ->
  cut_at sep (a ++ sep :: b) = (a, Some b).
Proof.
  induction 1 as [|c r Hc _ IH]; cbn [cut_at List.app].
  - now rewrite N.eqb_refl.
  - now rewrite Hc, IH.
Qed.

Lemma name_chars s : forallb name_char s = true ->
  plain s /\ Forall (fun c => N.eqb c COLON = false) s /\ Forall (fun c => N.eqb c SLASH = false) s.
Proof.
  intro H. rewrite forallb_forall in H. unfold plain. repeat split; apply Forall_forall; intros c Hc;
    apply H in Hc; unfold name_char in Hc; rewrite !andb_true_iff, !negb_true_iff in Hc; tauto.
Qed.
Lemma slot_chars s : forallb (fun c => negb (py_space c)) s = true -> plain s.
Proof.
  intro H. rewrite forallb_forall in H. apply Forall_forall. intros c Hc. apply H in Hc.
  now apply negb_true_iff in Hc.
Qed.

Lemma plain_has_space s : plain s -> has_space s = false.
Proof.
  intro H. unfold has_space. destruct (existsb py_space s) eqn:E; [|reflexivity].
  apply existsb_exists in E as (c & Hc & E). unfold plain in H. rewrite Forall_forall in H.
  rewrite (H c Hc) in E. discriminate.
Qed.

Lemma went_text_plain e : valid_went e = true -> plain (went_text e) /\ went_text e <> [].
Proof.
  unfold valid_went, plain_name. rewrite !andb_true_iff. intros [[[[[_ Hc] [_ Hp]] _] _] Hs].
  apply name_chars in Hc as [Hc _]. apply name_chars in Hp as [Hp _].
  split.
  - unfold went_text, plain. apply Forall_app. split; [exact Hc|]. constructor; [reflexivity|].
    apply Forall_app. split; [exact Hp|]. destruct (wslot e) as [s|]; [|constructor].
    constructor; [reflexivity|]. unfold plain_slot in Hs. apply andb_true_iff in Hs as [_ Hs]. now apply slot_chars.
  - unfold went_text. destruct (wcat e); discriminate.
Qed.

Lemma parse_went_text e : valid_went e = true -> parse_went (went_text e) = Some e.
Proof.
  intro Hv. pose proof (went_text_plain e Hv) as [Hpl _].
  unfold valid_went, plain_name in Hv. rewrite !andb_true_iff in Hv.
  destruct Hv as [[[[[Hcn Hc] [Hpn Hp]] _] _] Hs].
  apply name_chars in Hc as (_ & Hcc & Hcs). apply name_chars in Hp as (_ & Hpc & Hps).
  unfold parse_went. rewrite (plain_has_space _ Hpl).
  destruct e as [c p s]. unfold went_text in *. cbn [wcat wpkg wslot] in *.
  assert (Hkey : Forall (fun x => N.eqb x COLON = false) (c ++ SLASH :: p)).
  { apply Forall_app. split; [exact Hcc|]. constructor; [reflexivity|exact Hpc]. }
  destruct s as [s|].
  - replace (c ++ SLASH :: p ++ COLON :: s) with ((c ++ SLASH :: p) ++ COLON :: s)
      by (now rewrite <- app_assoc).
    rewrite (cut_at_some _ _ _ Hkey), (cut_at_some _ _ _ Hcs).
    apply negb_true_iff in Hcn, Hpn. rewrite Hcn, Hpn. cbn [orb].
    unfold plain_slot in Hs. apply andb_true_iff in Hs as [Hsn _]. destruct s; [discriminate|reflexivity].
  - rewrite app_nil_r. rewrite (cut_at_none _ _ Hkey), (cut_at_some _ _ _ Hcs).
    apply negb_true_iff in Hcn, Hpn. now rewrite Hcn, Hpn.
Qed.

(* ------------------------------------------------------------------ lines *)
Lemma split_lines_one a : eol_free a -> split_lines a = [a].
Proof. induction 1 as [|c r Hc _ IH]; [reflexivity|]. cbn [split_lines]. now rewrite Hc, IH. Qed.

Lemma split_lines_join ls : ls <> [] -> Forall eol_free ls -> split_lines (join_nl ls) = ls.
Proof.
  intros Hne H. induction H as [|l ls Hl Hls IH]; [congruence|].
  cbn [join_nl]. destruct ls as [|l2 ls]; [now apply split_lines_one|].
  rewrite split_lines_app by exact Hl. rewrite IH by discriminate. reflexivity.
Qed.

Lemma strip_plain s : plain s -> strip s = s.
Proof.
  intro H. destruct s as [|a r]; [reflexivity|].
  apply strip_id; [now inversion H|]. apply ends_plain_plain; [discriminate|exact H].
Qed.

Lemma content_lines_join ls :
  Forall (fun l => plain l /\ l <> []) ls -> content_lines (join_nl ls) = ls.
Proof.
  intro H. unfold content_lines. destruct ls as [|l0 ls0]; [reflexivity|].
  rewrite split_lines_join; [|discriminate|].
  2:{ eapply Forall_impl; [|exact H]. intros l [Hl _]. now apply plain_eol_free. }
  induction H as [|l ls [Hl Hn] _ IH]; [reflexivity|].
  cbn [map filter]. rewrite (strip_plain _ Hl). destruct l; [congruence|]. cbn [nonempty]. now rewrite IH.
Qed.

Lemma set_add_fresh e W : wmem e W = false -> set_add e W = W ++ [e].
Proof. intro H. unfold set_add. now rewrite H. Qed.

Lemma starts_text c e : wcat e <> [] -> starts_with_c c (went_text e) = starts_with_c c (wcat e).
Proof. unfold went_text. destruct (wcat e); [congruence|reflexivity]. Qed.

Lemma parse_lines_texts es : forall acc, Forall (fun e => valid_went e = true) es -> NoDup (acc ++ es) ->
  parse_lines (map went_text es) acc = Some (acc ++ es).
Proof.
  induction es as [|e es IH]; intros acc Hv Hn; [now rewrite app_nil_r|].
  inversion Hv as [|? ? He Hes]; subst. cbn [map parse_lines].
  assert (Hc : wcat e <> []).
  { unfold valid_went, plain_name in He. rewrite !andb_true_iff in He.
    destruct He as [[[[[Hcn _] _] _] _] _]. destruct (wcat e); [discriminate|discriminate]. }
  rewrite !starts_text by exact Hc.
  pose proof He as He'. unfold valid_went in He'. rewrite !andb_true_iff, !negb_true_iff in He'.
  destruct He' as [[[_ H35] H64] _]. rewrite H35, H64.
  rewrite parse_went_text by exact He.
  rewrite set_add_fresh.
  - rewrite IH; [now rewrite <- app_assoc|exact Hes|now rewrite <- app_assoc].
  - destruct (wmem e acc) eqn:E; [|reflexivity]. apply wmem_In in E.
    apply NoDup_remove_2 in Hn. exfalso. apply Hn. apply in_or_app. now left.
Qed.

Theorem world_persist_lemma W : NoDup W -> Forall (fun e => valid_went e = true) W ->
  parse_world (flush_text W) = Some (wsort W).
Proof.
  intros Hn Hv.
  assert (Hv' : Forall (fun e => valid_went e = true) (wsort W))
    by (eapply Permutation_Forall; [apply Permutation_sym, wsort_perm|exact Hv]).
  assert (Hn' : NoDup (wsort W))
    by (eapply Permutation_NoDup; [apply Permutation_sym, wsort_perm|exact Hn]).
  unfold parse_world, flush_text. rewrite content_lines_join.
  - now apply (parse_lines_texts (wsort W) []).
  - apply Forall_map. eapply Forall_impl; [|exact Hv']. intros e He. now apply went_text_plain.
Qed.

Example valid_went_example :
  valid_went {| wcat := [100;101;118;45;117;116;105;108]%N; wpkg := [98;115;100;105;102;102]%N;
                wslot := Some [49;46;50]%N |} = true.                      (* dev-util/bsdiff:1.2 *)
Proof. reflexivity. Qed.

Theorem world_persist_proof : persist_stmt.
Proof. intros W Hn Hv. split; [now apply world_persist_lemma|apply wsort_perm]. Qed.
