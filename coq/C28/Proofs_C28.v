(* Proofs_C28.v — lemmas and proofs for C28.
   atomicity (from C18.FsLemmas.atomic_replace + the stale-temporary variant), idempotence,
   order independence (sorting lemma), parse/render round trip. *)
From Coq Require Import List NArith ZArith Bool Lia Permutation.
Import ListNotations.
From Verif Require Import Base.Val C18.Fs C18.FsLemmas C28.Model_C28 C28.Spec_C28.
Open Scope N_scope.

(* ================================================================ the write: atomicity *)
Lemma concat_chunks_fuel : forall fuel n s, (0 < n)%nat -> (length s <= fuel)%nat ->
  concat (chunks_fuel fuel n s) = s.
Proof.
  induction fuel as [|f IH]; intros n s Hn Hl; destruct s as [|x s']; cbn [chunks_fuel concat]; try reflexivity.
  - cbn in Hl. lia.
  - rewrite IH; [apply firstn_skipn|exact Hn|].
    rewrite skipn_length. cbn [length] in *. lia.
Qed.

Lemma concat_chunks_of n s : concat (chunks_of n s) = s.
Proof.
  destruct n as [|n]; cbn [chunks_of].
  - destruct s; cbn; [reflexivity|now rewrite app_nil_r].
  - apply concat_chunks_fuel; lia.
Qed.

Lemma TMP_neq_P : TMP <> P.
Proof. unfold TMP, P. intro H. discriminate H. Qed.

(* crash prefixes of the tail  write..; rename  from a staged state *)
Lemma staged_tail_atomic s s1 tmp p chunks k :
  tmp <> p -> staged s tmp s1 ->
  let ops := appends tmp chunks ++ [Rename tmp p] in
  let sk := run (firstn k ops) s1 in
  (forall q, q <> p -> q <> tmp -> lookup sk q = lookup s q) /\
  (lookup sk p = lookup s p \/
   exists s2, run_opt (appends tmp chunks) s1 = Some s2 /\ lookup sk p = lookup s2 tmp /\
              (length ops <= k)%nat).
Proof.
  intros Hne Hs1 ops sk. subst ops sk.
  pose proof (staged_middle s tmp chunks [] (Forall_nil _)) as Hmid. rewrite app_nil_r in Hmid.
  set (mid := appends tmp chunks) in *.
  destruct (Nat.le_gt_cases k (length mid)) as [Hk|Hk].
  - rewrite firstn_app. replace (k - length mid)%nat with 0%nat by lia. cbn [firstn]. rewrite app_nil_r.
    pose proof (run_prefix_inv _ _ Hmid s1 k Hs1) as [Hfr _].
    split; [intros q _ Hq; now apply Hfr|left; apply Hfr; congruence].
  - rewrite firstn_all2 by (rewrite app_length; cbn; lia).
    rewrite run_app. destruct (run_opt mid s1) as [s2|] eqn:Hm.
    + pose proof (run_inv _ _ Hmid s1 Hs1) as Hs2. rewrite (run_opt_run _ _ _ Hm) in Hs2.
      cbn [run]. destruct (apply_op s2 (Rename tmp p)) as [s3|] eqn:Hr.
      * destruct (staged_rename _ _ _ _ _ Hne Hs2 Hr) as [Hfr Hp].
        split; [exact Hfr|]. right. exists s2. repeat split; auto.
        rewrite app_length. cbn [length]. lia.
      * destruct Hs2 as [Hfr _]. split; [intros q _ Hq; now apply Hfr|left; apply Hfr; congruence].
    + pose proof (run_inv _ _ Hmid s1 Hs1) as [Hfr _].
      split; [intros q _ Hq; now apply Hfr|left; apply Hfr; congruence].
Qed.

(* a stale temporary with a private inode: truncating it stages an empty file *)
Lemma staged_truncate s tmp d m u g t i s1 :
  lookup s tmp = Some (File d m u g t i) ->
  (forall q n, q <> tmp -> lookup s q = Some n -> ino_of n <> Some i) ->
  apply_op s (Truncate tmp) = Some s1 ->
  staged s tmp s1 /\ lookup s1 tmp = Some (File [] m u g NOW i).
Proof.
  intros Hl Hpriv H. cbn in H. rewrite Hl in H. unfold update in H. rewrite Hl in H. cbn in H.
  injection H as <-.
  assert (Hoth : forall q, q <> tmp -> lookup (on_ino i truncate_data s) q = lookup s q).
  { intros q Hq. rewrite lookup_on_ino. destruct (lookup s q) as [n|] eqn:Hn; [|reflexivity].
    destruct (ino_of n) as [j|] eqn:Hj; [|reflexivity].
    destruct (N.eqb j i) eqn:E; [|reflexivity].
    apply N.eqb_eq in E; subst j. exfalso. eapply Hpriv; eauto. }
  assert (Ht : lookup (on_ino i truncate_data s) tmp = Some (File [] m u g NOW i)).
  { rewrite lookup_on_ino, Hl. cbn. now rewrite N.eqb_refl. }
  split; [|exact Ht]. split; [exact Hoth|].
  exists [], m, u, g, NOW, i. split; [exact Ht|].
  intros q n Hq Hn. rewrite Hoth in Hn by exact Hq. eapply Hpriv; eauto.
Qed.

(* the temporary is absent, not a regular file (then open() fails and nothing happens), or a
   regular file no other name is linked to *)
Definition tmp_private (s : fs) : Prop :=
  match lookup s TMP with
  | Some (File _ _ _ _ _ i) => forall q n, q <> TMP -> lookup s q = Some n -> ino_of n <> Some i
  | _ => True
  end.

Lemma appends_data s1 tmp chunks s2 m u g t i :
  lookup s1 tmp = Some (File [] m u g t i) ->
  run_opt (appends tmp chunks) s1 = Some s2 ->
  exists m' u' g' t' i', lookup s2 tmp = Some (File (concat chunks) m' u' g' t' i').
Proof.
  intros Ht H. destruct (run_opt_appends_tmp _ _ _ _ _ _ _ _ _ _ Ht H) as [[-> ->]|H2].
  - cbn. eauto 10.
  - cbn in H2. eauto 10.
Qed.

Lemma file_data_of s p d m u g t i : lookup s p = Some (File d m u g t i) -> file_data s p = Some d.
Proof. unfold file_data. now intros ->. Qed.

Lemma write_ops_atomic s mode chunk data k :
  tmp_private s ->
  let ops := write_ops s mode chunk data in
  let sk := run (firstn k ops) s in
  (forall q, q <> P -> q <> TMP -> lookup sk q = lookup s q) /\
  (lookup sk P = lookup s P \/ (file_data sk P = Some data /\ (length ops <= k)%nat)).
Proof.
  intros Hpriv ops sk. subst ops sk. unfold write_ops, open_tmp. unfold tmp_private in Hpriv.
  destruct (lookup s TMP) as [[d m u g t i| | | | ]|] eqn:Hl.
  2-6: (* fresh temporary (or a non-file in the way): the library lemma *)
    (pose proof (atomic_replace s TMP P mode (chunks_of chunk data) [] k TMP_neq_P (Forall_nil _)) as [Hfr Hp];
     unfold replace_ops in Hfr, Hp; cbn [app] in Hfr, Hp; split; [exact Hfr|];
     destruct Hp as [Hp|(s2 & Hs2 & Hp & _ & Hk)]; [now left|right];
     split; [|exact Hk];
     pose proof (staged_complete _ _ _ _ _ _ (Forall_nil _) Hs2) as Hc;
     unfold staged_node in Hc; cbn [fold_left] in Hc; rewrite concat_chunks_of in Hc;
     unfold file_data; rewrite Hp, Hc; reflexivity).
  (* stale temporary: truncated, then staged *)
  destruct k as [|k]; [cbn; split; [reflexivity|now left]|].
  cbn [firstn run]. destruct (apply_op s (Truncate TMP)) as [s1|] eqn:Ht; [|split; [reflexivity|now left]].
  destruct (staged_truncate _ _ _ _ _ _ _ _ _ Hl Hpriv Ht) as [Hst Ht1].
  destruct (staged_tail_atomic s s1 TMP P (chunks_of chunk data) k TMP_neq_P Hst) as [Hfr Hp].
  split; [exact Hfr|]. destruct Hp as [Hp|(s2 & Hs2 & Hp & Hk)]; [now left|right].
  destruct (appends_data _ _ _ _ _ _ _ _ _ Ht1 Hs2) as (m' & u' & g' & t' & i' & Hd).
  rewrite concat_chunks_of in Hd. split.
  - unfold file_data. rewrite Hp, Hd. reflexivity.
  - cbn [length]. lia.
Qed.

Lemma create_lookup s p m s1 :
  apply_op s (Create p m) = Some s1 -> lookup s1 p = Some (File [] m ME ME NOW (fresh_ino s)).
Proof.
  cbn. destruct (can_create s p); [|discriminate]. intro H; injection H as <-. apply lookup_set_same.
Qed.

(* the first call stages an empty private temporary *)
Lemma open_staged s mode s1 :
  tmp_private s -> apply_op s (open_tmp s mode) = Some s1 ->
  staged s TMP s1 /\ exists m u g t i, lookup s1 TMP = Some (File [] m u g t i).
Proof.
  unfold tmp_private, open_tmp. intros Hpriv H.
  destruct (lookup s TMP) as [[d m u g t i| | | | ]|] eqn:Hl.
  2-6: (split; [now apply (staged_create _ _ _ _ H)|];
        rewrite (create_lookup _ _ _ _ H); eauto 10).
  destruct (staged_truncate _ _ _ _ _ _ _ _ _ Hl Hpriv H) as [Hst Ht1]. split; [exact Hst|eauto 10].
Qed.

Lemma write_ops_complete s mode chunk data s' :
  tmp_private s -> run_opt (write_ops s mode chunk data) s = Some s' -> file_data s' P = Some data.
Proof.
  intros Hpriv H. unfold write_ops in H. cbn [run_opt] in H.
  destruct (apply_op s (open_tmp s mode)) as [s1|] eqn:Ho; [|discriminate].
  destruct (open_staged _ _ _ Hpriv Ho) as [Hst (m & u & g & t & i & Ht1)].
  rewrite run_opt_app in H.
  destruct (run_opt (appends TMP (chunks_of chunk data)) s1) as [s2|] eqn:Hm; [|discriminate].
  cbn [run_opt] in H. destruct (apply_op s2 (Rename TMP P)) as [s3|] eqn:Hr; [|discriminate].
  injection H as <-.
  pose proof (staged_middle s TMP (chunks_of chunk data) [] (Forall_nil _)) as Hmid. rewrite app_nil_r in Hmid.
  pose proof (run_inv _ _ Hmid s1 Hst) as Hs2. rewrite (run_opt_run _ _ _ Hm) in Hs2.
  destruct (staged_rename _ _ _ _ _ TMP_neq_P Hs2 Hr) as [_ Hp].
  destruct (appends_data _ _ _ _ _ _ _ _ _ Ht1 Hm) as (m' & u' & g' & t' & i' & Hd).
  rewrite concat_chunks_of in Hd. unfold file_data. rewrite Hp, Hd. reflexivity.
Qed.

Lemma update_atomic_proof : forall i s wr ops k,
  tmp_private s ->
  update_ops i s = Ok (wr, ops) ->
  let sk := run (firstn k ops) s in
  (forall q, q <> P -> q <> TMP -> lookup sk q = lookup s q) /\
  (lookup sk P = lookup s P \/
   exists text, update_text (u_thin i) (u_scan i) (u_fetch i) = Ok (Some text) /\
                file_data sk P = Some text /\ (length ops <= k)%nat).
Proof.
  intros i s wr ops k Hpriv H sk. subst sk. unfold update_ops, update_with in H.
  destruct (update_text (u_thin i) (u_scan i) (u_fetch i)) as [[text|]|kind] eqn:Ht; try discriminate.
  - assert (Hw : (forall q, q <> P -> q <> TMP ->
                   lookup (run (firstn k (write_ops s (u_mode i) (u_chunk i) text)) s) q = lookup s q) /\
                 (lookup (run (firstn k (write_ops s (u_mode i) (u_chunk i) text)) s) P = lookup s P \/
                  exists text0, Ok (Some text) = Ok (Some text0) /\
                    file_data (run (firstn k (write_ops s (u_mode i) (u_chunk i) text)) s) P = Some text0 /\
                    (length (write_ops s (u_mode i) (u_chunk i) text) <= k)%nat)).
    { destruct (write_ops_atomic s (u_mode i) (u_chunk i) text k Hpriv) as [Hfr Hp]. split; [exact Hfr|].
      destruct Hp as [Hp|[Hp Hk]]; [now left|right; eauto]. }
    destruct (file_data s P) as [old|] eqn:Ho.
    + destruct (str_eqb (read_nl old) text); injection H as <- <-.
      * rewrite firstn_nil. cbn. split; auto.
      * exact Hw.
    + injection H as <- <-. exact Hw.
  - injection H as <- <-. rewrite firstn_nil. cbn. auto.
Qed.

Lemma update_eio_keeps_old_proof : forall i s wr ops k,
  tmp_private s -> update_ops i s = Ok (wr, ops) -> (k < length ops)%nat ->
  lookup (run (eio_ops ops k) s) P = lookup s P.
Proof.
  intros i s wr ops k Hpriv H Hk.
  destruct (update_atomic_proof i s wr ops k Hpriv H) as [_ Hp].
  assert (Hold : lookup (run (firstn k ops) s) P = lookup s P).
  { destruct Hp as [Hp|(t & _ & _ & Hle)]; [exact Hp|lia]. }
  unfold eio_ops. rewrite run_app.
  destruct (run_opt (firstn k ops) s) as [s1|] eqn:Hr; [|exact Hold].
  rewrite (run_opt_run _ _ _ Hr) in Hold.
  destruct k as [|k]; [exact Hold|].
  cbn [run]. destruct (apply_op s1 (Unlink TMP)) as [s2|] eqn:Hu; [|exact Hold].
  rewrite <- Hold. eapply apply_op_frame; [exact Hu|].
  cbn. intros [E|[]]. exact (TMP_neq_P E).
Qed.

Lemma update_completes_proof : forall i s ops s',
  tmp_private s -> update_ops i s = Ok (true, ops) -> run_opt ops s = Some s' ->
  exists text, update_text (u_thin i) (u_scan i) (u_fetch i) = Ok (Some text) /\ file_data s' P = Some text.
Proof.
  intros i s ops s' Hpriv H Hr. unfold update_ops, update_with in H.
  destruct (update_text (u_thin i) (u_scan i) (u_fetch i)) as [[text|]|kind] eqn:Ht; try discriminate.
  exists text. split; [reflexivity|].
  destruct (file_data s P) as [old|] eqn:Ho.
  - destruct (str_eqb (read_nl old) text); [discriminate|]. injection H as <-.
    eapply write_ops_complete; eauto.
  - injection H as <-. eapply write_ops_complete; eauto.
Qed.

(* ================================================================ idempotence *)
Lemma read_nl_cons c r : c <> 13 -> read_nl (c :: r) = c :: read_nl r.
Proof.
  intro H. destruct c as [|p]; [reflexivity|].
  repeat (destruct p as [p|p|]; try reflexivity).
  exfalso. apply H. reflexivity.
Qed.

Lemma read_nl_id s : ~ In 13 s -> read_nl s = s.
Proof.
  induction s as [|c r IH]; intro H; [reflexivity|].
  rewrite read_nl_cons by (intros ->; apply H; now left).
  rewrite IH; [reflexivity|]. intro Hin. apply H. now right.
Qed.

Lemma idempotent_proof : forall i s wr ops s',
  tmp_private s ->
  update_ops i s = Ok (wr, ops) -> run_opt ops s = Some s' ->
  (forall text, update_text (u_thin i) (u_scan i) (u_fetch i) = Ok (Some text) -> ~ In 13 text) ->
  update_ops i s' = Ok (false, []).
Proof.
  intros i s wr ops s' Hpriv H Hr Hcr.
  destruct wr.
  - destruct (update_completes_proof i s ops s' Hpriv H Hr) as (text & Ht & Hd).
    unfold update_ops, update_with. rewrite Ht, Hd, (read_nl_id text (Hcr _ Ht)), str_eqb_refl. reflexivity.
  - assert (ops = []).
    { unfold update_ops, update_with in H.
      destruct (update_text (u_thin i) (u_scan i) (u_fetch i)) as [[text|]|kind]; try discriminate.
      - destruct (file_data s P); [destruct (str_eqb _ _)|]; try discriminate H; now injection H as <-.
      - now injection H as <-. }
    subst ops. cbn in Hr. injection Hr as <-. exact H.
Qed.

(* the unrepaired write is not atomic: a crash right after open(path, "w") leaves an empty Manifest *)
Definition old_fs : fs := mkfs (Some (s2l "DIST a 1 MD5 00000000000000000000000000000001
"%bs)) None.
Definition new_in : uin := Uin true [] [(s2l "a"%bs, [(SIZE, 2); (s2l "md5"%bs, 1)])] 420 0.
Lemma inplace_not_atomic_refuted_proof :
  exists i s wr ops k text,
    tmp_private s /\ update_ops_inplace i s = Ok (wr, ops) /\
    update_text (u_thin i) (u_scan i) (u_fetch i) = Ok (Some text) /\
    lookup (run (firstn k ops) s) P <> lookup s P /\
    file_data (run (firstn k ops) s) P <> Some text.
Proof.
  exists new_in, old_fs. eexists. eexists. exists 1%nat. eexists.
  split; [exact I|]. split; [vm_compute; reflexivity|]. split; [vm_compute; reflexivity|].
  split; vm_compute; discriminate.
Qed.

(* ================================================================ the order on strings *)
Lemma str_ltb_asym a : forall b, str_ltb a b = true -> str_ltb b a = false.
Proof.
  induction a as [|x a IH]; intros [|y b] H; cbn in *; try discriminate; try reflexivity.
  destruct (N.ltb_spec x y); destruct (N.ltb_spec y x); try lia; try reflexivity; try discriminate.
  now apply IH.
Qed.

Lemma str_ltb_trans a : forall b c, str_ltb a b = true -> str_ltb b c = true -> str_ltb a c = true.
Proof.
  induction a as [|x a IH]; intros [|y b] [|z c] H1 H2; cbn in *; try discriminate; try reflexivity.
  destruct (N.ltb_spec x y); destruct (N.ltb_spec y x); destruct (N.ltb_spec y z); destruct (N.ltb_spec z y);
    destruct (N.ltb_spec x z); destruct (N.ltb_spec z x); try lia; try reflexivity; try discriminate.
  eapply IH; eauto.
Qed.

Lemma str_ltb_total a : forall b, str_ltb a b = false -> str_ltb b a = false -> a = b.
Proof.
  induction a as [|x a IH]; intros [|y b] H1 H2; cbn in *; try discriminate; try reflexivity.
  destruct (N.ltb_spec x y); destruct (N.ltb_spec y x); try lia; try discriminate.
  assert (x = y) by lia. subst. f_equal. now apply IH.
Qed.

(* ================================================================ sorting a permutation *)
Section SortPerm.
  Context {A : Type} (key : A -> str).

  Lemma insert_comm_lt x y l :
    str_ltb (key x) (key y) = true -> insert key x (insert key y l) = insert key y (insert key x l).
  Proof.
    intro Hxy. pose proof (str_ltb_asym _ _ Hxy) as Hyx.
    induction l as [|z l IH]; cbn [insert]; unfold str_leb.
    - rewrite Hyx, Hxy. cbn. reflexivity.
    - destruct (str_ltb (key z) (key y)) eqn:Hzy; cbn [negb].
      + (* y goes after z *)
        cbn [insert]. unfold str_leb.
        destruct (str_ltb (key z) (key x)) eqn:Hzx; cbn [negb].
        * cbn [insert]. unfold str_leb. rewrite Hzy. cbn [negb]. f_equal. exact IH.
        * cbn [insert]. unfold str_leb. rewrite Hxy. cbn [negb]. cbn [insert]. unfold str_leb. rewrite Hzy. reflexivity.
      + (* y before z; then x before z as well *)
        assert (Hzx : str_ltb (key z) (key x) = false).
        { destruct (str_ltb (key z) (key x)) eqn:E; [|reflexivity].
          rewrite (str_ltb_trans _ _ _ E Hxy) in Hzy. discriminate. }
        cbn [insert]. unfold str_leb. rewrite Hyx, Hzx. cbn [negb]. cbn [insert]. unfold str_leb.
        rewrite Hxy, Hzy. reflexivity.
  Qed.

  Lemma insert_comm x y l : key x <> key y -> insert key x (insert key y l) = insert key y (insert key x l).
  Proof.
    intro H. destruct (str_ltb (key x) (key y)) eqn:E1.
    - now apply insert_comm_lt.
    - destruct (str_ltb (key y) (key x)) eqn:E2.
      + symmetry. now apply insert_comm_lt.
      + exfalso. apply H. now apply str_ltb_total.
  Qed.

  Lemma sort_by_perm l l' : Permutation l l' -> NoDup (map key l) -> sort_by key l = sort_by key l'.
  Proof.
    unfold sort_by.
    induction 1 as [|x l l' Hp IH|x y l|l l' l'' Hp1 IH1 Hp2 IH2]; intro Hnd.
    - reflexivity.
    - cbn [fold_right]. cbn [map] in Hnd. inversion Hnd; subst. now rewrite IH.
    - cbn [fold_right]. apply insert_comm. cbn in Hnd. inversion Hnd as [|? ? Hn _]; subst. intro E. apply Hn. left. now symmetry.
    - rewrite IH1 by exact Hnd. apply IH2.
      eapply Permutation_NoDup; [|exact Hnd]. now apply Permutation_map.
  Qed.
End SortPerm.

(* ================================================================ the covered files *)
Lemma dset_fresh {B} k (v : B) d : ~ In k (map fst d) -> dset k v d = d ++ [(k, v)].
Proof.
  induction d as [|[k' v'] d IH]; cbn; intro H; [reflexivity|].
  destruct (str_eqb k k') eqn:E.
  - apply str_eqb_eq in E. subst. exfalso. apply H. now left.
  - rewrite IH; [reflexivity|]. intro Hin. apply H. now right.
Qed.

Lemma picks_acc f scan : forall acc,
  NoDup (map fst (acc ++ covered f scan)) ->
  fold_left (fun d o => match f (classify o) with Some n => dset n (s_cks o) d | None => d end) scan acc
  = acc ++ covered f scan.
Proof.
  induction scan as [|o r IH]; intros acc Hnd; cbn [fold_left covered flat_map].
  - now rewrite app_nil_r.
  - fold (covered f r). destruct (f (classify o)) as [n|] eqn:E.
    + cbn [app]. rewrite dset_fresh.
      * rewrite IH; rewrite <- app_assoc; [reflexivity|].
        unfold covered in Hnd. cbn [flat_map] in Hnd. rewrite E in Hnd. exact Hnd.
      * unfold covered in Hnd. cbn [flat_map] in Hnd. rewrite E in Hnd. cbn [app] in Hnd.
        rewrite map_app in Hnd. apply NoDup_remove_2 in Hnd. intro Hin. apply Hnd.
        apply in_or_app. now left.
    + cbn [app]. apply IH. unfold covered in Hnd. cbn [flat_map] in Hnd. now rewrite E in Hnd.
Qed.

Lemma picks_covered f scan : NoDup (map fst (covered f scan)) -> picks f scan = covered f scan.
Proof. intro H. unfold picks. now rewrite picks_acc. Qed.

(* names determine locations within a class *)
Lemma starts_with_app p : forall s, starts_with p s = true -> s = p ++ skipn (length p) s.
Proof.
  induction p as [|x p IH]; intros [|y s] H; cbn in *; try discriminate; try reflexivity.
  apply andb_true_iff in H as [H1 H2]. apply N.eqb_eq in H1. subst. f_equal. now apply IH.
Qed.

Definition prefix_of (f : cls -> option str) (pre : str) : Prop :=
  forall o n, f (classify o) = Some n -> s_loc o = pre ++ n.

Lemma top_level_loc loc : top_level loc = true -> loc = [47] ++ skipn 1 loc.
Proof. destruct loc as [|c r]; cbn; [discriminate|]. destruct (N.eq_dec c 47) as [->|H]; [reflexivity|].
  destruct c as [|p]; [discriminate|]. repeat (destruct p as [p|p|]; try discriminate). congruence. Qed.

Lemma classify_cases o :
  match classify o with
  | CAux n => s_loc o = FILESDIR ++ n
  | CEbuild n | CMisc n => s_loc o = [47] ++ n
  | _ => True
  end.
Proof.
  unfold classify. destruct (negb (s_reg o)); [exact I|]. destruct (excluded (s_loc o)); [exact I|].
  destruct (starts_with FILESDIR (s_loc o)) eqn:E.
  - now apply (starts_with_app FILESDIR).
  - destruct (top_level (s_loc o)) eqn:T; [|exact I].
    destruct (ends_with EBUILD_EXT (s_loc o)); now apply top_level_loc.
Qed.

Lemma prefix_aux : prefix_of aux_of FILESDIR.
Proof. intros o n H. pose proof (classify_cases o) as C. destruct (classify o); cbn in H; try discriminate. now injection H as <-. Qed.
Lemma prefix_ebuild : prefix_of ebuild_of [47].
Proof. intros o n H. pose proof (classify_cases o) as C. destruct (classify o); cbn in H; try discriminate. now injection H as <-. Qed.
Lemma prefix_misc : prefix_of misc_of [47].
Proof. intros o n H. pose proof (classify_cases o) as C. destruct (classify o); cbn in H; try discriminate. now injection H as <-. Qed.

Lemma covered_in f scan n : In n (map fst (covered f scan)) -> exists o, In o scan /\ f (classify o) = Some n.
Proof.
  unfold covered. rewrite in_map_iff. intros [[n' ck] [<- Hin]]. apply in_flat_map in Hin as [o [Ho Hin]].
  exists o. split; [exact Ho|]. destruct (f (classify o)); [|destruct Hin].
  destruct Hin as [E|[]]. now injection E as -> _.
Qed.

Lemma covered_nodup f pre scan : prefix_of f pre -> NoDup (map s_loc scan) -> NoDup (map fst (covered f scan)).
Proof.
  intros Hpre. induction scan as [|o r IH]; cbn; intro Hnd; [constructor|].
  inversion Hnd as [|? ? Hn Hr]; subst. fold (covered f r).
  destruct (f (classify o)) as [n|] eqn:E; cbn; [|now apply IH].
  constructor; [|now apply IH]. intro Hin. apply covered_in in Hin as [o' [Ho' E']].
  apply Hn. rewrite (Hpre _ _ E), <- (Hpre _ _ E'). now apply in_map.
Qed.

Lemma covered_perm f scan scan' : Permutation scan scan' -> Permutation (covered f scan) (covered f scan').
Proof. apply Permutation_flat_map. Qed.

Lemma existsb_perm {A} (p : A -> bool) l l' : Permutation l l' -> existsb p l = existsb p l'.
Proof.
  induction 1; cbn; try congruence.
  destruct (p x), (p y); reflexivity.
Qed.

Lemma sorted_picks f pre scan scan' :
  prefix_of f pre -> Permutation scan scan' -> NoDup (map s_loc scan) ->
  sort_by fst (picks f scan) = sort_by fst (picks f scan').
Proof.
  intros Hpre Hp Hnd.
  assert (Hnd' : NoDup (map s_loc scan')) by (eapply Permutation_NoDup; [|exact Hnd]; now apply Permutation_map).
  rewrite !picks_covered by (eapply covered_nodup; eauto).
  apply sort_by_perm; [now apply covered_perm|eapply covered_nodup; eauto].
Qed.

Lemma section_sorted ty nm l l' : sort_by fst l = sort_by fst l' -> section ty nm l = section ty nm l'.
Proof. unfold section. now intros ->. Qed.

(* the text does not depend on the listing order nor on the order of the distfiles *)
Lemma order_independent_proof : forall thin scan scan' fetch fetch',
  Permutation scan scan' -> NoDup (map s_loc scan) ->
  Permutation fetch fetch' -> NoDup (map fst fetch) ->
  update_text thin scan fetch = update_text thin scan' fetch'.
Proof.
  intros thin scan scan' fetch fetch' Hs Hns Hf Hnf.
  assert (Hd : sort_by fst fetch = sort_by fst fetch') by (now apply sort_by_perm).
  assert (Hb : has_bad scan = has_bad scan') by (apply existsb_perm; exact Hs).
  assert (Hm : manifest_text (picks aux_of scan) fetch (picks ebuild_of scan) (picks misc_of scan)
             = manifest_text (picks aux_of scan') fetch' (picks ebuild_of scan') (picks misc_of scan')).
  { unfold manifest_text.
    rewrite (section_sorted T_DIST basename _ _ Hd).
    rewrite (section_sorted T_AUX (fun n => n) _ _ (sorted_picks _ _ _ _ prefix_aux Hs Hns)).
    rewrite (section_sorted T_EBUILD (fun n => n) _ _ (sorted_picks _ _ _ _ prefix_ebuild Hs Hns)).
    rewrite (section_sorted T_MISC (fun n => n) _ _ (sorted_picks _ _ _ _ prefix_misc Hs Hns)).
    reflexivity. }
  assert (Hm' : manifest_text [] fetch [] [] = manifest_text [] fetch' [] []).
  { unfold manifest_text. now rewrite (section_sorted T_DIST basename _ _ Hd). }
  unfold update_text. rewrite Hb, Hm, Hm'.
  destruct fetch as [|e1 f1], fetch' as [|e2 f2]; try reflexivity.
  - apply Permutation_nil in Hf. discriminate.
  - apply Permutation_sym, Permutation_nil in Hf. discriminate.
Qed.

(* ================================================================ parse (render m) = m *)

(* ================================================================ numbers *)
(* the digit characters, by enumeration *)
Definition digit_facts (b d : N) : bool :=
  match digit_val b (digit_char d) with Some v => v =? d | None => false end
  && negb (digit_char d =? 95) && negb (is_space (digit_char d))
  && negb (digit_char d =? 120) && negb (digit_char d =? 88)
  && negb (digit_char d =? 43) && negb (digit_char d =? 45)
  && negb (digit_char d =? 10) && negb (digit_char d =? 13).
Lemma digit_facts_all b d : (b = 10 \/ b = 16) -> d < b -> digit_facts b d = true.
Proof.
  intros Hb Hd.
  assert (Hin : In d (map N.of_nat (seq 0 16))).
  { apply in_map_iff. exists (N.to_nat d). split; [apply N2Nat.id|]. apply in_seq. lia. }
  assert (Hall : forallb (fun d => (negb (d <? b)) || digit_facts b d) (map N.of_nat (seq 0 16)) = true)
    by (destruct Hb as [-> | ->]; vm_compute; reflexivity).
  rewrite forallb_forall in Hall. specialize (Hall d Hin).
  apply N.ltb_lt in Hd. rewrite Hd in Hall. exact Hall.
Qed.

Definition value (b : N) (ds : list N) (acc : N) : N := fold_left (fun a d => a * b + d) ds acc.

Lemma digits_val_digits b : (b = 10 \/ b = 16) -> forall ds acc nd,
  Forall (fun d => d < b) ds -> (ds <> [] \/ nd = false) ->
  digits_val b acc nd (map digit_char ds) = Some (value b ds acc).
Proof.
  intros Hb. induction ds as [|d ds IH]; intros acc nd Hall Hne; cbn.
  - destruct Hne as [Hne| ->]; [congruence|reflexivity].
  - inversion Hall as [|? ? Hd Hr]; subst.
    pose proof (digit_facts_all b d Hb Hd) as F. unfold digit_facts in F.
    repeat (apply andb_true_iff in F as [F ?]).
    destruct (digit_char d =? 95); [discriminate|].
    destruct (digit_val b (digit_char d)) as [v|]; [|discriminate].
    apply N.eqb_eq in F. subst v. apply IH; [exact Hr|now right].
Qed.

(* little-endian digit lists *)
Fixpoint lval (b : N) (ds : list N) : N :=
  match ds with [] => 0 | d :: r => lval b r * b + d end.
Lemma value_rev b ds : value b (rev ds) 0 = lval b ds.
Proof.
  unfold value. rewrite <- (fold_left_rev_right (fun d a => a * b + d)). rewrite rev_involutive.
  induction ds; cbn; congruence.
Qed.

Lemma digits_lsb_lval b : 2 <= b -> forall fuel n, n < 2 ^ N.of_nat fuel -> lval b (digits_lsb b fuel n) = n.
Proof.
  intros Hb. induction fuel as [|f IH]; intros n Hn.
  - cbn in *. assert (n = 0) by lia. now subst.
  - cbn [digits_lsb]. destruct (N.eqb_spec n 0) as [->|Hn0]; [reflexivity|].
    cbn [lval]. rewrite IH.
    + rewrite N.mul_comm. symmetry. apply N.div_mod'.
    + apply N.div_lt_upper_bound; [lia|].
      rewrite Nat2N.inj_succ, N.pow_succ_r' in Hn.
      assert (2 * 2 ^ N.of_nat f <= b * 2 ^ N.of_nat f) by (apply N.mul_le_mono_r; exact Hb). lia.
Qed.

Lemma digits_lsb_lt b : 0 < b -> forall fuel n, Forall (fun d => d < b) (digits_lsb b fuel n).
Proof.
  intros Hb. induction fuel as [|f IH]; intros n; cbn; [constructor|].
  destruct (n =? 0); [constructor|]. constructor; [apply N.mod_lt; lia|apply IH].
Qed.

Lemma digits_lsb_nonempty b fuel n : n <> 0 -> fuel <> O -> digits_lsb b fuel n <> [].
Proof. intros Hn Hf. destruct fuel; [congruence|]. cbn. destruct (N.eqb_spec n 0); congruence. Qed.

Lemma size_fuel n : n < 2 ^ N.of_nat (N.to_nat (N.size n)).
Proof. rewrite N2Nat.id. apply N.size_gt. Qed.

Lemma py_int_nosign b c r : c <> 43 -> c <> 45 ->
  py_int b (c :: r) =
  match digits_val b 0 true (if b =? 16 then strip_prefix16 (c :: r) else c :: r) with
  | Some n => Some (Z.of_N n) | None => None end.
Proof.
  intros H1 H2. unfold py_int. destruct c as [|p]; [reflexivity|].
  repeat (destruct p as [p|p|]; try reflexivity); congruence.
Qed.

Lemma strip_prefix16_id c r : Forall (fun x => x <> 120 /\ x <> 88) r -> strip_prefix16 (c :: r) = c :: r.
Proof.
  intro H. destruct r as [|x r]; unfold strip_prefix16.
  - destruct c as [|p]; [reflexivity|]. repeat (destruct p as [p|p|]; try reflexivity).
  - inversion H as [|? ? [Hx1 Hx2] _]; subst.
    apply N.eqb_neq in Hx1, Hx2.
    destruct c as [|p]; [reflexivity|].
    repeat (destruct p as [p|p|]; try reflexivity); rewrite Hx1, Hx2; reflexivity.
Qed.

Lemma digit_chars_facts b ds : (b = 10 \/ b = 16) -> Forall (fun d => d < b) ds ->
  Forall (fun c => c <> 120 /\ c <> 88 /\ c <> 43 /\ c <> 45 /\ is_space c = false) (map digit_char ds).
Proof.
  intros Hb H. induction H as [|d ds Hd _ IH]; cbn; constructor; [|exact IH].
  pose proof (digit_facts_all b d Hb Hd) as F. unfold digit_facts in F.
  repeat (apply andb_true_iff in F as [F ?]).
  repeat match goal with H : negb (_ =? _) = true |- _ => apply negb_true_iff, N.eqb_neq in H end.
  repeat match goal with H : negb _ = true |- _ => apply negb_true_iff in H end.
  repeat split; assumption.
Qed.

(* int(ds rendered in base b) *)
Lemma py_int_digits b ds : (b = 10 \/ b = 16) -> ds <> [] -> Forall (fun d => d < b) ds ->
  py_int b (map digit_char ds) = Some (Z.of_N (value b ds 0)).
Proof.
  intros Hb Hne Hall. pose proof (digit_chars_facts b ds Hb Hall) as F.
  destruct ds as [|d ds]; [congruence|]. cbn [map] in *.
  inversion F as [|? ? (_ & _ & F3 & F4 & _) Fr]; subst.
  rewrite py_int_nosign by assumption.
  assert (Hs : (if b =? 16 then strip_prefix16 (digit_char d :: map digit_char ds) else digit_char d :: map digit_char ds)
               = map digit_char (d :: ds)).
  { destruct (b =? 16); [|reflexivity]. apply strip_prefix16_id.
    eapply Forall_impl; [|exact Fr]. cbn. tauto. }
  rewrite Hs, (digits_val_digits b Hb (d :: ds) 0 true Hall) by (left; discriminate). reflexivity.
Qed.

Lemma py_int_dec n : py_int 10 (dec n) = Some (Z.of_N n).
Proof.
  unfold dec, to_base. destruct (N.eqb_spec n 0) as [->|Hn]; [reflexivity|].
  set (ds := digits_lsb 10 (N.to_nat (N.size n)) n).
  assert (Hf : N.to_nat (N.size n) <> O).
  { destruct n as [|p]; [congruence|]. cbn. pose proof (Pos2Nat.is_pos (Pos.size p)). lia. }
  rewrite py_int_digits.
  - rewrite value_rev. unfold ds. rewrite digits_lsb_lval; [reflexivity|lia|apply size_fuel].
  - now left.
  - intro E. apply (f_equal (@rev N)) in E. rewrite rev_involutive in E. cbn in E.
    eapply digits_lsb_nonempty; eauto.
  - apply Forall_rev. apply digits_lsb_lt. lia.
Qed.

(* hex *)
Fixpoint bval (l : list bool) : N := match l with [] => 0 | b :: r => 2 * bval r + b2n b end.
Lemma bval_pos_bits p : bval (pos_bits p) = Npos p.
Proof. induction p as [p IH|p IH|]; cbn [pos_bits bval b2n]; try rewrite IH; lia. Qed.

Lemma nibbles_lval : forall l, lval 16 (nibbles l) = bval l.
Proof.
  fix IH 1. intros [|b0 [|b1 [|b2 [|b3 r]]]]; cbn [nibbles lval bval].
  - reflexivity.
  - lia.
  - lia.
  - lia.
  - rewrite (IH r). lia.
Qed.

Lemma nibbles_lt : forall l, Forall (fun d => d < 16) (nibbles l).
Proof.
  fix IH 1. intros [|b0 [|b1 [|b2 [|b3 r]]]]; cbn [nibbles]; repeat constructor;
    try (destruct b0; try destruct b1; try destruct b2; try destruct b3; cbn; lia).
  apply IH.
Qed.

Lemma nibbles_nonempty l : l <> [] -> nibbles l <> [].
Proof. destruct l as [|b0 [|b1 [|b2 [|b3 r]]]]; cbn; congruence. Qed.

Lemma pos_bits_nonempty p : pos_bits p <> [].
Proof. destruct p; cbn; congruence. Qed.

Definition hex_digits (n : N) : list N :=
  match n with N0 => [0] | Npos p => rev (nibbles (pos_bits p)) end.
Lemma hex_as_digits n : hex n = map digit_char (hex_digits n).
Proof. destruct n; reflexivity. Qed.
Lemma hex_digits_ok n : hex_digits n <> [] /\ Forall (fun d => d < 16) (hex_digits n) /\ value 16 (hex_digits n) 0 = n.
Proof.
  destruct n as [|p]; cbn [hex_digits].
  - repeat split; [discriminate|repeat constructor; lia].
  - repeat split.
    + intro E. apply (f_equal (@rev N)) in E. rewrite rev_involutive in E. cbn in E.
      eapply nibbles_nonempty; [apply pos_bits_nonempty|exact E].
    + apply Forall_rev, nibbles_lt.
    + rewrite value_rev, nibbles_lval. apply bval_pos_bits.
Qed.

Lemma value_zeros k ds : value 16 (repeat 0 k ++ ds) 0 = value 16 ds 0.
Proof. unfold value. rewrite fold_left_app. f_equal. induction k; cbn; [reflexivity|exact IHk]. Qed.

Lemma rjust_as_digits w n : rjust0 w (hex n) = map digit_char (repeat 0 (w - length (hex n)) ++ hex_digits n).
Proof.
  unfold rjust0. rewrite map_app, hex_as_digits. f_equal.
  induction (w - length (map digit_char (hex_digits n)))%nat; cbn; congruence.
Qed.

Lemma py_int_hex w n : py_int 16 (rjust0 w (hex n)) = Some (Z.of_N n).
Proof.
  destruct (hex_digits_ok n) as (Hne & Hlt & Hv).
  rewrite rjust_as_digits, py_int_digits.
  - now rewrite value_zeros, Hv.
  - now right.
  - destruct (repeat 0 (w - length (hex n))); cbn; [exact Hne|discriminate].
  - apply Forall_app. split; [|exact Hlt]. apply Forall_forall. intros x Hx. apply repeat_spec in Hx. lia.
Qed.


(* ================================================================ tokens and lines *)
Definition nospace (t : str) : bool := forallb (fun c => negb (is_space c)) t.
Lemma name_ok_spec t : name_ok t = true <-> t <> [] /\ nospace t = true.
Proof.
  destruct t as [|c t]; cbn.
  - split; [discriminate|intros [H _]; congruence].
  - split; [intro H; split; [discriminate|exact H]|intros [_ H]; exact H].
Qed.

Lemma sw_tok t : forall cur rest, nospace t = true ->
  split_ws_aux cur (t ++ rest) = split_ws_aux (rev t ++ cur) rest.
Proof.
  induction t as [|c t IH]; intros cur rest H; [reflexivity|].
  cbn in H. apply andb_true_iff in H as [Hc Ht]. apply negb_true_iff in Hc.
  cbn [app split_ws_aux rev]. rewrite Hc, IH by exact Ht. now rewrite <- app_assoc.
Qed.

Definition jtail (l : list str) : str := concat (map (cons 32) l).

Lemma jtail_cons t r : jtail (t :: r) = 32 :: t ++ jtail r.
Proof. reflexivity. Qed.

Lemma sw_tail toks : forall cur, cur <> [] -> Forall (fun t => name_ok t = true) toks ->
  split_ws_aux cur (jtail toks) = rev cur :: toks.
Proof.
  induction toks as [|t r IH]; intros cur Hc Hall.
  - unfold jtail. cbn [map concat split_ws_aux]. destruct cur; [congruence|reflexivity].
  - inversion Hall as [|? ? Ht Hr]; subst. apply name_ok_spec in Ht as [Hne Hns].
    rewrite jtail_cons.
    cbn [split_ws_aux]. replace (is_space 32) with true by reflexivity.
    destruct cur as [|c0 cur]; [congruence|].
    rewrite sw_tok by exact Hns. rewrite app_nil_r, IH; [now rewrite rev_involutive| |exact Hr].
    intro E. apply (f_equal (@rev N)) in E. rewrite rev_involutive in E. cbn in E. congruence.
Qed.

Lemma split_line t0 toks : name_ok t0 = true -> Forall (fun t => name_ok t = true) toks ->
  split_ws (t0 ++ jtail toks) = t0 :: toks.
Proof.
  intros H0 Hall. apply name_ok_spec in H0 as [Hne Hns]. unfold split_ws.
  rewrite sw_tok by exact Hns. rewrite app_nil_r, sw_tail; [now rewrite rev_involutive| |exact Hall].
  intro E. apply (f_equal (@rev N)) in E. rewrite rev_involutive in E. cbn in E. congruence.
Qed.

Definition not_nl (c : N) : bool := negb ((c =? 10) || (c =? 13)).
Lemma lines_line l : forall cur rest, forallb not_nl l = true ->
  lines_aux cur (l ++ 10 :: rest) = (rev cur ++ l) :: lines_aux [] rest.
Proof.
  induction l as [|c l IH]; intros cur rest H.
  - cbn. now rewrite app_nil_r.
  - cbn in H. apply andb_true_iff in H as [Hc Hl]. unfold not_nl in Hc. apply negb_true_iff in Hc.
    cbn [app lines_aux]. rewrite Hc, IH by exact Hl. cbn [rev]. now rewrite <- app_assoc.
Qed.

Lemma nospace_not_nl c : is_space c = false -> not_nl c = true.
Proof.
  intro H. unfold not_nl. destruct (N.eqb_spec c 10) as [->|_]; [discriminate H|].
  destruct (N.eqb_spec c 13) as [->|_]; [discriminate H|]. reflexivity.
Qed.
Lemma tok_no_nl t : nospace t = true -> forallb not_nl t = true.
Proof.
  unfold nospace. rewrite !forallb_forall. intros H c Hc. apply nospace_not_nl.
  specialize (H c Hc). now apply negb_true_iff in H.
Qed.
Lemma jtail_no_nl toks : Forall (fun t => name_ok t = true) toks -> forallb not_nl (jtail toks) = true.
Proof.
  induction 1 as [|t r Ht _ IH]; [reflexivity|].
  rewrite jtail_cons. cbn [forallb].
  rewrite forallb_app, IH. apply name_ok_spec in Ht as [_ Ht]. now rewrite (tok_no_nl _ Ht).
Qed.

(* ================================================================ one line *)
Definition chf_toks (l : chks) : list str :=
  flat_map (fun e => match chf_width (fst e) with
                     | Some w => [upper (fst e); rjust0 w (hex (snd e))]
                     | None => [] end) l.
Definition kn (e : str * N) : Prop := known (fst e) = true.

Lemma jtail_app a b : jtail (a ++ b) = jtail a ++ jtail b.
Proof. unfold jtail. now rewrite map_app, concat_app. Qed.

Lemma render_chfs_ok l : Forall kn l -> render_chfs l = Ok (jtail (chf_toks l)).
Proof.
  induction 1 as [|[c v] r Hk _ IH]; [reflexivity|].
  unfold kn, known in Hk. cbn [fst] in Hk. cbn [render_chfs chf_toks flat_map fst snd].
  destruct (chf_width c) as [w|]; [|discriminate]. rewrite IH. fold (chf_toks r).
  cbn [app]. rewrite !jtail_cons. reflexivity.
Qed.

Definition chf_fact (e : str * nat) : bool :=
  name_ok (upper (fst e)) && str_eqb (lower (upper (fst e))) (fst e) && negb (str_eqb (fst e) SIZE).
Lemma table_facts : forallb chf_fact chf_table = true.
Proof. vm_compute. reflexivity. Qed.
Lemma assoc_in {B} k (l : list (str * B)) v : assoc k l = Some v -> In (k, v) l.
Proof.
  induction l as [|[k' v'] l IH]; cbn; [discriminate|].
  destruct (str_eqb k k') eqn:E; intro H.
  - apply str_eqb_eq in E. subst. injection H as ->. now left.
  - right. now apply IH.
Qed.
Lemma known_facts c w : chf_width c = Some w ->
  name_ok (upper c) = true /\ lower (upper c) = c /\ str_eqb c SIZE = false.
Proof.
  intro H. apply assoc_in in H. pose proof table_facts as F. rewrite forallb_forall in F.
  specialize (F _ H). unfold chf_fact in F. cbn [fst] in F.
  apply andb_true_iff in F as [F F3]. apply andb_true_iff in F as [F1 F2].
  apply str_eqb_eq in F2. apply negb_true_iff in F3. auto.
Qed.

Lemma name_ok_digits b ds : (b = 10 \/ b = 16) -> ds <> [] -> Forall (fun d => d < b) ds ->
  name_ok (map digit_char ds) = true.
Proof.
  intros Hb Hne Hall. apply name_ok_spec. split; [destruct ds; [congruence|discriminate]|].
  pose proof (digit_chars_facts b ds Hb Hall) as F. unfold nospace. apply forallb_forall.
  intros c Hc. rewrite Forall_forall in F. destruct (F c Hc) as (_ & _ & _ & _ & Hs). now rewrite Hs.
Qed.

Lemma name_ok_rjust w n : name_ok (rjust0 w (hex n)) = true.
Proof.
  destruct (hex_digits_ok n) as (Hne & Hlt & _). rewrite rjust_as_digits.
  apply (name_ok_digits 16); [now right| |].
  - destruct (repeat 0 (w - length (hex n))); cbn; [exact Hne|discriminate].
  - apply Forall_app. split; [|exact Hlt]. apply Forall_forall. intros x Hx. apply repeat_spec in Hx. lia.
Qed.

Lemma name_ok_dec n : name_ok (dec n) = true.
Proof.
  unfold dec, to_base. destruct (N.eqb_spec n 0) as [->|Hn]; [reflexivity|].
  apply (name_ok_digits 10); [now left| |].
  - intro E. apply (f_equal (@rev N)) in E. rewrite rev_involutive in E. cbn in E.
    eapply digits_lsb_nonempty; [exact Hn| |exact E].
    destruct n as [|p]; [congruence|]. cbn. pose proof (Pos2Nat.is_pos (Pos.size p)). lia.
  - apply Forall_rev. apply digits_lsb_lt. lia.
Qed.

Lemma chf_toks_ok l : Forall kn l -> Forall (fun t => name_ok t = true) (chf_toks l).
Proof.
  induction 1 as [|[c v] r Hk _ IH]; [constructor|].
  unfold kn, known in Hk. cbn [fst] in Hk. cbn [chf_toks flat_map fst snd].
  destruct (chf_width c) as [w|] eqn:E; [|discriminate].
  destruct (known_facts c w E) as (H1 & _ & _).
  cbn [app]. constructor; [exact H1|]. constructor; [apply name_ok_rjust|exact IH].
Qed.

Lemma chf_toks_even l : Forall kn l -> Nat.even (length (chf_toks l)) = true.
Proof.
  induction 1 as [|[c v] r Hk _ IH]; [reflexivity|].
  unfold kn, known in Hk. cbn [fst] in Hk. cbn [chf_toks flat_map fst snd].
  destruct (chf_width c) as [w|]; [|discriminate]. cbn [app length]. exact IH.
Qed.

Definition zc (e : str * N) : str * Z := (fst e, Z.of_N (snd e)).

Lemma conv_pairs_ok l : forall acc, Forall kn l -> NoDup (map fst l) ->
  (forall c, In c (map fst l) -> ~ In c (map fst acc)) ->
  conv_pairs (chf_toks l) acc = Some (acc ++ map zc l).
Proof.
  induction l as [|[c v] r IH]; intros acc Hk Hnd Hfresh.
  - cbn. now rewrite app_nil_r.
  - inversion Hk as [|? ? Hc Hr]; subst. unfold kn, known in Hc. cbn [fst] in Hc.
    cbn [chf_toks flat_map fst snd]. destruct (chf_width c) as [w|] eqn:E; [|discriminate].
    destruct (known_facts c w E) as (_ & H2 & H3). fold (chf_toks r).
    cbn [app conv_pairs]. rewrite H2, H3, py_int_hex.
    cbn [map] in Hnd. inversion Hnd as [|? ? Hn Hnr]; subst.
    rewrite dset_fresh by (apply Hfresh; now left).
    rewrite IH; [|exact Hr|exact Hnr|].
    + rewrite <- app_assoc. reflexivity.
    + intros c' Hc' Hin. rewrite map_app in Hin. apply in_app_or in Hin as [Hin|Hin].
      * eapply Hfresh; [right; exact Hc'|exact Hin].
      * cbn in Hin. destruct Hin as [<-|[]]. exact (Hn Hc').
Qed.

(* facts about one entry drawn from chks_ok *)
Lemma mem_In x l : mem x l = true <-> In x l.
Proof.
  unfold mem. rewrite existsb_exists. split.
  - intros [y [Hy E]]. apply str_eqb_eq in E. now subst.
  - intro H. exists x. split; [exact H|apply str_eqb_refl].
Qed.
Lemma nodupb_NoDup l : nodupb l = true -> NoDup l.
Proof.
  induction l as [|x r IH]; cbn; intro H; constructor.
  - apply andb_true_iff in H as [H _]. apply negb_true_iff in H. intro Hin. apply mem_In in Hin. congruence.
  - apply andb_true_iff in H as [_ H]. now apply IH.
Qed.

Lemma insert_perm {A} (key : A -> str) x l : Permutation (insert key x l) (x :: l).
Proof.
  induction l as [|y l IH]; cbn; [reflexivity|].
  destruct (str_leb (key x) (key y)); [reflexivity|].
  rewrite IH. apply perm_swap.
Qed.
Lemma sort_by_permutation {A} (key : A -> str) l : Permutation (sort_by key l) l.
Proof. induction l as [|x l IH]; cbn; [reflexivity|]. rewrite insert_perm. now constructor. Qed.

Definition sorted_chfs (ck : chks) : chks := sort_by fst (filter not_size ck).
Lemma sorted_chfs_facts ck : chks_ok ck = true ->
  (exists sz, assoc SIZE ck = Some sz) /\ Forall kn (sorted_chfs ck) /\ NoDup (map fst (sorted_chfs ck)) /\
  (forall c, In c (map fst (sorted_chfs ck)) -> c <> SIZE).
Proof.
  unfold chks_ok. intro H. apply andb_true_iff in H as [H H3]. apply andb_true_iff in H as [H1 H2].
  assert (Hperm : Permutation (sorted_chfs ck) (filter not_size ck)) by apply sort_by_permutation.
  split; [|split; [|split]].
  - unfold has_key in H1. destruct (assoc SIZE ck) as [sz|]; [eauto|discriminate].
  - eapply Permutation_Forall; [symmetry; exact Hperm|]. apply Forall_forall. intros e He.
    apply filter_In in He as [He Hs]. rewrite forallb_forall in H2. specialize (H2 e He).
    unfold not_size in Hs. apply negb_true_iff in Hs. rewrite Hs in H2. exact H2.
  - eapply Permutation_NoDup; [symmetry; apply Permutation_map; exact Hperm|].
    apply nodupb_NoDup in H3. clear -H3. induction ck as [|e ck IH]; cbn; [constructor|].
    cbn in H3. inversion H3 as [|? ? Hn Hr]; subst. destruct (not_size e); [|now apply IH].
    cbn. constructor; [|now apply IH]. intro Hin. apply Hn. apply in_map_iff in Hin as [e' [E He']].
    apply filter_In in He' as [He' _]. rewrite <- E. now apply in_map.
  - intros c Hc. apply in_map_iff in Hc as [e [<- He]]. eapply Permutation_in in He; [|exact Hperm].
    apply filter_In in He as [_ Hs]. unfold not_size in Hs. apply negb_true_iff in Hs.
    intro E. rewrite E, str_eqb_refl in Hs. discriminate.
Qed.

Definition line_toks (name : str) (ck : chks) : list str :=
  name :: dec (size_of ck) :: chf_toks (sorted_chfs ck).

Lemma manifest_line_ok ty name ck : chks_ok ck = true ->
  manifest_line ty name ck = Ok ((upper ty ++ jtail (line_toks name ck)) ++ [10]).
Proof.
  intro H. destruct (sorted_chfs_facts ck H) as ([sz Hsz] & Hk & _ & _).
  unfold manifest_line, line_toks, size_of. rewrite Hsz. fold (sorted_chfs ck).
  rewrite (render_chfs_ok _ Hk). f_equal.
  rewrite !jtail_cons. repeat (rewrite <- ?app_assoc; cbn [app]; try reflexivity).
Qed.

Lemma has_key_app {B} n (d : list (str * B)) k v : has_key n (d ++ [(k, v)]) = has_key n d || str_eqb n k.
Proof.
  unfold has_key. induction d as [|[k' v'] d IH]; cbn.
  - destruct (str_eqb n k); reflexivity.
  - destruct (str_eqb n k'); [reflexivity|exact IH].
Qed.

Lemma parse_entry_ok d ty name ck : name_ok name = true -> chks_ok ck = true -> has_key name d = false ->
  parse_entry d (ty :: line_toks name ck) = Some (d ++ [(name, canon_chks ck)]).
Proof.
  intros Hn Hc Hfresh. destruct (sorted_chfs_facts ck Hc) as (_ & Hk & Hnd & Hns).
  unfold line_toks, parse_entry. rewrite (chf_toks_even _ Hk), Hfresh, py_int_dec.
  rewrite conv_pairs_ok; [reflexivity|exact Hk|exact Hnd|].
  intros c Hin [E|[]]. cbn in E. exact (Hns c Hin (eq_sym E)).
Qed.

(* ================================================================ one section *)
Record sel := Sel { s_ty : str; s_get : pm -> list pentry; s_set : pm -> list pentry -> pm }.
Definition sel_ok (S : sel) : Prop :=
  (forall m toks, parse_line m (s_ty S :: toks)
                  = option_map (s_set S m) (parse_entry (s_get S m) (s_ty S :: toks))) /\
  (forall m d, s_get S (s_set S m d) = d) /\
  (forall m d d', s_set S (s_set S m d) d' = s_set S m d') /\
  (forall m, s_set S m (s_get S m) = m) /\
  upper (s_ty S) = s_ty S /\ name_ok (s_ty S) = true.

Definition sel_dist := Sel T_DIST p_dist (fun m d => Pm d (p_aux m) (p_ebuild m) (p_misc m)).
Definition sel_aux := Sel T_AUX p_aux (fun m d => Pm (p_dist m) d (p_ebuild m) (p_misc m)).
Definition sel_ebuild := Sel T_EBUILD p_ebuild (fun m d => Pm (p_dist m) (p_aux m) d (p_misc m)).
Definition sel_misc := Sel T_MISC p_misc (fun m d => Pm (p_dist m) (p_aux m) (p_ebuild m) d).

Ltac sel_tac := repeat split; try reflexivity; try (intros [? ? ? ?]; reflexivity).
Lemma sel_dist_ok : sel_ok sel_dist. Proof. sel_tac. Qed.
Lemma sel_aux_ok : sel_ok sel_aux. Proof. sel_tac. Qed.
Lemma sel_ebuild_ok : sel_ok sel_ebuild. Proof. sel_tac. Qed.
Lemma sel_misc_ok : sel_ok sel_misc. Proof. sel_tac. Qed.

Definition efact (e : entry) : Prop := name_ok (fst e) = true /\ chks_ok (snd e) = true.
Definition canon_e (e : entry) : pentry := (fst e, canon_chks (snd e)).

Lemma section_parse (S : sel) (Hok : sel_ok S) : forall L,
  Forall efact L -> NoDup (map fst L) ->
  exists t, concat_res (map (fun e => manifest_line (s_ty S) (fst e) (snd e)) L) = Ok t /\
    forall rest m, (forall n, In n (map fst L) -> has_key n (s_get S m) = false) ->
      parse_lines m (lines_aux [] (t ++ rest))
      = parse_lines (s_set S m (s_get S m ++ map canon_e L)) (lines_aux [] rest).
Proof.
  destruct Hok as (Hpl & Hgs & Hss & Hsg & Hup & Hty).
  induction L as [|[name ck] L IH]; intros Hall Hnd.
  - exists []. split; [reflexivity|]. intros rest m _. cbn [map app]. now rewrite app_nil_r, Hsg.
  - inversion Hall as [|? ? [Hn Hc] Hr]; subst. cbn [fst snd] in Hn, Hc.
    cbn [map] in Hnd. inversion Hnd as [|? ? Hnin Hndr]; subst.
    destruct (IH Hr Hndr) as (t' & Ht' & Hparse).
    cbn [map concat_res fst snd]. rewrite (manifest_line_ok _ _ _ Hc), Ht', Hup.
    eexists. split; [reflexivity|]. intros rest m Hfresh.
    assert (Htoks : Forall (fun t => name_ok t = true) (line_toks name ck)).
    { destruct (sorted_chfs_facts ck Hc) as (_ & Hk & _ & _).
      unfold line_toks. constructor; [exact Hn|]. constructor; [apply name_ok_dec|now apply chf_toks_ok]. }
    assert (Hshape : forall (A t1 r1 : str), ((A ++ [10]) ++ t1) ++ r1 = A ++ 10 :: (t1 ++ r1))
      by (intros; rewrite <- !app_assoc; reflexivity).
    rewrite Hshape.
    rewrite lines_line.
    2:{ rewrite forallb_app, (jtail_no_nl _ Htoks). apply name_ok_spec in Hty as [_ Hty].
        now rewrite (tok_no_nl _ Hty). }
    cbn [rev app parse_lines]. rewrite (split_line _ _ Hty Htoks), Hpl.
    rewrite parse_entry_ok; [|exact Hn|exact Hc|apply Hfresh; now left].
    cbn [option_map]. rewrite Hparse.
    + rewrite Hgs, Hss, <- app_assoc. reflexivity.
    + intros n Hin. rewrite Hgs, has_key_app, (Hfresh n (or_intror Hin)). cbn [orb].
      destruct (str_eqb n name) eqn:E; [|reflexivity]. apply str_eqb_eq in E. subst. contradiction.
Qed.


Lemma entries_ok_facts l : entries_ok l = true -> Forall efact l /\ NoDup (map fst l).
Proof.
  unfold entries_ok. intro H. apply andb_true_iff in H as [H1 H2]. split; [|now apply nodupb_NoDup].
  apply Forall_forall. intros e He. rewrite forallb_forall in H1. specialize (H1 e He).
  apply andb_true_iff in H1. exact H1.
Qed.

Lemma sorted_facts (l : list entry) : Forall efact l -> NoDup (map fst l) ->
  Forall efact (sort_by fst l) /\ NoDup (map fst (sort_by fst l)).
Proof.
  intros H1 H2. pose proof (sort_by_permutation fst l) as Hp. split.
  - eapply Permutation_Forall; [symmetry; exact Hp|exact H1].
  - eapply Permutation_NoDup; [symmetry; apply Permutation_map; exact Hp|exact H2].
Qed.

Lemma canon_sec_map l : canon_sec l = map canon_e (sort_by fst l).
Proof. reflexivity. Qed.

Lemma section_id_parse (S : sel) (Hok : sel_ok S) l : entries_ok l = true ->
  exists t, section (s_ty S) (fun n => n) l = Ok t /\
    forall rest m, s_get S m = [] ->
      parse_lines m (lines_aux [] (t ++ rest)) = parse_lines (s_set S m (canon_sec l)) (lines_aux [] rest).
Proof.
  intro H. destruct (entries_ok_facts l H) as [H1 H2]. destruct (sorted_facts l H1 H2) as [H3 H4].
  destruct (section_parse S Hok (sort_by fst l) H3 H4) as (t & Ht & Hp).
  exists t. split; [exact Ht|]. intros rest m Hg. rewrite Hp.
  - rewrite Hg. reflexivity.
  - intros n _. now rewrite Hg.
Qed.

Lemma split_on_noslash s : forall cur, existsb (N.eqb 47) s = false -> split_on_aux 47 cur s = [rev cur ++ s].
Proof.
  induction s as [|x s IH]; intros cur H; cbn [split_on_aux].
  - now rewrite app_nil_r.
  - cbn [existsb] in H. apply orb_false_iff in H as [Hx Hs]. rewrite N.eqb_sym in Hx. rewrite Hx, IH by exact Hs.
    cbn [rev]. now rewrite <- app_assoc.
Qed.
Lemma basename_noslash n : no_slash n = true -> basename n = n.
Proof.
  unfold no_slash, basename, split_on. intro H. apply negb_true_iff in H. now rewrite split_on_noslash.
Qed.

Lemma section_basename ty l : forallb (fun e => no_slash (fst e)) l = true ->
  section ty basename l = section ty (fun n => n) l.
Proof.
  intro H. unfold section. f_equal. apply map_ext_in. intros e He.
  rewrite basename_noslash; [reflexivity|].
  rewrite forallb_forall in H. apply H. eapply Permutation_in; [apply sort_by_permutation|exact He].
Qed.

Lemma text_parse a d e m :
  entries_ok a = true -> entries_ok d = true -> entries_ok e = true -> entries_ok m = true ->
  forallb (fun x => no_slash (fst x)) d = true ->
  exists t, manifest_text a d e m = Ok t /\
            parse_text t = Some (Pm (canon_sec d) (canon_sec a) (canon_sec e) (canon_sec m)).
Proof.
  intros Ha Hd He Hm Hns.
  destruct (section_id_parse sel_aux sel_aux_ok a Ha) as (ta & Hta & Pa).
  destruct (section_id_parse sel_dist sel_dist_ok d Hd) as (td & Htd & Pd).
  destruct (section_id_parse sel_ebuild sel_ebuild_ok e He) as (te & Hte & Pe).
  destruct (section_id_parse sel_misc sel_misc_ok m Hm) as (tm & Htm & Pm_).
  cbn [s_ty sel_aux sel_dist sel_ebuild sel_misc] in Hta, Htd, Hte, Htm.
  exists (ta ++ td ++ te ++ tm). split.
  - unfold manifest_text. rewrite (section_basename _ _ Hns), Hta, Htd, Hte, Htm. reflexivity.
  - unfold parse_text, lines. rewrite Pa by reflexivity. rewrite Pd by reflexivity.
    rewrite Pe by reflexivity. rewrite <- (app_nil_r tm). rewrite Pm_ by reflexivity.
    reflexivity.
Qed.

Lemma parse_render_proof : forall thin scan fetch,
  wf_update thin scan fetch = true ->
  match update_text thin scan fetch with
  | Ok (Some t) => parse_text t = Some (expected_pm thin scan fetch)
  | Ok None => thin = true /\ fetch = []
  | Fail _ => False
  end.
Proof.
  intros thin scan fetch H. unfold wf_update in H.
  apply andb_true_iff in H as [H Hrest]. apply andb_true_iff in H as [Hf Hns].
  unfold update_text, expected_pm. destruct thin.
  - cbn [andb]. destruct fetch as [|f0 fr]; [split; reflexivity|].
    cbn [negb andb].
    destruct (text_parse [] (f0 :: fr) [] [] eq_refl Hf eq_refl eq_refl Hns) as (t & Ht & Hp).
    rewrite Ht. exact Hp.
  - cbn [orb] in Hrest. cbn [andb negb].
    apply andb_true_iff in Hrest as [Hrest Hm]. apply andb_true_iff in Hrest as [Hrest He].
    apply andb_true_iff in Hrest as [Hrest Ha]. apply andb_true_iff in Hrest as [Hb Hl].
    apply negb_true_iff in Hb. rewrite Hb.
    rewrite !picks_covered by (apply entries_ok_facts; assumption).
    destruct (text_parse _ _ _ _ Ha Hf He Hm Hns) as (t & Ht & Hp).
    rewrite Ht. exact Hp.
Qed.

(* ================================================================ the parsed content is exactly the input *)
Lemma canon_sec_exact_proof l : Permutation (canon_sec l) (map (fun e => (fst e, canon_chks (snd e))) l).
Proof. unfold canon_sec. apply Permutation_map. apply sort_by_permutation. Qed.

Lemma canon_chks_exact_proof ck :
  Permutation (canon_chks ck)
              ((SIZE, Z.of_N (size_of ck)) :: map (fun e => (fst e, Z.of_N (snd e))) (filter not_size ck)).
Proof. unfold canon_chks. constructor. apply Permutation_map. apply sort_by_permutation. Qed.


(* ================================================================ no carriage return in a generated text *)
Lemma not_nl_no_cr l : forallb not_nl l = true -> ~ In 13 l.
Proof. intros H Hin. rewrite forallb_forall in H. specialize (H 13 Hin). discriminate. Qed.

Lemma concat_res_no_cr rs : Forall (fun r => forall t, r = Ok t -> ~ In 13 t) rs ->
  forall t, concat_res rs = Ok t -> ~ In 13 t.
Proof.
  induction 1 as [|r rs Hr _ IH]; cbn; intros t Ht.
  - injection Ht as <-. intros [].
  - destruct r as [s|k]; [|discriminate]. destruct (concat_res rs) as [t'|k]; [|discriminate].
    injection Ht as <-. intro Hin. apply in_app_or in Hin as [Hin|Hin]; [exact (Hr _ eq_refl Hin)|exact (IH _ eq_refl Hin)].
Qed.

Lemma section_no_cr (S : sel) (Hok : sel_ok S) l t : entries_ok l = true ->
  section (s_ty S) (fun n => n) l = Ok t -> ~ In 13 t.
Proof.
  intros H. destruct Hok as (_ & _ & _ & _ & Hup & Hty).
  destruct (entries_ok_facts l H) as [H1 H2]. destruct (sorted_facts l H1 H2) as [H3 _].
  unfold section. apply concat_res_no_cr. apply Forall_forall. intros r Hr.
  apply in_map_iff in Hr as [[name ck] [<- He]]. rewrite Forall_forall in H3. destruct (H3 _ He) as [Hn Hc].
  cbn [fst snd] in *. rewrite (manifest_line_ok _ _ _ Hc), Hup. intros t0 E. injection E as <-.
  assert (Htoks : Forall (fun t => name_ok t = true) (line_toks name ck)).
  { destruct (sorted_chfs_facts ck Hc) as (_ & Hk & _ & _).
    unfold line_toks. constructor; [exact Hn|]. constructor; [apply name_ok_dec|now apply chf_toks_ok]. }
  intro Hin. apply in_app_or in Hin as [Hin|[Hin|[]]]; [|discriminate].
  revert Hin. apply not_nl_no_cr. rewrite forallb_app, (jtail_no_nl _ Htoks).
  apply name_ok_spec in Hty as [_ Hty]. now rewrite (tok_no_nl _ Hty).
Qed.

Lemma text_no_cr a d e m t :
  entries_ok a = true -> entries_ok d = true -> entries_ok e = true -> entries_ok m = true ->
  forallb (fun x => no_slash (fst x)) d = true ->
  manifest_text a d e m = Ok t -> ~ In 13 t.
Proof.
  intros Ha Hd He Hm Hns. unfold manifest_text. rewrite (section_basename _ _ Hns).
  pose proof (section_no_cr sel_aux sel_aux_ok a) as Na.
  pose proof (section_no_cr sel_dist sel_dist_ok d) as Nd.
  pose proof (section_no_cr sel_ebuild sel_ebuild_ok e) as Ne.
  pose proof (section_no_cr sel_misc sel_misc_ok m) as Nm.
  cbn [s_ty sel_aux sel_dist sel_ebuild sel_misc] in Na, Nd, Ne, Nm.
  destruct (section T_AUX _ a) as [ta|]; [|discriminate].
  destruct (section T_DIST _ d) as [td|]; [|discriminate].
  destruct (section T_EBUILD _ e) as [te|]; [|discriminate].
  destruct (section T_MISC _ m) as [tm|]; [|discriminate].
  cbn. intro E. injection E as <-. intro Hin.
  apply in_app_or in Hin as [Hin|Hin]; [exact (Na _ Ha eq_refl Hin)|].
  apply in_app_or in Hin as [Hin|Hin]; [exact (Nd _ Hd eq_refl Hin)|].
  apply in_app_or in Hin as [Hin|Hin]; [exact (Ne _ He eq_refl Hin)|exact (Nm _ Hm eq_refl Hin)].
Qed.

Lemma wf_text_no_cr thin scan fetch t : wf_update thin scan fetch = true ->
  update_text thin scan fetch = Ok (Some t) -> ~ In 13 t.
Proof.
  intros H. unfold wf_update in H.
  apply andb_true_iff in H as [H Hrest]. apply andb_true_iff in H as [Hf Hns].
  unfold update_text. destruct thin.
  - cbn [andb negb]. destruct fetch as [|f0 fr]; [discriminate|].
    destruct (manifest_text [] (f0 :: fr) [] []) as [t0|] eqn:E; [|discriminate].
    intro E'. injection E' as <-. eapply (text_no_cr [] (f0 :: fr) [] []); eauto.
  - cbn [orb] in Hrest. cbn [andb negb].
    apply andb_true_iff in Hrest as [Hrest Hm]. apply andb_true_iff in Hrest as [Hrest He].
    apply andb_true_iff in Hrest as [Hrest Ha]. apply andb_true_iff in Hrest as [Hb Hl].
    apply negb_true_iff in Hb. rewrite Hb.
    rewrite !picks_covered by (apply entries_ok_facts; assumption).
    destruct (manifest_text _ fetch _ _) as [t0|] eqn:E; [|discriminate].
    intro E'. injection E' as <-. eapply text_no_cr; [exact Ha|exact Hf|exact He|exact Hm|exact Hns|exact E].
Qed.

(* regenerating right after a completed update writes nothing (well-formed inputs) *)
Lemma idempotent_wf_proof : forall i s wr ops s',
  tmp_private s -> wf_update (u_thin i) (u_scan i) (u_fetch i) = true ->
  update_ops i s = Ok (wr, ops) -> run_opt ops s = Some s' ->
  update_ops i s' = Ok (false, []).
Proof.
  intros i s wr ops s' Hp Hwf H Hr. eapply idempotent_proof; eauto.
  intros text Ht. eapply wf_text_no_cr; eauto.
Qed.

(* ================================================================ the hypotheses are satisfiable *)
Definition ex_ck (sz h : N) : chks := [(s2l "md5"%bs, h); (SIZE, sz); (s2l "sha1"%bs, h + 1)].
Definition ex_scan : list scanned :=
  [Scanned (s2l "/pkg-1.ebuild"%bs) true (ex_ck 3 5); Scanned (s2l "/files"%bs) false [];
   Scanned (s2l "/metadata.xml"%bs) true (ex_ck 40 6); Scanned (s2l "/files/b.patch"%bs) true (ex_ck 7 255);
   Scanned (s2l "/files/a.patch"%bs) true (ex_ck 8 4096); Scanned (s2l "/CVS/Entries"%bs) true (ex_ck 1 1);
   Scanned (s2l "/Manifest"%bs) true (ex_ck 1 2); Scanned (s2l "/.update.Manifest"%bs) true (ex_ck 1 3)].
Definition ex_fetch : list entry := [(s2l "z-1.tar"%bs, ex_ck 1000 77); (s2l "a-1.tar"%bs, ex_ck 2000 78)].
Definition ex_in : uin := Uin false ex_scan ex_fetch 420 40.

Example ex_wf : wf_update false ex_scan ex_fetch = true.
Proof. vm_compute. reflexivity. Qed.
Example ex_text : exists t, update_text false ex_scan ex_fetch = Ok (Some t) /\ (length t > 400)%nat /\
  parse_text t = Some (expected_pm false ex_scan ex_fetch) /\
  map fst (p_aux (expected_pm false ex_scan ex_fetch)) = [s2l "a.patch"%bs; s2l "b.patch"%bs] /\
  map fst (p_misc (expected_pm false ex_scan ex_fetch)) = [s2l "metadata.xml"%bs].
Proof. eexists. split; [vm_compute; reflexivity|]. split; [vm_compute; lia|]. split; vm_compute; auto. Qed.
Example ex_perm : update_text false (rev ex_scan) (rev ex_fetch) = update_text false ex_scan ex_fetch.
Proof. vm_compute. reflexivity. Qed.

Lemma mkfs_private old stale : tmp_private (mkfs old stale).
Proof.
  unfold tmp_private, mkfs. destruct old as [o|], stale as [st|]; cbn [app]; cbn [lookup].
  - destruct (path_eq_dec TMP P) as [E|_]; [exfalso; exact (TMP_neq_P E)|].
    destruct (path_eq_dec TMP TMP) as [_|N]; [|congruence]. unfold mkfile.
    intros q n Hq Hl. destruct (path_eq_dec q P); [injection Hl as <-; cbn; congruence|].
    destruct (path_eq_dec q TMP); [contradiction|discriminate].
  - destruct (path_eq_dec TMP P) as [E|_]; [exfalso; exact (TMP_neq_P E)|exact I].
  - destruct (path_eq_dec TMP TMP) as [_|N]; [|congruence]. unfold mkfile.
    intros q n Hq Hl. destruct (path_eq_dec q TMP); [contradiction|discriminate].
  - exact I.
Qed.

(* a stale Manifest and a stale temporary: the update issues open(truncate) + 2 writes + rename, all
   succeed, the new text is in place and the temporary is gone *)
Example ex_update :
  let s := mkfs (Some (s2l "DIST old 1 MD5 00000000000000000000000000000001"%bs)) (Some (s2l "junk"%bs)) in
  exists ops s' t, update_ops (Uin true [] ex_fetch 420 150) s = Ok (true, ops) /\ length ops = 4%nat /\
    run_opt ops s = Some s' /\ update_text true [] ex_fetch = Ok (Some t) /\
    file_data s' P = Some t /\ file_data s' TMP = None.
Proof. do 3 eexists. repeat split; vm_compute; reflexivity. Qed.

(* up to date => nothing is written *)
Lemma up_to_date_no_ops_proof : forall i s old t,
  update_text (u_thin i) (u_scan i) (u_fetch i) = Ok (Some t) ->
  file_data s P = Some old -> read_nl old = t ->
  update_ops i s = Ok (false, []).
Proof.
  intros i s old t Ht Hd Hr. unfold update_ops, update_with. rewrite Ht, Hd, Hr.
  now rewrite str_eqb_refl.
Qed.
