(* Spec_C25.v — the statement of C25, written without looking at the algorithm of tar.py:
   which contents sets are well formed, what "equivalent entries" means, what "still sharing an
   inode" means, and a boolean acceptor evaluated on what the IMPLEMENTATION read back. *)
From Coq Require Import List NArith ZArith Bool Arith Permutation.
Import ListNotations.
From Verif Require Import Base.Val C25.Path_C25 C25.Model_C25.

(* a location is an absolute, normalised path below the root: "/" ++ "/".join(plain components) *)
Definition plain_loc (l : str) : Prop :=
  exists cs, cs <> [] /\ Forall plainc cs /\ l = abs_of cs.

(* the (st_dev, st_ino) identity of a file, when it is known *)
Definition hkey (e : entry) : option (N * N) :=
  match dev e, ino e with Some d, Some i => Some (d, i) | _, _ => None end.

(* what the property compares of an entry ("paths, types, modes, ownership, mtimes, symlink
   targets, file data, devices"); fields that are meaningless for the entry's type are ignored *)
Definition obs (e : entry) : str * kind * (N * N * N * N) * str * N * (N * N) :=
  (loc e, knd e, (mode e, uid e, gid e, mtime e),
   match knd e with KSym => target e | _ => [] end,
   match knd e with KReg => data e | _ => 0%N end,
   match knd e with KDev => (major e, minor e) | _ => (0%N, 0%N) end).

(* [p] lies strictly inside directory [d] *)
Definition beneath (d p : str) : Prop := exists rest, p = d ++ SL :: rest.

Record wf (c : list entry) : Prop := {
  wf_loc : forall e, In e c -> plain_loc (loc e);
  wf_nodup : NoDup (map loc c);
  (* permission bits only; a device's mode also carries S_IFCHR or S_IFBLK (livefs.gen_obj) *)
  wf_mode : forall e, In e c -> knd e <> KDev -> (mode e < 4096)%N;
  wf_devmode : forall e, In e c -> knd e = KDev ->
     exists p, (p < 4096)%N /\ (mode e = N.lor p S_IFCHR \/ mode e = N.lor p S_IFBLK);
  (* names of one inode agree on the inode's attributes and content (true of any real filesystem) *)
  wf_inode : forall e1 e2, In e1 c -> In e2 c -> knd e1 = KReg -> knd e2 = KReg ->
     hkey e1 <> None -> hkey e1 = hkey e2 ->
     uid e1 = uid e2 /\ gid e1 = gid e2 /\ mode e1 = mode e2 /\ mtime e1 = mtime e2 /\ data e1 = data e2
}.

(* no entry is recorded beneath a symlink of the set (true of every set scanned from disk) *)
Definition flat (c : list entry) : Prop :=
  forall s e, In s c -> In e c -> knd s = KSym -> ~ beneath (loc s) (loc e).

(* every entry's parent directory is in the set (true of every set scanned from disk) *)
Definition parents_closed (c : list entry) : Prop :=
  forall e, In e c -> dirname (loc e) = [SL] \/ In (dirname (loc e)) (map loc c).

(* two names of the set are the same file: same path, or the same known (dev, inode) *)
Definition same_file (e1 e2 : entry) : Prop :=
  loc e1 = loc e2 \/ (hkey e1 <> None /\ hkey e1 = hkey e2).

(* The round trip on the sets the property quantifies over (contents sets built on disk):
   exactly the written entries come back, each with the same observable attributes, and two
   files share an inode afterwards iff they were the same file before. *)
Definition roundtrip_ok (c r : list entry) : Prop :=
  Permutation (map obs r) (map obs c) /\
  forall e1 e2 r1 r2, In e1 c -> In e2 c -> In r1 r -> In r2 r ->
    knd e1 = KReg -> knd e2 = KReg -> loc r1 = loc e1 -> loc r2 = loc e2 ->
    (ino r1 = ino r2 <-> same_file e1 e2).

(* ------------------------------------------------------------------ boolean acceptor (B) *)
Record row := mkR { r_loc : str; r_kind : N; r_mode : N; r_uid : N; r_gid : N; r_mtime : N;
                    r_target : str; r_ino : option N; r_data : N; r_major : N; r_minor : N }.

Definition zN (v : val) : option N :=
  match v with VZ z => if Z.leb 0 z then Some (Z.to_N z) else None | _ => None end.
Definition dec_row (v : val) : option row :=
  match v with
  | VL [VS l; k; m; u; g; t; VS tg; i; d; mj; mn] =>
      match zN k, zN m, zN u, zN g, zN t, zN d, zN mj, zN mn with
      | Some k, Some m, Some u, Some g, Some t, Some d, Some mj, Some mn =>
          Some (mkR l k m u g t tg (zN i) d mj mn)
      | _, _, _, _, _, _, _, _ => None
      end
  | _ => None
  end.
Fixpoint dec_rows (l : list val) : option (list row) :=
  match l with
  | [] => Some []
  | v :: r => match dec_row v, dec_rows r with
              | Some x, Some xs => Some (x :: xs)
              | _, _ => None
              end
  end.

Definition row_matches (e : entry) (r : row) : bool :=
  str_eqb (r_loc r) (loc e) && N.eqb (r_kind r) (kind_id (knd e))
  && N.eqb (r_mode r) (match knd e with KDev => mode e | _ => N.land (mode e) 4095 end)
  && N.eqb (r_uid r) (uid e) && N.eqb (r_gid r) (gid e) && N.eqb (r_mtime r) (mtime e)
  && str_eqb (r_target r) (match knd e with KSym => target e | _ => [] end)
  && N.eqb (r_data r) (match knd e with KReg => data e | _ => 0%N end)
  && N.eqb (r_major r) (match knd e with KDev => major e | _ => 0%N end)
  && N.eqb (r_minor r) (match knd e with KDev => minor e | _ => 0%N end).

Definition beneathb (d p : str) : bool := starts_with (d ++ [SL]) p.
Definition flatb (c : list entry) : bool :=
  forallb (fun s => negb (is_sym s) || forallb (fun e => negb (beneathb (loc s) (loc e))) c) c.

Fixpoint nodupb (l : list str) : bool :=
  match l with [] => true | x :: r => negb (existsb (str_eqb x) r) && nodupb r end.

Definition hkey_linkable (e1 e2 : entry) : bool :=
  match dev e1, ino e1, dev e2, ino e2 with
  | Some d1, Some i1, Some d2, Some i2 =>
      N.eqb d1 d2 && N.eqb i1 i2 && N.eqb (uid e1) (uid e2) && N.eqb (gid e1) (gid e2)
      && N.eqb (mode e1) (mode e2) && N.eqb (mtime e1) (mtime e2)
  | _, _, _, _ => false
  end.

(* all names of e's (dev, inode) agree on owner/mode/mtime (always so on a real filesystem) *)
Definition same_devino (e1 e2 : entry) : bool :=
  match dev e1, ino e1, dev e2, ino e2 with
  | Some d1, Some i1, Some d2, Some i2 => N.eqb d1 d2 && N.eqb i1 i2
  | _, _, _, _ => false
  end.
Definition consistent_inode (c : list entry) (e : entry) : bool :=
  forallb (fun g => negb (is_reg g && same_devino g e) || hkey_linkable g e) c.

Definition find_row (l : str) (rs : list row) : option row :=
  find (fun r => str_eqb (r_loc r) l) rs.

(* judged only for flat sets (the Python oracle of the harness judges the others):
   every entry is back unchanged; anything else is a 0o775 root-owned directory that is a parent of
   a written entry; no path twice; hardlink classes are exactly the linkable inode classes *)
Definition spec_rt_ok (c : list entry) (res : val) : bool :=
  if negb (flatb c) then true else
  match res with
  | VL vs =>
      match dec_rows vs with
      | None => false
      | Some rs =>
          forallb (fun e => str_eqb (loc e) [SL] ||
                     match find_row (loc e) rs with Some r => row_matches e r | None => false end) c
          && forallb (fun r => existsb (fun e => str_eqb (loc e) (r_loc r)) c
                        || (N.eqb (r_kind r) 1 && N.eqb (r_mode r) 509 && N.eqb (r_uid r) 0 && N.eqb (r_gid r) 0
                            && existsb (fun e => beneathb (r_loc r) (loc e)) c)) rs
          && nodupb (map r_loc rs)
          && forallb (fun e1 => forallb (fun e2 =>
                negb (is_reg e1 && is_reg e2) || str_eqb (loc e1) (loc e2) ||
                match find_row (loc e1) rs, find_row (loc e2) rs with
                | Some r1, Some r2 =>
                    let shared := oN_eqb (r_ino r1) (r_ino r2) in
                    if hkey_linkable e1 e2 then shared || negb (consistent_inode c e1) else negb shared
                | _, _ => false
                end) c) c
      end
  | _ => false
  end.

(* the known class "symdir-chain" (known_findings/C25.json): resolving an entry takes more than one
   symlink hop -- it lies beneath a symlink S1, and S1 lies beneath another symlink S2 of the set or
   S1's resolved target is, or lies beneath, S2 *)
Definition chain_classb (c : list entry) : bool :=
  existsb (fun s1 =>
    is_sym s1 && existsb (fun e => beneathb (loc s1) (loc e)) c
    && existsb (fun s2 => is_sym s2 && negb (str_eqb (loc s1) (loc s2))
                          && (str_eqb (resolved_target s1) (loc s2) || beneathb (loc s2) (resolved_target s1)
                              || beneathb (loc s2) (loc s1))) c) c.

(* the same three conditions on a set of entries as read from ANY archive (archive_to_fsobj's output) *)
Definition plain_locs (d : list entry) : Prop := forall e, In e d -> plain_loc (loc e).
Definition flat_d (d : list entry) : Prop :=
  forall s e, In s d -> In e d -> is_sym s = true -> ~ beneath (loc s) (loc e).
Definition closed_d (d : list entry) : Prop :=
  forall e, In e d -> dirname (loc e) = [SL] \/ In (dirname (loc e)) (map loc d).
