(* Model_C16.v — the resolver's candidate-ordering functions (resolver/plan.py:37-110, 1033-1053,
   repository/misc.py multiplex_sorting_repo, snakeoil.iterables.iter_sort), transcribed.

     sort_desc lt   = list.sort(key=cmp_to_key(f), reverse=True)   (stable, descending; lt x y := f x y < 0)
     sort_asc lt    = list.sort(key=cmp_to_key(f))                 (stable, ascending)
     merge_loop / iter_sort_gen = snakeoil iter_sort(sorter, *streams): k-way merge that re-sorts the
                      list of [head, iterator] pairs after every yield and drains the last stream
     highest / lowest comparison functions of highest_iter_sort / lowest_iter_sort
     per_repo       = caching_repo(repo, pkg_sort_highest).itermatch(restrict)
     prefer_highest = merge_plan.prefer_highest_version_strategy(dbs).itermatch(restrict)
     prefer_reuse   = merge_plan.prefer_reuse_strategy(dbs).itermatch(restrict)

   Python's sort is modelled by insertion sort; for a comparison that is a total preorder every
   stable sort returns the same list (Proofs_C16.stable_sort_unique), which is what makes this a
   faithful model.  downgrade_iter_sort is not modelled: its comparison is not a preorder (two
   packages that both match `restrict` compare as 1 in both directions).  No proofs here. *)
From Coq Require Import List NArith ZArith Bool.
Import ListNotations.
From Verif Require Import Base.Val C01.Model_C01.

Section Generic.
  Context {A : Type}.
  Variable lt : A -> A -> bool.

  Fixpoint insert_desc (x : A) (l : list A) : list A :=
    match l with
    | [] => [x]
    | y :: l' => if lt x y then y :: insert_desc x l' else x :: l
    end.
  Definition sort_desc (l : list A) : list A := fold_right insert_desc [] l.

  Fixpoint insert_asc (x : A) (l : list A) : list A :=
    match l with
    | [] => [x]
    | y :: l' => if lt y x then y :: insert_asc x l' else x :: l
    end.
  Definition sort_asc (l : list A) : list A := fold_right insert_asc [] l.
End Generic.

Section Merge.
  Context {A : Type}.
  Definition entry : Type := (A * list A)%type.
  Variable sorter : list entry -> list entry.

  Fixpoint merge_loop (fuel : nat) (l : list entry) : list A :=
    match fuel with
    | O => []
    | S f =>
        match l with
        | [] => []
        | (h, rest) :: tl =>
            h :: match rest with
                 | y :: rest' => merge_loop f (sorter ((y, rest') :: tl))
                 | [] => match tl with
                         | [(h2, r2)] => h2 :: r2          (* one stream left: drain it *)
                         | _ => merge_loop f tl            (* `continue`: no re-sort *)
                         end
                 end
        end
    end.

  Definition heads (streams : list (list A)) : list entry :=
    flat_map (fun s => match s with [] => [] | h :: r => [(h, r)] end) streams.

  Definition iter_sort_gen (streams : list (list A)) : list A :=
    match heads streams with
    | [(h, r)] => h :: r
    | l => merge_loop (S (length (concat streams))) (sorter l)
    end.
End Merge.

(* ---- candidates *)
Record cand := { cc : cpv; clive : bool; ctag : N }.     (* ctag: identity, for the harness *)

(* snakeoil cmp(x, y) = (x > y) - (x < y) on packages (CPV rich comparisons) *)
Definition pcmp (x y : cand) : Z :=
  ((if cpv_gt (cc x) (cc y) then 1 else 0) - (if cpv_lt (cc x) (cc y) then 1 else 0))%Z.

Definition f_highest (x y : cand) : Z :=
  let c := pcmp x y in
  if negb (Z.eqb c 0) then c
  else if clive x then (if clive y then 0 else 1)
  else if clive y then (-1) else 0%Z.
Definition f_lowest (x y : cand) : Z :=
  let c := pcmp x y in
  if negb (Z.eqb c 0) then c
  else if clive x then (if clive y then 0 else (-1))
  else if clive y then 1 else 0%Z.
Definition lt_highest (x y : cand) : bool := Z.ltb (f_highest x y) 0.
Definition lt_lowest (x y : cand) : bool := Z.ltb (f_lowest x y) 0.
Definition lt_pkg (x y : cand) : bool := cpv_lt (cc x) (cc y).       (* sorted(reverse=True) *)

Definition on_head {B} (lt : cand -> cand -> bool) (a b : cand * B) : bool := lt (fst a) (fst b).

Definition highest_iter_sort (l : list (cand * list cand)) := sort_desc (on_head lt_highest) l.
Definition lowest_iter_sort (l : list (cand * list cand)) := sort_asc (on_head lt_lowest) l.
Definition pkg_sort_highest (l : list cand) := sort_desc lt_pkg l.
Definition pkg_sort_lowest (l : list cand) := sort_asc lt_pkg l.

(* ---- repositories: livefs flag + packages in repository order, each with "restrict matches it" *)
Definition repo : Type := (bool * list (cand * bool))%type.
Definition per_repo (r : repo) : list cand :=
  map fst (filter snd (sort_desc (on_head lt_pkg) (snd r))).

Definition iter_sort_highest (streams : list (list cand)) : list cand :=
  iter_sort_gen highest_iter_sort streams.

Definition livefs_first (dbs : list repo) : list repo :=
  filter (fun r => fst r) dbs ++ filter (fun r => negb (fst r)) dbs.

Definition prefer_highest (dbs : list repo) : list cand :=
  iter_sort_highest (map per_repo (livefs_first dbs)).
Definition prefer_reuse (dbs : list repo) : list cand :=
  iter_sort_highest (map per_repo (filter (fun r => fst r) dbs))
  ++ iter_sort_highest (map per_repo (filter (fun r => negb (fst r)) dbs)).

(* ---- encoders for the harness *)
Definition enc_tags (l : list cand) : val := VL (map (fun c => VZ (Z.of_N (ctag c))) l).
Definition mkc (cat pkg ver : str) (rev : option N) (live : bool) (tag : N) : cand :=
  {| cc := {| cat := cat; pkg := pkg; ver := ver; rev := rev |}; clive := live; ctag := tag |}.

(* stream "sort": which function, list of candidates *)
Definition run_sort (i : N * list cand) : val :=
  let '(k, l) := i in
  match k with
  | 0%N => enc_tags (map fst (highest_iter_sort (map (fun c => (c, [])) l)))
  | 1%N => enc_tags (map fst (lowest_iter_sort (map (fun c => (c, [])) l)))
  | 2%N => enc_tags (pkg_sort_highest l)
  | _ => enc_tags (pkg_sort_lowest l)
  end.
(* stream "merge": iter_sort(highest_iter_sort, *streams) on arbitrary (pre-sorted) streams *)
Definition run_merge (streams : list (list cand)) : val := enc_tags (iter_sort_highest streams).
(* stream "strategy": 0 = prefer_highest_version_strategy, 1 = prefer_reuse_strategy *)
Definition run_strategy (i : N * list repo) : val :=
  let '(k, dbs) := i in
  match k with 0%N => enc_tags (prefer_highest dbs) | _ => enc_tags (prefer_reuse dbs) end.
