From Coq Require Import List NArith ZArith Bool Lia Permutation.
Import ListNotations.
From Verif Require Import Base.Val C18.Fs C18.FsLemmas C28.Model_C28 C28.Spec_C28 C28.Proofs_C28.
From Scratch Require Import C D.
Open Scope N_scope.

Lemma entries_ok_facts l : entries_ok l = true -> Forall efact l /\ NoDup (map fst l).
Proof.
  unfold entries_ok. intro H. apply andb_true_iff in H as [H1 H2]. split; [|now apply nodupb_NoDup].
  apply Forall_forall. intros e He. rewrite forallb_forall in H1. specialize (H1 e He).
  apply andb_true_iff in H1. exact H1.
Qed.

Lemma sorted_facts (l : list entry) : Forall efact l -> NoDup (map fst l) ->
  Forall efact (sort_by fst l) /\ NoDup (map fst (sort_by fst l)).
Proof.
  intros H1 H2. pose proof (sort_by_permutation fst l) as Hp. split.
  - eapply Permutation_Forall; [symmetry; exact Hp|exact H1].
  - eapply Permutation_NoDup; [symmetry; apply Permutation_map; exact Hp|exact H2].
Qed.

Lemma canon_sec_map l : canon_sec l = map canon_e (sort_by fst l).
Proof. reflexivity. Qed.

Lemma section_id_parse (S : sel) (Hok : sel_ok S) l : entries_ok l = true ->
  exists t, section (s_ty S) (fun n => n) l = Ok t /\
    forall rest m, s_get S m = [] ->
      parse_lines m (lines_aux [] (t ++ rest)) = parse_lines (s_set S m (canon_sec l)) (lines_aux [] rest).
Proof.
  intro H. destruct (entries_ok_facts l H) as [H1 H2]. destruct (sorted_facts l H1 H2) as [H3 H4].
  destruct (section_parse S Hok (sort_by fst l) H3 H4) as (t & Ht & Hp).
  exists t. split; [exact Ht|]. intros rest m Hg. rewrite Hp.
  - rewrite Hg. reflexivity.
  - intros n _. now rewrite Hg.
Qed.

Lemma split_on_noslash s : forall cur, existsb (N.eqb 47) s = false -> split_on_aux 47 cur s = [rev cur ++ s].
Proof.
  induction s as [|x s IH]; intros cur H; cbn [split_on_aux].
  - now rewrite app_nil_r.
  - cbn [existsb] in H. apply orb_false_iff in H as [Hx Hs]. rewrite N.eqb_sym in Hx. rewrite Hx, IH by exact Hs.
    cbn [rev]. now rewrite <- app_assoc.
Qed.
Lemma basename_noslash n : no_slash n = true -> basename n = n.
Proof.
  unfold no_slash, basename, split_on. intro H. apply negb_true_iff in H. now rewrite split_on_noslash.
Qed.

Lemma section_basename ty l : forallb (fun e => no_slash (fst e)) l = true ->
  section ty basename l = section ty (fun n => n) l.
Proof.
  intro H. unfold section. f_equal. apply map_ext_in. intros e He.
  rewrite basename_noslash; [reflexivity|].
  rewrite forallb_forall in H. apply H. eapply Permutation_in; [apply sort_by_permutation|exact He].
Qed.

Lemma text_parse a d e m :
  entries_ok a = true -> entries_ok d = true -> entries_ok e = true -> entries_ok m = true ->
  forallb (fun x => no_slash (fst x)) d = true ->
  exists t, manifest_text a d e m = Ok t /\
            parse_text t = Some (Pm (canon_sec d) (canon_sec a) (canon_sec e) (canon_sec m)).
Proof.
  intros Ha Hd He Hm Hns.
  destruct (section_id_parse sel_aux sel_aux_ok a Ha) as (ta & Hta & Pa).
  destruct (section_id_parse sel_dist sel_dist_ok d Hd) as (td & Htd & Pd).
  destruct (section_id_parse sel_ebuild sel_ebuild_ok e He) as (te & Hte & Pe).
  destruct (section_id_parse sel_misc sel_misc_ok m Hm) as (tm & Htm & Pm_).
  cbn [s_ty sel_aux sel_dist sel_ebuild sel_misc] in Hta, Htd, Hte, Htm.
  exists (ta ++ td ++ te ++ tm). split.
  - unfold manifest_text. rewrite (section_basename _ _ Hns), Hta, Htd, Hte, Htm. reflexivity.
  - unfold parse_text, lines. rewrite Pa by reflexivity. rewrite Pd by reflexivity.
    rewrite Pe by reflexivity. rewrite <- (app_nil_r tm). rewrite Pm_ by reflexivity.
    reflexivity.
Qed.

Lemma parse_render_proof : forall thin scan fetch,
  wf_update thin scan fetch = true ->
  match update_text thin scan fetch with
  | Ok (Some t) => parse_text t = Some (expected_pm thin scan fetch)
  | Ok None => thin = true /\ fetch = []
  | Fail _ => False
  end.
Proof.
  intros thin scan fetch H. unfold wf_update in H.
  apply andb_true_iff in H as [H Hrest]. apply andb_true_iff in H as [Hf Hns].
  unfold update_text, expected_pm. destruct thin.
  - cbn [andb]. destruct fetch as [|f0 fr]; [split; reflexivity|].
    cbn [negb andb].
    destruct (text_parse [] (f0 :: fr) [] [] eq_refl Hf eq_refl eq_refl Hns) as (t & Ht & Hp).
    rewrite Ht. exact Hp.
  - cbn [orb] in Hrest. cbn [andb negb].
    apply andb_true_iff in Hrest as [Hrest Hm]. apply andb_true_iff in Hrest as [Hrest He].
    apply andb_true_iff in Hrest as [Hrest Ha]. apply andb_true_iff in Hrest as [Hb Hl].
    apply negb_true_iff in Hb. rewrite Hb.
    rewrite !picks_covered by (apply entries_ok_facts; assumption).
    destruct (text_parse _ _ _ _ Ha Hf He Hm Hns) as (t & Ht & Hp).
    rewrite Ht. exact Hp.
Qed.
