(* Crash_C19.v — composition of crash_localised (Proofs_C19) with the whole-merge invariant of
   C18/Exact_C18 on the NoAlias domain: every crash state of the merge is a crash state of ONE
   step block started from a boundary state in which every path is either untouched
   (pre-merge node) or the location of an already processed entry holding a node that installs
   that entry completely. *)
From Coq Require Import List NArith ZArith Bool Lia.
Import ListNotations.
From Verif Require Import Base.Val C18.Fs C18.FsLemmas C18.Model_C18 C18.Spec_C18 C18.Proofs_C18 C18.Exact_C18.
From Verif Require Import C19.Model_C19 C19.Spec_C19 C19.Proofs_C19.

Definition LocI (Q : list entry -> fs -> list op -> Prop) (ops : list op) (s : fs) : Prop :=
  forall k, exists P sb blk k', Q P sb blk /\ run (firstn k ops) s = run (firstn k' blk) sb.

Lemma LocI_single (Q : list entry -> fs -> list op -> Prop) P ops s : Q P s ops -> LocI Q ops s.
Proof. intros H k. exists P, s, ops, k. auto. Qed.

Lemma LocI_app (Q : list entry -> fs -> list op -> Prop) a b s :
  LocI Q a s -> (forall s', run_opt a s = Some s' -> LocI Q b s') -> LocI Q (a ++ b) s.
Proof.
  intros Ha Hb k. destruct (Nat.le_gt_cases k (length a)) as [Hk|Hk].
  - rewrite firstn_app_le by exact Hk. apply Ha.
  - rewrite firstn_app. rewrite (firstn_all2 a) by lia. rewrite run_app.
    destruct (run_opt a s) as [s'|] eqn:E.
    + apply (Hb s' eq_refl).
    + replace (run a s) with (run (firstn (length a) a) s) by now rewrite firstn_all. apply Ha.
Qed.

Section Crash.
Variable i : minput.
Let C := cset_of i.
Let s0 := i_fs i.
Let um := i_umask i.
Hypothesis HD : Dom C s0.

Definition boundary (P : list entry) (sb : fs) (blk : list op) : Prop :=
  incl P C /\ Inv C s0 P sb /\ step_block i sb blk.

Lemma nondirs_phase_locI : forall xs P s merged ops sf,
  incl P C -> Inv C s0 P s -> (forall x, In x xs -> In x C /\ is_kdir x = false) ->
  NoDup (map e_loc xs) -> (forall x y, In x xs -> In y P -> e_loc y <> e_loc x) ->
  (forall d, In d C -> is_kdir d = true -> In d P) -> files_in merged P ->
  nondirs_phase um s merged xs = (ops, sf, None) -> LocI boundary ops s.
Proof.
  induction xs as [|x r IH]; intros P s merged ops sf HP HI Hxs Hnd Hfr Hdirs Hm Hph.
  - cbn in Hph. injection Hph as <- <-. apply (LocI_single boundary P). split; [exact HP|split; [exact HI|apply SB_nil]].
  - cbn [nondirs_phase] in Hph.
    destruct (nondir_step um s merged x) as [[ops1 err] merged'] eqn:Hst.
    destruct err as [e|]; [discriminate|].
    destruct (nondirs_phase um (run ops1 s) merged' r) as [[ops2 s2] err2] eqn:Hph2.
    injection Hph as <- <- ->.
    destruct (Hxs x (or_introl eq_refl)) as [HxC Hxk].
    assert (Hb : boundary P s ops1).
    { split; [exact HP|split; [exact HI|]].
      replace ops1 with (fst (fst (nondir_step (i_umask i) s merged x))) by (fold um; now rewrite Hst).
      now apply SB_nondir. }
    apply LocI_app; [now apply (LocI_single boundary P)|].
    intros s1 Hr1. rewrite (run_opt_run _ _ _ Hr1) in Hph2.
    destruct (nondir_step_inv um C s0 HD P s merged x ops1 merged' s1 HP HI HxC Hxk) as [HI1 Hm1]; auto.
    { intros y Hy. apply Hfr; [now left|exact Hy]. }
    inversion Hnd as [|? ? Hnin Hnd']; subst.
    eapply (IH (x :: P)); eauto.
    + intros y [<-|Hy]; auto.
    + intros y Hy. apply Hxs. now right.
    + intros y z Hy [<-|Hz].
      * intro E. apply Hnin. rewrite E. now apply in_map.
      * apply Hfr; [now right|exact Hz].
    + intros d Hd Hk. right. auto.
Qed.

Lemma dirs_phase_locI : forall ds P s ops sf,
  incl P C -> Inv C s0 P s -> (forall x, In x ds -> In x C /\ is_kdir x = true) ->
  NoDup (map e_loc ds) -> (forall x y, In x ds -> In y P -> e_loc y <> e_loc x) ->
  dirs_phase um s ds = (ops, sf, None) -> LocI boundary ops s.
Proof.
  induction ds as [|x r IH]; intros P s ops sf HP HI Hxs Hnd Hfr Hph.
  - change (dirs_phase um s []) with (@nil op, s, @None N) in Hph.
    injection Hph as <- <-. apply (LocI_single boundary P). split; [exact HP|split; [exact HI|apply SB_nil]].
  - rewrite dirs_phase_cons' in Hph.
    destruct (dir_step um s x) as [ops1 err] eqn:Hst. destruct err as [e|]; [discriminate|].
    cbv zeta in Hph.
    destruct (dirs_phase um (run ops1 s) r) as [[ops2 s2] err2] eqn:Hph2.
    injection Hph as <- <- ->.
    destruct (Hxs x (or_introl eq_refl)) as [HxC Hxk].
    assert (Hb : boundary P s ops1).
    { split; [exact HP|split; [exact HI|]].
      replace ops1 with (fst (dir_step (i_umask i) s x)) by (fold um; now rewrite Hst).
      now apply SB_dir. }
    apply LocI_app; [now apply (LocI_single boundary P)|].
    intros s1 Hr1. rewrite (run_opt_run _ _ _ Hr1) in Hph2.
    assert (HI1 : Inv C s0 (x :: P) s1).
    { eapply dir_step_inv; eauto. intros y Hy. apply Hfr; [now left|exact Hy]. }
    inversion Hnd as [|? ? Hnin Hnd']; subst.
    eapply (IH (x :: P)); eauto.
    + intros y [<-|Hy]; auto.
    + intros y Hy. apply Hxs. now right.
    + intros y z Hy [<-|Hz].
      * intro E. apply Hnin. rewrite E. now apply in_map.
      * apply Hfr; [now right|exact Hz].
Qed.

End Crash.

(* at EVERY crash point k of a merge in the NoAlias domain: the state is a crash state of one
   step block [blk] from a boundary state [sb] where (a) every path that is neither the location
   of a processed entry nor a created missing parent holds its pre-merge node and (b) every
   processed entry is completely installed *)
Definition crash_atomic_steps_stmt : Prop := forall i sf k,
  noalias i = true -> merge_err i = None -> run_opt (merge_ops i) (i_fs i) = Some sf ->
  exists P sb blk k',
    incl P (cset_of i) /\ step_block i sb blk /\
    crash_state (merge_ops i) (i_fs i) k = crash_state blk sb k' /\
    (forall q, (forall y, In y P -> e_loc y <> q) ->
       ~ (lookup (i_fs i) q = None /\ exists x, In x (cset_of i) /\ pprefix q (e_loc x)) ->
       lookup sb q = lookup (i_fs i) q) /\
    (forall y, In y P -> exists n, lookup sb (e_loc y) = Some n /\ installed (i_fs i) y n).
Theorem crash_atomic_steps_proof : crash_atomic_steps_stmt.
Proof.
  intros i sf k Hna Herr Hrun. destruct (noalias_dom i Hna) as (HD & Hnd & Hoff).
  set (C := cset_of i) in *. set (s0 := i_fs i) in *. set (um := i_umask i) in *.
  assert (HL : LocI (boundary i) (merge_ops i) s0).
  { unfold merge_err, merge_ops, merge in *. fold um s0 in Herr, Hrun |- *. rewrite Hoff in Herr, Hrun |- *.
    change (run [] s0) with s0 in Herr, Hrun |- *. fold (cset_of i) in Herr, Hrun |- *. fold C in Herr, Hrun |- *.
    destruct (dirs_phase um s0 (sort_entries (filter is_kdir C))) as [[ops1 s2] err1] eqn:E1.
    destruct err1 as [e|]; [cbn in Herr; discriminate|].
    destruct (nondirs_phase um s2 [] (filter (fun x => negb (is_kdir x)) C)) as [[ops2 s3] err2] eqn:E2.
    cbn [fst snd] in Herr, Hrun |- *. subst err2. cbn [app] in Hrun |- *.
    assert (HI0 : Inv C s0 [] s0).
    { constructor; [reflexivity| |intros y []]. intros q (H & _). now left. }
    assert (Hds : forall x, In x (sort_entries (filter is_kdir C)) -> In x C /\ is_kdir x = true).
    { intros x Hx. apply (proj1 (In_sort_entries_iff _ _)) in Hx. apply filter_In in Hx. exact Hx. }
    assert (Hnds : NoDup (map e_loc (sort_entries (filter is_kdir C))))
      by (apply NoDup_sort_entries; now apply NoDup_map_filter).
    assert (Hfr0 : forall x y : entry, In x (sort_entries (filter is_kdir C)) -> In y [] -> e_loc y <> e_loc x)
      by (intros x y _ []).
    apply LocI_app.
    - exact (dirs_phase_locI i HD _ _ _ _ _ (incl_nil_l C) HI0 Hds Hnds Hfr0 E1).
    - intros s2' Hr1.
      destruct (dirs_phase_inv um C s0 HD (sort_entries (filter is_kdir C)) [] s0 ops1 s2
                  (incl_nil_l C) HI0 Hds Hnds Hfr0 E1 s2' Hr1) as [HI1 ->].
      assert (HP1 : incl (rev (sort_entries (filter is_kdir C)) ++ []) C).
      { intros y Hy. rewrite app_nil_r in Hy. apply in_rev in Hy. apply (proj1 (In_sort_entries_iff _ _)) in Hy.
        apply filter_In in Hy. tauto. }
      assert (A1 : forall x, In x (filter (fun x => negb (is_kdir x)) C) -> In x C /\ is_kdir x = false).
      { intros x Hx. apply filter_In in Hx as [Hx Hk]. split; [exact Hx|]. now destruct (is_kdir x). }
      assert (A2 : NoDup (map e_loc (filter (fun x => negb (is_kdir x)) C))) by now apply NoDup_map_filter.
      assert (A3 : forall x y, In x (filter (fun x => negb (is_kdir x)) C) ->
                   In y (rev (sort_entries (filter is_kdir C)) ++ []) -> e_loc y <> e_loc x).
      { intros x y Hx Hy E. apply filter_In in Hx as [Hx Hk]. rewrite app_nil_r in Hy.
        apply in_rev in Hy. apply (proj1 (In_sort_entries_iff _ _)) in Hy. apply filter_In in Hy as [Hy Hky].
        assert (y = x) by exact (NoDup_map_inj C y x Hnd Hy Hx E). subst y. rewrite Hky in Hk. discriminate. }
      assert (A4 : forall d, In d C -> is_kdir d = true -> In d (rev (sort_entries (filter is_kdir C)) ++ [])).
      { intros d Hd Hk. rewrite app_nil_r. apply -> in_rev. apply (proj2 (In_sort_entries_iff _ _)). apply filter_In. auto. }
      assert (A5 : files_in [] (rev (sort_entries (filter is_kdir C)) ++ [])) by (intros c []).
      exact (nondirs_phase_locI i HD _ _ _ _ _ _ HP1 HI1 A1 A2 A3 A4 A5 E2). }
  destruct (HL k) as (P & sb & blk & k' & (HP & HI & Hsb) & Hrun').
  exists P, sb, blk, k'. split; [exact HP|]. split; [exact Hsb|]. split; [exact Hrun'|]. split.
  - intros q Hq Hn. apply (inv_frame _ _ _ _ HI); [exact Hq|]. intros (A & B & _). apply Hn. split; [exact A|exact B].
  - intros y Hy. destruct (inv_good _ _ _ _ HI y Hy) as (n & L & G). exists n. split; [exact L|exact G].
Qed.
