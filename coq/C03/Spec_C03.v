(* Spec_C03.v — the PMS package-dependency grammar as a boolean recogniser, written from the
   PMS text (not from atom.py):

     3.1.1 category     [A-Za-z0-9+_.-]+, not beginning with "-", "." or "+"
     3.1.2 package name [A-Za-z0-9+_-]+, not beginning with "-" or "+", and not ending in a hyphen
                        followed by anything matching the version syntax of 3.2
     3.1.3 slot name    [A-Za-z0-9+_.-]+, not beginning with "-", "." or "+"
     3.1.4 USE flag     [A-Za-z0-9+_@-]+, beginning with an alphanumeric character
     3.1.5 repository   [A-Za-z0-9_-]+, not beginning with "-"   (pkgcore's ::repo extension;
                        the further PMS clause "is also a valid package name" is NOT demanded here)
     3.2   version      digits ("." digits)* [a-z]? ("_" (alpha|beta|pre|rc|p) digits* )* ("-r" digits)?
     8.3   atom         [!|!!] [op] category "/" name ["-" version] ["*"] [":" slotspec] ["::" repo] ["[" usedeps "]"]
     8.3.1 operators    <  <=  =  ~  >=  >   and  = ... *          (a version iff an operator)
     8.3.2 blockers     "!" every EAPI, "!!" EAPI >= 2
     8.3.3 slot deps    ":slot" EAPI >= 1;  ":slot/sub", ":*", ":=", ":slot=", ":slot/sub=" EAPI >= 5
     8.3.4 USE deps     EAPI >= 2:  flag  flag=  !flag=  flag?  !flag?  -flag ; "(+)"/"(-)" after
                        the flag name EAPI >= 4

   Feature matrix by EAPI number (PMS feature table), independent of the generated gate table;
   no EAPI given = the newest PMS EAPI's features plus "::repo".
   One convention beyond the PMS text, shared with portage: "~" takes a version without revision.

   The recogniser works from the outside in (USE block from the LAST "[" to a final "]",
   repository by the first "::", slot by the first ":"), and decides name/version by trying every
   hyphen as the boundary — it does not follow the chunk algorithm of cpv.py. *)
From Coq Require Import List NArith ZArith Bool Arith.
Import ListNotations.
From Verif Require Import Base.Val C03.Model_C03.
Local Open Scope N_scope.

(* ---- character classes, written out *)
Definition s_digit (c : N) : bool := (48 <=? c) && (c <=? 57).
Definition s_lower (c : N) : bool := (97 <=? c) && (c <=? 122).
Definition s_upper (c : N) : bool := (65 <=? c) && (c <=? 90).
Definition s_alnum (c : N) : bool := s_digit c || s_lower c || s_upper c.
Definition s_cat_char (c : N) : bool := s_alnum c || (c =? 43) || (c =? 95) || (c =? 46) || (c =? 45).
Definition s_pkg_char (c : N) : bool := s_alnum c || (c =? 43) || (c =? 95) || (c =? 45).
Definition s_slot_char (c : N) : bool := s_cat_char c.
Definition s_use_char (c : N) : bool := s_alnum c || (c =? 43) || (c =? 95) || (c =? 64) || (c =? 45).
Definition s_repo_char (c : N) : bool := s_alnum c || (c =? 95) || (c =? 45).

Definition nonempty (s : str) : bool := match s with [] => false | _ => true end.
Definition first_not (bad : list N) (s : str) : bool :=
  match s with [] => false | c :: _ => negb (existsb (N.eqb c) bad) end.

Definition pms_category (s : str) : bool := forallb s_cat_char s && first_not [45; 46; 43] s.
Definition pms_slot_name (s : str) : bool := forallb s_slot_char s && first_not [45; 46; 43] s.
Definition pms_use_flag (s : str) : bool :=
  forallb s_use_char s && match s with c :: _ => s_alnum c | [] => false end.
Definition pms_repo_name (s : str) : bool := forallb s_repo_char s && first_not [45] s.

(* ---- 3.2 version syntax *)
Definition digits1 (s : str) : bool := nonempty s && forallb s_digit s.
Definition pms_suffix_names : list str :=
  [ [97;108;112;104;97]; [98;101;116;97]; [112;114;101]; [114;99]; [112] ].   (* alpha beta pre rc p *)
Definition pms_suffix (s : str) : bool :=
  existsb (fun n => match strip_prefix n s with
                    | Some r => forallb s_digit r
                    | None => false
                    end) pms_suffix_names.
(* last numeric component: digits, then at most one lower-case letter *)
Definition pms_last_component (s : str) : bool :=
  digits1 s || match rev s with
               | l :: r => s_lower l && digits1 (rev r)
               | [] => false
               end.
Fixpoint pms_components (l : list str) : bool :=
  match l with
  | [] => false
  | [x] => pms_last_component x
  | x :: r => digits1 x && pms_components r
  end.
(* version without revision *)
Definition pms_version (s : str) : bool :=
  match split_on 95 s with
  | h :: sufs => pms_components (split_on 46 h) && forallb pms_suffix sufs
  | [] => false
  end.
Definition pms_revision (s : str) : bool :=
  match s with c :: t => (c =? 114) && digits1 t | [] => false end.
(* version with optional "-r" digits *)
Definition pms_version_rev (s : str) : bool :=
  match split_first 45 s with
  | None => pms_version s
  | Some (v, r) => pms_version v && pms_revision r
  end.
Definition has_revision (s : str) : bool :=
  match split_first 45 s with Some _ => true | None => false end.

(* every way of cutting [s] at one of its hyphens: (text before, text after) *)
Fixpoint hyphen_cuts (s : str) : list (str * str) :=
  match s with
  | [] => []
  | c :: t =>
      (if c =? 45 then [([], t)] else [])
      ++ map (fun pq => (c :: fst pq, snd pq)) (hyphen_cuts t)
  end.

(* ---- 3.1.2 package name *)
Definition pms_pkg_name (s : str) : bool :=
  forallb s_pkg_char s && first_not [45; 43] s
  && negb (existsb (fun pq => pms_version_rev (snd pq)) (hyphen_cuts s)).

(* ---- feature matrix *)
Record features := { f_slot : bool; f_use : bool; f_strong : bool; f_defaults : bool; f_subslot : bool;
                     f_repo : bool }.
Definition pms_newest_eapi : N := 9.
Definition features_of (eapi : option N) : option features :=
  match eapi with
  | Some n => if n <=? pms_newest_eapi
              then Some {| f_slot := 1 <=? n; f_use := 2 <=? n; f_strong := 2 <=? n;
                           f_defaults := 4 <=? n; f_subslot := 5 <=? n; f_repo := false |}
              else None
  | None => Some {| f_slot := true; f_use := true; f_strong := true; f_defaults := true;
                    f_subslot := true; f_repo := true |}
  end.

(* ---- 8.3.4 one USE dependency *)
Definition strip_default (s : str) : option str :=   (* text after an optional "(+)" / "(-)" ; None = bad *)
  match s with
  | a :: b :: c :: r => if (a =? 40) && (c =? 41) && ((b =? 43) || (b =? 45)) then Some r else None
  | _ => None
  end.
Fixpoint take_while (p : N -> bool) (s : str) : str :=
  match s with [] => [] | c :: t => if p c then c :: take_while p t else [] end.

(* prefix mark: 0 none, 1 "!", 2 "-" ; and the text after it *)
Definition use_dep_split (x : str) : N * str :=
  match x with
  | c :: t => if c =? 33 then (1, t) else if c =? 45 then (2, t) else (0, x)
  | [] => (0, x)
  end.
(* flag name, optional default, optional "=" / "?" *)
Definition use_dep_body (defaults : bool) (pfx : N) (body : str) : bool :=
  let name := take_while s_use_char body in
  let rest := drop_while s_use_char body in
  pms_use_flag name &&
  (let tail := match rest with
               | c :: _ => if c =? 40 then (if defaults then strip_default rest else None)
                           else Some rest
               | [] => Some rest
               end in
   match tail with
   | None => false
   | Some [] => negb (pfx =? 1)                                  (* flag, -flag *)
   | Some [c] => ((c =? 61) || (c =? 63)) && negb (pfx =? 2)     (* flag= flag? !flag= !flag? *)
   | Some _ => false
   end).
Definition pms_use_dep (defaults : bool) (x : str) : bool :=
  use_dep_body defaults (fst (use_dep_split x)) (snd (use_dep_split x)).

(* ---- 8.3.3 slot specification (text after the ":") *)
(* the slot text without a trailing "=" *)
Definition slot_strip_eq (s : str) : str :=
  match rev s with
  | l :: r => if l =? 61 then rev r else s
  | [] => s
  end.
Definition pms_slot_spec (f : features) (s : str) : bool :=
  f_slot f &&
  (pms_slot_name s
   || (f_subslot f &&
       ( str_eqb s [42] || str_eqb s [61]
         || match split_first 47 (slot_strip_eq s) with
            | Some (a, b) => pms_slot_name a && pms_slot_name b
            | None => pms_slot_name (slot_strip_eq s)
            end))).

(* ---- 8.3.1 operator + category/name[-version] *)
Definition pms_unversioned (s : str) : bool :=
  match split_first 47 s with
  | Some (c, n) => pms_category c && pms_pkg_name n
  | None => false
  end.
Definition pms_versioned (allow_rev : bool) (s : str) : bool :=
  match split_first 47 s with
  | Some (c, nv) =>
      pms_category c &&
      existsb (fun pq => pms_pkg_name (fst pq) && pms_version_rev (snd pq)
                         && (allow_rev || negb (has_revision (snd pq))))
              (hyphen_cuts nv)
  | None => false
  end.

Definition pms_op_cpv (s : str) : bool :=
  match s with
  | c :: r =>
      if (c =? 60) || (c =? 62) then                           (* <  >  <=  >= *)
        match r with
        | d :: r' => if d =? 61 then pms_versioned true r' else pms_versioned true r
        | [] => false
        end
      else if c =? 126 then pms_versioned false r              (* ~ *)
      else if c =? 61 then                                     (* =  and  =...* *)
        match rev r with
        | l :: r' => if l =? 42 then pms_versioned true (rev r') else pms_versioned true r
        | [] => false
        end
      else pms_unversioned s
  | [] => false
  end.

Definition pms_blocker_rest (f : features) (s : str) : bool :=
  match s with
  | c :: r =>
      if c =? 33 then
        match r with
        | d :: r' => if d =? 33 then f_strong f && pms_op_cpv r' else pms_op_cpv r
        | [] => false
        end
      else pms_op_cpv s
  | [] => false
  end.

(* ---- the atom *)
(* USE block: present iff a "[" occurs; it starts at the LAST "[" and must end the text with "]".
   Result: the text left of the block, and whether the block is acceptable. *)
Definition use_split (f : features) (s : str) : str * bool :=
  match split_last 91 s with
  | Some (pre, rest) =>
      match rev rest with
      | l :: ru =>
          if l =? 93
          then (pre, f_use f && forallb (pms_use_dep (f_defaults f)) (split_on 44 (rev ru)))
          else (s, false)
      | [] => (s, false)
      end
  | None => (s, true)
  end.

(* everything left of the USE block: [!|!!] [op] cpv [":" slotspec] ["::" repo] *)
Definition spec_tail (f : features) (s1 : str) : bool :=
  (* ::repo, only where the extension is allowed *)
  let s2_ok :=
    if f_repo f then
      match split_dcolon s1 with
      | Some (pre, r) => (pre, pms_repo_name r)
      | None => (s1, true)
      end
    else (s1, true) in
  let s3_ok :=
    match split_first 58 (fst s2_ok) with
    | Some (pre, sl) => (pre, pms_slot_spec f sl)
    | None => (fst s2_ok, true)
    end in
  snd s2_ok && snd s3_ok && pms_blocker_rest f (fst s3_ok).

Definition pms_atom_feat (f : features) (s : str) : bool :=
  snd (use_split f s) && spec_tail f (fst (use_split f s)).

Definition pms_atom_b (eapi : option N) (s : str) : bool :=
  match features_of eapi with
  | Some f => pms_atom_feat f s
  | None => false
  end.

(* ---- acceptors evaluated on the IMPLEMENTATION's recorded result (comparison B) *)
Definition val_accepted (r : val) : bool := match r with VL _ => true | _ => false end.

(* the implementation accepted exactly what the grammar accepts *)
Definition spec_accept_ok (c : case) (r : val) : bool :=
  let '(e, _, s) := case_input c in Bool.eqb (val_accepted (impl_val c r)) (pms_atom_b e s).

(* the text the implementation rendered parses back (by the model) to the very same record *)
Definition spec_roundtrip_ok (c : case) (r : val) : bool :=
  let '(e, n, _) := case_input c in
  match impl_val c r with
  | VL fields => match nth 17 fields VNone with
                 | VS txt => val_eqb (run_parse (e, n, txt)) (VL fields)
                 | _ => false
                 end
  | _ => true
  end.
