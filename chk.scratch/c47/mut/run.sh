#!/bin/bash
# usage: run.sh name 'python-edit-snippet'
name=$1
cd /tmp/wt_C47 && git checkout -q src/pkgcore/sync/tar.py src/pkgcore/sync/http.py && git apply /verif/chk.scratch/c47/mut/base.patch
/venv/bin/python - "$name" <<'PY'
import sys,re
name=sys.argv[1]
t="src/pkgcore/sync/tar.py"; h="src/pkgcore/sync/http.py"
def sub(p, old, new, count=1):
    s=open(p).read(); assert old in s, (name, old); s=s.replace(old,new,count); open(p,"w").write(s)
if name=="M1": sub(t,"        shutil.rmtree(self.tempdir_old, ignore_errors=True)\n        # remove tempdirs on exit","        # remove tempdirs on exit")
elif name=="M2": sub(t,"check=True","check=False")
elif name=="M3": sub(t,"--strip-components=1","--strip-components=0")
elif name=="M4":
    s=open(h).read()
    blk='''        if etag:
            with open(etag_path, "w") as f:
                f.write(etag)
        if modified:
            with open(modified_path, "w") as f:
                f.write(modified)
'''
    assert blk in s
    s=s.replace(blk,"")
    s=s.replace("        self._post_download(dest)\n", blk+"        self._post_download(dest)\n")
    open(h,"w").write(s)
elif name=="M5": sub(t,"            os.rename(self.tempdir_old, basedir)\n","            pass\n")
elif name=="M6":
    sub(t,"os.rename(self.basedir, self.tempdir_old)","os.replace(self.basedir, self.tempdir_old)")
    sub(t,"os.rename(self.tempdir, self.basedir)","os.replace(self.tempdir, self.basedir)")
    sub(t,'exts = {"gz": "gzip", "bz2": "bzip2", "xz": "xz"}\n        compression = exts[self.uri.rsplit(".", 1)[1]]','suffix = self.uri.rsplit(".", 1)[1]\n        compression = {"gz": "gzip", "bz2": "bzip2", "xz": "xz"}[suffix]')
elif name=="M7": sub(t,"if os.path.exists(self.basedir):","if False:")
elif name=="M8": sub(h,"if etag is not None and convert(etag) == convert(previous_etag):","if etag is not None and convert(etag) != convert(previous_etag):")
PY
git diff --stat | tail -1
cd /verif && (time VERIF_REPO=/tmp/wt_C47 VERIF_C47_CASES=8 ./check C47 2>&1 | grep -v KNOWN | cut -c1-160) 2>&1 | grep -v "^$\|user\|sys" > chk.scratch/c47/mut/$name.out
/venv/bin/python - "$name" >> chk.scratch/c47/mut/$name.out <<'PY'
import json,glob,sys
for f in sorted(glob.glob("/verif/replay/C47-0-[0-9].json"))[:3]:
    d=json.load(open(f))
    print(f, d["kind"], "no_input" if d["no_input"] else "INPUT", d["detail"].get("what","")[:110])
PY
rm -f /verif/replay/C47-0-*.json
