(* Proofs_C18.v — lemmas and proofs for C18 (see Prop_C18.v for the closed statements). *)
From Coq Require Import List NArith ZArith Bool Lia.
Import ListNotations.
From Verif Require Import Base.Val C18.Fs C18.FsLemmas C18.Model_C18 C18.Spec_C18.

(* ------------------------------------------------------------------ frame, generically *)
Lemma run_frame ops : forall s q, untouched ops s q -> lookup (run ops s) q = lookup s q.
Proof.
  induction ops as [|o r IH]; cbn; intros s q H; [reflexivity|].
  destruct H as [Hq Hr]. destruct (apply_op s o) as [s'|] eqn:E; [|reflexivity].
  rewrite (IH _ _ Hr). eapply apply_op_frame; eauto.
Qed.

Lemma untouched_firstn ops : forall s q k, untouched ops s q -> untouched (firstn k ops) s q.
Proof.
  induction ops as [|o r IH]; intros s q [|k] H; cbn; auto.
  destruct H as [Hq Hr]. split; [exact Hq|]. destruct (apply_op s o); auto.
Qed.

Definition frame_stmt : Prop := forall i q,
  untouched (merge_ops i) (i_fs i) q ->
  lookup (run (merge_ops i) (i_fs i)) q = lookup (i_fs i) q.
Lemma frame_proof : frame_stmt.
Proof. intros i q H. now apply run_frame. Qed.

(* ------------------------------------------------------------------ one file entry, exactly *)
(* the node copyfile stages for a file entry realises the entry: data, mode, owner, mtime *)
Lemma staged_node_realises x d hl um chunks tmp i :
  e_kind x = KFile d hl -> concat chunks = d ->
  (e_mode x = None -> False) ->
  realises x (staged_node (file_create_mode um) chunks (perms_new x tmp) i).
Proof.
  destruct x as [loc kind mode uid gid mtime]; cbn. intros -> <- Hm.
  unfold staged_node, perms_new, realises, mode_ok, owner_ok, mtime_ok, eff_mtime, is_ksym; cbn.
  destruct mode as [m|]; [|exfalso; now apply Hm].
  destruct uid, gid, mtime; cbn; repeat split; reflexivity.
Qed.

(* with an unset mode the created file keeps 0o666 & ~umask (nothing is recorded to enforce) *)
Lemma staged_node_realises_nomode x d hl um chunks tmp i :
  e_kind x = KFile d hl -> concat chunks = d ->
  realises x (staged_node (file_create_mode um) chunks (perms_new x tmp) i)
  \/ e_mode x = None.
Proof.
  intros Hk Hc. destruct (e_mode x) eqn:E; [left|now right].
  eapply staged_node_realises; eauto. rewrite E. discriminate.
Qed.

(* copyfile over an existing non-directory (stage at '<cp>#new', rename): when every op
   succeeded, cp holds a node that realises the entry, the sibling is gone, everything else is
   as before *)
Definition staged_copy_exact_stmt : Prop := forall um x d hl chunks cp s s',
  e_kind x = KFile d hl -> concat chunks = d -> e_mode x <> None ->
  let tmp := sibling_new cp in
  tmp <> cp ->
  run_opt (replace_ops tmp cp (file_create_mode um) chunks (perms_new x tmp)) s = Some s' ->
  (exists n, lookup s' cp = Some n /\ realises x n) /\
  lookup s' tmp = None /\
  (forall q, q <> cp -> q <> tmp -> lookup s' q = lookup s q).

Lemma perms_new_on x tmp : Forall (perm_on tmp) (perms_new x tmp).
Proof.
  unfold perms_new. apply Forall_app. split.
  - destruct (is_some (e_uid x) || is_some (e_gid x)); repeat constructor.
  - destruct (is_ksym x); [constructor|]. apply Forall_app. split.
    + destruct (e_mode x); repeat constructor.
    + destruct (eff_mtime x); repeat constructor.
Qed.

Lemma run_opt_removelast ops s s' :
  run_opt ops s = Some s' -> ops <> [] -> exists s2, run_opt (removelast ops) s = Some s2.
Proof.
  intros H Hne. destruct (@exists_last _ ops Hne) as (l & a & ->).
  rewrite removelast_last. rewrite run_opt_app in H. destruct (run_opt l s); [eauto|discriminate].
Qed.

Lemma staged_copy_exact_proof : staged_copy_exact_stmt.
Proof.
  intros um x d hl chunks cp s s' Hk Hc Hm tmp Hne Hrun.
  set (ops := replace_ops tmp cp (file_create_mode um) chunks (perms_new x tmp)) in *.
  pose proof (atomic_replace s tmp cp (file_create_mode um) chunks (perms_new x tmp) (length ops)
                Hne (perms_new_on x tmp)) as [Hfr Hp].
  fold ops in Hfr, Hp. rewrite firstn_all in Hfr, Hp. rewrite (run_opt_run _ _ _ Hrun) in Hfr, Hp.
  (* the staging prefix succeeded, so the staged node is known *)
  assert (Hst : exists s2, run_opt (Create tmp (file_create_mode um) :: appends tmp chunks ++ perms_new x tmp) s = Some s2
                /\ run_opt [Rename tmp cp] s2 = Some s').
  { unfold ops, replace_ops in Hrun.
    change (Create tmp (file_create_mode um) :: appends tmp chunks ++ perms_new x tmp ++ [Rename tmp cp])
      with ((Create tmp (file_create_mode um) :: appends tmp chunks) ++ perms_new x tmp ++ [Rename tmp cp]) in Hrun.
    rewrite app_assoc, run_opt_app in Hrun.
    destruct (run_opt ((Create tmp (file_create_mode um) :: appends tmp chunks) ++ perms_new x tmp) s) as [s2|] eqn:E;
      [|discriminate]. exists s2. split; [|exact Hrun]. rewrite <- E. reflexivity. }
  destruct Hst as (s2 & Hs2 & Hren).
  pose proof (staged_complete _ _ _ _ _ _ (perms_new_on x tmp) Hs2) as Hnode.
  (* the rename happened: tmp was a file in s2, cp gets it *)
  cbn [run_opt] in Hren. destruct (apply_op s2 (Rename tmp cp)) as [s3|] eqn:Hr; [|discriminate].
  injection Hren as ->.
  assert (Hs2st : staged s tmp s2).
  { cbn [run_opt] in Hs2. destruct (apply_op s (Create tmp (file_create_mode um))) as [s1|] eqn:Hc1; [|discriminate].
    pose proof (staged_create _ _ _ _ Hc1) as H1.
    pose proof (run_inv _ _ (staged_middle s tmp chunks (perms_new x tmp) (perms_new_on x tmp)) s1 H1) as H2.
    now rewrite (run_opt_run _ _ _ Hs2) in H2. }
  destruct (staged_rename _ _ _ _ _ Hne Hs2st Hr) as [Hfr' Hcp].
  split; [|split].
  - rewrite Hcp, Hnode. eexists; split; [reflexivity|].
    eapply staged_node_realises; eauto.
  - destruct Hp as [Hp|(s2' & _ & _ & Hgone & _)]; [|exact Hgone].
    (* cp kept its old node: impossible to conclude tmp gone from Hp alone; use the rename *)
    clear Hp. cbn in Hr. destruct Hs2st as [_ (d0 & m & u & g & t & i & Ht & Hpriv)]. rewrite Ht in Hr.
    destruct cp as [|c0 cp]; [discriminate|].
    destruct (path_eq_dec tmp (c0 :: cp)) as [|Hnb]; [contradiction|].
    destruct (negb (isdir s2 (parent (c0 :: cp)))); [discriminate|]. cbn [is_dir_node] in Hr.
    assert (Hgone : lookup (set_node (remove s2 tmp) (c0 :: cp) (File d0 m u g t i)) tmp = None)
      by (rewrite lookup_set_other by assumption; apply lookup_remove_same).
    destruct (lookup s2 (c0 :: cp)) as [n|] eqn:Hb.
    + destruct (is_dir_node n); [discriminate|]. cbn [ino_of] in Hr.
      destruct (ino_of n) as [j|] eqn:Hj.
      * destruct (N.eqb i j) eqn:E.
        -- apply N.eqb_eq in E; subst j. exfalso. eapply (Hpriv (c0 :: cp) n); eauto.
        -- now injection Hr as <-.
      * now injection Hr as <-.
    + now injection Hr as <-.
  - exact Hfr.
Qed.

(* copyfile into a free name: Create cp; Append..; perms — cp ends up realising the entry *)
Definition direct_copy_exact_stmt : Prop := forall um x d hl chunks cp s s',
  e_kind x = KFile d hl -> concat chunks = d -> e_mode x <> None ->
  run_opt (Create cp (file_create_mode um) :: appends cp chunks ++ perms_new x cp) s = Some s' ->
  lookup s cp = None /\
  (exists n, lookup s' cp = Some n /\ realises x n) /\
  (forall q, q <> cp -> lookup s' q = lookup s q).
Lemma direct_copy_exact_proof : direct_copy_exact_stmt.
Proof.
  intros um x d hl chunks cp s s' Hk Hc Hm Hrun.
  pose proof (staged_complete _ _ _ _ _ _ (perms_new_on x cp) Hrun) as Hnode.
  split; [|split].
  - cbn [run_opt apply_op] in Hrun. unfold can_create in Hrun. destruct cp as [|c0 cp]; [discriminate|].
    destruct (lookup s (c0 :: cp)); [discriminate|reflexivity].
  - rewrite Hnode. eexists; split; [reflexivity|]. eapply staged_node_realises; eauto.
  - cbn [run_opt] in Hrun. destruct (apply_op s (Create cp (file_create_mode um))) as [s1|] eqn:Hc1; [|discriminate].
    pose proof (staged_create _ _ _ _ Hc1) as H1.
    pose proof (run_inv _ _ (staged_middle s cp chunks (perms_new x cp) (perms_new_on x cp)) s1 H1) as [H2 _].
    rewrite (run_opt_run _ _ _ Hrun) in H2. exact H2.
Qed.

(* ------------------------------------------------------------------ the planner emits these blocks *)
Definition chunks1 (d : list N) : list (list N) := if is_nil d then [] else [d].
Lemma concat_chunks1 d : concat (chunks1 d) = d.
Proof. destruct d; cbn; [reflexivity|now rewrite app_nil_r]. Qed.

(* copyfile of a file entry over an existing non-directory, no stale '#new' *)
Definition copyfile_staged_shape_stmt : Prop := forall um s x d hl cp n,
  e_kind x = KFile d hl -> canon s (e_loc x) = WOk cp -> node_at s cp = Some n ->
  is_dir_node n = false -> lookup s (sibling_new cp) = None -> name_too_long (sibling_new cp) = false ->
  copyfile um s x =
    (replace_ops (sibling_new cp) cp (file_create_mode um) (chunks1 d) (perms_new x (sibling_new cp)), None).
Lemma copyfile_staged_shape_proof : copyfile_staged_shape_stmt.
Proof.
  intros um s x d hl cp n Hk Hc Hn Hd Hst Hnl. unfold copyfile. rewrite Hc, Hn, Hd. cbv zeta. rewrite Hnl.
  unfold create_ops. rewrite Hk, Hst. unfold replace_ops, chunks1, appends.
  destruct (is_nil d); reflexivity.
Qed.

(* copyfile of a file entry into a free name whose parent exists *)
Definition copyfile_direct_shape_stmt : Prop := forall um s x d hl cp,
  e_kind x = KFile d hl -> canon s (e_loc x) = WOk cp -> node_at s cp = None ->
  copyfile um s x =
    (Create cp (file_create_mode um) :: appends cp (chunks1 d) ++ perms_new x cp, None).
Lemma copyfile_direct_shape_proof : copyfile_direct_shape_stmt.
Proof.
  intros um s x d hl cp Hk Hc Hn. unfold copyfile. cbv zeta. rewrite Hc, Hn. cbv beta.
  assert (Hl : lookup s cp = None) by (destruct cp; [discriminate|exact Hn]).
  unfold create_ops. rewrite Hk, Hl. unfold chunks1, appends. destruct (is_nil d); reflexivity.
Qed.

(* a directory is never overwritten by a non-directory entry *)
Definition copyfile_refuses_dir_stmt : Prop := forall um s x cp n,
  canon s (e_loc x) = WOk cp -> node_at s cp = Some n -> is_dir_node n = true ->
  copyfile um s x = ([], Some E_CANNOT).
Lemma copyfile_refuses_dir_proof : copyfile_refuses_dir_stmt.
Proof. intros um s x cp n Hc Hn Hd. unfold copyfile. now rewrite Hc, Hn, Hd. Qed.

(* ------------------------------------------------------------------ non-vacuity *)
Definition ex_entry : entry :=
  {| e_loc := [[111]; [102]]%N; e_kind := KFile [1; 2; 3]%N None; e_mode := Some 420%N;
     e_uid := Some 7%N; e_gid := None; e_mtime := Some 1100000000%Z |}.
Definition ex_fs : fs := [([[111]]%N, Dir 493 0 0 5); ([[111]; [102]]%N, File [9; 9; 9; 9; 9]%N 384 0 0 6 1)].
Example ex_staged :
  let '(ops, err) := copyfile 18 ex_fs ex_entry in
  err = None /\
  lookup (run ops ex_fs) [[111]; [102]]%N = Some (File [1; 2; 3]%N 420 7 0 1100000000 2) /\
  lookup (run ops ex_fs) (sibling_new [[111]; [102]]%N) = None /\
  length ops = 6%nat.
Proof. vm_compute. repeat split; reflexivity. Qed.
