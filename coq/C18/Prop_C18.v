(* Prop_C18.v — the property theorems of C18 and nothing else. *)
From Coq Require Import List NArith ZArith Bool.
Import ListNotations.
From Verif Require Import Base.Val C18.Fs C18.FsLemmas C18.Model_C18 C18.Spec_C18 C18.Proofs_C18 C18.Exact_C18 C18.Shapes_C18 C18.Hardlinks_C18.

(* frame: a path that no op of the merge names and whose inode no op writes is unchanged
   (for every contents set, offset and pre-existing filesystem) *)
Theorem frame : forall i q,
  untouched (merge_ops i) (i_fs i) q ->
  lookup (run (merge_ops i) (i_fs i)) q = lookup (i_fs i) q.
Proof. exact frame_proof. Qed.
Print Assumptions frame.

(* merged_exact, one file entry over an existing non-directory (copyfile's '#new' + rename,
   any chunking of the write): afterwards the location holds a node realising the entry (data,
   mode, owner, mtime), the '#new' sibling is gone, every other path is unchanged *)
Theorem staged_copy_exact : forall um x d hl chunks cp s s',
  e_kind x = KFile d hl -> concat chunks = d -> e_mode x <> None ->
  let tmp := sibling_new cp in
  tmp <> cp ->
  run_opt (replace_ops tmp cp (file_create_mode um) chunks (perms_new x tmp)) s = Some s' ->
  (exists n, lookup s' cp = Some n /\ realises x n) /\
  lookup s' tmp = None /\
  (forall q, q <> cp -> q <> tmp -> lookup s' q = lookup s q).
Proof. exact staged_copy_exact_proof. Qed.
Print Assumptions staged_copy_exact.

(* merged_exact, one file entry into a free name *)
Theorem direct_copy_exact : forall um x d hl chunks cp s s',
  e_kind x = KFile d hl -> concat chunks = d -> e_mode x <> None ->
  run_opt (Create cp (file_create_mode um) :: appends cp chunks ++ perms_new x cp) s = Some s' ->
  lookup s cp = None /\
  (exists n, lookup s' cp = Some n /\ realises x n) /\
  (forall q, q <> cp -> lookup s' q = lookup s q).
Proof. exact direct_copy_exact_proof. Qed.
Print Assumptions direct_copy_exact.

(* the planner emits exactly these blocks *)
Theorem copyfile_staged_shape : forall um s x d hl cp n,
  e_kind x = KFile d hl -> canon s (e_loc x) = WOk cp -> node_at s cp = Some n ->
  is_dir_node n = false -> lookup s (sibling_new cp) = None -> name_too_long (sibling_new cp) = false ->
  copyfile um s x =
    (replace_ops (sibling_new cp) cp (file_create_mode um) (chunks1 d) (perms_new x (sibling_new cp)), None).
Proof. exact copyfile_staged_shape_proof. Qed.
Print Assumptions copyfile_staged_shape.

Theorem copyfile_direct_shape : forall um s x d hl cp,
  e_kind x = KFile d hl -> canon s (e_loc x) = WOk cp -> node_at s cp = None ->
  copyfile um s x =
    (Create cp (file_create_mode um) :: appends cp (chunks1 d) ++ perms_new x cp, None).
Proof. exact copyfile_direct_shape_proof. Qed.
Print Assumptions copyfile_direct_shape.

(* a directory on the live filesystem is never overwritten by a non-directory entry *)
Theorem copyfile_refuses_dir : forall um s x cp n,
  canon s (e_loc x) = WOk cp -> node_at s cp = Some n -> is_dir_node n = true ->
  copyfile um s x = ([], Some E_CANNOT).
Proof. exact copyfile_refuses_dir_proof. Qed.
Print Assumptions copyfile_refuses_dir.

(* merged_exact, the WHOLE merge, by induction over both passes of merge_contents, on the
   decidable NoAlias domain (Exact_C18.noalias: the offset exists; distinct locations without
   "." / ".."; no symlink on the way to any location in the pre-existing tree and no symlink or
   other non-directory entry of the set above another entry; no '#new' name is, or is above, a
   location and none exists beforehand; no symlink entry over a live directory; members of a
   hard-link group go to free names and carry the same data; a bound location has its parents):
   if the merge returns normally and its ops all succeed then
   - every entry is installed: its location holds a node that realises it (type, data / target /
     device, mode, owner, mtime of files, fifos, devices), or, for a directory that existed,
     the old directory with its mode kept and the recorded owner;
   - every other path is unchanged, except that missing parent directories of entries may have
     been created (as directories). *)
Theorem merged_exact : forall i sf,
  noalias i = true -> merge_err i = None -> run_opt (merge_ops i) (i_fs i) = Some sf ->
  (forall x, In x (cset_of i) -> exists n, lookup sf (e_loc x) = Some n /\ installed (i_fs i) x n) /\
  (forall q, (forall x, In x (cset_of i) -> e_loc x <> q) ->
     ~ (lookup (i_fs i) q = None /\ exists x, In x (cset_of i) /\ pprefix q (e_loc x)) ->
     lookup sf q = lookup (i_fs i) q) /\
  (forall q, (forall x, In x (cset_of i) -> e_loc x <> q) -> lookup (i_fs i) q = None ->
     (exists x, In x (cset_of i) /\ pprefix q (e_loc x)) ->
     lookup sf q = None \/ is_diro (lookup sf q) = true).
Proof. exact merged_exact_proof. Qed.
Print Assumptions merged_exact.

(* exactness of one entry of ANY non-directory kind (file, symlink, fifo, device) created at a
   free name, resp. staged at '<cp>#new' and renamed over cp *)
Theorem entry_direct_exact : forall um s x fp c s',
  is_kdir x = false -> lookup s fp = None -> create_ops um s x fp = (c, None) ->
  run_opt (c ++ perms_new x fp) s = Some s' ->
  (exists n, lookup s' fp = Some n /\ realises x n) /\ (forall q, q <> fp -> lookup s' q = lookup s q).
Proof. exact entry_direct_exact_proof. Qed.
Print Assumptions entry_direct_exact.

Theorem entry_staged_exact : forall um s x cp c s',
  is_kdir x = false -> lookup s (sibling_new cp) = None ->
  create_ops um s x (sibling_new cp) = (c, None) ->
  run_opt (c ++ perms_new x (sibling_new cp) ++ [Rename (sibling_new cp) cp]) s = Some s' ->
  (exists n, lookup s' cp = Some n /\ realises x n) /\ lookup s' (sibling_new cp) = None /\
  (forall q, q <> cp -> q <> sibling_new cp -> lookup s' q = lookup s q).
Proof. exact entry_staged_exact_proof. Qed.
Print Assumptions entry_staged_exact.

(* a new directory (mkdir + ensure_perms twice) and an existing one (owner, mtime; mode kept) *)
Theorem newdir_exact : forall um s x cp s',
  e_kind x = KDir ->
  run_opt (Mkdir cp (dir_create_mode um x) :: perms_new x cp ++ perms_new x cp) s = Some s' ->
  lookup s cp = None /\ (exists n, lookup s' cp = Some n /\ realises x n) /\
  (forall q, q <> cp -> lookup s' q = lookup s q).
Proof. exact newdir_exact_proof. Qed.
Print Assumptions newdir_exact.

Theorem existingdir_exact : forall s x cp m u g t s',
  lookup s cp = Some (Dir m u g t) ->
  run_opt (perms_existing x cp cp (Dir m u g t)) s = Some s' ->
  (exists n, lookup s' cp = Some n /\ keeps_dir x (Dir m u g t) n) /\
  (forall q, q <> cp -> lookup s' q = lookup s q).
Proof. exact existingdir_exact_proof. Qed.
Print Assumptions existingdir_exact.

(* "files that shared an inode in the source are hardlinked": on the NoAlias domain two linkable
   entries (same source inode key, owner, mode, mtime) name one inode after the merge *)
Theorem merged_hardlinks_share_inode : forall i sf c x,
  noalias i = true -> merge_err i = None -> run_opt (merge_ops i) (i_fs i) = Some sf ->
  In c (cset_of i) -> In x (cset_of i) -> can_hl c x = true ->
  exists j, ino_at sf (e_loc c) = Some j /\ ino_at sf (e_loc x) = Some j.
Proof. exact merged_hardlinks_share_inode_proof. Qed.
Print Assumptions merged_hardlinks_share_inode.
